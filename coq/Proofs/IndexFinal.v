(** Combinations used by Props/C04.v and Props/C15.v: completeness after the
    byte-level round trip, preserved answers and statistics for BAI. *)
From Coq Require Import ZArith Lia List Bool.
From Hts Require Import Base.Prim Generated Model.Index Model.IndexSpec Model.IndexIO
  Proofs.IndexSort Proofs.Index Proofs.IndexStats Proofs.IndexIO Proofs.IndexIOFull Proofs.IndexPremises.
Open Scope Z_scope.

Lemma ix_add_unsorted ix r ix' : isorted ix = false -> ix_add ix r = Ok ix' -> isorted ix' = false.
Proof.
  intros Hs H. unfold ix_add in H.
  destruct (negb (ix_valid_pos (q_start r)) || negb (ix_valid_pos (q_end r - 1))); [discriminate|].
  destruct (q_placed r); simpl in H; [|inversion H; subst; exact Hs].
  destruct (q_rid r <? 0); [discriminate|]. destruct (q_rid r <? zlen (irefs ix) - 1); [discriminate|].
  destruct (inb _ _); [|discriminate]. unfold chk in H.
  destruct (ix_upd_bins _ _ _); destruct (q_start r <? _); try discriminate;
    destruct (ix_linear _ _ _ _); try discriminate; simpl in H; inversion H; subst; simpl; auto;
    destruct (_ >? _); auto.
Qed.

Lemma fold_add_unsorted rs : forall ix ix', isorted ix = false -> ix_fold_add ix rs = Ok ix' -> isorted ix' = false.
Proof.
  induction rs as [|r t IH]; intros ix ix' Hs H; simpl in H; [inversion H; subst; exact Hs|].
  destruct (ix_add ix r) as [ix1| | |] eqn:E; simpl in H; try discriminate.
  eapply IH; [|exact H]. eapply ix_add_unsorted; eassumption.
Qed.

(** What [bam.ReadIndex] returns for what [bam.WriteIndex] wrote. *)
Definition bai_reread (ix : index) : index := mkIdx (irefs (ix_sort ix)) (iunm ix) true io_maxint.

Theorem bai_io_preserves rs ix :
  ix_fold_add ix_empty rs = Ok ix -> idx_ranges ix ->
  bai_read (fst (bai_write ix)) = Ok (Some (bai_reread ix)) /\
  fst (bai_write (bai_reread ix)) = fst (bai_write ix) /\
  (forall rid beg end_, fst (ix_chunks (bai_reread ix) rid beg end_) = fst (ix_chunks ix rid beg end_)) /\
  ix_numrefs (bai_reread ix) = ix_numrefs ix /\ iunm (bai_reread ix) = iunm ix /\
  (forall rid, ix_refstats (bai_reread ix) rid = ix_refstats ix rid).
Proof.
  intros F R. pose proof (fold_add_unsorted rs ix_empty ix eq_refl F) as Hs.
  destruct (bai_roundtrip_unsorted ix Hs R) as (A & B).
  split; [exact A|]. split; [exact B|]. split.
  - intros. apply chunks_of_sorted_copy; reflexivity.
  - apply stats_of_sorted_copy; reflexivity.
Qed.

Theorem bai_complete_after_io :
  forall rs ix, ix_wf rs -> ix_bins_ok rs -> ix_fold_add ix_empty rs = Ok ix -> idx_ranges ix ->
    bai_read (fst (bai_write ix)) = Ok (Some (bai_reread ix)) /\
    forall rid beg end_ r, 0 <= beg < end_ -> end_ <= 2 ^ 29 ->
      In r rs -> ix_overlaps r rid beg end_ ->
      exists cs, fst (ix_chunks (bai_reread ix) rid beg end_) = Ok cs /\ ix_covers cs r.
Proof.
  intros rs ix W B F R. destruct (bai_io_preserves rs ix F R) as (A & _ & C & _).
  split; [exact A|]. intros rid beg end_ r Hq Hq2 Hr Ho. rewrite C.
  apply (bai_complete_reach bai_bin_containment_holds rs ix W B (reach_built rs ix F)); assumption.
Qed.

Theorem provided_strategies_cover :
  ix_strategy_covers (fun l => l) /\ ix_strategy_covers ix_adjacent /\ ix_strategy_covers ix_squash /\
  forall near, ix_strategy_covers (ix_compressor near).
Proof. exact (conj identity_covers (conj adjacent_covers (conj squash_covers compressor_covers))). Qed.
