(** Deepening round: CSI after write/read, statistics through the wrappers and
    through write/read, Add never fails (no bin hypothesis), the tile sort. *)
From Coq Require Import ZArith Lia List Bool.
From Hts Require Import Base.Prim Generated Model.Index Model.Tabix Model.Csi Model.IndexSpec Model.TabixSpec Model.IndexIO
  Proofs.IndexSort Proofs.Index Proofs.IndexStats Proofs.IndexIO Proofs.IndexIOFull Proofs.IndexPremises
  Proofs.IndexFinal Proofs.TabixIdx Proofs.TabixIO Proofs.CsiIdx Proofs.CsiLift Proofs.CsiPremise
  Proofs.CsiStats Proofs.CsiIO.
Open Scope Z_scope.

(** ** Add never fails: sorted, in range, monotone layout — nothing else *)
Theorem bai_add_total rs : ix_wf rs -> exists ix, ix_fold_add ix_empty rs = Ok ix.
Proof.
  intros W. destruct (fold_add_inv rs _ _ _ _ _ Inv_init W) as (ix & _ & _ & _ & _ & F & _). exists ix. exact F.
Qed.

Theorem csi_add_total ms dp aux ver rs :
  ix_wf_from (cs_limit ms dp) (-1) 0 0 rs -> exists ix, cs_fold_add (mkCsi aux ver [] None ms dp false 0) rs = Ok ix.
Proof.
  intros W.
  assert (I0 : CInv ms dp (mkCsi aux ver [] None ms dp false 0) [] (-1) 0 0).
  { constructor; simpl; try reflexivity; try lia; try (intros ? []); constructor. }
  destruct (cfold_add_inv ms dp rs _ _ _ _ _ I0 W) as (ix & _ & _ & _ & _ & F & _). exists ix. exact F.
Qed.

(** ** CSI after write/read *)
Lemma cs_add_unsorted ix r ix' : c_sorted ix = false -> cs_add ix r = Ok ix' -> c_sorted ix' = false.
Proof.
  intros Hs H. unfold cs_add in H.
  destruct (negb (cs_valid_pos (q_start r) (c_ms ix) (c_dp ix)) || negb (cs_valid_pos (q_end r - 1) (c_ms ix) (c_dp ix)));
    [discriminate|].
  destruct (q_placed r); cbn [negb] in H; cbv iota in H; [|inversion H; subst; exact Hs].
  destruct (q_rid r <? zlen (c_refs ix) - 1); [discriminate|].
  destruct (inb _ _); [|discriminate]. unfold chk in H.
  destruct (cs_upd_bins _ _ _); destruct (q_start r <? _); try discriminate; inversion H; subst; simpl; auto.
Qed.

Lemma cs_fold_unsorted rs : forall ix ix', c_sorted ix = false -> cs_fold_add ix rs = Ok ix' -> c_sorted ix' = false.
Proof.
  induction rs as [|r t IH]; intros ix ix' Hs H; simpl in H; [inversion H; subst; exact Hs|].
  destruct (cs_add ix r) as [ix1| | |] eqn:E; simpl in H; try discriminate.
  eapply IH; [|exact H]. eapply cs_add_unsorted; eassumption.
Qed.

Theorem csi_io_preserves ms dp aux ver rs ix :
  cs_fold_add (mkCsi aux ver [] None ms dp false 0) rs = Ok ix -> csi_ranges ix ->
  csi_read (fst (csi_write ix)) = Ok (Some (cs_reread ix)) /\
  fst (csi_write (cs_reread ix)) = fst (csi_write ix) /\
  (forall rid beg end_, fst (cs_chunks (cs_reread ix) rid beg end_) = fst (cs_chunks ix rid beg end_)) /\
  cs_numrefs (cs_reread ix) = cs_numrefs ix /\ c_unm (cs_reread ix) = c_unm ix /\
  (forall rid, cs_refstats (cs_reread ix) rid = cs_refstats ix rid).
Proof.
  intros F R. pose proof (cs_fold_unsorted rs (mkCsi aux ver [] None ms dp false 0) ix eq_refl F) as Hs.
  destruct (csi_roundtrip_unsorted ix Hs R) as (A & B).
  split; [exact A|]. split; [exact B|]. split; [intros; apply cs_reread_chunks|apply cs_reread_stats].
Qed.

Theorem csi_complete_after_io ms dp :
  0 <= ms -> 0 <= dp <= 10 -> ms + 3 * dp <= 62 ->
  forall aux ver rs ix, ix_wf_from (cs_limit ms dp) (-1) 0 0 rs ->
    cs_fold_add (mkCsi aux ver [] None ms dp false 0) rs = Ok ix -> csi_ranges ix ->
    csi_read (fst (csi_write ix)) = Ok (Some (cs_reread ix)) /\
    forall rid beg end_ r, 0 <= beg < end_ -> end_ <= cs_limit ms dp + 2 ->
      In r rs -> ix_overlaps r rid beg end_ ->
      ix_covers (fst (cs_chunks (cs_reread ix) rid beg end_)) r.
Proof.
  intros H1 H2 H3 aux ver rs ix W F R.
  destruct (csi_io_preserves ms dp aux ver rs ix F R) as (A & _ & C & _).
  split; [exact A|]. intros rid beg end_ r Hq Hq2 Hr Ho. rewrite C.
  apply (csi_complete_reach_gen ms dp (csi_bin_containment_holds ms dp H1 H2 H3) (csi_geo_ok ms dp H1 H2 H3) aux ver rs ix W
           (creach_built ms dp aux ver rs ix F)); assumption.
Qed.

(** ** tabix statistics, also after write/read *)
Theorem tabix_stats hdr nrs :
  ix_wf (tb_assign [] nrs) ->
  exists t, tb_fold_add (tb_new hdr) nrs = Ok t /\
    let rs := tb_assign [] nrs in
    (ix_numrefs (t_idx t) = ix_true_numrefs rs /\
     (nrs <> [] -> iunm (t_idx t) = Some (ix_true_unplaced rs)) /\
     (forall rid, 0 <= rid -> ix_refstats (t_idx t) rid = ix_true_stats rid rs)) /\
    (ix_numrefs (t_idx (tbx_reread t)) = ix_numrefs (t_idx t) /\
     iunm (t_idx (tbx_reread t)) = iunm (t_idx t) /\
     forall rid, ix_refstats (t_idx (tbx_reread t)) rid = ix_refstats (t_idx t) rid).
Proof.
  intros W. destruct (bai_add_total _ W) as (ix & F).
  destruct (tb_sim nrs (tb_new hdr) ix eq_refl F) as (t & Ft & Hix & _ & _).
  exists t. split; [exact Ft|]. cbv zeta. split.
  - destruct (tabix_stats_true hdr nrs t Ft ix F) as (_ & A & B & C). rewrite Hix. auto.
  - unfold tbx_reread. cbn [t_idx]. apply stats_of_sorted_copy; reflexivity.
Qed.

(** ** Index.sort on the tile offsets *)
Theorem sort_tiles_facts (l : list Z) :
  length (ix_sort_intv l) = length l /\
  (forall v n, (n <= length l)%nat -> prefix_le v n l -> prefix_le v n (ix_sort_intv l)) /\
  (forallb (fun x => 0 <=? x) l = true ->
   ix_sort_intv l = filter (fun x => x =? 0) l ++ ix_isort (fun x => x) (filter (fun x => negb (x =? 0)) l)).
Proof.
  split; [rewrite ix_sort_intv_eq; apply ix_isort_length|]. split.
  - intros v n Hn Hp. rewrite ix_sort_intv_eq. apply ix_isort_prefix; assumption.
  - intros H. unfold ix_sort_intv. rewrite H. reflexivity.
Qed.

(** ** the public Chunks: the index's MergeStrategy applied to the raw answer *)
Lemma ix_chunks_sorted ix rid beg end_ cs :
  fst (ix_chunks ix rid beg end_) = Ok cs -> key_sorted fst cs.
Proof.
  unfold ix_chunks. destruct ((rid <? 0) || (rid >=? zlen (irefs ix))); [discriminate|].
  destruct ((beg <? 0) || (end_ <? beg)); [discriminate|]. cbn [fst].
  unfold ix_chunks_of. destruct (_ >=? _); [discriminate|]. unfold chk. destruct (0 <=? _); [|discriminate].
  intros H. inversion H. apply ix_isort_sorted.
Qed.

Theorem bai_complete_public_gen s :
  ix_strategy_covers s ->
  forall rs ix, ix_wf rs -> ix_bins_ok rs -> reach rs ix ->
  forall rid beg end_ r, 0 <= beg < end_ -> end_ <= 2 ^ 29 ->
    In r rs -> ix_overlaps r rid beg end_ ->
    exists cs, fst (ix_chunks ix rid beg end_) = Ok cs /\ ix_covers (s cs) r.
Proof.
  intros Hs rs ix W B Hre rid beg end_ r Hq Hq2 Hr Ho.
  destruct (bai_complete_reach bai_bin_containment_holds rs ix W B Hre rid beg end_ r Hq Hq2 Hr Ho)
    as (cs & E & (c & Hc & H1 & H2)).
  exists cs. split; [exact E|].
  destruct (Hs cs c (key_sorted_begin cs (ix_chunks_sorted _ _ _ _ _ E)) Hc) as (c' & Hc' & A & A').
  exists c'. split; [exact Hc'|lia].
Qed.
