(** C04 / C15 for interleaved histories: Add, sort (WriteIndex) and queries in
    any order.  The invariant of Proofs/Index.v survives sorting, so every state
    of such a history accepts the next record of a well-formed list, answers
    completely, and round-trips through write/read. *)
From Coq Require Import ZArith Lia List Bool Permutation Sorted.
From Hts Require Import Base.Prim Base.Bits Generated Model.Index Model.IndexSpec Model.IndexIO
  Proofs.IndexSort Proofs.Index Proofs.IndexStats Proofs.IndexIO Proofs.IndexIOFull Proofs.IndexPremises Proofs.IndexFinal.
Open Scope Z_scope.

Lemma ref_sorted_sort r : ref_sorted (ix_sort_ref r).
Proof.
  unfold ref_sorted, ix_sort_ref. simpl. split; [apply ix_isort_sorted|]. split.
  - apply Forall_isort. apply Forall_forall. intros b Hb. apply in_map_iff in Hb. destruct Hb as (b0 & <- & _).
    simpl. apply ix_isort_sorted.
  - rewrite ix_sort_intv_eq. apply ix_isort_sorted.
Qed.

Lemma ref_bounded_sort lend r : ref_bounded lend r -> ref_bounded lend (ix_sort_ref r).
Proof.
  intros (A & B & C). unfold ix_sort_ref. split; [|split]; simpl.
  - intros b c Hb Hc. apply ix_isort_in in Hb. apply in_map_iff in Hb. destruct Hb as (b0 & <- & Hb0).
    simpl in Hc. apply ix_isort_in in Hc. exact (A b0 c Hb0 Hc).
  - intros x Hx. rewrite ix_sort_intv_eq in Hx. apply ix_isort_in in Hx. exact (B x Hx).
  - eapply Permutation_NoDup; [apply Permutation_map, ix_isort_perm|]. rewrite map_bnum_sort_bin. exact C.
Qed.

Lemma Inv_sort ix seen a b c : Inv ix seen a b c -> Inv (ix_sort ix) seen a b c.
Proof.
  intros I. unfold ix_sort. destruct (isorted ix) eqn:E; [exact I|].
  destruct I as [Ilen Ilrid Ilend Ilast Isrt Irefs Iseen]. constructor; simpl; try assumption.
  - unfold zlen in *. rewrite map_length. exact Ilen.
  - intros _. apply Forall_forall. intros r Hr. apply in_map_iff in Hr. destruct Hr as (r0 & <- & _). apply ref_sorted_sort.
  - apply Forall_forall. intros r Hr. apply in_map_iff in Hr. destruct Hr as (r0 & <- & Hr0).
    rewrite Forall_forall in Irefs. apply ref_bounded_sort. apply Irefs. exact Hr0.
  - intros R HR. destruct (Iseen R HR) as (A & B & C). split; [exact A|]. split; [exact B|].
    rewrite nth_map_ref by reflexivity. apply rec_in_ref_sort. exact C.
Qed.

(** ** the accumulators of [ix_wf_from] after a prefix *)
Fixpoint ix_ghost (a b c : Z) (rs : list irec) : Z * Z * Z :=
  match rs with
  | [] => (a, b, c)
  | r :: t => if q_placed r then ix_ghost (q_rid r) (q_start r) (q_ce r) t else ix_ghost a b c t
  end.

Lemma wf_from_app lim rs1 : forall a b c rs2,
  ix_wf_from lim a b c (rs1 ++ rs2) <->
  ix_wf_from lim a b c rs1 /\ (let '(a', b', c') := ix_ghost a b c rs1 in ix_wf_from lim a' b' c' rs2).
Proof.
  induction rs1 as [|r t IH]; intros a b c rs2; simpl; [tauto|].
  destruct (q_placed r).
  - rewrite IH. tauto.
  - rewrite IH. tauto.
Qed.

Lemma ghost_app rs1 : forall a b c rs2, ix_ghost a b c (rs1 ++ rs2) = (let '(a', b', c') := ix_ghost a b c rs1 in ix_ghost a' b' c' rs2).
Proof.
  induction rs1 as [|r t IH]; intros a b c rs2; simpl; [destruct (ix_ghost a b c rs2) as [[? ?] ?]; reflexivity|].
  destruct (q_placed r); apply IH.
Qed.

(** ** histories *)
Inductive hist : list irec -> index -> Prop :=
| hist_empty : hist [] ix_empty
| hist_add rs ix r ix' : hist rs ix -> ix_add ix r = Ok ix' -> hist (rs ++ [r]) ix'
| hist_sort rs ix : hist rs ix -> hist rs (ix_sort ix)                                   (* WriteIndex *)
| hist_query rs ix rid beg end_ : hist rs ix -> hist rs (snd (ix_chunks ix rid beg end_)).

Lemma hist_Inv rs ix :
  hist rs ix -> ix_wf rs ->
  exists seen, (let '(a, b, c) := ix_ghost (-1) 0 0 rs in Inv ix seen a b c) /\
               (forall R, In R rs -> q_placed R = true -> In R seen).
Proof.
  intros H. induction H as [|rs ix r ix' _ IH Hadd|rs ix _ IH|rs ix rid beg end_ _ IH]; intros W.
  - exists []. split; [exact Inv_init|intros ? []].
  - unfold ix_wf in W. apply wf_from_app in W. destruct W as (W1 & W2).
    destruct (IH W1) as (seen & I & S). rewrite ghost_app.
    destruct (ix_ghost (-1) 0 0 rs) as [[a b] c]. simpl in W2. simpl.
    destruct (q_placed r) eqn:Hp.
    + destruct W2 as (A1 & A2 & A3 & A4 & A5 & A6 & _).
      destruct (add_placed_inv ix seen a b c r I Hp A1 A2 A3 A4 A5 A6) as (ix2 & E & I2).
      rewrite Hadd in E. inversion E; subst ix2. exists (r :: seen). split; [exact I2|].
      intros R HR HpR. apply in_app_or in HR. destruct HR as [HR|[<-|[]]]; [right; apply S; assumption|left; reflexivity].
    + destruct W2 as (A1 & A2 & _).
      destruct (add_unplaced_inv ix seen a b c r I Hp A1 A2) as (ix2 & E & I2).
      rewrite Hadd in E. inversion E; subst ix2. exists seen. split; [exact I2|].
      intros R HR HpR. apply in_app_or in HR. destruct HR as [HR|[<-|[]]]; [apply S; assumption|congruence].
  - destruct (IH W) as (seen & I & S). exists seen. split; [|exact S].
    destruct (ix_ghost (-1) 0 0 rs) as [[a b] c]. apply Inv_sort. exact I.
  - destruct (IH W) as (seen & I & S). exists seen. split; [|exact S].
    destruct (ix_ghost (-1) 0 0 rs) as [[a b] c]. unfold ix_chunks.
    destruct ((rid <? 0) || (rid >=? zlen (irefs ix))); simpl; [exact I|].
    destruct ((beg <? 0) || (end_ <? beg)); simpl; [exact I|apply Inv_sort; exact I].
Qed.

(** In every state of a history the next record of a well-formed list is accepted. *)
Theorem hist_add_total rs ix r :
  hist rs ix -> ix_wf (rs ++ [r]) -> exists ix', ix_add ix r = Ok ix'.
Proof.
  intros H W. unfold ix_wf in W. apply wf_from_app in W. destruct W as (W1 & W2).
  destruct (hist_Inv rs ix H W1) as (seen & I & _).
  destruct (ix_ghost (-1) 0 0 rs) as [[a b] c]. simpl in W2.
  destruct (q_placed r) eqn:Hp.
  - destruct W2 as (A1 & A2 & A3 & A4 & A5 & A6 & _).
    destruct (add_placed_inv ix seen a b c r I Hp A1 A2 A3 A4 A5 A6) as (ix2 & E & _). exists ix2. exact E.
  - destruct W2 as (A1 & A2 & _).
    destruct (add_unplaced_inv ix seen a b c r I Hp A1 A2) as (ix2 & E & _). exists ix2. exact E.
Qed.

(** In every state of a history (and after any covering MergeChunks applied to
    it) every query covers the overlapping records added so far. *)
Theorem hist_complete rs ix :
  hist rs ix -> ix_wf rs -> ix_bins_ok rs ->
  forall s, ix_strategy_covers s ->
  forall rid beg end_ r, 0 <= beg < end_ -> end_ <= 2 ^ 29 ->
    In r rs -> ix_overlaps r rid beg end_ ->
    (exists cs, fst (ix_chunks ix rid beg end_) = Ok cs /\ ix_covers cs r) /\
    (exists cs, fst (ix_chunks (ix_merge s ix) rid beg end_) = Ok cs /\ ix_covers cs r).
Proof.
  intros H W B s Hs rid beg end_ r Hq Hq2 Hr Ho.
  destruct (hist_Inv rs ix H W) as (seen & I & S).
  destruct (ix_ghost (-1) 0 0 rs) as [[a b] c].
  pose proof (Inv_QInv _ _ _ _ _ I) as Q.
  assert (Hin : In r seen) by (apply S; [exact Hr|destruct Ho; assumption]).
  assert (Hb : internal_BinFor (q_start r) (q_end r) = Ok (q_bin r)).
  { unfold ix_bins_ok in B. rewrite Forall_forall in B. apply B; [exact Hr|destruct Ho; assumption]. }
  split.
  - apply (query_complete bai_bin_containment_holds ix seen r rid beg end_ Q Hin Hb Ho Hq Hq2).
  - apply (query_complete bai_bin_containment_holds (ix_merge s ix) seen r rid beg end_ (QInv_merge s ix seen Hs Q) Hin Hb Ho Hq Hq2).
Qed.

(** ** write / read in every state of a history *)
Lemma Inv_fits ix seen a b c : Inv ix seen a b c -> idx_ranges ix -> idx_fits (ix_sort ix).
Proof.
  intros I R. destruct (isorted ix) eqn:E; [|apply ranges_fits_sorted; assumption].
  rewrite (ix_sort_sorted_id ix E). destruct I as [_ _ _ _ Isrt _ _]. specialize (Isrt E).
  destruct R as (Hr & Hl & Hu). split; [|split; assumption].
  apply Forall_forall. intros r Hin. rewrite Forall_forall in Hr, Isrt.
  destruct (Hr r Hin) as (A & B & C & D & F). destruct (Isrt r Hin) as (S1 & S2 & S3).
  unfold ref_fits. repeat (split; try assumption).
  apply Forall_forall. intros b0 Hb0. rewrite Forall_forall in A, S2.
  destruct (A b0 Hb0) as (A1 & A2 & A3 & A4). unfold bin_fits. repeat (split; try assumption). apply S2. exact Hb0.
Qed.

Theorem hist_io_roundtrip rs ix :
  hist rs ix -> ix_wf rs -> idx_ranges ix ->
  bai_read (fst (bai_write ix)) = Ok (Some (bai_reread ix)) /\
  fst (bai_write (bai_reread ix)) = fst (bai_write ix) /\
  (forall rid beg end_, fst (ix_chunks (bai_reread ix) rid beg end_) = fst (ix_chunks ix rid beg end_)) /\
  ix_numrefs (bai_reread ix) = ix_numrefs ix /\ iunm (bai_reread ix) = iunm ix /\
  (forall rid, ix_refstats (bai_reread ix) rid = ix_refstats ix rid).
Proof.
  intros H W R. destruct (hist_Inv rs ix H W) as (seen & I & _).
  destruct (ix_ghost (-1) 0 0 rs) as [[a b] c].
  split; [apply bai_read_write; eapply Inv_fits; eassumption|].
  split; [apply bai_write_read_write|]. split.
  - intros. apply chunks_of_sorted_copy; reflexivity.
  - apply stats_of_sorted_copy; reflexivity.
Qed.

(** ** the query validation *)
Lemma bai_query_validation_gen ix rid beg end_ :
  0 <= rid < zlen (irefs ix) ->
  ((beg < 0 \/ end_ < beg) -> ix_chunks ix rid beg end_ = (Err 2, ix)) /\
  (0 <= beg <= 2 ^ 29 -> 2 ^ 29 <= end_ -> ix_chunks ix rid beg end_ = ix_chunks ix rid beg (2 ^ 29)).
Proof.
  intros Hr. unfold ix_chunks.
  destruct (rid <? 0) eqn:E1; [lia|]. destruct (rid >=? zlen (irefs ix)) eqn:E2; [lia|]. cbn [orb]. split.
  - intros H. destruct (Z.ltb_spec beg 0); destruct (Z.ltb_spec end_ beg); cbn [orb]; try reflexivity. lia.
  - intros H1 H2. destruct (Z.ltb_spec beg 0); [lia|]. destruct (Z.ltb_spec end_ beg); [lia|].
    destruct (Z.ltb_spec (2 ^ 29) beg); [lia|]. cbn [orb].
    unfold ix_clip_end. change (2 ^ internal_indexWordBits) with (2 ^ 29).
    rewrite !Z.gtb_ltb. destruct (Z.ltb_spec (2 ^ 29) end_); destruct (Z.ltb_spec (2 ^ 29) (2 ^ 29)); try reflexivity; try lia.
    assert (end_ = 2 ^ 29) by lia. subst. reflexivity.
Qed.
