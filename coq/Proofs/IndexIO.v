(** C15, byte level: every field, chunk and chunk list written by the index
    writers is read back by the readers (the building blocks of the round trip). *)
From Coq Require Import ZArith Lia List Bool.
From Hts Require Import Base.Prim Base.Bits Generated Model.Index Model.IndexIO.
Open Scope Z_scope.

Lemma io_take_app a r : io_take (length a) (a ++ r) = Some (a, r).
Proof. induction a as [|h t IH]; simpl; [reflexivity|]. rewrite IH. reflexivity. Qed.

Lemma io_le_length n x : length (io_le n x) = n.
Proof. revert x; induction n; intros; simpl; auto. Qed.

Lemma io_unle_le n x : 0 <= x -> io_unle (io_le n x) = x mod 256 ^ Z.of_nat n.
Proof.
  revert x. induction n as [|k IH]; intros x Hx.
  - simpl. rewrite Z.mod_1_r. reflexivity.
  - cbn [io_le io_unle]. rewrite IH by (apply Z.shiftr_nonneg; exact Hx).
    change 255 with (2 ^ 8 - 1). rewrite land_ones_mod by lia. rewrite shiftr_div by lia.
    change (2 ^ 8) with 256.
    replace (256 ^ Z.of_nat (S k)) with (256 * 256 ^ Z.of_nat k)
      by (rewrite Nat2Z.inj_succ, Z.pow_succ_r by lia; reflexivity).
    rewrite Z.rem_mul_r by lia. reflexivity.
Qed.

Lemma rd_bytes_app a r : rd_bytes (length a) (a ++ r) = Ok (a, r).
Proof. unfold rd_bytes. rewrite io_take_app. reflexivity. Qed.

Lemma rd_u64_wr x rest : 0 <= x < 2 ^ 64 -> rd_u64 (io_u64 x ++ rest) = Ok (x, rest).
Proof.
  intros Hx. unfold rd_u64, rd_bind, io_u64.
  replace 8%nat with (length (io_le 8 (Z.land x io_mask64))) at 1 by apply io_le_length.
  rewrite rd_bytes_app. unfold rd_ret. f_equal. f_equal.
  change io_mask64 with (2 ^ 64 - 1). rewrite land_ones_mod by lia.
  rewrite io_unle_le by (apply Z.mod_pos_bound; lia).
  change (256 ^ Z.of_nat 8) with (2 ^ 64). rewrite Z.mod_mod by lia. apply Z.mod_small. exact Hx.
Qed.

Lemma rd_u32_wr x rest : 0 <= x < 2 ^ 32 -> rd_u32 (io_u32 x ++ rest) = Ok (x, rest).
Proof.
  intros Hx. unfold rd_u32, rd_bind, io_u32.
  replace 4%nat with (length (io_le 4 (Z.land x io_mask32))) at 1 by apply io_le_length.
  rewrite rd_bytes_app. unfold rd_ret. f_equal. f_equal.
  change io_mask32 with (2 ^ 32 - 1). rewrite land_ones_mod by lia.
  rewrite io_unle_le by (apply Z.mod_pos_bound; lia).
  change (256 ^ Z.of_nat 4) with (2 ^ 32). rewrite Z.mod_mod by lia. apply Z.mod_small. exact Hx.
Qed.

(** A count (int32) that is non-negative is read back unchanged. *)
Lemma rd_i32_wr x rest : 0 <= x < 2 ^ 31 -> rd_i32 (io_u32 x ++ rest) = Ok (x, rest).
Proof.
  intros Hx. unfold rd_i32, rd_bind, io_u32.
  replace 4%nat with (length (io_le 4 (Z.land x io_mask32))) at 1 by apply io_le_length.
  rewrite rd_bytes_app. unfold rd_ret. f_equal. f_equal.
  change io_mask32 with (2 ^ 32 - 1). rewrite land_ones_mod by lia.
  rewrite io_unle_le by (apply Z.mod_pos_bound; lia).
  change (256 ^ Z.of_nat 4) with (2 ^ 32). rewrite Z.mod_mod by lia. rewrite (Z.mod_small x) by lia.
  unfold s32, wraps. change (2 ^ (32 - 1)) with (2 ^ 31). rewrite Z.mod_small by lia. lia.
Qed.

Definition chunk_fits (c : chunk) : Prop := 0 <= fst c < 2 ^ 64 /\ 0 <= snd c < 2 ^ 64.

Lemma rd_chunk_wr c rest : chunk_fits c -> rd_chunk (wr_chunk c ++ rest) = Ok (c, rest).
Proof.
  intros (H1 & H2). unfold rd_chunk, wr_chunk, rd_bind. rewrite <- app_assoc.
  rewrite rd_u64_wr by exact H1. rewrite rd_u64_wr by exact H2. unfold rd_ret. destruct c; reflexivity.
Qed.

Lemma rd_rep_chunks cs rest :
  Forall chunk_fits cs ->
  rd_rep (length cs) rd_chunk (flat_map wr_chunk cs ++ rest) = Ok (cs, rest).
Proof.
  induction cs as [|c t IH]; intros H; [reflexivity|].
  inversion H; subst. cbn [length flat_map rd_rep]. unfold rd_bind at 1. rewrite <- app_assoc.
  rewrite rd_chunk_wr by assumption. unfold rd_bind at 1. rewrite IH by assumption. reflexivity.
Qed.

(** [readChunks] after [writeChunks]: the chunk list comes back sorted by begin offset. *)
Theorem chunks_roundtrip cs rest :
  Forall chunk_fits cs -> zlen cs < 2 ^ 31 ->
  (n <- rd_i32 ;; rd_chunks n) (wr_chunks cs ++ rest) = Ok (ix_isort fst cs, rest).
Proof.
  intros Hf Hl. unfold wr_chunks, rd_bind at 1. rewrite <- app_assoc.
  rewrite rd_i32_wr by (pose proof (zlen_nonneg cs); lia).
  unfold rd_chunks. destruct (zlen cs =? 0) eqn:E.
  - apply Z.eqb_eq in E. destruct cs; [reflexivity|]. unfold zlen in E. simpl in E. lia.
  - unfold rd_bind, rd_count. destruct (zlen cs <? 0) eqn:E2; [pose proof (zlen_nonneg cs); lia|].
    replace (Z.to_nat (zlen cs)) with (length cs) by (unfold zlen; lia).
    rewrite rd_rep_chunks by exact Hf. reflexivity.
Qed.
