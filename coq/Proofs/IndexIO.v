(** C15, byte level: every field, chunk and chunk list written by the index
    writers is read back by the readers (the building blocks of the round trip). *)
From Coq Require Import ZArith Lia List Bool.
From Hts Require Import Base.Prim Base.Bits Generated Model.Index Model.IndexIO.
Open Scope Z_scope.

Lemma io_take_app a r : io_take (length a) (a ++ r) = Some (a, r).
Proof. induction a as [|h t IH]; simpl; [reflexivity|]. rewrite IH. reflexivity. Qed.

Lemma io_le_length n x : length (io_le n x) = n.
Proof. revert x; induction n; intros; simpl; auto. Qed.

Lemma io_unle_le n x : 0 <= x -> io_unle (io_le n x) = x mod 256 ^ Z.of_nat n.
Proof.
  revert x. induction n as [|k IH]; intros x Hx.
  - simpl. rewrite Z.mod_1_r. reflexivity.
  - cbn [io_le io_unle]. rewrite IH by (apply Z.shiftr_nonneg; exact Hx).
    change 255 with (2 ^ 8 - 1). rewrite land_ones_mod by lia. rewrite shiftr_div by lia.
    change (2 ^ 8) with 256.
    replace (256 ^ Z.of_nat (S k)) with (256 * 256 ^ Z.of_nat k)
      by (rewrite Nat2Z.inj_succ, Z.pow_succ_r by lia; reflexivity).
    rewrite Z.rem_mul_r by lia. reflexivity.
Qed.

Lemma rd_bytes_app a r : rd_bytes (length a) (a ++ r) = Ok (a, r).
Proof. unfold rd_bytes. rewrite io_take_app. reflexivity. Qed.

Lemma rd_u64_wr x rest : 0 <= x < 2 ^ 64 -> rd_u64 (io_u64 x ++ rest) = Ok (x, rest).
Proof.
  intros Hx. unfold rd_u64, rd_bind, io_u64.
  replace 8%nat with (length (io_le 8 (Z.land x io_mask64))) at 1 by apply io_le_length.
  rewrite rd_bytes_app. unfold rd_ret. f_equal. f_equal.
  change io_mask64 with (2 ^ 64 - 1). rewrite land_ones_mod by lia.
  rewrite io_unle_le by (apply Z.mod_pos_bound; lia).
  change (256 ^ Z.of_nat 8) with (2 ^ 64). rewrite Z.mod_mod by lia. apply Z.mod_small. exact Hx.
Qed.

Lemma rd_u32_wr x rest : 0 <= x < 2 ^ 32 -> rd_u32 (io_u32 x ++ rest) = Ok (x, rest).
Proof.
  intros Hx. unfold rd_u32, rd_bind, io_u32.
  replace 4%nat with (length (io_le 4 (Z.land x io_mask32))) at 1 by apply io_le_length.
  rewrite rd_bytes_app. unfold rd_ret. f_equal. f_equal.
  change io_mask32 with (2 ^ 32 - 1). rewrite land_ones_mod by lia.
  rewrite io_unle_le by (apply Z.mod_pos_bound; lia).
  change (256 ^ Z.of_nat 4) with (2 ^ 32). rewrite Z.mod_mod by lia. apply Z.mod_small. exact Hx.
Qed.

(** A count (int32) that is non-negative is read back unchanged. *)
Lemma rd_i32_wr x rest : 0 <= x < 2 ^ 31 -> rd_i32 (io_u32 x ++ rest) = Ok (x, rest).
Proof.
  intros Hx. unfold rd_i32, rd_bind, io_u32.
  replace 4%nat with (length (io_le 4 (Z.land x io_mask32))) at 1 by apply io_le_length.
  rewrite rd_bytes_app. unfold rd_ret. f_equal. f_equal.
  change io_mask32 with (2 ^ 32 - 1). rewrite land_ones_mod by lia.
  rewrite io_unle_le by (apply Z.mod_pos_bound; lia).
  change (256 ^ Z.of_nat 4) with (2 ^ 32). rewrite Z.mod_mod by lia. rewrite (Z.mod_small x) by lia.
  unfold s32, wraps. change (2 ^ (32 - 1)) with (2 ^ 31). rewrite Z.mod_small by lia. lia.
Qed.

Definition chunk_fits (c : chunk) : Prop := 0 <= fst c < 2 ^ 64 /\ 0 <= snd c < 2 ^ 64.

Lemma rd_chunk_wr c rest : chunk_fits c -> rd_chunk (wr_chunk c ++ rest) = Ok (c, rest).
Proof.
  intros (H1 & H2). unfold rd_chunk, wr_chunk, rd_bind. rewrite <- app_assoc.
  rewrite rd_u64_wr by exact H1. rewrite rd_u64_wr by exact H2. unfold rd_ret. destruct c; reflexivity.
Qed.

Lemma rd_rep_chunks cs rest :
  Forall chunk_fits cs ->
  rd_rep (length cs) rd_chunk (flat_map wr_chunk cs ++ rest) = Ok (cs, rest).
Proof.
  induction cs as [|c t IH]; intros H; [reflexivity|].
  inversion H; subst. cbn [length flat_map rd_rep]. unfold rd_bind at 1. rewrite <- app_assoc.
  rewrite rd_chunk_wr by assumption. unfold rd_bind at 1. rewrite IH by assumption. reflexivity.
Qed.

(** [readChunks] after [writeChunks]: the chunk list comes back sorted by begin offset. *)
Theorem chunks_roundtrip cs rest :
  Forall chunk_fits cs -> zlen cs < 2 ^ 31 ->
  (n <- rd_i32 ;; rd_chunks n) (wr_chunks cs ++ rest) = Ok (ix_isort fst cs, rest).
Proof.
  intros Hf Hl. unfold wr_chunks, rd_bind at 1. rewrite <- app_assoc.
  rewrite rd_i32_wr by (pose proof (zlen_nonneg cs); lia).
  unfold rd_chunks. destruct (zlen cs =? 0) eqn:E.
  - apply Z.eqb_eq in E. destruct cs; [reflexivity|]. unfold zlen in E. simpl in E. lia.
  - unfold rd_bind, rd_count. destruct (zlen cs <? 0) eqn:E2; [pose proof (zlen_nonneg cs); lia|].
    replace (Z.to_nat (zlen cs)) with (length cs) by (unfold zlen; lia).
    rewrite rd_rep_chunks by exact Hf. reflexivity.
Qed.

(** ** the empty tabix index *)
From Hts Require Import Model.Tabix.

Lemma rd_bytes_wr a rest : rd_bytes (length a) (a ++ rest) = Ok (a, rest).
Proof. apply rd_bytes_app. Qed.

Definition fmt_ok (f z : Z) : bool :=
  let v := Z.lor (u8 f) (if z =? 0 then 0 else 65536) in
  (0 <=? v) && (v <? 2 ^ 31) && (u8 v =? f) && ((if Z.land v 65536 =? 0 then 0 else 1) =? z).

Lemma format_field f z :
  0 <= f < 256 -> (z = 0 \/ z = 1) ->
  let v := Z.lor (u8 f) (if z =? 0 then 0 else 65536) in
  0 <= v < 2 ^ 31 /\ u8 v = f /\ (if Z.land v 65536 =? 0 then 0 else 1) = z.
Proof.
  intros Hf Hz.
  assert (B : fmt_ok f z = true).
  { destruct Hz as [-> | ->].
    - apply (byte_forall (fun f => fmt_ok f 0)); [vm_compute; reflexivity|exact Hf].
    - apply (byte_forall (fun f => fmt_ok f 1)); [vm_compute; reflexivity|exact Hf]. }
  unfold fmt_ok in B. cbv zeta in *.
  apply andb_true_iff in B as [B B4]. apply andb_true_iff in B as [B B3]. apply andb_true_iff in B as [B1 B2].
  apply Z.leb_le in B1. apply Z.ltb_lt in B2. apply Z.eqb_eq in B3. apply Z.eqb_eq in B4. auto.
Qed.

Lemma rd_bind_ok {A B} (r : rd A) (k : A -> rd B) s a s' :
  r s = Ok (a, s') -> rd_bind r k s = k a s'.
Proof. intros H. unfold rd_bind. rewrite H. reflexivity. Qed.

Ltac rd_step L := erewrite rd_bind_ok by (apply L; unfold zlen; cbn [length]; lia).

Lemma tabix_empty_roundtrip f z nc bc ec meta skip :
  0 <= f < 256 -> (z = 0 \/ z = 1) ->
  0 <= nc < 2 ^ 31 -> 0 <= bc < 2 ^ 31 -> 0 <= ec < 2 ^ 31 -> 0 <= meta < 2 ^ 31 -> 0 <= skip < 2 ^ 31 ->
  tbx_read (fst (tbx_write (tb_new [f; z; nc; bc; ec; meta; skip])))
  = Ok (Some (mkTbx [] [] [f; z; nc; bc; ec; meta; skip] (mkIdx [] None true io_maxint))).
Proof.
  intros Hf Hz Hnc Hbc Hec Hme Hsk.
  destruct (format_field f z Hf Hz) as (V1 & V2 & V3).
  set (v := Z.lor (u8 f) (if z =? 0 then 0 else 65536)) in *.
  unfold tbx_write, tb_new. cbn [t_idx t_hdr t_names t_map wr_core ix_sort ix_empty isorted irefs iunm map flat_map app
                                   wr_trailer hdr_get nth fold_left fst zlen length].
  fold v. change (Z.of_nat 0) with 0. change (s32 0) with 0.
  unfold tbx_read.
  erewrite rd_bind_ok by (exact (rd_bytes_app tbi_magic _)).
  change (negb (io_bytes_eqb tbi_magic tbi_magic)) with false. cbv iota.
  do 8 (rd_step rd_i32_wr).
  erewrite rd_bind_ok by (unfold rd_count; simpl; reflexivity).
  erewrite rd_bind_ok by (exact (rd_bytes_app [] _)).
  cbn [rev]. erewrite rd_bind_ok by (unfold rd_ret; reflexivity).
  clearbody v. rewrite V2, V3. reflexivity.
Qed.
