(** C15, BAI at byte level: reading what WriteIndex wrote gives the sorted
    index, and writing that again gives the same bytes. *)
From Coq Require Import ZArith Lia List Bool Sorted.
From Hts Require Import Base.Prim Base.Bits Generated Model.Index Model.IndexIO Proofs.IndexSort Proofs.IndexIO.
Open Scope Z_scope.

Definition u64_fits (x : Z) : Prop := 0 <= x < 2 ^ 64.

Definition bin_fits (b : ibin) : Prop :=
  0 <= bnum b < 2 ^ 32 /\ bnum b <> internal_StatsDummyBin /\
  Forall chunk_fits (bchunks b) /\ zlen (bchunks b) < 2 ^ 31 /\ key_sorted fst (bchunks b).

Definition stats_fits (s : istats) : Prop :=
  u64_fits (sbeg s) /\ u64_fits (send s) /\ u64_fits (smapped s) /\ u64_fits (sunmapped s).

Definition ref_fits (r : iref) : Prop :=
  Forall bin_fits (rbins r) /\ zlen (rbins r) + 1 < 2 ^ 31 /\ key_sorted bnum (rbins r) /\
  match rstats r with Some s => stats_fits s | None => True end /\
  Forall u64_fits (rintv r) /\ zlen (rintv r) < 2 ^ 31 /\ key_sorted (fun x => x) (rintv r).

(** Everything fits its field and is in the order [Index.sort] establishes. *)
Definition idx_fits (ix : index) : Prop :=
  Forall ref_fits (irefs ix) /\ zlen (irefs ix) < 2 ^ 31 /\
  match iunm ix with Some u => u64_fits u | None => True end.

(** ** generic repetition *)
Lemma rd_rep_wr {A} (w : A -> list Z) (r : rd A) (P : A -> Prop) :
  (forall x rest, P x -> r (w x ++ rest) = Ok (x, rest)) ->
  forall xs rest, Forall P xs -> rd_rep (length xs) r (flat_map w xs ++ rest) = Ok (xs, rest).
Proof.
  intros Hr. induction xs as [|x t IH]; intros rest H; [reflexivity|].
  inversion H; subst. cbn [length flat_map rd_rep]. rewrite <- app_assoc.
  erewrite rd_bind_ok by (apply Hr; assumption).
  erewrite rd_bind_ok by (apply IH; assumption). reflexivity.
Qed.

Lemma rd_count_ok n s : 0 <= n -> rd_count n s = Ok (Z.to_nat n, s).
Proof. intros H. unfold rd_count. destruct (n <? 0) eqn:E; [lia|reflexivity]. Qed.

(** ** chunks, bins *)
Lemma rd_chunks_wr cs rest :
  Forall chunk_fits cs -> key_sorted fst cs ->
  rd_chunks (zlen cs) (flat_map wr_chunk cs ++ rest) = Ok (cs, rest).
Proof.
  intros Hf Hs. unfold rd_chunks. destruct (zlen cs =? 0) eqn:E.
  - apply Z.eqb_eq in E. destruct cs; [reflexivity|]. unfold zlen in E. simpl in E. lia.
  - erewrite rd_bind_ok by (apply rd_count_ok; apply zlen_nonneg).
    replace (Z.to_nat (zlen cs)) with (length cs) by (unfold zlen; lia).
    erewrite rd_bind_ok by (apply rd_rep_chunks; exact Hf).
    unfold rd_ret. rewrite ix_isort_sorted_id by exact Hs. reflexivity.
Qed.

Lemma loop_bin_step k acc st b rest :
  bin_fits b ->
  rd_bins_loop (S k) acc st (wr_bin b ++ rest) = rd_bins_loop k (b :: acc) st rest.
Proof.
  intros (Hn & Hd & Hf & Hl & Hs). cbn [rd_bins_loop]. unfold wr_bin, wr_chunks. rewrite <- !app_assoc.
  erewrite rd_bind_ok by (apply rd_u32_wr; exact Hn).
  erewrite rd_bind_ok by (apply rd_i32_wr; pose proof (zlen_nonneg (bchunks b)); lia).
  destruct (bnum b =? internal_StatsDummyBin) eqn:E; [apply Z.eqb_eq in E; contradiction|].
  erewrite rd_bind_ok by (apply rd_chunks_wr; assumption).
  destruct b; reflexivity.
Qed.

Lemma loop_bins bins : forall k acc st rest,
  Forall bin_fits bins ->
  rd_bins_loop (length bins + k) acc st (flat_map wr_bin bins ++ rest) = rd_bins_loop k (rev bins ++ acc) st rest.
Proof.
  induction bins as [|b t IH]; intros k acc st rest H; [reflexivity|].
  inversion H; subst. cbn [length flat_map plus]. rewrite <- app_assoc.
  rewrite loop_bin_step by assumption. rewrite IH by assumption.
  cbn [rev]. rewrite <- app_assoc. reflexivity.
Qed.

Lemma rd_stats_wr s rest : stats_fits s -> rd_stats (wr_stats_body s ++ rest) = Ok (s, rest).
Proof.
  intros (A & B & C & D). unfold rd_stats, wr_stats_body. rewrite <- !app_assoc.
  do 4 (erewrite rd_bind_ok by (apply rd_u64_wr; assumption)). destruct s; reflexivity.
Qed.

Definition wr_stats_entry (st : option istats) : list Z :=
  match st with
  | Some s => io_u32 internal_StatsDummyBin ++ io_u32 2 ++ wr_stats_body s
  | None => []
  end.

Lemma loop_stats_step k acc st s rest :
  stats_fits s ->
  rd_bins_loop (S k) acc st (wr_stats_entry (Some s) ++ rest) = rd_bins_loop k acc (Some s) rest.
Proof.
  intros Hs. cbn [rd_bins_loop wr_stats_entry]. rewrite <- !app_assoc.
  erewrite rd_bind_ok by (apply rd_u32_wr; vm_compute; split; congruence).
  erewrite rd_bind_ok by (apply rd_i32_wr; lia).
  rewrite Z.eqb_refl. change (2 =? 2) with true. cbv iota.
  erewrite rd_bind_ok by (apply rd_stats_wr; exact Hs). reflexivity.
Qed.

Lemma rd_bins_wr bins st rest :
  Forall bin_fits bins -> zlen bins + 1 < 2 ^ 31 -> key_sorted bnum bins ->
  match st with Some s => stats_fits s | None => True end ->
  rd_bins (io_u32 (zlen bins + match st with Some _ => 1 | None => 0 end)
           ++ flat_map wr_bin bins ++ wr_stats_entry st ++ rest) = Ok ((bins, st), rest).
Proof.
  intros Hb Hl Hs Hst. unfold rd_bins. pose proof (zlen_nonneg bins) as Hn.
  set (n := zlen bins + match st with Some _ => 1 | None => 0 end).
  assert (Hn' : 0 <= n < 2 ^ 31) by (unfold n; destruct st; lia).
  erewrite rd_bind_ok by (apply rd_i32_wr; exact Hn').
  destruct (n =? 0) eqn:E.
  - apply Z.eqb_eq in E. assert (zlen bins = 0) by (unfold n in E; destruct st; lia).
    destruct bins; [|unfold zlen in H; simpl in H; lia]. destruct st; [unfold n, zlen in E; simpl in E; lia|].
    reflexivity.
  - erewrite rd_bind_ok by (apply rd_count_ok; lia).
    destruct st as [s|].
    + replace (Z.to_nat n) with (length bins + 1)%nat by (unfold n, zlen; lia).
      rewrite loop_bins by exact Hb. rewrite loop_stats_step by exact Hst.
      cbn [rd_bins_loop]. unfold rd_ret. rewrite app_nil_r, rev_involutive, ix_isort_sorted_id by exact Hs. reflexivity.
    + replace (Z.to_nat n) with (length bins + 0)%nat by (unfold n, zlen; lia).
      rewrite loop_bins by exact Hb. cbn [wr_stats_entry app rd_bins_loop].
      unfold rd_ret. rewrite app_nil_r, rev_involutive, ix_isort_sorted_id by exact Hs. reflexivity.
Qed.

(** ** tiles, references *)
Lemma rd_intervals_wr l rest :
  Forall u64_fits l -> zlen l < 2 ^ 31 -> key_sorted (fun x => x) l ->
  rd_intervals (io_u32 (zlen l) ++ flat_map io_u64 l ++ rest) = Ok (l, rest).
Proof.
  intros Hf Hl Hs. unfold rd_intervals. pose proof (zlen_nonneg l).
  erewrite rd_bind_ok by (apply rd_i32_wr; lia).
  destruct (zlen l =? 0) eqn:E.
  - apply Z.eqb_eq in E. destruct l; [reflexivity|]. unfold zlen in E. simpl in E. lia.
  - erewrite rd_bind_ok by (apply rd_count_ok; lia).
    replace (Z.to_nat (zlen l)) with (length l) by (unfold zlen; lia).
    erewrite rd_bind_ok by (apply (rd_rep_wr io_u64 rd_u64 u64_fits); [intros; apply rd_u64_wr; assumption|exact Hf]).
    unfold rd_ret. rewrite ix_sort_intv_eq, ix_isort_sorted_id by exact Hs. reflexivity.
Qed.

Lemma wr_ref_shape r :
  wr_ref r = io_u32 (zlen (rbins r) + match rstats r with Some _ => 1 | None => 0 end)
             ++ flat_map wr_bin (rbins r) ++ wr_stats_entry (rstats r)
             ++ io_u32 (zlen (rintv r)) ++ flat_map io_u64 (rintv r).
Proof. unfold wr_ref, wr_stats_entry. destruct (rstats r); reflexivity. Qed.

Lemma rd_ref_wr r rest : ref_fits r -> rd_ref (wr_ref r ++ rest) = Ok (r, rest).
Proof.
  intros (A & B & C & D & E & F & G). rewrite wr_ref_shape. unfold rd_ref. rewrite <- !app_assoc.
  erewrite rd_bind_ok by (apply rd_bins_wr; assumption).
  erewrite rd_bind_ok by (apply rd_intervals_wr; assumption).
  destruct r; reflexivity.
Qed.

Lemma io_u64_length x : length (io_u64 x) = 8%nat.
Proof. apply io_le_length. Qed.

Lemma rd_trailer_wr u :
  match u with Some n => u64_fits n | None => True end -> rd_trailer (wr_trailer u) = Ok (u, []).
Proof.
  destruct u as [n|]; intros H; [|reflexivity]. unfold wr_trailer.
  pose proof (rd_u64_wr n [] H) as R. unfold rd_u64, rd_bind, rd_bytes, rd_ret in R.
  rewrite app_nil_r in R. unfold rd_trailer.
  destruct (io_u64 n) as [|b t] eqn:E; [apply (f_equal (@length Z)) in E; rewrite io_u64_length in E; discriminate|].
  destruct (io_take 8 (b :: t)) as [[a r]|]; [|discriminate]. inversion R; subst. reflexivity.
Qed.

Lemma rd_core_wr refs u :
  Forall ref_fits refs -> zlen refs < 2 ^ 31 -> match u with Some n => u64_fits n | None => True end ->
  rd_core (zlen refs) (flat_map wr_ref refs ++ wr_trailer u) = Ok (mkIdx refs u true io_maxint, []).
Proof.
  intros Hr Hl Hu. unfold rd_core. pose proof (zlen_nonneg refs).
  erewrite rd_bind_ok by (apply rd_count_ok; lia).
  replace (Z.to_nat (zlen refs)) with (length refs) by (unfold zlen; lia).
  erewrite rd_bind_ok by (apply (rd_rep_wr wr_ref rd_ref ref_fits); [intros; apply rd_ref_wr; assumption|exact Hr]).
  erewrite rd_bind_ok by (apply rd_trailer_wr; exact Hu). reflexivity.
Qed.

(** ** BAI *)
Lemma ix_sort_zlen ix : zlen (irefs (ix_sort ix)) = zlen (irefs ix).
Proof. unfold ix_sort. destruct (isorted ix); [reflexivity|]. simpl. unfold zlen. rewrite map_length. reflexivity. Qed.

Lemma ix_sort_unm ix : iunm (ix_sort ix) = iunm ix.
Proof. unfold ix_sort. destruct (isorted ix); reflexivity. Qed.

Theorem bai_read_write ix :
  idx_fits (ix_sort ix) ->
  bai_read (fst (bai_write ix)) = Ok (Some (mkIdx (irefs (ix_sort ix)) (iunm ix) true io_maxint)).
Proof.
  intros (Hr & Hl & Hu). unfold bai_write, wr_core. cbn [fst]. unfold bai_read.
  erewrite rd_bind_ok by (exact (rd_bytes_app bai_magic _)).
  change (negb (io_bytes_eqb bai_magic bai_magic)) with false. cbv iota.
  rewrite <- ix_sort_zlen. pose proof (zlen_nonneg (irefs (ix_sort ix))).
  erewrite rd_bind_ok by (apply rd_i32_wr; lia).
  erewrite rd_bind_ok by (apply rd_core_wr; assumption).
  unfold rd_ret. rewrite ix_sort_unm. reflexivity.
Qed.

(** Writing the re-read index gives the bytes of the first write. *)
Theorem bai_write_read_write ix :
  fst (bai_write (mkIdx (irefs (ix_sort ix)) (iunm ix) true io_maxint)) = fst (bai_write ix).
Proof.
  set (t := mkIdx (irefs (ix_sort ix)) (iunm ix) true io_maxint).
  assert (Ht : ix_sort t = t) by reflexivity.
  unfold bai_write, wr_core. rewrite Ht. cbn [fst]. subst t. cbn [irefs iunm].
  rewrite ix_sort_zlen, ix_sort_unm. reflexivity.
Qed.

(** An index that has never been sorted (flag false, as after Add) is put in
    the canonical order by [ix_sort]; only the field ranges remain to be assumed. *)
Definition bin_ranges (b : ibin) : Prop :=
  0 <= bnum b < 2 ^ 32 /\ bnum b <> internal_StatsDummyBin /\ Forall chunk_fits (bchunks b) /\ zlen (bchunks b) < 2 ^ 31.
Definition ref_ranges (r : iref) : Prop :=
  Forall bin_ranges (rbins r) /\ zlen (rbins r) + 1 < 2 ^ 31 /\
  match rstats r with Some s => stats_fits s | None => True end /\
  Forall u64_fits (rintv r) /\ zlen (rintv r) < 2 ^ 31.
Definition idx_ranges (ix : index) : Prop :=
  Forall ref_ranges (irefs ix) /\ zlen (irefs ix) < 2 ^ 31 /\
  match iunm ix with Some u => u64_fits u | None => True end.

Lemma Forall_isort {A} (key : A -> Z) (P : A -> Prop) l : Forall P l -> Forall P (ix_isort key l).
Proof.
  intros H. apply Forall_forall. intros x Hx. apply ix_isort_in in Hx. rewrite Forall_forall in H. auto.
Qed.

Lemma ranges_fits_sorted ix : isorted ix = false -> idx_ranges ix -> idx_fits (ix_sort ix).
Proof.
  intros Hs (Hr & Hl & Hu). unfold ix_sort. rewrite Hs. split; [|split]; simpl.
  - apply Forall_forall. intros r' Hr'. apply in_map_iff in Hr'. destruct Hr' as (r & <- & Hin).
    rewrite Forall_forall in Hr. destruct (Hr r Hin) as (A & B & C & D & E).
    unfold ix_sort_ref. split; [|split; [|split; [|split; [|split; [|split]]]]]; simpl.
    + apply Forall_isort. apply Forall_forall. intros b' Hb'. apply in_map_iff in Hb'. destruct Hb' as (b & <- & Hb).
      rewrite Forall_forall in A. destruct (A b Hb) as (A1 & A2 & A3 & A4).
      unfold bin_fits, ix_sort_bin. simpl. split; [exact A1|]. split; [exact A2|]. split; [apply Forall_isort; exact A3|].
      split; [unfold zlen in *; rewrite ix_isort_length; exact A4|apply ix_isort_sorted].
    + unfold zlen in *. rewrite ix_isort_length, map_length. exact B.
    + apply ix_isort_sorted.
    + exact C.
    + rewrite ix_sort_intv_eq. apply Forall_isort. exact D.
    + rewrite ix_sort_intv_eq. unfold zlen in *. rewrite ix_isort_length. exact E.
    + rewrite ix_sort_intv_eq. apply ix_isort_sorted.
  - unfold zlen in *. rewrite map_length. exact Hl.
  - exact Hu.
Qed.

Theorem bai_roundtrip_unsorted ix :
  isorted ix = false -> idx_ranges ix ->
  bai_read (fst (bai_write ix)) = Ok (Some (mkIdx (irefs (ix_sort ix)) (iunm ix) true io_maxint)) /\
  fst (bai_write (mkIdx (irefs (ix_sort ix)) (iunm ix) true io_maxint)) = fst (bai_write ix).
Proof.
  intros Hs Hr. split; [apply bai_read_write, ranges_fits_sorted; assumption|apply bai_write_read_write].
Qed.
