(** Discharging the premises of the C04 theorems: the provided merge
    strategies keep every chunk of a sorted list inside one output chunk, and
    the bin-containment facts are C16's theorems about the same functions. *)
From Coq Require Import ZArith Lia List Bool.
From Hts Require Import Base.Prim Base.Bits Generated Model.Index Model.IndexSpec Model.Bins Proofs.Bins.
Open Scope Z_scope.

(** ** strategies *)
Section MergeGo.
  Variable cond : chunk -> chunk -> bool.

  Fixpoint mgo (cur : chunk) (rest : list chunk) : list chunk :=
    match rest with
    | [] => [cur]
    | r :: t =>
        if cond cur r then mgo (fst cur, if snd cur >? snd r then snd cur else snd r) t
        else cur :: mgo r t
    end.

  Lemma mgo_covers rest : forall cur,
    (forall d, In d rest -> fst cur <= fst d) -> ix_sorted_begin rest ->
    forall c, c = cur \/ In c rest ->
      exists c', In c' (mgo cur rest) /\ fst c' <= fst c /\ snd c <= snd c'.
  Proof.
    induction rest as [|r t IH]; intros cur Hle Hs c Hc; simpl.
    - destruct Hc as [->|[]]. exists cur. split; [left; reflexivity|lia].
    - simpl in Hs. destruct Hs as (Hr & Hs).
      destruct (cond cur r).
      + set (cur' := (fst cur, if snd cur >? snd r then snd cur else snd r)).
        assert (Hle' : forall d, In d t -> fst cur' <= fst d) by (intros d Hd; simpl; apply Hle; right; exact Hd).
        assert (Hcur : fst cur' <= fst cur /\ snd cur <= snd cur') by (simpl; destruct (snd cur >? snd r) eqn:E; lia).
        assert (Hrr : fst cur' <= fst r /\ snd r <= snd cur').
        { simpl. split; [apply Hle; left; reflexivity|]. destruct (snd cur >? snd r) eqn:E; lia. }
        destruct Hc as [->|[->|Hc]].
        * destruct (IH cur' Hle' Hs cur' (or_introl eq_refl)) as (c' & H1 & H2 & H3). exists c'. split; [exact H1|lia].
        * destruct (IH cur' Hle' Hs cur' (or_introl eq_refl)) as (c' & H1 & H2 & H3). exists c'. split; [exact H1|lia].
        * apply (IH cur' Hle' Hs c). right; exact Hc.
      + destruct Hc as [->|Hc].
        * exists cur. split; [left; reflexivity|lia].
        * destruct (IH r Hr Hs c) as (c' & H1 & H2).
          { destruct Hc as [->|Hc]; [left; reflexivity|right; exact Hc]. }
          exists c'. split; [right; exact H1|exact H2].
  Qed.

  Definition mstrat (l : list chunk) : list chunk := match l with [] => [] | c :: t => mgo c t end.

  Lemma mstrat_covers : ix_strategy_covers mstrat.
  Proof.
    intros cs c Hs Hc. destruct cs as [|c0 t]; [destruct Hc|]. simpl in Hs. destruct Hs as (H0 & Hs).
    apply (mgo_covers t c0 H0 Hs c). destruct Hc as [->|Hc]; auto.
  Qed.
End MergeGo.

Lemma ix_adj_go_mgo rest : forall cur, ix_adj_go cur rest = mgo (fun cur r => snd cur >=? fst r) cur rest.
Proof. induction rest as [|r t IH]; intros cur; simpl; [reflexivity|]. rewrite !IH. reflexivity. Qed.

Lemma ix_comp_go_mgo near rest : forall cur,
  ix_comp_go near cur rest = mgo (fun cur r => Z.shiftr (fst r) 16 - Z.shiftr (snd cur) 16 <=? near) cur rest.
Proof. induction rest as [|r t IH]; intros cur; simpl; [reflexivity|]. rewrite !IH. reflexivity. Qed.

Theorem adjacent_covers : ix_strategy_covers ix_adjacent.
Proof.
  intros cs c Hs Hc. destruct (mstrat_covers (fun cur r => snd cur >=? fst r) cs c Hs Hc) as (c' & H & H').
  exists c'. split; [|exact H']. destruct cs; [exact H|]. simpl in *. rewrite ix_adj_go_mgo. exact H.
Qed.

Theorem compressor_covers near : ix_strategy_covers (ix_compressor near).
Proof.
  intros cs c Hs Hc.
  destruct (mstrat_covers (fun cur r => Z.shiftr (fst r) 16 - Z.shiftr (snd cur) 16 <=? near) cs c Hs Hc) as (c' & H & H').
  exists c'. split; [|exact H']. destruct cs; [exact H|]. simpl in *. rewrite ix_comp_go_mgo. exact H.
Qed.

Theorem identity_covers : ix_strategy_covers (fun l => l).
Proof. intros cs c _ Hc. exists c. split; [exact Hc|lia]. Qed.

Lemma fold_max_ge t : forall init,
  init <= fold_left (fun r x => if snd x >? r then snd x else r) t init /\
  forall c : chunk, In c t -> snd c <= fold_left (fun r x => if snd x >? r then snd x else r) t init.
Proof.
  induction t as [|x t IH]; intros init; simpl; [split; [lia|intros ? []]|].
  destruct (IH (if snd x >? init then snd x else init)) as (A & B).
  split; [destruct (snd x >? init) eqn:E; lia|].
  intros c [->|Hc]; [destruct (snd c >? init) eqn:E; lia|apply B; exact Hc].
Qed.

Theorem squash_covers : ix_strategy_covers ix_squash.
Proof.
  intros cs c Hs Hc. destruct cs as [|c0 t]; [destruct Hc|]. simpl in Hs. destruct Hs as (H0 & _).
  simpl. eexists. split; [left; reflexivity|]. simpl. destruct (fold_max_ge t (snd c0)) as (A & B).
  destruct Hc as [->|Hc]; [lia|]. split; [apply H0; exact Hc|apply B; exact Hc].
Qed.

(** ** BAI bin containment from C16 *)
Lemma zrange_ix lo n : Bins.zrange lo n = map (fun i => lo + Z.of_nat i) (seq 0 n).
Proof.
  revert lo. induction n as [|n IH]; intros lo; simpl; [reflexivity|].
  rewrite IH. f_equal; [lia|]. rewrite <- seq_shift, map_map. apply map_ext. intros i. lia.
Qed.

Lemma obf_loop_ix ls beg e : forall acc l,
  obf_loop ls beg e acc = Ok l ->
  l = acc ++ flat_map (fun os => ix_zrange (u32 (fst os + u32 (Z.shiftr beg (snd os))))
                                           (u32 (fst os + u32 (Z.shiftr e (snd os))))) ls.
Proof.
  induction ls as [|[off sh] tl IH]; intros acc l H; simpl in H.
  - inversion H. simpl. rewrite app_nil_r. reflexivity.
  - unfold loop_u32 in H. destruct (_ =? 2 ^ 32 - 1); [discriminate|]. simpl in H.
    apply IH in H. rewrite H. simpl. rewrite <- app_assoc. f_equal. f_equal.
    unfold ix_zrange. apply zrange_ix.
Qed.

Theorem bai_bin_containment_holds : bai_bin_containment.
Proof.
  intros b1 e1 b2 e2 bn H1 H1' H2 H2' Ha Hb Hbin.
  destruct (bai_bin_in_bins_gen b1 e1 b2 e2) as (k & l & Hk & Hl & Hin); try lia.
  rewrite Hbin in Hk. inversion Hk; subst k.
  unfold overlapping_bins_for in Hl. apply obf_loop_ix in Hl. subst l.
  unfold ix_overlapping_bins. exact Hin.
Qed.
