(** Lemmas about the sorting, searching and list helpers of Model/Index.v. *)
From Coq Require Import ZArith Lia List Bool Permutation Sorted.
From Hts Require Import Base.Prim Base.Bits Generated Model.Index.
Open Scope Z_scope.
Ltac Zify.zify_post_hook ::= Z.div_mod_to_equations.

(** ** insertion sort *)
Section Isort.
  Context {A : Type} (key : A -> Z).

  Lemma ix_ins_perm x l : Permutation (x :: l) (ix_ins key x l).
  Proof.
    induction l as [|y t IH]; simpl; [reflexivity|].
    destruct (key x <=? key y); [reflexivity|].
    rewrite perm_swap. constructor. exact IH.
  Qed.

  Lemma ix_isort_perm l : Permutation l (ix_isort key l).
  Proof.
    induction l as [|x t IH]; simpl; [constructor|].
    rewrite <- ix_ins_perm. constructor. exact IH.
  Qed.

  Lemma ix_isort_in x l : In x (ix_isort key l) <-> In x l.
  Proof.
    split; intro H.
    - eapply Permutation_in; [symmetry; apply ix_isort_perm|exact H].
    - eapply Permutation_in; [apply ix_isort_perm|exact H].
  Qed.

  Lemma ix_isort_length l : length (ix_isort key l) = length l.
  Proof. symmetry. apply Permutation_length, ix_isort_perm. Qed.

  Definition key_sorted (l : list A) : Prop := StronglySorted (fun a b => key a <= key b) l.

  Lemma ix_ins_sorted x l : key_sorted l -> key_sorted (ix_ins key x l).
  Proof.
    unfold key_sorted. induction l as [|y t IH]; simpl; intros Hs.
    - constructor; constructor.
    - destruct (key x <=? key y) eqn:E.
      + apply Z.leb_le in E. constructor; [exact Hs|].
        constructor; [exact E|]. inversion Hs as [|? ? _ Hall]; subst.
        eapply Forall_impl; [|exact Hall]. simpl; intros; lia.
      + apply Z.leb_gt in E. inversion Hs as [|? ? Hst Hall]; subst.
        constructor; [apply IH; exact Hst|].
        apply Forall_forall. intros z Hz.
        eapply Permutation_in in Hz; [|symmetry; apply ix_ins_perm].
        destruct Hz as [<-|Hz]; [lia|].
        rewrite Forall_forall in Hall. apply Hall; exact Hz.
  Qed.

  Lemma ix_isort_sorted l : key_sorted (ix_isort key l).
  Proof.
    induction l as [|x t IH]; simpl; [constructor|]. apply ix_ins_sorted; exact IH.
  Qed.

  (** Sorting a sorted list changes nothing. *)
  Lemma ix_ins_sorted_id x l : key_sorted (x :: l) -> ix_ins key x l = x :: l.
  Proof.
    intros Hs. destruct l as [|y t]; simpl; [reflexivity|].
    inversion Hs as [|? ? _ Hall]; subst. inversion Hall; subst.
    destruct (key x <=? key y) eqn:E; [reflexivity|]. apply Z.leb_gt in E. lia.
  Qed.

  Lemma ix_isort_sorted_id l : key_sorted l -> ix_isort key l = l.
  Proof.
    induction l as [|x t IH]; simpl; intros Hs; [reflexivity|].
    inversion Hs; subst. rewrite IH by assumption. apply ix_ins_sorted_id; exact Hs.
  Qed.

  Lemma ix_isort_idem l : ix_isort key (ix_isort key l) = ix_isort key l.
  Proof. apply ix_isort_sorted_id, ix_isort_sorted. Qed.
End Isort.

(** ** "the first n entries are at most v" survives sorting *)
Definition prefix_le (v : Z) (n : nat) (l : list Z) : Prop :=
  forall i, (i < n)%nat -> nth i l 0 <= v.

Lemma ix_ins_prefix v x l n :
  x <= v -> prefix_le v n l -> prefix_le v (S n) (ix_ins (fun z => z) x l).
Proof.
  revert n. induction l as [|y t IH]; intros n Hx Hp i Hi; simpl.
  - destruct i as [|[|i]]; simpl; try lia. 
    + specialize (Hp O). simpl in Hp. destruct n; [lia|]. apply Hp; lia.
    + specialize (Hp O). simpl in Hp. destruct n; [lia|]. apply Hp; lia.
  - destruct (x <=? y) eqn:E.
    + destruct i as [|i]; simpl; [exact Hx|]. apply (Hp i). lia.
    + apply Z.leb_gt in E. destruct i as [|i]; simpl; [lia|].
      destruct n as [|n]; [lia|].
      apply (IH n); [exact Hx| |lia].
      intros k Hk. apply (Hp (S k)). lia.
Qed.

Lemma ix_isort_prefix v n l :
  (n <= length l)%nat -> prefix_le v n l -> prefix_le v n (ix_isort (fun z => z) l).
Proof.
  revert n. induction l as [|x t IH]; intros n Hn Hp; simpl.
  - intros i Hi. simpl in Hn. lia.
  - destruct n as [|n]; [intros i Hi; lia|].
    apply ix_ins_prefix.
    + apply (Hp O). lia.
    + apply IH; [simpl in Hn; lia|]. intros i Hi. apply (Hp (S i)). lia.
Qed.

(** ** the fast tile sort equals insertion sort *)
Lemma ix_ins_zeros x k l :
  0 < x -> ix_ins (fun z => z) x (repeat 0 k ++ l) = repeat 0 k ++ ix_ins (fun z => z) x l.
Proof.
  intros Hx. induction k as [|k IH]; simpl; [reflexivity|].
  destruct (x <=? 0) eqn:E; [apply Z.leb_le in E; lia|]. rewrite IH. reflexivity.
Qed.

Lemma filter_zero_repeat l :
  filter (fun x => x =? 0) l = repeat 0 (length (filter (fun x => x =? 0) l)).
Proof.
  induction l as [|x t IH]; simpl; [reflexivity|].
  destruct (x =? 0) eqn:E; simpl; [|exact IH].
  apply Z.eqb_eq in E. subst. f_equal. exact IH.
Qed.

Lemma ix_sort_intv_nonneg l :
  forallb (fun x => 0 <=? x) l = true ->
  filter (fun x => x =? 0) l ++ ix_isort (fun x => x) (filter (fun x => negb (x =? 0)) l)
  = ix_isort (fun x => x) l.
Proof.
  induction l as [|x t IH]; simpl; intros H; [reflexivity|].
  apply andb_true_iff in H. destruct H as [Hx Ht]. apply Z.leb_le in Hx.
  specialize (IH Ht). destruct (x =? 0) eqn:E; simpl.
  - apply Z.eqb_eq in E. subst x. rewrite <- IH.
    destruct (filter (fun x => x =? 0) t ++ ix_isort (fun x => x) (filter (fun x => negb (x =? 0)) t)) as [|y r] eqn:El.
    + reflexivity.
    + simpl. destruct (0 <=? y) eqn:Ey; [reflexivity|].
      apply Z.leb_gt in Ey. exfalso.
      assert (Hin : In y (ix_isort (fun x => x) t)) by (rewrite <- IH; left; reflexivity).
      apply ix_isort_in in Hin. rewrite forallb_forall in Ht. apply Ht in Hin. apply Z.leb_le in Hin. lia.
  - apply Z.eqb_neq in E. rewrite <- IH.
    pose proof (filter_zero_repeat t) as Hz.
    set (k := length (filter (fun x => x =? 0) t)) in Hz. clearbody k.
    rewrite Hz. rewrite ix_ins_zeros by lia. reflexivity.
Qed.

Lemma ix_sort_intv_eq l : ix_sort_intv l = ix_isort (fun x => x) l.
Proof.
  unfold ix_sort_intv. destruct (forallb (fun x => 0 <=? x) l) eqn:E; [|reflexivity].
  apply ix_sort_intv_nonneg; exact E.
Qed.

(** ** sort.Search (binary search as coded) on a list sorted by distinct keys finds the element *)
Section Search.
  Context {B : Type} (key : B -> Z) (d : B).

  Lemma sorted_nth_le l : key_sorted key l ->
    forall i j, (i <= j)%nat -> (j < length l)%nat -> key (nth i l d) <= key (nth j l d).
  Proof.
    induction l as [|x t IH]; intros Hs i j Hij Hj; [simpl in Hj; lia|].
    inversion Hs as [|? ? Hst Hall]; subst. destruct i as [|i]; destruct j as [|j]; simpl; try lia.
    - rewrite Forall_forall in Hall. apply Hall. apply nth_In. simpl in Hj. lia.
    - apply IH; [exact Hst|lia|simpl in Hj; lia].
  Qed.

  Lemma nodup_nth_inj l : NoDup (map key l) ->
    forall i j, (i < length l)%nat -> (j < length l)%nat -> key (nth i l d) = key (nth j l d) -> i = j.
  Proof.
    intros Hnd i j Hi Hj E.
    apply (proj1 (NoDup_nth (map key l) (key d)) Hnd i j); try (rewrite map_length; assumption).
    rewrite !(map_nth key). exact E.
  Qed.

  Lemma bs_go_finds l b p : key_sorted key l -> NoDup (map key l) ->
    (p < length l)%nat -> key (nth p l d) = b ->
    forall fuel i j, 0 <= i <= Z.of_nat p -> Z.of_nat p <= j <= zlen l -> j - i <= Z.of_nat fuel ->
      ix_bs_go key d l b fuel i j = Z.of_nat p.
  Proof.
    intros Hs Hnd Hp Hb. induction fuel as [|f IH]; intros i j Hi Hj Hf; simpl.
    - lia.
    - destruct (i <? j) eqn:E; [|lia]. apply Z.ltb_lt in E.
      rewrite Z.shiftr_div_pow2 by lia. change (2 ^ 1) with 2.
      set (h := (i + j) / 2). assert (Hh : i <= h < j) by (unfold h; split; [apply Z.div_le_lower_bound|apply Z.div_lt_upper_bound]; lia).
      assert (Hhl : (Z.to_nat h < length l)%nat) by (unfold zlen in Hj; lia).
      destruct (key (nth (Z.to_nat h) l d) >=? b) eqn:E2.
      + (* h >= p *)
        assert (Z.of_nat p <= h).
        { destruct (Z.le_gt_cases (Z.of_nat p) h) as [H|H]; [exact H|]. exfalso.
          pose proof (sorted_nth_le l Hs (Z.to_nat h) p ltac:(lia) Hp) as Hle.
          assert (key (nth (Z.to_nat h) l d) = key (nth p l d)) by lia.
          apply nodup_nth_inj in H0; try assumption. lia. }
        apply IH; lia.
      + assert (h < Z.of_nat p).
        { destruct (Z.lt_ge_cases h (Z.of_nat p)) as [H|H]; [exact H|]. exfalso.
          pose proof (sorted_nth_le l Hs p (Z.to_nat h) ltac:(lia) Hhl) as Hle. lia. }
        apply IH; lia.
  Qed.

  Lemma bsearch_finds l x : key_sorted key l -> NoDup (map key l) -> In x l ->
    exists p, (p < length l)%nat /\ nth p l d = x /\ ix_bsearch key d l (key x) = Z.of_nat p.
  Proof.
    intros Hs Hnd Hin. destruct (In_nth l x d Hin) as (p & Hp & Hx). exists p. split; [exact Hp|]. split; [exact Hx|].
    unfold ix_bsearch. apply (bs_go_finds l (key x) p Hs Hnd Hp); [rewrite Hx; reflexivity| | |]; unfold zlen; lia.
  Qed.
End Search.

Lemma ix_search_found bs x :
  key_sorted bnum bs -> NoDup (map bnum bs) -> In x bs -> ix_search bs (bnum x) = Some x.
Proof.
  intros Hs Hnd Hin. destruct (bsearch_finds bnum (mkBin 0 []) bs x Hs Hnd Hin) as (p & Hp & Hx & Hb).
  unfold ix_search. rewrite Hb. destruct (Z.of_nat p <? zlen bs) eqn:E; [|unfold zlen in E; lia].
  rewrite Nat2Z.id, Hx, Z.eqb_refl. reflexivity.
Qed.

(** ** small list facts *)
Lemma zlen_repeat {A} (x : A) n : zlen (repeat x n) = Z.of_nat n.
Proof. unfold zlen. rewrite repeat_length. reflexivity. Qed.

Lemma nth_upd_nat_same {A} (l : list A) i x d : (i < length l)%nat -> nth i (upd_nat l i x) d = x.
Proof.
  revert i; induction l as [|h t IH]; intros [|i] Hi; simpl in *; try lia; [reflexivity|].
  apply IH; lia.
Qed.

Lemma nth_upd_nat_other {A} (l : list A) i j x d : i <> j -> nth j (upd_nat l i x) d = nth j l d.
Proof.
  revert i j; induction l as [|h t IH]; intros [|i] [|j] Hij; simpl; try reflexivity; try lia.
  apply IH; lia.
Qed.
