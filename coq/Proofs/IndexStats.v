(** C15, statistics part: the counters Add maintains equal the true counts of
    the records added; and answers do not depend on whether the index has been
    sorted (which is all that write + read does to the structure). *)
From Coq Require Import ZArith Lia List Bool.
From Hts Require Import Base.Prim Base.Bits Generated Model.Index Model.IndexSpec Proofs.IndexSort.
Open Scope Z_scope.

Definition um_of (ix : index) : Z := match iunm ix with Some u => u | None => 0 end.

Lemma ix_add_shape ix r ix' :
  ix_add ix r = Ok ix' ->
  iunm ix' = Some (um_of ix + if q_placed r then 0 else 1) /\
  zlen (irefs ix') = (if q_placed r then Z.max (zlen (irefs ix)) (q_rid r + 1) else zlen (irefs ix)).
Proof.
  unfold ix_add, um_of. intros H.
  destruct (negb (ix_valid_pos (q_start r)) || negb (ix_valid_pos (q_end r - 1))); [discriminate|].
  destruct (q_placed r); simpl in H.
  2:{ inversion H; subst; simpl. split; reflexivity. }
  destruct (q_rid r <? 0) eqn:E0; [discriminate|].
  destruct (q_rid r <? zlen (irefs ix) - 1) eqn:E1; [discriminate|]. apply Z.ltb_ge in E1.
  set (refs := if q_rid r >=? zlen (irefs ix) then ix_grow_refs (irefs ix) (q_rid r) else irefs ix) in *.
  assert (Hl : zlen refs = Z.max (zlen (irefs ix)) (q_rid r + 1)).
  { unfold refs. destruct (q_rid r >=? zlen (irefs ix)) eqn:E2; [|lia].
    unfold ix_grow_refs. rewrite zlen_app, zlen_repeat. lia. }
  destruct (inb refs (q_rid r)); [|discriminate]. unfold chk in H.
  destruct (ix_upd_bins _ _ _); destruct (q_start r <? _); try discriminate;
    destruct (ix_linear _ _ _ _); try discriminate; simpl in H; inversion H; subst; simpl;
    (split; [f_equal; lia|unfold zlen; rewrite length_upd_nat; exact Hl]).
Qed.

Lemma fold_left_numrefs rs m :
  fold_left (fun m r => if q_placed r then Z.max m (q_rid r + 1) else m) rs m
  = Z.max m (fold_left (fun m r => if q_placed r then Z.max m (q_rid r + 1) else m) rs 0) \/ True.
Proof. right; exact I. Qed.

Lemma fold_add_counts rs : forall ix ix',
  ix_fold_add ix rs = Ok ix' ->
  um_of ix' = um_of ix + ix_true_unplaced rs /\
  (rs <> [] -> iunm ix' <> None) /\
  zlen (irefs ix') = fold_left (fun m r => if q_placed r then Z.max m (q_rid r + 1) else m) rs (zlen (irefs ix)).
Proof.
  induction rs as [|r t IH]; intros ix ix' H; simpl in H.
  - inversion H; subst. unfold ix_true_unplaced. simpl. split; [unfold zlen; simpl; lia|]. split; [congruence|reflexivity].
  - destruct (ix_add ix r) as [ix1| | |] eqn:E; simpl in H; try discriminate.
    destruct (ix_add_shape _ _ _ E) as (A1 & A2). destruct (IH _ _ H) as (B1 & B2 & B3).
    split; [|split].
    + rewrite B1. unfold um_of at 1. rewrite A1. unfold ix_true_unplaced. simpl.
      destruct (q_placed r); simpl; unfold zlen; simpl length; lia.
    + intros _. destruct t as [|r2 t2].
      * simpl in H. inversion H; subst. rewrite A1. discriminate.
      * apply B2. discriminate.
    + rewrite B3. simpl. rewrite A2. reflexivity.
Qed.

(** NumRefs and the unplaced count equal the true counts, for every record
    list Add accepts (no sortedness needed beyond what Add itself checks). *)
Theorem stats_counts_true rs ix :
  ix_fold_add ix_empty rs = Ok ix ->
  ix_numrefs ix = ix_true_numrefs rs /\
  (rs <> [] -> iunm ix = Some (ix_true_unplaced rs)) /\
  (rs = [] -> iunm ix = None).
Proof.
  intros H. destruct (fold_add_counts rs _ _ H) as (A & B & C). split; [exact C|]. split.
  - intros Hne. specialize (B Hne). unfold um_of in A. simpl in A.
    destruct (iunm ix); [f_equal; lia|congruence].
  - intros ->. simpl in H. inversion H; reflexivity.
Qed.

(** ** per-reference statistics *)

Definition stats_ok (rs : list irec) (rid : Z) (st : option istats) : Prop :=
  st = ix_true_stats rid rs.

Lemma ix_on_app rid a b : ix_on rid (a ++ b) = ix_on rid a ++ ix_on rid b.
Proof. unfold ix_on. apply filter_app. Qed.

Lemma last_app_single {A} (l : list A) x d : last (l ++ [x]) d = x.
Proof. induction l as [|h t IH]; simpl; [reflexivity|]. destruct (t ++ [x]) eqn:E; [destruct t; discriminate|exact IH]. Qed.

Lemma zlen_filter_snoc {A} (f : A -> bool) l x :
  zlen (filter f (l ++ [x])) = zlen (filter f l) + (if f x then 1 else 0).
Proof.
  rewrite filter_app. simpl. destruct (f x); unfold zlen; rewrite app_length; simpl; lia.
Qed.

Lemma ix_on_single rid r : q_placed r = true -> q_rid r = rid -> ix_on rid [r] = [r].
Proof. intros Hp Hr. unfold ix_on. simpl. rewrite Hp, Hr, Z.eqb_refl. reflexivity. Qed.

Lemma span_snoc (L : list irec) r :
  match L ++ [r] with [] => None | x :: t => Some (q_cb x, q_ce (last t x)) end
  = Some (match L with [] => q_cb r | x :: _ => q_cb x end, q_ce r).
Proof.
  destruct L as [|h t]; simpl; [reflexivity|]. rewrite last_app_single. reflexivity.
Qed.

Lemma true_stats_snoc rid done r :
  q_placed r = true -> q_rid r = rid ->
  ix_true_stats rid (done ++ [r]) = Some (ix_upd_stats (ix_true_stats rid done) (q_cb r, q_ce r) (q_mapped r)).
Proof.
  intros Hp Hr. unfold ix_true_stats, ix_true_span, ix_true_mapped, ix_true_unmapped.
  rewrite ix_on_app, (ix_on_single rid r Hp Hr), span_snoc, !zlen_filter_snoc.
  destruct (ix_on rid done) as [|h t]; unfold ix_upd_stats; simpl fst; simpl snd;
    destruct (q_mapped r); simpl; f_equal; f_equal; unfold zlen; simpl; lia.
Qed.

Lemma true_stats_snoc_other rid done r :
  (q_placed r = false \/ q_rid r <> rid) -> ix_true_stats rid (done ++ [r]) = ix_true_stats rid done.
Proof.
  intros H. unfold ix_true_stats, ix_true_span, ix_true_mapped, ix_true_unmapped. rewrite ix_on_app.
  assert (E : ix_on rid [r] = []).
  { unfold ix_on. simpl. destruct H as [-> | H]; [reflexivity|].
    destruct (q_placed r); [|reflexivity]. destruct (q_rid r =? rid) eqn:E; [apply Z.eqb_eq in E; congruence|reflexivity]. }
  rewrite E, app_nil_r. reflexivity.
Qed.

(** Invariant: every reference slot carries the true statistics of the records seen so far. *)
Definition stats_inv (done : list irec) (ix : index) : Prop :=
  forall rid, 0 <= rid ->
    rstats (nth (Z.to_nat rid) (irefs ix) ix_empty_ref) = ix_true_stats rid done.

Lemma nth_grow' (rs : list iref) k i :
  nth i (rs ++ repeat ix_empty_ref k) ix_empty_ref = nth i rs ix_empty_ref.
Proof.
  destruct (Nat.lt_ge_cases i (length rs)) as [H|H].
  - apply app_nth1; exact H.
  - rewrite app_nth2 by exact H. rewrite (nth_overflow rs) by exact H.
    destruct (Nat.lt_ge_cases (i - length rs) k) as [H2|H2].
    + apply nth_repeat.
    + apply nth_overflow. rewrite repeat_length. exact H2.
Qed.

Lemma ix_add_stats done ix r ix' :
  stats_inv done ix -> ix_add ix r = Ok ix' -> stats_inv (done ++ [r]) ix'.
Proof.
  intros I H rid Hrid. unfold ix_add in H.
  destruct (negb (ix_valid_pos (q_start r)) || negb (ix_valid_pos (q_end r - 1))); [discriminate|].
  destruct (q_placed r) eqn:Hp; simpl in H.
  2:{ inversion H; subst; simpl. rewrite true_stats_snoc_other by (left; exact Hp). apply I; exact Hrid. }
  destruct (q_rid r <? 0) eqn:E0; [discriminate|].
  destruct (q_rid r <? zlen (irefs ix) - 1) eqn:E1; [discriminate|].
  set (refs := if q_rid r >=? zlen (irefs ix) then ix_grow_refs (irefs ix) (q_rid r) else irefs ix) in *.
  assert (Hnth : forall i, nth i refs ix_empty_ref = nth i (irefs ix) ix_empty_ref).
  { intros i. unfold refs. destruct (q_rid r >=? zlen (irefs ix)); [apply nth_grow'|reflexivity]. }
  destruct (inb refs (q_rid r)) eqn:Einb; [|discriminate]. unfold chk in H.
  unfold inb in Einb. apply andb_true_iff in Einb. destruct Einb as [Ea Eb]. apply Z.leb_le in Ea. apply Z.ltb_lt in Eb.
  assert (Hgoal : forall bins sorted intv,
            stats_inv (done ++ [r])
              (mkIdx (upd_nat refs (Z.to_nat (q_rid r))
                        (mkRef bins (Some (ix_upd_stats (rstats (nth (Z.to_nat (q_rid r)) refs ix_empty_ref)) (q_cb r, q_ce r) (q_mapped r))) intv))
                     (Some match iunm ix with Some u => u | None => 0 end) sorted (q_start r))).
  { intros bins sorted intv rid' Hrid'. simpl.
    destruct (Z.eq_dec rid' (q_rid r)) as [->|Hne].
    - rewrite nth_upd_nat_same by (unfold zlen in Eb; lia). simpl.
      rewrite true_stats_snoc by auto. rewrite Hnth. rewrite (I (q_rid r)) by lia. reflexivity.
    - rewrite nth_upd_nat_other by lia. rewrite Hnth.
      rewrite true_stats_snoc_other by (right; congruence). apply I; exact Hrid'. }
  destruct (ix_upd_bins _ _ _); destruct (q_start r <? _); try discriminate;
    destruct (ix_linear _ _ _ _); try discriminate; simpl in H; inversion H; subst; apply Hgoal; exact Hrid.
Qed.

Lemma fold_add_stats rs : forall done ix ix',
  stats_inv done ix -> ix_fold_add ix rs = Ok ix' -> stats_inv (done ++ rs) ix'.
Proof.
  induction rs as [|r t IH]; intros done ix ix' I H; simpl in H.
  - inversion H; subst. rewrite app_nil_r. exact I.
  - destruct (ix_add ix r) as [ix1| | |] eqn:E; simpl in H; try discriminate.
    replace (done ++ r :: t) with ((done ++ [r]) ++ t) by (rewrite <- app_assoc; reflexivity).
    eapply IH; [|exact H]. eapply ix_add_stats; eassumption.
Qed.

(** ReferenceStats of every reference equals the true statistics: span from the
    begin of the first to the end of the last record of the reference, mapped
    and unmapped counts; absent exactly when the reference has no record. *)
Theorem stats_reference_true rs ix rid :
  ix_fold_add ix_empty rs = Ok ix -> 0 <= rid ->
  ix_refstats ix rid = ix_true_stats rid rs.
Proof.
  intros H Hr. unfold ix_refstats.
  apply (fold_add_stats rs [] ix_empty ix); [|exact H|exact Hr].
  intros rid' _. simpl. destruct (Z.to_nat rid'); reflexivity.
Qed.

(** ** answers and statistics do not depend on sorting *)

Lemma ix_sort_sorted_id ix : isorted ix = true -> ix_sort ix = ix.
Proof. intros H. unfold ix_sort. rewrite H. reflexivity. Qed.

(** An index with the structure of [ix_sort ix] (whatever its LastRecord and
    unplaced count) answers every query like [ix]. *)
Theorem chunks_of_sorted_copy ix ix2 rid beg end_ :
  irefs ix2 = irefs (ix_sort ix) -> isorted ix2 = true ->
  fst (ix_chunks ix2 rid beg end_) = fst (ix_chunks ix rid beg end_).
Proof.
  intros Hr Hs. unfold ix_chunks. rewrite (ix_sort_sorted_id ix2 Hs). rewrite Hr.
  assert (Hl : zlen (irefs (ix_sort ix)) = zlen (irefs ix)).
  { unfold ix_sort. destruct (isorted ix); [reflexivity|]. simpl. unfold zlen. rewrite map_length. reflexivity. }
  rewrite Hl. destruct ((rid <? 0) || (rid >=? zlen (irefs ix))); [reflexivity|].
  destruct ((beg <? 0) || (end_ <? beg)); [reflexivity|]. cbn [fst].
  unfold ix_chunks_of. rewrite Hr. reflexivity.
Qed.

Lemma nth_map_sort_ref l i :
  nth i (map ix_sort_ref l) ix_empty_ref = ix_sort_ref (nth i l ix_empty_ref).
Proof. change ix_empty_ref with (ix_sort_ref ix_empty_ref) at 1. apply map_nth. Qed.

Theorem stats_of_sorted_copy ix ix2 :
  irefs ix2 = irefs (ix_sort ix) -> iunm ix2 = iunm ix ->
  ix_numrefs ix2 = ix_numrefs ix /\ iunm ix2 = iunm ix /\
  forall rid, ix_refstats ix2 rid = ix_refstats ix rid.
Proof.
  intros Hr Hu. unfold ix_numrefs, ix_refstats. rewrite Hr. unfold ix_sort.
  destruct (isorted ix); [repeat split; auto|]. simpl.
  split; [unfold zlen; rewrite map_length; reflexivity|]. split; [exact Hu|].
  intros rid. rewrite nth_map_sort_ref. reflexivity.
Qed.
