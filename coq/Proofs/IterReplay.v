(** C13 — bam.Iterator: Next over a list of record-aligned chunks, in any
    order, yields the records of each chunk in turn and then stops with io.EOF. *)
From Coq Require Import ZArith List Bool Lia.
From Hts Require Import Base.Prim Model.Flat Model.Reader Model.ChunkReader
  Proofs.FlatLemmas Proofs.ReaderFlat Proofs.ChunkReaderProof Proofs.BamReplay.
Import ListNotations.
Open Scope Z_scope.

Section Iter.
Variable F : file.
Hypothesis W : wf_file F = true.
Hypothesis Ha : addressable F = true.

(** A chunk that runs from the Begin of one record to the End of a later one:
    the chunk, the flat positions of its two ends, and the body sizes of the
    frames in between. *)
Record rchunk := mkRC { rc_c : chunk; rc_p : Z; rc_pe : Z; rc_sizes : list Z }.

Definition rchunk_ok (r : rchunk) : Prop :=
  is_before F (fst (rc_c r)) (rc_p r) /\ is_after F (snd (rc_c r)) (rc_pe r) /\
  frames F (rc_p r) (rc_sizes r) (rc_pe r) /\ rc_sizes r <> [] /\ rc_pe r <= total F.

Definition simok (s : vstate) : Prop := exists f, sim F s f /\ f_blocked f = false.

Definition cons_bodies (l0 : list (list Z)) (o : outcome (bstate (vM F) * list (list Z) * Z)) :=
  match o with Ok (b, l, e) => Ok (b, l0 ++ l, e) | Err e => Err e | Panic w => Panic w | Stuck => Stuck end.

Lemma simv_simok s p : simv F s p -> simok s.
Proof. intros (f & H & _ & Hb & _). exists f. auto. Qed.

Lemma it_all_S (n : nat) (b : bstate (vM F)) (rest : list chunk) :
  it_all (vM F) (S n) b rest =
  match it_next (vM F) b rest with
  | Ok (b1, rest1, Some body, _) =>
      match it_all (vM F) n b1 rest1 with
      | Ok (b2, l, e) => Ok (b2, body :: l, e)
      | Err e => Err e | Panic w => Panic w | Stuck => Stuck
      end
  | Ok (b1, _, None, e) => Ok (b1, [], e)
  | Err e => Err e | Panic w => Panic w | Stuck => Stuck
  end.
Proof. reflexivity. Qed.

Lemma it_next_rec (b : bstate (vM F)) (rest : list chunk) (b1 : bstate (vM F)) (body : list Z) :
  br_read (vM F) b = Ok (b1, BRec body) -> it_next (vM F) b rest = Ok (b1, rest, Some body, eNil).
Proof. intros H. destruct rest; simpl; rewrite H; reflexivity. Qed.

(** Reading the frames of the current chunk, one Next each. *)
Lemma it_all_frames : forall sizes p pe s c blc rest n,
  simv F s p -> frames F p sizes pe -> pe <= total F -> is_after F (snd c) pe ->
  (is_after F (snd (v_lc s)) p \/ (sizes <> [] /\ is_before F (snd (v_lc s)) p)) ->
  exists s1 blc1, simok s1 /\ snd (v_lc s1) = snd c /\
    it_all (vM F) (n + length sizes) (mkBR (vM F) s (Some c) blc) rest =
    cons_bodies (bodies F p sizes) (it_all (vM F) n (mkBR (vM F) s1 (Some c) blc1) rest).
Proof.
  induction sizes as [|sz r IH]; intros p pe s c blc rest n Hs Hfr Hpe Hc Hcur.
  - simpl in Hfr. subst pe. exists s, blc. split; [apply (simv_simok s p Hs)|]. split.
    + destruct Hcur as [Hx|[Hx _]]; [|contradiction]. apply (after_unique F _ _ p Hx Hc).
    + simpl. rewrite Nat.add_0_r. destruct (it_all (vM F) n _ rest) as [[[b l] e]| | |]; reflexivity.
  - simpl in Hfr. destruct Hfr as (Hsz & Hle & Hfr').
    pose proof (frames_le F _ _ _ Hfr') as Hmono.
    destruct (br_read_frame F W Ha (mkBR (vM F) s (Some c) blc) p sz Hs Hsz ltac:(lia) Hle) as (b1 & B & E & Hrd & Hl1 & Hlc1 & Hend1 & HB & HE & Hs1).
    { simpl. destruct Hcur as [Hx|[_ Hx]].
      - apply (after_lt F _ _ p pe Ha Hx Hc). lia.
      - apply (before_lt_after F _ _ p pe Ha Hx Hc). lia. }
    destruct b1 as [s1 lim1 blc1]. simpl in Hl1, Hlc1, Hend1, Hs1. subst lim1.
    destruct (IH (p + 4 + sz) pe s1 c blc1 rest n Hs1 Hfr' Hpe Hc ltac:(left; rewrite Hend1; exact HE)) as (s2 & blc2 & Hok2 & Hlc2 & Heq).
    exists s2, blc2. split; [exact Hok2|]. split; [exact Hlc2|].
    replace (n + length (sz :: r))%nat with (S (n + length r)) by (simpl; lia).
    rewrite it_all_S, (it_next_rec _ rest _ _ Hrd). rewrite Heq.
    destruct (it_all (vM F) n _ rest) as [[[b l] e]| | |]; reflexivity.
Qed.

(** At the end of the current chunk Next moves to the next chunk of the list, or stops. *)
Lemma it_next_switch (s : vstate) (c : chunk) (blc : chunk) (r : rchunk) (rest : list chunk) :
  simok s -> snd (v_lc s) = snd c -> rchunk_ok r ->
  exists s', simv F s' (rc_p r) /\ v_lc s' = (fst (rc_c r), fst (rc_c r)) /\
    it_next (vM F) (mkBR (vM F) s (Some c) blc) (rc_c r :: rest) =
    it_next (vM F) (mkBR (vM F) s' (Some (rc_c r)) blc) rest.
Proof.
  intros (f & Hsim & Hfb) Hlc (HB & HE & Hfr & Hne & Hpe).
  destruct (before_valid F _ _ Ha HB) as [Hv Htr].
  destruct (rc_c r) as [[fb0 bb0] E0] eqn:Hrc. simpl in Hv, Htr.
  destruct (seek_sim F s f fb0 bb0 W Hsim Hv) as (s' & Hsk & Hsim').
  exists s'. split; [|split; [apply (v_seek_lc F _ _ _ _ Hsk)|]].
  - eexists. split; [exact Hsim'|]. unfold flat_seek. simpl. rewrite Htr. auto.
  - unfold it_next at 1. unfold br_read. simpl br_limit. simpl br_s.
    change (m_lc (vM F) s) with (v_lc s). rewrite Hlc, Z.leb_refl.
    unfold br_setchunk. simpl fst. simpl snd. simpl br_s.
    change (m_step (vM F) s (OSeek fb0 bb0)) with (v_step F s (OSeek fb0 bb0)). simpl v_step. rewrite Hsk.
    change (negb (eNil =? eNil)) with false. cbv iota. reflexivity.
Qed.

Lemma it_next_stop (s : vstate) (c : chunk) (blc : chunk) :
  snd (v_lc s) = snd c ->
  it_next (vM F) (mkBR (vM F) s (Some c) blc) [] = Ok (mkBR (vM F) s (Some c) blc, [], None, eEOF).
Proof.
  intros Hlc. unfold it_next, br_read. simpl br_limit. simpl br_s.
  change (m_lc (vM F) s) with (v_lc s). rewrite Hlc, Z.leb_refl. reflexivity.
Qed.

Definition all_bodies (L : list rchunk) : list (list Z) := concat (map (fun r => bodies F (rc_p r) (rc_sizes r)) L).
Definition nrecs (L : list rchunk) : nat := fold_right (fun r a => (length (rc_sizes r) + a)%nat) O L.

(** From the state at the end of a chunk: the remaining chunks. *)
Lemma it_all_chunks : forall L s c blc,
  simok s -> snd (v_lc s) = snd c -> Forall rchunk_ok L ->
  exists b', it_all (vM F) (S (nrecs L)) (mkBR (vM F) s (Some c) blc) (map rc_c L) = Ok (b', all_bodies L, eEOF).
Proof.
  induction L as [|r L IH]; intros s c blc Hok Hlc HL.
  - simpl map. rewrite it_all_S. pose proof (it_next_stop s c blc Hlc) as Hst.
    match goal with |- context [it_next ?M ?B ?R] => replace (it_next M B R) with (Ok (mkBR (vM F) s (Some c) blc, @nil chunk, @None (list Z), eEOF) : outcome (bstate (vM F) * list chunk * option (list Z) * Z)) by (symmetry; exact Hst) end.
    eexists. reflexivity.
  - inversion HL as [|? ? Hr HL']; subst.
    destruct (it_next_switch s c blc r (map rc_c L) Hok Hlc Hr) as (s' & Hs' & Hlc' & Hsw).
    pose proof Hr as (HB & HE & Hfr & Hne & Hpe).
    destruct (rc_sizes r) as [|sz sizes] eqn:Hsz; [congruence|].
    (* the first Next after the switch returns the first record of the new chunk *)
    destruct (it_all_frames (sz :: sizes) (rc_p r) (rc_pe r) s' (rc_c r) blc (map rc_c L) (S (nrecs L)) Hs' Hfr Hpe HE
                ltac:(right; split; [discriminate|rewrite Hlc'; exact HB])) as (s1 & blc1 & Hok1 & Hlc1 & Heq).
    destruct (IH s1 (rc_c r) blc1 Hok1 Hlc1 HL') as (b' & Hrest).
    rewrite Hrest in Heq. simpl cons_bodies in Heq.
    exists b'.
    assert (Hab : all_bodies (r :: L) = bodies F (rc_p r) (sz :: sizes) ++ all_bodies L) by (unfold all_bodies; simpl; rewrite Hsz; reflexivity).
    rewrite Hab.
    replace (S (nrecs (r :: L))) with (S (nrecs L + length (sz :: sizes))) by (simpl nrecs; rewrite Hsz; lia).
    change (S (nrecs L) + length (sz :: sizes))%nat with (S (nrecs L + length (sz :: sizes))) in Heq.
    rewrite it_all_S in Heq |- *. simpl map.
    match goal with |- context [it_next ?M ?B ?R] => replace (it_next M B R) with (it_next (vM F) (mkBR (vM F) s' (Some (rc_c r)) blc) (map rc_c L)) by (symmetry; exact Hsw) end.
    exact Heq.
Qed.

(** NewIterator over the chunk list, then Next until it returns false. *)
Theorem iterator_replay_proof (b : bstate (vM F)) (L : list rchunk) :
  simok (br_s _ b) -> Forall rchunk_ok L -> L <> [] ->
  exists b', it_run (vM F) (S (nrecs L)) b (map rc_c L) = Ok (b', all_bodies L, eEOF).
Proof.
  intros (f & Hsim & Hfb) HL Hne. destruct L as [|r L]; [congruence|].
  inversion HL as [|? ? Hr HL']; subst.
  pose proof Hr as (HB & HE & Hfr & Hnz & Hpe).
  destruct (before_valid F _ _ Ha HB) as [Hv Htr].
  simpl map. unfold it_run, br_setchunk.
  destruct (rc_c r) as [[fb0 bb0] E0] eqn:Hrc. simpl in Hv, Htr. simpl fst. simpl snd.
  destruct (seek_sim F (br_s _ b) f fb0 bb0 W Hsim Hv) as (s' & Hsk & Hsim').
  change (m_step (vM F) (br_s (vM F) b) (OSeek fb0 bb0)) with (v_step F (br_s (vM F) b) (OSeek fb0 bb0)). simpl v_step. rewrite Hsk.
  change (negb (eNil =? eNil)) with false. cbv iota.
  assert (Hs' : simv F s' (rc_p r)).
  { eexists. split; [exact Hsim'|]. unfold flat_seek. simpl. rewrite Htr. auto. }
  pose proof (v_seek_lc F _ _ _ _ Hsk) as Hlc'.
  destruct (it_all_frames (rc_sizes r) (rc_p r) (rc_pe r) s' (fb0, bb0, E0) (br_lc _ b) (map rc_c L) (S (nrecs L)) Hs' Hfr Hpe HE
              ltac:(right; split; [exact Hnz|rewrite Hlc'; exact HB])) as (s1 & blc1 & Hok1 & Hlc1 & Heq).
  destruct (it_all_chunks L s1 (fb0, bb0, E0) blc1 Hok1 Hlc1 HL') as (b' & Hrest).
  rewrite Hrest in Heq. simpl cons_bodies in Heq.
  exists b'.
  assert (Hab : all_bodies (r :: L) = bodies F (rc_p r) (rc_sizes r) ++ all_bodies L) by reflexivity.
  rewrite Hab.
  replace (S (nrecs (r :: L))) with (S (nrecs L) + length (rc_sizes r))%nat by (simpl nrecs; lia).
  exact Heq.
Qed.

End Iter.
