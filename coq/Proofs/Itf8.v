(** Proofs about the generated ITF-8 functions (C20). *)
From Coq Require Import ZArith Lia List Bool.
From Hts Require Import Base.Prim Base.Bits Generated Model.Itf8Spec.
Open Scope Z_scope.
Ltac Zify.zify_post_hook ::= Z.div_mod_to_equations.

Definition int32 (v : Z) : Prop := - 2^31 <= v < 2^31.
Definition int64 (v : Z) : Prop := - 2^63 <= v < 2^63.

Ltac upd_explicit :=
  match goal with
  | |- context [updz (?a :: ?l) ?i ?x] =>
    let r := eval cbv [updz upd_nat Z.to_nat Pos.to_nat Pos.iter_op Init.Nat.add] in (updz (a :: l) i x) in
    change (updz (a :: l) i x) with r
  end.

Ltac buf_simpl :=
  cbv zeta;
  repeat (first
    [ rewrite inb_app by (cbv [zlen length]; lia)
    | rewrite updz_app by (cbv [zlen length]; lia)
    | upd_explicit ];
    cbv [chk]).

Ltac list_split :=
  repeat match goal with |- (_ :: _) = (_ :: _) => apply (f_equal2 (@cons Z)) end;
  try reflexivity.

Ltac arith_bits :=
  repeat match goal with
  | |- context [Z.shiftr ?a ?n] => rewrite (shiftr_div a n) by lia
  | |- context [Z.shiftl ?a ?n] => rewrite (shiftl_mul a n) by lia
  | |- context [Z.lnot ?a] => rewrite (lnot_neg a)
  end.

Lemma land_mask (a m k : Z) : 0 <= k -> m = 2 ^ k - 1 -> Z.land a m = a mod 2 ^ k.
Proof. intros Hk ->. apply land_ones_mod; assumption. Qed.

Lemma lor_const (a c k q : Z) : 0 <= k -> c = q * 2 ^ k -> 0 <= a < 2 ^ k -> Z.lor a c = a + c.
Proof. intros Hk -> Ha. apply lor_low_high; assumption. Qed.

(** Encode writes exactly Len bytes, those bytes are the specified encoding
    (up to the insignificant high nibble of a fifth byte) and nothing else
    in the buffer changes. *)
Lemma itf8_Len_spec v : itf8_Len v = Ok (itf8_spec_len (v mod 2^32)).
Proof.
  unfold itf8_Len, itf8_spec_len. unwrap.
  change (2^7) with 128; change (2^14) with 16384; change (2^21) with 2097152; change (2^28) with 268435456.
  repeat match goal with |- context [if ?c then _ else _] => destruct c end; reflexivity.
Qed.

(** The bytes Encode writes: the specified encoding, except that the fifth
    byte of the long form carries u mod 256 (only its low nibble is significant). *)
Definition itf8_wire (v : Z) : list Z :=
  let u := v mod 2^32 in
  if u <? 2^28 then itf8_spec_encode v
  else [240 + u / 2^28; (u / 2^20) mod 256; (u / 2^12) mod 256; (u / 2^4) mod 256; u mod 256].

Lemma itf8_Encode_spec v b0 b1 b2 b3 b4 tl :
  int32 v ->
  itf8_Encode ([b0; b1; b2; b3; b4] ++ tl) v
  = Ok (itf8_spec_len (v mod 2^32),
        itf8_wire v ++ skipn (length (itf8_wire v)) [b0; b1; b2; b3; b4] ++ tl).
Proof.
  intros Hv. unfold int32 in Hv. unfold itf8_Encode, itf8_wire, itf8_spec_encode, itf8_spec_len.
  unfold u32, wrapu. set (u := v mod 2^32).
  assert (Hu : 0 <= u < 2^32) by (subst u; apply Z.mod_pos_bound; lia).
  change (2^7) with 128; change (2^14) with 16384; change (2^21) with 2097152; change (2^28) with 268435456.
  destruct (Z.ltb_spec u 128) as [H1|H1].
  { destruct (Z.ltb_spec u 268435456); [|lia].
    buf_simpl. unfold u8, wrapu. cbn [skipn length app]. rewrite Z.mod_small by lia. reflexivity. }
  destruct (Z.ltb_spec u 16384) as [H2|H2].
  { destruct (Z.ltb_spec u 268435456); [|lia].
    buf_simpl. cbn [skipn length app be_bytes]. do 2 f_equal. list_split.
    - arith_bits. unfold u8, wrapu. rewrite (land_mask _ 63 6) by lia.
      rewrite (lor_const _ 128 7 1) by lia. change (2^8) with 256. change (2^6) with 64. lia.
    - unfold u8, wrapu. change (8 * Z.of_nat 0) with 0. change (2^0) with 1. change (2^8) with 256. rewrite Z.div_1_r. reflexivity. }
  destruct (Z.ltb_spec u 2097152) as [H3|H3].
  { destruct (Z.ltb_spec u 268435456); [|lia].
    buf_simpl. cbn [skipn length app be_bytes]. do 2 f_equal. list_split.
    - arith_bits. unfold u8, wrapu. rewrite (land_mask _ 31 5) by lia.
      rewrite (lor_const _ 192 6 3) by lia. change (2^8) with 256. change (2^5) with 32. change (2^16) with 65536. lia.
    - arith_bits. unfold u8, wrapu. change (8 * Z.of_nat 1) with 8. reflexivity.
    - unfold u8, wrapu. change (8 * Z.of_nat 0) with 0. change (2^0) with 1. change (2^8) with 256. rewrite Z.div_1_r. reflexivity. }
  destruct (Z.ltb_spec u 268435456) as [H4|H4].
  { buf_simpl. cbn [skipn length app be_bytes]. do 2 f_equal. list_split.
    - arith_bits. unfold u8, wrapu. rewrite (land_mask _ 15 4) by lia.
      rewrite (lor_const _ 224 5 7) by lia. change (2^8) with 256. change (2^4) with 16. change (2^24) with 16777216. lia.
    - arith_bits. unfold u8, wrapu. change (8 * Z.of_nat 2) with 16. reflexivity.
    - arith_bits. unfold u8, wrapu. change (8 * Z.of_nat 1) with 8. reflexivity.
    - unfold u8, wrapu. change (8 * Z.of_nat 0) with 0. change (2^0) with 1. change (2^8) with 256. rewrite Z.div_1_r. reflexivity. }
  buf_simpl. cbn [skipn length app]. do 2 f_equal. list_split.
  - arith_bits. unfold u8, wrapu. rewrite (lor_const _ 240 4 15) by lia.
    change (2^8) with 256. change (2^28) with 268435456. change (2^32) with 4294967296 in *. lia.
  - arith_bits. unfold u8, wrapu. reflexivity.
  - arith_bits. unfold u8, wrapu. reflexivity.
  - arith_bits. unfold u8, wrapu. reflexivity.
Qed.

(** * Decode equals the specification decoder on every byte string. *)

Lemma all_bytes_cons b t : all_bytes (b :: t) = true -> (0 <= b < 256) /\ all_bytes t = true.
Proof.
  unfold all_bytes; simpl. intros H. apply andb_prop in H. destruct H as [H1 H2].
  unfold is_byte in H1. apply andb_prop in H1. destruct H1 as [Ha Hb].
  apply Z.leb_le in Ha. apply Z.ltb_lt in Hb. split; [lia|assumption].
Qed.

Lemma itf8_n_byte b0 : 0 <= b0 < 256 -> clz8 (u8 (Z.lnot (Z.land b0 240))) + 1 = itf8_spec_n b0.
Proof.
  intros H. apply Z.eqb_eq. revert b0 H.
  apply (byte_forall (fun b0 => clz8 (u8 (Z.lnot (Z.land b0 240))) + 1 =? itf8_spec_n b0)).
  vm_compute. reflexivity.
Qed.

Lemma s32_small x : - 2^31 <= x < 2^31 -> s32 x = x.
Proof. intros H. unfold s32, wraps. change (2^(32-1)) with (2^31). change (2^31) with 2147483648 in *. change (2^32) with 4294967296. lia. Qed.

Lemma getz_explicit_app pre tl i : 0 <= i < zlen pre -> getz (pre ++ tl) i = getz pre i.
Proof. apply getz_app. Qed.

Ltac is_explicit l :=
  lazymatch l with
  | nil => idtac
  | _ :: ?t => is_explicit t
  end.

Ltac get_explicit :=
  match goal with
  | |- context [getz (?a :: ?l) ?i] =>
    is_explicit l;
    let r := eval cbv [getz nth Z.to_nat Pos.to_nat Pos.iter_op Init.Nat.add] in (getz (a :: l) i) in
    change (getz (a :: l) i) with r
  end.

Ltac zlen_explicit :=
  repeat match goal with
  | |- context [zlen (?a :: ?l)] =>
    is_explicit l;
    let r := eval cbv [zlen length Z.of_nat Pos.of_succ_nat Pos.succ] in (zlen (a :: l)) in
    change (zlen (a :: l)) with r
  end.

Ltac rd_simpl :=
  cbv zeta;
  repeat (first
    [ rewrite inb_app by (cbv [zlen length]; lia)
    | rewrite getz_app by (cbv [zlen length]; lia)
    | get_explicit ];
    cbv [chk]).

Ltac pow2 :=
  repeat match goal with
  | |- context [2 ^ ?k] =>
    lazymatch k with
    | Z.pos _ => let v := eval vm_compute in (2 ^ k) in change (2 ^ k) with v
    | Z0 => change (2 ^ 0) with 1
    end
  end.

Ltac s32_drop :=
  repeat match goal with |- context [s32 ?x] => rewrite (s32_small x) by lia end.

Ltac lor_add :=
  repeat match goal with
  | |- context [Z.lor ?a (?b * 2 ^ ?k)] => rewrite (lor_low_high a b k) by lia
  end.

Lemma s32_hi_nibble x : 0 <= x < 16 ->
  s32 (x * 2^28) = (if x <? 8 then x else x - 16) * 2^28.
Proof.
  intros H. unfold s32, wraps. change (2^(32-1)) with 2147483648. change (2^32) with 4294967296. change (2^28) with 268435456.
  destruct (Z.ltb_spec x 8); lia.
Qed.

Lemma ltb_false_app pre (t : list Z) n : n <= zlen pre -> (zlen (pre ++ t) <? n) = false.
Proof. intros H. apply Z.ltb_ge. rewrite zlen_app. pose proof (zlen_nonneg t). lia. Qed.

Lemma itf8_Decode_spec bs : all_bytes bs = true -> itf8_Decode bs = Ok (itf8_spec_decode bs).
Proof.
  destruct bs as [|b0 t]; [reflexivity|]. intros Hb.
  apply all_bytes_cons in Hb. destruct Hb as [H0 Ht].
  assert (Hz : forall l, zlen (b0 :: l) =? 0 = false).
  { intros l. apply Z.eqb_neq. unfold zlen. simpl length. lia. }
  pose proof (itf8_n_byte b0 H0) as Hn. unfold itf8_spec_n in Hn.
  destruct (Z.ltb_spec b0 128) as [C1|C1].
  { unfold itf8_Decode, itf8_spec_decode, itf8_spec_n. cbv zeta. rewrite Hz.
    change (b0 :: t) with ([b0] ++ t). rd_simpl. rewrite Hn.
    destruct (Z.ltb_spec b0 128); [|lia].
    rewrite ltb_false_app by (zlen_explicit; lia). cbn [Z.eqb Pos.eqb]. rd_simpl.
    cbv [Z.to_nat Pos.to_nat Pos.iter_op Init.Nat.add firstn itf8_spec_value app]. reflexivity. }
  destruct (Z.ltb_spec b0 192) as [C2|C2].
  { destruct t as [|b1 t].
    { unfold itf8_Decode, itf8_spec_decode, itf8_spec_n. rd_simpl. rewrite Hn. zlen_explicit.
      destruct (Z.ltb_spec b0 128); [lia|]. destruct (Z.ltb_spec b0 192); [|lia]. reflexivity. }
    apply all_bytes_cons in Ht. destruct Ht as [B1 Ht].
    unfold itf8_Decode, itf8_spec_decode, itf8_spec_n. cbv zeta. rewrite Hz.
    change (b0 :: b1 :: t) with ([b0; b1] ++ t). rd_simpl. rewrite Hn.
    destruct (Z.ltb_spec b0 128); [lia|]. destruct (Z.ltb_spec b0 192); [|lia].
    rewrite ltb_false_app by (zlen_explicit; lia). cbn [Z.eqb Pos.eqb]. rd_simpl.
    cbv [Z.to_nat Pos.to_nat Pos.iter_op Init.Nat.add firstn itf8_spec_value app].
    do 2 f_equal. f_equal.
    rewrite (land_mask _ 63 6) by lia. arith_bits. pow2. s32_drop.
    change 256 with (2^8). lor_add. pow2. lia. }
  Ltac dec_short Hn :=
    unfold itf8_Decode, itf8_spec_decode, itf8_spec_n; rd_simpl; rewrite Hn; zlen_explicit;
    repeat (match goal with |- context [?b <? ?c] => destruct (Z.ltb_spec b c); try lia end);
    reflexivity.
  Ltac dec_open Hn Hz :=
    unfold itf8_Decode, itf8_spec_decode, itf8_spec_n; cbv zeta; rewrite Hz;
    match goal with
    | |- context [zlen (?a :: ?b :: ?c :: ?d :: ?e :: ?t)] => change (a :: b :: c :: d :: e :: t) with ([a; b; c; d; e] ++ t)
    | |- context [zlen (?a :: ?b :: ?c :: ?d :: ?t)] => change (a :: b :: c :: d :: t) with ([a; b; c; d] ++ t)
    | |- context [zlen (?a :: ?b :: ?c :: ?t)] => change (a :: b :: c :: t) with ([a; b; c] ++ t)
    end;
    rd_simpl; rewrite Hn;
    repeat (match goal with |- context [?b <? ?c] => is_var b; destruct (Z.ltb_spec b c); try lia end);
    rewrite ltb_false_app by (zlen_explicit; lia); cbn [Z.eqb Pos.eqb]; rd_simpl;
    cbv [Z.to_nat Pos.to_nat Pos.iter_op Init.Nat.add firstn itf8_spec_value app];
    do 2 f_equal; f_equal.
  destruct (Z.ltb_spec b0 224) as [C3|C3].
  { destruct t as [|b1 [|b2 t]]; [dec_short Hn|dec_short Hn|].
    apply all_bytes_cons in Ht. destruct Ht as [B1 Ht].
    apply all_bytes_cons in Ht. destruct Ht as [B2 Ht].
    dec_open Hn Hz.
    rewrite (land_mask _ 31 5) by lia. arith_bits. pow2. s32_drop.
    change 256 with (2^8). change 65536 with (2^16). lor_add. pow2. lia. }
  destruct (Z.ltb_spec b0 240) as [C4|C4].
  { destruct t as [|b1 [|b2 [|b3 t]]]; [dec_short Hn|dec_short Hn|dec_short Hn|].
    apply all_bytes_cons in Ht. destruct Ht as [B1 Ht].
    apply all_bytes_cons in Ht. destruct Ht as [B2 Ht].
    apply all_bytes_cons in Ht. destruct Ht as [B3 Ht].
    dec_open Hn Hz.
    rewrite (land_mask _ 15 4) by lia. arith_bits. pow2. s32_drop.
    change 256 with (2^8). change 65536 with (2^16). change 16777216 with (2^24). lor_add. pow2. lia. }
  destruct t as [|b1 [|b2 [|b3 [|b4 t]]]]; [dec_short Hn|dec_short Hn|dec_short Hn|dec_short Hn|].
  apply all_bytes_cons in Ht. destruct Ht as [B1 Ht].
  apply all_bytes_cons in Ht. destruct Ht as [B2 Ht].
  apply all_bytes_cons in Ht. destruct Ht as [B3 Ht].
  apply all_bytes_cons in Ht. destruct Ht as [B4 Ht].
  dec_open Hn Hz.
  rewrite !(land_mask _ 15 4) by lia. arith_bits.
  rewrite (s32_small (b4 mod 2^4)) by (pow2; lia).
  rewrite (s32_small b3), (s32_small b2), (s32_small b1) by (pow2; lia).
  rewrite (s32_small (b0 mod 2^4)) by (pow2; lia).
  rewrite (s32_small (b3 * 2^4)), (s32_small (b2 * 2^12)), (s32_small (b1 * 2^20)) by (pow2; lia).
  rewrite s32_hi_nibble by (pow2; lia).
  lor_add. unfold s32, wraps. pow2. change (2^(32-1)) with 2147483648.
  destruct (Z.ltb_spec (b0 mod 16) 8); lia.
Qed.

(** * Round trip at the level of the specification codec. *)

Ltac be_norm :=
  cbn [be_bytes];
  change (8 * Z.of_nat 0) with 0; change (8 * Z.of_nat 1) with 8;
  change (8 * Z.of_nat 2) with 16; change (8 * Z.of_nat 3) with 24;
  change (8 * Z.of_nat 4) with 32; change (8 * Z.of_nat 5) with 40;
  change (8 * Z.of_nat 6) with 48; change (8 * Z.of_nat 7) with 56.

Ltac len_absurd H := exfalso; unfold zlen in H; simpl length in H; lia.

Lemma zlen_cons {A} (a : A) l : zlen (a :: l) = 1 + zlen l.
Proof. unfold zlen. simpl length. lia. Qed.

Lemma is_byte_true x : 0 <= x < 256 -> is_byte x = true.
Proof. intros H. unfold is_byte. apply andb_true_intro. split; [apply Z.leb_le|apply Z.ltb_lt]; lia. Qed.

Lemma itf8_spec_decode_app b0 t rest :
  itf8_spec_n b0 = zlen (b0 :: t) ->
  itf8_spec_decode ((b0 :: t) ++ rest) = (s32 (itf8_spec_value (b0 :: t)), zlen (b0 :: t), true).
Proof.
  intros Hn. unfold itf8_spec_decode. cbn [app]. rewrite Hn.
  change (b0 :: t ++ rest) with ((b0 :: t) ++ rest).
  rewrite ltb_false_app by lia.
  unfold zlen. rewrite Nat2Z.id. rewrite firstn_app, Nat.sub_diag, firstn_all. cbn [firstn]. rewrite app_nil_r. reflexivity.
Qed.

Lemma cons_inj {A} (a b : A) l m : a :: l = b :: m -> a = b /\ l = m.
Proof. intros H. inversion H. split; reflexivity. Qed.

Ltac list_inj H :=
  repeat (apply cons_inj in H; let E := fresh "E" in destruct H as [E H]; try subst).

Ltac spec_n_solve :=
  unfold itf8_spec_n; zlen_explicit;
  repeat match goal with |- context [?b <? ?c] => destruct (Z.ltb_spec b c); try lia end.

Lemma itf8_spec_roundtrip v enc rest :
  int32 v -> zlen enc = itf8_spec_len (v mod 2^32) -> itf8_canon enc = itf8_spec_encode v ->
  itf8_spec_decode (enc ++ rest) = (v, itf8_spec_len (v mod 2^32), true).
Proof.
  unfold int32. intros Hv. unfold itf8_spec_encode, itf8_spec_len.
  set (u := v mod 2^32).
  assert (Hu : 0 <= u < 2^32) by (subst u; apply Z.mod_pos_bound; lia).
  assert (Hs : s32 u = v).
  { subst u. unfold s32, wraps. change (2^(32-1)) with 2147483648. change (2^32) with 4294967296 in *. change (2^31) with 2147483648 in *. lia. }
  pow2. change (2^32) with 4294967296 in Hu.
  Ltac too_long Hl enc := rewrite !zlen_cons in Hl; pose proof (zlen_nonneg enc); lia.
  Ltac finish Hs :=
    rewrite itf8_spec_decode_app by spec_n_solve; zlen_explicit; cbv [itf8_spec_value]; pow2;
    f_equal; f_equal; rewrite <- Hs; f_equal; lia.
  destruct (Z.ltb_spec u 128) as [H1|H1].
  { intros Hl Hc. destruct enc as [|e0 [|e1 enc]]; [len_absurd Hl| |too_long Hl enc].
    cbn [itf8_canon] in Hc. list_inj Hc. finish Hs. }
  destruct (Z.ltb_spec u 16384) as [H2|H2].
  { intros Hl Hc. destruct enc as [|e0 [|e1 [|e2 enc]]]; [len_absurd Hl|len_absurd Hl| |too_long Hl enc].
    cbn [itf8_canon] in Hc. revert Hc. be_norm. pow2. intros Hc. list_inj Hc. finish Hs. }
  destruct (Z.ltb_spec u 2097152) as [H3|H3].
  { intros Hl Hc. destruct enc as [|e0 [|e1 [|e2 [|e3 enc]]]]; [len_absurd Hl|len_absurd Hl|len_absurd Hl| |too_long Hl enc].
    cbn [itf8_canon] in Hc. revert Hc. be_norm. pow2. intros Hc. list_inj Hc. finish Hs. }
  destruct (Z.ltb_spec u 268435456) as [H4|H4].
  { intros Hl Hc. destruct enc as [|e0 [|e1 [|e2 [|e3 [|e4 enc]]]]]; [len_absurd Hl|len_absurd Hl|len_absurd Hl|len_absurd Hl| |too_long Hl enc].
    cbn [itf8_canon] in Hc. revert Hc. be_norm. pow2. intros Hc. list_inj Hc. finish Hs. }
  intros Hl Hc. destruct enc as [|e0 [|e1 [|e2 [|e3 [|e4 [|e5 enc]]]]]]; [len_absurd Hl|len_absurd Hl|len_absurd Hl|len_absurd Hl|len_absurd Hl| |too_long Hl enc].
  cbn [itf8_canon] in Hc. revert Hc. pow2. intros Hc. list_inj Hc.
  rewrite itf8_spec_decode_app by spec_n_solve. zlen_explicit. cbv [itf8_spec_value]. pow2.
  f_equal. f_equal. rewrite <- Hs. f_equal. lia.
Qed.

Lemma itf8_wire_props v : int32 v ->
  zlen (itf8_wire v) = itf8_spec_len (v mod 2^32) /\
  all_bytes (itf8_wire v) = true /\
  itf8_canon (itf8_wire v) = itf8_spec_encode v.
Proof.
  unfold int32. intros Hv. unfold itf8_wire, itf8_spec_encode, itf8_spec_len.
  set (u := v mod 2^32).
  assert (Hu : 0 <= u < 2^32) by (subst u; apply Z.mod_pos_bound; lia).
  pow2. change (2^32) with 4294967296 in Hu.
  destruct (Z.ltb_spec u 128) as [H1|H1].
  { destruct (Z.ltb_spec u 268435456); [|lia]. repeat split. cbn. rewrite !is_byte_true by lia. reflexivity. }
  destruct (Z.ltb_spec u 16384) as [H2|H2].
  { destruct (Z.ltb_spec u 268435456); [|lia]. be_norm. pow2. repeat split. cbn [all_bytes forallb]. rewrite !is_byte_true by lia. reflexivity. }
  destruct (Z.ltb_spec u 2097152) as [H3|H3].
  { destruct (Z.ltb_spec u 268435456); [|lia]. be_norm. pow2. repeat split. cbn [all_bytes forallb]. rewrite !is_byte_true by lia. reflexivity. }
  destruct (Z.ltb_spec u 268435456) as [H4|H4].
  { be_norm. pow2. repeat split. cbn [all_bytes forallb]. rewrite !is_byte_true by lia. reflexivity. }
  repeat split.
  - cbn [all_bytes forallb]. rewrite !is_byte_true by lia. reflexivity.
  - cbn [itf8_canon]. list_split. lia.
Qed.

(** Full round trip on the generated functions. *)
Lemma itf8_roundtrip_gen v b0 b1 b2 b3 b4 tl rest :
  int32 v -> all_bytes rest = true ->
  exists n out,
    itf8_Encode ([b0; b1; b2; b3; b4] ++ tl) v = Ok (n, out) /\
    itf8_Len v = Ok n /\
    1 <= n <= 5 /\
    skipn (Z.to_nat n) out = skipn (Z.to_nat n) ([b0; b1; b2; b3; b4] ++ tl) /\
    itf8_canon (firstn (Z.to_nat n) out) = itf8_spec_encode v /\
    itf8_Decode (firstn (Z.to_nat n) out ++ rest) = Ok (v, n, true).
Proof.
  intros Hv Hr. destruct (itf8_wire_props v Hv) as (Hlen & Hbytes & Hcanon).
  exists (itf8_spec_len (v mod 2^32)), (itf8_wire v ++ skipn (length (itf8_wire v)) [b0; b1; b2; b3; b4] ++ tl).
  assert (Hn : Z.to_nat (itf8_spec_len (v mod 2 ^ 32)) = length (itf8_wire v)).
  { rewrite <- Hlen. unfold zlen. apply Nat2Z.id. }
  assert (Hrange : 1 <= itf8_spec_len (v mod 2^32) <= 5).
  { unfold itf8_spec_len. repeat match goal with |- context [if ?c then _ else _] => destruct c end; lia. }
  split; [apply itf8_Encode_spec; assumption|].
  split; [apply itf8_Len_spec|].
  split; [assumption|].
  rewrite Hn.
  assert (Hf : firstn (length (itf8_wire v)) (itf8_wire v ++ skipn (length (itf8_wire v)) [b0; b1; b2; b3; b4] ++ tl) = itf8_wire v).
  { rewrite firstn_app, Nat.sub_diag, firstn_all. cbn [firstn]. apply app_nil_r. }
  rewrite Hf.
  split.
  { rewrite skipn_app, Nat.sub_diag, skipn_all. cbn [skipn app].
    assert (Hl5 : (length (itf8_wire v) <= 5)%nat) by (unfold zlen in Hlen; lia).
    change (b0 :: b1 :: b2 :: b3 :: b4 :: tl) with ([b0; b1; b2; b3; b4] ++ tl).
    rewrite (skipn_app (length (itf8_wire v)) [b0; b1; b2; b3; b4] tl).
    replace (length (itf8_wire v) - length [b0; b1; b2; b3; b4])%nat with 0%nat by (simpl length; lia).
    reflexivity. }
  split; [assumption|].
  rewrite itf8_Decode_spec.
  - rewrite (itf8_spec_roundtrip v); try assumption. reflexivity.
  - unfold all_bytes in *. rewrite forallb_app, Hbytes, Hr. reflexivity.
Qed.

(** * Decode looks at the announced number of bytes only. *)

Lemma forallb_firstn {A} (f : A -> bool) n l : forallb f l = true -> forallb f (firstn n l) = true.
Proof.
  revert n; induction l as [|a l IH]; intros [|n] H; simpl in *; auto.
  apply andb_prop in H. destruct H as [Ha Hl]. rewrite Ha, IH by assumption. reflexivity.
Qed.

Lemma itf8_spec_n_range b : 1 <= itf8_spec_n b <= 5.
Proof. unfold itf8_spec_n. repeat match goal with |- context [if ?c then _ else _] => destruct c end; lia. Qed.

Lemma itf8_no_overread_gen bs :
  all_bytes bs = true ->
  exists v n ok,
    itf8_Decode bs = Ok (v, n, ok) /\
    (bs = [] -> n = 0 /\ ok = false) /\
    (bs <> [] -> n = itf8_spec_n (hd 0 bs) /\ ok = (n <=? zlen bs)) /\
    (ok = true -> itf8_Decode (firstn (Z.to_nat n) bs) = Ok (v, n, true)) /\
    (ok = false -> v = 0).
Proof.
  intros Hb. rewrite (itf8_Decode_spec bs Hb).
  destruct bs as [|b0 t].
  { exists 0, 0, false. repeat split; try discriminate; congruence. }
  unfold itf8_spec_decode at 1.
  pose proof (itf8_spec_n_range b0) as Hr.
  destruct (Z.ltb_spec (zlen (b0 :: t)) (itf8_spec_n b0)) as [Hs|Hs].
  { exists 0, (itf8_spec_n b0), false. repeat split; try discriminate.
    symmetry. apply Z.leb_gt. assumption. }
  eexists _, (itf8_spec_n b0), true. split; [reflexivity|]. repeat split; try discriminate.
  { symmetry. apply Z.leb_le. assumption. }
  intros _. rewrite itf8_Decode_spec by (apply forallb_firstn; assumption).
  f_equal. unfold itf8_spec_decode.
  set (n := itf8_spec_n b0) in *.
  assert (Hn : Z.to_nat n = S (Z.to_nat (n - 1))) by lia.
  rewrite Hn. cbn [firstn]. fold n.
  assert (Hl : zlen (b0 :: firstn (Z.to_nat (n - 1)) t) = n).
  { unfold zlen in *. simpl length in *. rewrite firstn_length. lia. }
  rewrite Hl, Z.ltb_irrefl. rewrite Hn.
  change (firstn (S (Z.to_nat (n - 1))) (b0 :: firstn (Z.to_nat (n - 1)) t))
    with (b0 :: firstn (Z.to_nat (n - 1)) (firstn (Z.to_nat (n - 1)) t)).
  rewrite firstn_firstn, Nat.min_id. reflexivity.
Qed.
