(** C14 — facts about the generated lock skeletons (computed, the skeletons
    are data regenerated from bgzf/cache/cache.go on every run). *)
From Coq Require Import ZArith List Bool.
From Hts Require Import Base.Prim Generated Model.LockSkel.
Import ListNotations.

Lemma api_no_reacquire : forallb sk_no_reacquire c14_api_locks = true.
Proof. vm_compute. reflexivity. Qed.

Lemma api_one_section : forallb sk_one_section c14_api_locks = true.
Proof. vm_compute. reflexivity. Qed.

Lemma drop_helpers_do_not_relock :
  lru_relock = false /\ fifo_relock = false /\ random_relock = false.
Proof. vm_compute. repeat split; reflexivity. Qed.
