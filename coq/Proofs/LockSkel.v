(** C14 — facts about the generated lock skeletons (computed, the skeletons
    are data regenerated from bgzf/cache/cache.go on every run). *)
From Coq Require Import ZArith List Bool.
From Hts Require Import Base.Prim Generated Model.LockSkel.
Import ListNotations.

Lemma api_no_reacquire : forallb sk_no_reacquire c14_api_locks = true.
Proof. vm_compute. reflexivity. Qed.

Lemma api_one_section : forallb sk_one_section c14_api_locks = true.
Proof. vm_compute. reflexivity. Qed.

Lemma drop_helpers_do_not_relock :
  lru_relock = false /\ fifo_relock = false /\ random_relock = false.
Proof. vm_compute. repeat split; reflexivity. Qed.

(** every access to table, list links, nodes (also through aliases), cap,
    stats counters and the wrapped cache lies between lock and unlock *)
Lemma api_accesses_inside : forallb sk_accesses_inside c14_api_locks = true.
Proof. vm_compute. reflexivity. Qed.

(** Len, Cap, Peek only read, under the read lock; all other cache methods
    work under the write lock (the model's [op_is_read]) *)
Lemma readers_and_writers :
  forallb sk_is_reader c14_reader_locks = true /\ forallb sk_is_writer c14_writer_locks = true
  /\ length c14_reader_locks = 9%nat /\ (length c14_reader_locks + length c14_writer_locks = length c14_cache_api_locks)%nat.
Proof. vm_compute. repeat split; reflexivity. Qed.

(** the two mutexes guard disjoint state: cache methods touch only table,
    list, nodes and cap; StatsRecorder methods only its counters and the
    reference to the wrapped cache *)
Lemma lock_domains :
  forallb (sk_fields_in [FTable; FList; FNode; FCap]) c14_cache_api_locks = true
  /\ forallb (sk_fields_in [FStats; FInner]) c14_stats_api_locks = true.
Proof. vm_compute. split; reflexivity. Qed.

(** no function outside the methods reaches shared state without the lock:
    the lock-free helpers are called only from methods (where the skeletons
    inline them); no closure or go statement inside a method *)
Lemma no_unlocked_entry : c14_unlocked_entry_points = 0%Z.
Proof. reflexivity. Qed.
