(** Proofs about the generated LTF-8 functions (C20). *)
From Coq Require Import ZArith Lia List Bool.
From Hts Require Import Base.Prim Base.Bits Generated Model.Itf8Spec Proofs.Itf8.
Open Scope Z_scope.
Ltac Zify.zify_post_hook ::= Z.div_mod_to_equations.

(** * Len *)

Lemma ltf8_Len_spec v : ltf8_Len v = Ok (ltf8_spec_len (v mod 2^64)).
Proof.
  unfold ltf8_Len, ltf8_spec_len. unwrap. pow2. set (u := v mod 18446744073709551616).
  repeat match goal with |- context [?b <? ?c] => destruct (Z.ltb_spec b c); try lia end; reflexivity.
Qed.

Lemma ltf8_spec_len_range u : 1 <= ltf8_spec_len u <= 9.
Proof. unfold ltf8_spec_len. repeat match goal with |- context [if ?c then _ else _] => destruct c end; lia. Qed.

(** * Encode *)

(** Closed sub-terms of the specification encoder once the length class is known. *)
Ltac spec_enc_norm :=
  repeat match goal with
  | |- context [ltf8_prefix ?n] => let r := eval vm_compute in (ltf8_prefix n) in change (ltf8_prefix n) with r
  | |- context [Z.to_nat (?n - 1)] => let r := eval vm_compute in (Z.to_nat (n - 1)) in change (Z.to_nat (n - 1)) with r
  | |- context [8 * (?n - 1)] => let r := eval vm_compute in (8 * (n - 1)) in change (8 * (n - 1)) with r
  | |- context [Z.pos ?p <? 9] => let r := eval vm_compute in (Z.pos p <? 9) in change (Z.pos p <? 9) with r
  end;
  cbv iota; be_norm.

Lemma ltf8_spec_len_class u n lo hi :
  0 <= u < 2^64 -> lo <= u < hi ->
  (lo, hi, n) = (0, 2^7, 1) \/ (lo, hi, n) = (2^7, 2^14, 2) \/ (lo, hi, n) = (2^14, 2^21, 3) \/
  (lo, hi, n) = (2^21, 2^28, 4) \/ (lo, hi, n) = (2^28, 2^35, 5) \/ (lo, hi, n) = (2^35, 2^42, 6) \/
  (lo, hi, n) = (2^42, 2^49, 7) \/ (lo, hi, n) = (2^49, 2^56, 8) \/ (lo, hi, n) = (2^56, 2^64, 9) ->
  ltf8_spec_len u = n.
Proof.
  intros Hu Hr Hc. unfold ltf8_spec_len. revert Hu Hr Hc. pow2. intros Hu Hr Hc.
  repeat (destruct Hc as [Hc|Hc]; [inversion Hc; subst; clear Hc;
    repeat match goal with |- context [?b <? ?c] => destruct (Z.ltb_spec b c); try lia end; reflexivity|]).
  inversion Hc; subst; clear Hc.
  repeat match goal with |- context [?b <? ?c] => destruct (Z.ltb_spec b c); try lia end; reflexivity.
Qed.

Ltac u8_bytes := arith_bits; unfold u8, wrapu; reflexivity.

Lemma ltf8_Encode_spec v b0 b1 b2 b3 b4 b5 b6 b7 b8 tl :
  int64 v ->
  ltf8_Encode ([b0; b1; b2; b3; b4; b5; b6; b7; b8] ++ tl) v
  = Ok (ltf8_spec_len (v mod 2^64),
        ltf8_spec_encode v ++ skipn (length (ltf8_spec_encode v)) [b0; b1; b2; b3; b4; b5; b6; b7; b8] ++ tl).
Proof.
  intros Hv. unfold int64 in Hv. unfold ltf8_Encode, ltf8_spec_encode.
  unfold u64, wrapu. set (u := v mod 2^64).
  assert (Hu : 0 <= u < 2^64) by (subst u; apply Z.mod_pos_bound; lia).
  cbv zeta.
  destruct (Z.ltb_spec u 128) as [H1|H1].
  { rewrite (ltf8_spec_len_class u 1 0 (2^7)) by (try tauto; pow2; lia). spec_enc_norm.
    buf_simpl. cbn [skipn length app]. do 2 f_equal. list_split.
    unfold u8, wrapu. pow2. rewrite Z.div_1_r. lia. }
  destruct (Z.ltb_spec u 16384) as [H2|H2].
  { rewrite (ltf8_spec_len_class u 2 (2^7) (2^14)) by (try tauto; pow2; lia). spec_enc_norm.
    buf_simpl. cbn [skipn length app]. do 2 f_equal. list_split; try u8_bytes.
    - arith_bits. unfold u8, wrapu. rewrite (land_mask _ 63 6) by lia.
      rewrite (lor_const _ 128 7 1) by lia. pow2. lia.
    - unfold u8, wrapu. pow2. rewrite Z.div_1_r. reflexivity. }
  destruct (Z.ltb_spec u 2097152) as [H3|H3].
  { rewrite (ltf8_spec_len_class u 3 (2^14) (2^21)) by (try tauto; pow2; lia). spec_enc_norm.
    buf_simpl. cbn [skipn length app]. do 2 f_equal. list_split; try u8_bytes.
    - arith_bits. unfold u8, wrapu. rewrite (land_mask _ 31 5) by lia.
      rewrite (lor_const _ 192 6 3) by lia. pow2. lia.
    - unfold u8, wrapu. pow2. rewrite Z.div_1_r. reflexivity. }
  destruct (Z.ltb_spec u 268435456) as [H4|H4].
  { rewrite (ltf8_spec_len_class u 4 (2^21) (2^28)) by (try tauto; pow2; lia). spec_enc_norm.
    buf_simpl. cbn [skipn length app]. do 2 f_equal. list_split; try u8_bytes.
    - arith_bits. unfold u8, wrapu. rewrite (land_mask _ 15 4) by lia.
      rewrite (lor_const _ 224 5 7) by lia. pow2. lia.
    - unfold u8, wrapu. pow2. rewrite Z.div_1_r. reflexivity. }
  destruct (Z.ltb_spec u 34359738368) as [H5|H5].
  { rewrite (ltf8_spec_len_class u 5 (2^28) (2^35)) by (try tauto; pow2; lia). spec_enc_norm.
    buf_simpl. cbn [skipn length app]. do 2 f_equal. list_split; try u8_bytes.
    - arith_bits. unfold u8, wrapu. rewrite (land_mask _ 7 3) by lia.
      rewrite (lor_const _ 240 4 15) by lia. pow2. lia.
    - unfold u8, wrapu. pow2. rewrite Z.div_1_r. reflexivity. }
  destruct (Z.ltb_spec u 4398046511104) as [H6|H6].
  { rewrite (ltf8_spec_len_class u 6 (2^35) (2^42)) by (try tauto; pow2; lia). spec_enc_norm.
    buf_simpl. cbn [skipn length app]. do 2 f_equal. list_split; try u8_bytes.
    - arith_bits. unfold u8, wrapu. rewrite (land_mask _ 3 2) by lia.
      rewrite (lor_const _ 248 3 31) by lia. pow2. lia.
    - unfold u8, wrapu. pow2. rewrite Z.div_1_r. reflexivity. }
  destruct (Z.ltb_spec u 562949953421312) as [H7|H7].
  { rewrite (ltf8_spec_len_class u 7 (2^42) (2^49)) by (try tauto; pow2; lia). spec_enc_norm.
    buf_simpl. cbn [skipn length app]. do 2 f_equal. list_split; try u8_bytes.
    - arith_bits. unfold u8, wrapu. rewrite (land_mask _ 1 1) by lia.
      rewrite (lor_const _ 252 2 63) by lia. pow2. lia.
    - unfold u8, wrapu. pow2. rewrite Z.div_1_r. reflexivity. }
  destruct (Z.ltb_spec u 72057594037927936) as [H8|H8].
  { rewrite (ltf8_spec_len_class u 8 (2^49) (2^56)) by (try tauto; pow2; lia). spec_enc_norm.
    buf_simpl. cbn [skipn length app]. do 2 f_equal. list_split; try u8_bytes.
    - pow2. lia.
    - unfold u8, wrapu. pow2. rewrite Z.div_1_r. reflexivity. }
  rewrite (ltf8_spec_len_class u 9 (2^56) (2^64)) by (try tauto; pow2; lia). spec_enc_norm.
  buf_simpl. cbn [skipn length app]. do 2 f_equal. list_split; try u8_bytes.
  unfold u8, wrapu. pow2. rewrite Z.div_1_r. reflexivity.
Qed.

(** * Decode equals the specification decoder on every byte string. *)

Lemma ltf8_n_byte b0 : 0 <= b0 < 256 -> clz8 (u8 (Z.lnot b0)) + 1 = ltf8_spec_n b0.
Proof.
  intros H. apply Z.eqb_eq. revert b0 H.
  apply (byte_forall (fun b0 => clz8 (u8 (Z.lnot b0)) + 1 =? ltf8_spec_n b0)).
  vm_compute. reflexivity.
Qed.

Lemma s64_small x : - 2^63 <= x < 2^63 -> s64 x = x.
Proof. intros H. unfold s64, wraps. change (2^(64-1)) with (2^63). revert H. pow2. lia. Qed.

(** int64(b[1])<<56 wraps into the sign bit. *)
Lemma s64_hi_byte x : 0 <= x < 256 ->
  s64 (x * 2^56) = (if x <? 128 then x else x - 256) * 2^56.
Proof.
  intros H. unfold s64, wraps. change (2^(64-1)) with (2^63). pow2.
  destruct (Z.ltb_spec x 128); lia.
Qed.

Ltac s64_drop :=
  repeat match goal with |- context [s64 ?x] => rewrite (s64_small x) by (pow2; lia) end.

Ltac all_bytes_split Ht :=
  repeat (apply all_bytes_cons in Ht; let B := fresh "B" in destruct Ht as [B Ht]).

Ltac ltf_short Hn Hk :=
  unfold ltf8_Decode, ltf8_spec_decode; rd_simpl; rewrite Hn, ?Hk; zlen_explicit; reflexivity.

Ltac ltf_class Hk k :=
  match goal with b0 : Z |- _ =>
    assert (Hk : ltf8_spec_n b0 = k)
      by (unfold ltf8_spec_n; repeat (match goal with |- context [?b <? ?c] => destruct (Z.ltb_spec b c); try lia end); reflexivity)
  end.

Ltac ltf_open Hn Hk Hz :=
  unfold ltf8_Decode, ltf8_spec_decode; cbv zeta; rewrite Hz;
  match goal with
  | |- context [zlen (?a :: ?b :: ?c :: ?d :: ?e :: ?f :: ?g :: ?h :: ?i :: ?t)] => change (a :: b :: c :: d :: e :: f :: g :: h :: i :: t) with ([a; b; c; d; e; f; g; h; i] ++ t)
  | |- context [zlen (?a :: ?b :: ?c :: ?d :: ?e :: ?f :: ?g :: ?h :: ?t)] => change (a :: b :: c :: d :: e :: f :: g :: h :: t) with ([a; b; c; d; e; f; g; h] ++ t)
  | |- context [zlen (?a :: ?b :: ?c :: ?d :: ?e :: ?f :: ?g :: ?t)] => change (a :: b :: c :: d :: e :: f :: g :: t) with ([a; b; c; d; e; f; g] ++ t)
  | |- context [zlen (?a :: ?b :: ?c :: ?d :: ?e :: ?f :: ?t)] => change (a :: b :: c :: d :: e :: f :: t) with ([a; b; c; d; e; f] ++ t)
  | |- context [zlen (?a :: ?b :: ?c :: ?d :: ?e :: ?t)] => change (a :: b :: c :: d :: e :: t) with ([a; b; c; d; e] ++ t)
  | |- context [zlen (?a :: ?b :: ?c :: ?d :: ?t)] => change (a :: b :: c :: d :: t) with ([a; b; c; d] ++ t)
  | |- context [zlen (?a :: ?b :: ?c :: ?t)] => change (a :: b :: c :: t) with ([a; b; c] ++ t)
  | |- context [zlen (?a :: ?b :: ?t)] => change (a :: b :: t) with ([a; b] ++ t)
  | |- context [zlen (?a :: ?t)] => change (a :: t) with ([a] ++ t)
  end;
  rd_simpl; rewrite Hn, ?Hk;
  rewrite ltb_false_app by (zlen_explicit; lia); cbn [Z.eqb Pos.eqb]; rd_simpl;
  cbn [Z.ltb Z.compare Pos.compare Pos.compare_cont Z.sub Z.add Z.opp Z.pos_sub Pos.pred_double Z.succ_double Z.pred_double Z.double];
  cbv [Z.to_nat Pos.to_nat Pos.iter_op Init.Nat.add firstn tl be_value app];
  do 2 f_equal; f_equal.

Lemma ltf8_Decode_spec bs : all_bytes bs = true -> ltf8_Decode bs = Ok (ltf8_spec_decode bs).
Proof.
  destruct bs as [|b0 t]; [reflexivity|]. intros Hb.
  apply all_bytes_cons in Hb. destruct Hb as [H0 Ht].
  assert (Hz : forall l, zlen (b0 :: l) =? 0 = false).
  { intros l. apply Z.eqb_neq. unfold zlen. simpl length. lia. }
  pose proof (ltf8_n_byte b0 H0) as Hn.
  destruct (Z.ltb_spec b0 128) as [C1|C1].
  { ltf_class Hk 1. ltf_open Hn Hk Hz. s64_drop. pow2. lia. }
  destruct (Z.ltb_spec b0 192) as [C2|C2].
  { ltf_class Hk 2. destruct t as [|b1 t]; [ltf_short Hn Hk|].
    all_bytes_split Ht. ltf_open Hn Hk Hz. 
    rewrite (land_mask _ 63 6) by lia. arith_bits. s64_drop. lor_add. pow2. lia. }
  destruct (Z.ltb_spec b0 224) as [C3|C3].
  { ltf_class Hk 3. destruct t as [|b1 [|b2 t]]; [ltf_short Hn Hk|ltf_short Hn Hk|].
    all_bytes_split Ht. ltf_open Hn Hk Hz.
    rewrite (land_mask _ 31 5) by lia. arith_bits. s64_drop. lor_add. pow2. lia. }
  destruct (Z.ltb_spec b0 240) as [C4|C4].
  { ltf_class Hk 4. destruct t as [|b1 [|b2 [|b3 t]]]; [ltf_short Hn Hk|ltf_short Hn Hk|ltf_short Hn Hk|].
    all_bytes_split Ht. ltf_open Hn Hk Hz.
    rewrite (land_mask _ 15 4) by lia. arith_bits. s64_drop. lor_add. pow2. lia. }
  destruct (Z.ltb_spec b0 248) as [C5|C5].
  { ltf_class Hk 5. destruct t as [|b1 [|b2 [|b3 [|b4 t]]]]; [ltf_short Hn Hk|ltf_short Hn Hk|ltf_short Hn Hk|ltf_short Hn Hk|].
    all_bytes_split Ht. ltf_open Hn Hk Hz.
    rewrite (land_mask _ 7 3) by lia. arith_bits. s64_drop. lor_add. pow2. lia. }
  destruct (Z.ltb_spec b0 252) as [C6|C6].
  { ltf_class Hk 6. destruct t as [|b1 [|b2 [|b3 [|b4 [|b5 t]]]]]; [ltf_short Hn Hk|ltf_short Hn Hk|ltf_short Hn Hk|ltf_short Hn Hk|ltf_short Hn Hk|].
    all_bytes_split Ht. ltf_open Hn Hk Hz.
    rewrite (land_mask _ 3 2) by lia. arith_bits. s64_drop. lor_add. pow2. lia. }
  destruct (Z.ltb_spec b0 254) as [C7|C7].
  { ltf_class Hk 7. destruct t as [|b1 [|b2 [|b3 [|b4 [|b5 [|b6 t]]]]]]; [ltf_short Hn Hk|ltf_short Hn Hk|ltf_short Hn Hk|ltf_short Hn Hk|ltf_short Hn Hk|ltf_short Hn Hk|].
    all_bytes_split Ht. ltf_open Hn Hk Hz.
    rewrite (land_mask _ 1 1) by lia. arith_bits. s64_drop. lor_add. pow2. lia. }
  destruct (Z.ltb_spec b0 255) as [C8|C8].
  { ltf_class Hk 8. destruct t as [|b1 [|b2 [|b3 [|b4 [|b5 [|b6 [|b7 t]]]]]]]; [ltf_short Hn Hk|ltf_short Hn Hk|ltf_short Hn Hk|ltf_short Hn Hk|ltf_short Hn Hk|ltf_short Hn Hk|ltf_short Hn Hk|].
    all_bytes_split Ht. ltf_open Hn Hk Hz.
    arith_bits. s64_drop. lor_add. pow2. lia. }
  ltf_class Hk 9.
  destruct t as [|b1 [|b2 [|b3 [|b4 [|b5 [|b6 [|b7 [|b8 t]]]]]]]]; [ltf_short Hn Hk|ltf_short Hn Hk|ltf_short Hn Hk|ltf_short Hn Hk|ltf_short Hn Hk|ltf_short Hn Hk|ltf_short Hn Hk|ltf_short Hn Hk|].
  all_bytes_split Ht. ltf_open Hn Hk Hz.
  arith_bits. s64_drop. rewrite s64_hi_byte by lia. lor_add.
  unfold s64, wraps. change (2^(64-1)) with (2^63). pow2.
  destruct (Z.ltb_spec b1 128); lia.
Qed.

(** * Round trip at the level of the specification codec. *)

Lemma be_bytes_length k u : length (be_bytes k u) = k.
Proof. induction k; simpl; congruence. Qed.

Lemma be_bytes_all_bytes k u : all_bytes (be_bytes k u) = true.
Proof.
  induction k as [|k IH]; [reflexivity|]. cbn [be_bytes all_bytes forallb].
  fold (all_bytes (be_bytes k u)). rewrite IH, is_byte_true; [reflexivity|].
  apply Z.mod_pos_bound. lia.
Qed.

(** Reading back the [k] big-endian payload bytes of [u] appends the low
    [8k] bits of [u] to the accumulator. *)
Lemma be_value_be_bytes k u acc :
  be_value (be_bytes k u) acc = acc * 2 ^ (8 * Z.of_nat k) + u mod 2 ^ (8 * Z.of_nat k).
Proof.
  revert acc; induction k as [|k IH]; intros acc.
  - cbn [be_bytes be_value]. change (8 * Z.of_nat 0) with 0. change (2^0) with 1. rewrite Z.mod_1_r. lia.
  - cbn [be_bytes be_value]. rewrite IH.
    replace (8 * Z.of_nat (S k)) with (8 * Z.of_nat k + 8) by lia.
    rewrite Z.pow_add_r by lia. change (2^8) with 256.
    assert (Hp : 0 < 2 ^ (8 * Z.of_nat k)) by (apply Z.pow_pos_nonneg; lia).
    rewrite (Z.rem_mul_r u (2 ^ (8 * Z.of_nat k)) 256) by lia.
    ring.
Qed.

Lemma firstn_app_exact {A} (a b : list A) : firstn (length a) (a ++ b) = a.
Proof. rewrite firstn_app, Nat.sub_diag, firstn_all. cbn [firstn]. apply app_nil_r. Qed.

Lemma ltf8_spec_n_range b : 1 <= ltf8_spec_n b <= 9.
Proof. unfold ltf8_spec_n. repeat match goal with |- context [if ?c then _ else _] => destruct c end; lia. Qed.

Lemma s64_of_u64 v : int64 v -> s64 (v mod 2^64) = v.
Proof. unfold int64, s64, wraps. change (2^(64-1)) with (2^63). pow2. lia. Qed.

Lemma ltf8_spec_len_cases u :
  let n := ltf8_spec_len u in
  (n = 1 /\ u < 2^7) \/ (n = 2 /\ 2^7 <= u < 2^14) \/ (n = 3 /\ 2^14 <= u < 2^21) \/
  (n = 4 /\ 2^21 <= u < 2^28) \/ (n = 5 /\ 2^28 <= u < 2^35) \/ (n = 6 /\ 2^35 <= u < 2^42) \/
  (n = 7 /\ 2^42 <= u < 2^49) \/ (n = 8 /\ 2^49 <= u < 2^56) \/ (n = 9 /\ 2^56 <= u).
Proof.
  cbv zeta. unfold ltf8_spec_len.
  repeat match goal with |- context [?b <? ?c] => destruct (Z.ltb_spec b c); [tauto|] end. tauto.
Qed.

Lemma ltf8_spec_roundtrip v rest :
  int64 v ->
  ltf8_spec_decode (ltf8_spec_encode v ++ rest) = (v, ltf8_spec_len (v mod 2^64), true).
Proof.
  intros Hv. pose proof (s64_of_u64 v Hv) as Hs. unfold int64 in Hv.
  unfold ltf8_spec_encode. set (u := v mod 2^64) in *.
  assert (Hu : 0 <= u < 2^64) by (subst u; apply Z.mod_pos_bound; lia).
  cbv zeta. set (n := ltf8_spec_len u).
  set (hd := ltf8_prefix n + (if n <? 9 then u / 2 ^ (8 * (n - 1)) else 0)).
  pose proof (ltf8_spec_len_cases u) as Hcase. cbv zeta in Hcase. fold n in Hcase.
  (* the prefix byte announces n and carries the top bits *)
  assert (Hhd : ltf8_spec_n hd = n /\
                (if n <? 8 then hd mod 2 ^ (8 - n) else 0) * 2 ^ (8 * (n - 1)) + u mod 2 ^ (8 * (n - 1)) = u).
  { subst hd. unfold ltf8_spec_n. revert Hu.
    repeat (destruct Hcase as [[-> Hc]|Hcase]; [revert Hc; cbn [ltf8_prefix Z.ltb Z.compare Pos.compare Pos.compare_cont]; pow2; intros Hc Hu;
      split; [repeat match goal with |- context [?b <? ?c] => destruct (Z.ltb_spec b c); try lia end|lia]|]).
    destruct Hcase as [-> Hc]. revert Hc; cbn [ltf8_prefix Z.ltb Z.compare Pos.compare Pos.compare_cont]; pow2; intros Hc Hu.
    split; [repeat match goal with |- context [?b <? ?c] => destruct (Z.ltb_spec b c); try lia end|lia]. }
  destruct Hhd as [Hn Hval].
  assert (Hn19 : 1 <= n <= 9) by (subst n; apply ltf8_spec_len_range).
  unfold ltf8_spec_decode. cbn [app tl]. rewrite Hn.
  assert (Hlen : zlen (hd :: be_bytes (Z.to_nat (n - 1)) u ++ rest) <? n = false).
  { apply Z.ltb_ge. unfold zlen. cbn [length]. rewrite app_length, be_bytes_length. lia. }
  rewrite Hlen.
  replace (firstn (Z.to_nat (n - 1)) (be_bytes (Z.to_nat (n - 1)) u ++ rest)) with (be_bytes (Z.to_nat (n - 1)) u).
  2:{ rewrite <- (be_bytes_length (Z.to_nat (n - 1)) u) at 2. symmetry. apply firstn_app_exact. }
  rewrite be_value_be_bytes. rewrite Z2Nat.id by lia. rewrite Hval, Hs. reflexivity.
Qed.

Lemma ltf8_spec_encode_props v : int64 v ->
  zlen (ltf8_spec_encode v) = ltf8_spec_len (v mod 2^64) /\ all_bytes (ltf8_spec_encode v) = true.
Proof.
  intros Hv. unfold int64 in Hv. unfold ltf8_spec_encode. set (u := v mod 2^64).
  assert (Hu : 0 <= u < 2^64) by (subst u; apply Z.mod_pos_bound; lia).
  cbv zeta. pose proof (ltf8_spec_len_range u) as Hr. split.
  - unfold zlen. cbn [length]. rewrite be_bytes_length. lia.
  - cbn [all_bytes forallb]. fold (all_bytes (be_bytes (Z.to_nat (ltf8_spec_len u - 1)) u)).
    rewrite be_bytes_all_bytes, andb_true_r. apply is_byte_true.
    pose proof (ltf8_spec_len_cases u) as Hcase. cbv zeta in Hcase. revert Hu.
    repeat (destruct Hcase as [[-> Hc]|Hcase]; [revert Hc; cbn [ltf8_prefix Z.ltb Z.compare Pos.compare Pos.compare_cont]; pow2; lia|]).
    destruct Hcase as [-> Hc]. revert Hc; cbn [ltf8_prefix Z.ltb Z.compare Pos.compare Pos.compare_cont]; pow2; lia.
Qed.

(** Full round trip on the generated functions. *)
Lemma ltf8_roundtrip_gen v b0 b1 b2 b3 b4 b5 b6 b7 b8 tl rest :
  int64 v -> all_bytes rest = true ->
  exists n out,
    ltf8_Encode ([b0; b1; b2; b3; b4; b5; b6; b7; b8] ++ tl) v = Ok (n, out) /\
    ltf8_Len v = Ok n /\
    1 <= n <= 9 /\
    skipn (Z.to_nat n) out = skipn (Z.to_nat n) ([b0; b1; b2; b3; b4; b5; b6; b7; b8] ++ tl) /\
    firstn (Z.to_nat n) out = ltf8_spec_encode v /\
    ltf8_Decode (firstn (Z.to_nat n) out ++ rest) = Ok (v, n, true).
Proof.
  intros Hv Hr. destruct (ltf8_spec_encode_props v Hv) as (Hlen & Hbytes).
  set (buf := [b0; b1; b2; b3; b4; b5; b6; b7; b8]).
  exists (ltf8_spec_len (v mod 2^64)), (ltf8_spec_encode v ++ skipn (length (ltf8_spec_encode v)) buf ++ tl).
  assert (Hn : Z.to_nat (ltf8_spec_len (v mod 2 ^ 64)) = length (ltf8_spec_encode v)).
  { rewrite <- Hlen. unfold zlen. apply Nat2Z.id. }
  pose proof (ltf8_spec_len_range (v mod 2^64)) as Hrange.
  split; [apply ltf8_Encode_spec; assumption|].
  split; [apply ltf8_Len_spec|].
  split; [assumption|].
  rewrite Hn. rewrite firstn_app_exact.
  split.
  { rewrite skipn_app, Nat.sub_diag, skipn_all. cbn [skipn app].
    assert (Hl9 : (length (ltf8_spec_encode v) <= 9)%nat) by (unfold zlen in Hlen; lia).
    rewrite (skipn_app (length (ltf8_spec_encode v)) buf tl).
    replace (length (ltf8_spec_encode v) - length buf)%nat with 0%nat by (unfold buf; change (length [b0; b1; b2; b3; b4; b5; b6; b7; b8]) with 9%nat; lia).
    reflexivity. }
  split; [reflexivity|].
  rewrite ltf8_Decode_spec.
  - rewrite (ltf8_spec_roundtrip v); [reflexivity|assumption].
  - unfold all_bytes in *. rewrite forallb_app, Hbytes, Hr. reflexivity.
Qed.

(** * Decode looks at the announced number of bytes only. *)

Lemma ltf8_no_overread_gen bs :
  all_bytes bs = true ->
  exists v n ok,
    ltf8_Decode bs = Ok (v, n, ok) /\
    (bs = [] -> n = 0 /\ ok = false) /\
    (bs <> [] -> n = ltf8_spec_n (hd 0 bs) /\ ok = (n <=? zlen bs)) /\
    (ok = true -> ltf8_Decode (firstn (Z.to_nat n) bs) = Ok (v, n, true)) /\
    (ok = false -> v = 0).
Proof.
  intros Hb. rewrite (ltf8_Decode_spec bs Hb).
  destruct bs as [|b0 t].
  { exists 0, 0, false. repeat split; try discriminate; congruence. }
  unfold ltf8_spec_decode at 1.
  pose proof (ltf8_spec_n_range b0) as Hr.
  destruct (Z.ltb_spec (zlen (b0 :: t)) (ltf8_spec_n b0)) as [Hs|Hs].
  { exists 0, (ltf8_spec_n b0), false. repeat split; try discriminate.
    symmetry. apply Z.leb_gt. assumption. }
  eexists _, (ltf8_spec_n b0), true. split; [reflexivity|]. repeat split; try discriminate.
  { symmetry. apply Z.leb_le. assumption. }
  intros _. rewrite ltf8_Decode_spec by (apply forallb_firstn; assumption).
  f_equal. unfold ltf8_spec_decode.
  set (n := ltf8_spec_n b0) in *.
  assert (Hn : Z.to_nat n = S (Z.to_nat (n - 1))) by lia.
  rewrite Hn. cbn [firstn tl]. fold n.
  assert (Hl : zlen (b0 :: firstn (Z.to_nat (n - 1)) t) = n).
  { unfold zlen in *. simpl length in *. rewrite firstn_length. lia. }
  rewrite Hl, Z.ltb_irrefl.
  rewrite firstn_firstn, Nat.min_id. reflexivity.
Qed.
