(** C18 — the abstract merge: a state is a bag of non-empty tagged streams
    (input id, pending records, ends-in-error flag) and an error latch; a run
    repeatedly takes the head of one stream.  Every property of the merger's
    output is proved here for all runs; Proofs/Merger.v shows that the model
    of bam.Merger only produces such runs. *)
From Coq Require Import ZArith List Bool Lia Permutation Sorted.
From Hts Require Import Base.Prim Model.Merger.
Import ListNotations.
Open Scope Z_scope.

Definition astream := (Z * list rec * bool)%type.
Definition astate := list astream.

Definition s_id (s : astream) : Z := fst (fst s).
Definition s_recs (s : astream) : list rec := snd (fst s).
Definition s_fail (s : astream) : bool := snd s.

Definition afail (S : astate) : bool := existsb s_fail S.
Definition aflat (S : astate) : list (Z * rec) :=
  concat (map (fun s => map (pair (s_id s)) (s_recs s)) S).
Definition proj (i : Z) (outs : list (Z * rec)) : list rec :=
  map snd (filter (fun o => fst o =? i) outs).

(** the state after taking the head of stream (i, h :: tl, fl) out of S0 *)
Definition after_take (i : Z) (tl : list rec) (fl : bool) (S0 : astate) : astate :=
  match tl with [] => S0 | _ => (i, tl, fl) :: S0 end.
Definition err_after (tl : list rec) (fl : bool) : bool :=
  match tl with [] => fl | _ => false end.

Section Run.
  (** [P h S0]: side condition on the choice (True for any merge, "h is a
      minimum" for the heap-driven one). *)
  Variable P : rec -> astate -> Prop.

  Inductive mrun : astate -> bool -> list (Z * rec) -> Z -> Prop :=
  | mrun_err : forall S, mrun S true [] 1
  | mrun_eof : mrun [] false [] 0
  | mrun_step : forall S S0 i h tl fl outs e,
      Permutation S ((i, h :: tl, fl) :: S0) ->
      P h S0 ->
      mrun (after_take i tl fl S0) (err_after tl fl) outs e ->
      mrun S false ((i, h) :: outs) e.

  Lemma mrun_perm : forall S S' b outs e,
      Permutation S S' -> mrun S b outs e -> mrun S' b outs e.
  Proof.
    intros S S' b outs e HP H. destruct H.
    - constructor.
    - apply Permutation_nil in HP. subst. constructor.
    - eapply mrun_step; eauto. eapply Permutation_trans; [apply Permutation_sym; eassumption | assumption].
  Qed.

  Lemma afail_perm : forall S S', Permutation S S' -> afail S = afail S'.
  Proof.
    unfold afail. induction 1; simpl; auto.
    - now rewrite IHPermutation.
    - destruct (s_fail x), (s_fail y); reflexivity.
    - congruence.
  Qed.

  Lemma afail_after : forall i h tl fl S0,
      err_after tl fl || afail (after_take i tl fl S0) = afail ((i, h :: tl, fl) :: S0).
  Proof.
    intros. destruct tl; simpl; unfold afail; simpl; unfold s_fail; simpl.
    - reflexivity.
    - reflexivity.
  Qed.

  (** errors: the run ends with the error iff the latch is set or a stream
      ends in an error; otherwise with EOF *)
  Lemma mrun_end : forall S b outs e,
      mrun S b outs e -> e = if b || afail S then 1 else 0.
  Proof.
    induction 1.
    - reflexivity.
    - reflexivity.
    - rewrite IHmrun. rewrite afail_after with (h := h).
      rewrite (afail_perm _ _ H). reflexivity.
  Qed.

  Lemma aflat_perm : forall S S', Permutation S S' -> Permutation (aflat S) (aflat S').
  Proof.
    unfold aflat. induction 1; simpl.
    - constructor.
    - now apply Permutation_app_head.
    - rewrite !app_assoc. apply Permutation_app_tail. apply Permutation_app_comm.
    - eapply Permutation_trans; eauto.
  Qed.

  Lemma aflat_after : forall i h tl fl S0,
      aflat ((i, h :: tl, fl) :: S0) = (i, h) :: aflat (after_take i tl fl S0).
  Proof.
    intros. destruct tl; reflexivity.
  Qed.

  (** loss-free: the output is a prefix-bag of the pending records, all of
      them when the run ends with EOF *)
  Lemma mrun_bag : forall S b outs e,
      mrun S b outs e ->
      exists rest, Permutation (aflat S) (outs ++ rest) /\ (e = 0 -> rest = []).
  Proof.
    induction 1.
    - exists (aflat S). split; [apply Permutation_refl | discriminate].
    - exists []. split; [constructor | reflexivity].
    - destruct IHmrun as [rest [HP He]]. exists rest. split; [| exact He].
      eapply Permutation_trans; [apply aflat_perm; eassumption |].
      rewrite aflat_after. simpl. now constructor.
  Qed.

  Lemma mrun_in : forall S b outs e o,
      mrun S b outs e -> In o outs -> In o (aflat S).
  Proof.
    intros S b outs e o H Hin. destruct (mrun_bag _ _ _ _ H) as [rest [HP _]].
    eapply Permutation_in; [apply Permutation_sym; eassumption |].
    apply in_or_app. now left.
  Qed.

  (** stability: the records taken from one stream are a prefix of it *)
  Definition ids (S : astate) : list Z := map s_id S.

  Lemma ids_perm : forall S S', Permutation S S' -> Permutation (ids S) (ids S').
  Proof. intros. unfold ids. now apply Permutation_map. Qed.

  Lemma proj_cons_same : forall i r outs, proj i ((i, r) :: outs) = r :: proj i outs.
  Proof. intros. unfold proj. simpl. rewrite Z.eqb_refl. reflexivity. Qed.

  Lemma proj_cons_other : forall i j r outs, j <> i -> proj i ((j, r) :: outs) = proj i outs.
  Proof.
    intros. unfold proj. simpl. destruct (j =? i) eqn:E; [apply Z.eqb_eq in E; contradiction | reflexivity].
  Qed.

  Lemma mrun_stable : forall S b outs e,
      mrun S b outs e -> NoDup (ids S) ->
      (forall i l fl, In (i, l, fl) S ->
         exists k, proj i outs = firstn k l /\ (e = 0 -> proj i outs = l))
      /\ (forall i, ~ In i (ids S) -> proj i outs = []).
  Proof.
    induction 1; intros ND.
    - split; intros.
      + exists O. split; [reflexivity | discriminate].
      + reflexivity.
    - split; intros.
      + contradiction.
      + reflexivity.
    - assert (ND1 : NoDup (ids ((i, h :: tl, fl) :: S0))).
      { eapply Permutation_NoDup; [apply ids_perm; eassumption | assumption]. }
      simpl in ND1. inversion ND1 as [| x xs Hnotin ND0]; subst.
      assert (ND' : NoDup (ids (after_take i tl fl S0))).
      { destruct tl; simpl; [assumption | constructor; assumption]. }
      destruct (IHmrun ND') as [IHa IHb].
      assert (Hi : exists k, proj i outs = firstn k tl /\ (e = 0 -> proj i outs = tl)).
      { destruct tl as [| t1 tl'].
        - exists O. simpl in IHb. rewrite (IHb i Hnotin). split; reflexivity.
        - apply (IHa i (t1 :: tl') fl). left. reflexivity. }
      split.
      + intros i' l' fl' Hin.
        assert (Hin' : In (i', l', fl') ((i, h :: tl, fl) :: S0)).
        { eapply Permutation_in; eassumption. }
        destruct Hin' as [Heq | Hin'].
        * inversion Heq; subst. rewrite proj_cons_same.
          destruct Hi as [k [Hk He]]. exists (Datatypes.S k). simpl. split; [now rewrite Hk |].
          intros E. now rewrite (He E).
        * assert (Hne : i <> i').
          { intros ->. apply Hnotin. unfold ids. apply in_map_iff. exists (i', l', fl'). split; [reflexivity | exact Hin']. }
          rewrite proj_cons_other by assumption.
          apply (IHa i' l' fl'). destruct tl; simpl; [assumption | now right].
      + intros i' Hnot.
        assert (Hne : i <> i').
        { intros ->. apply Hnot.
          eapply Permutation_in; [apply Permutation_sym; apply ids_perm; eassumption |]. now left. }
        rewrite proj_cons_other by assumption.
        apply IHb. intros Hin. apply Hnot.
        eapply Permutation_in; [apply Permutation_sym; apply ids_perm; eassumption |].
        simpl. destruct tl; simpl in Hin.
        * now right.
        * destruct Hin; [now left | now right].
  Qed.
End Run.

(** * Ordered runs *)
Section Sorted.
  Variable le : rec -> rec -> Prop.
  Hypothesis le_trans : forall a b c, le a b -> le b c -> le a c.

  (** the head taken is below the heads of all other streams *)
  Definition head_min (h : rec) (S0 : astate) : Prop :=
    Forall (fun s => match s_recs s with h' :: _ => le h h' | [] => True end) S0.

  Definition streams_sorted (S : astate) : Prop :=
    Forall (fun s => StronglySorted le (s_recs s)) S.

  Lemma streams_sorted_perm : forall S S', Permutation S S' -> streams_sorted S -> streams_sorted S'.
  Proof. unfold streams_sorted. intros. eapply Permutation_Forall; eauto. Qed.

  Lemma le_all_stream : forall h s, StronglySorted le (s_recs s) ->
      match s_recs s with h' :: _ => le h h' | [] => True end ->
      Forall (fun o => le h (snd o)) (map (pair (s_id s)) (s_recs s)).
  Proof.
    intros h s HS Hh. destruct (s_recs s) as [| h' t]; [constructor |].
    inversion HS; subst. constructor; [exact Hh |].
    apply Forall_forall. intros o Ho. apply in_map_iff in Ho. destruct Ho as [x [<- Hx]]. simpl.
    eapply le_trans; [exact Hh |]. eapply Forall_forall in H2; eauto.
  Qed.

  Lemma le_all_flat : forall h S0, streams_sorted S0 -> head_min h S0 ->
      Forall (fun o => le h (snd o)) (aflat S0).
  Proof.
    unfold streams_sorted, head_min, aflat. induction S0 as [| s S0 IH]; intros HS HM; simpl.
    - constructor.
    - inversion HS; subst. inversion HM; subst.
      apply Forall_app. split; [now apply le_all_stream | now apply IH].
  Qed.

  Lemma mrun_sorted : forall S b outs e,
      mrun head_min S b outs e -> streams_sorted S ->
      StronglySorted le (map snd outs).
  Proof.
    induction 1; intros HS; simpl.
    - constructor.
    - constructor.
    - assert (HS1 : streams_sorted ((i, h :: tl, fl) :: S0)) by (eapply streams_sorted_perm; eauto).
      inversion HS1 as [| x xs Hhd HS0]; subst. unfold s_recs in Hhd; simpl in Hhd.
      inversion Hhd as [| a l Htl Hall]; subst.
      assert (HS' : streams_sorted (after_take i tl fl S0)).
      { destruct tl; simpl; [assumption | constructor; [exact Htl | assumption]]. }
      constructor; [now apply IHmrun |].
      apply Forall_forall. intros r Hr. apply in_map_iff in Hr. destruct Hr as [o [<- Ho]].
      pose proof (mrun_in _ _ _ _ _ o H1 Ho) as Hin.
      assert (HF : Forall (fun o => le h (snd o)) (aflat (after_take i tl fl S0))).
      { destruct tl as [| t1 tl'].
        - simpl. now apply le_all_flat.
        - simpl. change (aflat ((i, t1 :: tl', fl) :: S0)) with (map (pair i) (t1 :: tl') ++ aflat S0).
          apply Forall_app. split; [| now apply le_all_flat].
          apply Forall_forall. intros o' Ho'. apply in_map_iff in Ho'. destruct Ho' as [x [<- Hx]]. simpl.
          eapply Forall_forall in Hall; eauto. }
      eapply Forall_forall in HF; eauto.
  Qed.
End Sorted.

(** A run with a side condition is a run without. *)
Lemma mrun_weaken : forall (P Q : rec -> astate -> Prop) S b outs e,
    (forall h S0, P h S0 -> Q h S0) -> mrun P S b outs e -> mrun Q S b outs e.
Proof.
  intros P Q S b outs e HPQ H. induction H.
  - constructor.
  - constructor.
  - eapply mrun_step; eauto.
Qed.
