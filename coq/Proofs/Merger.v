(** C18 — the model of bam.Merger (Model/Merger.v) only produces runs of the
    abstract merge (Proofs/MergeRun.v); the properties of the output follow. *)
From Coq Require Import ZArith List Bool Lia Permutation Sorted.
From Hts Require Import Base.Prim Model.Merger Proofs.MergeRun.
Import ListNotations.
Open Scope Z_scope.

(** * The contract of the priority queue (container/heap used through
    bySortOrderAndID): bag laws, totality when the comparison does not panic,
    and an invariant [wf] under which Pop returns an element related by [R] to
    all that remain. *)
Definition cmp_total (cmp : rdr -> rdr -> outcome bool) (l : list rdr) : Prop :=
  forall a b, In a l -> In b l -> exists c, cmp a b = Ok c.

Record pq_spec (cmp : rdr -> rdr -> outcome bool)
       (init : list rdr -> outcome (list rdr))
       (push : list rdr -> rdr -> outcome (list rdr))
       (pop : list rdr -> outcome (rdr * list rdr))
       (wf : list rdr -> Prop) (R : rdr -> list rdr -> Prop) : Prop := {
  bag_init : forall l l', init l = Ok l' -> Permutation l l';
  bag_push : forall q x q', push q x = Ok q' -> Permutation (x :: q) q';
  bag_pop : forall q x q', pop q = Ok (x, q') -> Permutation q (x :: q');
  ok_init : forall l, cmp_total cmp l -> exists l', init l = Ok l';
  ok_push : forall q x, cmp_total cmp (x :: q) -> exists q', push q x = Ok q';
  ok_pop : forall q, q <> [] -> cmp_total cmp q -> exists x q', pop q = Ok (x, q');
  wf_init : forall l l', cmp_total cmp l -> init l = Ok l' -> wf l';
  wf_push : forall q x q', wf q -> cmp_total cmp (x :: q) -> push q x = Ok q' -> wf q';
  wf_pop : forall q x q', wf q -> pop q = Ok (x, q') -> wf q' /\ R x q'
}.

Section Sim.
  Variable links : option (list (list Z)).

  Definition relink (i : Z) (r : rec) : rec :=
    match reassign links i r with Ok r' => r' | _ => r end.
  Definition okrec (i : Z) (r : rec) : Prop := exists r', reassign links i r = Ok r'.

  Lemma reassign_relink : forall i r, okrec i r -> reassign links i r = Ok (relink i r).
  Proof. intros i r [r' H]. unfold relink. rewrite H. reflexivity. Qed.

  Definition pend (rd : rdr) : list rec :=
    match d_head rd with
    | Some h => h :: map (relink (d_id rd)) (d_rest rd)
    | None => []
    end.
  Definition abs1 (rd : rdr) : astream := (d_id rd, pend rd, d_fail rd).
  Definition abs (q : list rdr) : astate := map abs1 q.
  Definition rd_ok (rd : rdr) : Prop :=
    d_head rd <> None /\ d_err rd = 0 /\ Forall (okrec (d_id rd)) (d_rest rd).

  Lemma rless_total : forall less q, Forall rd_ok q -> cmp_total (rless less) q.
  Proof.
    intros less q H a b Ha Hb. rewrite Forall_forall in H.
    destruct (H a Ha) as [Ha1 _]. destruct (H b Hb) as [Hb1 _].
    unfold rless. destruct (d_head a); [| contradiction]. destruct (d_head b); [| contradiction].
    eexists. reflexivity.
  Qed.

  Section Sorted.
    Variable less : rec -> rec -> bool.
    Variable init : list rdr -> outcome (list rdr).
    Variable push : list rdr -> rdr -> outcome (list rdr).
    Variable pop : list rdr -> outcome (rdr * list rdr).
    Variable wf : list rdr -> Prop.
    Variable R : rdr -> list rdr -> Prop.
    Variable P : rec -> astate -> Prop.
    Hypothesis PQ : pq_spec (rless less) init push pop wf R.
    Hypothesis R_P : forall rd q0 h, R rd q0 -> d_head rd = Some h -> Forall rd_ok q0 -> P h (abs q0).

    Lemma sorted_step : forall f q,
        Forall rd_ok q -> wf q -> q <> [] ->
        exists rd q0 h m',
          Permutation q (rd :: q0) /\ d_head rd = Some h /\ P h (abs q0) /\
          mread_sorted links push pop (S f) (mkM q false) = Ok (GotRec (d_id rd) h 0, m') /\
          Forall rd_ok (m_readers m') /\ wf (m_readers m') /\
          Permutation (abs (m_readers m'))
                      (after_take (d_id rd) (map (relink (d_id rd)) (d_rest rd)) (d_fail rd) (abs q0)) /\
          m_err m' = err_after (map (relink (d_id rd)) (d_rest rd)) (d_fail rd).
    Proof.
      intros f q Hok Hwf Hne.
      destruct (ok_pop _ _ _ _ _ _ PQ q Hne (rless_total less q Hok)) as [rd [q0 Hpop]].
      pose proof (bag_pop _ _ _ _ _ _ PQ _ _ _ Hpop) as Hperm.
      destruct (wf_pop _ _ _ _ _ _ PQ _ _ _ Hwf Hpop) as [Hwf0 HR].
      assert (Hok' : Forall rd_ok (rd :: q0)) by (eapply Permutation_Forall; eauto).
      inversion Hok' as [| x xs Hrd Hq0]; subst.
      destruct Hrd as [Hhead [Herr Hrest]].
      destruct (d_head rd) as [h |] eqn:Eh; [| contradiction].
      assert (HP : P h (abs q0)) by (eapply R_P; eauto).
      destruct q as [| q1 qt]; [contradiction |].
      destruct (d_rest rd) as [| r rest] eqn:Er.
      - (* the input is exhausted *)
        destruct (d_fail rd) eqn:Ef.
        + exists rd, q0, h, (mkM q0 true).
          split; [exact Hperm |]. split; [exact Eh |]. split; [exact HP |].
          split.
          { simpl. rewrite Hpop. simpl. rewrite Er, Ef. simpl. rewrite Eh, Herr. reflexivity. }
          simpl. rewrite Er, ?Ef. simpl. split; [assumption |]. split; [assumption |].
          split; [apply Permutation_refl | reflexivity].
        + exists rd, q0, h, (mkM q0 false).
          split; [exact Hperm |]. split; [exact Eh |]. split; [exact HP |].
          split.
          { simpl. rewrite Hpop. simpl. rewrite Er, Ef. simpl. rewrite Eh, Herr. reflexivity. }
          simpl. rewrite Er, ?Ef. simpl. split; [assumption |]. split; [assumption |].
          split; [apply Permutation_refl | reflexivity].
      - (* the next record becomes the head and the reader is pushed back *)
        inversion Hrest as [| y ys Hr Hrest']; subst.
        set (x := mkRdr (d_id rd) rest (d_fail rd) (Some (relink (d_id rd) r)) 0).
        assert (Hx : rd_ok x).
        { unfold rd_ok, x. simpl. split; [discriminate | split; [reflexivity | exact Hrest']]. }
        assert (Hokx : Forall rd_ok (x :: q0)) by (constructor; assumption).
        destruct (ok_push _ _ _ _ _ _ PQ q0 x (rless_total less _ Hokx)) as [q' Hpush].
        pose proof (bag_push _ _ _ _ _ _ PQ _ _ _ Hpush) as Hperm'.
        exists rd, q0, h, (mkM q' false).
        split; [exact Hperm |]. split; [exact Eh |]. split; [exact HP |].
        split.
        { simpl. rewrite Hpop. simpl. rewrite Er. simpl.
          rewrite (reassign_relink _ _ Hr). simpl. fold x. rewrite Hpush. simpl.
          rewrite Eh, Herr. reflexivity. }
        simpl. rewrite Er. simpl. split; [eapply Permutation_Forall; eauto |].
        split; [eapply (wf_push _ _ _ _ _ _ PQ); eauto using rless_total |].
        split; [| reflexivity].
        apply Permutation_sym.
        change ((d_id rd, relink (d_id rd) r :: map (relink (d_id rd)) rest, d_fail rd) :: abs q0)
          with (abs (x :: q0)).
        unfold abs. now apply Permutation_map.
    Qed.

    Definition final_ok (e : Z) (mf : mstate) : Prop :=
      (e = 1 /\ m_err mf = true) \/ (e = 0 /\ mf = mkM [] false).

    Lemma abs_perm : forall q q', Permutation q q' -> Permutation (abs q) (abs q').
    Proof. intros. unfold abs. now apply Permutation_map. Qed.

    Lemma drain_S : forall pq lessf n m,
        drain pq links lessf (S n) m =
        match mread pq links lessf m with
        | Ok (GotRec i r e, m') =>
          if e =? 0 then let '(os, en, mf) := drain pq links lessf n m' in ((i, r) :: os, en, mf)
          else ([(i, r)], 3, m')
        | Ok (GotEOF, m') => ([], 0, m')
        | Ok (GotErr, m') => ([], 1, m')
        | Panic _ => ([], 2, m)
        | _ => ([], 3, m)
        end.
    Proof. reflexivity. Qed.

    Lemma mread_sorted_eq : forall pq m,
        mread pq links (Some less) m =
        mread_sorted links (pq_push_of pq (rless less)) (pq_pop_of pq (rless less))
                     (S (S (length (m_readers m)))) m.
    Proof. reflexivity. Qed.

    Lemma drain_sorted_gen : forall pq n q b,
        pq_push_of pq (rless less) = push -> pq_pop_of pq (rless less) = pop ->
        Forall rd_ok q -> wf q -> (length (aflat (abs q)) < n)%nat ->
        exists outs e mf,
          drain pq links (Some less) n (mkM q b) = (outs, e, mf) /\
          mrun P (abs q) b outs e /\ final_ok e mf.
    Proof.
      intros pq n. induction n as [| n IH]; intros q b Hpush Hpop Hok Hwf Hn; [lia |].
      destruct b.
      - exists [], 1, (mkM q true). rewrite drain_S, mread_sorted_eq, Hpush, Hpop.
        split; [reflexivity |]. split; [constructor | left; split; reflexivity].
      - destruct q as [| q1 qt] eqn:Eq.
        + exists [], 0, (mkM [] false). rewrite drain_S, mread_sorted_eq, Hpush, Hpop.
          split; [reflexivity |]. split; [constructor | right; split; reflexivity].
        + assert (Hne : q <> []) by (rewrite Eq; discriminate).
          rewrite <- Eq in *.
          destruct (sorted_step (S (length q)) q Hok Hwf Hne)
            as [rd [q0 [h [m' [Hperm [Eh [HP [Hread [Hok' [Hwf' [Hperm' Herr']]]]]]]]]]].
          pose proof (abs_perm _ _ Hperm) as Habs.
          assert (Habs1 : abs (rd :: q0) = (d_id rd, h :: map (relink (d_id rd)) (d_rest rd), d_fail rd) :: abs q0).
          { simpl. unfold abs1 at 1, pend. rewrite Eh. reflexivity. }
          rewrite Habs1 in Habs.
          destruct m' as [q' b'].
          assert (Hlen : (length (aflat (abs q')) < n)%nat).
          { pose proof (Permutation_length (aflat_perm _ _ Habs)) as L1.
            rewrite aflat_after in L1. simpl in L1.
            pose proof (Permutation_length (aflat_perm _ _ Hperm')) as L2.
            simpl in L2. lia. }
          destruct (IH q' b' Hpush Hpop Hok' Hwf' Hlen) as [outs [e [mf [Hd [Hrun Hfin]]]]].
          exists ((d_id rd, h) :: outs), e, mf.
          split.
          { rewrite drain_S, mread_sorted_eq, Hpush, Hpop. simpl m_readers.
            rewrite Hread. simpl. rewrite Hd. reflexivity. }
          split; [| exact Hfin].
          eapply mrun_step; [exact Habs | exact HP |].
          simpl in Herr'. rewrite <- Herr'.
          eapply mrun_perm; [exact Hperm' | exact Hrun].
    Qed.
  End Sorted.

  (** * NewMerger *)
  Fixpoint ins_ok (i : Z) (ins : list input) : Prop :=
    match ins with
    | [] => True
    | inp :: t => Forall (okrec i) (i_recs inp) /\ ins_ok (i + 1) t
    end.

  Fixpoint astreams (i : Z) (ins : list input) : astate :=
    match ins with
    | [] => []
    | inp :: t =>
      match i_recs inp with
      | [] => astreams (i + 1) t
      | _ => (i, map (relink i) (i_recs inp), i_fail inp) :: astreams (i + 1) t
      end
    end.

  Definition efail (ins : list input) : bool :=
    existsb (fun inp => match i_recs inp with [] => i_fail inp | _ => false end) ins.

  (** every record of every input, re-linked and tagged with the input's index *)
  Fixpoint tagged (i : Z) (ins : list input) : list (Z * rec) :=
    match ins with
    | [] => []
    | inp :: t => map (pair i) (map (relink i) (i_recs inp)) ++ tagged (i + 1) t
    end.

  Lemma aflat_astreams : forall ins i, aflat (astreams i ins) = tagged i ins.
  Proof.
    induction ins as [| inp t IH]; intros i; simpl; [reflexivity |].
    destruct (i_recs inp) eqn:E; simpl.
    - apply IH.
    - unfold aflat in *. simpl. rewrite IH. reflexivity.
  Qed.

  Lemma tagged_length : forall ins i, length (tagged i ins) = total_recs ins.
  Proof.
    unfold total_recs. induction ins as [| inp t IH]; intros i; simpl; [reflexivity |].
    rewrite !app_length, !map_length, IH. reflexivity.
  Qed.

  Lemma fail_split : forall ins i, efail ins || afail (astreams i ins) = existsb i_fail ins.
  Proof.
    induction ins as [| inp t IH]; intros i; simpl; [reflexivity |].
    unfold efail in *. simpl. destruct (i_recs inp) eqn:E.
    - rewrite <- (IH (i + 1)). destruct (i_fail inp); reflexivity.
    - simpl. unfold afail in *. simpl. unfold s_fail at 1. simpl.
      rewrite <- (IH (i + 1)).
      destruct (i_fail inp); simpl; [now rewrite orb_true_r | reflexivity].
  Qed.

  Lemma init_heads_spec : forall ins i merr,
      ins_ok i ins ->
      exists rs, init_heads links i ins merr = Ok (rs, merr || efail ins) /\
                 Forall rd_ok (filter has_head rs) /\
                 abs (filter has_head rs) = astreams i ins.
  Proof.
    induction ins as [| inp t IH]; intros i merr Hok; simpl.
    - exists []. rewrite orb_false_r. repeat split; constructor.
    - destruct Hok as [Hrecs Ht]. unfold efail. simpl. fold (efail t).
      destruct (i_recs inp) as [| r rest] eqn:E; simpl.
      + destruct (i_fail inp) eqn:Ef.
        * destruct (IH (i + 1) true Ht) as [rs [H1 [H2 H3]]]. rewrite H1. simpl.
          exists (mkRdr i [] true None 2 :: rs). rewrite orb_true_r. simpl.
          split; [reflexivity |]. split; assumption.
        * destruct (IH (i + 1) merr Ht) as [rs [H1 [H2 H3]]]. rewrite H1. simpl.
          exists (mkRdr i [] false None 1 :: rs). simpl.
          split; [reflexivity |]. split; assumption.
      + inversion Hrecs as [| x xs Hr Hrest]; subst.
        rewrite (reassign_relink _ _ Hr). simpl.
        destruct (IH (i + 1) merr Ht) as [rs [H1 [H2 H3]]]. rewrite H1. simpl.
        exists (mkRdr i rest (i_fail inp) (Some (relink i r)) 0 :: rs). simpl.
        split; [reflexivity |]. split.
        * constructor; [| assumption]. unfold rd_ok. simpl.
          split; [discriminate | split; [reflexivity | assumption]].
        * rewrite H3. reflexivity.
  Qed.

  (** * Concatenation mode *)
  Fixpoint cat_next (rds : list rdr) : rd_res * mstate :=
    match rds with
    | [] => (GotEOF, mkM [] false)
    | rd :: tl =>
      match d_rest rd with
      | r :: rest =>
        (GotRec (d_id rd) (relink (d_id rd) r) 0,
         mkM (mkRdr (d_id rd) rest (d_fail rd) (d_head rd) (d_err rd) :: tl) false)
      | [] =>
        if d_fail rd then (GotErr, mkM (mkRdr (d_id rd) [] (d_fail rd) (d_head rd) (d_err rd) :: tl) true)
        else cat_next tl
      end
    end.

  Definition cat_ok (rds : list rdr) : Prop := Forall (fun rd => Forall (okrec (d_id rd)) (d_rest rd)) rds.

  Lemma mread_cat_next : forall rds fuel,
      cat_ok rds -> (length rds < fuel)%nat ->
      mread_cat links fuel (mkM rds false) = Ok (cat_next rds).
  Proof.
    induction rds as [| rd tl IH]; intros fuel Hok Hf.
    - destruct fuel; [simpl in Hf; lia |]. reflexivity.
    - destruct fuel; [simpl in Hf; lia |]. simpl in Hf.
      inversion Hok as [| x xs Hrd Htl]; subst.
      simpl. destruct (d_rest rd) as [| r rest] eqn:E; simpl.
      + destruct (d_fail rd); [reflexivity |]. apply IH; [assumption | lia].
      + inversion Hrd; subst. rewrite (reassign_relink _ _ H1). reflexivity.
  Qed.

  (** what concatenation mode returns: the inputs in order up to the first failing one *)
  Fixpoint cat_out (rds : list rdr) : list (Z * rec) * Z :=
    match rds with
    | [] => ([], 0)
    | rd :: tl =>
      let os := map (pair (d_id rd)) (map (relink (d_id rd)) (d_rest rd)) in
      if d_fail rd then (os, 1)
      else let (o, e) := cat_out tl in (os ++ o, e)
    end.

  Definition cat_size (rds : list rdr) : nat := length (concat (map d_rest rds)).

  Lemma mread_cat_eq : forall pq rds,
      cat_ok rds -> mread pq links None (mkM rds false) = Ok (cat_next rds).
  Proof.
    intros. unfold mread. apply mread_cat_next; [assumption | simpl; lia].
  Qed.

  Lemma drain_cat : forall pq n rds,
      cat_ok rds -> (cat_size rds < n)%nat ->
      exists mf, drain pq links None n (mkM rds false) = (fst (cat_out rds), snd (cat_out rds), mf)
                 /\ final_ok (snd (cat_out rds)) mf.
  Proof.
    intros pq n. induction n as [| n IHn]; intros rds Hok Hn; [lia |].
    induction rds as [| rd tl IHtl].
    - exists (mkM [] false). split; [reflexivity | right; split; reflexivity].
    - inversion Hok as [| x xs Hrd Htl]; subst.
      unfold cat_size in Hn. simpl in Hn. rewrite app_length in Hn.
      rewrite drain_S, (mread_cat_eq pq _ Hok).
      simpl cat_next. simpl cat_out.
      destruct (d_rest rd) as [| r rest] eqn:E.
      + destruct (d_fail rd) eqn:Ef.
        * simpl. eexists. split; [reflexivity | left; split; reflexivity].
        * (* an exhausted input is skipped within the same Read *)
          assert (Hn' : (cat_size tl < S n)%nat) by (unfold cat_size; simpl in Hn; lia).
          destruct (IHtl Htl Hn') as [mf [Hd Hf]].
          rewrite drain_S, (mread_cat_eq pq _ Htl) in Hd.
          exists mf. destruct (cat_out tl) as [o e]. simpl in *. split; [exact Hd | exact Hf].
      + set (rd' := mkRdr (d_id rd) rest (d_fail rd) (d_head rd) (d_err rd)).
        assert (Hok' : cat_ok (rd' :: tl)).
        { constructor; [| assumption]. unfold rd'. simpl. inversion Hrd; assumption. }
        assert (Hn' : (cat_size (rd' :: tl) < n)%nat).
        { unfold cat_size, rd'. simpl. rewrite app_length. simpl in Hn. lia. }
        destruct (IHn (rd' :: tl) Hok' Hn') as [mf [Hd Hf]].
        simpl. rewrite Hd. exists mf. revert Hf. unfold rd'. simpl.
        destruct (d_fail rd); simpl; [intros Hf; split; [reflexivity | exact Hf] |].
        destruct (cat_out tl) as [o e]. simpl. intros Hf; split; [reflexivity | exact Hf].
  Qed.
End Sim.
