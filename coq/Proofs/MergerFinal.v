(** C18 — the statements of Props/C18.v. *)
From Coq Require Import ZArith List Bool Lia Permutation Sorted.
From Hts Require Import Base.Prim Model.Merger Proofs.MergeRun Proofs.Merger Proofs.MergerTop
     Proofs.MergerHeap Proofs.MergerOrders Proofs.MergerHeapOrd.
Import ListNotations.
Open Scope Z_scope.

(** every mode, on the transcribed container/heap *)
Lemma goheap_run : forall links lessf ins,
    ins_ok links 0 ins ->
    exists outs e mf,
      run_merge goheap links lessf ins = Ok (outs, e, mf) /\
      merge_result links ins outs e /\ final_ok e mf.
Proof.
  intros links lessf ins Hok. destruct lessf as [less |].
  - destruct (sorted_mode_run links less goheap _ _ (fun _ _ => True) (goheap_spec less)
                              (fun _ _ _ _ _ _ => I) ins Hok) as [outs [e [mf [H1 [H2 H3]]]]].
    exists outs, e, mf. split; [exact H1 |]. split; [eapply mrun_result; eauto | exact H3].
  - destruct (cat_mode_run links goheap ins Hok) as [outs [e [mf [H1 [H2 [H3 _]]]]]].
    exists outs, e, mf. auto.
Qed.

Definition all_clean (ins : list input) : bool := negb (existsb i_fail ins).

Lemma sticky : forall pq links lessf e mf,
    final_ok e mf -> mread pq links lessf mf = Ok (if e =? 0 then GotEOF else GotErr, mf).
Proof.
  intros pq links lessf e mf [[-> H] | [-> ->]].
  - unfold mread. destruct lessf; simpl; rewrite H; reflexivity.
  - unfold mread. destruct lessf; reflexivity.
Qed.

(** no Panic, no Stuck; EOF exactly when every input ended cleanly, the error
    otherwise; the end is final (every further Read returns the same) *)
Lemma errors_gen : forall links lessf ins,
    ins_ok links 0 ins ->
    exists outs e mf,
      run_merge goheap links lessf ins = Ok (outs, e, mf) /\
      e = (if all_clean ins then 0 else 1) /\
      mread goheap links lessf mf = Ok (if all_clean ins then GotEOF else GotErr, mf).
Proof.
  intros links lessf ins Hok.
  destruct (goheap_run links lessf ins Hok) as [outs [e [mf [H1 [[H2 _] H3]]]]].
  exists outs, e, mf. split; [exact H1 |].
  unfold all_clean. rewrite (sticky goheap links lessf e mf H3). subst e.
  destruct (existsb i_fail ins); simpl; split; reflexivity.
Qed.

Lemma permutation_gen : forall links lessf ins,
    ins_ok links 0 ins ->
    exists outs e mf rest,
      run_merge goheap links lessf ins = Ok (outs, e, mf) /\
      Permutation (tagged links 0 ins) (outs ++ rest) /\
      (all_clean ins = true -> rest = []).
Proof.
  intros links lessf ins Hok.
  destruct (goheap_run links lessf ins Hok) as [outs [e [mf [H1 [[H2 [[rest [H3 H4]] _]] _]]]]].
  exists outs, e, mf, rest. split; [exact H1 |]. split; [exact H3 |].
  intros Hc. apply H4. rewrite H2. unfold all_clean in Hc. destruct (existsb i_fail ins); [discriminate | reflexivity].
Qed.

Lemma stable_gen : forall links lessf ins,
    ins_ok links 0 ins ->
    exists outs e mf,
      run_merge goheap links lessf ins = Ok (outs, e, mf) /\
      forall j inp, nth_error ins j = Some inp ->
        exists k, proj (Z.of_nat j) outs = firstn k (map (relink links (Z.of_nat j)) (i_recs inp)) /\
                  (all_clean ins = true -> proj (Z.of_nat j) outs = map (relink links (Z.of_nat j)) (i_recs inp)).
Proof.
  intros links lessf ins Hok.
  destruct (goheap_run links lessf ins Hok) as [outs [e [mf [H1 [[H2 [_ H3]] _]]]]].
  exists outs, e, mf. split; [exact H1 |]. intros j inp Hn.
  destruct (H3 j inp Hn) as [k [Hk He]]. exists k. split; [exact Hk |].
  intros Hc. apply He. rewrite H2. unfold all_clean in Hc. destruct (existsb i_fail ins); [discriminate | reflexivity].
Qed.

(** re-linking: every returned record is a source record of the input it is
    attributed to, passed through reassignReference *)
Lemma tagged_in : forall links ins k i r,
    ins_ok links k ins -> In (i, r) (tagged links k ins) ->
    exists j inp r0, i = k + Z.of_nat j /\ nth_error ins j = Some inp /\ In r0 (i_recs inp) /\
                     reassign links i r0 = Ok r.
Proof.
  induction ins as [| a t IH]; intros k i r Hok Hin; simpl in Hin; [contradiction |].
  destruct Hok as [Ha Ht]. apply in_app_or in Hin. destruct Hin as [Hin | Hin].
  - apply in_map_iff in Hin. destruct Hin as [r1 [Heq Hin]]. inversion Heq; subst.
    apply in_map_iff in Hin. destruct Hin as [r0 [<- Hin]].
    exists O, a, r0. split; [simpl; lia |]. split; [reflexivity |]. split; [exact Hin |].
    apply reassign_relink. rewrite Forall_forall in Ha. now apply Ha.
  - destruct (IH (k + 1) i r Ht Hin) as [j [inp [r0 [H1 [H2 [H3 H4]]]]]].
    exists (S j), inp, r0. split; [lia |]. split; [exact H2 |]. split; assumption.
Qed.

Lemma relinked_gen : forall links lessf ins,
    ins_ok links 0 ins ->
    exists outs e mf,
      run_merge goheap links lessf ins = Ok (outs, e, mf) /\
      forall i r, In (i, r) outs ->
        exists j inp r0, i = Z.of_nat j /\ nth_error ins j = Some inp /\ In r0 (i_recs inp) /\
                         reassign links i r0 = Ok r.
Proof.
  intros links lessf ins Hok.
  destruct (goheap_run links lessf ins Hok) as [outs [e [mf [H1 [[_ [[rest [H3 _]] _]] _]]]]].
  exists outs, e, mf. split; [exact H1 |]. intros i r Hin.
  assert (Hin' : In (i, r) (tagged links 0 ins)).
  { eapply Permutation_in; [apply Permutation_sym; exact H3 |]. apply in_or_app. now left. }
  destruct (tagged_in links ins 0 i r Hok Hin') as [j [inp [r0 [E1 [E2 [E3 E4]]]]]].
  exists j, inp, r0. split; [lia |]. auto.
Qed.

(** concatenation mode: the inputs one after the other, cut after the first
    failing input *)
Lemma cat_gen : forall links ins,
    ins_ok links 0 ins ->
    exists outs e mf rest,
      run_merge goheap links None ins = Ok (outs, e, mf) /\
      tagged links 0 ins = outs ++ rest /\ (all_clean ins = true -> rest = []).
Proof.
  intros links ins Hok.
  destruct (cat_mode_run links goheap ins Hok) as [outs [e [mf [H1 [[H2 [[rest' [_ _]] _]] [_ [rest H4]]]]]]].
  exists outs, e, mf, rest. split; [exact H1 |]. split; [exact H4 |].
  intros Hc.
  destruct (cat_out_prefix links ins 0) as [rest2 [P1 [P2 P3]]].
  unfold run_merge, new_merger, new_cat in H1. cbn [obind] in H1.
  destruct (drain_cat links goheap (S (total_recs ins)) (cat_readers 0 ins)) as [mf' [Hd _]];
    [now apply cat_readers_ok | rewrite cat_readers_size; lia |].
  rewrite Hd in H1. inversion H1; subst outs e mf.
  rewrite P1 in H4. apply app_inv_head in H4. subst rest.
  apply P2. rewrite P3. unfold all_clean in Hc. destruct (existsb i_fail ins); [discriminate | reflexivity].
Qed.

(** ordered output, for any priority queue that meets the container/heap
    contract with respect to bySortOrderAndID.Less *)
Lemma sorted_gen : forall links (le : rec -> rec -> Prop) less pq wf ins,
    (forall a b c, le a b -> le b c -> le a c) ->
    pq_spec (rless less) (pq_init_of pq (rless less)) (pq_push_of pq (rless less))
            (pq_pop_of pq (rless less)) wf (fun x q' => Forall (leR le x) q') ->
    ins_ok links 0 ins -> ins_sorted links le 0 ins ->
    exists outs e mf,
      run_merge pq links (Some less) ins = Ok (outs, e, mf) /\
      StronglySorted le (map snd outs) /\ merge_result links ins outs e.
Proof.
  intros links le less pq wf ins Htr PQ Hok Hs.
  destruct (sorted_mode_sorted links le Htr less pq wf ins PQ Hok Hs) as [outs [e [mf [H1 [H2 [_ H4]]]]]].
  exists outs, e, mf. auto.
Qed.

(** ... and closed, on the reference queue, for every less function that is
    compatible with a total preorder *)
Lemma sorted_listpq : forall links (le : rec -> rec -> Prop) less ins,
    (forall a b c, le a b -> le b c -> le a c) -> less_compat le less ->
    ins_ok links 0 ins -> ins_sorted links le 0 ins ->
    exists outs e mf,
      run_merge listpq links (Some less) ins = Ok (outs, e, mf) /\
      StronglySorted le (map snd outs) /\ merge_result links ins outs e.
Proof.
  intros links le less ins Htr HC Hok Hs.
  eapply sorted_gen; eauto. apply listpq_spec; assumption.
Qed.

(** ... and closed, on the transcribed container/heap *)
Lemma sorted_goheap : forall links (le : rec -> rec -> Prop) less ins,
    (forall a b c, le a b -> le b c -> le a c) -> less_compat le less ->
    ins_ok links 0 ins -> ins_sorted links le 0 ins ->
    exists outs e mf,
      run_merge goheap links (Some less) ins = Ok (outs, e, mf) /\
      StronglySorted le (map snd outs) /\ merge_result links ins outs e.
Proof.
  intros links le less ins Htr HC Hok Hs.
  eapply sorted_gen; eauto. apply goheap_min_spec; assumption.
Qed.

(** the orders NewMerger selects *)
Lemma sorted_declared : forall links so code less ins,
    pick_less so code = Some less ->
    ins_ok links 0 ins ->
    ins_sorted links (if so =? 2 then le_name else if so =? 3 then le_coord else le_custom code) 0 ins ->
    exists outs e mf,
      run_merge goheap links (Some less) ins = Ok (outs, e, mf) /\
      StronglySorted (if so =? 2 then le_name else if so =? 3 then le_coord else le_custom code) (map snd outs) /\
      merge_result links ins outs e.
Proof.
  intros links so code less ins Hp Hok Hs. unfold pick_less in Hp.
  destruct (so =? 1); [discriminate |].
  destruct (so =? 2).
  - inversion Hp; subst. apply sorted_goheap; auto; [exact le_name_trans | exact less_by_name_compat].
  - destruct (so =? 3).
    + inversion Hp; subst. apply sorted_goheap; auto; [exact le_coord_trans | exact less_by_coordinate_compat].
    + apply sorted_goheap; auto; [apply le_custom_trans | now apply custom_less_compat].
Qed.

(** * NewMerger as a whole (header handling, choice of the mode) *)
Lemma new_merger_full_spec : forall pq code ins h links lessf m,
    new_merger_full pq code ins = Ok (h, links, lessf, m) ->
    exists first rest,
      ins = first :: rest /\
      so_agree (i_so first) ins = true /\
      mh_so h = i_so first /\
      lessf = pick_less (i_so first) code /\
      new_merger pq links lessf ins = Ok m /\
      match rest with
      | [] => links = None /\ mh_refs h = i_refs first /\ mh_go h = i_go first
      | _ => mh_go h = 0 /\ exists ls, links = Some ls
      end.
Proof.
  intros pq code ins h links lessf m H. unfold new_merger_full in H.
  destruct ins as [| first rest]; [discriminate |].
  destruct (so_agree (i_so first) (first :: rest)) eqn:Eso; cbn [negb] in H; [| discriminate].
  destruct (merge_headers (first :: rest)) as [[h0 l0] |] eqn:Em; [| discriminate].
  cbn [mh_so mh_refs mh_go] in H.
  destruct (new_merger pq l0 (pick_less (i_so first) code) (first :: rest)) as [m0 | | |] eqn:En;
    cbn [obind] in H; try discriminate.
  inversion H; subst h links lessf m. clear H.
  exists first, rest. repeat split; auto.
  unfold merge_headers in Em. destruct rest as [| second more].
  - inversion Em; subst. simpl. auto.
  - destruct (merge_more (i_refs first) (second :: more)) as [[hh lss] |]; [| discriminate].
    inversion Em; subst. simpl. split; [reflexivity | eauto].
Qed.

(** the four declared orders: unsorted = concatenation; queryname and
    coordinate = the two sam.Record methods; unknown (and any other value) =
    the caller's less, concatenation when it is nil *)
Lemma pick_less_modes : forall so code,
    (so = 1 -> pick_less so code = None) /\
    (so = 2 -> pick_less so code = Some less_by_name) /\
    (so = 3 -> pick_less so code = Some less_by_coordinate) /\
    (so <> 1 -> so <> 2 -> so <> 3 -> pick_less so code = custom_less code).
Proof.
  intros so code. unfold pick_less. repeat split; intros; subst; try reflexivity.
  destruct (so =? 1) eqn:E1; [apply Z.eqb_eq in E1; contradiction |].
  destruct (so =? 2) eqn:E2; [apply Z.eqb_eq in E2; contradiction |].
  destruct (so =? 3) eqn:E3; [apply Z.eqb_eq in E3; contradiction | reflexivity].
Qed.

Definition declared_le (so code : Z) : rec -> rec -> Prop :=
  if so =? 2 then le_name else if so =? 3 then le_coord else le_custom code.

Lemma full_merge : forall code ins h links lessf m,
    new_merger_full goheap code ins = Ok (h, links, lessf, m) ->
    ins_ok links 0 ins ->
    exists outs e mf,
      drain goheap links lessf (S (total_recs ins)) m = (outs, e, mf) /\
      merge_result links ins outs e /\
      so_agree (mh_so h) ins = true /\
      lessf = pick_less (mh_so h) code /\
      (lessf = None -> exists rest, tagged links 0 ins = outs ++ rest) /\
      (lessf <> None -> ins_sorted links (declared_le (mh_so h) code) 0 ins ->
       StronglySorted (declared_le (mh_so h) code) (map snd outs)).
Proof.
  intros code ins h links lessf m H Hok.
  destruct (new_merger_full_spec _ _ _ _ _ _ _ H) as [first [rest [Hins [Hso [Hh [Hl [Hn _]]]]]]].
  destruct (goheap_run links lessf ins Hok) as [outs [e [mf [H1 [H2 _]]]]].
  assert (Hd : drain goheap links lessf (S (total_recs ins)) m = (outs, e, mf)).
  { unfold run_merge in H1. rewrite Hn in H1. simpl in H1. now inversion H1. }
  exists outs, e, mf. split; [exact Hd |]. split; [exact H2 |].
  rewrite Hh. split; [exact Hso |]. split; [exact Hl |]. split.
  - intros HN. subst lessf. rewrite HN in *.
    destruct (cat_gen links ins Hok) as [o2 [e2 [m2 [rest2 [R1 [R2 _]]]]]].
    rewrite H1 in R1. inversion R1; subst. eauto.
  - intros HS Hsorted. destruct lessf as [less |]; [| contradiction].
    destruct (sorted_declared links (i_so first) code less ins (eq_sym Hl) Hok Hsorted)
      as [o2 [e2 [m2 [R1 [R2 _]]]]].
    rewrite H1 in R1. inversion R1; subst. exact R2.
Qed.
