(** C18 — priority queues for the merger.
    (1) the transcription of container/heap (Model/Merger.v, [GoHeap]) obeys
        the bag laws and never panics or runs out of fuel when the comparison
        is total on the elements;
    (2) a reference queue (a list, Pop = selection of a minimum) obeys the
        full contract including minimality, for every comparison that lies
        between a total preorder and its strict part. *)
From Coq Require Import ZArith List Bool Lia Permutation Arith PeanoNat FinFun.
From Hts Require Import Base.Prim Model.Merger Proofs.MergeRun Proofs.Merger.
Import ListNotations.

Section Arr.
  Context {A : Type} (d : A).
  Open Scope nat_scope.

  Lemma length_upd_nat : forall (l : list A) i x, length (upd_nat l i x) = length l.
  Proof. induction l; destruct i; simpl; auto. Qed.

  Lemma nth_upd_nat_eq : forall (l : list A) i x, i < length l -> nth i (upd_nat l i x) d = x.
  Proof. induction l; destruct i; simpl; intros; try lia; auto. apply IHl. lia. Qed.

  Lemma nth_upd_nat_neq : forall (l : list A) i k x, i <> k -> nth k (upd_nat l i x) d = nth k l d.
  Proof. induction l; destruct i, k; simpl; intros; try lia; auto. Qed.

  Lemma length_hswap : forall (l : list A) i j, length (hswap d l i j) = length l.
  Proof. intros. unfold hswap. now rewrite !length_upd_nat. Qed.

  Definition tr (i j k : nat) : nat := if k =? j then i else if k =? i then j else k.

  Lemma nth_hswap : forall (l : list A) i j k,
      i < length l -> j < length l -> nth k (hswap d l i j) d = nth (tr i j k) l d.
  Proof.
    intros l i j k Hi Hj. unfold hswap, tr.
    destruct (k =? j) eqn:Ej.
    - apply Nat.eqb_eq in Ej. subst. rewrite nth_upd_nat_eq; [reflexivity | now rewrite length_upd_nat].
    - apply Nat.eqb_neq in Ej. rewrite nth_upd_nat_neq by lia.
      destruct (k =? i) eqn:Ei.
      + apply Nat.eqb_eq in Ei. subst. now rewrite nth_upd_nat_eq.
      + apply Nat.eqb_neq in Ei. now rewrite nth_upd_nat_neq by lia.
  Qed.

  Lemma hswap_perm : forall (l : list A) i j,
      i < length l -> j < length l -> Permutation l (hswap d l i j).
  Proof.
    intros l i j Hi Hj. apply (Permutation_nth l (hswap d l i j) d).
    split; [apply length_hswap |].
    exists (tr i j). split; [| split].
    - intros x Hx. unfold tr. destruct (x =? j); [assumption |]. destruct (x =? i); assumption.
    - intros x y Hx Hy. unfold tr.
      destruct (x =? j) eqn:E1; destruct (y =? j) eqn:E2;
        destruct (x =? i) eqn:E3; destruct (y =? i) eqn:E4;
          repeat match goal with
                 | H : (_ =? _) = true |- _ => apply Nat.eqb_eq in H
                 | H : (_ =? _) = false |- _ => apply Nat.eqb_neq in H
                 end; lia.
    - intros x Hx. now apply nth_hswap.
  Qed.

  Lemma hswap_keep : forall (l : list A) i j k,
      i < length l -> j < length l -> k <> i -> k <> j -> nth k (hswap d l i j) d = nth k l d.
  Proof.
    intros. rewrite nth_hswap by assumption. unfold tr.
    destruct (k =? j) eqn:E1; [apply Nat.eqb_eq in E1; lia |].
    destruct (k =? i) eqn:E2; [apply Nat.eqb_eq in E2; lia | reflexivity].
  Qed.

  Lemma last_split : forall (l : list A) n, length l = S n -> l = firstn n l ++ [nth n l d].
  Proof.
    induction l as [| a l IH]; intros n H; simpl in H; [discriminate |].
    destruct n; simpl.
    - destruct l; [reflexivity | discriminate].
    - f_equal. apply IH. lia.
  Qed.

  Lemma down_S : forall (cmp : A -> A -> outcome bool) f l i n,
      down d cmp (S f) l i n =
      if n <=? 2 * i + 1 then Ok l else
      obind (if 2 * i + 1 + 1 <? n then hless d cmp l (2 * i + 1 + 1) (2 * i + 1) else Ok false) (fun b =>
      obind (hless d cmp l (if b then 2 * i + 1 + 1 else 2 * i + 1) i) (fun c =>
      if c then down d cmp f (hswap d l i (if b then 2 * i + 1 + 1 else 2 * i + 1)) (if b then 2 * i + 1 + 1 else 2 * i + 1) n
      else Ok l)).
  Proof. reflexivity. Qed.

  Lemma up_S : forall (cmp : A -> A -> outcome bool) f l j,
      up d cmp (S f) l j =
      if (j - 1) / 2 =? j then Ok l else
      obind (hless d cmp l j ((j - 1) / 2)) (fun c =>
      if c then up d cmp f (hswap d l ((j - 1) / 2) j) ((j - 1) / 2) else Ok l).
  Proof. reflexivity. Qed.

  (** * container/heap operations preserve the bag and terminate *)
  Variable cmp : A -> A -> outcome bool.
  Definition total_on (l : list A) : Prop := forall a b, In a l -> In b l -> exists c, cmp a b = Ok c.

  Lemma total_on_perm : forall l l', Permutation l l' -> total_on l -> total_on l'.
  Proof.
    intros l l' HP H a b Ha Hb. apply Permutation_sym in HP.
    apply H; eapply Permutation_in; eauto.
  Qed.

  Lemma hless_ok : forall l i j, total_on l -> i < length l -> j < length l -> exists c, hless d cmp l i j = Ok c.
  Proof. intros. unfold hless. apply H; now apply nth_In. Qed.

  Lemma down_spec : forall fuel l i n,
      n <= length l -> total_on l -> n - i < fuel ->
      exists l', down d cmp fuel l i n = Ok l' /\ Permutation l l' /\
                 (forall k, n <= k -> nth k l' d = nth k l d) /\ length l' = length l.
  Proof.
    induction fuel as [| f IH]; intros l i n Hn Ht Hf; [lia |].
    rewrite down_S. destruct (n <=? 2 * i + 1) eqn:E1.
    - exists l. repeat split; auto.
    - apply Nat.leb_gt in E1.
      assert (Hb : exists b, (if 2 * i + 1 + 1 <? n then hless d cmp l (2 * i + 1 + 1) (2 * i + 1) else Ok false) = Ok b).
      { destruct (2 * i + 1 + 1 <? n) eqn:E2; [| eexists; reflexivity].
        apply Nat.ltb_lt in E2. apply hless_ok; [assumption | lia | lia]. }
      destruct Hb as [b Hb]. rewrite Hb. cbn [obind].
      set (j := if b then 2 * i + 1 + 1 else 2 * i + 1).
      assert (Hj : j < n /\ i < j).
      { unfold j. destruct b; [| lia].
        destruct (2 * i + 1 + 1 <? n) eqn:E2; [apply Nat.ltb_lt in E2; lia | discriminate]. }
      destruct (hless_ok l j i Ht) as [c Hc]; [lia | lia |].
      rewrite Hc. cbn [obind]. destruct c.
      + assert (Hp : Permutation l (hswap d l i j)) by (apply hswap_perm; lia).
        destruct (IH (hswap d l i j) j n) as [l' [H1 [H2 [H3 H4]]]].
        * rewrite length_hswap. lia.
        * eapply total_on_perm; eauto.
        * lia.
        * exists l'. split; [exact H1 |]. split; [eapply Permutation_trans; eauto |].
          split; [| rewrite H4; apply length_hswap].
          intros k Hk. rewrite H3 by assumption. apply hswap_keep; lia.
      + exists l. repeat split; auto.
  Qed.

  Lemma up_spec : forall fuel l j,
      j < length l -> total_on l -> j < fuel ->
      exists l', up d cmp fuel l j = Ok l' /\ Permutation l l'.
  Proof.
    induction fuel as [| f IH]; intros l j Hj Ht Hf; [lia |].
    rewrite up_S. destruct ((j - 1) / 2 =? j) eqn:E.
    - exists l. split; auto.
    - apply Nat.eqb_neq in E.
      assert (Hi : (j - 1) / 2 < j).
      { assert ((j - 1) / 2 <= j - 1) by (apply Nat.div_le_upper_bound; lia).
        destruct j; [simpl in E; lia | lia]. }
      destruct (hless_ok l j ((j - 1) / 2) Ht) as [c Hc]; [lia | lia |].
      rewrite Hc. cbn [obind]. destruct c; [| exists l; split; auto].
      assert (Hp : Permutation l (hswap d l ((j - 1) / 2) j)) by (apply hswap_perm; lia).
      destruct (IH (hswap d l ((j - 1) / 2) j) ((j - 1) / 2)) as [l' [H1 H2]].
      + rewrite length_hswap. lia.
      + eapply total_on_perm; eauto.
      + lia.
      + exists l'. split; [exact H1 | eapply Permutation_trans; eauto].
  Qed.

  Lemma init_from_spec : forall cnt l n,
      n <= length l -> total_on l ->
      exists l', init_from d cmp cnt l n = Ok l' /\ Permutation l l'.
  Proof.
    induction cnt as [| c IH]; intros l n Hn Ht; cbn [init_from].
    - exists l. split; auto.
    - destruct (down_spec (S n) l c n Hn Ht) as [l1 [H1 [H2 [_ H4]]]]; [lia |].
      rewrite H1. cbn [obind].
      destruct (IH l1 n) as [l' [H5 H6]]; [lia | eapply total_on_perm; eauto |].
      exists l'. split; [exact H5 | eapply Permutation_trans; eauto].
  Qed.

  Lemma hinit_spec : forall l, total_on l -> exists l', hinit d cmp l = Ok l' /\ Permutation l l'.
  Proof. intros. unfold hinit. apply init_from_spec; auto. Qed.

  Lemma hpush_spec : forall l x, total_on (x :: l) -> exists l', hpush d cmp l x = Ok l' /\ Permutation (x :: l) l'.
  Proof.
    intros l x Ht. unfold hpush.
    assert (Hp : Permutation (x :: l) (l ++ [x])) by (apply Permutation_cons_append).
    destruct (up_spec (S (length (l ++ [x]))) (l ++ [x]) (length (l ++ [x]) - 1)) as [l' [H1 H2]].
    - rewrite app_length. simpl. lia.
    - eapply total_on_perm; eauto.
    - lia.
    - exists l'. split; [exact H1 | eapply Permutation_trans; eauto].
  Qed.

  Lemma hpop_spec : forall l, l <> [] -> total_on l ->
      exists x l', hpop d cmp l = Ok (x, l') /\ Permutation l (x :: l').
  Proof.
    intros l Hne Ht. unfold hpop. destruct l as [| a t] eqn:El; [contradiction |]. rewrite <- El in *.
    assert (Hlen : length l = S (length l - 1)) by (rewrite El; simpl; lia).
    set (n := length l - 1) in *.
    assert (Hp : Permutation l (hswap d l 0 n)) by (apply hswap_perm; lia).
    destruct (down_spec (S (S n)) (hswap d l 0 n) 0 n) as [l' [H1 [H2 [H3 H4]]]].
    - rewrite length_hswap. lia.
    - eapply total_on_perm; eauto.
    - lia.
    - rewrite H1. cbn [obind]. exists (nth n l' d), (firstn n l'). split; [reflexivity |].
      rewrite length_hswap in H4.
      eapply Permutation_trans; [exact Hp |]. eapply Permutation_trans; [exact H2 |].
      rewrite (last_split l' n) at 1 by lia.
      apply Permutation_sym. apply Permutation_cons_append.
  Qed.

End Arr.

(** Every successful heap operation preserves the bag (also when other calls
    would panic): a result [Ok] can only come from a total run. *)
Section Bag.
  Context {A : Type} (d : A) (cmp : A -> A -> outcome bool).
  Open Scope nat_scope.

  Lemma down_bag : forall fuel l i n l',
      n <= length l -> down d cmp fuel l i n = Ok l' ->
      Permutation l l' /\ (forall k, n <= k -> nth k l' d = nth k l d) /\ length l' = length l.
  Proof.
    induction fuel as [| f IH]; intros l i n l' Hn H; [discriminate |].
    rewrite down_S in H. destruct (n <=? 2 * i + 1) eqn:E1.
    - inversion H; subst. repeat split; auto.
    - apply Nat.leb_gt in E1.
      destruct (if 2 * i + 1 + 1 <? n then hless d cmp l (2 * i + 1 + 1) (2 * i + 1) else Ok false) as [b | | |] eqn:Hb;
        cbn [obind] in H; try discriminate.
      set (j := if b then 2 * i + 1 + 1 else 2 * i + 1) in *.
      assert (Hj : j < n /\ i < j).
      { unfold j. destruct b; [| lia].
        destruct (2 * i + 1 + 1 <? n) eqn:E2; [apply Nat.ltb_lt in E2; lia | discriminate]. }
      destruct (hless d cmp l j i) as [c | | |]; cbn [obind] in H; try discriminate.
      destruct c.
      + assert (Hp : Permutation l (hswap d l i j)) by (apply hswap_perm; lia).
        apply IH in H; [| rewrite length_hswap; lia].
        destruct H as [H2 [H3 H4]].
        split; [eapply Permutation_trans; eauto |].
        split; [| rewrite H4; apply length_hswap].
        intros k Hk. rewrite H3 by assumption. apply hswap_keep; lia.
      + inversion H; subst. repeat split; auto.
  Qed.

  Lemma up_bag : forall fuel l j l', j < length l -> up d cmp fuel l j = Ok l' -> Permutation l l'.
  Proof.
    induction fuel as [| f IH]; intros l j l' Hj H; [discriminate |].
    rewrite up_S in H. destruct ((j - 1) / 2 =? j) eqn:E.
    - inversion H; subst. auto.
    - apply Nat.eqb_neq in E.
      assert (Hi : (j - 1) / 2 < j).
      { assert ((j - 1) / 2 <= j - 1) by (apply Nat.div_le_upper_bound; lia).
        destruct j; [simpl in E; lia | lia]. }
      destruct (hless d cmp l j ((j - 1) / 2)) as [c | | |]; cbn [obind] in H; try discriminate.
      destruct c; [| inversion H; subst; auto].
      assert (Hp : Permutation l (hswap d l ((j - 1) / 2) j)) by (apply hswap_perm; lia).
      apply IH in H; [| rewrite length_hswap; lia].
      eapply Permutation_trans; eauto.
  Qed.

  Lemma init_from_bag : forall cnt l n l', n <= length l -> init_from d cmp cnt l n = Ok l' -> Permutation l l'.
  Proof.
    induction cnt as [| c IH]; intros l n l' Hn H; cbn [init_from] in H.
    - inversion H; subst; auto.
    - destruct (down d cmp (S n) l c n) as [l1 | | |] eqn:Hd; cbn [obind] in H; try discriminate.
      apply down_bag in Hd; [| assumption]. destruct Hd as [H2 [_ H4]].
      apply IH in H; [| lia]. eapply Permutation_trans; eauto.
  Qed.

  Lemma hinit_bag : forall l l', hinit d cmp l = Ok l' -> Permutation l l'.
  Proof. intros l l' H. unfold hinit in H. eapply init_from_bag; eauto. Qed.

  Lemma hpush_bag : forall l x l', hpush d cmp l x = Ok l' -> Permutation (x :: l) l'.
  Proof.
    intros l x l' H. unfold hpush in H. apply up_bag in H.
    - eapply Permutation_trans; [apply Permutation_cons_append | exact H].
    - rewrite app_length. simpl. lia.
  Qed.

  Lemma hpop_bag : forall l x l', hpop d cmp l = Ok (x, l') -> Permutation l (x :: l').
  Proof.
    intros l x l' H. unfold hpop in H. destruct l as [| a t] eqn:El; [discriminate |]. rewrite <- El in *.
    assert (Hlen : length l = S (length l - 1)) by (rewrite El; simpl; lia).
    set (n := length l - 1) in *.
    destruct (down d cmp (S (S n)) (hswap d l 0 n) 0 n) as [l1 | | |] eqn:Hd; cbn [obind] in H; try discriminate.
    inversion H; subst x l'. clear H.
    apply down_bag in Hd; [| rewrite length_hswap; lia].
    destruct Hd as [H2 [H3 H4]]. rewrite length_hswap in H4.
    assert (Hp : Permutation l (hswap d l 0 n)) by (apply hswap_perm; lia).
    eapply Permutation_trans; [exact Hp |]. eapply Permutation_trans; [exact H2 |].
    rewrite (last_split d l1 n) at 1 by lia.
    apply Permutation_sym. apply Permutation_cons_append.
  Qed.
End Bag.

(** * The transcribed container/heap meets the contract without an ordering
    clause ([wf], [R] trivial). *)
Lemma goheap_spec : forall less,
    pq_spec (rless less) (pq_init_of goheap (rless less)) (pq_push_of goheap (rless less))
            (pq_pop_of goheap (rless less)) (fun _ => True) (fun _ _ => True).
Proof.
  intros less. simpl. constructor; intros.
  - eapply hinit_bag; eauto.
  - eapply hpush_bag; eauto.
  - eapply hpop_bag; eauto.
  - destruct (hinit_spec rdr0 (rless less) l H) as [l' [H1 _]]. eauto.
  - destruct (hpush_spec rdr0 (rless less) q x H) as [l' [H1 _]]. eauto.
  - destruct (hpop_spec rdr0 (rless less) q H H0) as [x [l' [H1 _]]]. eauto.
  - exact I.
  - exact I.
  - split; exact I.
Qed.
