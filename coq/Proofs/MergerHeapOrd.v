(** C18 — the transcription of container/heap keeps the heap order: for a
    comparison that lies between a preorder and its strict part, Pop returns
    an element below all that remain. *)
From Coq Require Import ZArith List Bool Lia Permutation Arith PeanoNat ZifyNat.
From Hts Require Import Base.Prim Model.Merger Proofs.MergeRun Proofs.Merger Proofs.MergerHeap.
Import ListNotations.

Ltac Zify.zify_post_hook ::= Z.div_mod_to_equations.

Section HeapOrd.
  Context {A : Type} (d : A) (cmp : A -> A -> outcome bool).
  Variable le : A -> A -> Prop.
  Variable good : A -> Prop.
  Hypothesis le_trans : forall a b c, good b -> le a b -> le b c -> le a c.
  Hypothesis cmp_true : forall a b, cmp a b = Ok true -> le a b.
  Hypothesis cmp_false : forall a b, cmp a b = Ok false -> le b a.
  Open Scope nat_scope.

  Notation "l @ i" := (nth i l d) (at level 9, i at level 9).

  (** every edge whose parent index is at least c is in order, inside [0, n) *)
  Definition hp_from (l : list A) (n c : nat) : Prop :=
    forall k, 0 < k < n -> c <= (k - 1) / 2 -> le l@((k - 1) / 2) l@k.

  (** ... except the edges below i; the parent of i is below the children of i *)
  Definition hp_down (l : list A) (n i c : nat) : Prop :=
    (forall k, 0 < k < n -> c <= (k - 1) / 2 -> (k - 1) / 2 <> i -> le l@((k - 1) / 2) l@k) /\
    (forall k, 0 < k < n -> (k - 1) / 2 = i -> 0 < i -> c <= (i - 1) / 2 -> le l@((i - 1) / 2) l@k).

  (** ... except the edge above j; the parent of j is below the children of j *)
  Definition hp_up (l : list A) (n j : nat) : Prop :=
    (forall k, 0 < k < n -> k <> j -> le l@((k - 1) / 2) l@k) /\
    (forall k, 0 < k < n -> (k - 1) / 2 = j -> 0 < j -> le l@((j - 1) / 2) l@k).

  Definition all_good (l : list A) : Prop := Forall good l.

  Lemma good_nth : forall l k, all_good l -> k < length l -> good l@k.
  Proof. intros l k H Hk. unfold all_good in H. rewrite Forall_forall in H. apply H. now apply nth_In. Qed.

  Lemma swap_i : forall (l : list A) i j, i < length l -> j < length l -> (hswap d l i j)@i = l@j.
  Proof.
    intros. rewrite (nth_hswap d) by assumption. unfold tr.
    destruct (i =? j) eqn:E; [apply Nat.eqb_eq in E; now subst |]. now rewrite Nat.eqb_refl.
  Qed.

  Lemma swap_j : forall (l : list A) i j, i < length l -> j < length l -> (hswap d l i j)@j = l@i.
  Proof. intros. rewrite (nth_hswap d) by assumption. unfold tr. now rewrite Nat.eqb_refl. Qed.

  Lemma down_order : forall fuel l i n c l',
      n <= length l -> all_good l -> c <= i ->
      down d cmp fuel l i n = Ok l' -> hp_down l n i c -> hp_from l' n c.
  Proof.
    induction fuel as [| f IH]; intros l i n c l' Hn Hg Hci H Hinv; [discriminate |].
    rewrite (down_S d) in H. destruct (n <=? 2 * i + 1) eqn:E1.
    - apply Nat.leb_le in E1. inversion H; subst l'. destruct Hinv as [H1 _].
      intros k Hk Hc. apply H1; auto. intros Heq. lia.
    - apply Nat.leb_gt in E1.
      destruct (if 2 * i + 1 + 1 <? n then hless d cmp l (2 * i + 1 + 1) (2 * i + 1) else Ok false) as [b | | |] eqn:Hb;
        cbn [obind] in H; try discriminate.
      set (j := if b then 2 * i + 1 + 1 else 2 * i + 1) in *.
      (* j is a child of i that is below the other child *)
      assert (Hj : j < n /\ (j - 1) / 2 = i /\ i < j /\
                   forall k, 0 < k < n -> (k - 1) / 2 = i -> k <> j -> le l@j l@k).
      { unfold j. destruct (2 * i + 1 + 1 <? n) eqn:E2.
        - apply Nat.ltb_lt in E2. unfold hless in Hb. destruct b.
          + split; [lia |]. split; [lia |]. split; [lia |].
            intros k Hk Hp Hne. assert (k = 2 * i + 1) by lia. subst k. now apply cmp_true.
          + split; [lia |]. split; [lia |]. split; [lia |].
            intros k Hk Hp Hne. assert (k = 2 * i + 1 + 1) by lia. subst k. now apply cmp_false.
        - apply Nat.ltb_ge in E2. inversion Hb; subst b.
          split; [lia |]. split; [lia |]. split; [lia |].
          intros k Hk Hp Hne. lia. }
      destruct Hj as [Hjn [Hpj [Hij Hmin]]].
      unfold hless in H. destruct (cmp l@j l@i) as [cc | | |] eqn:Hc; cbn [obind] in H; try discriminate.
      destruct Hinv as [Hedges Hgrand].
      destruct cc.
      + (* swap and continue at j *)
        apply cmp_true in Hc.
        assert (Li : i < length l) by lia. assert (Lj : j < length l) by lia.
        eapply (IH (hswap d l i j) j n c l'); eauto.
        * rewrite length_hswap; lia.
        * eapply Permutation_Forall; [apply hswap_perm; lia | exact Hg].
        * lia.
        * split.
          -- intros k Hk Hck Hne.
             destruct (Nat.eq_dec k j) as [-> | Hkj].
             { rewrite Hpj, swap_i, swap_j by assumption. exact Hc. }
             destruct (Nat.eq_dec k i) as [-> | Hki].
             { rewrite swap_i by assumption. rewrite hswap_keep by lia.
               apply Hgrand; try lia. }
             destruct (Nat.eq_dec ((k - 1) / 2) i) as [Hpk | Hpk].
             { rewrite Hpk, swap_i by assumption. rewrite hswap_keep by lia. apply Hmin; lia. }
             rewrite !hswap_keep by lia. apply Hedges; lia.
          -- intros k Hk Hpk Hj0 Hcj.
             rewrite Hpj, swap_i by assumption. rewrite hswap_keep by lia.
             rewrite <- Hpk. apply Hedges; lia.
      + (* in order already *)
        apply cmp_false in Hc. inversion H; subst l'.
        intros k Hk Hck.
        destruct (Nat.eq_dec ((k - 1) / 2) i) as [Hpk | Hpk]; [| apply Hedges; lia].
        rewrite Hpk. destruct (Nat.eq_dec k j) as [-> | Hkj]; [exact Hc |].
        eapply le_trans; [| exact Hc |]; [apply good_nth; [assumption | lia] | apply Hmin; lia].
  Qed.

  Lemma up_order : forall fuel l j n l',
      n <= length l -> all_good l -> j < n ->
      up d cmp fuel l j = Ok l' -> hp_up l n j -> hp_from l' n 0.
  Proof.
    induction fuel as [| f IH]; intros l j n l' Hn Hg Hjn H Hinv; [discriminate |].
    rewrite (up_S d) in H. destruct ((j - 1) / 2 =? j) eqn:E.
    - apply Nat.eqb_eq in E. inversion H; subst l'. destruct Hinv as [H1 _].
      intros k Hk _. apply H1; auto. lia.
    - apply Nat.eqb_neq in E.
      assert (Hi : (j - 1) / 2 < j) by lia.
      set (i := (j - 1) / 2) in *.
      unfold hless in H. destruct (cmp l@j l@i) as [cc | | |] eqn:Hc; cbn [obind] in H; try discriminate.
      destruct Hinv as [Hedges Hgrand].
      destruct cc.
      + apply cmp_true in Hc.
        assert (Li : i < length l) by lia. assert (Lj : j < length l) by lia.
        eapply (IH (hswap d l i j) i n l'); eauto.
        * rewrite length_hswap; lia.
        * eapply Permutation_Forall; [apply hswap_perm; lia | exact Hg].
        * lia.
        * split.
          -- intros k Hk Hne.
             destruct (Nat.eq_dec k j) as [-> | Hkj].
             { fold i. rewrite swap_i, swap_j by assumption. exact Hc. }
             destruct (Nat.eq_dec ((k - 1) / 2) j) as [Hpk | Hpk].
             { rewrite Hpk, swap_j by assumption. rewrite hswap_keep by lia.
               apply Hgrand; lia. }
             destruct (Nat.eq_dec ((k - 1) / 2) i) as [Hpk' | Hpk'].
             { rewrite Hpk', swap_i by assumption. rewrite hswap_keep by lia.
               eapply le_trans; [| exact Hc |]; [apply good_nth; [assumption | lia] |].
               rewrite <- Hpk'. apply Hedges; lia. }
             rewrite !hswap_keep by lia. apply Hedges; lia.
          -- intros k Hk Hpk Hi0.
             assert (Hpi : le l@((i - 1) / 2) l@i) by (apply Hedges; lia).
             rewrite hswap_keep by lia.
             destruct (Nat.eq_dec k j) as [-> | Hkj].
             { rewrite swap_j by assumption. exact Hpi. }
             rewrite hswap_keep by lia.
             eapply le_trans; [| exact Hpi |]; [apply good_nth; [assumption | lia] |].
             rewrite <- Hpk. apply Hedges; lia.
      + apply cmp_false in Hc. inversion H; subst l'.
        intros k Hk _. destruct (Nat.eq_dec k j) as [-> | Hkj]; [exact Hc | apply Hedges; lia].
  Qed.

  Lemma init_order : forall cnt l n l',
      n <= length l -> all_good l ->
      init_from d cmp cnt l n = Ok l' -> hp_from l n cnt -> hp_from l' n 0.
  Proof.
    induction cnt as [| c IH]; intros l n l' Hn Hg H Hinv; cbn [init_from] in H.
    - inversion H; subst; assumption.
    - destruct (down d cmp (S n) l c n) as [l1 | | |] eqn:Hd; cbn [obind] in H; try discriminate.
      pose proof (down_bag d cmp _ _ _ _ _ Hn Hd) as [Hp [_ Hlen]].
      eapply (IH l1 n l'); eauto.
      + lia.
      + eapply Permutation_Forall; eauto.
      + eapply down_order; eauto. split.
        * intros k Hk Hck Hne. apply Hinv; lia.
        * intros k Hk Hpk Hc0 Hcc. lia.
  Qed.

  (** the root is below everything else *)
  Lemma root_min : forall l n, n <= length l -> all_good l -> hp_from l n 0 ->
      forall k, 0 < k < n -> le l@0 l@k.
  Proof.
    intros l n Hn Hg Hh k. induction k as [k IHk] using lt_wf_ind. intros Hk.
    destruct (Nat.eq_dec ((k - 1) / 2) 0) as [E | E].
    - rewrite <- E. apply Hh; lia.
    - eapply le_trans; [| apply IHk | apply Hh]; try lia.
      apply good_nth; [assumption | lia].
  Qed.
End HeapOrd.

(** * The transcribed container/heap meets the whole contract *)
Section Arr2.
  Context {A : Type} (d : A).
  Open Scope nat_scope.

  Lemma nth_firstn_lt : forall (l : list A) n k, k < n -> nth k (firstn n l) d = nth k l d.
  Proof.
    induction l as [| a l IH]; intros n k H.
    - rewrite firstn_nil. reflexivity.
    - destruct n; [lia |]. destruct k; simpl; [reflexivity |]. apply IH. lia.
  Qed.

  Lemma Forall_firstn_nth : forall (P : A -> Prop) (l : list A) n,
      n <= length l -> (forall k, k < n -> P (nth k l d)) -> Forall P (firstn n l).
  Proof.
    intros P l n Hn H. apply Forall_forall. intros y Hy.
    destruct (In_nth _ _ d Hy) as [k [Hk Heq]]. rewrite firstn_length_le in Hk by assumption.
    rewrite nth_firstn_lt in Heq by assumption. subst y. now apply H.
  Qed.
End Arr2.

From Hts Require Import Proofs.MergerTop Proofs.MergerOrders.

Section GoHeapMin.
  Variable le : rec -> rec -> Prop.
  Variable less : rec -> rec -> bool.
  Hypothesis le_trans : forall a b c, le a b -> le b c -> le a c.
  Hypothesis HC : less_compat le less.
  Open Scope nat_scope.

  Definition rgood (r : rdr) : Prop := d_head r <> None.
  Definition heap_wf (q : list rdr) : Prop :=
    hp_from rdr0 (leR le) q (length q) 0 /\ Forall rgood q.

  Let tr3 : forall a b c, rgood b -> leR le a b -> leR le b c -> leR le a c :=
    fun a b c => leR_trans le le_trans a b c.
  Let ct : forall a b, rless less a b = Ok true -> leR le a b :=
    fun a b H => rless_compat le less HC a b true H.
  Let cf : forall a b, rless less a b = Ok false -> leR le b a :=
    fun a b H => rless_compat le less HC a b false H.

  Lemma goheap_wf_init : forall l l', cmp_total (rless less) l -> hinit rdr0 (rless less) l = Ok l' -> heap_wf l'.
  Proof.
    intros l l' Ht H. pose proof (hinit_bag rdr0 _ _ _ H) as Hp.
    pose proof (total_heads less l Ht) as Hg.
    split.
    - rewrite <- (Permutation_length Hp). unfold hinit in H.
      eapply (init_order rdr0 (rless less) (leR le) rgood tr3 ct cf); eauto.
      intros k Hk Hc. lia.
    - eapply Permutation_Forall; eauto.
  Qed.

  Lemma goheap_wf_push : forall q x q',
      heap_wf q -> cmp_total (rless less) (x :: q) -> hpush rdr0 (rless less) q x = Ok q' -> heap_wf q'.
  Proof.
    intros q x q' [Hh Hg] Ht H. pose proof (hpush_bag rdr0 _ _ _ _ H) as Hp.
    pose proof (total_heads less _ Ht) as Hgx.
    assert (Hg' : Forall rgood (q ++ [x])).
    { eapply Permutation_Forall; [apply Permutation_cons_append | exact Hgx]. }
    split; [| eapply Permutation_Forall; eauto].
    rewrite <- (Permutation_length Hp). unfold hpush in H.
    replace (length (x :: q)) with (length (q ++ [x])) by (rewrite app_length; simpl; lia).
    eapply (up_order rdr0 (rless less) (leR le) rgood tr3 ct cf); eauto.
    - rewrite app_length; simpl; lia.
    - split.
      + intros k Hk Hne. rewrite app_length in Hk, Hne. cbn [length] in Hk, Hne.
        rewrite !app_nth1 by lia. apply Hh; lia.
      + intros k Hk Hpk Hj. rewrite app_length in Hk, Hpk. cbn [length] in Hk, Hpk. lia.
  Qed.

  Lemma goheap_wf_pop : forall q x q',
      heap_wf q -> hpop rdr0 (rless less) q = Ok (x, q') -> heap_wf q' /\ Forall (leR le x) q'.
  Proof.
    intros q x q' [Hh Hg] H. unfold hpop in H.
    destruct q as [| a t] eqn:Eq; [discriminate |]. rewrite <- Eq in *.
    assert (Hlen : length q = S (length q - 1)) by (rewrite Eq; simpl; lia).
    set (n := length q - 1) in *.
    destruct (down rdr0 (rless less) (S (S n)) (hswap rdr0 q 0 n) 0 n) as [l' | | |] eqn:Hd;
      cbn [obind] in H; try discriminate.
    inversion H; subst x q'. clear H.
    assert (L0 : 0 < length q) by lia. assert (Ln : n < length q) by lia.
    assert (Hg1 : Forall rgood (hswap rdr0 q 0 n)).
    { eapply Permutation_Forall; [apply hswap_perm; lia | exact Hg]. }
    assert (Hn1 : n <= length (hswap rdr0 q 0 n)) by (rewrite length_hswap; lia).
    pose proof (down_bag rdr0 _ _ _ _ _ _ Hn1 Hd) as [Hp [Hkeep Hl']]. rewrite length_hswap in Hl'.
    assert (Hheap : hp_from rdr0 (leR le) l' n 0).
    { eapply (down_order rdr0 (rless less) (leR le) rgood tr3 ct cf); eauto. split.
      - intros k Hk _ Hne. rewrite !hswap_keep by lia. apply Hh; lia.
      - intros k Hk Hpk H0. lia. }
    assert (Hg' : Forall rgood l') by (eapply Permutation_Forall; eauto).
    rewrite (last_split rdr0 l' n) in Hg' by lia. apply Forall_app in Hg'. destruct Hg' as [Hgf _].
    split; [split |].
    - rewrite firstn_length_le by lia. intros k Hk Hc.
      rewrite !nth_firstn_lt by lia. apply Hheap; lia.
    - exact Hgf.
    - (* the element returned is the old root *)
      rewrite (Hkeep n) by lia. rewrite swap_j by lia.
      assert (Hpf : Permutation (firstn n (hswap rdr0 q 0 n)) (firstn n l')).
      { apply (Permutation_app_inv_r [nth n l' rdr0]).
        rewrite <- (last_split rdr0 l' n) by lia.
        rewrite (Hkeep n) by lia.
        rewrite <- (last_split rdr0 (hswap rdr0 q 0 n) n) by (rewrite length_hswap; lia).
        exact Hp. }
      eapply Permutation_Forall; [exact Hpf |].
      apply (Forall_firstn_nth rdr0); [lia |].
      intros k Hk. destruct (Nat.eq_dec k 0) as [-> | Hk0].
      + rewrite swap_i by lia.
        apply (root_min rdr0 (rless less) (leR le) rgood tr3 ct cf q (length q) (le_n _) Hg Hh); lia.
      + rewrite hswap_keep by lia.
        apply (root_min rdr0 (rless less) (leR le) rgood tr3 ct cf q (length q) (le_n _) Hg Hh); lia.
  Qed.

  Lemma goheap_min_spec :
      pq_spec (rless less) (pq_init_of goheap (rless less)) (pq_push_of goheap (rless less))
              (pq_pop_of goheap (rless less)) heap_wf (fun x q' => Forall (leR le x) q').
  Proof.
    pose proof (goheap_spec less) as G. simpl in *. constructor.
    - apply (bag_init _ _ _ _ _ _ G).
    - apply (bag_push _ _ _ _ _ _ G).
    - apply (bag_pop _ _ _ _ _ _ G).
    - apply (ok_init _ _ _ _ _ _ G).
    - apply (ok_push _ _ _ _ _ _ G).
    - apply (ok_pop _ _ _ _ _ _ G).
    - exact goheap_wf_init.
    - exact goheap_wf_push.
    - exact goheap_wf_pop.
  Qed.
End GoHeapMin.
