(** C18 — the abstract link table of Model/Merger.v instantiated with what
    sam.MergeHeaders returns in the header model of C07 (Model/Header.v,
    Proofs/HeaderMerge.v, [merge_headers_spec]): every returned record's
    reference and mate reference belong to the merged header and carry the
    name (and length) they had in the source header. *)
From Coq Require Import ZArith List Bool Lia Permutation.
From Hts Require Import Base.Prim Model.Header Proofs.HeaderWorld Proofs.HeaderMerge.
From Hts Require Import Model.Merger Proofs.MergeRun Proofs.Merger Proofs.MergerTop Proofs.MergerHeap
     Proofs.MergerOrders Proofs.MergerHeapOrd Proofs.MergerFinal.
Import ListNotations.
Open Scope Z_scope.

(** Reference.ID() of the reference object behind a handle of the header world *)
Definition id_of (w' : world) (y : nat) : Z :=
  match nth_error (w_r w') y with Some o => o_id o | None => -1 end.

(** m.refLinks, as the merger uses it: the ids of the linked references *)
Definition links_of (w' : world) (hl : list (list nat)) : list (list Z) := map (map (id_of w')) hl.

(** reference id [a] of the source header [hs] (world [w]) has become id [b]:
    [b] is the id of a reference that the merged header [hm] (world [w']) owns
    and lists at that id, with the source reference's name and length; a nil
    reference stays nil *)
Definition ref_belongs (w w' : world) (hm : nat) (hs : hdr) (a b : Z) : Prop :=
  if a <? 0 then b = a else
  exists x o y oy hd,
    nth_error (t_items (h_R hs)) (Z.to_nat a) = Some x /\ nth_error (w_r w) x = Some o /\
    nth_error (w_r w') y = Some oy /\ o_owner oy = Some hm /\ nth_error (w_h w') hm = Some hd /\
    b = o_id oy /\ 0 <= b /\ nth_error (t_items (h_R hd)) (Z.to_nat b) = Some y /\
    o_name oy = o_name o /\ rp_len (o_pay oy) = rp_len (o_pay o).

(** the records of an input refer to references of its own header (what
    bam.Reader guarantees: it rejects ids out of range) *)
Definition rec_in_range (n : nat) (r : rec) : Prop := r_ref r < Z.of_nat n /\ r_mref r < Z.of_nat n.
Definition input_fits (w : world) (s : nat) (inp : input) : Prop :=
  exists hs, nth_error (w_h w) s = Some hs /\
             Forall (rec_in_range (length (t_items (h_R hs)))) (i_recs inp).
Definition inputs_fit (w : world) (srcs : list nat) (ins : list input) : Prop :=
  Forall2 (input_fits w) srcs ins.

Lemma Forall2_nth_l : forall (A B : Type) (R : A -> B -> Prop) l l' n x,
    Forall2 R l l' -> nth_error l n = Some x -> exists y, nth_error l' n = Some y /\ R x y.
Proof.
  intros A B R l l' n x F. revert n. induction F; intros n Hn; destruct n; simpl in *; try discriminate.
  - inversion Hn; subst. eauto.
  - eauto.
Qed.

Lemma Forall2_nth_r : forall (A B : Type) (R : A -> B -> Prop) l l' n y,
    Forall2 R l l' -> nth_error l' n = Some y -> exists x, nth_error l n = Some x /\ R x y.
Proof.
  intros A B R l l' n y F. revert n. induction F; intros n Hn; destruct n; simpl in *; try discriminate.
  - inversion Hn; subst. eauto.
  - eauto.
Qed.

Section Links.
  Variables w w' : world.
  Variable hm : nat.
  Variable srcs : list nat.
  Variable hl : list (list nat).
  Hypothesis HL : Forall2 (links_good w w' hm) srcs hl.

  Lemma link_of_good : forall j s hs a,
      nth_error srcs j = Some s -> nth_error (w_h w) s = Some hs ->
      0 <= a < Z.of_nat (length (t_items (h_R hs))) ->
      exists b, link_of (links_of w' hl) (Z.of_nat j) a = Ok b /\ ref_belongs w w' hm hs a b.
  Proof.
    intros j s hs a Hj Hs Ha.
    destruct (Forall2_nth_l _ _ _ _ _ _ _ HL Hj) as [ys [Hys [hs' [Hs' F]]]].
    rewrite Hs in Hs'. inversion Hs'; subst hs'. clear Hs'.
    assert (Hx : exists x, nth_error (t_items (h_R hs)) (Z.to_nat a) = Some x).
    { destruct (nth_error (t_items (h_R hs)) (Z.to_nat a)) eqn:E; [eauto |].
      apply nth_error_None in E. lia. }
    destruct Hx as [x Hx].
    destruct (Forall2_nth_l _ _ _ _ _ _ _ F Hx) as [y [Hy G]].
    destruct G as (o & oy & hd & Ho & Hoy & Hown & Hhd & Hid & Hlist & Hname & Hlen).
    exists (o_id oy). split.
    - unfold link_of, links_of. rewrite Nat2Z.id, nth_error_map, Hys. simpl.
      rewrite nth_error_map, Hy. simpl. unfold id_of. rewrite Hoy. reflexivity.
    - unfold ref_belongs. destruct (a <? 0) eqn:E; [apply Z.ltb_lt in E; lia |].
      exists x, o, y, oy, hd. repeat split; auto.
  Qed.

  Lemma fit_okrec : forall j s hs r,
      nth_error srcs j = Some s -> nth_error (w_h w) s = Some hs ->
      rec_in_range (length (t_items (h_R hs))) r ->
      okrec (Some (links_of w' hl)) (Z.of_nat j) r.
  Proof.
    intros j s hs r Hj Hs [H1 H2]. unfold okrec, reassign.
    destruct (r_ref r <? 0) eqn:E1; destruct (r_mref r <? 0) eqn:E2; simpl.
    - eexists; reflexivity.
    - apply Z.ltb_ge in E2.
      destruct (link_of_good j s hs (r_mref r) Hj Hs) as [b [Hb _]]; [lia |]. rewrite Hb. simpl. eexists; reflexivity.
    - apply Z.ltb_ge in E1.
      destruct (link_of_good j s hs (r_ref r) Hj Hs) as [b [Hb _]]; [lia |]. rewrite Hb. simpl. eexists; reflexivity.
    - apply Z.ltb_ge in E1. apply Z.ltb_ge in E2.
      destruct (link_of_good j s hs (r_ref r) Hj Hs) as [b [Hb _]]; [lia |]. rewrite Hb. simpl.
      destruct (link_of_good j s hs (r_mref r) Hj Hs) as [b' [Hb' _]]; [lia |]. rewrite Hb'. simpl.
      eexists; reflexivity.
  Qed.

  Lemma fit_ins_ok : forall srcs' ins' j,
      (forall k s, nth_error srcs' k = Some s -> nth_error srcs (j + k) = Some s) ->
      Forall2 (input_fits w) srcs' ins' ->
      ins_ok (Some (links_of w' hl)) (Z.of_nat j) ins'.
  Proof.
    intros srcs' ins' j Hsub F. revert j Hsub. induction F as [| s inp srcs' ins' Hfit F IH]; intros j Hsub; simpl.
    - exact I.
    - split.
      + destruct Hfit as [hs [Hs Hr]]. rewrite Forall_forall in *. intros r Hin.
        eapply fit_okrec; eauto. specialize (Hsub O s eq_refl). now rewrite Nat.add_0_r in Hsub.
      + replace (Z.of_nat j + 1) with (Z.of_nat (S j)) by lia. apply IH.
        intros k s' Hk. specialize (Hsub (S k) s' Hk). now rewrite <- plus_n_Sm in Hsub.
  Qed.

  (** every returned record is a source record whose reference and mate
      reference have been replaced by the merged header's references of the
      same name; nothing else changed *)
  Lemma relinked_records : forall lessf ins,
      inputs_fit w srcs ins ->
      exists outs e mf,
        run_merge goheap (Some (links_of w' hl)) lessf ins = Ok (outs, e, mf) /\
        forall i r, In (i, r) outs ->
          exists j s hs inp r0,
            i = Z.of_nat j /\ nth_error srcs j = Some s /\ nth_error (w_h w) s = Some hs /\
            nth_error ins j = Some inp /\ In r0 (i_recs inp) /\
            r_uid r = r_uid r0 /\ r_name r = r_name r0 /\ r_pos r = r_pos r0 /\ r_key r = r_key r0 /\
            ref_belongs w w' hm hs (r_ref r0) (r_ref r) /\
            ref_belongs w w' hm hs (r_mref r0) (r_mref r).
  Proof.
    intros lessf ins Hfit.
    assert (Hok : ins_ok (Some (links_of w' hl)) 0 ins).
    { apply (fit_ins_ok srcs ins O); [intros k s Hk; exact Hk | exact Hfit]. }
    destruct (relinked_gen (Some (links_of w' hl)) lessf ins Hok) as [outs [e [mf [Hrun Hrel]]]].
    exists outs, e, mf. split; [exact Hrun |]. intros i r Hin.
    destruct (Hrel i r Hin) as [j [inp [r0 [Hi [Hinp [Hr0 Hre]]]]]].
    destruct (Forall2_nth_r _ _ _ _ _ _ _ Hfit Hinp) as [s [Hs [hs [Hhs Hrange]]]].
    rewrite Forall_forall in Hrange. destruct (Hrange r0 Hr0) as [R1 R2].
    destruct (reassign_fields _ _ _ _ Hre) as [F1 [F2 [F3 [F4 [F5 F6]]]]].
    exists j, s, hs, inp, r0. repeat split; auto.
    - unfold ref_belongs. destruct (r_ref r0 <? 0) eqn:E; [exact F5 |].
      apply Z.ltb_ge in E.
      destruct (link_of_good j s hs (r_ref r0) Hs Hhs) as [b [Hb Hbel]]; [lia |].
      rewrite Hi in F5. rewrite Hb in F5. inversion F5; subst b.
      unfold ref_belongs in Hbel. destruct (r_ref r0 <? 0) eqn:E'; [apply Z.ltb_lt in E'; lia | exact Hbel].
    - unfold ref_belongs. destruct (r_mref r0 <? 0) eqn:E; [exact F6 |].
      apply Z.ltb_ge in E.
      destruct (link_of_good j s hs (r_mref r0) Hs Hhs) as [b [Hb Hbel]]; [lia |].
      rewrite Hi in F6. rewrite Hb in F6. inversion F6; subst b.
      unfold ref_belongs in Hbel. destruct (r_mref r0 <? 0) eqn:E'; [apply Z.ltb_lt in E'; lia | exact Hbel].
  Qed.
End Links.

(** Two or more inputs: MergeHeaders on the source headers, NewMerger + Read on
    the inputs with the link table it returns. *)
Lemma relinked_merged : forall w s0 srcs w' hl lessf ins,
    WInv w -> (s0 < length (w_h w))%nat -> (forall s, In s srcs -> (s < length (w_h w))%nat) ->
    Header.merge_headers w s0 srcs = Ok (w', 0, hl) ->
    inputs_fit w (s0 :: srcs) ins ->
    exists outs e mf,
      run_merge goheap (Some (links_of w' hl)) lessf ins = Ok (outs, e, mf) /\
      forall i r, In (i, r) outs ->
        exists j s hs inp r0,
          i = Z.of_nat j /\ nth_error (s0 :: srcs) j = Some s /\ nth_error (w_h w) s = Some hs /\
          nth_error ins j = Some inp /\ In r0 (i_recs inp) /\
          r_uid r = r_uid r0 /\ r_name r = r_name r0 /\ r_pos r = r_pos r0 /\ r_key r = r_key r0 /\
          ref_belongs w w' (length (w_h w)) hs (r_ref r0) (r_ref r) /\
          ref_belongs w w' (length (w_h w)) hs (r_mref r0) (r_mref r).
Proof.
  intros w s0 srcs w' hl lessf ins I L0 V Hm Hfit.
  destruct (merge_headers_spec w s0 srcs I L0 V) as (w2 & e & links & Hm' & _ & _ & _ & HG).
  rewrite Hm in Hm'. inversion Hm'; subst w2 e links.
  apply (relinked_records w w' (length (w_h w)) (s0 :: srcs) hl (HG eq_refl) lessf ins Hfit).
Qed.

(** One input: MergeHeaders returns the source header itself and no link
    table; the records are returned as they were read (they already refer to
    the merged header). *)
Lemma relinked_single : forall lessf inp,
    exists outs e mf,
      run_merge goheap None lessf [inp] = Ok (outs, e, mf) /\
      forall i r, In (i, r) outs -> i = 0 /\ In r (i_recs inp).
Proof.
  intros lessf inp.
  assert (Hok : ins_ok None 0 [inp]).
  { simpl. split; [| exact I]. apply Forall_forall. intros r _. exists r. reflexivity. }
  destruct (relinked_gen None lessf [inp] Hok) as [outs [e [mf [Hrun Hrel]]]].
  exists outs, e, mf. split; [exact Hrun |]. intros i r Hin.
  destruct (Hrel i r Hin) as [j [inp' [r0 [Hi [Hinp [Hr0 Hre]]]]]].
  destruct j as [| j]; simpl in Hinp; [| destruct j; discriminate].
  inversion Hinp; subst inp'. simpl in Hre. inversion Hre; subst r0. split; [exact Hi | exact Hr0].
Qed.
