(** C18 — the reference queue meets the full contract; the comparison
    functions of sam/record.go (and the custom ones of the harness) lie
    between a total preorder and its strict part, which is what a binary heap
    needs; bySortOrderAndID.Less inherits that. *)
From Coq Require Import ZArith List Bool Lia Permutation Sorted.
From Hts Require Import Base.Prim Model.Merger Proofs.MergeRun Proofs.Merger Proofs.MergerTop.
Import ListNotations.
Open Scope Z_scope.

(** [less] is compatible with the preorder [le]: it answers true only when
    a <= b and false only when b <= a (so it contains the strict part). *)
Definition less_compat (le : rec -> rec -> Prop) (less : rec -> rec -> bool) : Prop :=
  (forall a b, less a b = true -> le a b) /\ (forall a b, less a b = false -> le b a).

Section Compat.
  Variable le : rec -> rec -> Prop.
  Variable less : rec -> rec -> bool.
  Hypothesis le_trans : forall a b c, le a b -> le b c -> le a c.
  Hypothesis HC : less_compat le less.

  (** bySortOrderAndID.Less is compatible with the preorder on heads *)
  Lemma rless_compat : forall a b c, rless less a b = Ok c ->
      if c then leR le a b else leR le b a.
  Proof.
    intros a b c H. unfold rless in H. unfold leR.
    destruct (d_head a) as [x |]; [| discriminate]. destruct (d_head b) as [y |]; [| discriminate].
    inversion H; subst. destruct HC as [H1 H2].
    destruct (less x y) eqn:E1; [now apply H1 |].
    destruct (d_id a <? d_id b); simpl.
    - destruct (less y x) eqn:E2; simpl; [now apply H1 | now apply H2].
    - now apply H2.
  Qed.

  Definition has_heads (l : list rdr) : Prop := Forall (fun r => d_head r <> None) l.

  Lemma total_heads : forall q, cmp_total (rless less) q -> has_heads q.
  Proof.
    intros q H. apply Forall_forall. intros a Ha. destruct (H a a Ha Ha) as [c Hc].
    unfold rless in Hc. destruct (d_head a); [discriminate | discriminate].
  Qed.

  Lemma heads_total : forall q, has_heads q -> cmp_total (rless less) q.
  Proof.
    intros q H a b Ha Hb. unfold has_heads in H. rewrite Forall_forall in H.
    pose proof (H a Ha). pose proof (H b Hb). unfold rless.
    destruct (d_head a); [| contradiction]. destruct (d_head b); [| contradiction]. eexists; reflexivity.
  Qed.

  Lemma leR_trans : forall a b c, d_head b <> None -> leR le a b -> leR le b c -> leR le a c.
  Proof.
    intros a b c Hb. unfold leR.
    destruct (d_head a); [| auto]. destruct (d_head b); [| contradiction].
    destruct (d_head c); [| auto]. apply le_trans.
  Qed.

  Lemma lp_min_spec : forall l m acc,
      has_heads (m :: acc ++ l) -> Forall (leR le m) acc ->
      exists x q', lp_min (rless less) m acc l = Ok (x, q') /\
                   Permutation (m :: acc ++ l) (x :: q') /\ Forall (leR le x) q'.
  Proof.
    induction l as [| y t IH]; intros m acc Hok Hacc; simpl.
    - exists m, acc. rewrite app_nil_r. repeat split; auto.
    - assert (Hperm1 : Permutation (m :: acc ++ y :: t) (y :: m :: acc ++ t)).
      { eapply Permutation_trans; [| apply perm_swap]. constructor.
        apply Permutation_sym. apply Permutation_middle. }
      assert (Hperm2 : Permutation (m :: acc ++ y :: t) (m :: y :: acc ++ t)).
      { constructor. apply Permutation_sym. apply Permutation_middle. }
      assert (Hok1 : has_heads (y :: m :: acc ++ t)) by (eapply Permutation_Forall; eauto).
      assert (Hm : d_head m <> None) by (inversion Hok; assumption).
      destruct (heads_total _ Hok1 y m) as [c Hc]; [now left | right; now left |].
      rewrite Hc. simpl. pose proof (rless_compat _ _ _ Hc) as Hle.
      destruct c.
      + destruct (IH y (m :: acc)) as [x [q' [H1 [H2 H3]]]].
        * exact Hok1.
        * constructor; [exact Hle |].
          rewrite Forall_forall in *. intros a Ha. eapply (leR_trans y m a); eauto.
        * exists x, q'. split; [exact H1 |]. split; [| exact H3].
          eapply Permutation_trans; [exact Hperm1 | exact H2].
      + destruct (IH m (y :: acc)) as [x [q' [H1 [H2 H3]]]].
        * eapply Permutation_Forall; eauto.
        * constructor; assumption.
        * exists x, q'. split; [exact H1 |]. split; [| exact H3].
          eapply Permutation_trans; [exact Hperm2 | exact H2].
  Qed.

  Lemma lp_min_bag : forall t m acc x q',
      lp_min (rless less) m acc t = Ok (x, q') -> Permutation (m :: acc ++ t) (x :: q').
  Proof.
    induction t as [| y t IH]; intros m acc x q' H; simpl in H.
    - inversion H; subst. rewrite app_nil_r. apply Permutation_refl.
    - destruct (rless less y m) as [c | | |]; simpl in H; try discriminate.
      destruct c; apply IH in H.
      + eapply Permutation_trans; [| exact H].
        simpl. eapply Permutation_trans; [| apply perm_swap]. constructor.
        apply Permutation_sym. apply Permutation_middle.
      + eapply Permutation_trans; [| exact H].
        simpl. constructor. apply Permutation_sym. apply Permutation_middle.
  Qed.

  (** the reference queue meets the whole contract *)
  Lemma listpq_spec :
      pq_spec (rless less) (pq_init_of listpq (rless less)) (pq_push_of listpq (rless less))
              (pq_pop_of listpq (rless less)) (cmp_total (rless less)) (fun x q' => Forall (leR le x) q').
  Proof.
    simpl. constructor.
    - intros l l' H. inversion H; subst. apply Permutation_refl.
    - intros q x q' H. inversion H; subst. apply Permutation_cons_append.
    - intros q x q' H. destruct q as [| m t]; [discriminate |]. simpl in H.
      apply lp_min_bag in H. exact H.
    - intros l _. eexists; reflexivity.
    - intros q x _. eexists; reflexivity.
    - intros q Hne Ht. destruct q as [| m t]; [contradiction |].
      destruct (lp_min_spec t m []) as [x [q' [H1 _]]]; [now apply total_heads | constructor |].
      exists x, q'. exact H1.
    - intros l l' Ht H. inversion H; subst. exact Ht.
    - intros q x q' _ Ht H. inversion H; subst.
      intros a b Ha Hb. apply Ht; (eapply Permutation_in; [apply Permutation_sym; apply Permutation_cons_append | assumption]).
    - intros q x q' Ht H. destruct q as [| m t]; [discriminate |]. simpl in H.
      destruct (lp_min_spec t m []) as [x' [q'' [H1 [H2 H3]]]]; [now apply total_heads | constructor |].
      rewrite H1 in H. inversion H; subst. split; [| exact H3].
      intros a b Ha Hb. apply Ht; (eapply Permutation_in; [apply Permutation_sym; exact H2 | now right]).
  Qed.
End Compat.

(** * The orders of sam/record.go *)
Ltac zb :=
  repeat match goal with
         | H : context [Z.ltb ?p ?q] |- _ => destruct (Z.ltb_spec p q)
         | |- context [Z.ltb ?p ?q] => destruct (Z.ltb_spec p q)
         | H : context [Z.leb ?p ?q] |- _ => destruct (Z.leb_spec p q)
         | |- context [Z.leb ?p ?q] => destruct (Z.leb_spec p q)
         | H : context [Z.eqb ?p ?q] |- _ => destruct (Z.eqb_spec p q)
         | |- context [Z.eqb ?p ?q] => destruct (Z.eqb_spec p q)
         end; simpl in *; try lia; try congruence; auto.

Lemma str_ltb_asym : forall a b, str_ltb a b = true -> str_ltb b a = false.
Proof.
  induction a as [| x a IH]; intros b H; destruct b as [| y b]; simpl in *; try congruence.
  zb.
Qed.

Lemma str_nlt_trans : forall a b c, str_ltb b a = false -> str_ltb c b = false -> str_ltb c a = false.
Proof.
  induction a as [| x a IH]; intros b c H1 H2.
  - destruct c; reflexivity.
  - destruct b as [| y b]; [simpl in H1; discriminate |].
    destruct c as [| z c]; [simpl in H2; discriminate |].
    simpl in *. zb. eapply IH; eauto.
Qed.

(** query-name order: Name, bytewise *)
Definition le_name (a b : rec) : Prop := str_ltb (r_name b) (r_name a) = false.

Lemma le_name_trans : forall a b c, le_name a b -> le_name b c -> le_name a c.
Proof. unfold le_name. intros a b c H1 H2. eapply str_nlt_trans; eauto. Qed.

Lemma less_by_name_compat : less_compat le_name less_by_name.
Proof.
  unfold less_compat, le_name, less_by_name. split; intros a b H; [now apply str_ltb_asym | exact H].
Qed.

(** coordinate order: reference order of the header the records are linked
    to (the merged header, after re-linking), then position; no reference last *)
Definition coord_leb (a b : rec) : bool :=
  if r_ref b <? 0 then true
  else if r_ref a <? 0 then false
  else (r_ref a <? r_ref b) || ((r_ref a =? r_ref b) && (r_pos a <=? r_pos b)).
Definition le_coord (a b : rec) : Prop := coord_leb a b = true.

Lemma le_coord_trans : forall a b c, le_coord a b -> le_coord b c -> le_coord a c.
Proof. unfold le_coord, coord_leb. intros a b c H1 H2. zb. Qed.

Lemma less_by_coordinate_compat : less_compat le_coord less_by_coordinate.
Proof.
  unfold less_compat, le_coord, coord_leb, less_by_coordinate. split; intros a b H; zb.
Qed.

(** the custom functions *)
Definition le_custom (code : Z) (a b : rec) : Prop :=
  if code =? 1 then r_pos a <= r_pos b
  else if code =? 2 then r_pos b <= r_pos a
  else if code =? 3 then r_key a <= r_key b
  else if code =? 4 then r_pos a <= r_pos b
  else True.

Lemma le_custom_trans : forall code a b c, le_custom code a b -> le_custom code b c -> le_custom code a c.
Proof. unfold le_custom. intros code a b c. zb. Qed.

Lemma custom_less_compat : forall code less, custom_less code = Some less -> less_compat (le_custom code) less.
Proof.
  unfold custom_less, less_compat, le_custom. intros code less H.
  destruct (code =? 1); [inversion H; subst; split; intros; zb |].
  destruct (code =? 2); [inversion H; subst; split; intros; zb |].
  destruct (code =? 3); [inversion H; subst; split; intros; zb |].
  destruct (code =? 4); [inversion H; subst; split; intros; zb |].
  destruct (code =? 5); [inversion H; subst; split; intros; exact I | discriminate].
Qed.
