(** C18 — statements about NewMerger followed by Read until the end, in terms
    of the inputs. *)
From Coq Require Import ZArith List Bool Lia Permutation Sorted.
From Hts Require Import Base.Prim Model.Merger Proofs.MergeRun Proofs.Merger.
Import ListNotations.
Open Scope Z_scope.

(** * What re-linking does to a record *)
Lemma reassign_fields : forall links i r r',
    reassign links i r = Ok r' ->
    r_uid r' = r_uid r /\ r_name r' = r_name r /\ r_pos r' = r_pos r /\ r_key r' = r_key r /\
    match links with
    | None => r_ref r' = r_ref r /\ r_mref r' = r_mref r
    | Some ls =>
      (if r_ref r <? 0 then r_ref r' = r_ref r else link_of ls i (r_ref r) = Ok (r_ref r')) /\
      (if r_mref r <? 0 then r_mref r' = r_mref r else link_of ls i (r_mref r) = Ok (r_mref r'))
    end.
Proof.
  intros links i r r' H. unfold reassign in H. destruct links as [ls |].
  - destruct (r_ref r <? 0) eqn:E1; destruct (r_mref r <? 0) eqn:E2; simpl in H.
    + inversion H; subst; simpl. repeat split; reflexivity.
    + destruct (link_of ls i (r_mref r)) eqn:L2; simpl in H; try discriminate.
      inversion H; subst; simpl. repeat split; reflexivity.
    + destruct (link_of ls i (r_ref r)) eqn:L1; simpl in H; try discriminate.
      inversion H; subst; simpl. repeat split; reflexivity.
    + destruct (link_of ls i (r_ref r)) eqn:L1; simpl in H; try discriminate.
      destruct (link_of ls i (r_mref r)) eqn:L2; simpl in H; try discriminate.
      inversion H; subst; simpl. repeat split; reflexivity.
  - inversion H; subst. repeat split; reflexivity.
Qed.

(** * Facts about the initial abstract state *)
Section Top.
  Variable links : option (list (list Z)).

  Lemma ids_astreams_ge : forall ins i x, In x (ids (astreams links i ins)) -> i <= x.
  Proof.
    induction ins as [| inp t IH]; intros i x Hin; simpl in Hin; [contradiction |].
    destruct (i_recs inp).
    - apply IH in Hin. lia.
    - simpl in Hin. destruct Hin as [<- | Hin]; [unfold s_id; simpl; lia | apply IH in Hin; lia].
  Qed.

  Lemma ids_astreams_nodup : forall ins i, NoDup (ids (astreams links i ins)).
  Proof.
    induction ins as [| inp t IH]; intros i; simpl; [constructor |].
    destruct (i_recs inp); [apply IH |].
    simpl. constructor; [| apply IH].
    intros Hin. apply ids_astreams_ge in Hin. unfold s_id in Hin; simpl in Hin. lia.
  Qed.

  Lemma astreams_in : forall ins i j inp,
      nth_error ins j = Some inp -> i_recs inp <> [] ->
      In (i + Z.of_nat j, map (relink links (i + Z.of_nat j)) (i_recs inp), i_fail inp) (astreams links i ins).
  Proof.
    induction ins as [| a t IH]; intros i j inp Hn Hne; [destruct j; discriminate |].
    destruct j as [| j]; simpl in Hn.
    - inversion Hn; subst. simpl. destruct (i_recs inp) eqn:E; [contradiction |].
      left. simpl Z.of_nat. rewrite Z.add_0_r. reflexivity.
    - replace (i + Z.of_nat (S j)) with ((i + 1) + Z.of_nat j) by lia. cbn [astreams].
      destruct (i_recs a); [| right]; now apply IH.
  Qed.

  Lemma astreams_notin : forall ins i j inp,
      nth_error ins j = Some inp -> i_recs inp = [] ->
      ~ In (i + Z.of_nat j) (ids (astreams links i ins)).
  Proof.
    induction ins as [| a t IH]; intros i j inp Hn He; [destruct j; discriminate |].
    destruct j as [| j]; simpl in Hn.
    - inversion Hn; subst. simpl. rewrite He. intros Hin. apply ids_astreams_ge in Hin. lia.
    - replace (i + Z.of_nat (S j)) with ((i + 1) + Z.of_nat j) by lia. cbn [astreams].
      destruct (i_recs a).
      + eapply IH; eauto.
      + cbn [ids map]. intros [Heq | Hin]; [unfold s_id in Heq; cbn [fst] in Heq; lia |].
        eapply IH; eauto.
  Qed.

  (** * The result of a whole merge, stated on the inputs *)
  Definition stable_for (ins : list input) (outs : list (Z * rec)) (e : Z) : Prop :=
    forall j inp, nth_error ins j = Some inp ->
      exists k, proj (Z.of_nat j) outs = firstn k (map (relink links (Z.of_nat j)) (i_recs inp))
                /\ (e = 0 -> proj (Z.of_nat j) outs = map (relink links (Z.of_nat j)) (i_recs inp)).

  Definition merge_result (ins : list input) (outs : list (Z * rec)) (e : Z) : Prop :=
    e = (if existsb i_fail ins then 1 else 0) /\
    (exists rest, Permutation (tagged links 0 ins) (outs ++ rest) /\ (e = 0 -> rest = [])) /\
    stable_for ins outs e.

  Lemma mrun_result : forall P ins outs e,
      mrun P (astreams links 0 ins) (efail ins) outs e -> merge_result ins outs e.
  Proof.
    intros P ins outs e H. split; [| split].
    - rewrite (mrun_end _ _ _ _ _ H). now rewrite fail_split.
    - rewrite <- aflat_astreams. eapply mrun_bag; eauto.
    - destruct (mrun_stable _ _ _ _ _ H (ids_astreams_nodup ins 0)) as [Ha Hb].
      intros j inp Hn. destruct (i_recs inp) as [| r0 rs] eqn:E.
      + exists O. pose proof (astreams_notin ins 0 j inp Hn E) as Hnot. simpl in Hnot.
        rewrite (Hb _ Hnot). split; reflexivity.
      + assert (Hne : i_recs inp <> []) by (rewrite E; discriminate).
        pose proof (astreams_in ins 0 j inp Hn Hne) as Hin. simpl in Hin. rewrite E in Hin.
        apply (Ha _ _ _ Hin).
  Qed.

  (** * Sorted mode *)
  Section SortedTop.
    Variable less : rec -> rec -> bool.
    Variable pq : pqops.
    Variable wf : list rdr -> Prop.
    Variable R : rdr -> list rdr -> Prop.
    Variable P : rec -> astate -> Prop.
    Hypothesis PQ : pq_spec (rless less) (pq_init_of pq (rless less)) (pq_push_of pq (rless less))
                            (pq_pop_of pq (rless less)) wf R.
    Hypothesis R_P : forall rd q0 h, R rd q0 -> d_head rd = Some h -> Forall (rd_ok links) q0 -> P h (abs links q0).

    Lemma sorted_mode_run : forall ins,
        ins_ok links 0 ins ->
        exists outs e mf,
          run_merge pq links (Some less) ins = Ok (outs, e, mf) /\
          mrun P (astreams links 0 ins) (efail ins) outs e /\ final_ok e mf.
    Proof.
      intros ins Hok.
      destruct (init_heads_spec links ins 0 false Hok) as [rs [Hinit [Hrs Habs]]].
      destruct (ok_init _ _ _ _ _ _ PQ _ (rless_total links less _ Hrs)) as [q Hq].
      pose proof (bag_init _ _ _ _ _ _ PQ _ _ Hq) as Hperm.
      pose proof (wf_init _ _ _ _ _ _ PQ _ _ (rless_total links less _ Hrs) Hq) as Hwf.
      assert (Hokq : Forall (rd_ok links) q) by (eapply Permutation_Forall; eauto).
      pose proof (abs_perm links _ _ Hperm) as Hpa. rewrite Habs in Hpa.
      assert (Hlen : (length (aflat (abs links q)) < S (total_recs ins))%nat).
      { rewrite <- (Permutation_length (aflat_perm _ _ Hpa)), aflat_astreams, tagged_length. lia. }
      destruct (drain_sorted_gen links less _ _ _ wf R P PQ R_P pq (S (total_recs ins)) q (efail ins)
                                 eq_refl eq_refl Hokq Hwf Hlen) as [outs [e [mf [Hd [Hrun Hf]]]]].
      exists outs, e, mf. split.
      - unfold run_merge, new_merger, new_sorted. rewrite Hinit. cbn [obind orb]. rewrite Hq. cbn [obind].
        rewrite Hd. reflexivity.
      - split; [| exact Hf]. eapply mrun_perm; [apply Permutation_sym; exact Hpa | exact Hrun].
    Qed.
  End SortedTop.

  (** * Concatenation mode *)
  Lemma proj_app : forall x a b, proj x (a ++ b) = proj x a ++ proj x b.
  Proof. intros. unfold proj. now rewrite filter_app, map_app. Qed.

  Lemma proj_pair : forall x i l, proj x (map (pair i) l) = if i =? x then l else [].
  Proof.
    intros x i l. unfold proj. induction l as [| a l IH]; simpl.
    - destruct (i =? x); reflexivity.
    - destruct (i =? x) eqn:E; simpl; [now rewrite IH | exact IH].
  Qed.

  Lemma proj_tagged_lt : forall ins i x, x < i -> proj x (tagged links i ins) = [].
  Proof.
    induction ins as [| inp t IH]; intros i x Hlt; simpl; [reflexivity |].
    rewrite proj_app, proj_pair, IH by lia.
    destruct (i =? x) eqn:E; [apply Z.eqb_eq in E; lia | reflexivity].
  Qed.

  Lemma proj_tagged : forall ins i j inp,
      nth_error ins j = Some inp ->
      proj (i + Z.of_nat j) (tagged links i ins) = map (relink links (i + Z.of_nat j)) (i_recs inp).
  Proof.
    induction ins as [| a t IH]; intros i j inp Hn; [destruct j; discriminate |].
    destruct j as [| j]; simpl in Hn.
    - inversion Hn; subst. simpl. rewrite Z.add_0_r.
      rewrite proj_app, proj_pair, Z.eqb_refl, proj_tagged_lt by lia. now rewrite app_nil_r.
    - replace (i + Z.of_nat (S j)) with ((i + 1) + Z.of_nat j) by lia. cbn [tagged].
      rewrite proj_app, proj_pair, (IH _ _ _ Hn).
      destruct (i =? i + 1 + Z.of_nat j) eqn:E; [apply Z.eqb_eq in E; lia | reflexivity].
  Qed.

  Lemma prefix_firstn : forall (A : Type) (a b l : list A), a ++ b = l -> a = firstn (length a) l.
  Proof. intros A a b l <-. rewrite firstn_app, Nat.sub_diag, firstn_all. simpl. now rewrite app_nil_r. Qed.

  Lemma cat_readers_ok : forall ins i, ins_ok links i ins -> cat_ok links (cat_readers i ins).
  Proof.
    induction ins as [| inp t IH]; intros i H; simpl; [constructor |].
    destruct H as [H1 H2]. constructor; [exact H1 | now apply IH].
  Qed.

  Lemma cat_readers_size : forall ins i, cat_size (cat_readers i ins) = total_recs ins.
  Proof.
    unfold cat_size, total_recs. induction ins as [| inp t IH]; intros i; simpl; [reflexivity |].
    rewrite !app_length, IH. reflexivity.
  Qed.

  (** concatenation: the inputs in order, cut after the first failing input *)
  Lemma cat_out_prefix : forall ins i,
      exists rest,
        tagged links i ins = fst (cat_out links (cat_readers i ins)) ++ rest /\
        (snd (cat_out links (cat_readers i ins)) = 0 -> rest = []) /\
        snd (cat_out links (cat_readers i ins)) = (if existsb i_fail ins then 1 else 0).
  Proof.
    induction ins as [| inp t IH]; intros i; simpl.
    - exists []. repeat split; reflexivity.
    - destruct (i_fail inp) eqn:Ef; simpl.
      + exists (tagged links (i + 1) t). repeat split; [discriminate].
      + destruct (IH (i + 1)) as [rest [H1 [H2 H3]]].
        destruct (cat_out links (cat_readers (i + 1) t)) as [o e]. simpl in *.
        exists rest. rewrite H1, app_assoc. repeat split; assumption.
  Qed.

  Lemma cat_mode_run : forall pq ins,
      ins_ok links 0 ins ->
      exists outs e mf,
        run_merge pq links None ins = Ok (outs, e, mf) /\
        merge_result ins outs e /\ final_ok e mf /\
        (exists rest, tagged links 0 ins = outs ++ rest).
  Proof.
    intros pq ins Hok.
    assert (Hn : (cat_size (cat_readers 0 ins) < S (total_recs ins))%nat) by (rewrite cat_readers_size; lia).
    destruct (drain_cat links pq _ _ (cat_readers_ok ins 0 Hok) Hn) as [mf [Hd Hf]].
    destruct (cat_out_prefix ins 0) as [rest [H1 [H2 H3]]].
    exists (fst (cat_out links (cat_readers 0 ins))), (snd (cat_out links (cat_readers 0 ins))), mf.
    split; [unfold run_merge, new_merger, new_cat; cbn [obind]; rewrite Hd; reflexivity |].
    split; [| split; [exact Hf | exists rest; exact H1]].
    split; [exact H3 | split].
    - exists rest. split; [rewrite H1; apply Permutation_refl | exact H2].
    - intros j inp Hnth.
      pose proof (proj_tagged ins 0 j inp Hnth) as Hp. simpl in Hp.
      rewrite H1, proj_app in Hp.
      exists (length (proj (Z.of_nat j) (fst (cat_out links (cat_readers 0 ins))))).
      split; [eapply prefix_firstn; eauto |].
      intros He. rewrite (H2 He) in Hp. simpl in Hp. now rewrite app_nil_r in Hp.
  Qed.
End Top.

(** * Ordered output *)
Section SortedOut.
  Variable links : option (list (list Z)).
  Variable le : rec -> rec -> Prop.
  Hypothesis le_trans : forall a b c, le a b -> le b c -> le a c.

  Definition leR (a b : rdr) : Prop :=
    match d_head a, d_head b with Some x, Some y => le x y | _, _ => True end.

  Fixpoint ins_sorted (i : Z) (ins : list input) : Prop :=
    match ins with
    | [] => True
    | inp :: t => StronglySorted le (map (relink links i) (i_recs inp)) /\ ins_sorted (i + 1) t
    end.

  Lemma astreams_sorted : forall ins i, ins_sorted i ins -> streams_sorted le (astreams links i ins).
  Proof.
    induction ins as [| inp t IH]; intros i H; simpl; [constructor |].
    destruct H as [H1 H2]. destruct (i_recs inp) eqn:E; [now apply IH |].
    constructor; [exact H1 | now apply IH].
  Qed.

  Lemma min_head_min : forall rd q0 h,
      Forall (leR rd) q0 -> d_head rd = Some h -> Forall (rd_ok links) q0 -> head_min le h (abs links q0).
  Proof.
    intros rd q0 h HF Hh Hok. unfold head_min, abs. rewrite Forall_map.
    rewrite Forall_forall in *. intros r Hr. specialize (HF r Hr). specialize (Hok r Hr).
    unfold leR in HF. rewrite Hh in HF. destruct Hok as [Hhd _].
    unfold abs1, s_recs, pend. simpl. destruct (d_head r); [exact HF | exact I].
  Qed.

  Lemma sorted_mode_sorted : forall less pq wf ins,
      pq_spec (rless less) (pq_init_of pq (rless less)) (pq_push_of pq (rless less))
              (pq_pop_of pq (rless less)) wf (fun x q' => Forall (leR x) q') ->
      ins_ok links 0 ins -> ins_sorted 0 ins ->
      exists outs e mf,
        run_merge pq links (Some less) ins = Ok (outs, e, mf) /\
        merge_result links ins outs e /\ final_ok e mf /\
        StronglySorted le (map snd outs).
  Proof.
    intros less pq wf ins PQ Hok Hs.
    destruct (sorted_mode_run links less pq wf _ (head_min le) PQ min_head_min ins Hok)
      as [outs [e [mf [Hr [Hrun Hf]]]]].
    exists outs, e, mf. split; [exact Hr |]. split; [eapply mrun_result; eauto |].
    split; [exact Hf |].
    eapply mrun_sorted; eauto. now apply astreams_sorted.
  Qed.
End SortedOut.
