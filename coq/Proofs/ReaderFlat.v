(** C02 — the reader on block values refines the flat reader. *)
From Coq Require Import ZArith List Bool Lia.
From Hts Require Import Base.Prim Model.Flat Model.Reader Proofs.FlatLemmas.
Import ListNotations.
Open Scope Z_scope.

Ltac Zify.zify_post_hook ::= Z.div_mod_to_equations.

(** ---- fetch *)

Lemma find_member_split (pre : file) (m : member) (post : file) (off : Z) :
  Forall (fun x => m_base x <> off) pre -> m_base m = off ->
  find_member (pre ++ m :: post) off = Some m.
Proof.
  intros Hp Hm. unfold find_member. induction Hp as [|x pre Hx _ IH]; simpl.
  - destruct (Z.eqb_spec (m_base m) off); [reflexivity|contradiction].
  - destruct (Z.eqb_spec (m_base x) off); [contradiction|exact IH].
Qed.

Lemma find_member_none (F : file) (off : Z) :
  Forall (fun x => m_base x <> off) F -> find_member F off = None.
Proof.
  unfold find_member. induction 1 as [|x F Hx _ IH]; simpl; [reflexivity|].
  destruct (Z.eqb_spec (m_base x) off); [contradiction|exact IH].
Qed.

Lemma fetch_at {F pre m post} : split_at F pre m post -> fetch F (m_base m) = FOk m.
Proof.
  intros S. unfold fetch. pose proof (split_base_nonneg S).
  destruct (Z.ltb_spec (m_base m) 0); [lia|].
  pose proof (split_pre_lt S) as P. destruct S as [-> _].
  rewrite find_member_split; [reflexivity| |reflexivity].
  eapply Forall_impl; [|exact P]. simpl. intros; lia.
Qed.

Lemma fetch_end (F : file) (off : Z) : wf_file F = true -> fsize F <= off -> fetch F off = FEOF.
Proof.
  intros W H. unfold fetch.
  assert (0 <= fsize F) by (apply (fsize_from_ge 0 F W)).
  destruct (Z.ltb_spec off 0); [lia|].
  rewrite find_member_none.
  - destruct (Z.leb_spec (fsize F) off); [reflexivity|lia].
  - apply wf_from_bases_lt in W. eapply Forall_impl; [|exact W]. simpl. unfold fsize in H. intros; lia.
Qed.

Definition blk_of (m : member) (p : Z) (used : bool) : block :=
  mkB (m_base m) (m_size m) (m_data m) p (u16 p) true used.

Definition blk_eof (off : Z) : block := mkB off (-1) [] 0 0 false false.

Lemma fill_at {F pre m post} (b : block) :
  split_at F pre m post -> b_fill F b (m_base m) = (blk_of m 0 (b_used b), eNil).
Proof. intros S. unfold b_fill. rewrite (fetch_at S). reflexivity. Qed.

Lemma fill_end (F : file) (b : block) (off : Z) :
  wf_file F = true -> fsize F <= off -> b_fill F b off = (blk_eof off, eEOF).
Proof. intros W H. unfold b_fill. rewrite (fetch_end F off W H). reflexivity. Qed.

(** ---- the current block sits on member [m] at position [p] *)

Definition on_member (b : block) (m : member) : Prop :=
  b_base b = m_base m /\ b_hsize b = m_size m /\ b_data b = m_data m /\ b_has b = true /\
  0 <= b_pos b <= m_len m /\ b_oblk b = u16 (b_pos b).

Lemma on_member_blk_of (m : member) (p : Z) (u : bool) : 0 <= p <= m_len m -> on_member (blk_of m p u) m.
Proof. intros. unfold on_member, blk_of; simpl. auto 10. Qed.

Lemma on_member_len {b m} : on_member b m -> b_len b = m_len m - b_pos b.
Proof.
  intros (_ & _ & Hd & Hh & Hp & _). unfold b_len. rewrite Hh, Hd. fold (m_len m).
  destruct (Z.leb_spec (m_len m) (b_pos b)); lia.
Qed.

Lemma on_member_next {F pre m post b} : split_at F pre m post -> on_member b m -> b_next b = m_base m + m_size m.
Proof.
  intros S (Hb & Hs & _). unfold b_next. rewrite Hs, Hb. pose proof (split_size_pos S).
  destruct (Z.eqb_spec (m_size m) (-1)); [lia|reflexivity].
Qed.

(** Reading from the block. *)
Lemma b_read_end {b m} (r : Z) : on_member b m -> b_pos b = m_len m -> b_read b r = (b, [], eEOF).
Proof.
  intros (_ & _ & Hd & _ & Hp & _) E. unfold b_read. rewrite Hd. fold (m_len m).
  destruct (Z.leb_spec (m_len m) (b_pos b)); [reflexivity|lia].
Qed.

Lemma b_read_some {b m} (r : Z) :
  on_member b m -> b_pos b < m_len m -> 0 < r ->
  let k := Z.min r (m_len m - b_pos b) in
  exists b', b_read b r = (b', ztake k (zdrop (b_pos b) (m_data m)), eNil) /\
             on_member b' m /\ b_pos b' = b_pos b + k.
Proof.
  intros (Hb & Hs & Hd & Hh & Hp & Ho) Hlt Hr k. unfold b_read. rewrite Hd. fold (m_len m).
  destruct (Z.leb_spec (m_len m) (b_pos b)); [lia|].
  fold k. eexists. split; [reflexivity|]. split; [|reflexivity].
  unfold on_member; simpl. repeat split; try assumption; try lia.
  rewrite Ho. apply u16_add_u16.
Qed.

Lemma b_readbyte_some {b m} :
  on_member b m -> b_pos b < m_len m ->
  exists b', b_readbyte b = (b', ztake 1 (zdrop (b_pos b) (m_data m)), eNil) /\
             on_member b' m /\ b_pos b' = b_pos b + 1.
Proof.
  intros (Hb & Hs & Hd & Hh & Hp & Ho) Hlt. unfold b_readbyte. rewrite Hd. fold (m_len m).
  destruct (Z.leb_spec (m_len m) (b_pos b)); [lia|].
  eexists. split; [reflexivity|]. split; [|reflexivity].
  unfold on_member; simpl. repeat split; try assumption; try lia.
  rewrite Ho. replace 1 with (u16 1) at 1 by reflexivity. apply u16_add_u16.
Qed.

(** ---- nextBlock *)

Lemma v_nextBlock_next {F pre m m' post} (s : vstate) :
  split_at F pre m (m' :: post) -> on_member (v_cur s) m ->
  v_nextBlock F s = (set_cur s (blk_of m' 0 (b_used (v_cur s))), eNil).
Proof.
  intros S On. unfold v_nextBlock. rewrite (on_member_next S On).
  rewrite <- (split_next_base S). rewrite (fill_at _ (split_next S)). reflexivity.
Qed.

Lemma v_nextBlock_end {F pre m} (s : vstate) :
  split_at F pre m [] -> on_member (v_cur s) m ->
  v_nextBlock F s = (set_cur s (blk_eof (fsize F)), eEOF).
Proof.
  intros S On. unfold v_nextBlock. rewrite (on_member_next S On).
  assert (E : fsize F = m_base m + m_size m) by (rewrite (split_fsize S); reflexivity).
  rewrite <- E. rewrite fill_end; [reflexivity|apply S|lia].
Qed.

(** ---- outcome of the loops, in terms of the flat position *)

(** [s'] is on some member at flat position [q], with error state nil. *)
Definition at_pos (F : file) (s : vstate) (q : Z) : Prop :=
  v_err s = eNil /\ exists pre m post, split_at F pre m post /\ on_member (v_cur s) m /\ q = total pre + b_pos (v_cur s).

(** [s'] is in the end-of-file state. *)
Definition at_eof (F : file) (s : vstate) : Prop :=
  v_err s = eEOF /\ v_cur s = blk_eof (fsize F).

Definition same_misc (s s' : vstate) : Prop := v_lc s' = v_lc s /\ v_blocked s' = v_blocked s.

Lemma skip_spec (F : file) : forall post pre m s fuel,
  split_at F pre m post -> on_member (v_cur s) m -> v_err s = eNil -> (length post < fuel)%nat ->
  exists s' e, v_skip F fuel s = Ok (s', e) /\ same_misc s s' /\
    ((e = eNil /\ v_err s' = eNil /\ exists pre' m' post', split_at F pre' m' post' /\ on_member (v_cur s') m' /\
        b_pos (v_cur s') < m_len m' /\ total pre' + b_pos (v_cur s') = total pre + b_pos (v_cur s) /\
        (m_base m <= m_base m' /\ (b_pos (v_cur s) < m_len m -> s' = s) /\
         (b_pos (v_cur s) = m_len m -> m_base m < m_base m' /\ b_pos (v_cur s') = 0 /\ fst (v_lc s') = fst (v_lc s))))
     \/ (e = eEOF /\ at_eof F s' /\ total pre + b_pos (v_cur s) = total F)).
Proof.
  induction post as [|m' post IH]; intros pre m s fuel S On He Hf.
  - destruct fuel as [|fuel]; [simpl in Hf; lia|].
    pose proof (on_member_len On) as HL. pose proof On as (Hb & Hs & Hd & Hh & Hp & Ho).
    simpl. destruct (Z.eqb_spec (b_len (v_cur s)) 0) as [E0|E0].
    + rewrite (v_nextBlock_end s S On). simpl.
      eexists _, _. split; [reflexivity|]. split; [split; reflexivity|]. right.
      split; [reflexivity|]. split; [split; reflexivity|].
      destruct S as [-> _]. rewrite total_app, total_cons, total_nil. lia.
    + eexists _, _. split; [reflexivity|]. split; [split; reflexivity|]. left.
      split; [reflexivity|]. split; [assumption|]. exists pre, m, []. split; [exact S|]. split; [exact On|].
      rewrite HL in E0. split; [lia|]. split; [lia|]. split; [lia|]. split; [reflexivity|]. lia.
  - destruct fuel as [|fuel]; [simpl in Hf; lia|].
    pose proof (on_member_len On) as HL.
    simpl. destruct (Z.eqb_spec (b_len (v_cur s)) 0) as [E0|E0].
    + rewrite (v_nextBlock_next s S On). simpl.
      specialize (IH (pre ++ [m]) m' (set_cur s (blk_of m' 0 (b_used (v_cur s)))) fuel (split_next S)).
      destruct IH as (s' & e & Hr & Hm & Hcase).
      * simpl. apply on_member_blk_of. pose proof (m_len_nonneg m'). lia.
      * simpl. exact He.
      * simpl in Hf. lia.
      * exists s', e. split; [exact Hr|]. split; [exact Hm|].
        simpl in Hcase. rewrite total_app, total_cons, total_nil in Hcase.
        destruct Hcase as [(H1 & H2 & pre' & m'' & post' & H3 & H4 & H5 & H6 & H7 & H8 & H9)|(H1 & H2 & H3)].
        -- left. split; [assumption|]. split; [assumption|]. exists pre', m'', post'. split; [exact H3|]. split; [exact H4|]. split; [exact H5|].
           pose proof (split_next_base S) as Hnb. pose proof (split_size_pos S) as Hsp.
           rewrite HL in E0. split; [lia|]. split; [lia|]. split; [lia|]. intros _. split; [lia|].
           destruct (Z.eq_dec (m_len m') 0) as [Hz|Hz].
           ++ destruct (H9 ltac:(simpl; lia)) as (_ & Hp0 & Hlc0). split; [exact Hp0|exact Hlc0].
           ++ assert (Hs' : s' = set_cur s (blk_of m' 0 (b_used (v_cur s)))) by (apply H8; simpl; pose proof (m_len_nonneg m'); lia).
              rewrite Hs'. split; reflexivity.
        -- right. split; [assumption|]. split; [assumption|]. lia.
    + eexists _, _. split; [reflexivity|]. split; [split; reflexivity|]. left.
      split; [reflexivity|]. split; [assumption|]. exists pre, m, (m' :: post).
      pose proof On as (Hb & Hs & Hd & Hh & Hp & Ho).
      split; [exact S|]. split; [exact On|].
      rewrite HL in E0. split; [lia|]. split; [lia|]. split; [lia|]. split; [reflexivity|]. lia.
Qed.

(** ---- the copy loop *)

Definition copy_post (F : file) (s s' : vstate) (q : Z) (short : bool) : Prop :=
  v_blocked s' = v_blocked s /\ fst (v_lc s') = fst (v_lc s) /\ snd (v_lc s') = b_tx (v_cur s') /\
  (if short then at_eof F s' /\ q = total F else at_pos F s' q).

Lemma copy_done (F : file) (n : Z) (s : vstate) (fuel : nat) (acc : list Z) (pre : file) (m : member) (post : file) :
  split_at F pre m post -> on_member (v_cur s) m -> zlen acc = n ->
  exists s', v_copy F fuel s n acc = Ok (s', acc, eNil) /\ copy_post F s s' (total pre + b_pos (v_cur s)) false /\ v_cur s' = v_cur s.
Proof.
  intros S On E. exists (set_end (set_err s eNil) (b_tx (v_cur s))).
  split; [|split; [|reflexivity]].
  - destruct fuel; simpl; destruct (Z.ltb_spec (zlen acc) n); try lia; reflexivity.
  - unfold copy_post. simpl. repeat split. exists pre, m, post. auto.
Qed.

(** One successful block read inside the loop. *)
Lemma copy_step (F : file) (n : Z) (s : vstate) (fuel : nat) (acc : list Z) (m : member) :
  on_member (v_cur s) m -> b_pos (v_cur s) < m_len m -> zlen acc < n ->
  let k1 := Z.min (n - zlen acc) (m_len m - b_pos (v_cur s)) in
  exists b', v_copy F (S fuel) s n acc = v_copy F fuel (set_cur s b') n (acc ++ ztake k1 (zdrop (b_pos (v_cur s)) (m_data m))) /\
             on_member b' m /\ b_pos b' = b_pos (v_cur s) + k1.
Proof.
  intros On Hlt Hr k1.
  destruct (b_read_some (n - zlen acc) On Hlt ltac:(lia)) as (b' & Hrd & On' & Hp').
  exists b'. split; [|split; assumption].
  simpl. destruct (Z.ltb_spec (zlen acc) n); [|lia]. rewrite Hrd. reflexivity.
Qed.

Lemma zlen_zdrop_data (m : member) (p : Z) : 0 <= p <= m_len m -> zlen (zdrop p (m_data m)) = m_len m - p.
Proof. intros. unfold m_len in *. apply zlen_zdrop. lia. Qed.

Lemma copy_aligned (F : file) (n : Z) : forall post pre m s fuel acc,
  split_at F pre m post -> on_member (v_cur s) m -> b_pos (v_cur s) = m_len m -> v_blocked s = false ->
  (2 * length post + 1 <= fuel)%nat -> 0 <= zlen acc <= n ->
  let r := n - zlen acc in
  let k := Z.min r (zlen (flat_data post)) in
  exists s', v_copy F fuel s n acc = Ok (s', acc ++ ztake k (flat_data post), if k <? r then eEOF else eNil) /\
             copy_post F s s' (total pre + m_len m + k) (k <? r).
Proof.
  induction post as [|m' post IH]; intros pre m s fuel acc S On Hal Hbl Hf Hacc r k.
  - (* last member *)
    assert (Hk : k = 0) by (unfold k, flat_data; simpl; rewrite zlen_nil; lia).
    destruct (Z.eq_dec r 0) as [Hr0|Hr0].
    + destruct (copy_done F n s fuel acc pre m [] S On ltac:(lia)) as (s' & Hc & Hp & _).
      exists s'. rewrite Hk. rewrite ztake_0, app_nil_r.
      replace (0 <? r) with false by (symmetry; apply Z.ltb_ge; lia).
      split; [exact Hc|]. rewrite Hal in Hp. replace (total pre + m_len m + 0) with (total pre + m_len m) by lia. exact Hp.
    + destruct fuel as [|fuel]; [lia|].
      simpl. destruct (Z.ltb_spec (zlen acc) n); [|lia].
      rewrite (b_read_end (n - zlen acc) On Hal). simpl.
      rewrite app_nil_r. destruct (Z.eqb_spec (zlen acc) n); [lia|].
      rewrite Hbl.
      assert (On1 : on_member (v_cur (set_cur s (v_cur s))) m) by exact On.
      rewrite (v_nextBlock_end (set_cur s (v_cur s)) S On1). simpl.
      eexists. rewrite Hk, ztake_0, app_nil_r.
      replace (0 <? r) with true by (symmetry; apply Z.ltb_lt; lia).
      split; [reflexivity|].
      unfold copy_post; simpl. repeat split.
      destruct S as [-> _]. rewrite total_app, total_cons, total_nil. lia.
  - unfold k; clear k. rewrite flat_data_cons. set (k := Z.min r (zlen (m_data m' ++ flat_data post))).
    destruct (Z.eq_dec r 0) as [Hr0|Hr0].
    + destruct (copy_done F n s fuel acc pre m (m' :: post) S On ltac:(lia)) as (s' & Hc & Hp & Hcur).
      exists s'. assert (Hk : k = 0) by (unfold k; pose proof (zlen_nonneg (m_data m' ++ flat_data post)); lia).
      rewrite Hk, ztake_0, app_nil_r.
      replace (0 <? r) with false by (symmetry; apply Z.ltb_ge; lia).
      split; [exact Hc|]. rewrite Hal in Hp. replace (total pre + m_len m + 0) with (total pre + m_len m) by lia. exact Hp.
    + destruct fuel as [|fuel]; [simpl in Hf; lia|].
      simpl v_copy. destruct (Z.ltb_spec (zlen acc) n); [|lia].
      rewrite (b_read_end (n - zlen acc) On Hal). cbv beta iota zeta.
      rewrite app_nil_r. change (eEOF =? eEOF) with true. cbv iota.
      destruct (Z.eqb_spec (zlen acc) n); [lia|].
      change (v_blocked (set_cur s (v_cur s))) with (v_blocked s).
      rewrite Hbl.
      assert (On1 : on_member (v_cur (set_cur s (v_cur s))) m) by exact On.
      rewrite (v_nextBlock_next (set_cur s (v_cur s)) S On1). change (eNil =? eNil) with true. cbv iota.
      set (s2 := set_cur (set_cur s (v_cur s)) (blk_of m' 0 (b_used (v_cur (set_cur s (v_cur s)))))).
      assert (On2 : on_member (v_cur s2) m') by (apply on_member_blk_of; pose proof (m_len_nonneg m'); lia).
      assert (S2 := split_next S).
      assert (Hp2 : b_pos (v_cur s2) = 0) by reflexivity.
      assert (Hb2 : v_blocked s2 = false) by exact Hbl.
      destruct (Z.eq_dec (m_len m') 0) as [Hl0|Hl0].
      * (* empty member: already aligned *)
        destruct (IH (pre ++ [m]) m' s2 fuel acc S2 On2 ltac:(lia) Hb2 ltac:(simpl in Hf; lia) Hacc) as (s' & Hc & Hp).
        exists s'. 
        assert (Hd0 : m_data m' = []) by (apply zlen_zero_nil; exact Hl0).
        unfold k. rewrite Hd0. simpl app.
        split; [exact Hc|].
        unfold copy_post in *. simpl in Hp. rewrite total_app, total_cons, total_nil, Hl0 in Hp.
        replace (total pre + m_len m + Z.min r (zlen (flat_data post))) with (total pre + (m_len m + 0) + 0 + Z.min (n - zlen acc) (zlen (flat_data post))) by (unfold r; lia).
        exact Hp.
      * (* read from m', then aligned or done *)
        destruct fuel as [|fuel]; [simpl in Hf; lia|].
        destruct (copy_step F n s2 fuel acc m' On2 ltac:(pose proof (m_len_nonneg m'); lia) ltac:(lia)) as (b' & Hst & On3 & Hp3).
        rewrite Hst. rewrite Hp2 in *. rewrite zdrop_0 in *. 
        set (k1 := Z.min (n - zlen acc) (m_len m' - 0)) in *.
        set (s3 := set_cur s2 b').
        assert (Hk1 : 0 < k1) by (unfold k1; pose proof (m_len_nonneg m'); lia).
        assert (Hz1 : zlen (ztake k1 (m_data m')) = k1) by (apply ztake_zlen; pose proof (zlen_nonneg (m_data m')); unfold k1, m_len in *; lia).
        destruct (Z.eq_dec k1 r) as [Hfull|Hpart].
        -- (* the request is satisfied inside m' *)
           destruct (copy_done F n s3 fuel (acc ++ ztake k1 (m_data m')) (pre ++ [m]) m' post S2 On3
                       ltac:(rewrite zlen_app, Hz1; unfold r in Hfull; lia)) as (s' & Hc & Hp & Hcur).
           exists s'. 
           assert (Hk : k = r) by (unfold k; rewrite zlen_app; pose proof (zlen_nonneg (flat_data post)); unfold k1, m_len in *; lia).
           rewrite Hk. replace (r <? r) with false by (symmetry; apply Z.ltb_ge; lia).
           rewrite ztake_app_le by (unfold k1, m_len in *; lia).
           rewrite <- Hfull. split; [exact Hc|].
           unfold copy_post in *. simpl in Hp. simpl. rewrite total_app, total_cons, total_nil in Hp.
           rewrite Hp3 in Hp.
           replace (total pre + m_len m + k1) with (total pre + (m_len m + 0) + (0 + k1)) by lia. exact Hp.
        -- (* m' is exhausted *)
           assert (Hk1' : k1 = m_len m') by (unfold k1 in *; unfold r in Hpart; lia).
           assert (Hal3 : b_pos (v_cur s3) = m_len m') by (simpl; lia).
           destruct (IH (pre ++ [m]) m' s3 fuel (acc ++ ztake k1 (m_data m')) S2 On3 Hal3 Hb2 ltac:(simpl in Hf; lia)
                        ltac:(rewrite zlen_app, Hz1; unfold k1; lia)) as (s' & Hc & Hp).
           exists s'.
           rewrite zlen_app, Hz1 in Hc, Hp.
           assert (Hk : k = k1 + Z.min (n - (zlen acc + k1)) (zlen (flat_data post))).
           { unfold k. rewrite zlen_app. fold (m_len m'). unfold r. lia. }
           pose proof (zlen_nonneg (flat_data post)) as Hnn.
           assert (Hrk : k1 < r) by (unfold k1, r in *; lia).
           rewrite Hk. rewrite ztake_app_ge by (fold (m_len m'); unfold r in Hrk; lia).
           fold (m_len m'). replace (k1 + Z.min (n - (zlen acc + k1)) (zlen (flat_data post)) - m_len m') with (Z.min (n - (zlen acc + k1)) (zlen (flat_data post))) by lia.
           rewrite (ztake_all k1 (m_data m')) in Hc |- * by (fold (m_len m'); lia).
           rewrite <- app_assoc in Hc.
           replace (k1 + Z.min (n - (zlen acc + k1)) (zlen (flat_data post)) <? r) with (Z.min (n - (zlen acc + k1)) (zlen (flat_data post)) <? n - (zlen acc + k1)).
           2:{ unfold r. destruct (Z.ltb_spec (Z.min (n - (zlen acc + k1)) (zlen (flat_data post))) (n - (zlen acc + k1)));
               destruct (Z.ltb_spec (k1 + Z.min (n - (zlen acc + k1)) (zlen (flat_data post))) (n - zlen acc)); try reflexivity; lia. }
           split; [exact Hc|].
           unfold copy_post in *. simpl in Hp. simpl. rewrite total_app, total_cons, total_nil in Hp.
           replace (total pre + m_len m + (k1 + Z.min (n - (zlen acc + k1)) (zlen (flat_data post))))
             with (total pre + (m_len m + 0) + m_len m' + Z.min (n - (zlen acc + k1)) (zlen (flat_data post))) by lia.
           exact Hp.
Qed.

(** The copy loop from an arbitrary position, not Blocked. *)
Lemma copy_unblocked (F : file) (n : Z) (pre : file) (m : member) (post : file) (s : vstate) (fuel : nat) :
  split_at F pre m post -> on_member (v_cur s) m -> v_blocked s = false ->
  (2 * length post + 2 <= fuel)%nat -> 0 <= n ->
  let p := b_pos (v_cur s) in
  let rest := zdrop p (m_data m) ++ flat_data post in
  let k := Z.min n (zlen rest) in
  exists s', v_copy F fuel s n [] = Ok (s', ztake k rest, if k <? n then eEOF else eNil) /\
             copy_post F s s' (total pre + p + k) (k <? n).
Proof.
  intros S On Hbl Hf Hn p rest k.
  pose proof On as (_ & _ & _ & _ & Hp & _). fold p in Hp.
  pose proof (zlen_nonneg (flat_data post)) as Hnn.
  assert (Hzr : zlen rest = m_len m - p + zlen (flat_data post)).
  { unfold rest. rewrite zlen_app, zlen_zdrop_data by lia. reflexivity. }
  assert (Hz0 : 0 <= zlen (@nil Z) <= n) by (unfold zlen; simpl; lia).
  assert (Hfa : (2 * length post + 1 <= fuel)%nat) by lia.
  destruct (Z.eq_dec p (m_len m)) as [Hal|Hnal].
  - (* aligned *)
    destruct (copy_aligned F n post pre m s fuel [] S On Hal Hbl Hfa Hz0) as (s' & Hc & Hpost).
    rewrite zlen_nil, Z.sub_0_r in Hc, Hpost. simpl app in Hc.
    assert (Hr : rest = flat_data post).
    { unfold rest. rewrite zdrop_all by (unfold m_len in *; lia). reflexivity. }
    exists s'. unfold k. rewrite Hr. split; [exact Hc|]. rewrite Hal. exact Hpost.
  - destruct (Z.eq_dec n 0) as [Hn0|Hn0].
    + destruct (copy_done F n s fuel [] pre m post S On ltac:(rewrite zlen_nil; lia)) as (s' & Hc & Hpost & Hcur).
      exists s'. assert (Hk : k = 0) by (unfold k; lia). rewrite Hk, ztake_0.
      replace (0 <? n) with false by (symmetry; apply Z.ltb_ge; lia).
      split; [exact Hc|]. fold p in Hpost. replace (total pre + p + 0) with (total pre + p) by lia. exact Hpost.
    + destruct fuel as [|fuel]; [lia|].
      destruct (copy_step F n s fuel [] m On ltac:(fold p; lia) ltac:(rewrite zlen_nil; lia)) as (b' & Hst & On' & Hp').
      rewrite zlen_nil, Z.sub_0_r in Hst, Hp'. fold p in Hst, Hp'. simpl app in Hst.
      set (k1 := Z.min n (m_len m - p)) in *.
      assert (Hz1 : zlen (ztake k1 (zdrop p (m_data m))) = k1).
      { apply ztake_zlen. rewrite zlen_zdrop_data by lia. unfold k1. lia. }
      rewrite Hst. set (s1 := set_cur s b').
      destruct (Z.eq_dec k1 n) as [Hfull|Hpart].
      * destruct (copy_done F n s1 fuel (ztake k1 (zdrop p (m_data m))) pre m post S On' ltac:(lia)) as (s' & Hc & Hpost & Hcur).
        exists s'. assert (Hk : k = n) by (unfold k, k1 in *; lia).
        rewrite Hk. replace (n <? n) with false by (symmetry; apply Z.ltb_ge; lia).
        unfold rest. rewrite ztake_app_le by (rewrite zlen_zdrop_data by lia; unfold k1 in *; lia).
        clearbody k1. subst k1. split; [exact Hc|].
        unfold copy_post in *. simpl in Hpost. simpl. rewrite Hp' in Hpost. rewrite Z.add_assoc in Hpost. exact Hpost.
      * assert (Hk1 : k1 = m_len m - p) by (unfold k1 in *; lia).
        assert (Hal1 : b_pos (v_cur s1) = m_len m) by (simpl; lia).
        destruct (copy_aligned F n post pre m s1 fuel (ztake k1 (zdrop p (m_data m))) S On' Hal1 Hbl ltac:(lia) ltac:(lia)) as (s' & Hc & Hpost).
        rewrite Hz1 in Hc, Hpost.
        exists s'.
        assert (Hk : k = k1 + Z.min (n - k1) (zlen (flat_data post))) by (unfold k; lia).
        rewrite Hk. unfold rest.
        rewrite ztake_app_ge by (rewrite zlen_zdrop_data by lia; lia).
        rewrite zlen_zdrop_data by lia.
        replace (k1 + Z.min (n - k1) (zlen (flat_data post)) - (m_len m - p)) with (Z.min (n - k1) (zlen (flat_data post))) by lia.
        rewrite (ztake_all k1) in Hc |- * by (rewrite zlen_zdrop_data by lia; lia).
        replace (k1 + Z.min (n - k1) (zlen (flat_data post)) <? n) with (Z.min (n - k1) (zlen (flat_data post)) <? n - k1).
        2:{ destruct (Z.ltb_spec (Z.min (n - k1) (zlen (flat_data post))) (n - k1));
            destruct (Z.ltb_spec (k1 + Z.min (n - k1) (zlen (flat_data post))) n); try reflexivity; lia. }
        split; [exact Hc|].
        unfold copy_post in *. simpl in Hpost. simpl.
        replace (total pre + p + (k1 + Z.min (n - k1) (zlen (flat_data post)))) with (total pre + m_len m + Z.min (n - k1) (zlen (flat_data post))) by lia.
        exact Hpost.
Qed.

(** The copy loop in Blocked mode: it stops at the end of the current block. *)
Lemma copy_blocked (F : file) (n : Z) (pre : file) (m : member) (post : file) (s : vstate) (fuel : nat) :
  split_at F pre m post -> on_member (v_cur s) m -> v_blocked s = true -> b_pos (v_cur s) < m_len m ->
  (2 <= fuel)%nat -> 0 <= n ->
  let p := b_pos (v_cur s) in
  let k := Z.min n (m_len m - p) in
  exists s', v_copy F fuel s n [] = Ok (s', ztake k (zdrop p (m_data m)), if k <? n then eEOF else eNil) /\
             copy_post F s s' (total pre + p + k) false /\ on_member (v_cur s') m /\ b_pos (v_cur s') = p + k.
Proof.
  intros S On Hbl Hlt Hf Hn p k.
  pose proof On as (_ & _ & _ & _ & Hp & _). fold p in Hp, Hlt.
  destruct (Z.eq_dec n 0) as [Hn0|Hn0].
  - destruct (copy_done F n s fuel [] pre m post S On ltac:(rewrite zlen_nil; lia)) as (s' & Hc & Hpost & Hcur).
    exists s'. assert (Hk : k = 0) by (unfold k; lia). rewrite Hk, ztake_0.
    replace (0 <? n) with false by (symmetry; apply Z.ltb_ge; lia).
    split; [exact Hc|]. fold p in Hpost. replace (total pre + p + 0) with (total pre + p) by lia.
    split; [exact Hpost|]. rewrite Hcur. split; [exact On|]. fold p. lia.
  - destruct fuel as [|fuel]; [lia|].
    destruct (copy_step F n s fuel [] m On ltac:(fold p; lia) ltac:(rewrite zlen_nil; lia)) as (b' & Hst & On' & Hp').
    rewrite zlen_nil, Z.sub_0_r in Hst, Hp'. fold p in Hst, Hp'. simpl app in Hst. fold k in Hst, Hp'.
    assert (Hz1 : zlen (ztake k (zdrop p (m_data m))) = k).
    { apply ztake_zlen. rewrite zlen_zdrop_data by lia. unfold k. lia. }
    rewrite Hst. set (s1 := set_cur s b').
    destruct (Z.eq_dec k n) as [Hfull|Hpart].
    + destruct (copy_done F n s1 fuel (ztake k (zdrop p (m_data m))) pre m post S On' ltac:(lia)) as (s' & Hc & Hpost & Hcur).
      exists s'. replace (k <? n) with false by (symmetry; apply Z.ltb_ge; lia).
      split; [exact Hc|]. split; [unfold copy_post in *; simpl in Hpost; simpl; rewrite Hp' in Hpost; rewrite Z.add_assoc in Hpost; exact Hpost|].
      rewrite Hcur. simpl. split; [exact On'|exact Hp'].
    + assert (Hk1 : k = m_len m - p) by (unfold k in *; lia).
      destruct fuel as [|fuel]; [lia|].
      replace (k <? n) with true by (symmetry; apply Z.ltb_lt; unfold k in *; lia).
      simpl v_copy. rewrite Hz1.
      destruct (Z.ltb_spec k n); [|unfold k in *; lia].
      assert (Hal1 : b_pos b' = m_len m) by lia.
      rewrite (b_read_end (n - k) On' Hal1). cbv beta iota zeta.
      change (eEOF =? eEOF) with true. cbv iota. rewrite app_nil_r, Hz1.
      destruct (Z.eqb_spec k n); [lia|].
      change (v_blocked (set_cur s b')) with (v_blocked s). rewrite Hbl.
      eexists. split; [reflexivity|]. split.
      { unfold copy_post; simpl. split; [reflexivity|]. split; [reflexivity|]. split; [reflexivity|]. split; [reflexivity|].
        exists pre, m, post. split; [exact S|]. split; [exact On'|]. simpl. lia. }
      simpl. split; [exact On'|exact Hp'].
Qed.

(** ---- translation of the offsets the reader reports *)

Lemma addressable_len {F pre m post} : split_at F pre m post -> addressable F = true -> m_len m <= 65535.
Proof.
  intros [-> _] H. unfold addressable in H. rewrite forallb_forall in H.
  specialize (H m ltac:(apply in_or_app; right; left; reflexivity)). lia.
Qed.

Lemma tr_on_member {F pre m post b} :
  split_at F pre m post -> on_member b m -> b_pos b <= 65535 -> tr F (b_tx b) = total pre + b_pos b.
Proof.
  intros S (Hb & _ & _ & _ & Hp & Ho) Hle. unfold tr, b_tx. simpl. rewrite Hb, Ho, (split_before S).
  rewrite u16_small by lia. reflexivity.
Qed.

Lemma valid_on_member {F pre m post b} :
  split_at F pre m post -> on_member b m -> b_pos b <= 65535 -> valid_off F (fst (b_tx b)) (snd (b_tx b)) = true.
Proof.
  intros S (Hb & _ & _ & _ & Hp & Ho) Hle. unfold valid_off, b_tx. simpl. apply existsb_exists.
  exists m. split; [destruct S as [-> _]; apply in_or_app; right; left; reflexivity|].
  rewrite Hb, Ho, u16_small by lia. rewrite Z.eqb_refl. simpl.
  repeat rewrite andb_true_iff. repeat split; apply Z.leb_le; lia.
Qed.

Lemma tr_eof (F : file) : wf_file F = true -> tr F (b_tx (blk_eof (fsize F))) = total F.
Proof. intros W. unfold tr, b_tx, blk_eof. simpl. rewrite (before_fsize F W). lia. Qed.

(** ---- the simulation relation *)

Record sim (F : file) (s : vstate) (f : fstate) : Prop := {
  sim_blocked : v_blocked s = f_blocked f;
  sim_begin : tr F (fst (v_lc s)) = fst (f_chunk f);
  sim_begin_valid : valid_off F (fst (fst (v_lc s))) (snd (fst (v_lc s))) = true;
  sim_end : addressable F = true -> tr F (snd (v_lc s)) = snd (f_chunk f);
  sim_state : (f_eof f = false /\ at_pos F s (f_pos f)) \/ (f_eof f = true /\ at_eof F s) }.

Lemma split_length {F pre m post} : split_at F pre m post -> (length post < length F)%nat.
Proof. intros [-> _]. rewrite app_length. simpl. lia. Qed.

Lemma split_total {F pre m post} : split_at F pre m post -> total F = total pre + m_len m + total post.
Proof. intros [-> _]. rewrite total_app, total_cons. lia. Qed.

(** What a successful copy leaves, as a simulation. *)
Lemma sim_after_copy (F : file) (s1 s' : vstate) (f : fstate) (pre : file) (m : member) (post : file) (k : Z) (short : bool) :
  wf_file F = true ->
  split_at F pre m post -> on_member (v_cur s1) m -> b_pos (v_cur s1) < m_len m ->
  v_blocked s1 = f_blocked f ->
  copy_post F (set_begin s1 (b_tx (v_cur s1))) s' (total pre + b_pos (v_cur s1) + k) short ->
  sim F s' (mkF (total pre + b_pos (v_cur s1) + k) short (f_blocked f)
                (total pre + b_pos (v_cur s1), total pre + b_pos (v_cur s1) + k)).
Proof.
  intros W S On Hlt Hbl (Hb & Hfst & Hsnd & Hst).
  pose proof (split_len_le S) as Hle.
  simpl in Hb, Hfst.
  constructor; simpl.
  - rewrite Hb. exact Hbl.
  - rewrite Hfst. simpl. apply (tr_on_member S On). lia.
  - rewrite Hfst. simpl. apply (valid_on_member S On). lia.
  - intros Ha. rewrite Hsnd. destruct short.
    + destruct Hst as [[_ Hc] Hq]. rewrite Hc, (tr_eof F W). lia.
    + destruct Hst as (_ & pre' & m' & post' & S' & On' & Hq).
      rewrite (tr_on_member S' On'); [lia|].
      pose proof (addressable_len S' Ha). pose proof On' as (_ & _ & _ & _ & Hp' & _). lia.
  - destruct short; [right|left]; split; try reflexivity; tauto.
Qed.

Lemma read_sim (F : file) (s : vstate) (f : fstate) (n : Z) :
  wf_file F = true -> sim F s f -> 0 <= n ->
  exists s' f' bs e, v_read F s n = Ok (s', bs, e) /\ flat_read F f n = (f', (bs, e)) /\ sim F s' f'.
Proof.
  intros W [Hbl Hbg Hbv Hen Hst] Hn.
  destruct Hst as [[Hfe (He & pre & m & post & S & On & Hq)]|[Hfe [He Hc]]].
  2:{ (* already at the end *)
      exists s, f, [], eEOF. unfold v_read, flat_read. rewrite He, Hfe. simpl.
      split; [reflexivity|]. split; [reflexivity|].
      constructor; auto. right. split; [assumption|split; assumption]. }
  unfold v_read. rewrite He. simpl negb. cbv iota.
  destruct (skip_spec F post pre m s (Datatypes.S (length F)) S On He ltac:(pose proof (split_length S); lia))
    as (s1 & e1 & Hsk & [Hlc1 Hbl1] & Hcase).
  rewrite Hsk.
  destruct Hcase as [(-> & He1 & pre' & m' & post' & S' & On' & Hlt' & Hq' & _)|(-> & [He1 Hc1] & Hq')].
  2:{ (* nothing left: end of data *)
      simpl. unfold flat_read. rewrite Hfe.
      replace (total F - f_pos f =? 0) with true by (symmetry; apply Z.eqb_eq; lia).
      eexists _, _, _, _. split; [reflexivity|]. split; [reflexivity|].
      constructor; simpl.
      - rewrite Hbl1. exact Hbl.
      - rewrite Hlc1. exact Hbg.
      - rewrite Hlc1. exact Hbv.
      - rewrite Hlc1. exact Hen.
      - right. split; [reflexivity|split; assumption]. }
  simpl negb. cbv iota.
  set (s1b := set_begin s1 (b_tx (v_cur s1))).
  assert (Onb : on_member (v_cur s1b) m') by exact On'.
  pose proof (split_total S') as Htot. pose proof (total_nonneg post') as Hpn.
  pose proof On' as (_ & _ & _ & _ & Hp' & _).
  assert (Hqf : f_pos f = total pre' + b_pos (v_cur s1)) by lia.
  unfold flat_read. rewrite Hfe.
  replace (total F - f_pos f =? 0) with false by (symmetry; apply Z.eqb_neq; lia).
  assert (Hfuel : (2 * length post' + 2 <= fuel_of F)%nat) by (unfold fuel_of; pose proof (split_length S'); lia).
  destruct (f_blocked f) eqn:Hfb.
  - (* Blocked *)
    destruct (copy_blocked F n pre' m' post' s1b (fuel_of F) S' Onb ltac:(simpl; congruence) Hlt' ltac:(unfold fuel_of; lia) Hn)
      as (s' & Hcp & Hpost & _).
    change (b_pos (v_cur s1b)) with (b_pos (v_cur s1)) in Hcp, Hpost.
    rewrite Hcp.
    assert (Hbe : block_end F 0 (f_pos f) = total pre' + m_len m').
    { destruct S' as [-> _]. rewrite Hqf.
      replace (total pre' + b_pos (v_cur s1)) with (0 + total pre' + b_pos (v_cur s1)) by lia.
      rewrite block_end_split by lia. lia. }
    rewrite Hbe.
    replace (total pre' + m_len m' - f_pos f) with (m_len m' - b_pos (v_cur s1)) by lia.
    set (k := Z.min n (m_len m' - b_pos (v_cur s1))) in *.
    assert (Hbytes : ztake k (zdrop (f_pos f) (flat_data F)) = ztake k (zdrop (b_pos (v_cur s1)) (m_data m'))).
    { rewrite Hqf. destruct S' as [-> _]. rewrite zdrop_flat_split by lia.
      rewrite ztake_app_le; [reflexivity|]. rewrite zlen_zdrop_data by lia. unfold k. lia. }
    rewrite Hbytes.
    eexists _, _, _, _. split; [reflexivity|]. split; [reflexivity|].
    { rewrite andb_false_r. rewrite Hqf.
      replace (mkF (total pre' + b_pos (v_cur s1) + k) false true (total pre' + b_pos (v_cur s1), total pre' + b_pos (v_cur s1) + k))
        with (mkF (total pre' + b_pos (v_cur s1) + k) false (f_blocked f) (total pre' + b_pos (v_cur s1), total pre' + b_pos (v_cur s1) + k))
        by (rewrite Hfb; reflexivity).
      apply (sim_after_copy F s1 s' f pre' m' post' k false W S' On' Hlt'); [congruence|exact Hpost]. }
  - (* not Blocked *)
    destruct (copy_unblocked F n pre' m' post' s1b (fuel_of F) S' Onb ltac:(simpl; congruence) Hfuel Hn)
      as (s' & Hcp & Hpost).
    change (b_pos (v_cur s1b)) with (b_pos (v_cur s1)) in Hcp, Hpost.
    rewrite Hcp.
    set (rest := zdrop (b_pos (v_cur s1)) (m_data m') ++ flat_data post') in *.
    assert (Hzr : zlen rest = total F - f_pos f).
    { unfold rest. rewrite zlen_app, zlen_zdrop_data by lia. unfold total in *. lia. }
    rewrite <- Hzr.
    set (k := Z.min n (zlen rest)) in *.
    assert (Hbytes : zdrop (f_pos f) (flat_data F) = rest).
    { rewrite Hqf. destruct S' as [-> _]. rewrite zdrop_flat_split by lia. reflexivity. }
    rewrite Hbytes.
    eexists _, _, _, _. split; [reflexivity|]. split; [reflexivity|].
    { rewrite andb_true_r. rewrite Hqf.
      replace (mkF (total pre' + b_pos (v_cur s1) + k) (k <? n) false (total pre' + b_pos (v_cur s1), total pre' + b_pos (v_cur s1) + k))
        with (mkF (total pre' + b_pos (v_cur s1) + k) (k <? n) (f_blocked f) (total pre' + b_pos (v_cur s1), total pre' + b_pos (v_cur s1) + k))
        by (rewrite Hfb; reflexivity).
      apply (sim_after_copy F s1 s' f pre' m' post' k (k <? n) W S' On' Hlt'); [congruence|exact Hpost]. }
Qed.

Lemma byte_sim (F : file) (s : vstate) (f : fstate) :
  wf_file F = true -> sim F s f ->
  exists s' f' bs e, v_readbyte F s = Ok (s', bs, e) /\ flat_byte F f = (f', (bs, e)) /\ sim F s' f'.
Proof.
  intros W [Hbl Hbg Hbv Hen Hst].
  destruct Hst as [[Hfe (He & pre & m & post & S & On & Hq)]|[Hfe [He Hc]]].
  2:{ exists s, f, [], eEOF. unfold v_readbyte, flat_byte. rewrite He, Hfe. simpl.
      split; [reflexivity|]. split; [reflexivity|].
      constructor; auto. right. split; [assumption|split; assumption]. }
  unfold v_readbyte. rewrite He. simpl negb. cbv iota.
  destruct (skip_spec F post pre m s (Datatypes.S (length F)) S On He ltac:(pose proof (split_length S); lia))
    as (s1 & e1 & Hsk & [Hlc1 Hbl1] & Hcase).
  rewrite Hsk.
  destruct Hcase as [(-> & He1 & pre' & m' & post' & S' & On' & Hlt' & Hq' & _)|(-> & [He1 Hc1] & Hq')].
  2:{ simpl. unfold flat_byte. rewrite Hfe.
      replace (total F - f_pos f =? 0) with true by (symmetry; apply Z.eqb_eq; lia).
      eexists _, _, _, _. split; [reflexivity|]. split; [reflexivity|].
      constructor; simpl.
      - rewrite Hbl1. exact Hbl.
      - rewrite Hlc1. exact Hbg.
      - rewrite Hlc1. exact Hbv.
      - rewrite Hlc1. exact Hen.
      - right. split; [reflexivity|split; assumption]. }
  simpl negb. cbv iota.
  pose proof (split_total S') as Htot. pose proof (total_nonneg post') as Hpn.
  pose proof On' as (_ & _ & _ & _ & Hp' & _).
  assert (Hqf : f_pos f = total pre' + b_pos (v_cur s1)) by lia.
  unfold flat_byte. rewrite Hfe.
  replace (total F - f_pos f =? 0) with false by (symmetry; apply Z.eqb_neq; lia).
  cbv zeta.
  change (v_cur (set_begin s1 (b_tx (v_cur s1)))) with (v_cur s1).
  destruct (b_readbyte_some On' Hlt') as (b' & Hrb & Onb' & Hpb').
  rewrite Hrb. cbv beta iota zeta. change (eNil =? eEOF) with false. cbv iota.
  assert (Hbytes : ztake 1 (zdrop (f_pos f) (flat_data F)) = ztake 1 (zdrop (b_pos (v_cur s1)) (m_data m'))).
  { rewrite Hqf. destruct S' as [-> _]. rewrite zdrop_flat_split by lia.
    rewrite ztake_app_le; [reflexivity|]. rewrite zlen_zdrop_data by lia. lia. }
  rewrite Hbytes.
  eexists _, _, _, _. split; [reflexivity|]. split; [reflexivity|].
  pose proof (split_len_le S') as Hle.
  constructor; simpl.
  - rewrite Hbl1. exact Hbl.
  - rewrite Hqf. apply (tr_on_member S' On'). lia.
  - apply (valid_on_member S' On'). lia.
  - intros Ha. rewrite (tr_on_member S' Onb'); [lia|]. pose proof (addressable_len S' Ha). lia.
  - left. split; [reflexivity|]. split; [reflexivity|]. exists pre', m', post'. split; [exact S'|]. split; [exact Onb'|]. simpl. lia.
Qed.

Lemma seek_sim (F : file) (s : vstate) (f : fstate) (fo bo : Z) :
  wf_file F = true -> sim F s f -> valid_off F fo bo = true ->
  exists s', v_seek F s fo bo = (s', eNil) /\ sim F s' (fst (flat_seek f (tr F (fo, bo)))).
Proof.
  intros W [Hbl Hbg Hbv Hen Hst] Hv.
  destruct (valid_off_split F fo bo W Hv) as (pre & m & post & S & Hb & Hbo & Hbo').
  assert (Hfin : forall b : block, on_member b m -> b_pos b = 0 \/ True ->
            sim F (set_lc (set_err (set_cur s (b_seek b bo)) eNil) ((fo, bo), (fo, bo))) (fst (flat_seek f (tr F (fo, bo))))).
  { intros b (B1 & B2 & B3 & B4 & B5 & B6) _.
    assert (Onb : on_member (b_seek b bo) m) by (unfold on_member, b_seek; simpl; auto 10).
    assert (Htr : tr F (fo, bo) = total pre + bo) by (unfold tr; simpl; rewrite <- Hb, (split_before S); reflexivity).
    constructor; simpl.
    - exact Hbl.
    - reflexivity.
    - exact Hv.
    - intros _. reflexivity.
    - left. split; [reflexivity|]. split; [reflexivity|]. exists pre, m, post. split; [exact S|]. split; [exact Onb|]. simpl. lia. }
  unfold v_seek.
  destruct (negb (fo =? b_base (v_cur s)) || negb (b_has (v_cur s))) eqn:Hre.
  - (* the block is fetched *)
    rewrite <- Hb. rewrite (fill_at (v_cur s) S). simpl.
    eexists. split; [reflexivity|].
    specialize (Hfin (blk_of m 0 (b_used (v_cur s))) (on_member_blk_of m 0 _ ltac:(lia)) (or_intror I)).
    rewrite <- Hb in Hfin. exact Hfin.
  - (* the current block is the one sought *)
    apply orb_false_iff in Hre. destruct Hre as [H1 H2].
    apply negb_false_iff in H1, H2. apply Z.eqb_eq in H1.
    destruct Hst as [[Hfe (He & pre0 & m0 & post0 & S0 & On0 & Hq)]|[Hfe [He Hc]]].
    2:{ rewrite Hc in H2. discriminate. }
    pose proof On0 as (B1 & _).
    destruct (split_unique S S0 ltac:(lia)) as (-> & -> & ->).
    simpl. eexists. split; [reflexivity|].
    specialize (Hfin (v_cur s) On0 (or_intror I)).
    replace (set_cur s (b_seek (v_cur s) bo)) with (set_cur s (b_seek (v_cur s) bo)) by reflexivity.
    exact Hfin.
Qed.

(** ---- histories *)

Definition valid_op (F : file) (o : rop) : Prop :=
  match o with
  | OSeek f b => valid_off F f b = true
  | ORead n => 0 <= n
  | _ => True
  end.

Lemma step_sim (F : file) (s : vstate) (f : fstate) (o : rop) :
  wf_file F = true -> sim F s f -> valid_op F o ->
  exists s' r, v_step F s o = Ok (s', r) /\ snd (flat_step F f o) = r /\ sim F s' (fst (flat_step F f o)).
Proof.
  intros W Hs Hv. destruct o as [fo bo|n| |b| |k cap]; simpl in *.
  - destruct (seek_sim F s f fo bo W Hs Hv) as (s' & Hk & Hs'). rewrite Hk.
    eexists _, _. split; [reflexivity|]. split; [reflexivity|exact Hs'].
  - destruct (read_sim F s f n W Hs Hv) as (s' & f' & bs & e & Hr & Hf & Hs'). rewrite Hr, Hf.
    eexists _, _. split; [reflexivity|]. split; [reflexivity|exact Hs'].
  - destruct (byte_sim F s f W Hs) as (s' & f' & bs & e & Hr & Hf & Hs'). rewrite Hr, Hf.
    eexists _, _. split; [reflexivity|]. split; [reflexivity|exact Hs'].
  - eexists _, _. split; [reflexivity|]. split; [reflexivity|].
    destruct Hs as [Hbl Hbg Hbv Hen Hst]. constructor; simpl; auto.
  - destruct Hs as [Hbl Hbg Hbv Hen Hst] eqn:E. clear E.
    destruct (fst (v_lc s)) as [fo bo] eqn:Hlc. simpl in Hbv, Hbg.
    destruct (seek_sim F s f fo bo W Hs Hbv) as (s' & Hk & Hs'). rewrite Hk.
    eexists _, _. split; [reflexivity|]. split; [reflexivity|].
    unfold flat_seek in *. simpl in *. rewrite <- Hbg. exact Hs'.
  - eexists _, _. split; [reflexivity|]. split; [reflexivity|exact Hs].
Qed.

Lemma init_sim (F : file) : wf_file F = true -> F <> [] -> sim F (fst (v_init F)) f_init /\ snd (v_init F) = eNil.
Proof.
  intros W Hne. destruct F as [|m0 F']; [congruence|].
  assert (S : split_at (m0 :: F') [] m0 F') by (split; [reflexivity|exact W]).
  assert (Hb0 : m_base m0 = 0) by (rewrite (split_base S); reflexivity).
  unfold v_init.
  replace (b_fill (m0 :: F') b_new 0) with (b_fill (m0 :: F') b_new (m_base m0)) by (rewrite Hb0; reflexivity).
  rewrite (fill_at b_new S). simpl.
  split; [|reflexivity].
  assert (On : on_member (blk_of m0 0 false) m0) by (apply on_member_blk_of; pose proof (m_len_nonneg m0); lia).
  assert (Hv : valid_off (m0 :: F') 0 0 = true).
  { unfold valid_off. simpl. rewrite Hb0. simpl.
    destruct (Z.leb_spec 0 (m_len m0)); [reflexivity|pose proof (m_len_nonneg m0); lia]. }
  constructor; simpl.
  - reflexivity.
  - unfold tr. simpl. rewrite Hb0. simpl. pose proof (before_none F' 0).
    rewrite H; [reflexivity|]. pose proof (split_post_gt S) as Hq. pose proof (split_size_pos S).
    eapply Forall_impl; [|exact Hq]. simpl; intros; lia.
  - exact Hv.
  - intros _. unfold tr. simpl. rewrite Hb0. simpl. rewrite before_none; [reflexivity|].
    pose proof (split_post_gt S) as Hq. pose proof (split_size_pos S).
    eapply Forall_impl; [|exact Hq]. simpl; intros; lia.
  - left. split; [reflexivity|]. split; [reflexivity|]. exists [], m0, F'. split; [exact S|]. split; [exact On|]. reflexivity.
Qed.

(** Projections of what a run returned. *)
Definition rets (l : list robs) : list fret := map (fun x => fst (fst x)) l.
Definition begins (F : file) (l : list robs) : list Z := map (fun x => tr F (fst (snd (fst x)))) l.
Definition ends (F : file) (l : list robs) : list Z := map (fun x => tr F (snd (snd (fst x)))) l.

Lemma run_sim (F : file) : wf_file F = true -> forall ops s f,
  sim F s f -> Forall (valid_op F) ops ->
  exists l, v_run F s ops = Ok l /\
    rets l = map fst (flat_run F f ops) /\
    begins F l = map (fun y => fst (snd y)) (flat_run F f ops) /\
    (addressable F = true -> ends F l = map (fun y => snd (snd y)) (flat_run F f ops)).
Proof.
  intros W. induction ops as [|o ops IH]; intros s f Hs Hv.
  - exists []. simpl. auto.
  - inversion Hv as [|? ? Hvo Hvr]; subst.
    destruct (step_sim F s f o W Hs Hvo) as (s' & r & Hst & Hr & Hs').
    destruct (IH s' (fst (flat_step F f o)) Hs' Hvr) as (l & Hl & H1 & H2 & H3).
    simpl. rewrite Hst, Hl.
    destruct (flat_step F f o) as [f' r'] eqn:Hfs. simpl in *. subst r'.
    eexists. split; [reflexivity|]. unfold rets, begins, ends in *. simpl.
    split; [f_equal; exact H1|]. split.
    + f_equal; [|exact H2]. apply (sim_begin _ _ _ Hs').
    + intros Ha. f_equal; [|exact (H3 Ha)]. apply (sim_end _ _ _ Hs' Ha).
Qed.

(** C02, main statement, for the reader on block values. *)
Theorem v_refines_flat (F : file) (ops : list rop) :
  wf_file F = true -> F <> [] -> Forall (valid_op F) ops ->
  snd (v_init F) = eNil /\
  exists l, v_run F (fst (v_init F)) ops = Ok l /\
    rets l = map fst (flat_run F f_init ops) /\
    begins F l = map (fun y => fst (snd y)) (flat_run F f_init ops) /\
    (addressable F = true -> ends F l = map (fun y => snd (snd y)) (flat_run F f_init ops)).
Proof.
  intros W Hne Hv. destruct (init_sim F W Hne) as [Hs He]. split; [exact He|].
  apply (run_sim F W ops _ _ Hs Hv).
Qed.
