(** C02 — without a cache, the reader with store objects (one block, recycled
    for every fetch) is the reader on block values. *)
From Coq Require Import ZArith List Bool Lia.
From Hts Require Import Base.Prim Model.Flat Model.Reader Proofs.FlatLemmas Proofs.ReaderFlat.
Import ListNotations.
Open Scope Z_scope.

Definition emb (v : vstate) : rstate :=
  mkR [v_cur v] (Some O) (v_err v) (v_lc v) (v_blocked v) None.

Definition omap {A B} (f : A -> B) (o : outcome A) : outcome B :=
  match o with Ok a => Ok (f a) | Err e => Err e | Panic w => Panic w | Stuck => Stuck end.

(** More fuel does not change a result. *)
Lemma v_skip_mono (F : file) : forall f1 f2 s x, (f1 <= f2)%nat -> v_skip F f1 s = Ok x -> v_skip F f2 s = Ok x.
Proof.
  induction f1 as [|f1 IH]; intros f2 s x Hle H.
  - simpl in H. destruct (b_len (v_cur s) =? 0) eqn:E; [discriminate|].
    destruct f2; simpl; rewrite E; exact H.
  - destruct f2 as [|f2]; [lia|]. simpl in *.
    destruct (b_len (v_cur s) =? 0); [|exact H].
    destruct (v_nextBlock F s) as [s1 e]. destruct (e =? eNil); [|exact H].
    apply (IH f2); [lia|exact H].
Qed.

Lemma v_copy_mono (F : file) (n : Z) : forall f1 f2 s acc x, (f1 <= f2)%nat -> v_copy F f1 s n acc = Ok x -> v_copy F f2 s n acc = Ok x.
Proof.
  induction f1 as [|f1 IH]; intros f2 s acc x Hle H.
  - simpl in H. destruct (zlen acc <? n) eqn:E; [discriminate|].
    destruct f2; simpl; rewrite E; exact H.
  - destruct f2 as [|f2]; [lia|]. simpl in *.
    destruct (zlen acc <? n); [|exact H].
    destruct (b_read (v_cur s) (n - zlen acc)) as [[b bs] e].
    destruct (e =? eEOF).
    + destruct (zlen (acc ++ bs) =? n); [exact H|].
      destruct (v_blocked s); [exact H|].
      destruct (v_nextBlock F (set_cur s b)) as [s2 e2].
      destruct (e2 =? eNil); [|exact H]. apply (IH f2); [lia|exact H].
    + apply (IH f2); [lia|exact H].
Qed.

Lemma emb_nextBlock (F : file) (v : vstate) :
  r_nextBlock F (emb v) = Ok (emb (fst (v_nextBlock F v)), snd (v_nextBlock F v)).
Proof.
  unfold r_nextBlock, with_cur, emb, v_nextBlock. simpl.
  unfold r_fetch. simpl. unfold sget. simpl.
  destruct (b_fill F (v_cur v) (b_next (v_cur v))) as [b e]. reflexivity.
Qed.

Lemma emb_skip (F : file) : forall fuel v,
  r_skip F fuel (emb v) = omap (fun x => (emb (fst x), snd x)) (v_skip F fuel v).
Proof.
  induction fuel as [|fuel IH]; intros v.
  - simpl. unfold with_cur, emb, sget. simpl. destruct (b_len (v_cur v) =? 0); reflexivity.
  - simpl. unfold with_cur at 1. simpl. unfold sget at 1. simpl.
    destruct (b_len (v_cur v) =? 0); [|reflexivity].
    change (mkR [v_cur v] (Some O) (v_err v) (v_lc v) (v_blocked v) None) with (emb v).
    rewrite emb_nextBlock. destruct (v_nextBlock F v) as [s1 e]. simpl.
    destruct (e =? eNil); [apply IH|reflexivity].
Qed.

Lemma emb_copy (F : file) (n : Z) : forall fuel v acc,
  r_copy F fuel (emb v) n acc = omap (fun x => (emb (fst (fst x)), snd (fst x), snd x)) (v_copy F fuel v n acc).
Proof.
  induction fuel as [|fuel IH]; intros v acc.
  - simpl. destruct (zlen acc <? n); reflexivity.
  - simpl. destruct (zlen acc <? n); [|reflexivity].
    unfold with_cur. simpl. unfold sget. simpl.
    destruct (b_read (v_cur v) (n - zlen acc)) as [[b bs] e].
    destruct (e =? eEOF).
    + destruct (zlen (acc ++ bs) =? n); [reflexivity|].
      destruct (v_blocked v); [reflexivity|].
      change (rs_st (emb v) (sset [v_cur v] 0 b)) with (emb (set_cur v b)).
      rewrite emb_nextBlock. destruct (v_nextBlock F (set_cur v b)) as [s2 e2]. simpl.
      destruct (e2 =? eNil); [apply IH|reflexivity].
    + change (rs_st (emb v) (sset [v_cur v] 0 b)) with (emb (set_cur v b)). apply IH.
Qed.

Lemma emb_read (F : file) (v : vstate) (n : Z) (x : vstate * list Z * Z) :
  v_read F v n = Ok x -> r_read F (emb v) n = Ok (emb (fst (fst x)), snd (fst x), snd x).
Proof.
  unfold v_read, r_read. simpl r_err. destruct (negb (v_err v =? eNil)).
  - intros H; inversion H; subst. reflexivity.
  - destruct (v_skip F (S (length F)) v) as [[s1 e]| | |] eqn:Hsk; try discriminate.
    rewrite emb_skip.
    rewrite (v_skip_mono F (S (length F)) (r_fuel F (emb v)) v (s1, e)); [|unfold r_fuel; simpl; lia|exact Hsk].
    simpl. destruct (negb (e =? eNil)).
    + intros H; inversion H; subst. reflexivity.
    + intros H.
      change (rs_begin (emb s1) (cur_tx (emb s1))) with (emb (set_begin s1 (b_tx (v_cur s1)))).
      rewrite emb_copy.
      rewrite (v_copy_mono F n (fuel_of F) _ _ [] x); [reflexivity| |exact H].
      unfold r_fuel, fuel_of. simpl. lia.
Qed.

Lemma emb_readbyte (F : file) (v : vstate) (x : vstate * list Z * Z) :
  v_readbyte F v = Ok x -> r_readbyte F (emb v) = Ok (emb (fst (fst x)), snd (fst x), snd x).
Proof.
  unfold v_readbyte, r_readbyte. simpl r_err. destruct (negb (v_err v =? eNil)).
  - intros H; inversion H; subst. reflexivity.
  - destruct (v_skip F (S (length F)) v) as [[s1 e]| | |] eqn:Hsk; try discriminate.
    rewrite emb_skip.
    rewrite (v_skip_mono F (S (length F)) (r_fuel F (emb v)) v (s1, e)); [|unfold r_fuel; simpl; lia|exact Hsk].
    simpl. destruct (negb (e =? eNil)).
    + intros H; inversion H; subst. reflexivity.
    + unfold with_cur. simpl. unfold sget. simpl.
      destruct (b_readbyte (v_cur s1)) as [[b bs] e1].
      destruct (e1 =? eEOF).
      * destruct (v_blocked s1).
        -- intros H; inversion H; subst. reflexivity.
        -- change (rs_st (rs_begin (emb s1) (cur_tx (emb s1))) (sset [v_cur s1] 0 b))
             with (emb (set_cur (set_begin s1 (b_tx (v_cur s1))) b)).
           rewrite emb_nextBlock.
           destruct (v_nextBlock F (set_cur (set_begin s1 (b_tx (v_cur s1))) b)) as [s4 e2].
           intros H; inversion H; subst. reflexivity.
      * intros H; inversion H; subst. reflexivity.
Qed.

Lemma emb_seek (F : file) (v : vstate) (f o : Z) :
  b_has (v_cur (fst (v_seek F v f o))) = true \/ snd (v_seek F v f o) <> eNil ->
  r_seek F (emb v) f o = Ok (emb (fst (v_seek F v f o)), snd (v_seek F v f o)).
Proof.
  unfold r_seek, v_seek, with_cur. simpl. unfold sget. simpl.
  destruct (negb (f =? b_base (v_cur v)) || negb (b_has (v_cur v))) eqn:Hre.
  - unfold r_fetch. simpl. unfold sget. simpl.
    destruct (b_fill F (v_cur v) f) as [b e]. simpl.
    destruct (negb (e =? eNil)) eqn:He; [reflexivity|].
    simpl. unfold with_cur, sget. simpl. intros [H|H]; [|congruence].
    simpl in H. rewrite H. reflexivity.
  - simpl. unfold with_cur, sget. simpl. intros [H|H]; [|congruence].
    simpl in H. rewrite H. reflexivity.
Qed.

(** A history without SetCache. *)
Definition no_cache_op (o : rop) : bool := match o with OSetCache _ _ => false | _ => true end.

Lemma emb_step (F : file) (ch : list nat) (v : vstate) (o : rop) (x : vstate * fret) :
  no_cache_op o = true -> v_step F v o = Ok x ->
  (match o with OSeek _ _ | OReseek => b_has (v_cur (fst x)) = true \/ snd (snd x) <> eNil | _ => True end) ->
  r_step F ch (emb v) o = Ok (emb (fst x), snd x).
Proof.
  intros Hn Hv Hs. destruct o as [fo bo|n| |b| |k cap]; simpl in *; try discriminate.
  - destruct (v_seek F v fo bo) as [s' e] eqn:Hk. inversion Hv; subst. simpl in Hs.
    rewrite emb_seek; rewrite Hk; simpl; [reflexivity|exact Hs].
  - destruct (v_read F v n) as [[[s' bs] e]| | |] eqn:Hr; try discriminate. inversion Hv; subst.
    rewrite (emb_read F v n _ Hr). reflexivity.
  - destruct (v_readbyte F v) as [[[s' bs] e]| | |] eqn:Hr; try discriminate. inversion Hv; subst.
    rewrite (emb_readbyte F v _ Hr). reflexivity.
  - inversion Hv; subst. reflexivity.
  - change (r_lc (emb v)) with (v_lc v). destruct (fst (v_lc v)) as [fo bo].
    destruct (v_seek F v fo bo) as [s' e] eqn:Hk. inversion Hv; subst. simpl in Hs.
    rewrite emb_seek; rewrite Hk; simpl; [reflexivity|exact Hs].
Qed.

Lemma sim_has_data {F s f} : sim F s f -> f_eof f = false -> b_has (v_cur s) = true.
Proof.
  intros [_ _ _ _ Hst] He. destruct Hst as [[_ (_ & pre & m & post & _ & On & _)]|[H _]]; [|congruence].
  destruct On as (_ & _ & _ & H & _). exact H.
Qed.

Lemma run_emb (F : file) (ch : list nat) : wf_file F = true -> forall ops s f,
  sim F s f -> Forall (valid_op F) ops -> forallb no_cache_op ops = true ->
  r_run F ch (emb s) ops = v_run F s ops.
Proof.
  intros W. induction ops as [|o ops IH]; intros s f Hs Hv Hn; [reflexivity|].
  inversion Hv as [|? ? Hvo Hvr]; subst. simpl in Hn. apply andb_true_iff in Hn. destruct Hn as [Hno Hnr].
  destruct (step_sim F s f o W Hs Hvo) as (s' & r & Hst & Hr & Hs').
  simpl. rewrite Hst.
  rewrite (emb_step F ch s o (s', r) Hno Hst).
  - simpl. rewrite (IH s' _ Hs' Hvr Hnr). reflexivity.
  - destruct o; try exact I; simpl; left; apply (sim_has_data Hs'); reflexivity.
Qed.

Lemma r_init_emb (F : file) : r_init F = (emb (fst (v_init F)), snd (v_init F)).
Proof. unfold r_init, v_init. destruct (b_fill F b_new 0) as [b e]. reflexivity. Qed.

(** C02 for the reader with store objects (bgzf.Reader, rd = 1, no cache). *)
Theorem r_refines_flat (F : file) (ch : list nat) (ops : list rop) :
  wf_file F = true -> F <> [] -> Forall (valid_op F) ops -> forallb no_cache_op ops = true ->
  snd (r_init F) = eNil /\
  exists l, r_run F ch (fst (r_init F)) ops = Ok l /\
    rets l = map fst (flat_run F f_init ops) /\
    begins F l = map (fun y => fst (snd y)) (flat_run F f_init ops) /\
    (addressable F = true -> ends F l = map (fun y => snd (snd y)) (flat_run F f_init ops)).
Proof.
  intros W Hne Hv Hn. rewrite r_init_emb. simpl.
  destruct (init_sim F W Hne) as [Hs He]. split; [exact He|].
  rewrite (run_emb F ch W ops _ _ Hs Hv Hn).
  apply (run_sim F W ops _ _ Hs Hv).
Qed.

(** The combined statement for files whose members are all addressable. *)
Definition obs_tr (F : file) (x : robs) : fret * (Z * Z) := (fst (fst x), tr_chunk F (snd (fst x))).

Lemma combine_maps {A} (f : A -> fret) (g h : A -> Z) : forall (l : list A) (L : list (fret * (Z * Z))),
  map f l = map fst L -> map g l = map (fun y => fst (snd y)) L -> map h l = map (fun y => snd (snd y)) L ->
  map (fun x => (f x, (g x, h x))) l = L.
Proof.
  induction l as [|a l IH]; intros [|[r [b e]] L] H1 H2 H3; simpl in *; try discriminate; [reflexivity|].
  inversion H1; inversion H2; inversion H3; subst. f_equal. apply IH; assumption.
Qed.

Theorem r_refines_flat_full (F : file) (ch : list nat) (ops : list rop) :
  wf_file F = true -> F <> [] -> addressable F = true ->
  Forall (valid_op F) ops -> forallb no_cache_op ops = true ->
  exists l, r_run F ch (fst (r_init F)) ops = Ok l /\ map (obs_tr F) l = flat_run F f_init ops.
Proof.
  intros W Hne Ha Hv Hn. destruct (r_refines_flat F ch ops W Hne Hv Hn) as (_ & l & Hl & H1 & H2 & H3).
  exists l. split; [exact Hl|]. apply combine_maps; [exact H1|exact H2|exact (H3 Ha)].
Qed.

(** ---- seeking to a reported Begin replays the read *)

Definition flat_exec (F : file) (f : fstate) (ops : list rop) : fstate :=
  fold_left (fun s o => fst (flat_step F s o)) ops f.

Lemma flat_run_app (F : file) : forall a b f, flat_run F f (a ++ b) = flat_run F f a ++ flat_run F (flat_exec F f a) b.
Proof.
  induction a as [|o a IH]; intros b f; [reflexivity|].
  unfold flat_exec. simpl. destruct (flat_step F f o) as [f' r] eqn:E. simpl. rewrite IH. reflexivity.
Qed.

Lemma flat_replay (F : file) (f : fstate) (n : Z) :
  snd (flat_read F f n) <> ([], eEOF) ->
  let f1 := fst (flat_read F f n) in
  let f2 := fst (flat_seek f1 (fst (f_chunk f1))) in
  flat_read F f2 n = flat_read F f n.
Proof.
  unfold flat_read. destruct (f_eof f) eqn:He; [simpl; congruence|].
  destruct (total F - f_pos f =? 0) eqn:Hz; [simpl; congruence|].
  intros _. simpl. rewrite Hz. reflexivity.
Qed.

Theorem r_seek_begin_replays (F : file) (ch : list nat) (ops : list rop) (n : Z) :
  wf_file F = true -> F <> [] -> addressable F = true ->
  Forall (valid_op F) ops -> forallb no_cache_op ops = true -> 0 <= n ->
  exists l o1 o2 o3,
    r_run F ch (fst (r_init F)) (ops ++ [ORead n; OReseek; ORead n]) = Ok (l ++ [o1; o2; o3]) /\
    (fst (obs_tr F o1) <> ([], eEOF) -> obs_tr F o3 = obs_tr F o1).
Proof.
  intros W Hne Ha Hv Hn Hn0.
  destruct (r_refines_flat_full F ch (ops ++ [ORead n; OReseek; ORead n]) W Hne Ha) as (L & HL & HM).
  - apply Forall_app. split; [exact Hv|]. constructor; [exact Hn0|]. constructor; [exact I|]. constructor; [exact Hn0|constructor].
  - rewrite forallb_app, Hn. reflexivity.
  - rewrite flat_run_app in HM.
    apply map_eq_app in HM. destruct HM as (l & l3 & -> & Hm1 & Hm3).
    set (f := flat_exec F f_init ops) in *.
    simpl in Hm3.
    destruct (flat_read F f n) as [f1 r1] eqn:E1. simpl in Hm3.
    destruct (flat_read F (mkF (fst (f_chunk f1)) false (f_blocked f1) (fst (f_chunk f1), fst (f_chunk f1))) n) as [f3 r3] eqn:E3.
    apply map_eq_cons in Hm3. destruct Hm3 as (o1 & t1 & -> & Ho1 & Hm3).
    apply map_eq_cons in Hm3. destruct Hm3 as (o2 & t2 & -> & Ho2 & Hm3).
    apply map_eq_cons in Hm3. destruct Hm3 as (o3 & t3 & -> & Ho3 & Hm3).
    apply map_eq_nil in Hm3. subst t3.
    exists l, o1, o2, o3. split; [exact HL|].
    rewrite Ho1, Ho3. simpl. intros Hne1.
    pose proof (flat_replay F f n) as Hrp. rewrite E1 in Hrp. simpl in Hrp.
    unfold flat_seek in Hrp. simpl in Hrp. rewrite E3 in Hrp.
    specialize (Hrp Hne1). inversion Hrp; subst. reflexivity.
Qed.

Lemma flat_run_length (F : file) : forall ops f, length (flat_run F f ops) = length ops.
Proof. induction ops as [|o ops IH]; intros f; simpl; [reflexivity|]. destruct (flat_step F f o). simpl. rewrite IH. reflexivity. Qed.

Theorem r_calls_return (F : file) (ch : list nat) (ops : list rop) :
  wf_file F = true -> F <> [] -> Forall (valid_op F) ops -> forallb no_cache_op ops = true ->
  exists l, r_run F ch (fst (r_init F)) ops = Ok l /\ length l = length ops.
Proof.
  intros W Hne Hv Hn. destruct (r_refines_flat F ch ops W Hne Hv Hn) as (_ & l & Hl & H1 & _).
  exists l. split; [exact Hl|].
  apply (f_equal (@length _)) in H1. unfold rets in H1. rewrite !map_length, flat_run_length in H1. exact H1.
Qed.

(** ---- a member of 65536 bytes: the end of the block is not addressable *)

Definition run_ends (F : file) (ops : list rop) : option (list Z) :=
  match r_run F [] (fst (r_init F)) ops with Ok l => Some (ends F l) | _ => None end.

Definition big_file : file := [mkMember 0 100 (mkdata 65536 11)].

Lemma end_65536_refuted :
  exists F ops, wf_file F = true /\ F <> [] /\ Forall (valid_op F) ops /\ forallb no_cache_op ops = true /\
    run_ends F ops = Some [0] /\ map (fun y => snd (snd y)) (flat_run F f_init ops) = [65536].
Proof.
  exists big_file, [ORead 65536].
  split; [vm_compute; reflexivity|]. split; [discriminate|].
  split; [constructor; [simpl; lia|constructor]|]. split; [reflexivity|].
  split; vm_compute; reflexivity.
Qed.
