(** C06 — ParseAux inverts samAux.String for the scalar aux types
    (A, integers by value, float under the strconv law, Z). *)
From Coq Require Import ZArith List Bool Lia.
From Hts Require Import Base.Prim Generated Model.SamText Model.SamSpec Proofs.SamBytes Proofs.SamFormat Proofs.SamParse.
Import ListNotations.
Open Scope Z_scope.

Definition scalar (v : auxv) : Prop :=
  match v with AvA _ | AvInt _ _ | AvF _ | AvZ _ => True | _ => False end.

Lemma new_aux_int_value : forall ty n, int_type_ok ty n -> exists ty', new_aux_int n = Some (AvInt ty' n).
Proof.
  intros ty n H. unfold new_aux_int.
  destruct (n <? 0) eqn:E0.
  - destruct (- 2 ^ 7 <=? n); [eauto|]. destruct (- 2 ^ 15 <=? n); [eauto|].
    destruct (- 2 ^ 31 <=? n) eqn:E; [eauto|]. apply Z.leb_gt in E. unfold int_type_ok in H. lia.
  - destruct (n <=? 2 ^ 8 - 1); [eauto|]. destruct (n <=? 2 ^ 16 - 1); [eauto|].
    destruct (n <=? 2 ^ 32 - 1) eqn:E; [eauto|]. apply Z.leb_gt in E. unfold int_type_ok in H. lia.
Qed.

Lemma parse_aux_text : forall parse_f32 t0 t1 ty txt,
    parse_aux parse_f32 (t0 :: t1 :: 58 :: ty :: 58 :: txt) =
      let mk v := Ok (mk_aux t0 t1 v) in
      let opt (o : option auxv) := match o with Some v => mk v | None => Err 0 end in
      if ty =? 65 then (if zlen txt =? 1 then mk (AvA (getz txt 0)) else Err 0)
      else if ty =? 105 then match go_atoi txt with Some i => opt (new_aux_int i) | None => Err 0 end
      else if ty =? 102 then opt (option_map AvF (parse_f32 txt))
      else if ty =? 90 then mk (AvZ txt)
      else if ty =? 72 then opt (option_map AvH (hex_decode txt))
      else if ty =? 66 then
        if zlen txt =? 0 then Err 0
        else if zlen txt =? 1 then opt (parse_b_elems parse_f32 (getz txt 0) [])
        else if negb (getz txt 1 =? 44) then Err 0
        else opt (parse_b_elems parse_f32 (getz txt 0) (split_on 44 (skipn 2 txt)))
      else Err 0.
  Proof.
    intros. unfold parse_aux.
    assert (L : (zlen (t0 :: t1 :: 58 :: ty :: 58 :: txt) <? 5) = false).
    { apply Z.ltb_ge. unfold zlen. cbn [length]. lia. }
    rewrite L. reflexivity.
  Qed.

Section AuxRoundtrip.
  Variable fmt_f32 : Z -> list Z.
  Variable parse_f32 : list Z -> option Z.
  (** the law of strconv on the float32 values that occur (NaN excluded) *)
  Variable f32_ok : Z -> Prop.
  Hypothesis f32_law : forall x, f32_ok x -> parse_f32 (fmt_f32 x) = Some x.

  Definition floats_ok (v : auxv) : Prop := match v with AvF b => f32_ok b | _ => True end.


  (** For every scalar aux field expressible in SAM text: ParseAux of the text
      samAux.String writes succeeds, keeps the tag, and yields the same value
      (integers by value: the text does not carry the width). *)
  Theorem aux_scalar_roundtrip : forall a,
    auxv_ok (a_val a) -> scalar (a_val a) -> floats_ok (a_val a) ->
    exists txt a', format_aux fmt_f32 a = Some txt /\ parse_aux parse_f32 txt = Ok a' /\
                   a_t0 a' = a_t0 a /\ a_t1 a' = a_t1 a /\ view_val (a_val a') = view_val (a_val a).
  Proof.
    intros [t0 t1 v] Hok Hs Hf. cbn [a_val a_t0 a_t1] in *.
    pose proof (format_aux_spec fmt_f32 (mk_aux t0 t1 v) Hok) as F.
    unfold spec_opt in F. cbn [a_t0 a_t1 a_val fst snd] in F.
    destruct v as [c|ty n|b|s|b|ty vs|vs]; cbn [scalar] in Hs; try contradiction;
      cbn [view_val spec_value app auxv_ok floats_ok] in *.
    - exists [t0; t1; 58; 65; 58; c], (mk_aux t0 t1 (AvA c)). split; [exact F|].
      rewrite parse_aux_text. repeat split; reflexivity.
    - destruct (new_aux_int_value ty n Hok) as (ty' & Hn).
      exists (t0 :: t1 :: 58 :: 105 :: 58 :: print_Z n), (mk_aux t0 t1 (AvInt ty' n)). split; [exact F|].
      rewrite parse_aux_text.
      change (105 =? 65) with false. change (105 =? 105) with true. cbn iota.
      rewrite atoi_print. { rewrite Hn. repeat split; reflexivity. }
      unfold int_type_ok in Hok. lia.
    - exists (t0 :: t1 :: 58 :: 102 :: 58 :: fmt_f32 b), (mk_aux t0 t1 (AvF b)). split; [exact F|].
      rewrite parse_aux_text.
      change (102 =? 65) with false. change (102 =? 105) with false. change (102 =? 102) with true. cbn iota.
      rewrite f32_law by assumption. repeat split; reflexivity.
    - exists (t0 :: t1 :: 58 :: 90 :: 58 :: s), (mk_aux t0 t1 (AvZ s)). split; [exact F|].
      rewrite parse_aux_text. repeat split; reflexivity.
  Qed.
End AuxRoundtrip.

(* =================================================== all aux types, exactly *)

Ltac Zify.zify_post_hook ::= Z.div_mod_to_equations.

Lemma zlen_cons : forall (x : Z) l, zlen (x :: l) = 1 + zlen l.
Proof. intros. unfold zlen. cbn [length]. lia. Qed.
Lemma zlen_nonneg : forall (l : list Z), 0 <= zlen l.
Proof. intros. unfold zlen. lia. Qed.

(** ParseInt(s, 0, bits) reads back %d *)
Lemma parse_int0_print : forall bits half z,
  half * 2 = 2 ^ bits -> 2 ^ (bits - 1) = half -> - half <= z < half ->
  go_parse_int (print_Z z) 0 bits = Some z.
Proof.
  intros bits half z Hh Hc H. unfold go_parse_int. rewrite Hc.
  destruct (z <? 0) eqn:E.
  - apply Z.ltb_lt in E. unfold print_Z. rewrite (proj2 (Z.ltb_lt z 0) E).
    cbn [Z.eqb Pos.eqb].
    pose proof (parse_uint0_print (- z) bits ltac:(lia)) as P.
    unfold print_Z in P. destruct (- z <? 0) eqn:E2; [apply Z.ltb_lt in E2; lia|].
    rewrite P. cbn [negb andb].
    destruct (half <? - z) eqn:E3; [apply Z.ltb_lt in E3; lia|]. f_equal. lia.
  - apply Z.ltb_ge in E.
    pose proof (parse_uint0_print z bits ltac:(lia)) as P.
    assert (NE : print_Z z <> []).
    { unfold print_Z. destruct (z <? 0); [congruence|apply pdigits_nonempty]. }
    destruct (print_Z z) as [|c0 t] eqn:Ep; [congruence|].
    assert (Hc2 : (c0 =? 43) = false /\ (c0 =? 45) = false).
    { assert (F1 := print_Z_free z 43 ltac:(lia)).
      rewrite Ep in F1. apply free_cons in F1.
      unfold print_Z in Ep. destruct (z <? 0) eqn:E4; [apply Z.ltb_lt in E4; lia|].
      assert (F3 := print_nat_base_free 10 z 45 ltac:(lia) ltac:(lia) ltac:(lia)).
      rewrite Ep in F3. apply free_cons in F3.
      split; apply Z.eqb_neq; tauto. }
    destruct Hc2 as [H43 H45]. rewrite H43, H45. rewrite P. cbn [negb andb].
    destruct (half <=? z) eqn:E3; [apply Z.leb_le in E3; lia|]. reflexivity.
Qed.

Lemma hex_nibble_upper : forall d, 0 <= d < 16 -> hex_nibble (hex_upper d) = Some d.
Proof.
  intros d H.
  assert (C : d = 0 \/ d = 1 \/ d = 2 \/ d = 3 \/ d = 4 \/ d = 5 \/ d = 6 \/ d = 7 \/ d = 8 \/ d = 9
            \/ d = 10 \/ d = 11 \/ d = 12 \/ d = 13 \/ d = 14 \/ d = 15) by lia.
  repeat (destruct C as [C|C]; [subst; reflexivity|]). subst; reflexivity.
Qed.

Lemma hex_upper_not9 : forall d, 0 <= d < 16 -> hex_upper d <> 9.
Proof. intros d H. unfold hex_upper. destruct (d <? 10); lia. Qed.

Definition hex_text (b : list Z) : list Z :=
  flat_map (fun c => [hex_upper (c / 16); hex_upper (c mod 16)]) b.

Lemma hex_decode_text : forall b, Forall (fun c => 0 <= c < 256) b -> hex_decode (hex_text b) = Some b.
Proof.
  induction 1 as [|c b Hc Hb IH]; [reflexivity|].
  unfold hex_text in *. cbn [flat_map app hex_decode].
  rewrite !hex_nibble_upper by lia. rewrite IH. f_equal. f_equal. lia.
Qed.

Lemma hex_text_free : forall b, Forall (fun c => 0 <= c < 256) b -> free 9 (hex_text b).
Proof.
  induction 1 as [|c b Hc Hb IH]; [apply free_nil|].
  unfold hex_text in *. cbn [flat_map app].
  apply free_cons. split; [apply hex_upper_not9; lia|].
  apply free_cons. split; [apply hex_upper_not9; lia|exact IH].
Qed.

Lemma flat_map_sep : forall (fs : list (list Z)),
  flat_map (fun g => 44 :: g) fs = match fs with [] => [] | _ => 44 :: join 44 fs end.
Proof.
  induction fs as [|f fs IH]; [reflexivity|].
  cbn [flat_map]. rewrite IH. destruct fs; [cbn; rewrite app_nil_r; reflexivity|reflexivity].
Qed.

Lemma flat_map_map_sep : forall {A} (g : A -> list Z) l,
  flat_map (fun n => 44 :: g n) l = flat_map (fun s => 44 :: s) (map g l).
Proof. intros A g l. induction l as [|x l IH]; [reflexivity|]. cbn. rewrite IH. reflexivity. Qed.

Lemma map_opt_back : forall {A} (f : list Z -> option A) (g : A -> list Z) l,
  Forall (fun x => f (g x) = Some x) l -> map_opt f (map g l) = Some l.
Proof.
  intros A f g l H. induction H as [|x l Hx Hl IH]; [reflexivity|].
  cbn [map map_opt]. rewrite Hx, IH. reflexivity.
Qed.

Lemma free_flat_sep : forall sep (fs : list (list Z)), sep <> 44 -> Forall (free sep) fs ->
  free sep (flat_map (fun g => 44 :: g) fs).
Proof.
  intros sep fs Hs H. induction H as [|f fs Hf Hfs IH]; [apply free_nil|].
  cbn [flat_map]. apply free_cons. split; [lia|]. apply free_app. split; assumption.
Qed.

(** canonical form of an aux value after text: integers get the smallest type *)
Definition canon_val (v : auxv) : auxv :=
  match v with
  | AvInt _ n => match new_aux_int n with Some w => w | None => v end
  | _ => v
  end.
Definition aux_back (a : aux) : aux := mk_aux (a_t0 a) (a_t1 a) (canon_val (a_val a)).

Lemma view_canon : forall v, view_val (canon_val v) = view_val v.
Proof.
  intros [c|ty n|b|s|b|ty vs|vs]; try reflexivity. cbn [canon_val].
  unfold new_aux_int.
  repeat match goal with |- context [if ?c then _ else _] => destruct c end; reflexivity.
Qed.

Lemma canon_ok : forall v, auxv_ok v -> auxv_ok (canon_val v).
Proof.
  intros [c|ty n|b|s|b|ty vs|vs] H; try exact H. cbn [canon_val auxv_ok] in *.
  unfold new_aux_int.
  destruct (n <? 0) eqn:E0.
  - apply Z.ltb_lt in E0.
    destruct (- 2 ^ 7 <=? n) eqn:E1; [apply Z.leb_le in E1; cbn; unfold int_type_ok; lia|apply Z.leb_gt in E1].
    destruct (- 2 ^ 15 <=? n) eqn:E2; [apply Z.leb_le in E2; cbn; unfold int_type_ok; lia|apply Z.leb_gt in E2].
    destruct (- 2 ^ 31 <=? n) eqn:E3; [apply Z.leb_le in E3; cbn; unfold int_type_ok; lia|exact H].
  - apply Z.ltb_ge in E0.
    destruct (n <=? 2 ^ 8 - 1) eqn:E1; [apply Z.leb_le in E1; cbn; unfold int_type_ok; lia|apply Z.leb_gt in E1].
    destruct (n <=? 2 ^ 16 - 1) eqn:E2; [apply Z.leb_le in E2; cbn; unfold int_type_ok; lia|apply Z.leb_gt in E2].
    destruct (n <=? 2 ^ 32 - 1) eqn:E3; [apply Z.leb_le in E3; cbn; unfold int_type_ok; lia|exact H].
Qed.

Section AuxAll.
  Variable fmt_f32 : Z -> list Z.
  Variable parse_f32 : list Z -> option Z.
  Variable f32_ok : Z -> Prop.
  Hypothesis f32_law : forall x, f32_ok x -> parse_f32 (fmt_f32 x) = Some x.
  (** the text of a float has no TAB and no comma *)
  Hypothesis f32_clean : forall x, f32_ok x -> free 9 (fmt_f32 x) /\ free 44 (fmt_f32 x).

  Definition floats_ok_all (v : auxv) : Prop :=
    match v with AvF b => f32_ok b | AvBF vs => Forall f32_ok vs | _ => True end.

  Lemma parse_b_ints : forall ty vs, int_type ty -> Forall (int_type_ok ty) vs ->
    parse_b_elems parse_f32 ty (map print_Z vs) = Some (AvBI ty vs).
  Proof.
    intros ty vs Ht Hv. unfold parse_b_elems.
    destruct Ht as [-> | [-> | [-> | [-> | [-> | ->]]]]]; cbn [Z.eqb Pos.eqb];
      rewrite map_opt_back; try reflexivity;
      (eapply Forall_impl; [|exact Hv]); intros v Hi; unfold int_type_ok in Hi.
    - apply (parse_int0_print 8 128); [reflexivity|reflexivity|lia].
    - apply parse_uint0_print. change (2 ^ 8) with 256. lia.
    - apply (parse_int0_print 16 32768); [reflexivity|reflexivity|lia].
    - apply parse_uint0_print. change (2 ^ 16) with 65536. lia.
    - apply (parse_int0_print 32 2147483648); [reflexivity|reflexivity|lia].
    - apply parse_uint0_print. lia.
  Qed.

  Lemma parse_b_text : forall t0 t1 sub (fs : list (list Z)),
    Forall (free 44) fs ->
    parse_aux parse_f32 (t0 :: t1 :: 58 :: 66 :: 58 :: sub :: flat_map (fun g => 44 :: g) fs) =
    match parse_b_elems parse_f32 sub fs with Some v => Ok (mk_aux t0 t1 v) | None => Err 0 end.
  Proof.
    intros t0 t1 sub fs Hf. rewrite parse_aux_text.
    change (66 =? 65) with false. change (66 =? 105) with false. change (66 =? 102) with false.
    change (66 =? 90) with false. change (66 =? 72) with false. change (66 =? 66) with true. cbn iota.
    rewrite flat_map_sep. destruct fs as [|f fs].
    - change (zlen [sub] =? 0) with false. change (zlen [sub] =? 1) with true. cbn iota.
      change (getz [sub] 0) with sub. reflexivity.
    - rewrite !zlen_cons.
      assert (Z0 := zlen_nonneg (join 44 (f :: fs))).
      destruct (1 + (1 + zlen (join 44 (f :: fs))) =? 0) eqn:E0; [apply Z.eqb_eq in E0; lia|].
      destruct (1 + (1 + zlen (join 44 (f :: fs))) =? 1) eqn:E1; [apply Z.eqb_eq in E1; lia|].
      change (getz (sub :: 44 :: join 44 (f :: fs)) 1) with 44. change (getz (sub :: 44 :: join 44 (f :: fs)) 0) with sub.
      change (negb (44 =? 44)) with false. cbn iota.
      change (skipn 2 (sub :: 44 :: join 44 (f :: fs))) with (join 44 (f :: fs)).
      rewrite split_join by (auto; congruence). reflexivity.
  Qed.

  (** ParseAux reads back, for every aux type, the text samAux.String writes:
      same tag, same value, integers in their smallest type. *)
  Theorem aux_roundtrip_all : forall a,
    auxv_ok (a_val a) -> floats_ok_all (a_val a) ->
    parse_aux parse_f32 (spec_opt fmt_f32 ([a_t0 a; a_t1 a], view_val (a_val a))) = Ok (aux_back a).
  Proof.
    intros [t0 t1 v] Hok Hf. unfold spec_opt, aux_back. cbn [a_t0 a_t1 a_val fst snd] in *.
    destruct v as [c|ty n|b|s|b|ty vs|vs];
      cbn [view_val spec_value app auxv_ok floats_ok_all canon_val] in *.
    - rewrite parse_aux_text. reflexivity.
    - destruct (new_aux_int_value ty n Hok) as (ty' & Hn).
      rewrite parse_aux_text.
      change (105 =? 65) with false. change (105 =? 105) with true. cbn iota.
      rewrite atoi_print by (unfold int_type_ok in Hok; lia). rewrite Hn. reflexivity.
    - rewrite parse_aux_text.
      change (102 =? 65) with false. change (102 =? 105) with false. change (102 =? 102) with true. cbn iota.
      rewrite f32_law by assumption. reflexivity.
    - rewrite parse_aux_text. reflexivity.
    - rewrite parse_aux_text.
      change (72 =? 65) with false. change (72 =? 105) with false. change (72 =? 102) with false.
      change (72 =? 90) with false. change (72 =? 72) with true. cbn iota.
      fold (hex_text b). rewrite hex_decode_text by assumption. reflexivity.
    - destruct Hok as [Ht Hv].
      rewrite (flat_map_map_sep print_Z vs). rewrite parse_b_text.
      + rewrite parse_b_ints by assumption. reflexivity.
      + apply Forall_forall. intros s Hin. apply in_map_iff in Hin. destruct Hin as (x & <- & _).
        apply print_Z_free. lia.
    - rewrite (flat_map_map_sep fmt_f32 vs). rewrite parse_b_text.
      + unfold parse_b_elems. cbn [Z.eqb Pos.eqb]. rewrite map_opt_back; [reflexivity|].
        eapply Forall_impl; [|exact Hf]. intros x Hx. apply f32_law. exact Hx.
      + apply Forall_forall. intros s Hin. apply in_map_iff in Hin. destruct Hin as (x & <- & Hx).
        rewrite Forall_forall in Hf. apply (f32_clean x (Hf x Hx)).
  Qed.

  (** the text of an aux field has no TAB *)
  Lemma aux_text_free : forall a, aux_ok a -> floats_ok_all (a_val a) ->
    free 9 (spec_opt fmt_f32 ([a_t0 a; a_t1 a], view_val (a_val a))).
  Proof.
    intros [t0 t1 v] (H0 & H1 & Hok) Hf. unfold spec_opt. cbn [a_t0 a_t1 a_val fst snd] in *.
    assert (F1 : forall x, x <> 9 -> free 9 [x]) by (intros; apply free_cons; split; [assumption|apply free_nil]).
    destruct v as [c|ty n|b|s|b|ty vs|vs];
      cbn [view_val spec_value app auxv_ok floats_ok_all] in *;
      repeat (apply free_cons; split; [lia|]).
    - apply free_nil.
    - apply print_Z_free. lia.
    - apply (f32_clean b Hf).
    - exact Hok.
    - apply hex_text_free. exact Hok.
    - destruct Hok as [Ht Hv]. apply free_cons. split.
      + destruct Ht as [-> | [-> | [-> | [-> | [-> | ->]]]]]; lia.
      + rewrite (flat_map_map_sep print_Z vs). apply free_flat_sep; [lia|].
        apply Forall_forall. intros s Hin. apply in_map_iff in Hin. destruct Hin as (x & <- & _).
        apply print_Z_free. lia.
    - rewrite (flat_map_map_sep fmt_f32 vs). apply free_flat_sep; [lia|].
      apply Forall_forall. intros s Hin. apply in_map_iff in Hin. destruct Hin as (x & <- & Hx).
      rewrite Forall_forall in Hf. apply (f32_clean x (Hf x Hx)).
  Qed.
End AuxAll.

Theorem aux_roundtrip_full :
  forall (fmt_f32 : Z -> list Z) (parse_f32 : list Z -> option Z) (f32_ok : Z -> Prop),
    (forall x, f32_ok x -> parse_f32 (fmt_f32 x) = Some x) ->
    (forall x, f32_ok x -> free 9 (fmt_f32 x) /\ free 44 (fmt_f32 x)) ->
    forall a,
      auxv_ok (a_val a) -> floats_ok_all f32_ok (a_val a) ->
      format_aux fmt_f32 a = Some (spec_opt fmt_f32 ([a_t0 a; a_t1 a], view_val (a_val a))) /\
      parse_aux parse_f32 (spec_opt fmt_f32 ([a_t0 a; a_t1 a], view_val (a_val a))) = Ok (aux_back a) /\
      view_val (a_val (aux_back a)) = view_val (a_val a).
Proof.
  intros fmt pf ok L C a Hok Hf. split; [apply format_aux_spec; assumption|].
  split; [eapply aux_roundtrip_all; eassumption|]. unfold aux_back. cbn [a_val]. apply view_canon.
Qed.
