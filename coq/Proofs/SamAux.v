(** C06 — ParseAux inverts samAux.String for the scalar aux types
    (A, integers by value, float under the strconv law, Z). *)
From Coq Require Import ZArith List Bool Lia.
From Hts Require Import Base.Prim Generated Model.SamText Model.SamSpec Proofs.SamBytes Proofs.SamFormat Proofs.SamParse.
Import ListNotations.
Open Scope Z_scope.

Definition scalar (v : auxv) : Prop :=
  match v with AvA _ | AvInt _ _ | AvF _ | AvZ _ => True | _ => False end.

Lemma new_aux_int_value : forall ty n, int_type_ok ty n -> exists ty', new_aux_int n = Some (AvInt ty' n).
Proof.
  intros ty n H. unfold new_aux_int.
  destruct (n <? 0) eqn:E0.
  - destruct (- 2 ^ 7 <=? n); [eauto|]. destruct (- 2 ^ 15 <=? n); [eauto|].
    destruct (- 2 ^ 31 <=? n) eqn:E; [eauto|]. apply Z.leb_gt in E. unfold int_type_ok in H. lia.
  - destruct (n <=? 2 ^ 8 - 1); [eauto|]. destruct (n <=? 2 ^ 16 - 1); [eauto|].
    destruct (n <=? 2 ^ 32 - 1) eqn:E; [eauto|]. apply Z.leb_gt in E. unfold int_type_ok in H. lia.
Qed.

Section AuxRoundtrip.
  Variable fmt_f32 : Z -> list Z.
  Variable parse_f32 : list Z -> option Z.
  (** the law of strconv on the float32 values that occur (NaN excluded) *)
  Variable f32_ok : Z -> Prop.
  Hypothesis f32_law : forall x, f32_ok x -> parse_f32 (fmt_f32 x) = Some x.

  Definition floats_ok (v : auxv) : Prop := match v with AvF b => f32_ok b | _ => True end.

  Lemma parse_aux_text : forall t0 t1 ty txt,
    parse_aux parse_f32 (t0 :: t1 :: 58 :: ty :: 58 :: txt) =
      let mk v := Ok (mk_aux t0 t1 v) in
      let opt (o : option auxv) := match o with Some v => mk v | None => Err 0 end in
      if ty =? 65 then (if zlen txt =? 1 then mk (AvA (getz txt 0)) else Err 0)
      else if ty =? 105 then match go_atoi txt with Some i => opt (new_aux_int i) | None => Err 0 end
      else if ty =? 102 then opt (option_map AvF (parse_f32 txt))
      else if ty =? 90 then mk (AvZ txt)
      else if ty =? 72 then opt (option_map AvH (hex_decode txt))
      else if ty =? 66 then
        if zlen txt =? 0 then Err 0
        else if zlen txt =? 1 then opt (parse_b_elems parse_f32 (getz txt 0) [])
        else if negb (getz txt 1 =? 44) then Err 0
        else opt (parse_b_elems parse_f32 (getz txt 0) (split_on 44 (skipn 2 txt)))
      else Err 0.
  Proof.
    intros. unfold parse_aux.
    assert (L : (zlen (t0 :: t1 :: 58 :: ty :: 58 :: txt) <? 5) = false).
    { apply Z.ltb_ge. unfold zlen. cbn [length]. lia. }
    rewrite L. reflexivity.
  Qed.

  (** For every scalar aux field expressible in SAM text: ParseAux of the text
      samAux.String writes succeeds, keeps the tag, and yields the same value
      (integers by value: the text does not carry the width). *)
  Theorem aux_scalar_roundtrip : forall a,
    auxv_ok (a_val a) -> scalar (a_val a) -> floats_ok (a_val a) ->
    exists txt a', format_aux fmt_f32 a = Some txt /\ parse_aux parse_f32 txt = Ok a' /\
                   a_t0 a' = a_t0 a /\ a_t1 a' = a_t1 a /\ view_val (a_val a') = view_val (a_val a).
  Proof.
    intros [t0 t1 v] Hok Hs Hf. cbn [a_val a_t0 a_t1] in *.
    pose proof (format_aux_spec fmt_f32 (mk_aux t0 t1 v) Hok) as F.
    unfold spec_opt in F. cbn [a_t0 a_t1 a_val fst snd] in F.
    destruct v as [c|ty n|b|s|b|ty vs|vs]; cbn [scalar] in Hs; try contradiction;
      cbn [view_val spec_value app auxv_ok floats_ok] in *.
    - exists [t0; t1; 58; 65; 58; c], (mk_aux t0 t1 (AvA c)). split; [exact F|].
      rewrite parse_aux_text. repeat split; reflexivity.
    - destruct (new_aux_int_value ty n Hok) as (ty' & Hn).
      exists (t0 :: t1 :: 58 :: 105 :: 58 :: print_Z n), (mk_aux t0 t1 (AvInt ty' n)). split; [exact F|].
      rewrite parse_aux_text.
      change (105 =? 65) with false. change (105 =? 105) with true. cbn iota.
      rewrite atoi_print. { rewrite Hn. repeat split; reflexivity. }
      unfold int_type_ok in Hok. lia.
    - exists (t0 :: t1 :: 58 :: 102 :: 58 :: fmt_f32 b), (mk_aux t0 t1 (AvF b)). split; [exact F|].
      rewrite parse_aux_text.
      change (102 =? 65) with false. change (102 =? 105) with false. change (102 =? 102) with true. cbn iota.
      rewrite f32_law by assumption. repeat split; reflexivity.
    - exists (t0 :: t1 :: 58 :: 90 :: 58 :: s), (mk_aux t0 t1 (AvZ s)). split; [exact F|].
      rewrite parse_aux_text. repeat split; reflexivity.
  Qed.
End AuxRoundtrip.
