(** C06 — the SAM text of a record does not change under the equivalence a
    BAM round trip preserves (absent quality is all-0xff in BAM). *)
From Coq Require Import ZArith List Bool Lia.
From Hts Require Import Base.Prim Generated Model.SamText Model.SamSpec Proofs.SamBytes.
Import ListNotations.
Open Scope Z_scope.

(** quality as BAM stores it: an absent quality is [seqlen] bytes 0xff *)
Definition qual_canon (seqlen : Z) (q : option (list Z)) : list Z :=
  match q with None => repeat 255 (Z.to_nat seqlen) | Some l => l end.

(** what a BAM round trip preserves of a record *)
Definition bam_equiv (a b : samrec) : Prop :=
  r_name a = r_name b /\ r_flags a = r_flags b /\ r_ref a = r_ref b /\ r_pos a = r_pos b /\
  r_mapq a = r_mapq b /\ r_cigar a = r_cigar b /\ r_mref a = r_mref b /\ r_mpos a = r_mpos b /\
  r_tlen a = r_tlen b /\ r_seqlen a = r_seqlen b /\ r_seq a = r_seq b /\
  qual_canon (r_seqlen a) (r_qual a) = qual_canon (r_seqlen b) (r_qual b) /\ r_aux a = r_aux b.

(** the quality slice, when present, has the length of the sequence *)
Definition qual_len_ok (r : samrec) : Prop :=
  match r_qual r with None => True | Some q => zlen q = r_seqlen r end.

Lemma format_qual_ff : forall n, format_qual (repeat 255 n) = [42].
Proof.
  intro n. unfold format_qual.
  assert (E : existsb (fun v => negb (v =? 255)) (repeat 255 n) = false) by (induction n; simpl; auto).
  rewrite E. reflexivity.
Qed.

Lemma format_qual_canon : forall len qa qb,
  qual_canon len qa = qual_canon len qb ->
  format_qual (match qa with Some q => q | None => [] end) =
  format_qual (match qb with Some q => q | None => [] end).
Proof.
  intros len [a|] [b|] H; cbn [qual_canon] in H; subst; try reflexivity.
  - rewrite format_qual_ff. reflexivity.
  - rewrite format_qual_ff. reflexivity.
Qed.

Lemma qual_check : forall r, qual_len_ok r ->
  match r_qual r with Some q => negb (zlen q =? r_seqlen r) | None => false end = false.
Proof.
  intros r H. unfold qual_len_ok in H. destruct (r_qual r); [|reflexivity].
  rewrite H, Z.eqb_refl. reflexivity.
Qed.

Theorem format_respects_bam_equiv : forall fmt_f32 h fl a b,
  qual_len_ok a -> qual_len_ok b -> bam_equiv a b ->
  format_record fmt_f32 h fl a = format_record fmt_f32 h fl b.
Proof.
  intros fmt h fl a b Ha Hb (E1 & E2 & E3 & E4 & E5 & E6 & E7 & E8 & E9 & E10 & E11 & E12 & E13).
  unfold format_record. rewrite (qual_check a Ha), (qual_check b Hb).
  rewrite E1, E2, E3, E4, E5, E6, E7, E8, E9, E10, E11, E13.
  rewrite E10 in E12. rewrite (format_qual_canon _ _ _ E12). reflexivity.
Qed.

Section Bam.
  (** The BAM codec (property C05) is abstract here: an encoder and a decoder
      with the law that decoding what was encoded gives an equivalent record. *)
  Variable bam_ok : samrec -> Prop.
  Variable bam_encode : samrec -> option (list Z).
  Variable bam_decode : list Z -> option samrec.
  Hypothesis bam_roundtrip : forall r, bam_ok r ->
    exists bs r', bam_encode r = Some bs /\ bam_decode bs = Some r' /\ bam_equiv r r' /\ qual_len_ok r'.

  Theorem bam_sam_agree_gen : forall fmt_f32 h fl r,
    bam_ok r -> qual_len_ok r ->
    exists bs r', bam_encode r = Some bs /\ bam_decode bs = Some r' /\
                  format_record fmt_f32 h fl r' = format_record fmt_f32 h fl r.
  Proof.
    intros fmt h fl r Hok Hq. destruct (bam_roundtrip r Hok) as (bs & r' & He & Hd & Heq & Hq').
    exists bs, r'. repeat split; auto. symmetry. apply format_respects_bam_equiv; auto.
  Qed.
End Bam.
