(** C06 — lemmas on byte strings, field splitting and the decimal / hex
    number text used by the SAM model. *)
From Coq Require Import ZArith List Bool Lia.
From Hts Require Import Base.Prim Generated Model.SamText Model.SamSpec.
Import ListNotations.
Open Scope Z_scope.
Ltac Zify.zify_post_hook ::= Z.div_mod_to_equations.

Lemma beq_true_iff : forall a b, beq a b = true <-> a = b.
Proof.
  induction a as [|x a IH]; destruct b as [|y b]; simpl; split; intro H; try congruence; auto.
  - apply andb_true_iff in H. destruct H as [H1 H2]. apply Z.eqb_eq in H1. apply IH in H2. congruence.
  - inversion H; subst. rewrite Z.eqb_refl. simpl. apply IH. reflexivity.
Qed.
Lemma beq_refl : forall a, beq a a = true.
Proof. intro a. apply beq_true_iff. reflexivity. Qed.
Lemma beq_false_iff : forall a b, beq a b = false <-> a <> b.
Proof.
  intros a b. split; intro H.
  - intro E. apply beq_true_iff in E. congruence.
  - destruct (beq a b) eqn:E; auto. apply beq_true_iff in E. contradiction.
Qed.

(** A byte string free of a separator. *)
Definition free (sep : Z) (l : list Z) : Prop := ~ In sep l.

Lemma free_app : forall sep a b, free sep (a ++ b) <-> free sep a /\ free sep b.
Proof. unfold free. intros. rewrite in_app_iff. tauto. Qed.
Lemma free_cons : forall sep c l, free sep (c :: l) <-> c <> sep /\ free sep l.
Proof. unfold free. intros. simpl. split; intro H; [split; intro; apply H; auto | intros [E|E]; destruct H; auto]. Qed.
Lemma free_nil : forall sep, free sep [].
Proof. unfold free. intros sep H. inversion H. Qed.

Lemma split_on_free : forall sep l, free sep l -> split_on sep l = [l].
Proof.
  induction l as [|c l IH]; intro H; simpl; auto.
  apply free_cons in H. destruct H as [H1 H2].
  destruct (c =? sep) eqn:E; [apply Z.eqb_eq in E; contradiction|].
  rewrite IH by assumption. reflexivity.
Qed.

Lemma split_on_app : forall sep a b,
  free sep a -> split_on sep (a ++ sep :: b) = a :: split_on sep b.
Proof.
  induction a as [|c a IH]; intros b H; simpl.
  - rewrite Z.eqb_refl. reflexivity.
  - apply free_cons in H. destruct H as [H1 H2].
    destruct (c =? sep) eqn:E; [apply Z.eqb_eq in E; contradiction|].
    rewrite IH by assumption. reflexivity.
Qed.

(** Splitting the TAB-joined fields gives the fields back. *)
Lemma split_join : forall sep fs,
  fs <> [] -> Forall (free sep) fs -> split_on sep (join sep fs) = fs.
Proof.
  induction fs as [|f fs IH]; intros Hne Hall; [congruence|].
  inversion Hall as [|? ? Hf Hfs]; subst.
  destruct fs as [|g fs].
  - simpl. apply split_on_free. assumption.
  - change (join sep (f :: g :: fs)) with (f ++ sep :: join sep (g :: fs)).
    rewrite split_on_app by assumption. rewrite IH; auto. congruence.
Qed.

(* ------------------------------------------------------------- numbers *)

Lemma digit_val_char : forall d, 0 <= d < 16 -> digit_val (digit_char d) = Some d.
Proof.
  intros d H.
  assert (C : d = 0 \/ d = 1 \/ d = 2 \/ d = 3 \/ d = 4 \/ d = 5 \/ d = 6 \/ d = 7 \/ d = 8 \/ d = 9
            \/ d = 10 \/ d = 11 \/ d = 12 \/ d = 13 \/ d = 14 \/ d = 15) by lia.
  repeat (destruct C as [C|C]; [subst; reflexivity|]). subst; reflexivity.
Qed.

Lemma digit_char_not_us : forall d, 0 <= d < 16 -> (digit_char d =? 95) = false.
Proof. intros d H. unfold digit_char. destruct (d <? 10) eqn:E; apply Z.eqb_neq; [apply Z.ltb_lt in E|apply Z.ltb_ge in E]; lia. Qed.

Lemma digits_val_app : forall b b0 l1 l2 acc,
  digits_val b b0 (l1 ++ l2) acc =
  match digits_val b b0 l1 acc with Some a => digits_val b b0 l2 a | None => None end.
Proof.
  induction l1 as [|c l1 IH]; intros; simpl; auto.
  destruct ((c =? 95) && b0); [apply IH|].
  destruct (digit_val c); auto. destruct (b <=? z); auto.
Qed.

Lemma digits_val_one : forall b b0 d acc, 0 <= d < b -> b <= 16 ->
  digits_val b b0 [digit_char d] acc = Some (acc * b + d).
Proof.
  intros. simpl. rewrite digit_char_not_us by lia. simpl. rewrite digit_val_char by lia.
  destruct (b <=? d) eqn:E; [apply Z.leb_le in E; lia|]. reflexivity.
Qed.

Lemma pdigits_val : forall b b0 fuel n, 2 <= b <= 16 -> 0 <= n < b ^ Z.of_nat fuel ->
  digits_val b b0 (pdigits b fuel n) 0 = Some n.
Proof.
  intros b b0 fuel. induction fuel as [|f IH]; intros n Hb Hn.
  - change (Z.of_nat 0) with 0 in Hn. rewrite Z.pow_0_r in Hn. assert (n = 0) by lia. subst. reflexivity.
  - cbn [pdigits]. destruct (n <? b) eqn:E.
    + apply Z.ltb_lt in E. rewrite digits_val_one by lia. f_equal; lia.
    + apply Z.ltb_ge in E. rewrite digits_val_app.
      rewrite Nat2Z.inj_succ, Z.pow_succ_r in Hn by lia.
      rewrite IH; [|lia|split; [apply Z.div_pos; lia|apply Z.div_lt_upper_bound; lia]].
      rewrite digits_val_one; [|apply Z.mod_pos_bound; lia|lia]. f_equal.
      rewrite (Z.div_mod n b) at 3 by lia. lia.
Qed.

Lemma log2_fuel : forall b n, 2 <= b -> 0 <= n -> n < b ^ Z.of_nat (S (Z.to_nat (Z.log2 n))).
Proof.
  intros b n Hb Hn.
  destruct (Z.eq_dec n 0) as [->|Hz].
  - replace (Z.of_nat (S (Z.to_nat (Z.log2 0)))) with 1 by reflexivity. rewrite Z.pow_1_r. lia.
  - assert (Hl := Z.log2_spec n ltac:(lia)). assert (0 <= Z.log2 n) by apply Z.log2_nonneg.
    rewrite Nat2Z.inj_succ, Z2Nat.id by lia.
    eapply Z.lt_le_trans; [apply Hl|].
    apply Z.pow_le_mono_l. lia.
Qed.

Lemma print_nat_base_val : forall b b0 n, 2 <= b <= 16 -> 0 <= n ->
  digits_val b b0 (print_nat_base b n) 0 = Some n.
Proof.
  intros. unfold print_nat_base. apply pdigits_val; auto. split; auto. apply log2_fuel; lia.
Qed.

(** every character is the character of a digit below the base *)
Definition is_base_digit (b c : Z) : Prop := exists d, 0 <= d < b /\ c = digit_char d.

Lemma pdigits_chars : forall b fuel n, 2 <= b -> 0 <= n ->
  Forall (is_base_digit b) (pdigits b fuel n).
Proof.
  intros b fuel. induction fuel as [|f IH]; intros n Hb Hn; cbn [pdigits]; [constructor|].
  destruct (n <? b) eqn:E.
  - apply Z.ltb_lt in E. constructor; [exists n; split; [lia|reflexivity]|constructor].
  - apply Forall_app. split; [apply IH; [lia|apply Z.div_pos; lia]|].
    constructor; [|constructor]. exists (n mod b). split; [apply Z.mod_pos_bound; lia|reflexivity].
Qed.

Lemma pdigits_nonempty : forall b fuel n, pdigits b (S fuel) n <> [].
Proof.
  intros. cbn [pdigits]. destruct (n <? b); [congruence|]. intro H. apply app_eq_nil in H. destruct H; congruence.
Qed.

(** first character: not the zero digit unless the number is zero *)
Lemma pdigits_head : forall b fuel n, 2 <= b -> 0 < n < b ^ Z.of_nat fuel ->
  exists d t, pdigits b fuel n = digit_char d :: t /\ 0 < d < b.
Proof.
  intros b fuel. induction fuel as [|f IH]; intros n Hb Hn.
  - change (Z.of_nat 0) with 0 in Hn. rewrite Z.pow_0_r in Hn. lia.
  - cbn [pdigits]. destruct (n <? b) eqn:E.
    + apply Z.ltb_lt in E. exists n, []. split; [reflexivity|lia].
    + apply Z.ltb_ge in E. rewrite Nat2Z.inj_succ, Z.pow_succ_r in Hn by lia.
      destruct (IH (n / b) Hb) as (d & t & Hp & Hd).
      { split; [apply Z.div_str_pos; lia|apply Z.div_lt_upper_bound; lia]. }
      exists d, (t ++ [digit_char (n mod b)]). rewrite Hp. split; [reflexivity|assumption].
Qed.

Lemma digit_char_free : forall b c sep, b <= 16 -> is_base_digit b c ->
  (sep < 48 \/ (57 < sep /\ sep < 97) \/ 102 < sep) -> c <> sep.
Proof.
  intros b c sep Hb (d & Hd & ->) Hs. unfold digit_char. destruct (d <? 10) eqn:E; [apply Z.ltb_lt in E|apply Z.ltb_ge in E]; lia.
Qed.

Lemma print_nat_base_free : forall b n sep, 2 <= b <= 16 -> 0 <= n ->
  (sep < 48 \/ (57 < sep /\ sep < 97) \/ 102 < sep) -> free sep (print_nat_base b n).
Proof.
  intros b n sep Hb Hn Hs. unfold print_nat_base, free. intro Hin.
  assert (F := pdigits_chars b (S (Z.to_nat (Z.log2 n))) n ltac:(lia) Hn).
  rewrite Forall_forall in F. apply F in Hin. eapply digit_char_free in Hin; eauto; lia.
Qed.

Lemma print_Z_free : forall z sep,
  (sep < 45 \/ (45 < sep /\ sep < 48) \/ (57 < sep /\ sep < 97) \/ 102 < sep) -> free sep (print_Z z).
Proof.
  intros z sep Hs. unfold print_Z. destruct (z <? 0) eqn:E.
  - apply Z.ltb_lt in E. apply free_cons. split; [lia|]. apply print_nat_base_free; lia.
  - apply Z.ltb_ge in E. apply print_nat_base_free; lia.
Qed.
