(** C06 — MarshalSAM (model) equals the formatter written from SAMv1 1.4/1.5. *)
From Coq Require Import ZArith List Bool Lia.
From Hts Require Import Base.Prim Generated Model.SamText Model.SamSpec Proofs.SamBytes.
Import ListNotations.
Open Scope Z_scope.
Ltac Zify.zify_post_hook ::= Z.div_mod_to_equations.

(* ------------------------------------------------------------- validity *)

Definition int_type_ok (ty v : Z) : Prop :=
  (ty = 99 /\ -128 <= v <= 127) \/ (ty = 67 /\ 0 <= v <= 255) \/
  (ty = 115 /\ -32768 <= v <= 32767) \/ (ty = 83 /\ 0 <= v <= 65535) \/
  (ty = 105 /\ - 2 ^ 31 <= v <= 2 ^ 31 - 1) \/ (ty = 73 /\ 0 <= v <= 2 ^ 32 - 1).
Definition int_type (ty : Z) : Prop :=
  ty = 99 \/ ty = 67 \/ ty = 115 \/ ty = 83 \/ ty = 105 \/ ty = 73.

Lemma int_type_ok_type : forall ty v, int_type_ok ty v -> int_type ty.
Proof. unfold int_type_ok, int_type. intros. tauto. Qed.

(** aux fields expressible in SAM text (SAMv1 1.5) *)
Definition auxv_ok (v : auxv) : Prop :=
  match v with
  | AvA c => 33 <= c <= 126
  | AvInt ty n => int_type_ok ty n
  | AvF _ => True
  | AvZ s => free 9 s
  | AvH b => Forall (fun c => 0 <= c < 256) b
  | AvBI ty vs => int_type ty /\ Forall (int_type_ok ty) vs
  | AvBF _ => True
  end.
Definition aux_ok (a : aux) : Prop :=
  a_t0 a <> 9 /\ a_t1 a <> 9 /\ auxv_ok (a_val a).

Definition name_ok (n : list Z) : Prop := n <> [] /\ n <> [42] /\ n <> [61] /\ free 9 n.
Definition hdr_ok (h : header) : Prop := NoDup (map fst h) /\ Forall name_ok (map fst h).
Definition ref_ok (h : header) (r : option nat) : Prop :=
  match r with None => True | Some i => (i < length h)%nat end.

Definition qual_ok (seqlen : Z) (q : option (list Z)) : Prop :=
  match q with
  | None => True
  | Some l => zlen l = seqlen /\ Forall (fun v => 0 <= v < 256) l /\
              (all_ff l = false -> free 9 (map (fun p => u8 (p + 33)) l) /\ l <> [9])
  end.

(** canonical doublets: as many as the length needs, bytes, and a zero low
    nibble in the last one when the length is odd *)
Definition seq_ok (seqlen : Z) (ds : list Z) : Prop :=
  0 <= seqlen /\ zlen ds = (seqlen + 1) / 2 /\ Forall (fun d => 0 <= d < 256) ds /\
  (seqlen mod 2 = 1 -> (last ds 0) mod 16 = 0).

(** Records expressible in SAM text; [maxop] is 8 for the operations of SAMv1
    (MIDNSHP=X) and 9 when the library's B operation is allowed too. *)
Record valid (maxop : Z) (h : header) (r : samrec) : Prop := {
  v_hdr : hdr_ok h;
  v_name : free 9 (r_name r);
  v_flags : 0 <= r_flags r < 2 ^ 16;
  v_ref : ref_ok h (r_ref r);
  v_mref : ref_ok h (r_mref r);
  v_pos : - 2 ^ 63 <= r_pos r /\ r_pos r + 1 < 2 ^ 63;
  v_mpos : - 2 ^ 63 <= r_mpos r /\ r_mpos r + 1 < 2 ^ 63;
  v_tlen : - 2 ^ 63 <= r_tlen r < 2 ^ 63;
  v_mapq : 0 <= r_mapq r < 256;
  v_cigar : Forall (fun co => 0 <= co < 2 ^ 32 /\ co mod 16 <= maxop) (r_cigar r);
  v_seq : seq_ok (r_seqlen r) (r_seq r);
  v_cigseq : r_cigar r = [] \/ r_seqlen r = 0 \/ cigar_is_valid (r_cigar r) (r_seqlen r) = Ok true;
  v_qual : qual_ok (r_seqlen r) (r_qual r);
  v_aux : Forall aux_ok (r_aux r)
}.

(* --------------------------------------------------------- the line itself *)

Lemma s64_id : forall x, - 2 ^ 63 <= x < 2 ^ 63 -> s64 x = x.
Proof. intros x H. unfold s64, wraps. change (64 - 1) with 63. rewrite Z.mod_small; lia. Qed.

Lemma fmt_line : forall a ff p c d e f g i j k l,
  fpiece 118 ff = Some p ->
  sprintf sam_MarshalSAM_format [FS a; ff; FS c; FD d; FD e; FS f; FS g; FD i; FD j; FS k; FS l]
  = Some (join 9 [a; p; c; print_Z d; print_Z e; f; g; print_Z i; print_Z j; k; l]).
Proof.
  intros. unfold sam_MarshalSAM_format.
  cbn [sprintf fpiece Z.eqb Pos.eqb orb option_map]. rewrite H.
  cbn [sprintf fpiece Z.eqb Pos.eqb orb option_map join app]. rewrite app_nil_r. reflexivity.
Qed.

Lemma join_app : forall sep fs gs, fs <> [] ->
  join sep (fs ++ gs) = join sep fs ++ flat_map (fun g => sep :: g) gs.
Proof.
  induction fs as [|f fs IH]; intros gs H; [congruence|].
  destruct fs as [|f2 fs].
  - destruct gs as [|g gs]; simpl; [rewrite app_nil_r; reflexivity|].
    f_equal. f_equal. clear. revert g. induction gs as [|g2 gs IH]; intro g; simpl.
    + rewrite app_nil_r. reflexivity.
    + rewrite IH. reflexivity.
  - change (join sep ((f :: f2 :: fs) ++ gs)) with (f ++ sep :: join sep ((f2 :: fs) ++ gs)).
    rewrite IH by congruence. change (join sep (f :: f2 :: fs)) with (f ++ sep :: join sep (f2 :: fs)).
    rewrite <- app_assoc. reflexivity.
Qed.

(* ------------------------------------------------------------------ CIGAR *)

Lemma cig_type_mod : forall co, 0 <= co -> cig_type co = co mod 16.
Proof. intros. unfold cig_type. change 15 with (Z.ones 4). rewrite Z.land_ones by lia. reflexivity. Qed.
Lemma cig_len_div : forall co, cig_len co = co / 16.
Proof. intros. unfold cig_len. rewrite Z.shiftr_div_pow2 by lia. reflexivity. Qed.

Lemma small_cases : forall t n, 0 <= t <= n -> n = 9 ->
  t = 0 \/ t = 1 \/ t = 2 \/ t = 3 \/ t = 4 \/ t = 5 \/ t = 6 \/ t = 7 \/ t = 8 \/ t = 9.
Proof. intros. lia. Qed.

Lemma cig_type_string_spec : forall t, 0 <= t <= 8 ->
  cig_type_string t = [nth (Z.to_nat t) spec_ops 63].
Proof.
  intros t H. assert (C := small_cases t 9 ltac:(lia) eq_refl).
  repeat (destruct C as [C|C]; [subst; reflexivity|]). lia.
Qed.

Lemma cig_op_string_spec : forall co, 0 <= co -> co mod 16 <= 8 ->
  cig_op_string co = Some (print_Z (co / 16) ++ [nth (Z.to_nat (co mod 16)) spec_ops 63]).
Proof.
  intros co H0 H. unfold cig_op_string. rewrite cig_len_div, cig_type_mod by assumption.
  rewrite cig_type_string_spec by (split; [apply Z.mod_pos_bound; lia|assumption]).
  unfold sam_CigarOp_formats. cbn [nth sprintf fpiece Z.eqb Pos.eqb orb option_map app].
  try rewrite app_nil_r; reflexivity.
Qed.

Lemma cig_ops_string_spec : forall c,
  Forall (fun co => 0 <= co < 2 ^ 32 /\ co mod 16 <= 8) c ->
  cig_ops_string c = Some (flat_map (fun lo => print_Z (fst lo) ++ [nth (Z.to_nat (snd lo)) spec_ops 63])
                                    (map (fun co => (co / 16, co mod 16)) c)).
Proof.
  induction c as [|co c IH]; intro H; [reflexivity|].
  inversion H as [|? ? [H1 H2] H3]; subst.
  cbn [cig_ops_string map flat_map]. rewrite cig_op_string_spec by lia. rewrite IH by assumption.
  reflexivity.
Qed.

Lemma cigar_string_spec : forall c,
  Forall (fun co => 0 <= co < 2 ^ 32 /\ co mod 16 <= 8) c ->
  cigar_string c = Some (spec_cigar (map (fun co => (co / 16, co mod 16)) c)).
Proof.
  intros c H. destruct c as [|co c]; [reflexivity|].
  unfold cigar_string, spec_cigar. rewrite cig_ops_string_spec by assumption. reflexivity.
Qed.

(* ------------------------------------------------------------- references *)

Lemma ref_name_spec : forall h r, ref_ok h r -> ref_name h r = Some (star_or (view_name h r)).
Proof.
  intros h [i|] H; [|reflexivity]. simpl in *.
  destruct (nth_error h i) eqn:E; [reflexivity|]. apply nth_error_None in E. lia.
Qed.

Lemma nodup_nth_inj : forall (l : list (list Z)) i j a b,
  NoDup l -> nth_error l i = Some a -> nth_error l j = Some b -> a = b -> i = j.
Proof.
  intros l i j a b N Hi Hj E. subst b.
  eapply NoDup_nth_error; eauto. { apply nth_error_Some. congruence. } congruence.
Qed.

Lemma format_mate_spec : forall h ref mate, hdr_ok h -> ref_ok h ref -> ref_ok h mate ->
  format_mate h ref mate =
  Some (match view_name h mate, view_name h ref with
        | Some m, Some r => if beq m r then [61] else m
        | Some m, None => m
        | None, _ => [42]
        end).
Proof.
  intros h ref mate [Hnd Hnames] Hr Hm.
  destruct mate as [j|]; [|reflexivity].
  simpl in Hm. unfold format_mate.
  destruct (nth_error h j) as [[mn ml]|] eqn:Ej; [|apply nth_error_None in Ej; lia].
  destruct ref as [i|].
  - simpl in Hr. destruct (nth_error h i) as [[rn rl]|] eqn:Ei; [|apply nth_error_None in Ei; lia].
    cbn [oref_eqb view_name ref_name]. rewrite Ej, Ei. cbn [option_map fst].
    destruct (Nat.eqb i j) eqn:Eij.
    + apply Nat.eqb_eq in Eij. subst. rewrite Ei in Ej. inversion Ej; subst. rewrite beq_refl. reflexivity.
    + destruct (beq mn rn) eqn:Eb; [|reflexivity].
      apply beq_true_iff in Eb. subst. apply Nat.eqb_neq in Eij. exfalso. apply Eij.
      eapply (nodup_nth_inj (map fst h) i j rn rn); eauto.
      * rewrite nth_error_map, Ei. reflexivity.
      * rewrite nth_error_map, Ej. reflexivity.
  - cbn [oref_eqb view_name ref_name]. rewrite Ej. reflexivity.
Qed.

(* ---------------------------------------------------------------- quality *)

Lemma existsb_all_ff : forall q, existsb (fun v => negb (v =? 255)) q = negb (all_ff q).
Proof.
  induction q as [|v q IH]; [reflexivity|]. simpl. rewrite IH. destruct (v =? 255); reflexivity.
Qed.

(** Phred values of the specification: 0..93 (or the field is absent) *)
Definition phred_ok (q : option (list Z)) : Prop :=
  match q with
  | None => True
  | Some l => all_ff l = true \/ Forall (fun v => 0 <= v <= 93) l
  end.

Lemma map_u8_phred : forall l, Forall (fun v => 0 <= v <= 93) l ->
  map (fun p => u8 (p + 33)) l = map (fun p => p + 33) l.
Proof.
  induction 1 as [|v l Hv Hl IH]; [reflexivity|]. simpl. rewrite IH. f_equal.
  unfold u8, wrapu. apply Z.mod_small. lia.
Qed.

Lemma format_qual_spec : forall q, phred_ok q ->
  format_qual (match q with Some l => l | None => [] end) =
  match (match q with None => None | Some l => if all_ff l then None else Some l end) with
  | None => [42]
  | Some l => map (fun p => p + 33) l
  end.
Proof.
  intros [l|] H; [|reflexivity].
  unfold format_qual. rewrite existsb_all_ff. destruct (all_ff l) eqn:E; [reflexivity|].
  cbn [negb]. destruct H as [H|H]; [congruence|]. apply map_u8_phred. assumption.
Qed.

(* --------------------------------------------------------------- sequence *)

(** the nucleotide letters of the code are those of the specification *)
Lemma n16TableRev_is_spec : sam_n16TableRev = spec_bases.
Proof. reflexivity. Qed.

Lemma even_of_nat : forall i, (Z.land (Z.of_nat i) 1 =? 0) = Nat.even i.
Proof.
  intro i. change 1 with (Z.ones 1). rewrite Z.land_ones by lia. change (2 ^ 1) with 2.
  destruct (Nat.even i) eqn:E.
  - apply Nat.even_spec in E. destruct E as [k ->]. apply Z.eqb_eq. lia.
  - assert (O : Nat.odd i = true) by (rewrite <- Nat.negb_even, E; reflexivity).
    apply Nat.odd_spec in O. destruct O as [k ->]. apply Z.eqb_neq. lia.
Qed.

Lemma div2_of_nat : forall i, Z.to_nat (Z.shiftr (Z.of_nat i) 1) = Nat.div2 i.
Proof.
  intro i. rewrite Z.shiftr_div_pow2 by lia. change (2 ^ 1) with 2.
  rewrite Nat.div2_div. rewrite <- (Nat2Z.id (i / 2)). f_equal. rewrite Nat2Z.inj_div. reflexivity.
Qed.

Lemma expand_from_spec : forall ds len fuel i,
  Forall (fun d => 0 <= d < 256) ds -> (len + 1) / 2 <= zlen ds ->
  Z.of_nat i + Z.of_nat fuel = len ->
  expand_from fuel (Z.of_nat i) len ds = Ok (map (base_at ds) (seq i fuel)).
Proof.
  intros ds len fuel. induction fuel as [|f IH]; intros i Hb Hl Hi; [reflexivity|].
  cbn [expand_from seq map].
  destruct (len <=? Z.of_nat i) eqn:E; [apply Z.leb_le in E; lia|]. clear E.
  assert (Hk : 0 <= Z.shiftr (Z.of_nat i) 1 < zlen ds).
  { rewrite Z.shiftr_div_pow2 by lia. change (2 ^ 1) with 2. lia. }
  unfold chk at 1. unfold inb at 1.
  destruct ((0 <=? Z.shiftr (Z.of_nat i) 1) && (Z.shiftr (Z.of_nat i) 1 <? zlen ds)) eqn:E;
    [|apply andb_false_iff in E; destruct E as [E|E]; [apply Z.leb_gt in E|apply Z.ltb_ge in E]; lia].
  clear E.
  unfold getz at 1 2 3. rewrite div2_of_nat.
  set (d := nth (Nat.div2 i) ds 0).
  assert (Hd : 0 <= d < 256).
  { rewrite Forall_forall in Hb. apply Hb. apply nth_In.
    unfold zlen in Hk. rewrite <- div2_of_nat. lia. }
  rewrite even_of_nat.
  assert (Hn : 0 <= (if Nat.even i then Z.shiftr d 4 else Z.land d 15) < 16).
  { destruct (Nat.even i).
    - rewrite Z.shiftr_div_pow2 by lia. change (2 ^ 4) with 16. lia.
    - change 15 with (Z.ones 4). rewrite Z.land_ones by lia. change (2 ^ 4) with 16. lia. }
  unfold chk, inb. change (zlen sam_n16TableRev) with 16.
  destruct ((0 <=? (if Nat.even i then Z.shiftr d 4 else Z.land d 15)) &&
            ((if Nat.even i then Z.shiftr d 4 else Z.land d 15) <? 16)) eqn:E;
    [|apply andb_false_iff in E; destruct E as [E|E]; [apply Z.leb_gt in E|apply Z.ltb_ge in E]; lia].
  clear E.
  replace (Z.of_nat i + 1) with (Z.of_nat (S i)) by lia.
  rewrite IH by (auto; lia). cbn [obind]. f_equal. f_equal.
  unfold base_at, getz. rewrite ?div2_of_nat. fold d. rewrite n16TableRev_is_spec.
  destruct (Nat.even i).
  - rewrite Z.shiftr_div_pow2 by lia. reflexivity.
  - change 15 with (Z.ones 4). rewrite Z.land_ones by lia. reflexivity.
Qed.

Lemma format_seq_spec : forall len ds, seq_ok len ds ->
  format_seq len ds = Ok (match map (base_at ds) (seq 0 (Z.to_nat len)) with [] => [42] | q => q end).
Proof.
  intros len ds (H0 & Hl & Hb & _). unfold format_seq.
  destruct (len =? 0) eqn:E.
  - apply Z.eqb_eq in E. subst. reflexivity.
  - apply Z.eqb_neq in E. unfold expand.
    destruct (len <? 0) eqn:E2; [apply Z.ltb_lt in E2; lia|].
    pose proof (expand_from_spec ds len (Z.to_nat len) 0 Hb ltac:(lia) ltac:(lia)) as X.
    change (Z.of_nat 0) with 0 in X. rewrite X.
    destruct (Z.to_nat len) eqn:E3; [lia|]. reflexivity.
Qed.

(* -------------------------------------------------------------------- aux *)

Lemma utf8_small : forall c, 0 <= c < 128 -> utf8_byte c = [c].
Proof. intros c H. unfold utf8_byte. destruct (c <? 128) eqn:E; [reflexivity|apply Z.ltb_ge in E; lia]. Qed.

Lemma map_opt_map : forall {A B} (f : A -> option B) (g : A -> B) l,
  (forall x, f x = Some (g x)) -> map_opt f l = Some (map g l).
Proof. intros A B f g l H. induction l as [|x l IH]; [reflexivity|]. simpl. rewrite H, IH. reflexivity. Qed.

Section AuxFormat.
  Variable fmt_f32 : Z -> list Z.
  Opaque print_Z hex_bytes_upper.

  Lemma kind_int : forall ty n, int_type ty -> aux_kind (AvInt ty n) = 105.
  Proof. intros ty n H. destruct H as [-> | [-> | [-> | [-> | [-> | ->]]]]]; reflexivity. Qed.

  Lemma format_aux_spec : forall a, auxv_ok (a_val a) ->
    format_aux fmt_f32 a = Some (spec_opt fmt_f32 ([a_t0 a; a_t1 a], view_val (a_val a))).
  Proof.
    intros [t0 t1 v] H. unfold format_aux, spec_opt, aux_formats, sam_samAux_formats.
    cbn [a_t0 a_t1 a_val fst snd] in *.
    destruct v as [c|ty n|b|s|b|ty vs|vs]; cbn [auxv_ok] in H.
    - (* A *)
      change (aux_kind (AvA c)) with 65.
      cbn [nth sprintf fpiece Z.eqb Pos.eqb orb option_map app view_val spec_value].
      change (utf8_byte 65) with [65]. rewrite utf8_small by lia. reflexivity.
    - (* integer *)
      rewrite kind_int by (eapply int_type_ok_type; eauto).
      cbn [nth sprintf fpiece Z.eqb Pos.eqb orb option_map app view_val spec_value].
      change (utf8_byte 105) with [105]. rewrite ?app_nil_r. reflexivity.
    - change (aux_kind (AvF b)) with 102.
      cbn [nth sprintf fpiece Z.eqb Pos.eqb orb option_map app view_val spec_value].
      change (utf8_byte 102) with [102]. rewrite ?app_nil_r. reflexivity.
    - change (aux_kind (AvZ s)) with 90.
      cbn [nth sprintf fpiece Z.eqb Pos.eqb orb option_map app view_val spec_value].
      change (utf8_byte 90) with [90]. rewrite ?app_nil_r. reflexivity.
    - change (aux_kind (AvH b)) with 72.
      cbn [nth sprintf fpiece Z.eqb Pos.eqb orb option_map app view_val spec_value].
      change (utf8_byte 72) with [72]. rewrite ?app_nil_r. reflexivity.
    - (* B, integers *)
      destruct H as [Ht _]. change (aux_kind (AvBI ty vs)) with 66.
      rewrite (map_opt_map _ (fun v => 44 :: print_Z v)).
      2:{ intro. cbn [nth sprintf fpiece Z.eqb Pos.eqb orb option_map app]. rewrite app_nil_r. reflexivity. }
      rewrite <- flat_map_concat_map.
      cbn [nth sprintf fpiece Z.eqb Pos.eqb orb option_map app view_val spec_value].
      change (utf8_byte 66) with [66].
      rewrite utf8_small by (destruct Ht as [-> | [-> | [-> | [-> | [-> | ->]]]]]; lia).
      rewrite ?app_nil_r. cbn [app]. reflexivity.
    - (* B, floats *)
      change (aux_kind (AvBF vs)) with 66.
      rewrite (map_opt_map _ (fun v => 44 :: fmt_f32 v)).
      2:{ intro. cbn [nth sprintf fpiece Z.eqb Pos.eqb orb option_map app]. rewrite app_nil_r. reflexivity. }
      rewrite <- flat_map_concat_map.
      cbn [nth sprintf fpiece Z.eqb Pos.eqb orb option_map app view_val spec_value].
      change (utf8_byte 66) with [66]. change (utf8_byte 102) with [102].
      rewrite ?app_nil_r. cbn [app]. reflexivity.
  Qed.

  Lemma format_auxes_spec : forall l, Forall aux_ok l ->
    format_auxes fmt_f32 l =
    Some (flat_map (fun g => 9 :: g) (map (spec_opt fmt_f32) (map (fun a => ([a_t0 a; a_t1 a], view_val (a_val a))) l))).
  Proof.
    induction l as [|a l IH]; intro H; [reflexivity|].
    inversion H as [|? ? (_ & _ & Ha) Hl]; subst.
    cbn [format_auxes map flat_map]. rewrite format_aux_spec by assumption.
    rewrite IH by assumption. unfold sam_MarshalSAM_auxformat.
    cbn [sprintf fpiece Z.eqb Pos.eqb orb option_map app]. rewrite app_nil_r. reflexivity.
  Qed.
End AuxFormat.

(* ----------------------------------------------------------- the theorem *)

Section FormatSpec.
  Variable fmt_f32 : Z -> list Z.

  Lemma format_record_fields : forall h r ff p fl,
    valid 8 h r -> phred_ok (r_qual r) ->
    (fl = sam_FlagDecimal \/ fl = sam_FlagHex) ->
    format_flags (r_flags r) fl = Ok ff -> fpiece 118 ff = Some p ->
    format_record fmt_f32 h fl r = Ok (spec_format fmt_f32 p (view h r)).
  Proof.
    intros h r ff p fl V Hq Hfl Hff Hp. destruct V.
    unfold format_record.
    assert (R : (fl <? sam_FlagDecimal) || (sam_FlagString <? fl) = false)
      by (destruct Hfl; subst; reflexivity).
    rewrite R. clear R.
    assert (Q : match r_qual r with Some q => negb (zlen q =? r_seqlen r) | None => false end = false).
    { destruct (r_qual r) as [q|]; [|reflexivity]. destruct v_qual0 as [E _]. rewrite E, Z.eqb_refl. reflexivity. }
    rewrite Q. clear Q.
    rewrite Hff. cbn [obind].
    rewrite ref_name_spec by assumption. cbn [of_opt obind].
    rewrite cigar_string_spec by assumption. cbn [of_opt obind].
    rewrite format_mate_spec by assumption. cbn [of_opt obind].
    rewrite format_seq_spec by assumption. cbn [obind].
    rewrite (format_qual_spec (r_qual r)) by assumption.
    rewrite !s64_id by lia.
    erewrite fmt_line by eassumption. cbn [of_opt obind].
    rewrite format_auxes_spec by assumption. cbn [of_opt obind].
    unfold spec_format. rewrite join_app by congruence. reflexivity.
  Qed.

  Theorem format_is_spec_gen : forall h r,
    valid 8 h r -> phred_ok (r_qual r) ->
    format_record fmt_f32 h sam_FlagDecimal r = Ok (spec_format fmt_f32 (print_Z (r_flags r)) (view h r)) /\
    format_record fmt_f32 h sam_FlagHex r =
      Ok (spec_format fmt_f32 ([48; 120] ++ print_hex (r_flags r)) (view h r)).
  Proof.
    intros h r V Hq. split.
    - eapply format_record_fields; eauto; reflexivity.
    - eapply format_record_fields; eauto.
      + unfold format_flags. cbn [Z.eqb sam_FlagHex sam_FlagDecimal Pos.eqb].
        unfold sam_formatFlags_hexformat. cbn [sprintf fpiece Z.eqb Pos.eqb orb option_map app].
        destruct V. destruct (r_flags r <? 0) eqn:E; [apply Z.ltb_lt in E; lia|]. reflexivity.
      + cbn. rewrite app_nil_r. reflexivity.
  Qed.
End FormatSpec.

Lemma tables_are_spec :
  sam_n16TableRev = spec_bases /\ map (fun s => hd 0 s) (firstn 9 sam_cigarOps) = spec_ops
  /\ firstn 9 sam_cigarLetters = spec_ops.
Proof. repeat split; reflexivity. Qed.
