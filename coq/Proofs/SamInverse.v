(** C06 — inverse lemmas: ParseCigar after Cigar.String, contract after
    Expand, quality -33 after +33. *)
From Coq Require Import ZArith List Bool Lia.
From Hts Require Import Base.Prim Generated Model.SamText Model.SamSpec Proofs.SamBytes Proofs.SamFormat Proofs.SamParse.
Import ListNotations.
Open Scope Z_scope.
Ltac Zify.zify_post_hook ::= Z.div_mod_to_equations.

(* ------------------------------------------------------------ bit split *)

Lemma lor_split4 : forall x, 0 <= x -> Z.lor (Z.shiftl (Z.shiftr x 4) 4) (Z.land x 15) = x.
Proof.
  intros x Hx. apply Z.bits_inj'. intros m Hm.
  rewrite Z.lor_spec. change 15 with (Z.ones 4). rewrite Z.land_spec.
  destruct (Z.ltb_spec m 4).
  - rewrite Z.shiftl_spec_low by assumption. rewrite Z.ones_spec_low by lia. rewrite andb_true_r. reflexivity.
  - rewrite Z.shiftl_spec by assumption. rewrite Z.shiftr_spec by lia.
    rewrite Z.ones_spec_high by lia. rewrite andb_false_r, orb_false_r. f_equal. lia.
Qed.

Lemma lor_divmod16 : forall x, 0 <= x -> Z.lor (16 * (x / 16)) (x mod 16) = x.
Proof.
  intros x Hx. rewrite <- (lor_split4 x Hx) at 3.
  rewrite Z.shiftl_mul_pow2, Z.shiftr_div_pow2 by lia. change (2 ^ 4) with 16.
  change 15 with (Z.ones 4). rewrite Z.land_ones by lia. change (2 ^ 4) with 16.
  f_equal. lia.
Qed.

(* ----------------------------------------------------------------- digits *)

Definition all_digits (l : list Z) : Prop := Forall (fun c => is_digit c = true) l.

Lemma print_nat10_digits : forall n, 0 <= n -> all_digits (print_nat_base 10 n).
Proof.
  intros n Hn. unfold all_digits, print_nat_base.
  assert (F := pdigits_chars 10 (S (Z.to_nat (Z.log2 n))) n ltac:(lia) Hn).
  eapply Forall_impl; [|exact F]. intros c (d & Hd & ->).
  unfold digit_char. destruct (d <? 10) eqn:E; [|apply Z.ltb_ge in E; lia].
  unfold is_digit. apply andb_true_iff. split; apply Z.leb_le; lia.
Qed.

Lemma span_digits_app : forall l c rest, all_digits l -> is_digit c = false ->
  span_digits (l ++ c :: rest) = (l, c :: rest).
Proof.
  induction l as [|x l IH]; intros c rest Hl Hc.
  - cbn [app span_digits]. rewrite Hc. reflexivity.
  - inversion Hl; subst. cbn [app span_digits]. rewrite H1. rewrite IH by assumption. reflexivity.
Qed.

Lemma digits_val_dec : forall l acc, all_digits l -> digits_val 10 false l acc = Some (dec_val l acc).
Proof.
  induction l as [|c l IH]; intros acc H; [reflexivity|].
  inversion H as [|? ? Hc Hl]; subst. cbn [digits_val dec_val].
  rewrite andb_false_r. unfold digit_val. rewrite Hc.
  unfold is_digit in Hc. apply andb_true_iff in Hc. destruct Hc as [H1 H2].
  apply Z.leb_le in H1. apply Z.leb_le in H2.
  destruct (10 <=? c - 48) eqn:E; [apply Z.leb_le in E; lia|].
  rewrite IH by assumption. f_equal. f_equal. unfold u8, wrapu. rewrite Z.mod_small by lia. lia.
Qed.

Lemma pdigits_length : forall fuel k n, 0 <= n < 10 ^ Z.of_nat (S k) ->
  (length (pdigits 10 fuel n) <= S k)%nat.
Proof.
  induction fuel as [|f IH]; intros k n H; cbn [pdigits length]; [lia|].
  destruct (n <? 10) eqn:E; [cbn; lia|]. apply Z.ltb_ge in E.
  rewrite app_length. cbn [length].
  destruct k as [|k].
  - change (10 ^ Z.of_nat 1) with 10 in H. lia.
  - assert (length (pdigits 10 f (n / 10)) <= S k)%nat.
    { apply IH. rewrite (Nat2Z.inj_succ (S k)), Z.pow_succ_r in H by lia. lia. }
    lia.
Qed.

Lemma cigar_atoi_print : forall n, 0 <= n < 2 ^ 28 -> cigar_atoi (print_nat_base 10 n) = Some n.
Proof.
  intros n H. unfold cigar_atoi.
  assert (L : (length (print_nat_base 10 n) <= 9)%nat).
  { unfold print_nat_base. apply (pdigits_length _ 8).
    assert (E9 : 10 ^ Z.of_nat 9 = 1000000000) by reflexivity. rewrite E9.
    assert (E28 : 2 ^ 28 = 268435456) by reflexivity. rewrite E28 in H. lia. }
  change (zlen sam_powers) with 13. unfold zlen.
  destruct (13 <? Z.of_nat (length (print_nat_base 10 n))) eqn:E; [apply Z.ltb_lt in E; lia|].
  f_equal.
  assert (V := print_nat_base_val 10 false n ltac:(lia) ltac:(lia)).
  rewrite digits_val_dec in V by (apply print_nat10_digits; lia). congruence.
Qed.

(* ------------------------------------------------------------------ CIGAR *)

Lemma op_cases : forall t, 0 <= t <= 8 ->
  t = 0 \/ t = 1 \/ t = 2 \/ t = 3 \/ t = 4 \/ t = 5 \/ t = 6 \/ t = 7 \/ t = 8.
Proof. intros. lia. Qed.

Lemma spec_op_facts : forall t, 0 <= t <= 8 ->
  let c := nth (Z.to_nat t) spec_ops 63 in
  is_digit c = false /\ cigar_lookup c = t /\ c <> 9.
Proof.
  intros t H. assert (C := op_cases t H).
  repeat (destruct C as [C|C]; [subst; cbv zeta; split; [reflexivity|split; [reflexivity|vm_compute; discriminate]]|]).
  subst; cbv zeta; split; [reflexivity|split; [reflexivity|vm_compute; discriminate]].
Qed.

Lemma new_cigar_op_back : forall co, 0 <= co < 2 ^ 32 ->
  new_cigar_op (co mod 16) (Z.min (co / 16) cig_max) = Ok co.
Proof.
  intros co H. unfold new_cigar_op, cig_max.
  change (2 ^ 32) with 4294967296 in H. change (2 ^ 28 - 1) with 268435455.
  rewrite Z.min_l by lia.
  destruct ((co / 16 <? 0) || (268435455 <? co / 16)) eqn:E.
  { apply orb_true_iff in E. destruct E as [E|E]; apply Z.ltb_lt in E; lia. }
  f_equal. unfold u32, wrapu. change (2 ^ 32) with 4294967296.
  rewrite (Z.mod_small (co mod 16)) by lia. rewrite (Z.mod_small (co / 16)) by lia.
  rewrite Z.shiftl_mul_pow2 by lia. change (2 ^ 4) with 16.
  rewrite (Z.mod_small (co / 16 * 16)) by lia. rewrite Z.lor_comm. rewrite (Z.mul_comm (co / 16) 16).
  apply lor_divmod16. lia.
Qed.

Lemma cig_emit_one : forall co acc, 0 <= co < 2 ^ 32 ->
  cig_emit (cig_emit_fuel (co / 16)) (co mod 16) (co / 16) acc = Ok (co / 16 - cig_max, acc ++ [co]).
Proof.
  intros co acc H. unfold cig_emit_fuel. cbn [cig_emit]. rewrite new_cigar_op_back by assumption.
  unfold cig_max. change (2 ^ 32) with 4294967296 in H. change (2 ^ 28 - 1) with 268435455.
  destruct (co / 16 - 268435455 <=? 0) eqn:E; [reflexivity|apply Z.leb_gt in E; lia].
Qed.

(** the text of a non-empty CIGAR, as SAMv1 writes it *)
Definition cigar_text (c : list Z) : list Z :=
  flat_map (fun lo => print_Z (fst lo) ++ [nth (Z.to_nat (snd lo)) spec_ops 63])
           (map (fun co => (co / 16, co mod 16)) c).

Lemma parse_cigar_loop_text : forall c fuel op n acc,
  Forall (fun co => 0 <= co < 2 ^ 32 /\ co mod 16 <= 8) c ->
  (length (cigar_text c) < fuel)%nat ->
  parse_cigar_loop fuel (cigar_text c) op n acc = Ok (acc ++ c).
Proof.
  induction c as [|co c IH]; intros fuel op n acc H Hf.
  - destruct fuel; [inversion Hf|]. cbn. rewrite app_nil_r. reflexivity.
  - inversion H as [|? ? [H1 H2] H3]; subst.
    destruct fuel as [|f]; [inversion Hf|].
    unfold cigar_text in *. cbn [map flat_map fst snd] in *.
    set (rest := flat_map (fun lo => print_Z (fst lo) ++ [nth (Z.to_nat (snd lo)) spec_ops 63])
                          (map (fun co => (co / 16, co mod 16)) c)) in *.
    assert (Hm : 0 <= co mod 16 <= 8) by (split; [apply Z.mod_pos_bound; lia|assumption]).
    destruct (spec_op_facts (co mod 16) Hm) as (Hd & Hl & _).
    set (letter := nth (Z.to_nat (co mod 16)) spec_ops 63) in *.
    assert (Hp : print_Z (co / 16) = print_nat_base 10 (co / 16)).
    { unfold print_Z. destruct (co / 16 <? 0) eqn:E; [apply Z.ltb_lt in E; lia|reflexivity]. }
    rewrite Hp in *.
    assert (NE : print_nat_base 10 (co / 16) <> []) by apply pdigits_nonempty.
    rewrite <- app_assoc in *. cbn [app] in *.
    destruct (print_nat_base 10 (co / 16) ++ letter :: rest) as [|x xs] eqn:Ex.
    { apply app_eq_nil in Ex. destruct Ex. contradiction. }
    cbn [parse_cigar_loop].
    assert (HL : length (x :: xs) = length (print_nat_base 10 (co / 16) ++ letter :: rest))
      by (rewrite Ex; reflexivity).
    rewrite <- Ex. rewrite span_digits_app by (auto; apply print_nat10_digits; lia).
    rewrite cigar_atoi_print by (change (2 ^ 32) with 4294967296 in H1; change (2 ^ 28) with 268435456; lia).
    rewrite Hl.
    destruct (co mod 16 =? sam_lastCigar) eqn:E; [apply Z.eqb_eq in E; change sam_lastCigar with 10 in E; lia|].
    rewrite cig_emit_one by assumption. cbn [obind].
    rewrite IH; auto.
    + rewrite <- app_assoc. reflexivity.
    + fold rest. rewrite app_length in HL. cbn [length] in *. lia.
Qed.

Lemma cigar_text_head : forall co c, 0 <= co ->
  exists d t, cigar_text (co :: c) = d :: t /\ is_digit d = true.
Proof.
  intros co c H. unfold cigar_text. cbn [map flat_map fst snd].
  assert (Hp : print_Z (co / 16) = print_nat_base 10 (co / 16)).
  { unfold print_Z. destruct (co / 16 <? 0) eqn:E; [apply Z.ltb_lt in E; lia|reflexivity]. }
  rewrite Hp.
  assert (D := print_nat10_digits (co / 16) ltac:(lia)).
  assert (NE : print_nat_base 10 (co / 16) <> []) by apply pdigits_nonempty.
  destruct (print_nat_base 10 (co / 16)) as [|d t]; [congruence|].
  inversion D; subst. eexists _, _. split; [reflexivity|assumption].
Qed.

(** ParseCigar reads back what Cigar.String writes (operations of SAMv1) *)
Theorem parse_cigar_back : forall c,
  Forall (fun co => 0 <= co < 2 ^ 32 /\ co mod 16 <= 8) c ->
  parse_cigar (spec_cigar (map (fun co => (co / 16, co mod 16)) c)) = Ok c.
Proof.
  intros c H. destruct c as [|co c]; [reflexivity|].
  change (spec_cigar (map (fun co0 => (co0 / 16, co0 mod 16)) (co :: c))) with (cigar_text (co :: c)).
  inversion H as [|? ? [H1 _] _]; subst.
  destruct (cigar_text_head co c ltac:(lia)) as (d & t & Et & Hd).
  unfold parse_cigar.
  assert (Nb : beq (cigar_text (co :: c)) [42] = false).
  { apply beq_false_iff. rewrite Et. intro X. inversion X; subst. discriminate. }
  rewrite Nb. rewrite parse_cigar_loop_text; auto.
Qed.

Lemma cigar_text_free : forall c,
  Forall (fun co => 0 <= co < 2 ^ 32 /\ co mod 16 <= 8) c ->
  free 9 (spec_cigar (map (fun co => (co / 16, co mod 16)) c)).
Proof.
  intros c H. destruct c as [|co c]; [apply free_cons; split; [lia|apply free_nil]|].
  change (spec_cigar (map (fun co0 => (co0 / 16, co0 mod 16)) (co :: c))) with (cigar_text (co :: c)).
  induction H as [|x l [H1 H2] Hl IH]; [apply free_nil|].
  unfold cigar_text in *. cbn [map flat_map fst snd].
  apply free_app. split; [|exact IH].
  apply free_app. split; [apply print_Z_free; lia|].
  assert (Hm : 0 <= x mod 16 <= 8) by (split; [apply Z.mod_pos_bound; lia|assumption]).
  destruct (spec_op_facts (x mod 16) Hm) as (_ & _ & N9).
  apply free_cons. split; [exact N9|apply free_nil].
Qed.

(* --------------------------------------------------------------- sequence *)

Lemma n16_back : forall k, 0 <= k < 16 -> getz sam_n16Table (nth (Z.to_nat k) spec_bases 0) = k.
Proof.
  intros k H.
  assert (C : k = 0 \/ k = 1 \/ k = 2 \/ k = 3 \/ k = 4 \/ k = 5 \/ k = 6 \/ k = 7 \/ k = 8 \/ k = 9
            \/ k = 10 \/ k = 11 \/ k = 12 \/ k = 13 \/ k = 14 \/ k = 15) by lia.
  repeat (destruct C as [C|C]; [subst; reflexivity|]). subst; reflexivity.
Qed.

Lemma base_at_0 : forall d ds, base_at (d :: ds) 0 = nth (Z.to_nat (d / 16)) spec_bases 0.
Proof. reflexivity. Qed.
Lemma base_at_1 : forall d ds, base_at (d :: ds) 1 = nth (Z.to_nat (d mod 16)) spec_bases 0.
Proof. reflexivity. Qed.
Lemma base_at_SS : forall d ds j, base_at (d :: ds) (S (S j)) = base_at ds j.
Proof. intros. unfold base_at. cbn [Nat.div2 Nat.even nth]. reflexivity. Qed.

Lemma seq_SS : forall m, seq 0 (S (S m)) = 0%nat :: 1%nat :: map (fun j => S (S j)) (seq 0 m).
Proof. intro m. cbn [seq]. f_equal. f_equal. rewrite <- seq_shift, <- seq_shift, map_map. reflexivity. Qed.

Lemma byte_pack : forall d, 0 <= d < 256 ->
  Z.lor (u8 (Z.shiftl (d / 16) 4)) (d mod 16) = d.
Proof.
  intros d H. rewrite Z.shiftl_mul_pow2 by lia. change (2 ^ 4) with 16.
  unfold u8, wrapu. change (2 ^ 8) with 256. rewrite Z.mod_small by lia.
  rewrite Z.mul_comm. apply lor_divmod16. lia.
Qed.

(** contract after Expand gives the doublets back *)
Lemma contract_bases : forall ds n,
  length ds = Nat.div2 (S n) -> Forall (fun d => 0 <= d < 256) ds ->
  (Nat.odd n = true -> (last ds 0) mod 16 = 0) ->
  contract (map (base_at ds) (seq 0 n)) = ds.
Proof.
  induction ds as [|d ds IH]; intros n Hl Hb Ho.
  - destruct n as [|[|n]]; [reflexivity|discriminate|discriminate].
  - inversion Hb as [|? ? Hd Hds]; subst.
    destruct n as [|[|m]].
    + discriminate.
    + (* one base *)
      destruct ds; [|discriminate].
      cbn [seq map]. rewrite base_at_0. cbn [contract].
      rewrite n16_back by lia.
      specialize (Ho eq_refl). cbn [last] in Ho.
      rewrite Z.shiftl_mul_pow2 by lia. change (2 ^ 4) with 16.
      unfold u8, wrapu. change (2 ^ 8) with 256. rewrite Z.mod_small by lia. f_equal. lia.
    + rewrite seq_SS. cbn [map]. rewrite base_at_0, base_at_1. rewrite map_map.
      rewrite (map_ext _ (base_at ds)) by (intro; apply base_at_SS).
      cbn [contract]. rewrite !n16_back by (try apply Z.mod_pos_bound; lia).
      rewrite byte_pack by assumption. f_equal.
      apply IH; [|assumption|].
      * change (Nat.div2 (S (S (S m)))) with (S (Nat.div2 (S m))) in Hl. cbn [length] in Hl. lia.
      * intro O. destruct ds as [|d2 ds'].
        { cbn [length] in Hl. destruct m; [discriminate|]. cbn [Nat.div2] in Hl. discriminate. }
        change (last (d :: d2 :: ds') 0) with (last (d2 :: ds') 0) in Ho. apply Ho.
        change (Nat.odd (S (S m))) with (Nat.odd m). exact O.
Qed.

Lemma bases_free : forall ds l, free 9 (map (base_at ds) l).
Proof.
  intros ds l. unfold free. intro H. apply in_map_iff in H. destruct H as (j & E & _).
  unfold base_at in E.
  set (k := Z.to_nat (if Nat.even j then nth (Nat.div2 j) ds 0 / 16 else nth (Nat.div2 j) ds 0 mod 16)) in E.
  assert (A : forall k, nth k spec_bases 0 <> 9).
  { intro k0. do 17 (destruct k0 as [|k0]; [cbn; lia|]). cbn. destruct k0; lia. }
  exact (A k E).
Qed.

Lemma bases_not_star : forall ds n, (0 < n)%nat -> Forall (fun d => 0 <= d < 256) ds ->
  (Nat.div2 (S n) <= length ds)%nat -> beq (map (base_at ds) (seq 0 n)) [42] = false.
Proof.
  intros ds n Hn Hb Hl. apply beq_false_iff. intro E.
  destruct n as [|n]; [lia|]. cbn [seq map] in E. inversion E as [[E1 E2]].
  unfold base_at in E1. cbn [Nat.even Nat.div2] in E1.
  assert (A : forall k, nth k spec_bases 0 <> 42).
  { intro k0. do 17 (destruct k0 as [|k0]; [cbn; lia|]). cbn. destruct k0; lia. }
  exact (A _ E1).
Qed.

(* ---------------------------------------------------------------- quality *)

Lemma qual_back_bytes : forall l, Forall (fun v => 0 <= v <= 93) l ->
  map (fun c => u8 (c - 33)) (map (fun p => p + 33) l) = l.
Proof.
  induction 1 as [|v l Hv Hl IH]; [reflexivity|]. cbn [map]. rewrite IH. f_equal.
  unfold u8, wrapu. change (2 ^ 8) with 256. rewrite Z.mod_small; lia.
Qed.

Lemma all_ff_repeat : forall l, all_ff l = true -> l = repeat 255 (length l).
Proof.
  induction l as [|v l IH]; intro H; [reflexivity|].
  cbn in H. apply andb_true_iff in H. destruct H as [H1 H2]. apply Z.eqb_eq in H1. subst.
  cbn [length repeat]. f_equal. apply IH. exact H2.
Qed.

Lemma phred_text_free : forall l, Forall (fun v => 0 <= v <= 93) l -> free 9 (map (fun p => p + 33) l).
Proof.
  intros l H. unfold free. intro X. apply in_map_iff in X. destruct X as (v & E & Hin).
  rewrite Forall_forall in H. apply H in Hin. lia.
Qed.
