(** C06 — UnmarshalSAM (model) inverts MarshalSAM: number texts, reference
    names, and the round trip of the record fields that are proved so far. *)
From Coq Require Import ZArith List Bool Lia.
From Hts Require Import Base.Prim Generated Model.SamText Model.SamSpec Proofs.SamBytes Proofs.SamFormat.
Import ListNotations.
Open Scope Z_scope.
Ltac Zify.zify_post_hook ::= Z.div_mod_to_equations.

(* ----------------------------------------------------------- number texts *)

Lemma no_underscore : forall b l, b <= 16 -> Forall (is_base_digit b) l -> existsb (Z.eqb 95) l = false.
Proof.
  intros b l Hb H. induction H as [|c l (d & Hd & ->) Hl IH]; [reflexivity|].
  cbn [existsb]. rewrite IH. rewrite Z.eqb_sym. rewrite digit_char_not_us by lia. reflexivity.
Qed.

Lemma print_nat10_head : forall n, 0 < n ->
  exists d t, print_nat_base 10 n = digit_char d :: t /\ 0 < d < 10.
Proof.
  intros n H. unfold print_nat_base. apply pdigits_head; [lia|]. split; [lia|]. apply log2_fuel; lia.
Qed.

(** ParseUint(s, 0, bits) reads back a decimal number *)
Lemma parse_uint0_print : forall n bits, 0 <= n < 2 ^ bits ->
  go_parse_uint (print_Z n) 0 bits = Some n.
Proof.
  intros n bits H. unfold print_Z. destruct (n <? 0) eqn:E; [apply Z.ltb_lt in E; lia|]. clear E.
  destruct (Z.eq_dec n 0) as [->|Hz].
  - unfold go_parse_uint. cbn. destruct (2 ^ bits <=? 0) eqn:E; [apply Z.leb_le in E; lia|]. reflexivity.
  - destruct (print_nat10_head n ltac:(lia)) as (d & t & Hp & Hd).
    assert (V := print_nat_base_val 10 true n ltac:(lia) ltac:(lia)).
    assert (C := pdigits_chars 10 (S (Z.to_nat (Z.log2 n))) n ltac:(lia) ltac:(lia)).
    fold (print_nat_base 10 n) in C.
    assert (U := no_underscore 10 _ ltac:(lia) C).
    rewrite Hp in *. unfold go_parse_uint. cbn [Z.eqb].
    assert (N48 : (digit_char d =? 48) = false).
    { unfold digit_char. destruct (d <? 10) eqn:E; [|apply Z.ltb_ge in E; lia]. apply Z.eqb_neq. lia. }
    rewrite N48. rewrite V.
    destruct (2 ^ bits <=? n) eqn:E; [apply Z.leb_le in E; lia|]. rewrite U. reflexivity.
Qed.

(** ParseUint(s, 10, bits) *)
Lemma parse_uint10_print : forall n bits, 0 <= n < 2 ^ bits ->
  go_parse_uint (print_Z n) 10 bits = Some n.
Proof.
  intros n bits H. unfold print_Z. destruct (n <? 0) eqn:E; [apply Z.ltb_lt in E; lia|]. clear E.
  assert (V := print_nat_base_val 10 false n ltac:(lia) ltac:(lia)).
  assert (NE : print_nat_base 10 n <> []) by apply pdigits_nonempty.
  unfold go_parse_uint. destruct (print_nat_base 10 n) as [|c0 t] eqn:Ep; [congruence|].
  cbn [Z.eqb]. rewrite V.
  destruct (2 ^ bits <=? n) eqn:E; [apply Z.leb_le in E; lia|].
  rewrite andb_false_r. reflexivity.
Qed.

(** ParseUint("0x" + hex, 0, bits) *)
Lemma parse_uint0_hex : forall n bits, 0 <= n < 2 ^ bits ->
  go_parse_uint ([48; 120] ++ print_hex n) 0 bits = Some n.
Proof.
  intros n bits H. unfold print_hex.
  assert (V := print_nat_base_val 16 true n ltac:(lia) ltac:(lia)).
  assert (C := pdigits_chars 16 (S (Z.to_nat (Z.log2 n))) n ltac:(lia) ltac:(lia)).
  fold (print_nat_base 16 n) in C.
  assert (U := no_underscore 16 _ ltac:(lia) C).
  assert (NE : print_nat_base 16 n <> []) by apply pdigits_nonempty.
  destruct (print_nat_base 16 n) as [|c0 t] eqn:Ep; [congruence|].
  unfold go_parse_uint. cbn [app Z.eqb Pos.eqb lower Z.lor Pos.lor skipn].
  rewrite V.
  destruct (2 ^ bits <=? n) eqn:E; [apply Z.leb_le in E; lia|]. rewrite U. reflexivity.
Qed.

(** Atoi reads back %d *)
Lemma atoi_print : forall z, - 2 ^ 63 <= z < 2 ^ 63 -> go_atoi (print_Z z) = Some z.
Proof.
  intros z H. unfold go_atoi, go_parse_int.
  destruct (z <? 0) eqn:E.
  - apply Z.ltb_lt in E. unfold print_Z. rewrite (proj2 (Z.ltb_lt z 0) E).
    cbn [Z.eqb Pos.eqb].
    pose proof (parse_uint10_print (- z) 64 ltac:(lia)) as P.
    unfold print_Z in P. destruct (- z <? 0) eqn:E2; [apply Z.ltb_lt in E2; lia|].
    rewrite P. change (64 - 1) with 63. cbn [negb andb].
    destruct (2 ^ 63 <? - z) eqn:E3; [apply Z.ltb_lt in E3; lia|]. f_equal. lia.
  - apply Z.ltb_ge in E.
    pose proof (parse_uint10_print z 64 ltac:(lia)) as P.
    assert (NE : print_Z z <> []).
    { unfold print_Z. destruct (z <? 0); [congruence|apply pdigits_nonempty]. }
    destruct (print_Z z) as [|c0 t] eqn:Ep; [congruence|].
    assert (Hc : (c0 =? 43) = false /\ (c0 =? 45) = false).
    { assert (F1 := print_Z_free z 43 ltac:(lia)). assert (F2 := print_Z_free z 45).
      rewrite Ep in F1. apply free_cons in F1.
      unfold print_Z in Ep. destruct (z <? 0) eqn:E4; [apply Z.ltb_lt in E4; lia|].
      assert (F3 := print_nat_base_free 10 z 45 ltac:(lia) ltac:(lia) ltac:(lia)).
      rewrite Ep in F3. apply free_cons in F3.
      split; apply Z.eqb_neq; tauto. }
    destruct Hc as [H43 H45]. rewrite H43, H45. rewrite P.
    change (64 - 1) with 63. cbn [negb andb].
    destruct (2 ^ 63 <=? z) eqn:E3; [apply Z.leb_le in E3; lia|]. reflexivity.
Qed.

(* -------------------------------------------------------- reference names *)

Lemma find_ref_nth : forall h i k n l,
  NoDup (map fst h) -> nth_error h i = Some (n, l) -> find_ref h n k = Some (k + i)%nat.
Proof.
  induction h as [|[n0 l0] h IH]; intros i k n l N E; [destruct i; discriminate|].
  destruct i as [|i].
  - simpl in E. inversion E; subst. cbn [find_ref]. rewrite beq_refl. f_equal. lia.
  - simpl in E. cbn [find_ref]. simpl in N. inversion N as [|? ? Hnin N']; subst.
    destruct (beq n0 n) eqn:Eb.
    + apply beq_true_iff in Eb. subst. exfalso. apply Hnin.
      apply in_map_iff. exists (n, l). split; [reflexivity|]. eapply nth_error_In; eauto.
    + rewrite (IH i (S k) n l N' E). f_equal. lia.
Qed.

Lemma name_of_ok : forall h i n l, hdr_ok h -> nth_error h i = Some (n, l) -> name_ok n.
Proof.
  intros h i n l [_ F] E. rewrite Forall_forall in F. apply F.
  apply in_map_iff. exists (n, l). split; [reflexivity|]. eapply nth_error_In; eauto.
Qed.

Lemma reference_for_name_spec : forall h r, hdr_ok h -> ref_ok h r ->
  reference_for_name h (star_or (view_name h r)) = Ok r.
Proof.
  intros h [i|] Hh Hr; [|reflexivity].
  simpl in Hr. cbn [view_name]. destruct (nth_error h i) as [[n l]|] eqn:E; [|apply nth_error_None in E; lia].
  cbn [option_map fst star_or]. unfold reference_for_name.
  destruct (name_of_ok h i n l Hh E) as (_ & Hs & _ & _).
  destruct (beq n [42]) eqn:Eb; [apply beq_true_iff in Eb; contradiction|].
  rewrite (find_ref_nth h i 0 n l (proj1 Hh) E). reflexivity.
Qed.

(* ------------------------------------------------------------------ mate *)

Definition rnext_text (h : header) (ref mate : option nat) : list Z :=
  match view_name h mate, view_name h ref with
  | Some m, Some r => if beq m r then [61] else m
  | Some m, None => m
  | None, _ => [42]
  end.

Lemma view_name_some : forall h i, (i < length h)%nat -> exists n l, nth_error h i = Some (n, l) /\ view_name h (Some i) = Some n.
Proof.
  intros h i H. cbn [view_name]. destruct (nth_error h i) as [[n l]|] eqn:E; [|apply nth_error_None in E; lia].
  exists n, l. split; reflexivity.
Qed.

Lemma rname_free : forall h r, hdr_ok h -> ref_ok h r -> free 9 (star_or (view_name h r)).
Proof.
  intros h [i|] Hh Hr.
  - destruct (view_name_some h i Hr) as (n & l & E & ->). cbn [star_or].
    destruct (name_of_ok h i n l Hh E) as (_ & _ & _ & F). assumption.
  - cbn. apply free_cons. split; [lia|apply free_nil].
Qed.

Lemma rnext_free : forall h ref mate, hdr_ok h -> ref_ok h ref -> ref_ok h mate -> free 9 (rnext_text h ref mate).
Proof.
  intros h ref mate Hh Hr Hm. unfold rnext_text.
  assert (F61 : free 9 [61]) by (apply free_cons; split; [lia|apply free_nil]).
  assert (F42 : free 9 [42]) by (apply free_cons; split; [lia|apply free_nil]).
  destruct mate as [j|]; [|exact F42].
  destruct (view_name_some h j Hm) as (mn & ml & Ej & ->).
  destruct (name_of_ok h j mn ml Hh Ej) as (_ & _ & _ & F).
  destruct (view_name h ref) as [rn|]; [|assumption].
  destruct (beq mn rn); assumption.
Qed.

Lemma mate_back : forall h ref mate, hdr_ok h -> ref_ok h ref -> ref_ok h mate ->
  (if beq (star_or (view_name h ref)) (rnext_text h ref mate) || beq (rnext_text h ref mate) [61]
   then Ok ref else reference_for_name h (rnext_text h ref mate)) = Ok mate.
Proof.
  intros h ref mate Hh Hr Hm. unfold rnext_text.
  destruct mate as [j|].
  - destruct (view_name_some h j Hm) as (mn & ml & Ej & Vj). rewrite Vj.
    destruct (name_of_ok h j mn ml Hh Ej) as (_ & Hms & Hme & _).
    assert (L : reference_for_name h mn = Ok (Some j)).
    { pose proof (reference_for_name_spec h (Some j) Hh Hm) as P. rewrite Vj in P. exact P. }
    destruct ref as [i|].
    + destruct (view_name_some h i Hr) as (rn & rl & Ei & Vi). rewrite Vi. cbn [star_or].
      destruct (name_of_ok h i rn rl Hh Ei) as (_ & Hrs & Hre & _).
      destruct (beq mn rn) eqn:Eb.
      * apply beq_true_iff in Eb. subst rn.
        replace (beq mn [61]) with false by (symmetry; apply beq_false_iff; assumption).
        rewrite beq_refl. cbn [orb]. f_equal. f_equal.
        eapply (nodup_nth_inj (map fst h) i j mn mn (proj1 Hh)); auto.
        -- rewrite nth_error_map, Ei. reflexivity.
        -- rewrite nth_error_map, Ej. reflexivity.
      * assert (E2 : beq rn mn = false).
        { apply beq_false_iff. intro X. subst. rewrite beq_refl in Eb. discriminate. }
        rewrite E2. replace (beq mn [61]) with false by (symmetry; apply beq_false_iff; assumption).
        cbn [orb]. exact L.
    + cbn [view_name star_or].
      replace (beq [42] mn) with false by (symmetry; apply beq_false_iff; congruence).
      replace (beq mn [61]) with false by (symmetry; apply beq_false_iff; assumption).
      cbn [orb]. exact L.
  - cbn [view_name]. destruct ref as [i|].
    + destruct (view_name_some h i Hr) as (rn & rl & Ei & Vi). rewrite Vi. cbn [star_or].
      destruct (name_of_ok h i rn rl Hh Ei) as (_ & Hrs & Hre & _).
      replace (beq rn [42]) with false by (symmetry; apply beq_false_iff; assumption).
      reflexivity.
    + reflexivity.
Qed.

(* ---------------------------------------- round trip of the core fields *)

(** Records whose variable-length parts are absent: no CIGAR, no sequence,
    no quality, no aux fields. *)
Definition core_only (r : samrec) : Prop :=
  r_cigar r = [] /\ r_seqlen r = 0 /\ r_aux r = [] /\ (r_qual r = None \/ r_qual r = Some []).

Definition core_of (r : samrec) : samrec :=
  mk_rec (r_name r) (r_flags r) (r_ref r) (r_pos r) (r_mapq r) [] (r_mref r) (r_mpos r) (r_tlen r) 0 [] None [].

Lemma seq_ok_nil : seq_ok 0 [].
Proof.
  unfold seq_ok. split; [lia|]. split; [reflexivity|]. split; [constructor|].
  intro X. cbn in X. discriminate.
Qed.

Lemma free9_star : free 9 [42].
Proof. apply free_cons. split; [lia|apply free_nil]. Qed.

Section Roundtrip.
  Variable fmt_f32 : Z -> list Z.
  Variable parse_f32 : list Z -> option Z.

  Lemma parse_core_line : forall h r ftext,
    valid 8 h r -> core_only r ->
    free 9 ftext -> go_parse_uint ftext 0 16 = Some (r_flags r) ->
    parse_record parse_f32 h (spec_format fmt_f32 ftext (view h r)) = Ok (core_of r).
  Proof.
    intros h r ftext V (Hc & Hs & Ha & Hq) Hff Hfp. destruct V.
    assert (Q : match r_qual r with None => None | Some q => if all_ff q then None else Some q end = None).
    { destruct Hq as [->| ->]; reflexivity. }
    unfold spec_format, view, spec_rnext.
    cbn [s_qname s_flag s_rname s_pos s_mapq s_cigar s_rnext s_pnext s_tlen s_seq s_qual s_opt].
    rewrite Hc, Hs, Ha, Q. cbn [map Z.to_nat seq spec_cigar app].
    fold (rnext_text h (r_ref r) (r_mref r)).
    unfold parse_record. rewrite split_join.
    2: congruence.
    2:{ repeat (apply Forall_cons || apply Forall_nil);
        auto using free9_star, rname_free, rnext_free; apply print_Z_free; lia. }
    rewrite Hfp.
    rewrite reference_for_name_spec by assumption. cbn [obind].
    unfold atoi_o. rewrite !atoi_print by lia. cbn [obind].
    rewrite parse_uint10_print by (change (2 ^ 8) with 256; lia).
    change (parse_cigar [42]) with (@Ok (list Z) []). cbn [obind].
    rewrite mate_back by assumption. cbn [obind].
    unfold parse_seq_field, parse_qual_field. change (beq [42] [42]) with true. cbn [negb obind Z.eqb zlen length Z.of_nat andb parse_auxes].
    unfold core_of. repeat f_equal; rewrite s64_id; lia.
  Qed.

  (** For every valid record without variable-length parts and both parseable
      flag formats: MarshalSAM gives a line, UnmarshalSAM of that line gives
      the record back field by field, and formatting that record gives the
      same line again. *)
  Theorem roundtrip_core_gen : forall h r fl,
    valid 8 h r -> core_only r -> (fl = sam_FlagDecimal \/ fl = sam_FlagHex) ->
    exists line,
      format_record fmt_f32 h fl r = Ok line /\
      parse_record parse_f32 h line = Ok (core_of r) /\
      format_record fmt_f32 h fl (core_of r) = Ok line.
  Proof.
    intros h r fl V C Hfl.
    assert (Pq : phred_ok (r_qual r)).
    { destruct C as (_ & _ & _ & [-> | ->]); cbn; auto. }
    assert (Vc : valid 8 h (core_of r)).
    { destruct V. destruct C as (Hc & Hs & Ha & Hq).
      constructor; cbn [core_of r_name r_flags r_ref r_mref r_pos r_mpos r_tlen r_mapq r_cigar r_seqlen r_seq r_qual r_aux];
        auto using seq_ok_nil; try constructor. }
    assert (Cc : core_only (core_of r)) by (repeat split; auto).
    assert (Vw : view h (core_of r) = view h r).
    { destruct C as (Hc & Hs & Ha & Hq). unfold view, core_of.
      cbn [r_name r_flags r_ref r_mref r_pos r_mpos r_tlen r_mapq r_cigar r_seqlen r_seq r_qual r_aux].
      rewrite Hc, Hs, Ha. destruct Hq as [-> | ->]; reflexivity. }
    destruct (format_is_spec_gen fmt_f32 h r V Pq) as [Fd Fh].
    destruct (format_is_spec_gen fmt_f32 h (core_of r) Vc I) as [Fd' Fh'].
    rewrite Vw in Fd', Fh'. cbn [core_of r_flags] in Fd', Fh'.
    destruct V.
    destruct Hfl as [-> | ->].
    - eexists. split; [exact Fd|]. split; [|exact Fd'].
      apply parse_core_line; auto; [constructor; auto| apply print_Z_free; lia | apply parse_uint0_print; lia].
    - eexists. split; [exact Fh|]. split; [|exact Fh'].
      apply parse_core_line; auto; [constructor; auto| | apply parse_uint0_hex; lia].
      apply free_cons. split; [lia|]. apply free_cons. split; [lia|]. apply print_nat_base_free; lia.
  Qed.
End Roundtrip.
