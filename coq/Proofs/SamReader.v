(** C06 — sam.Reader.Read returns exactly one result per line of the input. *)
From Coq Require Import ZArith List Bool Lia.
From Hts Require Import Base.Prim Generated Model.SamText Model.SamSpec Proofs.SamBytes.
Import ListNotations.
Open Scope Z_scope.

(** A line: no LF inside, and (after its terminator is removed) no trailing CR. *)
Definition line_ok (l : list Z) : Prop := free 10 l /\ last_is_cr l = false.

(** Only the last line may be unterminated, and then it is not empty. *)
Fixpoint lines_ok (ls : list (list Z * eol)) : Prop :=
  match ls with
  | [] => True
  | (l, e) :: t =>
      line_ok l /\ lines_ok t /\
      match t with [] => (e = ENONE -> l <> []) | _ => e <> ENONE end
  end.

Lemma read_line_lf : forall l rest, free 10 l -> read_line (l ++ 10 :: rest) = (l, Some rest).
Proof.
  induction l as [|c l IH]; intros rest H; simpl.
  - reflexivity.
  - apply free_cons in H. destruct H as [H1 H2].
    destruct (c =? 10) eqn:E; [apply Z.eqb_eq in E; contradiction|].
    rewrite IH by assumption. reflexivity.
Qed.

Lemma read_line_end : forall l, free 10 l -> read_line l = (l, None).
Proof.
  induction l as [|c l IH]; intro H; simpl; auto.
  apply free_cons in H. destruct H as [H1 H2].
  destruct (c =? 10) eqn:E; [apply Z.eqb_eq in E; contradiction|].
  rewrite IH by assumption. reflexivity.
Qed.

Lemma last_is_cr_snoc : forall l, last_is_cr (l ++ [13]) = true.
Proof. intro l. unfold last_is_cr. rewrite rev_app_distr. reflexivity. Qed.

Lemma strip_cr_snoc : forall l, strip_cr (l ++ [13]) = l.
Proof. intro l. unfold strip_cr. rewrite last_is_cr_snoc. apply removelast_last. Qed.

Lemma strip_cr_id : forall l, last_is_cr l = false -> strip_cr l = l.
Proof. intros l H. unfold strip_cr. rewrite H. reflexivity. Qed.

Section Reader.
  Variable parse_f32 : list Z -> option Z.
  Variable h : header.

  Lemma reader_all_nil : forall fuel, reader_all parse_f32 (S fuel) h [] = [].
  Proof. reflexivity. Qed.

  Lemma reader_all_lines : forall ls fuel,
    lines_ok ls -> (length (join_lines ls) < fuel)%nat ->
    reader_all parse_f32 fuel h (join_lines ls) = map (fun le => parse_record parse_f32 h (fst le)) ls.
  Proof.
    induction ls as [|[l e] t IH]; intros fuel Hok Hlen.
    - destruct fuel; [inversion Hlen|]. reflexivity.
    - destruct fuel as [|f]; [inversion Hlen|].
      destruct Hok as [[Hfree Hcr] [Hok Hlast]].
      cbn [join_lines] in *. cbn [map fst].
      destruct e; cbn [eol_bytes] in *.
      + (* LF *)
        cbn [reader_all]. unfold reader_read.
        change (l ++ [10] ++ join_lines t) with (l ++ 10 :: join_lines t).
        rewrite read_line_lf by assumption. rewrite strip_cr_id by assumption.
        f_equal. apply IH; auto.
        rewrite !app_length in Hlen. simpl in Hlen. lia.
      + (* CRLF *)
        cbn [reader_all]. unfold reader_read.
        replace (l ++ [13; 10] ++ join_lines t) with ((l ++ [13]) ++ 10 :: join_lines t)
          by (rewrite <- app_assoc; reflexivity).
        rewrite read_line_lf.
        2:{ apply free_app. split; [assumption|]. apply free_cons. split; [lia|apply free_nil]. }
        rewrite strip_cr_snoc.
        f_equal. apply IH; auto.
        rewrite !app_length in Hlen. simpl in Hlen. lia.
      + (* the unterminated last line *)
        destruct t as [|p t']; [|exfalso; apply Hlast; reflexivity].
        specialize (Hlast eq_refl).
        cbn [join_lines] in *. rewrite !app_nil_r in *.
        cbn [reader_all]. unfold reader_read.
        rewrite read_line_end by assumption.
        destruct l as [|c l']; [congruence|].
        rewrite strip_cr_id by assumption.
        destruct f as [|f']; [simpl in Hlen; lia|]. reflexivity.
  Qed.

  (** Every line of the input — LF or CRLF terminated, the last one possibly
      unterminated — is returned as exactly one result, in order, and that
      result is what UnmarshalSAM makes of the line (an error for an empty or
      malformed line, never a panic caused by the reader itself). *)
  Theorem reader_lines_gen : forall ls,
    lines_ok ls ->
    reader_run parse_f32 h (join_lines ls) = map (fun le => parse_record parse_f32 h (fst le)) ls.
  Proof.
    intros ls H. unfold reader_run. apply reader_all_lines; auto.
  Qed.
End Reader.

(** parsing the empty line is an error, not a panic *)
Lemma parse_empty_line : forall pf h, parse_record pf h [] = Err 0.
Proof. reflexivity. Qed.
