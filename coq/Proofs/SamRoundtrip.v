(** C06 — the full SAM text round trip. *)
From Coq Require Import ZArith List Bool Lia.
From Hts Require Import Base.Prim Generated Model.SamText Model.SamSpec.
From Hts Require Import Proofs.SamBytes Proofs.SamFormat Proofs.SamParse Proofs.SamInverse Proofs.SamAux.
Import ListNotations.
Open Scope Z_scope.
Ltac Zify.zify_post_hook ::= Z.div_mod_to_equations.

(** What UnmarshalSAM returns for the line of a record: the record itself up
    to the representation of an absent quality (nil when there is no
    sequence, all 0xff otherwise) and the width of aux integers (smallest). *)
Definition qual_back (seqlen : Z) (q : option (list Z)) : option (list Z) :=
  match q with
  | Some l => if all_ff l then (if seqlen =? 0 then None else Some l) else Some l
  | None => if seqlen =? 0 then None else Some (repeat 255 (Z.to_nat seqlen))
  end.

Definition rec_back (r : samrec) : samrec :=
  mk_rec (r_name r) (r_flags r) (r_ref r) (r_pos r) (r_mapq r) (r_cigar r) (r_mref r) (r_mpos r)
         (r_tlen r) (r_seqlen r) (r_seq r) (qual_back (r_seqlen r) (r_qual r)) (map aux_back (r_aux r)).

(* ------------------------------------------------------------ arithmetic *)

Lemma div2_Z : forall k, Z.of_nat (Nat.div2 k) = Z.of_nat k / 2.
Proof. intro k. rewrite Nat.div2_div, Nat2Z.inj_div. reflexivity. Qed.

Lemma odd_Z : forall n, Nat.odd n = true -> Z.of_nat n mod 2 = 1.
Proof. intros n H. apply Nat.odd_spec in H. destruct H as [k ->]. lia. Qed.

Lemma zlen_map : forall {A} (f : A -> Z) l, zlen (map f l) = Z.of_nat (length l).
Proof. intros. unfold zlen. rewrite map_length. reflexivity. Qed.

Lemma zlen_nil : forall (l : list Z), zlen l = 0 -> l = [].
Proof. intros [|x l] H; [reflexivity|]. unfold zlen in H. cbn [length] in H. lia. Qed.

Lemma all_ff_repeat255 : forall n, all_ff (repeat 255 n) = true.
Proof. induction n; [reflexivity|]. cbn. exact IHn. Qed.

(* ------------------------------------------------------------- SEQ field *)

Definition seq_text (r : samrec) : list Z :=
  match map (base_at (r_seq r)) (seq 0 (Z.to_nat (r_seqlen r))) with [] => [42] | q => q end.

Lemma seq_text_free : forall r, free 9 (seq_text r).
Proof.
  intro r. unfold seq_text.
  destruct (map (base_at (r_seq r)) (seq 0 (Z.to_nat (r_seqlen r)))) eqn:E.
  - apply free_cons. split; [lia|apply free_nil].
  - rewrite <- E. apply bases_free.
Qed.

Lemma parse_seq_back : forall r,
  seq_ok (r_seqlen r) (r_seq r) ->
  (r_cigar r = [] \/ r_seqlen r = 0 \/ cigar_is_valid (r_cigar r) (r_seqlen r) = Ok true) ->
  parse_seq_field (r_cigar r) (seq_text r) = Ok (r_seqlen r, r_seq r).
Proof.
  intros r (H0 & Hl & Hb & Ho) Hc. unfold seq_text, parse_seq_field.
  destruct (Z.eq_dec (r_seqlen r) 0) as [E|E].
  - rewrite E in *. cbn [Z.to_nat seq map]. change (beq [42] [42]) with true. cbn [negb].
    change ((0 + 1) / 2) with 0 in Hl. rewrite (zlen_nil _ Hl). reflexivity.
  - set (n := Z.to_nat (r_seqlen r)) in *.
    assert (Hn : (0 < n)%nat) by (subst n; lia).
    assert (Hzn : Z.of_nat n = r_seqlen r) by (subst n; lia).
    assert (Hlen : length (r_seq r) = Nat.div2 (S n)).
    { apply Nat2Z.inj. rewrite div2_Z. unfold zlen in Hl. rewrite Hl. rewrite Nat2Z.inj_succ. lia. }
    assert (NS : beq (map (base_at (r_seq r)) (seq 0 n)) [42] = false).
    { apply bases_not_star; auto. lia. }
    assert (C : contract (map (base_at (r_seq r)) (seq 0 n)) = r_seq r).
    { apply contract_bases; auto. intro O. apply Ho. rewrite <- Hzn. apply odd_Z. exact O. }
    assert (ZL : zlen (map (base_at (r_seq r)) (seq 0 n)) = r_seqlen r).
    { rewrite zlen_map, seq_length. exact Hzn. }
    destruct (map (base_at (r_seq r)) (seq 0 n)) as [|b0 bs] eqn:Eb.
    { destruct n; [lia|discriminate]. }
    rewrite NS. cbn [negb]. rewrite ZL, C.
    destruct Hc as [Hc|[Hc|Hc]].
    + rewrite Hc. reflexivity.
    + contradiction.
    + destruct (r_cigar r); [reflexivity|]. rewrite Hc. reflexivity.
Qed.

(* ------------------------------------------------------------ QUAL field *)

Definition qual_text (r : samrec) : list Z :=
  match (match r_qual r with None => None | Some q => if all_ff q then None else Some q end) with
  | None => [42]
  | Some q => map (fun p => p + 33) q
  end.

Lemma qual_text_free : forall r, phred_ok (r_qual r) -> free 9 (qual_text r).
Proof.
  intros r H. unfold qual_text.
  assert (F : free 9 [42]) by (apply free_cons; split; [lia|apply free_nil]).
  destruct (r_qual r) as [l|]; [|exact F].
  destruct (all_ff l) eqn:E; [exact F|].
  destruct H as [H|H]; [congruence|]. apply phred_text_free. exact H.
Qed.

Lemma parse_qual_back : forall r,
  0 <= r_seqlen r -> qual_ok (r_seqlen r) (r_qual r) -> phred_ok (r_qual r) ->
  parse_qual_field (qual_text r) (r_seqlen r) = qual_back (r_seqlen r) (r_qual r).
Proof.
  intros r H0 Hq Hp. unfold qual_text, parse_qual_field, qual_back.
  destruct (r_qual r) as [l|].
  - destruct Hq as (Hl & Hb & Hx).
    destruct (all_ff l) eqn:E.
    + change (beq [42] [42]) with true. cbn [negb].
      destruct (r_seqlen r =? 0) eqn:Ez; [reflexivity|]. cbn [negb].
      f_equal. symmetry. etransitivity; [apply (all_ff_repeat l E)|]. f_equal. unfold zlen in Hl. lia.
    + destruct Hp as [Hp|Hp]; [congruence|].
      destruct (Hx eq_refl) as [_ N9].
      assert (NS : beq (map (fun p => p + 33) l) [42] = false).
      { apply beq_false_iff. intro X. destruct l as [|v [|w l']]; try discriminate.
        cbn in X. inversion X. apply N9. f_equal. lia. }
      rewrite NS. cbn [negb].
      destruct l as [|v l']; [discriminate|].
      cbn [map]. f_equal. change (u8 (v + 33 - 33) :: map (fun c => u8 (c - 33)) (map (fun p => p + 33) l'))
        with (map (fun c => u8 (c - 33)) (map (fun p => p + 33) (v :: l'))).
      apply qual_back_bytes. exact Hp.
  - change (beq [42] [42]) with true. cbn [negb].
    destruct (r_seqlen r =? 0); reflexivity.
Qed.

Lemma qual_back_len : forall seqlen q, 0 <= seqlen -> qual_ok seqlen q ->
  let ql := match qual_back seqlen q with Some l => zlen l | None => 0 end in
  negb (ql =? 0) && negb (ql =? seqlen) = false.
Proof.
  intros seqlen q H0 Hq. cbv zeta. unfold qual_back.
  assert (R : zlen (repeat 255 (Z.to_nat seqlen)) = seqlen) by (unfold zlen; rewrite repeat_length; lia).
  destruct q as [l|].
  - destruct Hq as (Hl & _).
    destruct (all_ff l); [destruct (seqlen =? 0); [reflexivity|]|]; rewrite Hl, Z.eqb_refl; apply andb_false_r.
  - destruct (seqlen =? 0); [reflexivity|]. rewrite R, Z.eqb_refl. apply andb_false_r.
Qed.

(* ------------------------------------------------------------ the record *)

Section Roundtrip.
  Variable fmt_f32 : Z -> list Z.
  Variable parse_f32 : list Z -> option Z.
  Variable f32_ok : Z -> Prop.
  Hypothesis f32_law : forall x, f32_ok x -> parse_f32 (fmt_f32 x) = Some x.
  Hypothesis f32_clean : forall x, f32_ok x -> free 9 (fmt_f32 x) /\ free 44 (fmt_f32 x).

  Definition aux_texts (l : list aux) : list (list Z) :=
    map (spec_opt fmt_f32) (map (fun a => ([a_t0 a; a_t1 a], view_val (a_val a))) l).

  Lemma parse_auxes_back : forall l,
    Forall aux_ok l -> Forall (fun a => floats_ok_all f32_ok (a_val a)) l ->
    parse_auxes parse_f32 (aux_texts l) = Ok (map aux_back l).
  Proof.
    induction l as [|a l IH]; intros Ha Hf; [reflexivity|].
    inversion Ha as [|? ? (_ & _ & Hok) Hal]; subst. inversion Hf as [|? ? Hfa Hfl]; subst.
    unfold aux_texts in *. cbn [map parse_auxes].
    rewrite (aux_roundtrip_all fmt_f32 parse_f32 f32_ok f32_law f32_clean a Hok Hfa). cbn [obind].
    rewrite IH by assumption. reflexivity.
  Qed.

  Lemma aux_texts_free : forall l,
    Forall aux_ok l -> Forall (fun a => floats_ok_all f32_ok (a_val a)) l -> Forall (free 9) (aux_texts l).
  Proof.
    induction l as [|a l IH]; intros Ha Hf; [constructor|].
    inversion Ha; subst. inversion Hf; subst. unfold aux_texts in *. cbn [map].
    constructor; [eapply aux_text_free; eassumption|apply IH; assumption].
  Qed.

  Lemma parse_line_back : forall h r ftext,
    valid 8 h r -> phred_ok (r_qual r) -> Forall (fun a => floats_ok_all f32_ok (a_val a)) (r_aux r) ->
    free 9 ftext -> go_parse_uint ftext 0 16 = Some (r_flags r) ->
    parse_record parse_f32 h (spec_format fmt_f32 ftext (view h r)) = Ok (rec_back r).
  Proof.
    intros h r ftext V Hp Hfl Hff Hfp. destruct V.
    unfold spec_format, view, spec_rnext.
    cbn [s_qname s_flag s_rname s_pos s_mapq s_cigar s_rnext s_pnext s_tlen s_seq s_qual s_opt].
    fold (rnext_text h (r_ref r) (r_mref r)). fold (seq_text r). fold (qual_text r). fold (aux_texts (r_aux r)).
    unfold parse_record. rewrite split_join.
    2:{ intro X. apply app_eq_nil in X. destruct X. discriminate. }
    2:{ apply Forall_app. split.
        - repeat (apply Forall_cons || apply Forall_nil);
            auto using rname_free, rnext_free, seq_text_free, qual_text_free, cigar_text_free;
            apply print_Z_free; lia.
        - apply aux_texts_free; assumption. }
    cbn [app].
    rewrite Hfp.
    rewrite reference_for_name_spec by assumption. cbn [obind].
    unfold atoi_o. rewrite !atoi_print by lia. cbn [obind].
    rewrite parse_uint10_print by (change (2 ^ 8) with 256; lia).
    rewrite parse_cigar_back by assumption. cbn [obind].
    rewrite mate_back by assumption. cbn [obind].
    rewrite parse_seq_back by assumption. cbn [obind].
    rewrite parse_qual_back by (destruct v_seq; auto).
    rewrite qual_back_len by (destruct v_seq; auto).
    rewrite parse_auxes_back by assumption. cbn [obind].
    unfold rec_back. repeat f_equal; rewrite s64_id; lia.
  Qed.

  (* -------------------------------------------- the parsed record is valid *)

  Lemma qual_back_ok : forall seqlen q, 0 <= seqlen -> qual_ok seqlen q -> qual_ok seqlen (qual_back seqlen q).
  Proof.
    intros seqlen q H0 Hq. unfold qual_back. destruct q as [l|].
    - destruct (all_ff l); [destruct (seqlen =? 0); [exact I|exact Hq]|exact Hq].
    - destruct (seqlen =? 0); [exact I|]. cbn [qual_ok]. split; [unfold zlen; rewrite repeat_length; lia|].
      split.
      + apply Forall_forall. intros v Hin. apply repeat_spec in Hin. lia.
      + intro X. rewrite all_ff_repeat255 in X. discriminate.
  Qed.

  Lemma qual_back_phred : forall seqlen q, phred_ok q -> phred_ok (qual_back seqlen q).
  Proof.
    intros seqlen q H. unfold qual_back. destruct q as [l|].
    - destruct (all_ff l); [destruct (seqlen =? 0); [exact I|exact H]|exact H].
    - destruct (seqlen =? 0); [exact I|]. left. apply all_ff_repeat255.
  Qed.

  Lemma qual_back_view : forall seqlen q,
    match qual_back seqlen q with None => None | Some l => if all_ff l then None else Some l end =
    match q with None => None | Some l => if all_ff l then None else Some l end.
  Proof.
    intros seqlen q. unfold qual_back. destruct q as [l|].
    - destruct (all_ff l) eqn:E; [destruct (seqlen =? 0); [reflexivity|rewrite E; reflexivity]|rewrite E; reflexivity].
    - destruct (seqlen =? 0); [reflexivity|]. rewrite all_ff_repeat255. reflexivity.
  Qed.

  Lemma rec_back_valid : forall h r, valid 8 h r -> valid 8 h (rec_back r).
  Proof.
    intros h r V. destruct V.
    constructor; cbn [rec_back r_name r_flags r_ref r_mref r_pos r_mpos r_tlen r_mapq r_cigar r_seqlen r_seq r_qual r_aux]; auto.
    - apply qual_back_ok; [destruct v_seq|]; auto.
    - apply Forall_forall. intros a Hin. apply in_map_iff in Hin. destruct Hin as (a0 & <- & Hin).
      rewrite Forall_forall in v_aux. destruct (v_aux a0 Hin) as (A & B & C).
      unfold aux_ok, aux_back. cbn [a_t0 a_t1 a_val]. repeat split; auto. apply canon_ok. exact C.
  Qed.

  Lemma rec_back_view : forall h r, view h (rec_back r) = view h r.
  Proof.
    intros h r. unfold view, rec_back.
    cbn [r_name r_flags r_ref r_mref r_pos r_mpos r_tlen r_mapq r_cigar r_seqlen r_seq r_qual r_aux].
    rewrite qual_back_view. f_equal.
    rewrite map_map. apply map_ext. intro a. unfold aux_back. cbn [a_t0 a_t1 a_val]. rewrite view_canon. reflexivity.
  Qed.

  (** SAM text round trip.  For every record expressible in SAM text and both
      parseable flag formats: MarshalSAM gives a line; UnmarshalSAM of the line
      (same header) gives [rec_back r], which has the same view at the level
      of the specification as [r] (field-wise equal; aux integers by value;
      absent quality in its canonical form); MarshalSAM of it gives the line. *)
  Theorem roundtrip_gen : forall h r fl,
    valid 8 h r -> phred_ok (r_qual r) -> Forall (fun a => floats_ok_all f32_ok (a_val a)) (r_aux r) ->
    (fl = sam_FlagDecimal \/ fl = sam_FlagHex) ->
    exists line,
      format_record fmt_f32 h fl r = Ok line /\
      parse_record parse_f32 h line = Ok (rec_back r) /\
      view h (rec_back r) = view h r /\
      format_record fmt_f32 h fl (rec_back r) = Ok line.
  Proof.
    intros h r fl V Pq Hfl Hf.
    pose proof (rec_back_valid h r V) as Vb.
    pose proof (qual_back_phred (r_seqlen r) (r_qual r) Pq) as Pb.
    destruct (format_is_spec_gen fmt_f32 h r V Pq) as [Fd Fh].
    destruct (format_is_spec_gen fmt_f32 h (rec_back r) Vb Pb) as [Fd' Fh'].
    rewrite rec_back_view in Fd', Fh'. cbn [rec_back r_flags] in Fd', Fh'.
    assert (Hfr : 0 <= r_flags r < 2 ^ 16) by (destruct V; assumption).
    destruct Hf as [-> | ->].
    - eexists. split; [exact Fd|]. split; [|split; [apply rec_back_view|exact Fd']].
      apply parse_line_back; auto; [apply print_Z_free; lia|apply parse_uint0_print; lia].
    - eexists. split; [exact Fh|]. split; [|split; [apply rec_back_view|exact Fh']].
      apply parse_line_back; auto; [|apply parse_uint0_hex; lia].
      apply free_cons. split; [lia|]. apply free_cons. split; [lia|]. apply print_nat_base_free; lia.
  Qed.
End Roundtrip.

Theorem seq_roundtrip_full :
  forall len ds, seq_ok len ds ->
    expand len ds = Ok (map (base_at ds) (seq 0 (Z.to_nat len))) /\
    contract (map (base_at ds) (seq 0 (Z.to_nat len))) = ds.
Proof.
  intros len ds (H0 & Hl & Hb & Ho). split.
  - unfold expand. destruct (len <? 0) eqn:E; [apply Z.ltb_lt in E; lia|].
    pose proof (expand_from_spec ds len (Z.to_nat len) 0 Hb ltac:(lia) ltac:(lia)) as X.
    exact X.
  - apply contract_bases; auto.
    + apply Nat2Z.inj. rewrite div2_Z. unfold zlen in Hl. rewrite Hl. rewrite Nat2Z.inj_succ. lia.
    + intro O. apply Ho. apply odd_Z in O. lia.
Qed.
