(** C17 — proofs about the functional model of the merge strategies
    (Model/Strategy.v) against the vocabulary of the property statement
    (Model/StrategySpec.v).  Everything is by induction on the chunk list;
    no bound on length or offsets beyond [valid_chunk]. *)
From Coq Require Import Lia Sorting.Sorted RelationClasses.
From Hts Require Import Base.Prim Base.Bits Base.Chunks Model.Strategy Model.StrategySpec.
Open Scope Z_scope.

(** * int64 wrap and vOffset on BGZF offsets *)

Lemma i64_mod x : i64 x = (x + 2 ^ 63) mod 2 ^ 64 - 2 ^ 63.
Proof.
  unfold i64.
  change 18446744073709551615 with (2 ^ 64 - 1).
  change (-9223372036854775808) with (- 2 ^ 63).
  change 9223372036854775808 with (2 ^ 63).
  rewrite land_ones_mod by lia.
  destruct (Z.leb_spec (- 2 ^ 63) x); [destruct (Z.ltb_spec x (2 ^ 63)) |]; simpl; try reflexivity.
  rewrite Z.mod_small; lia.
Qed.

Lemma i64_s64 x : i64 x = s64 x.
Proof. rewrite i64_mod. unfold s64, wraps. reflexivity. Qed.

Lemma i64_id x : - 2 ^ 63 <= x < 2 ^ 63 -> i64 x = x.
Proof. intros. rewrite i64_mod. rewrite Z.mod_small; lia. Qed.

Lemma vo_pos o : valid_offset o -> vo o = pos o.
Proof.
  destruct o as [f b]. unfold valid_offset, vo, pos, o_File, o_Block. cbn [fst snd]. intros [Hf Hb].
  rewrite shiftl_mul by lia.
  rewrite !i64_id by lia.
  rewrite (lor_high_low b f 16) by lia. lia.
Qed.

(** * Joining two chunks *)

Lemma join_begin l r : c_Begin (join l r) = c_Begin l.
Proof. reflexivity. Qed.

Lemma join_end l r :
  valid_chunk l -> valid_chunk r ->
  c_End (join l r) = if pos (c_End r) <? pos (c_End l) then c_End l else c_End r.
Proof. intros [_ Hl] [_ Hr]. unfold join, c_End at 1. simpl. rewrite !vo_pos by assumption. reflexivity. Qed.

Lemma join_end_pos l r :
  valid_chunk l -> valid_chunk r ->
  pos (c_End (join l r)) = Z.max (pos (c_End l)) (pos (c_End r)).
Proof. intros. rewrite join_end by assumption. destruct (Z.ltb_spec (pos (c_End r)) (pos (c_End l))); lia. Qed.

Lemma join_valid l r : valid_chunk l -> valid_chunk r -> valid_chunk (join l r).
Proof.
  intros Hl Hr. split.
  - rewrite join_begin. apply Hl.
  - rewrite join_end by assumption. destruct (_ <? _); [apply Hl | apply Hr].
Qed.

(** * Coverage and order: elementary facts *)

Lemma covered_cons c l v : covered (c :: l) v <-> covers c v \/ covered l v.
Proof.
  unfold covered. split.
  - intros [x [[->|Hin] Hc]]; [left; assumption | right; eauto].
  - intros [Hc | [x [Hin Hc]]]; [exists c | exists x]; simpl; auto.
Qed.

Lemma covered_nil v : ~ covered [] v.
Proof. intros [x [[] _]]. Qed.

Global Instance begin_le_trans : Transitive begin_le.
Proof. unfold begin_le. intros a b c. lia. Qed.

Lemma sorted_begins_ge c l :
  sorted_begin (c :: l) -> Forall (fun x => pos (c_Begin c) <= pos (c_Begin x)) (c :: l).
Proof.
  intros H. apply Sorted_StronglySorted in H; [| exact begin_le_trans].
  inversion H; subst. constructor; [lia | assumption].
Qed.

Lemma sorted_tail c l : sorted_begin (c :: l) -> sorted_begin l.
Proof. intros H. inversion H; assumption. Qed.

Lemma sorted_replace_head (c c' : chunk) l :
  pos (c_Begin c') <= pos (c_Begin c) -> sorted_begin (c :: l) -> sorted_begin (c' :: l).
Proof.
  intros Hle H. inversion H as [| ? ? Hs Hh]; subst. constructor; [assumption |].
  inversion Hh; subst; constructor. unfold begin_le in *. lia.
Qed.

(** Consecutive elements of a list satisfying [Sorted R] are related. *)
Lemma Sorted_nth {A} (R : A -> A -> Prop) l :
  Sorted R l -> forall i a b, nth_error l i = Some a -> nth_error l (S i) = Some b -> R a b.
Proof.
  induction 1 as [| x l Hs IH Hh]; intros i a b Ha Hb.
  - destruct i; discriminate.
  - destruct i; simpl in *.
    + inversion Ha; subst. destruct l; [discriminate |]. inversion Hb; subst. inversion Hh; assumption.
    + eapply IH; eassumption.
Qed.

Lemma Sorted_weaken {A} (R R' : A -> A -> Prop) (V : A -> Prop) l :
  (forall a b, V a -> V b -> R a b -> R' a b) -> Forall V l -> Sorted R l -> Sorted R' l.
Proof.
  intros HR HV Hs. induction Hs as [| x l Hs IH Hh]; [constructor |].
  inversion HV; subst. constructor; [auto |].
  inversion Hh; subst; constructor. inversion H2; subst. auto.
Qed.

(** * The merge loop, for any merge condition *)

Section Merge.
  Variable mergeable : chunk -> chunk -> bool.

  Lemma merge_from_head left rest :
    exists x t, merge_from mergeable left rest = x :: t /\ c_Begin x = c_Begin left.
  Proof.
    revert left. induction rest as [| r rest IH]; intros left; simpl.
    - eauto.
    - destruct (mergeable left r).
      + destruct (IH (join left r)) as [x [t [E B]]]. exists x, t. split; [assumption |].
        rewrite B. apply join_begin.
      + eauto.
  Qed.

  Lemma merge_from_valid rest : forall left,
    valid_chunk left -> Forall valid_chunk rest -> Forall valid_chunk (merge_from mergeable left rest).
  Proof.
    induction rest as [| r rest IH]; intros left Hl Hr; simpl.
    - constructor; auto.
    - inversion Hr; subst. destruct (mergeable left r).
      + apply IH; [apply join_valid |]; assumption.
      + constructor; auto.
  Qed.

  Lemma merge_from_sorted rest : forall left,
    sorted_begin (left :: rest) -> sorted_begin (merge_from mergeable left rest).
  Proof.
    induction rest as [| r rest IH]; intros left H; simpl.
    - constructor; constructor.
    - assert (Hlr : begin_le left r) by (inversion H as [| ? ? _ Hh]; inversion Hh; assumption).
      destruct (mergeable left r).
      + apply IH. apply sorted_replace_head with (c := r); [| eapply sorted_tail; eassumption].
        rewrite join_begin. exact Hlr.
      + constructor.
        * apply IH. eapply sorted_tail; eassumption.
        * destruct (merge_from_head r rest) as [x [t [E B]]]. rewrite E. constructor.
          unfold begin_le in *. rewrite B. assumption.
  Qed.

  Lemma merge_from_begins_ge left rest :
    sorted_begin (left :: rest) ->
    Forall (fun x => pos (c_Begin left) <= pos (c_Begin x)) (merge_from mergeable left rest).
  Proof.
    intros H. pose proof (merge_from_sorted rest left H) as Hs.
    destruct (merge_from_head left rest) as [x [t [E B]]]. rewrite E in *.
    rewrite <- B. apply sorted_begins_ge. assumption.
  Qed.

  (** No position is lost. *)
  Lemma merge_from_covers rest : forall left,
    valid_chunk left -> Forall valid_chunk rest -> sorted_begin (left :: rest) ->
    forall v, covered (left :: rest) v -> covered (merge_from mergeable left rest) v.
  Proof.
    induction rest as [| r rest IH]; intros left Hl Hr Hs v Hc; simpl.
    - assumption.
    - inversion Hr as [| ? ? Hvr Hvrest]; subst.
      assert (Hlr : begin_le left r) by (inversion Hs as [| ? ? _ Hh]; inversion Hh; assumption).
      destruct (mergeable left r).
      + apply IH.
        * apply join_valid; assumption.
        * assumption.
        * apply sorted_replace_head with (c := r); [| eapply sorted_tail; eassumption].
          rewrite join_begin. exact Hlr.
        * apply covered_cons. apply covered_cons in Hc. destruct Hc as [Hc | Hc].
          -- left. unfold covers in *. rewrite join_begin, join_end_pos by assumption. lia.
          -- apply covered_cons in Hc. destruct Hc as [Hc | Hc]; [left | right; assumption].
             unfold covers, begin_le in *. rewrite join_begin, join_end_pos by assumption. lia.
      + apply covered_cons. apply covered_cons in Hc. destruct Hc as [Hc | Hc]; [left; assumption | right].
        apply IH; try assumption. eapply sorted_tail; eassumption.
  Qed.

  (** Neighbours of the result are not mergeable, provided the condition
      looks at the right chunk's Begin only (its End may have grown). *)
  Hypothesis mergeable_begin :
    forall l r r', c_Begin r = c_Begin r' -> mergeable l r = mergeable l r'.

  Lemma merge_from_neighbours rest : forall left,
    Sorted (fun a b => mergeable a b = false) (merge_from mergeable left rest).
  Proof.
    induction rest as [| r rest IH]; intros left; simpl.
    - constructor; constructor.
    - destruct (mergeable left r) eqn:E.
      + apply IH.
      + constructor; [apply IH |].
        destruct (merge_from_head r rest) as [x [t [Ex B]]]. rewrite Ex. constructor.
        rewrite (mergeable_begin left x r B). assumption.
  Qed.

  (** A list without mergeable neighbours is left alone. *)
  Lemma merge_from_fixed rest : forall left,
    Sorted (fun a b => mergeable a b = false) (left :: rest) ->
    merge_from mergeable left rest = left :: rest.
  Proof.
    induction rest as [| r rest IH]; intros left H; simpl.
    - reflexivity.
    - inversion H as [| ? ? Hs Hh]; subst. inversion Hh as [| ? ? E]; subst. rewrite E.
      f_equal. apply IH. assumption.
  Qed.

  Lemma merge_idempotent l : merge mergeable (merge mergeable l) = merge mergeable l.
  Proof.
    destruct l as [| c t]; [reflexivity |]. simpl.
    pose proof (merge_from_neighbours t c) as H.
    destruct (merge_from mergeable c t) as [| x t'] eqn:E; [reflexivity |].
    simpl. apply merge_from_fixed. assumption.
  Qed.
End Merge.

Lemma merge_sorted mergeable l : sorted_begin l -> sorted_begin (merge mergeable l).
Proof. destruct l; simpl; [intros; constructor | apply merge_from_sorted]. Qed.

Lemma merge_valid mergeable l : valid_chunks l -> valid_chunks (merge mergeable l).
Proof.
  destruct l; simpl; [intros; constructor |]. intros H. inversion H; subst.
  apply merge_from_valid; assumption.
Qed.

Lemma merge_covers mergeable l :
  valid_chunks l -> sorted_begin l -> forall v, covered l v -> covered (merge mergeable l) v.
Proof.
  destruct l; simpl; [auto |]. intros H Hs. inversion H; subst.
  apply merge_from_covers; assumption.
Qed.

(** * Adjacent *)

Lemma adj_mergeable_begin l r r' : c_Begin r = c_Begin r' -> adj_mergeable l r = adj_mergeable l r'.
Proof. unfold adj_mergeable. intros ->. reflexivity. Qed.

Lemma adj_mergeable_pos l r :
  valid_chunk l -> valid_chunk r ->
  adj_mergeable l r = (pos (c_Begin r) <=? pos (c_End l)).
Proof. intros [_ Hl] [Hr _]. unfold adj_mergeable. rewrite !vo_pos by assumption. reflexivity. Qed.

(** Nothing is added: a join of two touching or overlapping chunks covers
    only what they cover. *)
Lemma adj_merge_from_exact rest : forall left,
  valid_chunk left -> Forall valid_chunk rest ->
  forall v, covered (merge_from adj_mergeable left rest) v -> covered (left :: rest) v.
Proof.
  induction rest as [| r rest IH]; intros left Hl Hr v Hc; simpl in *.
  - assumption.
  - inversion Hr as [| ? ? Hvr Hvrest]; subst.
    destruct (adj_mergeable left r) eqn:E.
    + apply IH in Hc; [| apply join_valid; assumption | assumption].
      rewrite adj_mergeable_pos in E by assumption. apply Z.leb_le in E.
      apply covered_cons in Hc. apply covered_cons. destruct Hc as [Hc | Hc].
      * unfold covers in Hc. rewrite join_begin, join_end_pos in Hc by assumption.
        destruct (Z.lt_ge_cases v (pos (c_End left))).
        -- left. unfold covers. lia.
        -- right. apply covered_cons. left. unfold covers. lia.
      * right. apply covered_cons. right. assumption.
    + apply covered_cons in Hc. apply covered_cons. destruct Hc as [Hc | Hc]; [left; assumption | right].
      apply IH; assumption.
Qed.

Lemma adjacent_exact_gen l :
  valid_chunks l -> sorted_begin l -> forall v, covered (adjacent_m l) v <-> covered l v.
Proof.
  intros Hv Hs v. split.
  - destruct l; simpl; [auto |]. inversion Hv; subst. apply adj_merge_from_exact; assumption.
  - apply merge_covers; assumption.
Qed.

Lemma adj_merge_from_separated rest : forall left,
  valid_chunk left -> Forall valid_chunk rest -> sorted_begin (left :: rest) ->
  pairwise_separated (merge_from adj_mergeable left rest).
Proof.
  induction rest as [| r rest IH]; intros left Hl Hr Hs; simpl.
  - constructor; constructor.
  - inversion Hr as [| ? ? Hvr Hvrest]; subst.
    assert (Hlr : begin_le left r) by (inversion Hs as [| ? ? _ Hh]; inversion Hh; assumption).
    destruct (adj_mergeable left r) eqn:E.
    + apply IH; [apply join_valid; assumption | assumption |].
      apply sorted_replace_head with (c := r); [| eapply sorted_tail; eassumption].
      rewrite join_begin. exact Hlr.
    + constructor.
      * rewrite adj_mergeable_pos in E by assumption. apply Z.leb_gt in E.
        pose proof (merge_from_begins_ge adj_mergeable r rest (sorted_tail _ _ Hs)) as Hge.
        eapply Forall_impl; [| exact Hge]. unfold separated. simpl. intros. lia.
      * apply IH; try assumption. eapply sorted_tail; eassumption.
Qed.

Lemma adjacent_separated_gen l :
  valid_chunks l -> sorted_begin l -> pairwise_separated (adjacent_m l).
Proof.
  destruct l; simpl; [intros; constructor |]. intros H Hs. inversion H; subst.
  apply adj_merge_from_separated; assumption.
Qed.

(** * Compressor *)

Lemma cmp_mergeable_begin near l r r' :
  c_Begin r = c_Begin r' -> cmp_mergeable near l r = cmp_mergeable near l r'.
Proof. unfold cmp_mergeable. intros ->. reflexivity. Qed.

Lemma cmp_mergeable_far near a b :
  valid_chunk a -> valid_chunk b -> cmp_mergeable near a b = false -> far near a b.
Proof.
  intros [_ [Ha _]] [[Hb _] _]. unfold cmp_mergeable, far.
  rewrite i64_id by lia. intros E. apply Z.leb_gt in E. lia.
Qed.

Lemma compressor_gap_gen near l :
  valid_chunks l -> neighbours_far near (compressor_m near l).
Proof.
  intros Hv. unfold neighbours_far. apply Sorted_nth.
  apply Sorted_weaken with (R := fun a b => cmp_mergeable near a b = false) (V := valid_chunk).
  - intros a b. apply cmp_mergeable_far.
  - apply merge_valid. assumption.
  - unfold compressor_m. destruct l as [| c t]; [constructor |]. simpl.
    apply merge_from_neighbours. apply cmp_mergeable_begin.
Qed.

(** The converse bound: a Compressor joins a chunk to the run before it only
    when it begins within [near] compressed bytes of the run's end — stated on
    the first step, which is what the loop decides at every position. *)
Lemma cmp_mergeable_near near a b :
  valid_chunk a -> valid_chunk b -> cmp_mergeable near a b = true ->
  o_File (c_Begin b) - o_File (c_End a) <= near.
Proof.
  intros [_ [Ha _]] [[Hb _] _]. unfold cmp_mergeable.
  rewrite i64_id by lia. intros E. apply Z.leb_le in E. lia.
Qed.

(** * Squash *)

Lemma fold_max_end t : forall e0,
  valid_offset e0 -> Forall valid_chunk t ->
  let e := fold_left max_end t e0 in
  (e = e0 \/ exists c, In c t /\ c_End c = e)
  /\ pos e0 <= pos e
  /\ (forall c, In c t -> pos (c_End c) <= pos e)
  /\ valid_offset e.
Proof.
  induction t as [| c t IH]; intros e0 He0 Ht; simpl.
  - split; [left; reflexivity | split; [lia | split; [intros ? [] | assumption]]].
  - inversion Ht as [| ? ? Hc Ht']; subst.
    assert (Hm : valid_offset (max_end e0 c) /\ pos e0 <= pos (max_end e0 c)
                 /\ pos (c_End c) <= pos (max_end e0 c)
                 /\ (max_end e0 c = e0 \/ max_end e0 c = c_End c)).
    { unfold max_end. rewrite !vo_pos by (assumption || apply Hc).
      destruct (Z.ltb_spec (pos e0) (pos (c_End c)));
        (split; [first [apply Hc | assumption] | split; [lia | split; [lia | auto]]]). }
    destruct Hm as [Hv [H1 [H2 H3]]].
    destruct (IH (max_end e0 c) Hv Ht') as [Ha [Hb [Hc' Hd]]].
    split; [| split; [| split]].
    + destruct Ha as [Ha | [x [Hin Hx]]].
      * destruct H3 as [H3 | H3]; [left; congruence | right; exists c; split; [left; reflexivity | congruence]].
      * right. exists x. split; [right; assumption | assumption].
    + lia.
    + intros x [-> | Hin]; [lia | apply Hc'; assumption].
    + assumption.
Qed.

Lemma squash_enclosing_gen l :
  valid_chunks l -> sorted_begin l ->
  match l with
  | [] => squash_m l = []
  | _ => exists e, squash_m l = [e] /\ encloses e l /\ valid_chunk e
  end.
Proof.
  destruct l as [| c t]; [reflexivity |]. intros Hv Hs. inversion Hv as [| ? ? Hc Ht]; subst.
  simpl. eexists. split; [reflexivity |].
  destruct (fold_max_end t (c_End c) (proj2 Hc) Ht) as [Ha [Hb [Hc' Hd]]].
  pose proof (sorted_begins_ge c t Hs) as Hge. rewrite Forall_forall in Hge.
  split; [| split; [apply Hc | exact Hd]].
  unfold encloses, mk_chunk, c_Begin, c_End in *. simpl. repeat split.
  - apply Hge. assumption.
  - destruct H as [<- | Hin]; [assumption | apply Hc'; assumption].
  - exists c. split; [left; reflexivity | reflexivity].
  - destruct Ha as [Ha | [x [Hin Hx]]].
    + exists c. split; [left; reflexivity | symmetry; exact Ha].
    + exists x. split; [right; assumption | exact Hx].
Qed.

Lemma squash_covers_gen l :
  valid_chunks l -> sorted_begin l -> forall v, covered l v -> covered (squash_m l) v.
Proof.
  intros Hv Hs v [c [Hin Hc]].
  pose proof (squash_enclosing_gen l Hv Hs) as H. destruct l as [| c0 t]; [destruct Hin |].
  destruct H as [e [-> [[Henc _] _]]]. exists e. split; [left; reflexivity |].
  destruct (Henc c Hin). unfold covers in *. lia.
Qed.

Lemma squash_sorted_gen l : sorted_begin (squash_m l).
Proof. destruct l; simpl; constructor; constructor. Qed.

Lemma squash_idempotent_gen l : squash_m (squash_m l) = squash_m l.
Proof. destruct l; reflexivity. Qed.

(** * Identity *)

Lemma identity_unaltered_gen : forall l, identity_m l = l.
Proof. reflexivity. Qed.

(** * Idempotence of the merge loops *)

Lemma adjacent_idempotent_gen l : adjacent_m (adjacent_m l) = adjacent_m l.
Proof. apply merge_idempotent. apply adj_mergeable_begin. Qed.

Lemma compressor_idempotent_gen near l : compressor_m near (compressor_m near l) = compressor_m near l.
Proof. apply merge_idempotent. apply cmp_mergeable_begin. Qed.
