(** C17 — the statement-level translation of bgzf/index/strategy.go that
    /verif/gen writes into Generated.v (index loop over the slice, copy of
    chunks[c-1], pointer to chunks[c], deletion by append) computes exactly the
    functional model of Model/Strategy.v, for every input, never panics and
    needs no more fuel than the length of the list.

    These lemmas are where a change of the Go source surfaces: if a condition,
    an assignment or the loop shape changes, Generated.v changes and the
    proofs below no longer go through. *)
From Coq Require Import Lia.
From Hts Require Import Base.Prim Base.Bits Base.Chunks Generated Model.Strategy.
Open Scope Z_scope.

(** * Slices as lists: element, store, deletion at a known position *)

Lemma zlen_cons {A} (x : A) l : zlen (x :: l) = zlen l + 1.
Proof. unfold zlen. simpl length. lia. Qed.

Lemma to_nat_zlen {A} (l : list A) : Z.to_nat (zlen l) = length l.
Proof. unfold zlen. apply Nat2Z.id. Qed.

Lemma getc_mid done x t i : i = zlen done -> getc (done ++ x :: t) i = x.
Proof. intros ->. unfold getc. rewrite to_nat_zlen. rewrite app_nth2 by lia. rewrite Nat.sub_diag. reflexivity. Qed.

Lemma getc_mid2 done y x t i : i = zlen done + 1 -> getc (done ++ y :: x :: t) i = x.
Proof.
  intros ->. replace (done ++ y :: x :: t) with ((done ++ [y]) ++ x :: t) by (rewrite <- app_assoc; reflexivity).
  apply getc_mid. rewrite zlen_app. change (zlen [y]) with 1. lia.
Qed.

Lemma inb_mid (done : list chunk) x t i : i = zlen done -> inb (done ++ x :: t) i = true.
Proof.
  intros ->. unfold inb. rewrite zlen_app, zlen_cons. pose proof (zlen_nonneg done). pose proof (zlen_nonneg t).
  apply andb_true_intro. split; [apply Z.leb_le | apply Z.ltb_lt]; lia.
Qed.

Lemma inb_mid2 (done : list chunk) y x t i : i = zlen done + 1 -> inb (done ++ y :: x :: t) i = true.
Proof.
  intros ->. unfold inb. rewrite zlen_app, !zlen_cons. pose proof (zlen_nonneg done). pose proof (zlen_nonneg t).
  apply andb_true_intro. split; [apply Z.leb_le | apply Z.ltb_lt]; lia.
Qed.

Lemma upd_nat_mid {A} (done : list A) x t y : upd_nat (done ++ x :: t) (length done) y = done ++ y :: t.
Proof. induction done; simpl; [reflexivity | f_equal; assumption]. Qed.

Lemma setc_mid2 done y x t i z : i = zlen done + 1 -> setc (done ++ y :: x :: t) i z = done ++ y :: z :: t.
Proof.
  intros ->. unfold setc.
  replace (Z.to_nat (zlen done + 1)) with (length (done ++ [y])).
  - replace (done ++ y :: x :: t) with ((done ++ [y]) ++ x :: t) by (rewrite <- app_assoc; reflexivity).
    rewrite upd_nat_mid. rewrite <- app_assoc. reflexivity.
  - rewrite app_length. simpl. unfold zlen. lia.
Qed.

Lemma slb_mid {A} (done t : list A) i : i = zlen done -> slb (done ++ t) i = true.
Proof.
  intros ->. unfold slb. rewrite zlen_app. pose proof (zlen_nonneg done). pose proof (zlen_nonneg t).
  apply andb_true_intro. split; apply Z.leb_le; lia.
Qed.

Lemma slb_mid2 {A} (done : list A) y t i : i = zlen done + 1 -> slb (done ++ y :: t) i = true.
Proof.
  intros ->. unfold slb. rewrite zlen_app, zlen_cons. pose proof (zlen_nonneg done). pose proof (zlen_nonneg t).
  apply andb_true_intro. split; apply Z.leb_le; lia.
Qed.

Lemma slice_to_mid {A} (done t : list A) i : i = zlen done -> slice_to (done ++ t) i = done.
Proof.
  intros ->. unfold slice_to. rewrite to_nat_zlen. rewrite firstn_app, Nat.sub_diag, firstn_all. simpl. apply app_nil_r.
Qed.

Lemma slice_from_mid2 {A} (done : list A) y t i : i = zlen done + 1 -> slice_from (done ++ y :: t) i = t.
Proof.
  intros ->. unfold slice_from.
  replace (Z.to_nat (zlen done + 1)) with (length (done ++ [y])) by (rewrite app_length; simpl; unfold zlen; lia).
  replace (done ++ y :: t) with ((done ++ [y]) ++ t) by (rewrite <- app_assoc; reflexivity).
  rewrite skipn_app, Nat.sub_diag, skipn_all. reflexivity.
Qed.

(** * vOffset *)

Lemma vOffset_vo o : bgzfindex_vOffset o = vo o.
Proof. reflexivity. Qed.

(** * The index loop, for any body that decides and joins like the model *)

Section Loop.
  Variable body : list chunk -> Z -> outcome (list chunk * Z).
  Variable mergeable : chunk -> chunk -> bool.

  (** What one execution of the loop body does when chunks[c-1] = left and
      chunks[c] = r: either both are replaced by their join and c steps back,
      or nothing changes. *)
  Hypothesis body_spec : forall done left r rest,
    body (done ++ left :: r :: rest) (zlen done + 1) =
    Ok (if mergeable left r then (done ++ join left r :: rest, zlen done)
        else (done ++ left :: r :: rest, zlen done + 1)).

  Fixpoint gloop (fuel : nat) (chunks : list chunk) (c : Z) : outcome (list chunk * Z) :=
    match fuel with
    | O => Stuck
    | S fuel =>
        if c <? zlen chunks then
          obind (body chunks c) (fun st => let '(chunks, c) := st in let c := c + 1 in gloop fuel chunks c)
        else Ok (chunks, c)
    end.

  Lemma gloop_spec : forall fuel rest done left,
    (length rest < fuel)%nat ->
    exists c', gloop fuel (done ++ left :: rest) (zlen done + 1) = Ok (done ++ merge_from mergeable left rest, c').
  Proof.
    induction fuel as [| fuel IH]; intros rest done left Hf; [lia |].
    simpl gloop. destruct rest as [| r rest].
    - rewrite zlen_app, zlen_cons. change (zlen (@nil chunk)) with 0.
      replace (zlen done + 1 <? zlen done + (0 + 1)) with false by (symmetry; apply Z.ltb_ge; lia).
      eexists. reflexivity.
    - rewrite zlen_app, !zlen_cons. pose proof (zlen_nonneg rest).
      replace (zlen done + 1 <? zlen done + (zlen rest + 1 + 1)) with true by (symmetry; apply Z.ltb_lt; lia).
      rewrite body_spec. simpl merge_from. simpl in Hf.
      destruct (mergeable left r); simpl obind.
      + replace (zlen done + 1) with (zlen done + 1) by reflexivity.
        apply IH. lia.
      + replace (done ++ left :: r :: rest) with ((done ++ [left]) ++ r :: rest) by (rewrite <- app_assoc; reflexivity).
        replace (zlen done + 1 + 1) with (zlen (done ++ [left]) + 1) by (rewrite zlen_app, zlen_cons; change (zlen (@nil chunk)) with 0; lia).
        destruct (IH rest (done ++ [left]) r) as [c' E]; [lia |].
        exists c'. rewrite E. rewrite <- app_assoc. reflexivity.
  Qed.
End Loop.

(** * adjacent *)

Lemma adjacent_body_spec done left r rest :
  bgzfindex_adjacent_loop1_body (done ++ left :: r :: rest) (zlen done + 1) =
  Ok (if adj_mergeable left r then (done ++ join left r :: rest, zlen done)
      else (done ++ left :: r :: rest, zlen done + 1)).
Proof.
  unfold bgzfindex_adjacent_loop1_body.
  rewrite (inb_mid done left (r :: rest) (zlen done + 1 - 1)) by lia.
  rewrite (getc_mid done left (r :: rest) (zlen done + 1 - 1)) by lia.
  rewrite (inb_mid2 done left r rest (zlen done + 1)) by lia.
  unfold chk. cbv zeta.
  rewrite (getc_mid2 done left r rest (zlen done + 1)) by lia.
  change bgzfindex_vOffset with vo. fold (adj_mergeable left r).
  destruct (adj_mergeable left r); [| reflexivity].
  rewrite (setc_mid2 done left r rest (zlen done + 1)) by lia.
  rewrite (getc_mid2 done left _ rest (zlen done + 1)) by lia.
  unfold join. change (c_End (set_Begin r (c_Begin left))) with (c_End r).
  destruct (vo (c_End r) <? vo (c_End left)).
  - rewrite (setc_mid2 done left _ rest (zlen done + 1)) by lia.
    rewrite (slb_mid done _ (zlen done + 1 - 1)) by lia. rewrite (slb_mid2 done _ _ (zlen done + 1)) by lia.
    replace (zlen done + 1 - 1 <=? zlen done + 1) with true by (symmetry; apply Z.leb_le; lia).
    rewrite (slice_to_mid done _ (zlen done + 1 - 1)) by lia. rewrite (slice_from_mid2 done _ _ (zlen done + 1)) by lia.
    replace (zlen done + 1 - 1) with (zlen done) by lia. reflexivity.
  - rewrite (slb_mid done _ (zlen done + 1 - 1)) by lia. rewrite (slb_mid2 done _ _ (zlen done + 1)) by lia.
    replace (zlen done + 1 - 1 <=? zlen done + 1) with true by (symmetry; apply Z.leb_le; lia).
    rewrite (slice_to_mid done _ (zlen done + 1 - 1)) by lia. rewrite (slice_from_mid2 done _ _ (zlen done + 1)) by lia.
    replace (zlen done + 1 - 1) with (zlen done) by lia. destruct r as [rb re]. reflexivity.
Qed.

Lemma adjacent_loop_gloop fuel : forall l c,
  bgzfindex_adjacent_loop1 fuel l c = gloop bgzfindex_adjacent_loop1_body fuel l c.
Proof.
  induction fuel as [| fuel IH]; intros l c; simpl; [reflexivity |].
  destruct (c <? zlen l); [| reflexivity].
  destruct (bgzfindex_adjacent_loop1_body l c) as [[l' c'] | | |]; simpl; auto.
Qed.

Lemma adjacent_refines_gen fuel l :
  (length l <= fuel)%nat -> bgzfindex_adjacent fuel l = Ok (adjacent_m l).
Proof.
  intros Hf. unfold bgzfindex_adjacent. destruct l as [| c t]; [reflexivity |].
  rewrite zlen_cons. pose proof (zlen_nonneg t).
  replace (zlen t + 1 =? 0) with false by (symmetry; apply Z.eqb_neq; lia).
  cbv zeta. rewrite adjacent_loop_gloop.
  destruct (gloop_spec _ _ adjacent_body_spec fuel t [] c) as [c' E]; [simpl in Hf; lia |].
  change (zlen (@nil chunk) + 1) with 1 in E. simpl app in E. rewrite E. reflexivity.
Qed.

(** * CompressorStrategy(near) *)

Lemma compressor_body_spec near done left r rest :
  bgzfindex_CompressorStrategy_loop1_body near (done ++ left :: r :: rest) (zlen done + 1) =
  Ok (if cmp_mergeable near left r then (done ++ join left r :: rest, zlen done)
      else (done ++ left :: r :: rest, zlen done + 1)).
Proof.
  unfold bgzfindex_CompressorStrategy_loop1_body.
  rewrite (inb_mid done left (r :: rest) (zlen done + 1 - 1)) by lia.
  rewrite (getc_mid done left (r :: rest) (zlen done + 1 - 1)) by lia.
  rewrite (inb_mid2 done left r rest (zlen done + 1)) by lia.
  unfold chk. cbv zeta.
  rewrite (getc_mid2 done left r rest (zlen done + 1)) by lia.
  change bgzfindex_vOffset with vo. fold (cmp_mergeable near left r).
  destruct (cmp_mergeable near left r); [| reflexivity].
  rewrite (setc_mid2 done left r rest (zlen done + 1)) by lia.
  rewrite (getc_mid2 done left _ rest (zlen done + 1)) by lia.
  unfold join. change (c_End (set_Begin r (c_Begin left))) with (c_End r).
  destruct (vo (c_End r) <? vo (c_End left)).
  - rewrite (setc_mid2 done left _ rest (zlen done + 1)) by lia.
    rewrite (slb_mid done _ (zlen done + 1 - 1)) by lia. rewrite (slb_mid2 done _ _ (zlen done + 1)) by lia.
    replace (zlen done + 1 - 1 <=? zlen done + 1) with true by (symmetry; apply Z.leb_le; lia).
    rewrite (slice_to_mid done _ (zlen done + 1 - 1)) by lia. rewrite (slice_from_mid2 done _ _ (zlen done + 1)) by lia.
    replace (zlen done + 1 - 1) with (zlen done) by lia. reflexivity.
  - rewrite (slb_mid done _ (zlen done + 1 - 1)) by lia. rewrite (slb_mid2 done _ _ (zlen done + 1)) by lia.
    replace (zlen done + 1 - 1 <=? zlen done + 1) with true by (symmetry; apply Z.leb_le; lia).
    rewrite (slice_to_mid done _ (zlen done + 1 - 1)) by lia. rewrite (slice_from_mid2 done _ _ (zlen done + 1)) by lia.
    replace (zlen done + 1 - 1) with (zlen done) by lia. destruct r as [rb re]. reflexivity.
Qed.

Lemma compressor_loop_gloop near fuel : forall l c,
  bgzfindex_CompressorStrategy_loop1 near fuel l c = gloop (bgzfindex_CompressorStrategy_loop1_body near) fuel l c.
Proof.
  induction fuel as [| fuel IH]; intros l c; simpl; [reflexivity |].
  destruct (c <? zlen l); [| reflexivity].
  destruct (bgzfindex_CompressorStrategy_loop1_body near l c) as [[l' c'] | | |]; simpl; auto.
Qed.

Lemma compressor_refines_gen near fuel l :
  (length l <= fuel)%nat -> bgzfindex_CompressorStrategy near fuel l = Ok (compressor_m near l).
Proof.
  intros Hf. unfold bgzfindex_CompressorStrategy. destruct l as [| c t]; [reflexivity |].
  rewrite zlen_cons. pose proof (zlen_nonneg t).
  replace (zlen t + 1 =? 0) with false by (symmetry; apply Z.eqb_neq; lia).
  cbv zeta. rewrite compressor_loop_gloop.
  destruct (gloop_spec _ _ (compressor_body_spec near) fuel t [] c) as [c' E]; [simpl in Hf; lia |].
  change (zlen (@nil chunk) + 1) with 1 in E. simpl app in E. rewrite E. reflexivity.
Qed.

(** * squash and identity *)

Lemma squash_fold t : forall e,
  fold_left (fun acc v_c => obind acc (fun st =>
     let v_right := st in
     if bgzfindex_vOffset v_right <? bgzfindex_vOffset (c_End v_c)
     then (let v_right := c_End v_c in Ok v_right) else Ok v_right)) t (Ok e)
  = Ok (fold_left max_end t e).
Proof.
  induction t as [| c t IH]; intros e; simpl; [reflexivity |].
  change bgzfindex_vOffset with vo. unfold max_end at 2.
  destruct (vo e <? vo (c_End c)); apply IH.
Qed.

Lemma squash_refines_gen l : bgzfindex_squash l = Ok (squash_m l).
Proof.
  unfold bgzfindex_squash. destruct l as [| c t]; [reflexivity |].
  rewrite zlen_cons. pose proof (zlen_nonneg t).
  replace (zlen t + 1 =? 0) with false by (symmetry; apply Z.eqb_neq; lia).
  replace (inb (c :: t) 0) with true by (symmetry; unfold inb; rewrite zlen_cons; apply andb_true_intro; split; [reflexivity | apply Z.ltb_lt; lia]).
  replace (slb (c :: t) 1) with true by (symmetry; unfold slb; rewrite zlen_cons; apply andb_true_intro; split; [reflexivity | apply Z.leb_le; lia]).
  unfold chk. cbv zeta.
  change (getc (c :: t) 0) with c. change (slice_from (c :: t) 1) with t.
  rewrite squash_fold. reflexivity.
Qed.

Lemma identity_refines_gen l : bgzfindex_identity l = Ok (identity_m l).
Proof. reflexivity. Qed.
