(** C17 — the statements of Props/C17.v: the refinement of
    Proofs/StrategyLoop.v (generated translation = functional model) composed
    with the model lemmas of Proofs/Strategy.v. *)
From Coq Require Import Lia Sorting.Sorted.
From Hts Require Import Base.Prim Base.Chunks Generated Model.Strategy Model.StrategySpec Model.StrategyRun
  Proofs.Strategy Proofs.StrategyLoop Proofs.StrategyRuns.
Open Scope Z_scope.

Lemma run_fuel_model s fuel l :
  (length l <= fuel)%nat -> run_strategy_fuel s fuel l = Ok (model_of s l).
Proof.
  intros Hf. destruct s; simpl.
  - apply identity_refines_gen.
  - apply adjacent_refines_gen; assumption.
  - apply squash_refines_gen.
  - apply compressor_refines_gen; assumption.
Qed.

Lemma run_model s l : run_strategy s l = Ok (model_of s l).
Proof. apply run_fuel_model. lia. Qed.

Lemma run_inv s l out : run_strategy s l = Ok out -> out = model_of s l.
Proof. rewrite run_model. intros H. inversion H. reflexivity. Qed.

Lemma strategy_total_gen s fuel l :
  (length l <= fuel)%nat ->
  exists out, run_strategy_fuel s fuel l = Ok out /\ run_strategy s l = Ok out.
Proof. intros Hf. exists (model_of s l). split; [apply run_fuel_model; assumption | apply run_model]. Qed.

Lemma model_sorted s l : sorted_begin l -> sorted_begin (model_of s l).
Proof.
  destruct s; simpl; intros H.
  - assumption.
  - apply merge_sorted; assumption.
  - apply squash_sorted_gen.
  - apply merge_sorted; assumption.
Qed.

Lemma strategy_sorted_gen s l out :
  sorted_begin l -> run_strategy s l = Ok out -> sorted_begin out.
Proof. intros Hs H. apply run_inv in H. subst. apply model_sorted; assumption. Qed.

Lemma model_covers s l :
  valid_chunks l -> sorted_begin l -> forall v, covered l v -> covered (model_of s l) v.
Proof.
  destruct s; simpl; intros Hv Hs v Hc.
  - assumption.
  - apply merge_covers; assumption.
  - apply squash_covers_gen; assumption.
  - apply merge_covers; assumption.
Qed.

Lemma strategy_covers_gen s l out :
  valid_chunks l -> sorted_begin l -> run_strategy s l = Ok out ->
  forall v, covered l v -> covered out v.
Proof. intros Hv Hs H. apply run_inv in H. subst. apply model_covers; assumption. Qed.

Lemma adjacent_exact_main l out :
  valid_chunks l -> sorted_begin l -> run_strategy Adjacent l = Ok out ->
  forall v, covered out v <-> covered l v.
Proof. intros Hv Hs H. apply run_inv in H. subst. apply adjacent_exact_gen; assumption. Qed.

Lemma adjacent_separated_main l out :
  valid_chunks l -> sorted_begin l -> run_strategy Adjacent l = Ok out -> pairwise_separated out.
Proof. intros Hv Hs H. apply run_inv in H. subst. apply adjacent_separated_gen; assumption. Qed.

Lemma squash_enclosing_main l out :
  valid_chunks l -> sorted_begin l -> run_strategy Squash l = Ok out ->
  (l = [] -> out = []) /\ (l <> [] -> exists e, out = [e] /\ encloses e l).
Proof.
  intros Hv Hs H. apply run_inv in H. subst. simpl model_of.
  pose proof (squash_enclosing_gen l Hv Hs) as G. destruct l as [| c t].
  - split; [intros; assumption | intros N; destruct N; reflexivity].
  - destruct G as [e [E [G _]]]. split; [discriminate | intros _; exists e; split; assumption].
Qed.

Lemma compressor_gap_main near l out :
  valid_chunks l -> run_strategy (Compressor near) l = Ok out -> neighbours_far near out.
Proof. intros Hv H. apply run_inv in H. subst. apply compressor_gap_gen; assumption. Qed.

Lemma model_idempotent s l : model_of s (model_of s l) = model_of s l.
Proof.
  destruct s; simpl.
  - reflexivity.
  - apply adjacent_idempotent_gen.
  - apply squash_idempotent_gen.
  - apply compressor_idempotent_gen.
Qed.

Lemma strategy_idempotent_gen s l out :
  run_strategy s l = Ok out -> run_strategy s out = Ok out.
Proof. intros H. apply run_inv in H. subst. rewrite run_model. rewrite model_idempotent. reflexivity. Qed.

Lemma identity_unaltered_main l : run_strategy Identity l = Ok l.
Proof. reflexivity. Qed.

Lemma model_valid s l : valid_chunks l -> valid_chunks (model_of s l).
Proof.
  destruct s; simpl; intros Hv.
  - assumption.
  - apply merge_valid; assumption.
  - destruct l as [| c t]; [constructor |].
    pose proof (squash_enclosing_gen (c :: t) Hv) as G.
    (* validity of the enclosing chunk does not need sortedness *)
    inversion Hv as [| ? ? Hc Ht]; subst. simpl. constructor; [| constructor].
    destruct (fold_max_end t (c_End c) (proj2 Hc) Ht) as [_ [_ [_ Hd]]].
    split; [apply Hc | exact Hd].
  - apply merge_valid; assumption.
Qed.

Lemma strategy_valid_gen s l out :
  valid_chunks l -> run_strategy s l = Ok out -> valid_chunks out.
Proof. intros Hv H. apply run_inv in H. subst. apply model_valid; assumption. Qed.

Lemma model_runs s l : valid_chunks l -> merged_runs (joins s) l (model_of s l).
Proof.
  destruct s; simpl; intros Hv.
  - apply identity_runs_gen.
  - apply adjacent_runs_gen; assumption.
  - apply squash_runs_gen; assumption.
  - apply compressor_runs_gen; assumption.
Qed.

Lemma strategy_runs_gen s l out :
  valid_chunks l -> run_strategy s l = Ok out -> merged_runs (joins s) l out.
Proof. intros Hv H. apply run_inv in H. subst. apply model_runs; assumption. Qed.
