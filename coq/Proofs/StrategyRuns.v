(** C17 — the result of a merge loop is the list of enclosing chunks of the
    maximal runs of its input (Model/StrategySpec.v [merged_runs]). *)
From Coq Require Import Lia Sorting.Sorted.
From Hts Require Import Base.Prim Base.Chunks Model.Strategy Model.StrategySpec Proofs.Strategy.
Open Scope Z_scope.

Lemma join_joinp l r : valid_chunk l -> valid_chunk r -> join l r = joinp l r.
Proof.
  intros Hl Hr. unfold joinp. rewrite <- (join_end l r Hl Hr). rewrite <- (join_begin l r).
  destruct (join l r). reflexivity.
Qed.

Lemma pos_inj a b : valid_offset a -> valid_offset b -> pos a = pos b -> a = b.
Proof.
  destruct a as [fa ba], b as [fb bb]. unfold valid_offset, pos, o_File, o_Block. cbn [fst snd].
  intros [Ha1 Ha2] [Hb1 Hb2] E. assert (fa = fb) by lia. subst. assert (ba = bb) by lia. subst. reflexivity.
Qed.

Section Runs.
  Variable mergeable : chunk -> chunk -> bool.
  Variable R : chunk -> chunk -> Prop.
  Hypothesis mergeable_R : forall a b, valid_chunk a -> valid_chunk b -> (mergeable a b = true <-> R a b).

  Lemma merge_from_runs rest : forall left,
    valid_chunk left -> Forall valid_chunk rest ->
    exists g rs,
      left :: rest = flatten ((left, g) :: rs)
      /\ merge_from mergeable left rest = map hull_of ((left, g) :: rs)
      /\ Forall (fun r => chained R (fst r) (snd r)) ((left, g) :: rs)
      /\ Sorted (fun r1 r2 => ~ R (hull_of r1) (fst r2)) ((left, g) :: rs).
  Proof.
    induction rest as [| r rest IH]; intros left Hl Hr.
    - exists [], []. simpl. repeat split; repeat constructor.
    - inversion Hr as [| ? ? Hvr Hvrest]; subst. simpl merge_from.
      destruct (mergeable left r) eqn:E.
      + destruct (IH (join left r) (join_valid _ _ Hl Hvr) Hvrest) as [g [rs [Hf [Hm [Hc Hs]]]]].
        exists (r :: g), rs.
        assert (Hh : hull_of (left, r :: g) = hull_of (join left r, g)).
        { unfold hull_of. simpl. rewrite join_joinp by assumption. reflexivity. }
        repeat split.
        * simpl in *. inversion Hf. reflexivity.
        * rewrite Hm. simpl map. rewrite Hh. reflexivity.
        * inversion Hc as [| ? ? Hc1 Hc2]; subst. constructor; [| assumption].
          simpl. split; [apply mergeable_R; assumption |].
          rewrite <- join_joinp by assumption. exact Hc1.
        * inversion Hs as [| ? ? Hs1 Hs2]; subst. constructor; [assumption |].
          inversion Hs2; subst; constructor. rewrite Hh. assumption.
      + destruct (IH r Hvr Hvrest) as [g [rs [Hf [Hm [Hc Hs]]]]].
        exists [], ((r, g) :: rs). repeat split.
        * simpl in *. f_equal. exact Hf.
        * rewrite Hm. reflexivity.
        * constructor; [exact I | assumption].
        * constructor; [assumption |]. constructor. unfold hull_of. simpl.
          intros HR. apply mergeable_R in HR; [congruence | assumption | assumption].
  Qed.

  Lemma merge_runs l : valid_chunks l -> merged_runs R l (merge mergeable l).
  Proof.
    destruct l as [| c t]; intros Hv.
    - exists []. simpl. repeat split; constructor.
    - inversion Hv; subst. destruct (merge_from_runs t c) as [g [rs H]]; try assumption.
      exists ((c, g) :: rs). exact H.
  Qed.
End Runs.

Lemma adj_mergeable_touches a b :
  valid_chunk a -> valid_chunk b -> (adj_mergeable a b = true <-> touches a b).
Proof. intros Ha Hb. rewrite adj_mergeable_pos by assumption. unfold touches. apply Z.leb_le. Qed.

Lemma cmp_mergeable_within near a b :
  valid_chunk a -> valid_chunk b -> (cmp_mergeable near a b = true <-> within near a b).
Proof.
  intros [_ [Ha _]] [[Hb _] _]. unfold cmp_mergeable, within. rewrite i64_id by lia. apply Z.leb_le.
Qed.

Lemma adjacent_runs_gen l : valid_chunks l -> merged_runs touches l (adjacent_m l).
Proof. apply merge_runs. apply adj_mergeable_touches. Qed.

Lemma compressor_runs_gen near l : valid_chunks l -> merged_runs (within near) l (compressor_m near l).
Proof. apply merge_runs. apply cmp_mergeable_within. Qed.

(** Squash: a single run. *)
Lemma squash_hull t : forall c,
  valid_chunk c -> Forall valid_chunk t ->
  c_End (fold_left joinp t c) = fold_left max_end t (c_End c)
  /\ c_Begin (fold_left joinp t c) = c_Begin c.
Proof.
  induction t as [| x t IH]; intros c Hc Ht; simpl; [split; reflexivity |].
  inversion Ht as [| ? ? Hx Ht']; subst.
  assert (Hj : valid_chunk (joinp c x)) by (rewrite <- join_joinp by assumption; apply join_valid; assumption).
  destruct (IH (joinp c x) Hj Ht') as [E B]. rewrite E, B. split; [| reflexivity]. f_equal.
  unfold joinp, max_end, c_End at 1. cbn [snd]. rewrite !vo_pos by (apply Hc || apply Hx).
  destruct (Z.ltb_spec (pos (c_End x)) (pos (c_End c))); destruct (Z.ltb_spec (pos (c_End c)) (pos (c_End x))); try reflexivity; try lia.
  apply pos_inj; [apply Hx | apply Hc | lia].
Qed.

Lemma chained_true c g : chained (fun _ _ => True) c g.
Proof. revert c. induction g; simpl; auto. Qed.

Lemma squash_runs_gen l : valid_chunks l -> merged_runs (fun _ _ => True) l (squash_m l).
Proof.
  destruct l as [| c t]; intros Hv.
  - exists []. simpl. repeat split; constructor.
  - inversion Hv as [| ? ? Hc Ht]; subst. exists [(c, t)]. simpl. repeat split.
    + rewrite app_nil_r. reflexivity.
    + unfold hull_of. simpl. destruct (squash_hull t c Hc Ht) as [E B].
      unfold mk_chunk. rewrite <- E, <- B. destruct (fold_left joinp t c). reflexivity.
    + constructor; [apply chained_true | constructor].
    + repeat constructor.
Qed.

(** Identity: every chunk is its own run. *)
Lemma identity_runs_gen l : merged_runs (fun _ _ => False) l (identity_m l).
Proof.
  exists (map (fun c => (c, [])) l). unfold identity_m. repeat split.
  - induction l; simpl; [reflexivity | f_equal; assumption].
  - induction l; simpl; [reflexivity | f_equal; assumption].
  - induction l; simpl; constructor; simpl; auto.
  - induction l as [| a l IH]; simpl; constructor; [assumption |].
    destruct l; simpl; constructor. tauto.
Qed.
