(** C15 for tabix at byte level: reading what WriteTo wrote gives the header,
    the names, the name map 0..n-1 and the sorted core; writing that again
    gives the same bytes. *)
From Coq Require Import ZArith Lia List Bool.
From Hts Require Import Base.Prim Base.Bits Generated Model.Index Model.Tabix Model.IndexIO
  Proofs.IndexSort Proofs.IndexIO Proofs.IndexIOFull Proofs.TabixIdx.
Open Scope Z_scope.

(** ** names *)
Definition name_ok (nm : tname) : Prop := forall b, In b nm -> b <> 0.

Lemma split0_name nm : forall cur rest, name_ok nm -> io_split0 cur (nm ++ rest) = io_split0 (rev nm ++ cur) rest.
Proof.
  induction nm as [|b t IH]; intros cur rest H; [reflexivity|].
  simpl. destruct (b =? 0) eqn:E; [apply Z.eqb_eq in E; exfalso; apply (H b); [left; reflexivity|exact E]|].
  rewrite IH by (intros x Hx; apply H; right; exact Hx). rewrite <- app_assoc. reflexivity.
Qed.

Fixpoint join0 (names : list tname) : list Z :=
  match names with
  | [] => []
  | [nm] => nm
  | nm :: t => nm ++ 0 :: join0 t
  end.

Lemma split0_join names : names <> [] -> Forall name_ok names -> io_split0 [] (join0 names) = names.
Proof.
  induction names as [|nm t IH]; intros Hne Hok; [congruence|]. inversion Hok; subst.
  destruct t as [|nm2 t'].
  - simpl. rewrite <- (app_nil_r nm) at 1. rewrite split0_name by assumption. simpl.
    rewrite app_nil_r, rev_involutive. reflexivity.
  - change (join0 (nm :: nm2 :: t')) with (nm ++ 0 :: join0 (nm2 :: t')).
    rewrite split0_name by assumption. simpl. rewrite app_nil_r, rev_involutive. f_equal.
    apply IH; [discriminate|assumption].
Qed.

Lemma block_join names : names <> [] -> flat_map (fun nm : list Z => nm ++ [0]) names = join0 names ++ [0].
Proof.
  induction names as [|nm t IH]; intros Hne; [congruence|]. destruct t as [|nm2 t'].
  - simpl. rewrite app_nil_r. reflexivity.
  - change (flat_map (fun nm : list Z => nm ++ [0]) (nm :: nm2 :: t'))
      with ((nm ++ [0]) ++ flat_map (fun nm : list Z => nm ++ [0]) (nm2 :: t')).
    rewrite IH by discriminate. change (join0 (nm :: nm2 :: t')) with (nm ++ 0 :: join0 (nm2 :: t')).
    rewrite <- !app_assoc. reflexivity.
Qed.

Lemma names_len_fold names : forall a,
  0 <= a -> a + zlen (flat_map (fun nm : list Z => nm ++ [0]) names) < 2 ^ 31 ->
  fold_left (fun n nm => s32 (n + s32 (zlen nm + 1))) names a = a + zlen (flat_map (fun nm : list Z => nm ++ [0]) names).
Proof.
  induction names as [|nm t IH]; intros a Ha Hb; cbn [fold_left flat_map] in *.
  - unfold zlen; simpl; lia.
  - rewrite !zlen_app in Hb. change (zlen [0]) with 1 in Hb.
    pose proof (zlen_nonneg nm). pose proof (zlen_nonneg (flat_map (fun nm : list Z => nm ++ [0]) t)).
    assert (E1 : s32 (zlen nm + 1) = zlen nm + 1).
    { unfold s32, wraps. change (2 ^ (32 - 1)) with (2 ^ 31). rewrite Z.mod_small by lia. lia. }
    assert (E2 : s32 (a + (zlen nm + 1)) = a + (zlen nm + 1)).
    { unfold s32, wraps. change (2 ^ (32 - 1)) with (2 ^ 31). rewrite Z.mod_small by lia. lia. }
    rewrite E1, E2. rewrite IH by lia. rewrite !zlen_app. change (zlen [0]) with 1. lia.
Qed.

Lemma name_eqb_eq a : forall b, tb_name_eqb a b = true <-> a = b.
Proof.
  induction a as [|x a IH]; intros [|y b]; simpl; split; intros H; try reflexivity; try discriminate.
  - apply andb_true_iff in H. destruct H as [H1 H2]. apply Z.eqb_eq in H1. apply IH in H2. congruence.
  - inversion H; subst. rewrite Z.eqb_refl. simpl. apply IH. reflexivity.
Qed.

Lemma map_set_new m k v : (forall k' v', In (k', v') m -> k' <> k) -> io_map_set m k v = m ++ [(k, v)].
Proof.
  induction m as [|[k' v'] t IH]; intros H; simpl; [reflexivity|].
  destruct (tb_name_eqb k' k) eqn:E.
  - apply name_eqb_eq in E. exfalso. apply (H k' v'); [left; reflexivity|exact E].
  - rewrite IH; [reflexivity|]. intros k2 v2 Hin. apply (H k2 v2). right; exact Hin.
Qed.

Lemma name_map_numbered names : forall i m,
  NoDup names -> (forall k v, In (k, v) m -> ~ In k names) ->
  io_name_map names i m = m ++ numbered names i.
Proof.
  induction names as [|nm t IH]; intros i m Hnd Hm; simpl; [rewrite app_nil_r; reflexivity|].
  inversion Hnd as [|? ? Hni Hnd']; subst.
  rewrite map_set_new.
  2:{ intros k' v' Hin Heq. subst. apply (Hm nm v' Hin). left; reflexivity. }
  rewrite IH; [rewrite <- app_assoc; reflexivity|exact Hnd'|].
  intros k v Hin Hk. apply in_app_or in Hin. destruct Hin as [Hin|[Heq|[]]].
  - apply (Hm k v Hin). right; exact Hk.
  - inversion Heq; subst. exact (Hni Hk).
Qed.

(** ** the file *)
Definition tbx_hdr_ok (h : list Z) : Prop :=
  exists f z nc bc ec meta skip, h = [f; z; nc; bc; ec; meta; skip] /\
    0 <= f < 256 /\ (z = 0 \/ z = 1) /\
    0 <= nc < 2 ^ 31 /\ 0 <= bc < 2 ^ 31 /\ 0 <= ec < 2 ^ 31 /\ 0 <= meta < 2 ^ 31 /\ 0 <= skip < 2 ^ 31.

Definition tbx_fits (t : tbx) : Prop :=
  tbx_hdr_ok (t_hdr t) /\ NoDup (t_names t) /\ Forall name_ok (t_names t) /\
  zlen (t_names t) = zlen (irefs (t_idx t)) /\
  zlen (flat_map (fun nm : list Z => nm ++ [0]) (t_names t)) < 2 ^ 31 /\
  idx_fits (ix_sort (t_idx t)).

Definition tbx_reread (t : tbx) : tbx :=
  mkTbx (t_names t) (numbered (t_names t) 0) (t_hdr t)
        (mkIdx (irefs (ix_sort (t_idx t))) (iunm (t_idx t)) true io_maxint).

Theorem tbx_read_write t :
  tbx_fits t -> tbx_read (fst (tbx_write t)) = Ok (Some (tbx_reread t)).
Proof.
  intros ((f & z & nc & bc & ec & meta & skip & Hh & Hf & Hz & Hnc & Hbc & Hec & Hme & Hsk) & Hnd & Hok & Hlen & Hblk & Hfit).
  destruct (format_field f z Hf Hz) as (V1 & V2 & V3).
  unfold tbx_reread. unfold tbx_write, wr_core. rewrite Hh.
  cbn [hdr_get nth fst]. set (v := Z.lor (u8 f) (if z =? 0 then 0 else 65536)) in *.
  pose proof (zlen_nonneg (flat_map (fun nm : list Z => nm ++ [0]) (t_names t))) as Hb0.
  rewrite names_len_fold by lia. rewrite Z.add_0_l.
  set (blk := flat_map (fun nm : list Z => nm ++ [0]) (t_names t)) in *.
  assert (Es : s32 (zlen blk) = zlen blk).
  { unfold s32, wraps. change (2 ^ (32 - 1)) with (2 ^ 31). rewrite Z.mod_small by lia. lia. }
  rewrite Es.
  destruct Hfit as (Hr & Hl & Hu).
  rewrite <- ix_sort_zlen. rewrite <- ix_sort_zlen in Hlen.
  set (refs := irefs (ix_sort (t_idx t))) in *.
  pose proof (zlen_nonneg refs) as Hr0.
  unfold tbx_read.
  erewrite rd_bind_ok by (exact (rd_bytes_app tbi_magic _)).
  change (negb (io_bytes_eqb tbi_magic tbi_magic)) with false. cbv iota.
  do 8 (erewrite rd_bind_ok by (apply rd_i32_wr; lia)).
  erewrite rd_bind_ok by (apply rd_count_ok; lia).
  replace (Z.to_nat (zlen blk)) with (length blk) by (unfold zlen; lia).
  erewrite rd_bind_ok by (exact (rd_bytes_app blk _)).
  assert (Hnames : (match rev blk with
                    | [] => rd_ret []
                    | lastb :: pre => if negb (lastb =? 0) then rd_fail 1 else rd_ret (io_split0 [] (rev pre))
                    end) = rd_ret (t_names t)).
  { destruct (t_names t) as [|n0 nt] eqn:En.
    - reflexivity.
    - unfold blk. rewrite block_join by discriminate. rewrite rev_app_distr. cbn [rev app].
      change (negb (0 =? 0)) with false. cbv iota.
      rewrite rev_involutive. rewrite split0_join; [reflexivity|discriminate|exact Hok]. }
  rewrite Hnames. erewrite rd_bind_ok by (unfold rd_ret; reflexivity).
  match goal with |- context [negb (?a =? ?b)] =>
    replace (a =? b) with true by (symmetry; apply Z.eqb_eq; exact Hlen) end. cbn [negb].
  erewrite rd_bind_ok by (apply rd_core_wr; assumption).
  unfold rd_ret. clearbody v. rewrite V2, V3.
  rewrite name_map_numbered; [|exact Hnd|intros ? ? []]. rewrite ix_sort_unm. reflexivity.
Qed.

Theorem tbx_write_read_write t :
  fst (tbx_write (tbx_reread t)) = fst (tbx_write t).
Proof.
  unfold tbx_reread.
  set (c := mkIdx (irefs (ix_sort (t_idx t))) (iunm (t_idx t)) true io_maxint).
  assert (Hc : ix_sort c = c) by reflexivity.
  unfold tbx_write, wr_core. cbn [t_idx t_hdr t_names]. rewrite Hc. cbn [fst]. subst c. cbn [irefs iunm].
  rewrite ix_sort_zlen, ix_sort_unm. reflexivity.
Qed.

(** ** answers of the re-read index *)
From Hts Require Import Model.IndexSpec Model.TabixSpec Proofs.Index Proofs.IndexStats Proofs.IndexPremises.

Lemma tbx_reread_chunks t nm beg end_ :
  TInv t -> fst (tb_chunks (tbx_reread t) nm beg end_) = fst (tb_chunks t nm beg end_).
Proof.
  intros I. unfold tb_chunks, tbx_reread. cbn [t_map t_idx t_names t_hdr]. rewrite I.
  destruct (tb_lookup (numbered (t_names t) 0) nm) as [id|]; [|reflexivity].
  pose proof (chunks_of_sorted_copy (t_idx t)
                (mkIdx (irefs (ix_sort (t_idx t))) (iunm (t_idx t)) true io_maxint) id beg end_ eq_refl eq_refl) as E.
  destruct (ix_chunks (mkIdx (irefs (ix_sort (t_idx t))) (iunm (t_idx t)) true io_maxint) id beg end_) as [a1 s1].
  destruct (ix_chunks (t_idx t) id beg end_) as [a2 s2]. simpl in *. exact E.
Qed.

Theorem tabix_complete_io_gen :
  forall hdr nrs, ix_wf (tb_assign [] nrs) ->
  exists t, tb_fold_add (tb_new hdr) nrs = Ok t /\
    (tbx_fits t ->
     tbx_read (fst (tbx_write t)) = Ok (Some (tbx_reread t)) /\
     fst (tbx_write (tbx_reread t)) = fst (tbx_write t) /\
     (forall nm beg end_, fst (tb_chunks (tbx_reread t) nm beg end_) = fst (tb_chunks t nm beg end_)) /\
     forall beg end_, 0 <= beg < end_ -> end_ <= 2 ^ 29 ->
     forall nm r', In (nm, r') (combine (map fst nrs) (tb_assign [] nrs)) ->
       ix_overlaps r' (q_rid r') beg end_ ->
       exists cs, fst (tb_chunks (tbx_reread t) nm beg end_) = Ok cs /\ ix_covers cs r').
Proof.
  intros hdr nrs W.
  destruct (bai_complete_gen bai_bin_containment_holds (tb_assign [] nrs) W (assign_bins_ok nrs [])) as (ix & F & Q).
  destruct (tb_sim nrs (tb_new hdr) ix eq_refl F) as (t & Ft & Hix & HI & Hn).
  exists t. split; [exact Ft|]. intros Hfit.
  split; [apply tbx_read_write; exact Hfit|]. split; [apply tbx_write_read_write|].
  split; [intros; apply tbx_reread_chunks; exact HI|].
  intros beg end_ Hq Hq2 nm r' Hin Ho. rewrite tbx_reread_chunks by exact HI.
  pose proof (assigned_id nrs [] nm r' Hin) as Hid.
  change (t_names (tb_new hdr)) with (@nil tname) in Hn.
  unfold tb_chunks. rewrite HI, lookup_numbered, Hn, Hid.
  destruct (Q (q_rid r') beg end_ Hq Hq2) as (Q1 & _).
  assert (Hr : In r' (tb_assign [] nrs)) by (eapply in_combine_r; exact Hin).
  destruct (Q1 r' Hr Ho) as (cs & E & C). rewrite Hix.
  destruct (ix_chunks ix (q_rid r') beg end_) as [a ix2]. simpl in *. exists cs. split; assumption.
Qed.
