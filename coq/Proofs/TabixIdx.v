(** C04 for tabix: the name table assigns dense ids by first appearance, so
    the index core sees a well-formed list and completeness is inherited. *)
From Coq Require Import ZArith Lia List Bool.
From Hts Require Import Base.Prim Base.Bits Generated Model.Index Model.Tabix Model.IndexSpec Proofs.IndexSort Proofs.Index.
From Hts Require Import Model.TabixSpec.
Open Scope Z_scope.

Fixpoint numbered (l : list tname) (i : Z) : list (tname * Z) :=
  match l with [] => [] | h :: t => (h, i) :: numbered t (i + 1) end.

Lemma lookup_numbered l i nm : tb_lookup (numbered l i) nm = tb_index_of nm l i.
Proof.
  revert i; induction l as [|h t IH]; intros i; simpl; [reflexivity|].
  destruct (tb_name_eqb h nm); [reflexivity|apply IH].
Qed.

Lemma numbered_snoc l x i : numbered (l ++ [x]) i = numbered l i ++ [(x, i + zlen l)].
Proof.
  revert i; induction l as [|h t IH]; intros i; simpl.
  - unfold zlen; simpl. f_equal. f_equal. lia.
  - rewrite IH. replace (i + 1 + zlen t) with (i + zlen (h :: t)) by (unfold zlen; simpl length; lia). reflexivity.
Qed.

Lemma binfor_total s e : exists b, internal_BinFor s e = Ok b.
Proof.
  unfold internal_BinFor.
  repeat match goal with |- context [if ?c then _ else _] => destruct c end; eexists; reflexivity.
Qed.

Lemma binfor_bin_of r : internal_BinFor (q_start r) (q_end r) = Ok (tb_bin_of r).
Proof. unfold tb_bin_of. destruct (binfor_total (q_start r) (q_end r)) as (b & ->). reflexivity. Qed.

Definition TInv (t : tbx) : Prop := t_map t = numbered (t_names t) 0.

Lemma tb_sim nrs : forall t ix',
  TInv t -> ix_fold_add (t_idx t) (tb_assign (t_names t) nrs) = Ok ix' ->
  exists t', tb_fold_add t nrs = Ok t' /\ t_idx t' = ix' /\ TInv t' /\ t_names t' = tb_final (t_names t) nrs.
Proof.
  induction nrs as [|[nm r] rest IH]; intros t ix' I H.
  - simpl in H. inversion H; subst. exists t. simpl. auto.
  - simpl in H. unfold tb_step in H.
    cbn [tb_fold_add]. unfold tb_add. rewrite I, lookup_numbered.
    cbn [tb_final]. unfold tb_step.
    rewrite (binfor_bin_of r). cbn [obind].
    destruct (tb_index_of nm (t_names t) 0) as [id|] eqn:E; cbn [fst snd] in *.
    + simpl in H. destruct (ix_add (t_idx t) _) as [ix1| | |] eqn:Ea; simpl in H; try discriminate.
      cbn [obind].
      destruct (IH (mkTbx (t_names t) (numbered (t_names t) 0) (t_hdr t) ix1) ix') as (t' & F & A & B & C).
      * reflexivity.
      * exact H.
      * exists t'. auto.
    + simpl in H. destruct (ix_add (t_idx t) _) as [ix1| | |] eqn:Ea; simpl in H; try discriminate.
      cbn [obind].
      destruct (IH (mkTbx (t_names t ++ [nm]) (numbered (t_names t) 0 ++ [(nm, zlen (t_names t))]) (t_hdr t) ix1) ix') as (t' & F & A & B & C).
      * unfold TInv. simpl. rewrite numbered_snoc. reflexivity.
      * exact H.
      * exists t'. auto.
Qed.

(** The table only grows at the end, so an id once given stays. *)
Lemma index_of_app nm l m i k : tb_index_of nm l i = Some k -> tb_index_of nm (l ++ m) i = Some k.
Proof.
  revert i; induction l as [|h t IH]; intros i H; simpl in *; [discriminate|].
  destruct (tb_name_eqb h nm); [exact H|apply IH; exact H].
Qed.

Lemma final_extends nrs : forall tbl, exists ext, tb_final tbl nrs = tbl ++ ext.
Proof.
  induction nrs as [|[nm r] rest IH]; intros tbl; simpl.
  - exists []. rewrite app_nil_r. reflexivity.
  - unfold tb_step. destruct (tb_index_of nm tbl 0); simpl.
    + apply IH.
    + destruct (IH (tbl ++ [nm])) as (ext & ->). exists ([nm] ++ ext). rewrite app_assoc. reflexivity.
Qed.

Lemma name_eqb_refl nm : tb_name_eqb nm nm = true.
Proof. induction nm as [|x t IH]; simpl; [reflexivity|]. rewrite Z.eqb_refl. exact IH. Qed.

Lemma index_of_snoc_new nm l i : tb_index_of nm l i = None -> tb_index_of nm (l ++ [nm]) i = Some (i + zlen l).
Proof.
  revert i; induction l as [|h t IH]; intros i H; simpl in *.
  - rewrite name_eqb_refl. f_equal. unfold zlen; simpl; lia.
  - destruct (tb_name_eqb h nm); [discriminate|]. rewrite IH by exact H. f_equal. unfold zlen; simpl length; lia.
Qed.

Lemma assigned_id nrs : forall tbl nm r',
  In (nm, r') (combine (map fst nrs) (tb_assign tbl nrs)) ->
  tb_index_of nm (tb_final tbl nrs) 0 = Some (q_rid r').
Proof.
  induction nrs as [|[n0 r0] rest IH]; intros tbl nm r' Hin; simpl in Hin; [destruct Hin|].
  cbn [tb_final]. unfold tb_step in *.
  destruct (tb_index_of n0 tbl 0) as [id|] eqn:E; cbn [fst snd] in *.
  - simpl in Hin. destruct Hin as [Heq|Hin]; [|apply IH; exact Hin].
    inversion Heq; subst. simpl. destruct (final_extends rest tbl) as (ext & ->). apply index_of_app. exact E.
  - simpl in Hin. destruct Hin as [Heq|Hin]; [|apply IH; exact Hin].
    inversion Heq; subst. simpl. destruct (final_extends rest (tbl ++ [nm])) as (ext & ->).
    apply index_of_app. rewrite index_of_snoc_new by exact E. f_equal.
Qed.

Lemma assign_bins_ok nrs : forall tbl, ix_bins_ok (tb_assign tbl nrs).
Proof.
  induction nrs as [|[nm r] rest IH]; intros tbl; simpl; [constructor|].
  destruct (tb_step tbl nm) as [id tbl']. constructor; [|apply IH].
  intros _. simpl. apply binfor_bin_of.
Qed.

Lemma in_combine_assign nrs : forall tbl r', In r' (tb_assign tbl nrs) ->
  exists nm, In (nm, r') (combine (map fst nrs) (tb_assign tbl nrs)).
Proof.
  induction nrs as [|[n0 r0] rest IH]; intros tbl r' Hin; simpl in *; [destruct Hin|].
  destruct (tb_step tbl n0) as [id tbl']. simpl in *. destruct Hin as [<-|Hin].
  - exists n0. left. reflexivity.
  - destruct (IH _ _ Hin) as (nm & H). exists nm. right. exact H.
Qed.

Theorem tabix_complete_gen :
  bai_bin_containment ->
  forall hdr nrs, ix_wf (tb_assign [] nrs) ->
  exists t, tb_fold_add (tb_new hdr) nrs = Ok t /\
    forall beg end_, 0 <= beg < end_ -> end_ <= 2 ^ 29 ->
    forall nm r', In (nm, r') (combine (map fst nrs) (tb_assign [] nrs)) ->
      ix_overlaps r' (q_rid r') beg end_ ->
      exists cs, fst (tb_chunks t nm beg end_) = Ok cs /\ ix_covers cs r'.
Proof.
  intros BC hdr nrs W.
  destruct (bai_complete_gen BC (tb_assign [] nrs) W (assign_bins_ok nrs [])) as (ix & F & Q).
  destruct (tb_sim nrs (tb_new hdr) ix eq_refl F) as (t & Ft & Hix & HI & Hn).
  exists t. split; [exact Ft|]. intros beg end_ Hq Hq2 nm r' Hin Ho.
  pose proof (assigned_id nrs [] nm r' Hin) as Hid.
  change (t_names (tb_new hdr)) with (@nil tname) in Hn.
  unfold tb_chunks. rewrite HI, lookup_numbered, Hn, Hid.
  destruct (Q (q_rid r') beg end_ Hq Hq2) as (Q1 & _).
  assert (Hr : In r' (tb_assign [] nrs)) by (eapply in_combine_r; exact Hin).
  destruct (Q1 r' Hr Ho) as (cs & E & C). rewrite Hix.
  destruct (ix_chunks ix (q_rid r') beg end_) as [a ix2]. simpl in *. exists cs. split; assumption.
Qed.
