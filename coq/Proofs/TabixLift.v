(** C04 for tabix in every later state of the shared core (sort, earlier
    queries, MergeChunks with a covering strategy). *)
From Coq Require Import ZArith Lia List Bool.
From Hts Require Import Base.Prim Generated Model.Index Model.Tabix Model.IndexSpec Model.TabixSpec
  Proofs.Index Proofs.TabixIdx.
Open Scope Z_scope.

Definition tb_with (t : tbx) (ix : index) : tbx := mkTbx (t_names t) (t_map t) (t_hdr t) ix.

Lemma tb_merge_with s t : tb_merge s t = tb_with t (ix_merge s (t_idx t)).
Proof. reflexivity. Qed.

Lemma tb_chunks_state t nm beg end_ :
  exists ix', snd (tb_chunks t nm beg end_) = tb_with t ix' /\
              (ix' = t_idx t \/ exists id, ix' = snd (ix_chunks (t_idx t) id beg end_)).
Proof.
  unfold tb_chunks. destruct (tb_lookup (t_map t) nm) as [id|].
  - destruct (ix_chunks (t_idx t) id beg end_) as [a ix'] eqn:E. exists ix'. split; [reflexivity|].
    right. exists id. rewrite E. reflexivity.
  - exists (t_idx t). split; [destruct t; reflexivity|left; reflexivity].
Qed.

Theorem tabix_complete_reach_gen :
  bai_bin_containment ->
  forall hdr nrs, ix_wf (tb_assign [] nrs) ->
  exists t, tb_fold_add (tb_new hdr) nrs = Ok t /\ reach (tb_assign [] nrs) (t_idx t) /\
    forall ix', reach (tb_assign [] nrs) ix' ->
    forall beg end_, 0 <= beg < end_ -> end_ <= 2 ^ 29 ->
    forall nm r', In (nm, r') (combine (map fst nrs) (tb_assign [] nrs)) ->
      ix_overlaps r' (q_rid r') beg end_ ->
      exists cs, fst (tb_chunks (tb_with t ix') nm beg end_) = Ok cs /\ ix_covers cs r'.
Proof.
  intros BC hdr nrs W.
  destruct (bai_complete_gen BC (tb_assign [] nrs) W (assign_bins_ok nrs [])) as (ix & F & _).
  destruct (tb_sim nrs (tb_new hdr) ix eq_refl F) as (t & Ft & Hix & HI & Hn).
  exists t. split; [exact Ft|]. split; [rewrite Hix; apply reach_built; exact F|].
  intros ix' Hre beg end_ Hq Hq2 nm r' Hin Ho.
  pose proof (assigned_id nrs [] nm r' Hin) as Hid.
  change (t_names (tb_new hdr)) with (@nil tname) in Hn.
  unfold tb_chunks, tb_with. cbn [t_map t_idx t_names t_hdr]. rewrite HI, lookup_numbered, Hn, Hid.
  assert (Hr : In r' (tb_assign [] nrs)) by (eapply in_combine_r; exact Hin).
  destruct (bai_complete_reach BC (tb_assign [] nrs) ix' W (assign_bins_ok nrs []) Hre (q_rid r') beg end_ r' Hq Hq2 Hr Ho)
    as (cs & E & C).
  destruct (ix_chunks ix' (q_rid r') beg end_) as [a ix2]. simpl in *. exists cs. split; assumption.
Qed.
