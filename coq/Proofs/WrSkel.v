(** Tie between bgzf/writer.go and the hand-written pipeline model: the
    channel skeleton that gen/emit_wr.go extracts from the Go source on every
    run (the Generated.bgzf_wr_skel definitions) must be the one Model/WriterConc.v was
    written from.  Any change to the order of channel operations, qwg.Add /
    Done / Wait, go statements, early returns or underlying writes in
    writer.go breaks [writer_skeleton_as_modelled] (a broken proof obligation
    of C01/C08/C12), also when the change happens to be harmless.

    Reading guide (model step <- skeleton events):
      Write   AWLoop: the loop; AWSend: WSend WQueue; AWAdd: WQAdd + WGo writeBlock;
              AWRecv: WRecv WWaiting + WReadErr (loop post statement)
      Flush   AFRecv: WRecv WWaiting; AFSend: WSend WQueue; AFAdd: WQAdd + WGo + WReadErr
      Wait    AWaitQ: WQWait + WReadErr
      Close   ACSend, ACAdd, ACRecv, ACCompress (WCall FWriteBlock), ACCloseQ (WSetClosed; WClose WQueue),
              ACWg (WGWait; WReadErr; WIf [WUnderlying])
      emitter ERange: WRange WQueue (no break: the loop drains the queue also after a failure); EFlushWait: WRecv WFlush
      writeOK EWrite: c.err check, sticky-error check (WReadErr), empty-buffer return, WUnderlying, error check;
              EDone: deferred WQDone (on every path), then deferred WSend WWaiting
      writeBlock deferred WSend WFlush (stage SFlushed) on every path. *)
From Coq Require Import ZArith List Bool.
From Hts Require Import Base.Prim Generated.
Import ListNotations.

Definition expected_skeleton : list (list wr_ev) :=
  [ (* NewWriterLevel *)
    [WIf [WReturn] []; WLoop [WSend WWaiting]; WRecv WWaiting; WGAdd;
     WGo [WDefer [WGDone]; WRange WQueue [WRecv WFlush; WCall FWriteOK]]; WReturn];
    (* writeOK *)
    [WDefer [WSend WWaiting]; WDefer [WQDone]; WIf [WCall FSetErr; WReturn] []; WReadErr; WIf [WReturn] [];
     WIf [WReturn] []; WUnderlying; WIf [WCall FSetErr; WReturn] []; WReturn];
    (* writeBlock *)
    [WDefer [WSend WFlush]; WIf [WIf [WReturn] []] []; WIf [WReturn] []; WIf [WReturn] []; WIf [WReturn] []; WIf [WReturn] []];
    (* Write *)
    [WIf [WReturn] []; WReadErr; WIf [WReturn] [];
     WLoop [WIf [WSend WQueue; WQAdd; WGo [WCall FWriteBlock]; WRecv WWaiting] []; WReadErr]; WReadErr; WReturn];
    (* Flush *)
    [WIf [WReturn] []; WReadErr; WIf [WReturn] []; WIf [WReturn] []; WRecv WWaiting; WSend WQueue; WQAdd;
     WGo [WCall FWriteBlock]; WReadErr; WReturn];
    (* Wait *)
    [WReadErr; WIf [WReturn] []; WQWait; WReadErr; WReturn];
    (* Close *)
    [WIf [WSend WQueue; WQAdd; WRecv WWaiting; WCall FWriteBlock; WSetClosed; WClose WQueue; WGWait; WReadErr;
          WIf [WUnderlying] []] []; WReadErr; WReturn] ].

Lemma writer_skeleton_as_modelled :
  [bgzf_wr_skel_NewWriterLevel; bgzf_wr_skel_writeOK; bgzf_wr_skel_writeBlock; bgzf_wr_skel_Write;
   bgzf_wr_skel_Flush; bgzf_wr_skel_Wait; bgzf_wr_skel_Close] = expected_skeleton.
Proof. reflexivity. Qed.

(** Token conservation read off the generated skeleton: on every path through
    a function body, count the sends to a channel / the qwg operations. *)
Fixpoint count_ev (f : wr_ev -> bool) (fuel : nat) (l : list wr_ev) : nat :=
  match fuel with
  | O => O
  | S n =>
      match l with
      | [] => O
      | e :: r =>
          (if f e then 1 else 0)
          + match e with
            | WGo b | WDefer b | WLoop b | WRange _ b => count_ev f n b
            | WIf a b => count_ev f n a + count_ev f n b
            | _ => O
            end
          + count_ev f n r
      end
  end.

Definition is_send (c : wr_chan) (e : wr_ev) : bool :=
  match e, c with WSend WQueue, WQueue | WSend WWaiting, WWaiting | WSend WFlush, WFlush => true | _, _ => false end.
Definition is_ev (x : wr_ev) (e : wr_ev) : bool :=
  match x, e with WQAdd, WQAdd | WQDone, WQDone | WQWait, WQWait => true | _, _ => false end.

(** Every function that sends on bg.queue does exactly one qwg.Add per send;
    writeBlock and writeOK give their compressor back exactly once (deferred
    send); writeOK calls qwg.Done exactly once. *)
Lemma skeleton_token_counts :
  count_ev (is_send WQueue) 20 bgzf_wr_skel_Write = count_ev (is_ev WQAdd) 20 bgzf_wr_skel_Write
  /\ count_ev (is_send WQueue) 20 bgzf_wr_skel_Flush = count_ev (is_ev WQAdd) 20 bgzf_wr_skel_Flush
  /\ count_ev (is_send WQueue) 20 bgzf_wr_skel_Close = count_ev (is_ev WQAdd) 20 bgzf_wr_skel_Close
  /\ count_ev (is_send WFlush) 20 bgzf_wr_skel_writeBlock = 1%nat
  /\ count_ev (is_send WWaiting) 20 bgzf_wr_skel_writeOK = 1%nat
  /\ count_ev (is_ev WQDone) 20 bgzf_wr_skel_writeOK = 1%nat.
Proof. vm_compute. repeat split. Qed.
