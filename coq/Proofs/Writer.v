(** Invariants of the sequential writer machine (Model/Writer.v) run without
    failures ([sstep None []]), and what they give at the end of a script. *)
From Coq Require Import ZArith Lia List Bool.
From Hts Require Import Base.Prim Base.WrList Generated Model.Bgzf Model.Writer.
Import ListNotations.
Open Scope Z_scope.

Definition step0 := sstep None [].

Definition pcb (s : sst) : list Z :=
  match s_pc s with AWLoop b _ _ | AWSend b _ | AWAdd b _ | AWRecv b _ => b | _ => [] end.

Definition pend (s : sst) : list Z :=
  match s_pc s with
  | AWAdd _ _ | AWRecv _ _ | ACAdd | ACRecv | ACCompress => []
  | AFSend => s_local s ++ s_act s
  | _ => s_act s
  end.

Definition close_pc (pc : apc) : bool :=
  match pc with ACSend | ACAdd | ACRecv | ACCompress | ACCloseQ | ACWg => true | _ => false end.

Definition closing (s : sst) : bool := s_closed s || close_pc (s_pc s).

Definition is_close (o : wop) : bool := match o with OpClose => true | _ => false end.

Definition small (p : list Z) : Prop := zlen p <= bgzf_BlockSize.

Record SInv (W : list Z) (s : sst) : Prop := {
  si_act : small (s_act s);
  si_local : small (s_local s);
  si_sub : Forall small (s_sub s);
  si_data : concat (s_sub s) ++ pend s = s_data s;
  si_written : s_data s ++ pcb s ++ (if closing s then [] else written (s_script s)) = W;
  si_eof : s_closed s = true -> s_pc s = ACWg \/ s_eof s = true;
  si_eof_closed : s_eof s = true -> s_closed s = true;
  si_closed_pc : s_closed s = true ->
                 (s_pc s = AIdle \/ s_pc s = AWaitQ \/ s_pc s = ACWg \/ s_pc s = ADone) /\ (s_pc s <> ACWg -> s_act s = []);
  si_closepc_open : close_pc (s_pc s) = true -> s_pc s <> ACWg -> s_closed s = false;
  si_flushmark : 0 <= s_flushmark s <= zlen (concat (s_sub s));
  si_durable : 0 <= s_durable s <= zlen (concat (s_sub s));
  si_wloop : match s_pc s with AWLoop _ _ (Some _) => False | _ => True end;
  si_fact : s_pc s = AFSend \/ s_pc s = AFAdd \/ s_pc s = ACCloseQ \/ s_pc s = ACWg -> s_act s = [];
  si_wg : s_pc s = ACWg -> s_closed s = true;
  si_done : s_pc s = ADone -> s_script s = [];
  si_close_eof : close_pc (s_pc s) = true -> s_eof s = false
}.

Lemma sinit_inv script : SInv (written script) (sinit script).
Proof.
  constructor; cbn; try (unfold small; cbn; unfold bgzf_BlockSize; lia); try discriminate; auto.
Qed.

Lemma small_nil : small [].
Proof. unfold small, bgzf_BlockSize. cbn. lia. Qed.

Lemma zlen_concat_snoc (l : list (list Z)) x : zlen (concat (l ++ [x])) = zlen (concat l) + zlen x.
Proof. rewrite concat_snoc, zlen_app'. reflexivity. Qed.

Lemma wcopy_n_range act b : small act -> 0 <= wcopy_n act b <= zlen b /\ zlen act + wcopy_n act b <= bgzf_BlockSize.
Proof.
  intros Ha. unfold small in Ha. unfold wcopy_n.
  pose proof (zlen_nonneg act). pose proof (zlen_nonneg b).
  destruct ((zlen act =? 0) || (zlen act + zlen b <=? bgzf_BlockSize)); lia.
Qed.

Ltac inv_simpl := cbn [s_pc s_act s_local s_script s_closed s_eof s_res s_sub s_data s_flushmark s_durable s_marks
                       set_pc ret pop set_flushmark set_durable submit set_act] in *.

Ltac prep :=
  inv_simpl; unfold pend, pcb, closing in *; inv_simpl;
  repeat match goal with
  | H : s_pc ?s = _ |- _ => rewrite H in *; clear H
  | H : s_script ?s = _ |- _ => rewrite H in *; clear H
  | H : s_closed ?s = _ |- _ => rewrite H in *; clear H
  | H : s_act ?s = [] |- _ => rewrite H in *; clear H
  end;
  cbn [close_pc orb andb written app isnil is_some errclass] in *;
  rewrite ?app_nil_r in *.

Ltac zl :=
  repeat match goal with
  | |- context [zlen ?l] => lazymatch goal with H : 0 <= zlen l |- _ => fail | _ => pose proof (zlen_nonneg l) end
  end.

Ltac fin :=
  try assumption; try discriminate; try apply small_nil; try reflexivity;
  try solve [intuition (try discriminate; try congruence; auto)];
  try solve [intros; match goal with |- ?x = false => destruct x eqn:?; [|reflexivity] end; intuition (try discriminate; try congruence)];
  try solve [rewrite ?zlen_concat_snoc; zl; lia];
  try solve [apply Forall_snoc; assumption];
  try solve [match goal with Hd : _ = s_data _ |- _ => rewrite <- Hd end;
             rewrite ?concat_snoc, ?app_nil_r, <- ?app_assoc; reflexivity];
  try solve [match goal with Hd : _ = s_data _ |- _ => rewrite <- Hd end;
             rewrite ?app_nil_r, ?zlen_app'; zl; lia].

Lemma closed_pcs s : (s_closed s = true ->
                 (s_pc s = AIdle \/ s_pc s = AWaitQ \/ s_pc s = ACWg \/ s_pc s = ADone) /\ (s_pc s <> ACWg -> s_act s = [])) ->
  forall pc, s_pc s = pc -> pc <> AIdle -> pc <> AWaitQ -> pc <> ACWg -> pc <> ADone -> s_closed s = false.
Proof.
  intros H pc Hpc H1 H2 H3 H4. destruct (s_closed s); [|reflexivity].
  destruct (H eq_refl) as [[E|[E|[E|E]]] _]; congruence.
Qed.

Lemma step0_inv W s : SInv W s -> SInv W (step0 s).
Proof.
  intros [Ha Hl Hs Hd Hw He Hec Hcp Hco Hf Hdu Hwl Hfa Hwg Hdn Hce].
  unfold step0, sstep.
  destruct (s_pc s) eqn:Hpc.
  - (* AIdle *)
    destruct (s_script s) as [|o r] eqn:Hscr.
    + constructor; prep; fin.
    + destruct o; inv_simpl.
      * destruct (s_closed s) eqn:Hcl; constructor; prep; fin.
      * destruct (s_closed s) eqn:Hcl; [constructor; prep; fin|].
        destruct (s_act s) eqn:Hact; cbn [isnil]; constructor; prep; fin.
      * constructor; prep; fin.
      * destruct (s_closed s) eqn:Hcl; constructor; prep; fin.
  - (* AWLoop *)
    destruct err as [x|]; [contradiction|].
    assert (Hopen : s_closed s = false) by (destruct (s_closed s); [destruct (Hcp eq_refl) as [[E|[E|[E|E]]] _]; discriminate | reflexivity]).
    destruct b as [|b0 b].
    + cbn [isnil orb is_some]. constructor; prep; fin.
    + cbn [isnil orb is_some]. unfold write_iter.
      set (bb := b0 :: b) in *.
      destruct (wcopy_n_range (s_act s) bb Ha) as [[Hk0 Hk1] Hk2].
      set (k := wcopy_n (s_act s) bb) in *.
      assert (Hsm : small (s_act s ++ firstn (Z.to_nat k) bb)).
      { unfold small. rewrite zlen_app', zlen_firstn by lia. lia. }
      assert (Hsplit : firstn (Z.to_nat k) bb ++ skipn (Z.to_nat k) bb = bb) by apply firstn_skipn.
      assert (HW : (s_data s ++ firstn (Z.to_nat k) bb) ++ skipn (Z.to_nat k) bb ++ written (s_script s) = W).
      { rewrite <- Hw. unfold pcb, closing. rewrite Hpc, Hopen. cbn [close_pc orb].
        rewrite <- !app_assoc. rewrite (app_assoc (firstn _ _)). rewrite Hsplit. reflexivity. }
      destruct ((zlen (s_act s ++ firstn (Z.to_nat k) bb) =? bgzf_BlockSize) || (k =? 0));
        constructor; prep; fin.
  - try (assert (Hact0 : s_act s = []) by (apply Hfa; tauto)).
    assert (Hopen : s_closed s = false) by (destruct (s_closed s); [destruct (Hcp eq_refl) as [[E|[E|[E|E]]] _]; discriminate | reflexivity]).
    constructor; prep; fin.
  - try (assert (Hact0 : s_act s = []) by (apply Hfa; tauto)).
    assert (Hopen : s_closed s = false) by (destruct (s_closed s); [destruct (Hcp eq_refl) as [[E|[E|[E|E]]] _]; discriminate | reflexivity]).
    constructor; prep; fin.
  - try (assert (Hact0 : s_act s = []) by (apply Hfa; tauto)).
    assert (Hopen : s_closed s = false) by (destruct (s_closed s); [destruct (Hcp eq_refl) as [[E|[E|[E|E]]] _]; discriminate | reflexivity]).
    constructor; prep; fin.
  - try (assert (Hact0 : s_act s = []) by (apply Hfa; tauto)).
    assert (Hopen : s_closed s = false) by (destruct (s_closed s); [destruct (Hcp eq_refl) as [[E|[E|[E|E]]] _]; discriminate | reflexivity]).
    constructor; prep; fin.
  - try (assert (Hact0 : s_act s = []) by (apply Hfa; tauto)).
    assert (Hopen : s_closed s = false) by (destruct (s_closed s); [destruct (Hcp eq_refl) as [[E|[E|[E|E]]] _]; discriminate | reflexivity]).
    constructor; prep; fin.
  - try (assert (Hact0 : s_act s = []) by (apply Hfa; tauto)).
    assert (Hopen : s_closed s = false) by (destruct (s_closed s); [destruct (Hcp eq_refl) as [[E|[E|[E|E]]] _]; discriminate | reflexivity]).
    constructor; prep; fin.
  - constructor; prep; fin.
  - try (assert (Hact0 : s_act s = []) by (apply Hfa; tauto)).
    assert (Hopen : s_closed s = false) by (destruct (s_closed s); [destruct (Hcp eq_refl) as [[E|[E|[E|E]]] _]; discriminate | reflexivity]).
    constructor; prep; fin.
  - try (assert (Hact0 : s_act s = []) by (apply Hfa; tauto)).
    assert (Hopen : s_closed s = false) by (destruct (s_closed s); [destruct (Hcp eq_refl) as [[E|[E|[E|E]]] _]; discriminate | reflexivity]).
    constructor; prep; fin.
  - try (assert (Hact0 : s_act s = []) by (apply Hfa; tauto)).
    assert (Hopen : s_closed s = false) by (destruct (s_closed s); [destruct (Hcp eq_refl) as [[E|[E|[E|E]]] _]; discriminate | reflexivity]).
    constructor; prep; fin.
  - try (assert (Hact0 : s_act s = []) by (apply Hfa; tauto)).
    assert (Hopen : s_closed s = false) by (destruct (s_closed s); [destruct (Hcp eq_refl) as [[E|[E|[E|E]]] _]; discriminate | reflexivity]).
    constructor; prep; fin.
  - try (assert (Hact0 : s_act s = []) by (apply Hfa; tauto)).
    assert (Hopen : s_closed s = false) by (destruct (s_closed s); [destruct (Hcp eq_refl) as [[E|[E|[E|E]]] _]; discriminate | reflexivity]).
    constructor; prep; fin.
  - assert (Hact0 : s_act s = []) by (apply Hfa; tauto).
    assert (Hcl : s_closed s = true) by (apply Hwg; reflexivity).
    constructor; prep; fin.
  - constructor; prep; fin.
Qed.

Lemma siter_step0 n s : siter (S n) s = siter n (step0 s).
Proof. reflexivity. Qed.

Lemma siter_inv W n : forall s, SInv W s -> SInv W (siter n s).
Proof. induction n; intros s H; [assumption|]. cbn [siter]. apply IHn. apply step0_inv. assumption. Qed.

Lemma run_writer_inv fuel script : SInv (written script) (run_writer fuel script).
Proof. apply siter_inv. apply sinit_inv. Qed.

(** ADone is absorbing. *)
Lemma step0_done s : sdone s = true -> step0 s = s.
Proof. unfold sdone, step0, sstep. destruct (s_pc s); try discriminate. reflexivity. Qed.

Lemma siter_done n s : sdone s = true -> siter n s = s.
Proof. induction n; intros H; [reflexivity|]. cbn [siter]. fold step0. rewrite step0_done by assumption. auto. Qed.

Lemma siter_add n m s : siter (n + m) s = siter m (siter n s).
Proof. revert s. induction n; intros s; [reflexivity|]. cbn [Nat.add siter]. apply IHn. Qed.

(** Two finished runs from the same state agree. *)
Lemma siter_done_unique n m s :
  sdone (siter n s) = true -> sdone (siter m s) = true -> siter n s = siter m s.
Proof.
  intros Hn Hm. destruct (Nat.le_ge_cases n m) as [H|H].
  - replace m with (n + (m - n))%nat by lia. rewrite siter_add. rewrite (siter_done (m - n) (siter n s)) by assumption. reflexivity.
  - replace n with (m + (n - m))%nat by lia. rewrite siter_add. rewrite (siter_done (n - m) (siter m s)) by assumption. reflexivity.
Qed.

(** A script that still contains a Close ends closed. *)
Definition will_close (s : sst) : Prop := existsb is_close (s_script s) = true \/ closing s = true.

Lemma step0_will_close W s : SInv W s -> will_close s -> will_close (step0 s).
Proof.
  unfold will_close, closing, step0, sstep. intros I H.
  destruct (s_pc s) eqn:Hpc; cbn [close_pc] in *; rewrite ?orb_false_r, ?orb_true_r in *; inv_simpl;
    try (destruct H as [H|H]; [left|right]; inv_simpl; rewrite ?orb_false_r, ?orb_true_r; assumption);
    try (right; inv_simpl; rewrite ?orb_true_r; reflexivity).
  - (* AIdle *)
    destruct (s_script s) as [|o r] eqn:Hscr.
    + destruct H as [H|H]; [discriminate|]. right. inv_simpl. rewrite orb_false_r. assumption.
    + destruct o; inv_simpl; cbn [existsb is_close orb] in H;
        repeat match goal with |- context [if ?c then _ else _] => destruct c eqn:? end;
        inv_simpl; cbn [close_pc]; rewrite ?orb_false_r, ?orb_true_r;
        try (destruct H as [H|H]; [left; assumption|right; congruence]);
        try (right; reflexivity); try (right; assumption).
  - (* AWLoop *)
    destruct (isnil b || is_some err).
    + inv_simpl. cbn [close_pc]. rewrite orb_false_r. assumption.
    + unfold write_iter. inv_simpl.
      destruct ((zlen (s_act s ++ firstn (Z.to_nat (wcopy_n (s_act s) b)) b) =? bgzf_BlockSize) || (wcopy_n (s_act s) b =? 0));
        cbn [close_pc]; rewrite orb_false_r; assumption.
  - (* ACWg *) right. apply (si_wg _ _ I). assumption.
  - (* ADone *) rewrite Hpc. cbn [close_pc]. rewrite orb_false_r. assumption.
Qed.

Lemma siter_will_close W n : forall s, SInv W s -> will_close s -> will_close (siter n s).
Proof.
  induction n; intros s I H; [assumption|]. cbn [siter]. apply IHn.
  - apply step0_inv. assumption.
  - apply (step0_will_close W); assumption.
Qed.

(** What a finished run of a script that contains a Close looks like. *)
Lemma finished_closed W s :
  SInv W s -> will_close s -> sdone s = true ->
  s_closed s = true /\ s_eof s = true /\ concat (s_sub s) = W /\ Forall small (s_sub s).
Proof.
  intros I Hc Hd. unfold sdone in Hd. destruct (s_pc s) eqn:Hpc; try discriminate.
  pose proof (si_done _ _ I Hpc) as Hscr.
  assert (Hcl : s_closed s = true).
  { destruct Hc as [Hc|Hc]; [rewrite Hscr in Hc; discriminate|].
    unfold closing in Hc. rewrite Hpc in Hc. cbn [close_pc] in Hc. rewrite orb_false_r in Hc. assumption. }
  split; [assumption|]. split.
  { destruct (si_eof _ _ I Hcl) as [H|H]; [congruence|assumption]. }
  split; [|apply (si_sub _ _ I)].
  pose proof (si_data _ _ I) as Hdat. pose proof (si_written _ _ I) as Hw.
  destruct (si_closed_pc _ _ I Hcl) as [_ Hact].
  unfold pend, pcb, closing in *. rewrite Hpc, Hcl in *. cbn [orb app] in *.
  rewrite Hact in Hdat by discriminate. rewrite !app_nil_r in *. congruence.
Qed.
