(** Invariant WInv of the concurrent writer pipeline (Model/WriterConc.v),
    for every schedule, with a fault-free underlying writer:
      - the API thread's state is a state of the sequential machine,
      - submitted blocks = emitted blocks ++ blocks of the pending compressors
        (emitter's current one, then the queue, in order),
      - what reached the underlying writer is one member per emitted block,
      - qwg counts the pending compressors whose Add has been executed,
      - durability marks never exceed what is in the stream. *)
From Coq Require Import ZArith Lia List Bool.
From Hts Require Import Base.Prim Base.WrList Generated Model.Bgzf Model.Writer Model.WriterConc
  Proofs.Bgzf Proofs.Writer.
Import ListNotations.
Open Scope Z_scope.

Lemma siter_S_end n s : siter (S n) s = step0 (siter n s).
Proof. revert s. induction n; intros s; [reflexivity|]. cbn [siter] in *. rewrite <- IHn. reflexivity. Qed.

(** Which fields a sequential step changes. *)
Definition submits (s : sst) : option (list Z) :=
  match s_pc s with
  | AWSend _ _ | ACSend => Some (s_act s)
  | AFSend => Some (s_local s)
  | _ => None
  end.

Lemma step0_sub s :
  s_sub (step0 s) = match submits s with Some b => s_sub s ++ [b] | None => s_sub s end.
Proof.
  unfold step0, sstep, submits. destruct (s_pc s); try reflexivity.
  - destruct (s_script s) as [|[] r]; cbn; try reflexivity;
      repeat match goal with |- context [if ?c then _ else _] => destruct c eqn:? end; cbn; congruence.
  - destruct (isnil b || is_some err); [reflexivity|]. unfold write_iter. reflexivity.
Qed.

Lemma step0_eof s : s_pc s <> ACWg -> s_eof (step0 s) = s_eof s.
Proof.
  intros H. unfold step0, sstep. destruct (s_pc s); try reflexivity; try congruence.
  - destruct (s_script s) as [|[] r]; cbn; try reflexivity;
      repeat match goal with |- context [if ?c then _ else _] => destruct c eqn:? end; cbn; congruence.
  - destruct (isnil b || is_some err); [reflexivity|]. unfold write_iter. reflexivity.
Qed.

Lemma step0_durable s : s_pc s <> ACWg -> s_pc s <> AWaitQ -> s_durable (step0 s) = s_durable s.
Proof.
  intros H H'. unfold step0, sstep. destruct (s_pc s); try reflexivity; try congruence.
  - destruct (s_script s) as [|[] r]; cbn; try reflexivity;
      repeat match goal with |- context [if ?c then _ else _] => destruct c eqn:? end; cbn; congruence.
  - destruct (isnil b || is_some err); [reflexivity|]. unfold write_iter. reflexivity.
Qed.

Lemma step0_closed s : s_pc s <> ACCloseQ -> s_closed (step0 s) = s_closed s.
Proof.
  intros H. unfold step0, sstep. destruct (s_pc s); try reflexivity; try congruence.
  - destruct (s_script s) as [|[] r]; cbn; try reflexivity;
      repeat match goal with |- context [if ?c then _ else _] => destruct c eqn:? end; cbn; congruence.
  - destruct (isnil b || is_some err); [reflexivity|]. unfold write_iter. reflexivity.
Qed.

Definition send_pc (pc : apc) : bool :=
  match pc with AWSend _ _ | AFSend | ACSend => true | _ => false end.
Definition add_pc (pc : apc) : bool :=
  match pc with AWAdd _ _ | AFAdd | ACAdd => true | _ => false end.

Lemma step0_add_pc s : add_pc (s_pc (step0 s)) = send_pc (s_pc s).
Proof.
  unfold step0, sstep. destruct (s_pc s) eqn:E; try reflexivity.
  - destruct (s_script s) as [|[] r]; cbn; try reflexivity;
      repeat match goal with |- context [if ?c then _ else _] => destruct c eqn:? end; reflexivity.
  - destruct (isnil b || is_some err); [reflexivity|]. unfold write_iter. cbn [s_pc].
    match goal with |- context [if ?c then _ else _] => destruct c end; reflexivity.
  - rewrite E. reflexivity.
Qed.

Lemma step0_wait_durable s : s_pc s = AWaitQ -> s_durable (step0 s) = s_flushmark s /\ s_sub (step0 s) = s_sub s /\ s_eof (step0 s) = s_eof s /\ s_closed (step0 s) = s_closed s /\ add_pc (s_pc (step0 s)) = false.
Proof. intros H. unfold step0, sstep. rewrite H. cbn. auto. Qed.

Lemma step0_closeq s : s_pc s = ACCloseQ -> s_closed (step0 s) = true.
Proof. intros H. unfold step0, sstep. rewrite H. reflexivity. Qed.

Lemma step0_wg s : s_pc s = ACWg ->
  s_eof (step0 s) = true /\ s_durable (step0 s) = zlen (s_data s) /\ s_sub (step0 s) = s_sub s
  /\ s_closed (step0 s) = s_closed s /\ add_pc (s_pc (step0 s)) = false.
Proof. intros H. unfold step0, sstep. rewrite H. cbn. auto. Qed.

(** Facts about a caller step with any latch value / returned block. *)
Lemma sstep_sub_prefix e fb s : prefix_of (s_sub s) (s_sub (sstep e fb s)).
Proof.
  unfold sstep. destruct (s_pc s); try (apply prefix_of_refl); try (eexists; reflexivity);
    try (destruct e; apply prefix_of_refl).
  - destruct (s_script s) as [|[] r]; cbn; try apply prefix_of_refl;
      repeat match goal with |- context [if ?c then _ else _] => destruct c end;
      try (destruct e); cbn; apply prefix_of_refl.
  - destruct (isnil b || is_some err); [apply prefix_of_refl|]. unfold write_iter. apply prefix_of_refl.
Qed.

Lemma sstep_data_prefix e fb s : prefix_of (s_data s) (s_data (sstep e fb s)).
Proof.
  unfold sstep. destruct (s_pc s); try (apply prefix_of_refl); try (destruct e; apply prefix_of_refl).
  - destruct (s_script s) as [|[] r]; cbn; try apply prefix_of_refl;
      repeat match goal with |- context [if ?c then _ else _] => destruct c end;
      try (destruct e); cbn; apply prefix_of_refl.
  - destruct (isnil b || is_some err); [apply prefix_of_refl|]. unfold write_iter. cbn. eexists; reflexivity.
Qed.

Lemma sstep_eof_err e fb s : is_some e = true -> s_eof s = false -> s_eof (sstep e fb s) = false.
Proof.
  intros He H. destruct e as [x|]; [|discriminate]. unfold sstep.
  destruct (s_pc s); try assumption; cbn; try assumption.
  - destruct (s_script s) as [|[] r]; cbn; try assumption;
      repeat match goal with |- context [if ?c then _ else _] => destruct c end; cbn; assumption.
  - destruct (isnil b || is_some err); [assumption|]. unfold write_iter. assumption.
  - reflexivity.
Qed.

Section ConcProofs.
  Variable deflate : Z -> list Z -> list Z.
  Variable crc32 : list Z -> Z.
  Variables (pm : wr_patch) (guard ovf : bool) (lvl : Z) (h : gzhdr).
  Hypothesis deflate_bound : forall l d,
    zlen (deflate l d) <= zlen d + zlen d / 2^12 + zlen d / 2^14 + zlen d / 2^25 + 13.
  Hypothesis Hpa : patch_at_12 pm guard.
  Hypothesis Hl : hdr_legal h.
  Hypothesis Hs : hdr_small h.

  Definition M (p : list Z) : list Z := member_of deflate crc32 lvl h p.
  Variable fault : Z -> bool.   (* fault plan of the underlying writer *)
  Definition stepc := step deflate crc32 pm guard ovf lvl h fault.
  Definition runc := run deflate crc32 pm guard ovf lvl h fault.

  Definition entry_ok (c : comp) (p : list Z) : Prop :=
    c_err c = None /\ small p /\
    match c_stage c with
    | SSent | STasked => c_block c = p /\ c_buf c = []
    | SFlushed => c_buf c = M p /\ c_block c = []
    | SIdle => False
    end.

  Definition idle_ok (c : comp) : Prop := c_block c = [] /\ c_buf c = [] /\ c_err c = None.
  Definition clean (c : comp) : Prop := c_buf c = [] /\ c_err c = None.

  Definition held_pending (st : cst) : list comp :=
    match x_epc st, x_held st with
    | EFlushWait, Some c | EWrite, Some c => [c]
    | _, _ => []
    end.
  Definition pending (st : cst) : list comp := held_pending st ++ x_queue st.

  Definition nonsent (c : comp) : bool := negb (stage_eqb (c_stage c) SSent).
  Definition count_nonsent (l : list comp) : Z := zlen (filter nonsent l).

  Definition add_id (st : cst) : Z :=
    match s_pc (x_api st) with AFAdd => c_id (x_local st) | _ => c_id (x_active st) end.

  Record CInv (script : list wop) (st : cst) : Prop := {
    ci_err : x_err st = None;
    ci_panic : x_panic st = false;
    ci_wfail : x_wfail st = false;
    ci_orbit : exists m, x_api st = siter m (sinit script);
    ci_waiting : Forall idle_ok (x_waiting st);
    ci_active : clean (x_active st);
    ci_local : clean (x_local st);
    ci_chain : exists done ps,
        s_sub (x_api st) = done ++ ps /\ Forall2 entry_ok (pending st) ps
        /\ x_out st = map M done ++ (if s_eof (x_api st) then [bgzf_magicBlock] else [])
        /\ s_durable (x_api st) <= zlen (concat done);
    ci_qwg : x_qwg st = count_nonsent (pending st) + (match x_epc st with EDone => 1 | _ => 0 end);
    ci_sent : if add_pc (s_pc (x_api st))
              then exists P e, pending st = P ++ [e] /\ c_stage e = SSent /\ c_id e = add_id st
                               /\ forallb nonsent P = true
              else forallb nonsent (pending st) = true;
    ci_held : match x_epc st with
              | ERange | EExit => x_held st = None
              | EFlushWait => exists c, x_held st = Some c
              | EWrite => exists c, x_held st = Some c /\ c_stage c = SFlushed
              | EDone => exists c, x_held st = Some c /\ clean c /\ c_stage c = SFlushed /\ c_block c = []
              end;
    ci_exit : x_epc st = EExit -> x_queue st = [] /\ x_qclosed st = true;
    ci_qclosed : x_qclosed st = s_closed (x_api st);
    ci_eof : s_eof (x_api st) = true -> x_epc st = EExit
  }.

  Lemma api_inv script st : CInv script st -> SInv (written script) (x_api st).
  Proof. intros I. destruct (ci_orbit _ _ I) as [m ->]. apply siter_inv. apply sinit_inv. Qed.

  Lemma count_nonsent_app a b : count_nonsent (a ++ b) = count_nonsent a + count_nonsent b.
  Proof. unfold count_nonsent. rewrite filter_app, zlen_app'. reflexivity. Qed.

  Lemma count_nonsent_all l : forallb nonsent l = true -> count_nonsent l = zlen l.
  Proof.
    unfold count_nonsent. induction l as [|c l IH]; cbn [forallb filter]; [reflexivity|].
    intros H. apply andb_prop in H. destruct H as [H1 H2]. rewrite H1. rewrite !zlen_cons. rewrite IH by assumption. reflexivity.
  Qed.

  Lemma entry_ok_task id c p : entry_ok c p ->
    entry_ok (task_on deflate crc32 pm guard ovf lvl h id c) p.
  Proof.
    intros [He [Hsm Hst]]. unfold task_on.
    destruct ((c_id c =? id) && stage_eqb (c_stage c) STasked) eqn:E; [|repeat split; assumption].
    apply andb_prop in E. destruct E as [_ E]. destruct (c_stage c); try discriminate.
    destruct Hst as [Hb Hbuf]. unfold run_block. rewrite Hbuf, Hb.
    rewrite (write_block_ok deflate crc32 deflate_bound pm guard ovf lvl h p Hpa Hl Hs Hsm).
    repeat split; auto.
  Qed.

  Lemma nonsent_task id c : nonsent (task_on deflate crc32 pm guard ovf lvl h id c) = nonsent c.
  Proof.
    unfold task_on. destruct ((c_id c =? id) && stage_eqb (c_stage c) STasked) eqn:E; [|reflexivity].
    apply andb_prop in E. destruct E as [_ E]. destruct (c_stage c) eqn:Hst; try discriminate.
    unfold run_block, nonsent.
    destruct (write_block deflate crc32 pm guard ovf lvl h (c_buf c) (c_block c)); cbn; rewrite ?Hst; reflexivity.
  Qed.

  Lemma stage_task id c : c_stage c = SSent ->
    task_on deflate crc32 pm guard ovf lvl h id c = c.
  Proof. intros H. unfold task_on. rewrite H. cbn. rewrite andb_false_r. reflexivity. Qed.

  Lemma entry_ok_mark id c p : entry_ok c p -> entry_ok (mark_on id c) p.
  Proof.
    intros [He [Hsm Hst]]. unfold mark_on.
    destruct ((c_id c =? id) && stage_eqb (c_stage c) SSent) eqn:E; [|repeat split; assumption].
    apply andb_prop in E. destruct E as [_ E]. destruct (c_stage c); try discriminate.
    repeat split; cbn; tauto.
  Qed.

  Lemma mark_nonsent id c : nonsent c = true -> mark_on id c = c.
  Proof.
    unfold nonsent, mark_on. intros H. apply negb_true_iff in H. rewrite H. rewrite andb_false_r. reflexivity.
  Qed.

  Lemma Forall2_map_l {A B} (R : A -> B -> Prop) (f : A -> A) l ps :
    (forall a b, R a b -> R (f a) b) -> Forall2 R l ps -> Forall2 R (map f l) ps.
  Proof. intros Hf H. induction H; cbn; constructor; auto. Qed.

  Lemma forallb_map_same (f : comp -> comp) l :
    (forall c, nonsent (f c) = nonsent c) -> forallb nonsent (map f l) = forallb nonsent l.
  Proof. intros Hf. induction l; cbn; [reflexivity|]. rewrite Hf, IHl. reflexivity. Qed.

  Lemma count_map_same (f : comp -> comp) l :
    (forall c, nonsent (f c) = nonsent c) -> count_nonsent (map f l) = count_nonsent l.
  Proof.
    intros Hf. unfold count_nonsent. induction l as [|c l IH]; cbn [map filter]; [reflexivity|].
    rewrite Hf. destruct (nonsent c); rewrite ?zlen_cons; rewrite IH; reflexivity.
  Qed.

  Lemma map_id_nonsent (f : comp -> comp) l :
    (forall c, nonsent c = true -> f c = c) -> forallb nonsent l = true -> map f l = l.
  Proof.
    intros Hf. induction l as [|c l IH]; cbn; [reflexivity|]. intros H. apply andb_prop in H. destruct H.
    rewrite Hf, IH by assumption. reflexivity.
  Qed.

  Lemma pending_map f st :
    pending (map_pending f st) = map f (pending st).
  Proof.
    unfold pending, held_pending, map_pending. cbn [x_epc x_held x_queue]. rewrite map_app.
    destruct (x_epc st), (x_held st); reflexivity.
  Qed.

  (** The compress thread of any compressor keeps the invariant. *)
  Lemma task_inv script id st : CInv script st ->
    CInv script (map_pending (task_on deflate crc32 pm guard ovf lvl h id) st).
  Proof.
    intros I. set (f := task_on deflate crc32 pm guard ovf lvl h id).
    assert (Hns : forall c, nonsent (f c) = nonsent c) by (intros; apply nonsent_task).
    destruct I. constructor; rewrite ?pending_map; unfold map_pending; cbn [x_err x_panic x_wfail x_api x_waiting x_active x_local x_out x_qwg x_epc x_held x_queue x_qclosed]; auto.
    - destruct ci_chain0 as (done & ps & H1 & H2 & H3 & H4). exists done, ps. repeat split; auto.
      apply Forall2_map_l; [|assumption]. intros; apply entry_ok_task; assumption.
    - rewrite count_map_same by assumption. assumption.
    - destruct (add_pc (s_pc (x_api st))).
      + destruct ci_sent0 as (P & e & E1 & E2 & E3 & E4). exists (map f P), e. rewrite E1, map_app. cbn [map].
        unfold f at 2. rewrite stage_task by assumption. repeat split; auto.
        rewrite forallb_map_same by assumption. assumption.
      + rewrite forallb_map_same by assumption. assumption.
    - destruct (x_epc st); try (rewrite ci_held0; reflexivity).
      + destruct ci_held0 as [c ->]. eexists; reflexivity.
      + destruct ci_held0 as [c [-> Hc]]. eexists; split; [reflexivity|].
        unfold f, task_on. rewrite Hc. cbn. rewrite andb_false_r. assumption.
      + destruct ci_held0 as [c [-> [Hc [Hst Hbk]]]]. eexists; split; [reflexivity|].
        unfold f, task_on. rewrite Hst. cbn. rewrite andb_false_r. auto.
    - intros H. destruct (ci_exit0 H) as [-> ?]. auto.
  Qed.

  Ltac proj := cbn [x_api x_active x_local x_queue x_waiting x_held x_epc x_wfail x_qwg x_out x_nwr x_err
                    x_qclosed x_panic x_cap upd_emit upd_api map_pending] in *.

  Lemma pending_cons_entry st c q ps :
    pending st = c :: q -> Forall2 entry_ok (pending st) ps ->
    exists p ps', ps = p :: ps' /\ entry_ok c p /\ Forall2 entry_ok q ps'.
  Proof. intros E H. rewrite E in H. inversion H; subst. eauto. Qed.

  Lemma M_nonempty p : isnil (M p) = false.
  Proof. pose proof (member_of_nonempty deflate crc32 lvl h p). unfold M. destruct (member_of deflate crc32 lvl h p); [congruence|reflexivity]. Qed.

  Lemma count_nonsent_nonneg l : 0 <= count_nonsent l.
  Proof. unfold count_nonsent. apply zlen_nonneg. Qed.

  Lemma count_nonsent_cons c l : count_nonsent (c :: l) = (if nonsent c then 1 else 0) + count_nonsent l.
  Proof. unfold count_nonsent. cbn [filter]. destruct (nonsent c); rewrite ?zlen_cons; lia. Qed.

  Ltac fin2 :=
    try assumption; try reflexivity; try congruence;
    try solve [eexists; eauto];
    try solve [intros; discriminate];
    try solve [intros Hx; match goal with H : _ -> _ = EExit |- _ => specialize (H Hx); discriminate end];
    try solve [intros Hx; match goal with H : _ -> _ /\ _ |- _ => destruct (H Hx); auto end].

  Lemma emit_inv script st :
    CInv script st -> (x_epc st = EWrite -> fault (x_nwr st) = false) -> CInv script (emit_step fault st).
  Proof.
    intros I Hf. pose proof I as [Ierr Ipan Iwf Iorb Iwait Iact Iloc Ichain Iqwg Isent Iheld Iexit Iqc Ieof].
    unfold emit_step. destruct (x_epc st) eqn:Hepc.
    - (* ERange *)
      destruct (x_queue st) as [|c q] eqn:Hq.
      + destruct (x_qclosed st) eqn:Hqc; [|assumption].
        constructor; proj; auto; unfold pending, held_pending in *; proj; rewrite ?Hepc, ?Hq, ?Iheld in *; cbn [app] in *; auto; fin2.
      + constructor; proj; auto; unfold pending, held_pending in *; proj; rewrite ?Hepc, ?Hq, ?Iheld in *; cbn [app] in *; auto; fin2.
    - (* EFlushWait *)
      destruct Iheld as [c Hc]. rewrite Hc. destruct (stage_eqb (c_stage c) SFlushed) eqn:Hst; [|assumption].
      assert (Hst' : c_stage c = SFlushed) by (destruct (c_stage c); try discriminate; reflexivity).
      constructor; proj; auto; unfold pending, held_pending in *; proj; rewrite ?Hepc, ?Hc in *; cbn [app] in *; auto; fin2.
    - (* EWrite *)
      destruct Iheld as [c [Hc Hst]]. rewrite Hc.
      destruct Ichain as (done & ps & C1 & C2 & C3 & C4).
      assert (Hpend : pending st = c :: x_queue st) by (unfold pending, held_pending; rewrite Hepc, Hc; reflexivity).
      destruct (pending_cons_entry st c (x_queue st) ps Hpend C2) as (p & ps' & -> & [E1 [E2 E3]] & C2').
      rewrite Hst in E3. destruct E3 as [Ebuf Eblk].
      rewrite E1. rewrite Ierr. cbn [is_some]. rewrite Ebuf, M_nonempty. rewrite (Hf eq_refl).
      assert (Heof : s_eof (x_api st) = false).
      { destruct (s_eof (x_api st)) eqn:E; [|reflexivity]. specialize (Ieof eq_refl). congruence. }
      assert (Hns : nonsent c = true) by (unfold nonsent; rewrite Hst; reflexivity).
      rewrite Hpend in Iqwg, Isent. rewrite count_nonsent_cons, Hns in Iqwg.
      constructor; proj; auto; unfold pending, held_pending; proj; rewrite ?Hepc; cbn [app]; auto; fin2.
      + exists (done ++ [p]), ps'. rewrite <- app_assoc. cbn [app]. split; [assumption|]. split; [assumption|].
        rewrite Heof in *. rewrite app_nil_r in *. rewrite C3, map_app. cbn [map]. split; [reflexivity|].
        rewrite concat_snoc, zlen_app'. pose proof (zlen_nonneg p). lia.
      + lia.
      + unfold add_id. proj. fold (add_id st).
        destruct (add_pc (s_pc (x_api st))).
        * destruct Isent as (P & e & S1 & S2 & S3 & S4).
          destruct P as [|c' P'].
          -- cbn [app] in S1. injection S1 as <- _. congruence.
          -- cbn [app] in S1. injection S1 as <- S1. exists P', e. cbn [forallb] in S4. apply andb_prop in S4. tauto.
        * cbn [forallb] in Isent. apply andb_prop in Isent. tauto.
      + eexists; split; [reflexivity|]. cbn. repeat split; auto.
    - (* EDone *)
      destruct Iheld as [c [Hc [[Hb He] [Hst Hbk]]]]. rewrite Hc.
      destruct (zlen (x_waiting st) <? x_cap st); [|assumption].
      assert (Hpend : pending st = x_queue st) by (unfold pending, held_pending; rewrite Hepc; reflexivity).
      pose proof (count_nonsent_nonneg (x_queue st)) as Hnn.
      rewrite Hpend in *.
      constructor; proj; auto; unfold pending, held_pending; proj; cbn [app]; auto; fin2.
      + rewrite Ipan. cbn [orb]. apply Z.leb_gt. lia.
      + apply Forall_snoc; [assumption|]. repeat split; cbn; auto.
      + lia.
    - assumption.
  Qed.

  Lemma orbit_step script st :
    (exists m, x_api st = siter m (sinit script)) -> exists m, step0 (x_api st) = siter m (sinit script).
  Proof. intros [m ->]. exists (S m). rewrite siter_S_end. reflexivity. Qed.

  Lemma submits_send s : send_pc (s_pc s) = match submits s with Some _ => true | None => false end.
  Proof. unfold submits. destruct (s_pc s); reflexivity. Qed.

  (** API steps that only advance the caller's program (and possibly take a
      compressor from waiting). *)
  Lemma same_inv script st act loc w :
    CInv script st -> clean act -> clean loc -> Forall idle_ok w ->
    submits (x_api st) = None -> s_pc (x_api st) <> ACWg -> s_pc (x_api st) <> AWaitQ ->
    s_pc (x_api st) <> ACCloseQ -> add_pc (s_pc (x_api st)) = false ->
    CInv script (upd_api st (step0 (x_api st)) act loc (x_queue st) w (x_qwg st)).
  Proof.
    intros I Ha Hlo Hw Hsub H1 H2 H3 Hadd.
    pose proof I as [Ierr Ipan Iwf Iorb Iwait Iact Iloc Ichain Iqwg Isent Iheld Iexit Iqc Ieof].
    assert (Hsend : send_pc (s_pc (x_api st)) = false) by (rewrite submits_send, Hsub; reflexivity).
    constructor; proj; auto; unfold pending, held_pending in *; proj; auto.
    - apply orbit_step; assumption.
    - rewrite step0_sub, Hsub, step0_eof, step0_durable by assumption. assumption.
    - rewrite step0_add_pc, Hsend. rewrite Hadd in Isent. assumption.
    - rewrite step0_closed by assumption. assumption.
    - rewrite step0_eof by assumption. assumption.
  Qed.

  Lemma closed_no_submit W s : SInv W s -> s_closed s = true -> submits s = None.
  Proof.
    intros I Hc. destruct (si_closed_pc _ _ I Hc) as [[E|[E|[E|E]]] _]; unfold submits; rewrite E; reflexivity.
  Qed.

  Lemma submits_pcs s b : submits s = Some b ->
    s_pc s <> ACWg /\ s_pc s <> AWaitQ /\ s_pc s <> ACCloseQ /\ add_pc (s_pc s) = false /\ send_pc (s_pc s) = true.
  Proof. unfold submits. destruct (s_pc s); intros H; try discriminate; repeat split; try discriminate; reflexivity. Qed.

  Lemma send_inv script st blk c :
    CInv script st -> submits (x_api st) = Some blk -> clean c -> small blk ->
    c_id c = match s_pc (step0 (x_api st)) with AFAdd => c_id (x_local st) | _ => c_id (x_active st) end ->
    CInv script (upd_api st (step0 (x_api st)) (x_active st) (x_local st)
                         (x_queue st ++ [with_stage (with_block c blk) SSent]) (x_waiting st) (x_qwg st)).
  Proof.
    intros I Hsub [Hcb Hce] Hsm Hid.
    pose proof I as [Ierr Ipan Iwf Iorb Iwait Iact Iloc Ichain Iqwg Isent Iheld Iexit Iqc Ieof].
    destruct (submits_pcs _ _ Hsub) as (P1 & P2 & P3 & P4 & P5).
    set (e := with_stage (with_block c blk) SSent).
    assert (Hpend : pending (upd_api st (step0 (x_api st)) (x_active st) (x_local st)
                         (x_queue st ++ [e]) (x_waiting st) (x_qwg st)) = pending st ++ [e]).
    { unfold pending, held_pending. proj. apply app_assoc. }
    constructor; rewrite ?Hpend; proj; auto.
    - apply orbit_step; assumption.
    - destruct Ichain as (done & ps & C1 & C2 & C3 & C4). exists done, (ps ++ [blk]).
      rewrite step0_sub, Hsub, step0_eof, step0_durable by assumption. rewrite C1, app_assoc.
      split; [reflexivity|]. split; [|split; assumption].
      apply Forall2_snoc; [assumption|].
      unfold entry_ok, e. cbn. auto.
    - rewrite count_nonsent_app. rewrite Iqwg.
      unfold count_nonsent at 3. cbn. lia.
    - rewrite step0_add_pc, P5. rewrite P4 in Isent.
      exists (pending st), e.
      repeat split; auto.
    - intros Hx. exfalso. destruct (Iexit Hx) as [_ Hq]. rewrite Iqc in Hq.
      rewrite (closed_no_submit _ _ (api_inv _ _ I) Hq) in Hsub. discriminate.
    - rewrite step0_closed by assumption. assumption.
    - rewrite step0_eof by assumption. assumption.
  Qed.

  Lemma add_pcs s : add_pc (s_pc s) = true ->
    submits s = None /\ s_pc s <> ACWg /\ s_pc s <> AWaitQ /\ s_pc s <> ACCloseQ /\ send_pc (s_pc s) = false.
  Proof. unfold submits. destruct (s_pc s); intros H; try discriminate; repeat split; try discriminate; reflexivity. Qed.

  Lemma mark_flushed id c : c_stage c = SFlushed -> mark_on id c = c.
  Proof. intros H. apply mark_nonsent. unfold nonsent. rewrite H. reflexivity. Qed.

  Lemma add_inv script st :
    CInv script st -> add_pc (s_pc (x_api st)) = true ->
    CInv script (map_pending (mark_on (add_id st))
                   (upd_api st (step0 (x_api st)) (x_active st) (x_local st) (x_queue st) (x_waiting st) (x_qwg st + 1))).
  Proof.
    intros I Hadd.
    pose proof I as [Ierr Ipan Iwf Iorb Iwait Iact Iloc Ichain Iqwg Isent Iheld Iexit Iqc Ieof].
    destruct (add_pcs _ Hadd) as (Hsub & P1 & P2 & P3 & P5).
    rewrite Hadd in Isent. destruct Isent as (P & e & S1 & S2 & S3 & S4).
    set (f := mark_on (add_id st)).
    assert (Hfe : f e = with_stage e STasked).
    { unfold f, mark_on. rewrite S3, Z.eqb_refl, S2. reflexivity. }
    assert (Hpend : pending (map_pending f (upd_api st (step0 (x_api st)) (x_active st) (x_local st) (x_queue st)
                                               (x_waiting st) (x_qwg st + 1))) = P ++ [with_stage e STasked]).
    { rewrite pending_map. unfold pending, held_pending. proj. fold (held_pending st). fold (pending st).
      rewrite S1, map_app. cbn [map]. rewrite Hfe. f_equal.
      apply map_id_nonsent; [|assumption]. intros c Hc. apply mark_nonsent. assumption. }
    assert (Hcnt : count_nonsent (P ++ [with_stage e STasked]) = count_nonsent (pending st) + 1).
    { rewrite S1, !count_nonsent_app. unfold count_nonsent at 2 4. cbn [filter]. unfold nonsent at 1 2. cbn [c_stage with_stage].
      rewrite S2. cbn. lia. }
    constructor; rewrite ?Hpend; unfold map_pending; proj; auto.
    - apply orbit_step; assumption.
    - destruct Ichain as (done & ps & C1 & C2 & C3 & C4). exists done, ps.
      rewrite step0_sub, Hsub, step0_eof, step0_durable by assumption.
      split; [assumption|]. split; [|split; assumption].
      rewrite S1 in C2. apply Forall2_app_inv_l in C2. destruct C2 as (ps1 & ps2 & F1 & F2 & ->).
      apply Forall2_app; [assumption|]. inversion F2 as [|? p ? ? Fe Fn]; subst. inversion Fn; subst.
      constructor; [|constructor]. destruct Fe as [A1 [A2 A3]]. rewrite S2 in A3. unfold entry_ok. cbn. auto.
    - rewrite Hcnt. lia.
    - rewrite step0_add_pc, P5. rewrite forallb_app, S4. reflexivity.
    - destruct (x_epc st); try (rewrite Iheld; reflexivity).
      + destruct Iheld as [c ->]. eexists; reflexivity.
      + destruct Iheld as [c [-> Hc]]. eexists; split; [reflexivity|]. unfold f. rewrite mark_flushed; assumption.
      + destruct Iheld as [c [-> [Hc [Hst Hbk]]]]. eexists; split; [reflexivity|]. unfold f. rewrite mark_flushed by assumption. auto.
    - intros Hx. destruct (Iexit Hx) as [-> ?]. auto.
    - rewrite step0_closed by assumption. assumption.
    - rewrite step0_eof by assumption. assumption.
  Qed.

  Lemma pending_nil_chain st done ps :
    pending st = [] -> Forall2 entry_ok (pending st) ps -> s_sub (x_api st) = done ++ ps ->
    ps = [] /\ s_sub (x_api st) = done.
  Proof. intros E F C. rewrite E in F. inversion F; subst. rewrite app_nil_r in C. auto. Qed.

  Lemma wait_inv script st :
    CInv script st -> s_pc (x_api st) = AWaitQ -> x_qwg st = 0 ->
    CInv script (upd_api st (step0 (x_api st)) (x_active st) (x_local st) (x_queue st) (x_waiting st) (x_qwg st)).
  Proof.
    intros I Hpc Hq.
    pose proof I as [Ierr Ipan Iwf Iorb Iwait Iact Iloc Ichain Iqwg Isent Iheld Iexit Iqc Ieof].
    destruct (step0_wait_durable _ Hpc) as (D1 & D2 & D3 & D4 & D5).
    rewrite Hpc in Isent. cbn [add_pc] in Isent.
    assert (Hpend : pending st = []).
    { rewrite (count_nonsent_all _ Isent) in Iqwg. pose proof (zlen_nonneg (pending st)).
      apply zlen_0_nil. destruct (x_epc st); lia. }
    constructor; proj; auto; unfold pending, held_pending in *; proj; auto.
    - apply orbit_step; assumption.
    - destruct Ichain as (done & ps & C1 & C2 & C3 & C4).
      destruct (pending_nil_chain st done ps Hpend C2 C1) as [-> Hsub].
      exists done, []. rewrite D1, D2, D3. rewrite app_nil_r.
      split; [assumption|]. split; [rewrite Hpend; constructor|]. split; [assumption|].
      pose proof (si_flushmark _ _ (api_inv _ _ I)) as Hf. rewrite Hsub in Hf. lia.
    - rewrite D5. assumption.
    - rewrite D4. assumption.
    - rewrite D3. assumption.
  Qed.

  Lemma closeq_inv script st :
    CInv script st -> s_pc (x_api st) = ACCloseQ ->
    CInv script
      {| x_api := step0 (x_api st); x_active := x_active st; x_local := x_local st; x_queue := x_queue st;
         x_waiting := x_waiting st; x_held := x_held st; x_epc := x_epc st; x_wfail := x_wfail st;
         x_qwg := x_qwg st; x_out := x_out st; x_nwr := x_nwr st; x_err := None;
         x_qclosed := true; x_panic := x_panic st; x_cap := x_cap st |}.
  Proof.
    intros I Hpc.
    pose proof I as [Ierr Ipan Iwf Iorb Iwait Iact Iloc Ichain Iqwg Isent Iheld Iexit Iqc Ieof].
    assert (Hsub : submits (x_api st) = None) by (unfold submits; rewrite Hpc; reflexivity).
    assert (P1 : s_pc (x_api st) <> ACWg) by (rewrite Hpc; discriminate).
    assert (P2 : s_pc (x_api st) <> AWaitQ) by (rewrite Hpc; discriminate).
    constructor; proj; auto; unfold pending, held_pending in *; proj; auto.
    - apply orbit_step; assumption.
    - rewrite step0_sub, Hsub, step0_eof, step0_durable by assumption. assumption.
    - rewrite step0_add_pc. rewrite Hpc in *. cbn [send_pc add_pc] in *. assumption.
    - intros Hx. destruct (Iexit Hx). auto.
    - rewrite step0_closeq by assumption. reflexivity.
    - rewrite step0_eof by assumption. assumption.
  Qed.

  Lemma wg_inv script st :
    CInv script st -> s_pc (x_api st) = ACWg -> x_epc st = EExit ->
    CInv script
      {| x_api := step0 (x_api st); x_active := x_active st; x_local := x_local st;
         x_queue := x_queue st; x_waiting := x_waiting st; x_held := x_held st; x_epc := EExit;
         x_wfail := x_wfail st; x_qwg := x_qwg st;
         x_out := x_out st ++ [bgzf_magicBlock];
         x_nwr := x_nwr st + 1; x_err := None; x_qclosed := x_qclosed st; x_panic := x_panic st;
         x_cap := x_cap st |}.
  Proof.
    intros I Hpc Hepc. rewrite <- Hepc.
    pose proof I as [Ierr Ipan Iwf Iorb Iwait Iact Iloc Ichain Iqwg Isent Iheld Iexit Iqc Ieof].
    destruct (step0_wg _ Hpc) as (D1 & D2 & D3 & D4 & D5).
    pose proof (api_inv _ _ I) as SI.
    assert (Hpend : pending st = []).
    { unfold pending, held_pending. rewrite Hepc. destruct (Iexit Hepc) as [-> _]. reflexivity. }
    assert (Heof : s_eof (x_api st) = false) by (apply (si_close_eof _ _ SI); rewrite Hpc; reflexivity).
    constructor; proj; auto; unfold pending, held_pending in *; proj; auto.
    - apply orbit_step; assumption.
    - destruct Ichain as (done & ps & C1 & C2 & C3 & C4).
      destruct (pending_nil_chain st done ps Hpend C2 C1) as [-> Hsub].
      exists done, []. rewrite D1, D2, D3, app_nil_r.
      split; [assumption|]. split; [rewrite Hpend; constructor|].
      rewrite Heof, app_nil_r in C3. rewrite C3. split; [reflexivity|].
      pose proof (si_data _ _ SI) as Hd. unfold pend in Hd. rewrite Hpc in Hd.
      rewrite (si_fact _ _ SI) in Hd by (rewrite Hpc; tauto). rewrite app_nil_r in Hd.
      rewrite <- Hd, Hsub. lia.
    - rewrite D5. rewrite Hpc in Isent. assumption.
    - rewrite D4. assumption.
  Qed.

  Lemma fb_nil st : Forall idle_ok (x_waiting st) -> fb_of st = [].
  Proof.
    unfold fb_of. intros H. destruct (x_waiting st) as [|c w]; [reflexivity|].
    inversion H as [|? ? [Hb _] _]; subst. assumption.
  Qed.

  Lemma api_step_inv script st :
    CInv script st -> (s_pc (x_api st) = ACWg -> x_epc st = EExit -> fault (x_nwr st) = false) ->
    CInv script (api_step deflate crc32 pm guard ovf lvl h fault st).
  Proof.
    intros I Hf.
    pose proof I as [Ierr Ipan Iwf Iorb Iwait Iact Iloc Ichain Iqwg Isent Iheld Iexit Iqc Ieof].
    pose proof (api_inv _ _ I) as SI.
    unfold api_step. rewrite Ierr, (fb_nil st Iwait). fold step0. fold (step0 (x_api st)).
    destruct (s_pc (x_api st)) eqn:Hpc.
    - (* AIdle *) apply same_inv; auto; try (rewrite Hpc; discriminate); unfold submits; rewrite Hpc; reflexivity.
    - (* AWLoop *) apply same_inv; auto; try (rewrite Hpc; discriminate); unfold submits; rewrite Hpc; reflexivity.
    - (* AWSend *)
      destruct (zlen (x_queue st) <? x_cap st); [|assumption].
      apply send_inv; auto.
      + unfold submits. rewrite Hpc. reflexivity.
      + apply (si_act _ _ SI).
      + unfold step0, sstep. rewrite Hpc. reflexivity.
    - (* AWAdd *)
      replace (c_id (x_active st)) with (add_id st) by (unfold add_id; rewrite Hpc; reflexivity).
      apply add_inv; auto. rewrite Hpc. reflexivity.
    - (* AWRecv *)
      destruct (x_waiting st) as [|c w] eqn:Hw; [assumption|].
      inversion Iwait as [|? ? [Hb [Hbuf He]] Hw']; subst.
      apply same_inv; auto; try (rewrite Hpc; discriminate); try (split; assumption);
        unfold submits; rewrite Hpc; reflexivity.
    - (* AFRecv *)
      destruct (x_waiting st) as [|c w] eqn:Hw; [assumption|].
      inversion Iwait as [|? ? [Hb [Hbuf He]] Hw']; subst.
      apply same_inv; auto; try (rewrite Hpc; discriminate); try (split; assumption);
        unfold submits; rewrite Hpc; reflexivity.
    - (* AFSend *)
      destruct (zlen (x_queue st) <? x_cap st); [|assumption].
      apply send_inv; auto.
      + unfold submits. rewrite Hpc. reflexivity.
      + apply (si_local _ _ SI).
      + unfold step0, sstep. rewrite Hpc. reflexivity.
    - (* AFAdd *)
      replace (c_id (x_local st)) with (add_id st) by (unfold add_id; rewrite Hpc; reflexivity).
      apply add_inv; auto. rewrite Hpc. reflexivity.
    - (* AWaitQ *)
      destruct (x_qwg st =? 0) eqn:Hq; [|assumption]. apply Z.eqb_eq in Hq.
      apply wait_inv; auto.
    - (* ACSend *)
      destruct (zlen (x_queue st) <? x_cap st); [|assumption].
      apply send_inv; auto.
      + unfold submits. rewrite Hpc. reflexivity.
      + apply (si_act _ _ SI).
      + unfold step0, sstep. rewrite Hpc. reflexivity.
    - (* ACAdd *)
      replace (c_id (x_active st)) with (add_id st) by (unfold add_id; rewrite Hpc; reflexivity).
      apply add_inv; auto. rewrite Hpc. reflexivity.
    - (* ACRecv *)
      destruct (x_waiting st) as [|c w] eqn:Hw; [assumption|].
      inversion Iwait as [|? ? Hc Hw']; subst.
      apply same_inv; auto; try (rewrite Hpc; discriminate); unfold submits; rewrite Hpc; reflexivity.
    - (* ACCompress *)
      apply task_inv.
      apply same_inv; auto; try (rewrite Hpc; discriminate); unfold submits; rewrite Hpc; reflexivity.
    - (* ACCloseQ *) apply closeq_inv; auto.
    - (* ACWg *)
      destruct (x_epc st) eqn:Hepc; try assumption.
      rewrite (Hf eq_refl eq_refl). change (sstep None [] (x_api st)) with (step0 (x_api st)). apply wg_inv; auto.
    - (* ADone *) apply same_inv; auto; try (rewrite Hpc; discriminate); unfold submits; rewrite Hpc; reflexivity.
  Qed.

  Lemma step_inv script t st :
    CInv script st -> fault (x_nwr st) = false -> CInv script (stepc t st).
  Proof.
    intros I Hf. unfold stepc, step. destruct t as [|[|i]].
    - apply api_step_inv; auto.
    - apply emit_inv; auto.
    - apply task_inv. assumption.
  Qed.

  Lemma run_inv script sched :
    (forall k, fault k = false) -> forall st, CInv script st -> CInv script (runc sched st).
  Proof.
    intros Hnf. induction sched as [|t r IH]; intros st I; [assumption|]. cbn [runc run]. apply IH.
    apply step_inv; [assumption|apply Hnf].
  Qed.

  Lemma cinit_inv wc script : CInv script (cinit wc script).
  Proof.
    constructor; cbn [cinit x_err x_panic x_wfail x_api x_waiting x_active x_local x_out x_qwg x_epc x_held x_queue x_qclosed];
      auto; try (split; reflexivity); try discriminate.
    - exists 0%nat. reflexivity.
    - apply Forall_forall. intros c Hc. apply in_map_iff in Hc. destruct Hc as [i [<- _]]. repeat split.
    - exists [], []. cbn. repeat split; try constructor; lia.
  Qed.

  Lemma run_conc_inv wc script sched :
    (forall k, fault k = false) ->
    CInv script (run_conc deflate crc32 pm guard ovf lvl h fault wc script sched).
  Proof. intros Hnf. unfold run_conc. apply run_inv; [assumption|]. apply cinit_inv. Qed.

  (** ---- runs with a fault plan ------------------------------------------- *)
  (** After the first failed underlying Write the error is latched and nothing
      more is delivered: what was delivered stays the members of a prefix of
      the submitted blocks. *)
  Definition Frozen (st : cst) : Prop :=
    x_err st <> None /\ s_eof (x_api st) = false /\
    exists done, prefix_of done (s_sub (x_api st)) /\ x_out st = map M done /\ Forall small done
                 /\ prefix_of (concat done) (s_data (x_api st)).

  Lemma Frozen_upd st st' :
    Frozen st -> x_err st' <> None -> x_out st' = x_out st ->
    (x_api st' = x_api st \/ exists e fb, is_some e = true /\ x_api st' = sstep e fb (x_api st)) ->
    Frozen st'.
  Proof.
    intros (He & Hf & done & D1 & D2 & D3 & D4) He' Ho [Ha|(e & fb & Hse & Ha)]; unfold Frozen; rewrite Ha.
    - split; [assumption|]. split; [assumption|]. exists done. rewrite Ho. auto.
    - split; [assumption|]. split; [apply sstep_eof_err; assumption|]. exists done. rewrite Ho.
      split; [eapply prefix_of_trans; [exact D1|apply sstep_sub_prefix]|].
      split; [assumption|]. split; [assumption|].
      eapply prefix_of_trans; [exact D4|apply sstep_data_prefix].
  Qed.

  Lemma set_err_some e x : e <> None -> set_err e x <> None.
  Proof. destruct e; cbn; congruence. Qed.
  Lemma set_err_some' e x : set_err e x <> None.
  Proof. destruct e; cbn; congruence. Qed.

  Lemma frozen_step t st : Frozen st -> Frozen (stepc t st).
  Proof.
    intros F. pose proof F as (He & _).
    destruct (x_err st) as [x|] eqn:Hx; [|congruence].
    unfold stepc, step. destruct t as [|[|i]].
    - (* caller *)
      unfold api_step. rewrite Hx.
      repeat match goal with
             | |- Frozen (match ?y with _ => _ end) => destruct y eqn:?
             | |- Frozen (if ?y then _ else _) => destruct y eqn:?
             end;
        try assumption;
        (apply (Frozen_upd st); [assumption| unfold map_pending; proj; rewrite ?Hx; congruence | unfold map_pending; proj; reflexivity |
                                 unfold map_pending; proj; first [left; reflexivity | right; eexists; eexists; split; [|reflexivity]; reflexivity]]).
    - (* emitter *)
      unfold emit_step. rewrite Hx. cbn [is_some].
      repeat match goal with
             | |- Frozen (match ?y with _ => _ end) => destruct y eqn:?
             | |- Frozen (if ?y then _ else _) => destruct y eqn:?
             end;
        try assumption;
        (apply (Frozen_upd st); [assumption| proj; rewrite ?Hx; cbn; congruence | proj; reflexivity | proj; left; reflexivity]).
    - apply (Frozen_upd st); [assumption| unfold map_pending; proj; rewrite Hx; congruence | reflexivity | left; reflexivity].
  Qed.

  Lemma chain_frozen script st :
    CInv script st -> s_eof (x_api st) = false ->
    exists done, prefix_of done (s_sub (x_api st)) /\ x_out st = map M done /\ Forall small done
                 /\ prefix_of (concat done) (s_data (x_api st)).
  Proof.
    intros I He. pose proof (api_inv _ _ I) as SI.
    destruct (ci_chain _ _ I) as (done & ps & C1 & C2 & C3 & C4). exists done.
    split; [exists ps; assumption|]. rewrite He, app_nil_r in C3. split; [assumption|].
    split. { pose proof (si_sub _ _ SI) as X. rewrite C1 in X. apply Forall_app in X. tauto. }
    rewrite <- (si_data _ _ SI), C1. exists (concat ps ++ pend (x_api st)). rewrite concat_app, <- app_assoc. reflexivity.
  Qed.

  (** The failing Write itself: the latch is set, nothing is delivered. *)
  Lemma emit_frozen script st :
    CInv script st -> x_epc st = EWrite -> fault (x_nwr st) = true -> Frozen (emit_step fault st).
  Proof.
    intros I Hepc Hf. pose proof I as [Ierr Ipan Iwf Iorb Iwait Iact Iloc Ichain Iqwg Isent Iheld Iexit Iqc Ieof].
    assert (Heof : s_eof (x_api st) = false).
    { destruct (s_eof (x_api st)) eqn:E; [|reflexivity]. specialize (Ieof eq_refl). congruence. }
    destruct (chain_frozen script st I Heof) as (done & D1 & D2 & D3 & D4).
    unfold emit_step. rewrite Hepc. rewrite Hepc in Iheld. destruct Iheld as [c [Hc Hst]]. rewrite Hc.
    destruct Ichain as (done' & ps & C1 & C2 & C3 & C4).
    assert (Hpend : pending st = c :: x_queue st) by (unfold pending, held_pending; rewrite Hepc, Hc; reflexivity).
    destruct (pending_cons_entry st c (x_queue st) ps Hpend C2) as (p & ps' & -> & [E1 [E2 E3]] & C2').
    rewrite Hst in E3. destruct E3 as [Ebuf Eblk].
    rewrite E1, Ierr. cbn [is_some]. rewrite Ebuf, M_nonempty, Hf.
    split; [proj; cbn; discriminate|]. split; [proj; assumption|]. exists done. proj. auto.
  Qed.

  Lemma wg_frozen script st :
    CInv script st -> s_pc (x_api st) = ACWg -> x_epc st = EExit -> fault (x_nwr st) = true ->
    Frozen (api_step deflate crc32 pm guard ovf lvl h fault st).
  Proof.
    intros I Hpc Hepc Hf. pose proof I as [Ierr Ipan Iwf Iorb Iwait Iact Iloc Ichain Iqwg Isent Iheld Iexit Iqc Ieof].
    pose proof (api_inv _ _ I) as SI.
    assert (Heof : s_eof (x_api st) = false) by (apply (si_close_eof _ _ SI); rewrite Hpc; reflexivity).
    destruct (chain_frozen script st I Heof) as (done & D1 & D2 & D3 & D4).
    unfold api_step. rewrite Hpc, Hepc, Ierr, Hf.
    split; [proj; discriminate|]. proj.
    split; [apply sstep_eof_err; [reflexivity|assumption]|].
    exists done. split; [eapply prefix_of_trans; [exact D1|apply sstep_sub_prefix]|].
    split; [assumption|]. split; [assumption|]. eapply prefix_of_trans; [exact D4|apply sstep_data_prefix].
  Qed.

  Definition FInv (script : list wop) (st : cst) : Prop := CInv script st \/ Frozen st.

  Lemma epc_dec (a : epc) : a = EWrite \/ a <> EWrite.
  Proof. destruct a; auto; right; discriminate. Qed.
  Lemma epc_dec' (a : epc) : a = EExit \/ a <> EExit.
  Proof. destruct a; auto; right; discriminate. Qed.
  Lemma apc_dec_wg (a : apc) : a = ACWg \/ a <> ACWg.
  Proof. destruct a; auto; right; discriminate. Qed.

  Lemma step_any script t st : FInv script st -> FInv script (stepc t st).
  Proof.
    intros [I|F]; [|right; apply frozen_step; assumption].
    destruct (fault (x_nwr st)) eqn:Hf; [|left; apply step_inv; auto].
    unfold stepc, step. destruct t as [|[|i]].
    - destruct (apc_dec_wg (s_pc (x_api st))) as [Hpc|Hpc]; [destruct (epc_dec' (x_epc st)) as [He|He]|].
      + right. apply (wg_frozen script); assumption.
      + left. apply api_step_inv; [assumption|]. intros _ E. contradiction.
      + left. apply api_step_inv; [assumption|]. intros E. contradiction.
    - destruct (epc_dec (x_epc st)) as [He|He].
      + right. apply (emit_frozen script); assumption.
      + left. apply emit_inv; [assumption|]. intros E. contradiction.
    - left. apply task_inv. assumption.
  Qed.

  Lemma run_any script sched : forall st, FInv script st -> FInv script (runc sched st).
  Proof.
    induction sched as [|t r IH]; intros st I; [assumption|]. cbn [runc run]. apply IH. apply step_any. assumption.
  Qed.

  Lemma run_conc_any wc script sched :
    FInv script (run_conc deflate crc32 pm guard ovf lvl h fault wc script sched).
  Proof. unfold run_conc. apply run_any. left. apply cinit_inv. Qed.
End ConcProofs.
