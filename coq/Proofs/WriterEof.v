(** The converse of eof_iff_closed_ok: a stream that is only data members
    (the writer has not been closed successfully) never ends in the 28 bytes
    of the EOF marker.  Needs two more facts about the compressor, both true of
    compress/flate and validated at run time (harness mode "laws"):
      deflate_min        every DEFLATE stream has at least 2 bytes,
      deflate_empty_tail the encoding of the empty payload does not end in 03 00
                         (compress/flate emits the stored block 01 00 00 ff ff). *)
From Coq Require Import ZArith Lia List Bool.
From Hts Require Import Base.Prim Base.WrList Generated Model.Bgzf Model.Writer Proofs.Bgzf Proofs.Writer.
Import ListNotations.
Open Scope Z_scope.

Ltac Zify.zify_post_hook ::= Z.div_mod_to_equations.

Lemma app_inj_len_l {A} (l1 l2 t t' : list A) :
  length l1 = length l2 -> l1 ++ t = l2 ++ t' -> l1 = l2 /\ t = t'.
Proof.
  revert l2. induction l1 as [|x l1 IH]; destruct l2 as [|y l2]; cbn; intros Hl H; try discriminate; [auto|].
  injection H as -> H. injection Hl as Hl. destruct (IH l2 Hl H). subst. auto.
Qed.

Lemma app_inj_len_r {A} (l1 l2 t t' : list A) :
  length t = length t' -> l1 ++ t = l2 ++ t' -> l1 = l2 /\ t = t'.
Proof.
  intros Hl H. apply app_inj_len_l; [|assumption].
  apply (f_equal (@length A)) in H. rewrite !app_length in H. lia.
Qed.

Lemma le32_zero x : 0 <= x < 4294967296 -> le32 x = [0; 0; 0; 0] -> x = 0.
Proof. unfold le32. intros Hx H. injection H as H0 H1 H2 H3. lia. Qed.

Section Eof.
  Variable deflate : Z -> list Z -> list Z.
  Variable crc32 : list Z -> Z.
  Hypothesis deflate_min : forall l d, 2 <= zlen (deflate l d).
  Hypothesis deflate_empty_tail : forall l, skipn (length (deflate l []) - 2) (deflate l []) <> [3; 0].
  Variables (lvl : Z) (h : gzhdr).
  Local Notation Mb := (member_of deflate crc32 lvl h).

  Lemma member_not_marker_tail p pre :
    small p -> Mb p <> pre ++ bgzf_magicBlock.
  Proof.
    intros Hp H. unfold member_of, member_bs in H.
    set (hd := gz_header_bs lvl h _ _) in H. set (dfl := deflate lvl p) in *.
    pose proof (deflate_min lvl p) as Hmin. fold dfl in Hmin.
    assert (Hsplit : dfl = firstn (length dfl - 2) dfl ++ skipn (length dfl - 2) dfl) by (symmetry; apply firstn_skipn).
    assert (Hl2 : length (skipn (length dfl - 2) dfl) = 2%nat) by (rewrite skipn_length; unfold zlen in Hmin; lia).
    rewrite Hsplit in H.
    change bgzf_magicBlock with (firstn 18 bgzf_magicBlock ++ ([3; 0] ++ [0; 0; 0; 0] ++ [0; 0; 0; 0])) in H.
    rewrite <- !app_assoc in H. rewrite (app_assoc hd) in H. rewrite (app_assoc pre) in H.
    apply app_inj_len_r in H; [|rewrite !app_length, Hl2; reflexivity].
    destruct H as [_ H].
    apply app_inj_len_l in H; [|assumption]. destruct H as [Htail H].
    unfold gz_trailer in H. apply app_inj_len_l in H; [|reflexivity]. destruct H as [_ Hisz].
    assert (Hp0 : zlen p = 0).
    { apply le32_zero; [|assumption]. unfold small, bgzf_BlockSize in Hp. pose proof (zlen_nonneg p). lia. }
    apply zlen_0_nil in Hp0. subst p. unfold dfl in Htail. exact (deflate_empty_tail lvl Htail).
  Qed.

  Lemma zlen_Mb_ge p : 28 <= zlen (Mb p).
  Proof.
    rewrite zlen_member_of. unfold bsize_of, hdr_len. pose proof (deflate_min lvl p).
    pose proof (zlen_nonneg (h_extra h)). pose proof (zlen_nonneg (zstr (h_name h))).
    pose proof (zlen_nonneg (zstr (h_comment h))). lia.
  Qed.

  (** A non-empty sequence of data members does not end with the marker; the
      empty stream does not either. *)
  Lemma members_no_eof l : Forall small l -> has_eof (concat (map Mb l)) = false.
  Proof.
    intros Hsm. destruct (has_eof (concat (map Mb l))) eqn:E; [exfalso|reflexivity].
    unfold has_eof in E. apply andb_prop in E. destruct E as [E1 E2]. apply Z.leb_le in E1. apply zeqb_eq in E2.
    destruct (exists_last (l := l)) as (l' & p & ->).
    { intros ->. cbn in E1. change (zlen bgzf_magicBlock) with 28 in E1. lia. }
    rewrite map_app, concat_app in *. cbn [map concat] in *. rewrite app_nil_r in *.
    apply Forall_app in Hsm. destruct Hsm as [_ Hp]. inversion Hp as [|? ? Hp' _]; subst.
    set (X := concat (map Mb l')) in *. pose proof (zlen_Mb_ge p) as Hge.
    assert (Hsk : skipn (length (Mb p) - 28) (Mb p) = bgzf_magicBlock).
    { rewrite <- E2. change (length bgzf_magicBlock) with 28%nat.
      rewrite app_length. unfold zlen in Hge.
      replace (length X + length (Mb p) - 28)%nat with (length X + (length (Mb p) - 28))%nat by lia.
      rewrite skipn_app. rewrite (skipn_all2 X) by lia. cbn [app].
      replace (length X + (length (Mb p) - 28) - length X)%nat with (length (Mb p) - 28)%nat by lia.
      reflexivity. }
    assert (Hm : Mb p = firstn (length (Mb p) - 28) (Mb p) ++ bgzf_magicBlock).
    { rewrite <- Hsk. symmetry. apply firstn_skipn. }
    exact (member_not_marker_tail p _ Hp' Hm).
  Qed.
End Eof.
