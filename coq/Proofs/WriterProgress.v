(** No deadlock in the fault-free writer pipeline (Model/WriterConc.v): in
    every reachable state in which the caller has not finished its script,
    some thread is enabled (Model/WriterEnabled.v).  On top of the pipeline
    invariant CInv this needs token conservation: the compressors are
    partitioned over the caller, bg.waiting, bg.queue and the emitter. *)
From Coq Require Import ZArith Lia List Bool.
From Hts Require Import Base.Prim Base.WrList Generated Model.Bgzf Model.Writer Model.WriterConc Model.WriterEnabled
  Proofs.Bgzf Proofs.Writer Proofs.WriterConc.
Import ListNotations.
Open Scope Z_scope.

Definition held_count (st : cst) : Z := match x_held st with Some _ => 1 | None => 0 end.

Definition Cnt (st : cst) : Prop :=
  zlen (x_waiting st) + zlen (x_queue st) + held_count st + api_holds (s_pc (x_api st)) = x_cap st
  /\ 2 <= x_cap st.

Definition pc_delta (pc : apc) : Z :=
  match pc with
  | AWSend _ _ | AFSend | ACSend => -1
  | AWRecv _ _ | AFRecv | ACRecv => 1
  | _ => 0
  end.

Lemma step0_holds s : api_holds (s_pc (step0 s)) = api_holds (s_pc s) + pc_delta (s_pc s).
Proof.
  unfold step0, sstep. destruct (s_pc s) eqn:E; try reflexivity.
  - destruct (s_script s) as [|[] r]; cbn; try reflexivity;
      repeat match goal with |- context [if ?c then _ else _] => destruct c eqn:? end; reflexivity.
  - destruct (isnil b || is_some err); [reflexivity|]. unfold write_iter. cbn [s_pc].
    match goal with |- context [if ?c then _ else _] => destruct c end; reflexivity.
  - rewrite E. reflexivity.
Qed.

Section Progress.
  Variable deflate : Z -> list Z -> list Z.
  Variable crc32 : list Z -> Z.
  Variables (pm : wr_patch) (guard ovf : bool) (lvl : Z) (h : gzhdr).
  Variable fault : Z -> bool.
  Hypothesis no_faults : forall k, fault k = false.
  Hypothesis deflate_bound : forall l d,
    zlen (deflate l d) <= zlen d + zlen d / 2^12 + zlen d / 2^14 + zlen d / 2^25 + 13.
  Hypothesis Hpa : patch_at_12 pm guard.
  Hypothesis Hl : hdr_legal h.
  Hypothesis Hs : hdr_small h.

  Local Notation stepc := (step deflate crc32 pm guard ovf lvl h fault).
  Local Notation CInv := (CInv deflate crc32 lvl h).

  Ltac proj := cbn [x_api x_active x_local x_queue x_waiting x_held x_epc x_wfail x_qwg x_out x_nwr x_err
                    x_qclosed x_panic x_cap upd_emit upd_api map_pending] in *.

  Lemma zlen_map {A B} (f : A -> B) l : zlen (map f l) = zlen l.
  Proof. unfold zlen. rewrite map_length. reflexivity. Qed.

  Lemma cnt_task f st : Cnt st -> Cnt (map_pending f st).
  Proof.
    unfold Cnt, held_count, map_pending. proj. rewrite zlen_map. destruct (x_held st); auto.
  Qed.

  Lemma cnt_step script t st : CInv script st -> Cnt st -> Cnt (stepc t st).
  Proof.
    intros I [C N]. pose proof (ci_err _ _ _ _ _ _ I) as Ierr. pose proof (ci_waiting _ _ _ _ _ _ I) as Iwait.
    unfold step. destruct t as [|[|i]].
    - (* caller *)
      unfold api_step. rewrite Ierr, (fb_nil st Iwait). fold step0. fold (step0 (x_api st)).
      pose proof (step0_holds (x_api st)) as Hh.
      destruct (s_pc (x_api st)) eqn:Hpc; cbn [pc_delta api_holds] in *;
        repeat match goal with
               | |- Cnt (if ?c then _ else _) => destruct c eqn:?
               | |- Cnt (match ?c with _ => _ end) => destruct c eqn:?
               end;
        try (split; assumption);
        try apply cnt_task;
        unfold Cnt, held_count in *; proj; rewrite ?zlen_app', ?zlen_cons in *;
        change (zlen (@nil comp)) with 0 in *;
        try (split; [|assumption]);
        try lia.
      all: try (rewrite ?Hpc; cbn [api_holds]; lia).
      all: try (repeat match goal with H : x_waiting ?s = _ |- _ => rewrite H end; rewrite ?Hpc; cbn [api_holds];
                rewrite ?zlen_cons; change (zlen (@nil comp)) with 0; lia).
      all: try (rewrite (no_faults _) in *; proj).
      all: try (unfold step0 in Hh; cbn in Hh; rewrite ?Hpc in Hh; cbn in Hh).
      all: try lia.
    - (* emitter *)
      unfold emit_step.
      destruct (x_epc st) eqn:Hepc;
        repeat match goal with
               | |- Cnt (if ?c then _ else _) => destruct c eqn:?
               | |- Cnt (match ?c with _ => _ end) => destruct c eqn:?
               end;
        try (split; assumption);
        unfold Cnt, held_count in *; proj; rewrite ?zlen_app', ?zlen_cons in *;
        change (zlen (@nil comp)) with 0 in *;
        try (split; [|assumption]);
        try lia.
      all: pose proof (ci_held _ _ _ _ _ _ I) as Ih; rewrite Hepc in Ih;
        repeat match goal with H : x_held ?s = _ |- _ => rewrite H in * end;
        repeat match goal with H : x_queue ?s = _ |- _ => rewrite H in * end;
        rewrite ?zlen_cons in *; change (zlen (@nil comp)) with 0 in *; try discriminate; try lia.
    - apply cnt_task. split; assumption.
  Qed.

  Lemma cnt_init wc script : Cnt (cinit wc script).
  Proof.
    unfold Cnt, held_count, cinit, pool_size. proj. cbn [sinit s_pc api_holds].
    rewrite zlen_map. unfold zlen. rewrite seq_length. change (Z.of_nat (length (@nil comp))) with 0. split; lia.
  Qed.

  Lemma run_cnt script sched : forall st, CInv script st -> Cnt st ->
    Cnt (run deflate crc32 pm guard ovf lvl h fault sched st).
  Proof.
    induction sched as [|t r IH]; intros st I C; [assumption|]. cbn [run]. apply IH.
    - apply step_inv; auto.
    - apply (cnt_step script); assumption.
  Qed.

  Lemma holds_nonneg pc : 0 <= api_holds pc.
  Proof. destruct pc; cbn; lia. Qed.

  (** If the pipeline holds a compressor (or only has to notice that the queue
      was closed), the emitter or a compressor goroutine can move. *)
  Lemma pipe_progress script st :
    CInv script st -> Cnt st -> add_pc (s_pc (x_api st)) = false ->
    (x_queue st <> [] \/ x_held st <> None \/ (x_qclosed st = true /\ x_epc st <> EExit)) ->
    emit_enabled st = true \/ exists id, task_enabled id st = true.
  Proof.
    intros I [C N] Hadd Hwork.
    pose proof (ci_held _ _ _ _ _ _ I) as Ih. pose proof (ci_sent _ _ _ _ _ _ I) as Is. rewrite Hadd in Is.
    destruct (ci_chain _ _ _ _ _ _ I) as (done & ps & _ & C2 & _).
    unfold emit_enabled. destruct (x_epc st) eqn:Hepc.
    - (* ERange *) left. rewrite Ih in Hwork. destruct Hwork as [Hq|[Hh|[Hc _]]]; [|congruence|].
      + destruct (x_queue st); [congruence|reflexivity].
      + rewrite Hc. apply orb_true_r.
    - (* EFlushWait *)
      destruct Ih as [c Hc]. rewrite Hc.
      assert (Hpend : pending st = c :: x_queue st) by (unfold pending, held_pending; rewrite Hepc, Hc; reflexivity).
      rewrite Hpend in Is, C2. cbn [forallb] in Is. apply andb_prop in Is. destruct Is as [Hns _].
      inversion C2 as [|? p ? ? [_ [_ Hst]] _]; subst.
      destruct (c_stage c) eqn:Hsg; try contradiction.
      + unfold nonsent in Hns. rewrite Hsg in Hns. discriminate.
      + right. exists (c_id c). unfold task_enabled. rewrite Hc. cbn [app existsb]. rewrite Z.eqb_refl, Hsg. reflexivity.
      + left. reflexivity.
    - left. reflexivity.
    - (* EDone *) left. apply Z.ltb_lt. unfold held_count in C. destruct Ih as [c [Hc _]]. rewrite Hc in C.
      pose proof (holds_nonneg (s_pc (x_api st))). pose proof (zlen_nonneg (x_queue st)). lia.
    - (* EExit *) exfalso. destruct (ci_exit _ _ _ _ _ _ I Hepc) as [Hq _].
      destruct Hwork as [H|[H|[_ H]]]; congruence.
  Qed.

  (** Deadlock freedom: while the caller has not finished its script, some
      thread can take a step. *)
  Theorem no_stuck script st :
    CInv script st -> Cnt st -> cdone st = false -> some_enabled st.
  Proof.
    intros I Cn Hnd. pose proof Cn as [C N]. unfold some_enabled, api_enabled, cdone, sdone in *.
    pose proof (zlen_nonneg (x_waiting st)) as Hw0. pose proof (zlen_nonneg (x_queue st)) as Hq0.
    assert (Hh0 : 0 <= held_count st <= 1) by (unfold held_count; destruct (x_held st); lia).
    assert (Hwork : forall k, zlen (x_queue st) + held_count st = k -> 1 <= k -> x_queue st <> [] \/ x_held st <> None).
    { intros k Hk H1. unfold held_count in Hk. destruct (x_held st); [right; discriminate|].
      left. intros E. rewrite E in Hk. cbn in Hk. lia. }
    destruct (s_pc (x_api st)) eqn:Hpc; cbn [api_holds] in C; try (left; reflexivity); try discriminate.
    - (* AWSend *) left. apply Z.ltb_lt. lia.
    - (* AWRecv *)
      destruct (x_waiting st) eqn:Hw; [|left; reflexivity]. change (zlen (@nil comp)) with 0 in C.
      right. apply (pipe_progress script); auto; [rewrite Hpc; reflexivity|].
      destruct (Hwork (x_cap st)) as [H|H]; auto; lia.
    - (* AFRecv *)
      destruct (x_waiting st) eqn:Hw; [|left; reflexivity]. change (zlen (@nil comp)) with 0 in C.
      right. apply (pipe_progress script); auto; [rewrite Hpc; reflexivity|].
      destruct (Hwork (x_cap st - 1)) as [H|H]; auto; lia.
    - (* AFSend *) left. apply Z.ltb_lt. lia.
    - (* AWaitQ *)
      destruct (x_qwg st =? 0) eqn:Hq; [left; reflexivity|]. apply Z.eqb_neq in Hq.
      right. apply (pipe_progress script); auto; [rewrite Hpc; reflexivity|].
      pose proof (ci_qwg _ _ _ _ _ _ I) as Iq. pose proof (ci_held _ _ _ _ _ _ I) as Ih.
      destruct (x_epc st) eqn:Hepc; try (destruct Ih as [c [Hc _]] || destruct Ih as [c Hc]; right; left; rewrite Hc; discriminate).
      + unfold pending, held_pending in Iq. rewrite Hepc in Iq. cbn [app] in Iq.
        left. intros E. rewrite E in Iq. cbn in Iq. lia.
      + unfold pending, held_pending in Iq. rewrite Hepc in Iq. cbn [app] in Iq.
        left. intros E. rewrite E in Iq. cbn in Iq. lia.
    - (* ACSend *) left. apply Z.ltb_lt. lia.
    - (* ACRecv *)
      destruct (x_waiting st) eqn:Hw; [|left; reflexivity]. change (zlen (@nil comp)) with 0 in C.
      right. apply (pipe_progress script); auto; [rewrite Hpc; reflexivity|].
      destruct (Hwork (x_cap st)) as [H|H]; auto; lia.
    - (* ACWg *)
      destruct (x_epc st) eqn:Hepc; try (left; reflexivity);
        (right; apply (pipe_progress script); auto; [rewrite Hpc; reflexivity|]; right; right;
         split; [rewrite (ci_qclosed _ _ _ _ _ _ I); apply (si_wg _ _ (api_inv _ _ _ _ _ _ I)); assumption|rewrite Hepc; discriminate]).
  Qed.

  Theorem run_no_stuck wc script sched :
    let st := run_conc deflate crc32 pm guard ovf lvl h fault wc script sched in
    cdone st = false -> some_enabled st.
  Proof.
    intros st Hnd. unfold st, run_conc in *. apply (no_stuck script); auto.
    - apply run_inv; auto. apply cinit_inv; assumption.
    - apply (run_cnt script); [apply cinit_inv; assumption|apply cnt_init].
  Qed.
End Progress.

(** The guards are the model's: a thread that is not enabled does not move. *)
Lemma emit_blocked_noop fault st : emit_enabled st = false -> emit_step fault st = st.
Proof.
  unfold emit_enabled, emit_step. destruct (x_epc st); try discriminate; try reflexivity.
  - destruct (x_queue st); cbn [isnil negb orb]; [|discriminate]. intros ->. reflexivity.
  - destruct (x_held st) as [c|]; [|reflexivity]. intros ->. reflexivity.
  - destruct (x_held st) as [c|]; [|reflexivity]. intros ->. reflexivity.
Qed.

Lemma api_blocked_noop deflate crc32 pm guard ovf lvl h fault st :
  api_enabled st = false -> s_pc (x_api st) <> ADone ->
  api_step deflate crc32 pm guard ovf lvl h fault st = st.
Proof.
  unfold api_enabled, api_step. destruct (s_pc (x_api st)); try discriminate; try congruence;
    try (intros ->; reflexivity);
    try (destruct (x_waiting st); [reflexivity|discriminate]).
  destruct (x_epc st); try reflexivity; discriminate.
Qed.
