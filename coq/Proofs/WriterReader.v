(** C01, reader side: the byte stream of the writer model is a well-formed
    BGZF file in the sense of Model/Flat.v / Model/Reader.v (the rd worker's
    model of bgzf.Reader, C02), member by member; so the modelled Reader,
    driven by any mix of Read n / ReadByte, returns the written data in order
    and reports io.EOF exactly at its end. *)
From Coq Require Import ZArith Lia List Bool.
From Hts Require Import Base.Prim Base.WrList Generated Model.Bgzf Model.Writer Model.Flat Model.Reader
  Proofs.Bgzf Proofs.Writer Proofs.ReaderFlat Proofs.ReaderStore.
Import ListNotations.
Open Scope Z_scope.

(** The file a list of (member bytes, payload) pairs laid out from offset b is. *)
Fixpoint file_from (b : Z) (ms : list (list Z * list Z)) : file :=
  match ms with
  | [] => []
  | (m, p) :: r => mkMember b (zlen m) p :: file_from (b + zlen m) r
  end.

Lemma file_from_wf b ms :
  Forall (fun mp => 0 < zlen (fst mp) /\ zlen (snd mp) <= 65535) ms ->
  wf_from b (file_from b ms) = true /\ addressable (file_from b ms) = true.
Proof.
  intros H. revert b. induction H as [|[m p] ms [H1 H2] _ IH]; intros b; [split; reflexivity|].
  destruct (IH (b + zlen m)) as [W A]. cbn [fst snd] in *.
  split.
  - cbn [file_from wf_from m_base m_size]. unfold m_len. cbn [m_data]. rewrite W, Z.eqb_refl.
    replace (0 <? zlen m) with true by (symmetry; apply Z.ltb_lt; assumption).
    replace (zlen p <=? 65536) with true by (symmetry; apply Z.leb_le; lia). reflexivity.
  - unfold addressable in *. cbn [file_from forallb]. rewrite A. unfold m_len. cbn [m_data].
    replace (zlen p <=? 65535) with true by (symmetry; apply Z.leb_le; lia). reflexivity.
Qed.

Lemma file_from_data b ms : flat_data (file_from b ms) = concat (map snd ms).
Proof.
  revert b. induction ms as [|[m p] ms IH]; intros b; [reflexivity|].
  unfold flat_data in *. cbn [file_from map concat m_data snd]. rewrite IH. reflexivity.
Qed.

(** The file is what a BGZF reader sees in the byte stream: at every member's
    base the stream continues with a member of m_size bytes (BSIZE + 1) that
    decodes to m_data, and after the last member the stream ends. *)
Fixpoint members_at (one : list Z -> option (list Z * list Z)) (stream : list Z) (F : file) : Prop :=
  match F with
  | [] => stream = []
  | mem :: F' =>
      exists m rest, stream = m ++ rest /\ zlen m = m_size mem
                     /\ one stream = Some (m_data mem, rest) /\ members_at one rest F'
  end.

Lemma members_at_file_from one b ms :
  Forall (fun mp => forall r, one (fst mp ++ r) = Some (snd mp, r)) ms ->
  members_at one (concat (map fst ms)) (file_from b ms).
Proof.
  intros H. revert b. induction H as [|[m p] ms Hm _ IH]; intros b; cbn [file_from map concat members_at fst]; [reflexivity|].
  exists m, (concat (map fst ms)). cbn [m_size m_data]. repeat split; auto.
Qed.

(** ---- read-only histories on the flat reader ------------------------------ *)
Definition read_op (o : rop) : Prop :=
  match o with ORead n => 0 <= n | OByte => True | _ => False end.

Definition want (o : rop) : Z := match o with ORead n => n | _ => 1 end.

(** Starting at position pos of data: every call returns exactly the next
    min(wanted, remaining) bytes, and reports io.EOF iff it returned fewer
    bytes than wanted or the data was already exhausted. *)
Fixpoint reads_ok (data : list Z) (pos : Z) (ops : list rop) (rets : list fret) : Prop :=
  match ops, rets with
  | [], [] => True
  | o :: ops', (bs, e) :: rets' =>
      bs = ztake (Z.min (want o) (zlen data - pos)) (zdrop pos data)
      /\ ((e = eEOF /\ (zlen bs < want o \/ pos = zlen data)) \/ (e = eNil /\ zlen bs = want o /\ pos < zlen data))
      /\ reads_ok data (pos + zlen bs) ops' rets'
  | _, _ => False
  end.

Lemma zlen_ztake_zdrop (k pos : Z) (data : list Z) :
  0 <= pos -> 0 <= k -> pos + k <= zlen data -> zlen (ztake k (zdrop pos data)) = k.
Proof.
  intros. unfold ztake, zdrop. apply zlen_firstn. rewrite zlen_skipn by lia. lia.
Qed.

Lemma flat_reads_ok F : forall ops s,
  Forall read_op ops -> f_blocked s = false -> 0 <= f_pos s <= total F ->
  (f_eof s = true -> f_pos s = total F) ->
  reads_ok (flat_data F) (f_pos s) ops (map fst (flat_run F s ops)).
Proof.
  induction ops as [|o ops IH]; intros s Hops Hb Hpos Heof; [exact I|].
  inversion Hops as [|? ? Ho Hops']; subst.
  cbn [flat_run]. destruct (flat_step F s o) as [s' r] eqn:Hst. cbn [map fst reads_ok].
  unfold total in *. set (data := flat_data F) in *.
  destruct o as [| n | | | |]; cbn [read_op] in Ho; try contradiction; cbn [flat_step want] in *.
  - (* Read n *)
    unfold flat_read in Hst. fold data in Hst. unfold total in Hst. fold data in Hst.
    destruct (f_eof s) eqn:He.
    + injection Hst as <- <-. specialize (Heof eq_refl).
      replace (Z.min n (zlen data - f_pos s)) with 0 by lia. cbn [ztake Z.to_nat firstn]. change (zlen (@nil Z)) with 0.
      split; [reflexivity|]. split; [left; split; [reflexivity|right; assumption]|].
      rewrite Z.add_0_r. (match goal with |- context [flat_run F ?x ops] => apply (IH x) end); auto.
    + destruct (zlen data - f_pos s =? 0) eqn:Hz.
      * apply Z.eqb_eq in Hz. injection Hst as <- <-.
        replace (Z.min n (zlen data - f_pos s)) with 0 by lia. cbn [ztake Z.to_nat firstn]. change (zlen (@nil Z)) with 0.
        split; [reflexivity|]. split; [left; split; [reflexivity|right; lia]|].
        rewrite Z.add_0_r. (match goal with |- context [flat_run F ?x ops] => apply (IH x) end); cbn; auto; intros; lia.
      * apply Z.eqb_neq in Hz. rewrite Hb in Hst. cbn [negb andb] in Hst.
        set (k := Z.min n (zlen data - f_pos s)) in *.
        injection Hst as <- <-.
        assert (Hk : zlen (ztake k (zdrop (f_pos s) data)) = k) by (apply zlen_ztake_zdrop; lia).
        split; [reflexivity|]. rewrite Hk. split.
        { destruct (k <? n) eqn:Hs; [apply Z.ltb_lt in Hs; left; split; [reflexivity|left; lia]
                                   |apply Z.ltb_ge in Hs; right; repeat split; lia]. }
        (match goal with |- context [flat_run F ?x ops] => apply (IH x) end); cbn [f_blocked f_pos f_eof]; auto; [lia|].
        rewrite andb_true_r. intros Hs. apply Z.ltb_lt in Hs. lia.
  - (* ReadByte *)
    unfold flat_byte in Hst. fold data in Hst. unfold total in Hst. fold data in Hst.
    destruct (f_eof s) eqn:He.
    + injection Hst as <- <-. specialize (Heof eq_refl).
      replace (Z.min 1 (zlen data - f_pos s)) with 0 by lia. cbn [ztake Z.to_nat firstn]. change (zlen (@nil Z)) with 0.
      split; [reflexivity|]. split; [left; split; [reflexivity|right; assumption]|].
      rewrite Z.add_0_r. (match goal with |- context [flat_run F ?x ops] => apply (IH x) end); auto.
    + destruct (zlen data - f_pos s =? 0) eqn:Hz.
      * apply Z.eqb_eq in Hz. injection Hst as <- <-.
        replace (Z.min 1 (zlen data - f_pos s)) with 0 by lia. cbn [ztake Z.to_nat firstn]. change (zlen (@nil Z)) with 0.
        split; [reflexivity|]. split; [left; split; [reflexivity|right; lia]|].
        rewrite Z.add_0_r. (match goal with |- context [flat_run F ?x ops] => apply (IH x) end); cbn; auto; intros; lia.
      * apply Z.eqb_neq in Hz. injection Hst as <- <-.
        replace (Z.min 1 (zlen data - f_pos s)) with 1 by lia.
        assert (Hk : zlen (ztake 1 (zdrop (f_pos s) data)) = 1) by (apply zlen_ztake_zdrop; lia).
        split; [reflexivity|]. rewrite Hk. split; [right; repeat split; lia|].
        (match goal with |- context [flat_run F ?x ops] => apply (IH x) end); cbn [f_blocked f_pos f_eof]; auto; [lia|discriminate].
Qed.

Lemma read_op_valid F ops : Forall read_op ops -> Forall (valid_op F) ops /\ forallb no_cache_op ops = true.
Proof.
  induction 1 as [|o ops Ho _ [IH1 IH2]]; [split; [constructor|reflexivity]|].
  split; [constructor; [|assumption]|cbn [forallb]; rewrite IH2, andb_true_r];
    destruct o; cbn in *; try contradiction; auto.
Qed.

(** Any well-formed, non-empty file, any read-only history: the modelled
    bgzf.Reader (store model of Model/Reader.v) delivers the flat data. *)
Lemma reader_reads_flat F ch ops :
  wf_file F = true -> F <> [] -> Forall read_op ops ->
  snd (r_init F) = eNil /\
  exists l, r_run F ch (fst (r_init F)) ops = Ok l /\ reads_ok (flat_data F) 0 ops (rets l).
Proof.
  intros Hwf Hne Hops. destruct (read_op_valid F ops Hops) as [Hv Hc].
  destruct (r_refines_flat F ch ops Hwf Hne Hv Hc) as (Hi & l & Hrun & Hrets & _).
  split; [assumption|]. exists l. split; [assumption|]. rewrite Hrets.
  apply (flat_reads_ok F ops f_init Hops); cbn; auto; [|discriminate].
  unfold total. pose proof (zlen_nonneg (flat_data F)). lia.
Qed.
