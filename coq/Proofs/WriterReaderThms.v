(** C01 composition: writer model (this development) + model of bgzf.Reader
    (C02, Model/Reader.v): what the writer produces is a well-formed file for
    the Reader, and reading it returns the written data, then io.EOF. *)
From Coq Require Import ZArith Lia List Bool.
From Hts Require Import Base.Prim Base.WrList Generated Model.Bgzf Model.Writer Model.Flat Model.Reader
  Proofs.Bgzf Proofs.Writer Proofs.WriterConc Proofs.WriterThms Proofs.ReaderFlat Proofs.ReaderStore Proofs.WriterReader.
Import ListNotations.
Open Scope Z_scope.

Definition wr_pairs deflate crc32 lvl h (s : sst) : list (list Z * list Z) :=
  map (fun p => (member_of deflate crc32 lvl h p, p)) (s_sub s)
  ++ (if s_eof s then [(bgzf_magicBlock, [])] else []).

(** The BGZF file (members with base, size, decompressed data) that the
    writer's output is. *)
Definition wr_file deflate crc32 lvl h (s : sst) : file := file_from 0 (wr_pairs deflate crc32 lvl h s).

Section Compose.
  Variables (deflate : Z -> list Z -> list Z) (inflate : list Z -> option (list Z * list Z)) (crc32 : list Z -> Z).
  Hypothesis laws : codec_laws deflate inflate crc32.
  Variables (lvl : Z) (h : gzhdr).
  Hypothesis ok : hdr_ok h.

  Lemma wr_out_pairs W s : SInv W s ->
    wr_out deflate crc32 lvl h s = concat (map fst (wr_pairs deflate crc32 lvl h s)).
  Proof.
    intros I. destruct laws as (L1 & L2 & L3 & L4). destruct ok as (H1 & H2).
    unfold wr_out, seq_out.
    rewrite (seq_chunks_M deflate crc32 L2 lvl h H1 H2 s W I).
    unfold wr_pairs. rewrite map_app, map_map. cbn [fst]. destruct (s_eof s); reflexivity.
  Qed.

  Lemma wr_pairs_ok W s : SInv W s ->
    Forall (fun mp => 0 < zlen (fst mp) /\ zlen (snd mp) <= 65535) (wr_pairs deflate crc32 lvl h s)
    /\ Forall (fun mp => forall r, bgzf_member inflate crc32 (fst mp ++ r) = Some (snd mp, r)) (wr_pairs deflate crc32 lvl h s)
    /\ concat (map snd (wr_pairs deflate crc32 lvl h s)) = concat (s_sub s).
  Proof.
    intros I. destruct laws as (L1 & L2 & L3 & L4). destruct ok as (H1 & H2).
    pose proof (si_sub _ _ I) as Hsm. unfold wr_pairs.
    split; [|split].
    - apply Forall_app. split.
      + apply Forall_forall. intros mp Hin. apply in_map_iff in Hin. destruct Hin as (p & <- & Hp). cbn [fst snd].
        rewrite Forall_forall in Hsm. specialize (Hsm p Hp).
        rewrite zlen_member_of. pose proof (bsize_small deflate crc32 L2 lvl h p H2 Hsm).
        unfold small, bgzf_BlockSize in Hsm. lia.
      + destruct (s_eof s); constructor; [|constructor]. cbn. split; [reflexivity|lia].
    - apply Forall_app. split.
      + apply Forall_forall. intros mp Hin. apply in_map_iff in Hin. destruct Hin as (p & <- & Hp). cbn [fst snd].
        rewrite Forall_forall in Hsm. intros r. apply member_of_bgzf; auto. apply (Hsm p Hp).
      + destruct (s_eof s); constructor; [|constructor]. cbn [fst snd]. intros r. apply bgzf_magic; assumption.
    - rewrite map_app, concat_app, map_map. cbn [snd]. rewrite map_id.
      destruct (s_eof s); cbn; rewrite app_nil_r; reflexivity.
  Qed.

  Theorem roundtrip_reader script fuel :
    let s := run_writer fuel (script ++ [OpClose]) in
    sdone s = true ->
    let F := wr_file deflate crc32 lvl h s in
    wf_file F = true /\ F <> [] /\ addressable F = true
    /\ members_at (bgzf_member inflate crc32) (wr_out deflate crc32 lvl h s) F
    /\ flat_data F = written (script ++ [OpClose])
    /\ forall ch ops, Forall read_op ops ->
         snd (r_init F) = eNil /\
         exists l, r_run F ch (fst (r_init F)) ops = Ok l
                   /\ reads_ok (written (script ++ [OpClose])) 0 ops (rets l).
  Proof.
    intros s Hd F. pose proof (run_writer_inv fuel (script ++ [OpClose])) as I. fold s in I.
    assert (Hwc : will_close s).
    { unfold s, run_writer. apply (siter_will_close (written (script ++ [OpClose]))); [apply sinit_inv|].
      left. cbn [sinit s_script]. rewrite existsb_app. cbn. apply orb_true_r. }
    destruct (finished_closed _ _ I Hwc Hd) as (Hc & He & Hsub & Hsm).
    destruct (wr_pairs_ok _ s I) as (P1 & P2 & P3).
    destruct (file_from_wf 0 _ P1) as [Wf Ad].
    assert (Hdata : flat_data F = written (script ++ [OpClose])).
    { unfold F, wr_file. rewrite file_from_data, P3. assumption. }
    assert (Hne : F <> []).
    { unfold F, wr_file. intros E.
      assert (Hp : wr_pairs deflate crc32 lvl h s = []).
      { destruct (wr_pairs deflate crc32 lvl h s) as [|[m p] r]; [reflexivity|discriminate]. }
      unfold wr_pairs in Hp. rewrite He in Hp. apply app_eq_nil in Hp. destruct Hp; discriminate. }
    split; [exact Wf|]. split; [assumption|]. split; [exact Ad|].
    split; [rewrite (wr_out_pairs _ s I); apply members_at_file_from; assumption|].
    split; [assumption|].
    intros ch ops Hops. rewrite <- Hdata. apply reader_reads_flat; assumption.
  Qed.
End Compose.
