(** The sequential writer machine finishes every script: a measure that
    decreases with every step until ADone. *)
From Coq Require Import ZArith Lia List Bool.
From Hts Require Import Base.Prim Base.WrList Generated Model.Bgzf Model.Writer Proofs.Writer.
Import ListNotations.
Open Scope Z_scope.

Definition cost_op (o : wop) : Z :=
  match o with OpWrite p => 8 * zlen p + 10 | OpFlush => 5 | OpWait => 2 | OpClose => 7 end.
Fixpoint cost_script (l : list wop) : Z :=
  match l with [] => 0 | o :: r => cost_op o + cost_script r end.

Definition pcm (s : sst) : Z :=
  match s_pc s with
  | AIdle => 1
  | AWLoop b _ _ => 8 * zlen b + 5 + (if isnil (s_act s) then 0 else 4)
  | AWSend b _ => 8 * zlen b + 8
  | AWAdd b _ => 8 * zlen b + 7
  | AWRecv b _ => 8 * zlen b + 6
  | AFRecv => 4 | AFSend => 3 | AFAdd => 2
  | AWaitQ => 2
  | ACSend => 7 | ACAdd => 6 | ACRecv => 5 | ACCompress => 4 | ACCloseQ => 3 | ACWg => 2
  | ADone => 0
  end.

Definition mu (s : sst) : Z := pcm s + cost_script (s_script s).

Lemma cost_script_nonneg l : 0 <= cost_script l.
Proof.
  induction l as [|o r IH]; cbn [cost_script]; [lia|]. destruct o; cbn [cost_op]; try lia.
  pose proof (zlen_nonneg p). lia.
Qed.

Lemma mu_nonneg s : 0 <= mu s.
Proof.
  unfold mu, pcm. pose proof (cost_script_nonneg (s_script s)).
  destruct (s_pc s); try lia; pose proof (zlen_nonneg b); try lia. destruct (isnil (s_act s)); lia.
Qed.

Lemma mu_step s : small (s_act s) -> sdone s = false -> mu (step0 s) < mu s.
Proof.
  destruct s as [pc act loc scr cl eof res sub data fm du mk].
  unfold sdone, step0, sstep, mu, pcm. cbn [s_pc s_act s_script s_closed]. intros Hsm Hnd.
  pose proof (cost_script_nonneg scr) as Hc.
  destruct pc; try discriminate;
    cbn [s_pc s_script s_act s_closed set_pc ret pop submit set_act set_flushmark set_durable]; try lia.
  - (* AIdle *)
    destruct scr as [|o r]; cbn [s_pc s_script s_act set_pc cost_script]; [lia|].
    pose proof (cost_script_nonneg r). cbn [cost_script] in Hc.
    destruct o; cbn [cost_op pop s_closed s_act] in *;
      repeat match goal with |- context [if ?c then _ else _] => destruct c end;
      cbn [s_pc s_script s_act s_closed set_pc ret pop set_flushmark set_durable]; try lia.
    all: pose proof (zlen_nonneg p); cbn [isnil]; lia.
  - (* AWLoop *)
    destruct b as [|b0 b]; [cbn [isnil orb s_pc s_script ret]; destruct (isnil act); cbn [zlen length Z.of_nat]; lia|].
    destruct err; [cbn [isnil orb is_some s_pc s_script ret]; pose proof (zlen_nonneg (b0 :: b)); destruct (isnil act); lia|].
    cbn [isnil orb is_some]. unfold write_iter. cbn [s_pc s_script s_act].
    set (bb := b0 :: b).
    destruct (wcopy_n_range act bb Hsm) as [[K0 K1] K2].
    assert (Hk : act = [] -> 1 <= wcopy_n act bb).
    { intros E. unfold wcopy_n. rewrite E. cbn [zlen length Z.of_nat Z.eqb orb]. unfold bb. rewrite zlen_cons.
      pose proof (zlen_nonneg b). unfold bgzf_BlockSize. lia. }
    set (k := wcopy_n act bb) in *.
    assert (Hb' : zlen (skipn (Z.to_nat k) bb) = zlen bb - k) by (apply zlen_skipn; lia).
    pose proof (zlen_nonneg bb).
    destruct ((zlen (act ++ firstn (Z.to_nat k) bb) =? bgzf_BlockSize) || (k =? 0)) eqn:Hq;
      cbn [s_pc].
    + rewrite Hb'. destruct act eqn:Ha; cbn [isnil].
      * specialize (Hk eq_refl). lia.
      * lia.
    + apply orb_false_elim in Hq. destruct Hq as [_ Hk0]. apply Z.eqb_neq in Hk0.
      rewrite Hb'.
      destruct (isnil (act ++ firstn (Z.to_nat k) bb)); destruct (isnil act); lia.
  - (* AWRecv *) cbn [isnil]. lia.
Qed.

Lemma terminates_from (n : nat) : forall s W, SInv W s -> mu s <= Z.of_nat n -> sdone (siter n s) = true.
Proof.
  induction n as [|n IH]; intros s W I Hmu.
  - cbn [siter]. destruct (sdone s) eqn:E; [reflexivity|].
    pose proof (mu_step s (si_act _ _ I) E). pose proof (mu_nonneg (step0 s)). lia.
  - cbn [siter]. fold step0. destruct (sdone s) eqn:E.
    + rewrite (step0_done s E). apply (IH s W I).
      unfold sdone in E. unfold mu, pcm. destruct (s_pc s) eqn:Hpc; try discriminate.
      rewrite (si_done _ _ I Hpc). cbn. lia.
    + apply (IH (step0 s) W (step0_inv _ _ I)). pose proof (mu_step s (si_act _ _ I) E). lia.
Qed.

(** Every script is finished within [mu] steps. *)
Theorem run_writer_terminates script :
  sdone (run_writer (Z.to_nat (1 + cost_script script)) script) = true.
Proof.
  unfold run_writer. apply (terminates_from _ _ (written script) (sinit_inv script)).
  unfold mu, pcm. cbn [sinit s_pc s_script]. pose proof (cost_script_nonneg script). lia.
Qed.

Lemma run_writer_terminates_ex script : exists fuel, sdone (run_writer fuel script) = true.
Proof. eexists. apply run_writer_terminates. Qed.
