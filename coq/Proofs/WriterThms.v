(** Property-level theorems for C01, C08, C12, assembled from the framing
    lemmas (Proofs/Bgzf.v), the sequential invariants (Proofs/Writer.v) and the
    pipeline invariant (Proofs/WriterConc.v). *)
From Coq Require Import ZArith Lia List Bool.
From Hts Require Import Base.Prim Base.WrList Generated Model.Bgzf Model.Writer Model.WriterConc
  Proofs.Bgzf Proofs.Writer Proofs.WriterConc Proofs.WriterEof.
Import ListNotations.
Open Scope Z_scope.

(** The back-patch extracted from the Go source hits the BC subfield. *)
Lemma gen_patch_at_12 : patch_at_12 bgzf_wr_patch_mode bgzf_wr_patch_guard.
Proof.
  unfold patch_at_12, bgzf_wr_patch_mode, bgzf_wr_patch_guard, patch_pos. intros pre x0 x1 rest H.
  rewrite <- H. rewrite skipn_zlen_app. reflexivity.
Qed.

(** The first-occurrence search of the original code lands in MTIME when
    ModTime = 0x24342 s: offsets 8/9 (XFL, OS) get the size, BSIZE stays 0. *)
Definition mtime_24342 : gzhdr := {| h_mtime := 148290; h_os := 255; h_extra := []; h_name := []; h_comment := [] |}.

Lemma first_index_hits_mtime deflate crc32 lvl p :
  patch_pos PatchFirstIndex true (raw_member deflate crc32 lvl mtime_24342 p) = Some 4.
Proof. reflexivity. Qed.

Lemma compress_bound_fits :
  exists v, bgzf_compressBound bgzf_BlockSize = Ok v /\ v <= bgzf_MaxBlockSize.
Proof. eexists. split; [reflexivity|]. vm_compute. discriminate. Qed.

Lemma has_eof_app_magic x : has_eof (x ++ bgzf_magicBlock) = true.
Proof.
  unfold has_eof. rewrite zlen_app'. pose proof (zlen_nonneg x).
  replace (zlen bgzf_magicBlock <=? zlen x + zlen bgzf_magicBlock) with true by (symmetry; apply Z.leb_le; lia).
  rewrite app_length. replace (length x + length bgzf_magicBlock - length bgzf_magicBlock)%nat with (length x) by lia.
  rewrite skipn_app, Nat.sub_diag, skipn_all. cbn [skipn app]. apply zeqb_refl.
Qed.

Section Thms.
  Variable deflate : Z -> list Z -> list Z.
  Variable inflate : list Z -> option (list Z * list Z).
  Variable crc32 : list Z -> Z.
  Hypothesis inflate_deflate : forall l d rest, inflate (deflate l d ++ rest) = Some (d, rest).
  Hypothesis deflate_bound : forall l d,
    zlen (deflate l d) <= zlen d + zlen d / 2^12 + zlen d / 2^14 + zlen d / 2^25 + 13.
  Hypothesis inflate_empty : forall rest, inflate (3 :: 0 :: rest) = Some ([], rest).
  Hypothesis crc32_nil : crc32 [] = 0.
  Variables (lvl : Z) (h : gzhdr).
  Hypothesis Hl : hdr_legal h.
  Hypothesis Hs : hdr_small h.

  Let pm := bgzf_wr_patch_mode.
  Let guard := bgzf_wr_patch_guard.
  Let ovf := bgzf_wr_overflow_check.
  Definition Mb (p : list Z) : list Z := member_of deflate crc32 lvl h p.
  Definition memb' := memb deflate crc32 pm guard ovf lvl h.

  Lemma memb_M p : small p -> memb' p = Mb p.
  Proof.
    intros H. unfold memb', memb, pm, guard.
    rewrite (write_block_ok deflate crc32 deflate_bound _ _ ovf lvl h p gen_patch_at_12 Hl Hs H). reflexivity.
  Qed.

  Lemma map_memb_M l : Forall small l -> map memb' l = map Mb l.
  Proof. induction 1; cbn; [reflexivity|]. rewrite memb_M by assumption. f_equal. assumption. Qed.

  (** Walking a list of members (optionally followed by the EOF marker). *)
  Lemma members_Forall2 (one : list Z -> option (list Z * list Z)) l :
    Forall small l ->
    (forall p r, small p -> one (Mb p ++ r) = Some (p, r)) ->
    Forall2 (fun m p => m <> [] /\ forall r, one (m ++ r) = Some (p, r)) (map Mb l) l.
  Proof.
    intros H Hone. induction H; cbn; constructor; auto. split; [apply member_of_nonempty|]. intros r. apply Hone. assumption.
  Qed.

  Lemma walk_members (one : list Z -> option (list Z * list Z)) l (eof : bool) :
    Forall small l ->
    (forall p r, small p -> one (Mb p ++ r) = Some (p, r)) ->
    (forall r, one (bgzf_magicBlock ++ r) = Some ([], r)) ->
    let out := concat (map Mb l ++ (if eof then [bgzf_magicBlock] else [])) in
    walk one (S (length out)) out = Some (concat l).
  Proof.
    intros Hsm Hone Hmag out. subst out. rewrite concat_app.
    assert (Hlen : (length (map Mb l) <= length (concat (map Mb l)))%nat).
    { apply length_concat_ge. apply Forall_forall. intros m Hm. apply in_map_iff in Hm. destruct Hm as [p [<- _]].
      apply member_of_nonempty. }
    rewrite <- (app_nil_r (concat l)).
    apply walk_concat; [apply members_Forall2; assumption| |].
    - rewrite app_length. lia.
    - destruct eof.
      + cbn [concat]. rewrite app_nil_r. rewrite app_length. change (length bgzf_magicBlock) with 28%nat.
        remember (S (length (concat (map Mb l)) + 28) - length (map Mb l))%nat as f eqn:Hf.
        destruct f as [|[|f]]; try lia. cbn [walk isnil bgzf_magicBlock].
        rewrite <- (app_nil_r bgzf_magicBlock). unfold bgzf_magicBlock at 1. rewrite Hmag. reflexivity.
      + cbn [concat]. rewrite app_nil_r. apply walk_nil. lia.
  Qed.

  Lemma read_all_members l (eof : bool) :
    Forall small l ->
    read_all inflate crc32 (concat (map Mb l ++ (if eof then [bgzf_magicBlock] else []))) = Some (concat l).
  Proof.
    intros H. unfold read_all. apply walk_members; [assumption| |].
    - intros p r Hp. apply member_of_bgzf; assumption.
    - apply bgzf_magic; assumption.
  Qed.

  Lemma gunzip_multi_members l (eof : bool) :
    Forall small l ->
    gunzip_multi inflate crc32 (concat (map Mb l ++ (if eof then [bgzf_magicBlock] else []))) = Some (concat l).
  Proof.
    intros H. unfold gunzip_multi. apply walk_members; [assumption| |].
    - intros p r Hp. apply member_of_gunzip; assumption.
    - apply gunzip_magic; assumption.
  Qed.

  (** ---- sequential writer ------------------------------------------------ *)
  Definition sout (s : sst) : list Z := seq_out deflate crc32 pm guard ovf lvl h s.

  Lemma seq_chunks_M s W : SInv W s ->
    seq_chunks deflate crc32 pm guard ovf lvl h s = map Mb (s_sub s) ++ (if s_eof s then [bgzf_magicBlock] else []).
  Proof. intros I. unfold seq_chunks. fold memb'. rewrite map_memb_M by apply (si_sub _ _ I). reflexivity. Qed.

  Lemma sub_prefix_written W s : SInv W s -> prefix_of (concat (s_sub s)) W.
  Proof.
    intros I. rewrite <- (si_written _ _ I). rewrite <- (si_data _ _ I).
    exists (pend s ++ pcb s ++ (if closing s then [] else written (s_script s))). rewrite <- !app_assoc. reflexivity.
  Qed.

  Theorem seq_roundtrip script fuel :
    let s := run_writer fuel (script ++ [OpClose]) in
    sdone s = true ->
    read_all inflate crc32 (sout s) = Some (written (script ++ [OpClose]))
    /\ gunzip_multi inflate crc32 (sout s) = Some (written (script ++ [OpClose]))
    /\ has_eof (sout s) = true.
  Proof.
    intros s Hd. pose proof (run_writer_inv fuel (script ++ [OpClose])) as I. fold s in I.
    assert (Hwc : will_close s).
    { unfold s, run_writer. apply (siter_will_close (written (script ++ [OpClose]))); [apply sinit_inv|].
      left. cbn [sinit s_script]. rewrite existsb_app. cbn. apply orb_true_r. }
    destruct (finished_closed _ _ I Hwc Hd) as (Hc & He & Hsub & Hsm).
    unfold sout, seq_out. rewrite (seq_chunks_M s _ I). rewrite He.
    rewrite (read_all_members _ true Hsm), (gunzip_multi_members _ true Hsm), Hsub.
    repeat split. rewrite concat_app. cbn [concat]. rewrite app_nil_r. apply has_eof_app_magic.
  Qed.

  Definition member_wf (m p : list Z) : Prop :=
    zlen p <= 65280 /\ zlen m <= 65536
    /\ firstn 4 (skipn 12 m) = [66; 67; 2; 0]
    /\ getz m 16 + 256 * getz m 17 = zlen m - 1
    /\ forall r, gunzip_member inflate crc32 (m ++ r) = Some (p, r).

  Lemma Mb_wf p : small p -> member_wf (Mb p) p.
  Proof.
    intros Hp. destruct (member_of_fields deflate crc32 deflate_bound lvl h p Hs Hp) as (F1 & F2 & F3).
    unfold member_wf. repeat split; auto. intros r. apply member_of_gunzip; assumption.
  Qed.

  Theorem seq_wellformed script fuel :
    let s := run_writer fuel script in
    exists ms,
      sout s = concat ms ++ (if s_eof s then bgzf_magicBlock else [])
      /\ Forall2 member_wf ms (s_sub s)
      /\ gunzip_multi inflate crc32 (sout s) = Some (concat (s_sub s))
      /\ prefix_of (concat (s_sub s)) (written script)
      /\ (s_eof s = true -> has_eof (sout s) = true /\ s_closed s = true /\ concat (s_sub s) = written script).
  Proof.
    intros s. pose proof (run_writer_inv fuel script) as I. fold s in I.
    exists (map Mb (s_sub s)). unfold sout, seq_out. rewrite (seq_chunks_M s _ I).
    pose proof (si_sub _ _ I) as Hsm.
    split; [rewrite concat_app; destruct (s_eof s); cbn [concat]; rewrite ?app_nil_r; reflexivity|].
    split.
    { clear -Hsm deflate_bound Hs Hl inflate_deflate. induction Hsm; cbn; constructor; auto. apply Mb_wf. assumption. }
    split; [apply gunzip_multi_members; assumption|].
    split; [apply (sub_prefix_written _ _ I)|].
    intros He. split.
    { rewrite He. rewrite concat_app. cbn [concat]. rewrite app_nil_r. apply has_eof_app_magic. }
    pose proof (si_eof_closed _ _ I He) as Hc. split; [assumption|].
    destruct (si_closed_pc _ _ I Hc) as [Hpc Hact].
    assert (Hne : s_pc s <> ACWg).
    { intros E. pose proof (si_close_eof _ _ I) as X. rewrite E in X. specialize (X eq_refl). congruence. }
    pose proof (si_data _ _ I) as Hd. pose proof (si_written _ _ I) as Hw.
    unfold pend, pcb, closing in *. rewrite Hc in Hw. rewrite (Hact Hne) in Hd.
    destruct Hpc as [E|[E|[E|E]]]; try congruence; rewrite E in *; cbn [orb] in *; rewrite ?app_nil_r in *; congruence.
  Qed.

  (** ---- concurrent pipeline ---------------------------------------------- *)
  Definition crun (wc : Z) (script : list wop) (sched : list nat) : cst :=
    run_conc deflate crc32 pm guard ovf lvl h no_fault wc script sched.

  Lemma crun_inv wc script sched :
    CInv deflate crc32 lvl h script (crun wc script sched).
  Proof. apply run_conc_inv; auto. apply gen_patch_at_12. Qed.

  Definition quiescent (st : cst) : Prop := x_queue st = [] /\ x_held st = None.

  Lemma quiescent_pending st : quiescent st -> pending st = [].
  Proof. intros [Hq Hh]. unfold pending, held_pending. rewrite Hq, Hh. destruct (x_epc st); reflexivity. Qed.

  (** In every reachable state: what reached the underlying writer is one
      member per block for the first k submitted blocks (then the marker once
      closed); it decodes to a prefix of the data written so far that covers
      the durable mark. *)
  Theorem conc_block_prefix wc script sched :
    let st := crun wc script sched in
    let s := x_api st in
    exists k,
      (k <= length (s_sub s))%nat
      /\ x_out st = map Mb (firstn k (s_sub s)) ++ (if s_eof s then [bgzf_magicBlock] else [])
      /\ gunzip_multi inflate crc32 (out_bytes st) = Some (concat (firstn k (s_sub s)))
      /\ prefix_of (concat (firstn k (s_sub s))) (s_data s)
      /\ prefix_of (s_data s) (written script)
      /\ s_durable s <= zlen (concat (firstn k (s_sub s)))
      /\ (quiescent st -> k = length (s_sub s))
      /\ x_err st = None /\ x_panic st = false.
  Proof.
    intros st s. pose proof (crun_inv wc script sched) as I. fold st in I.
    pose proof (api_inv _ _ _ _ _ _ I) as SI. fold s in SI.
    destruct (ci_chain _ _ _ _ _ _ I) as (done & ps & C1 & C2 & C3 & C4). fold s in C1, C3, C4.
    exists (length done).
    assert (Hfirst : firstn (length done) (s_sub s) = done).
    { rewrite C1. rewrite firstn_app, Nat.sub_diag, firstn_all. cbn. apply app_nil_r. }
    rewrite Hfirst.
    assert (Hsm : Forall small done).
    { pose proof (si_sub _ _ SI) as X. rewrite C1 in X. apply Forall_app in X. tauto. }
    split; [rewrite C1, app_length; lia|].
    split; [assumption|].
    split; [unfold out_bytes; fold st; rewrite C3; apply gunzip_multi_members; assumption|].
    split.
    { rewrite <- (si_data _ _ SI). rewrite C1. exists (concat ps ++ pend s). rewrite concat_app, <- app_assoc. reflexivity. }
    split.
    { rewrite <- (si_written _ _ SI). eexists; reflexivity. }
    split; [assumption|].
    split.
    { intros Hq. pose proof (quiescent_pending _ Hq) as Hp. rewrite Hp in C2. inversion C2; subst.
      rewrite C1, app_nil_r. reflexivity. }
    split; [apply (ci_err _ _ _ _ _ _ I)|apply (ci_panic _ _ _ _ _ _ I)].
  Qed.

  Lemma closed_ok_quiescent wc script sched :
    let st := crun wc script sched in s_eof (x_api st) = true -> quiescent st.
  Proof.
    intros st He. pose proof (crun_inv wc script sched) as I. fold st in I.
    pose proof (ci_eof _ _ _ _ _ _ I He) as Hx.
    destruct (ci_exit _ _ _ _ _ _ I Hx) as [Hq _]. pose proof (ci_held _ _ _ _ _ _ I) as Hh. rewrite Hx in Hh.
    split; assumption.
  Qed.

  (** Concurrency is invisible: once the caller has finished its script and
      the pipeline is quiescent (always the case after a successful Close),
      the chunks delivered are those of the sequential writer, and the calls
      returned the same results. *)
  Theorem conc_refines_seq wc script sched fuel :
    let st := crun wc script sched in
    let sq := run_writer fuel script in
    cdone st = true -> sdone sq = true -> quiescent st ->
    x_api st = sq
    /\ x_out st = seq_chunks deflate crc32 pm guard ovf lvl h sq
    /\ out_bytes st = sout sq.
  Proof.
    intros st sq Hd Hsd Hq. pose proof (crun_inv wc script sched) as I. fold st in I.
    destruct (ci_orbit _ _ _ _ _ _ I) as [m Hm].
    assert (Heq : x_api st = sq).
    { rewrite Hm. unfold sq, run_writer. apply siter_done_unique; [|assumption]. rewrite <- Hm. assumption. }
    destruct (conc_block_prefix wc script sched) as (k & K1 & K2 & _ & _ & _ & _ & K7 & _). fold st in K1, K2, K7.
    rewrite (K7 Hq), firstn_all in K2.
    pose proof (run_writer_inv fuel script) as SI. fold sq in SI.
    assert (Hout : x_out st = seq_chunks deflate crc32 pm guard ovf lvl h sq).
    { rewrite (seq_chunks_M sq _ SI). rewrite <- Heq. assumption. }
    split; [assumption|]. split; [assumption|].
    unfold out_bytes, sout, seq_out. fold st. rewrite Hout. reflexivity.
  Qed.

  Theorem conc_out_independent wc1 wc2 script sched1 sched2 :
    let st1 := crun wc1 script sched1 in
    let st2 := crun wc2 script sched2 in
    cdone st1 = true -> cdone st2 = true -> quiescent st1 -> quiescent st2 ->
    x_out st1 = x_out st2 /\ s_res (x_api st1) = s_res (x_api st2).
  Proof.
    intros st1 st2 D1 D2 Q1 Q2.
    pose proof (crun_inv wc1 script sched1) as I1. pose proof (crun_inv wc2 script sched2) as I2.
    destruct (ci_orbit _ _ _ _ _ _ I1) as [m1 H1]. destruct (ci_orbit _ _ _ _ _ _ I2) as [m2 H2].
    fold st1 in H1. fold st2 in H2.
    assert (Heq : x_api st1 = x_api st2).
    { rewrite H1, H2. apply siter_done_unique; [rewrite <- H1|rewrite <- H2]; assumption. }
    destruct (conc_block_prefix wc1 script sched1) as (k1 & _ & A2 & _ & _ & _ & _ & A7 & _).
    destruct (conc_block_prefix wc2 script sched2) as (k2 & _ & B2 & _ & _ & _ & _ & B7 & _).
    fold st1 in A2, A7. fold st2 in B2, B7.
    rewrite (A7 Q1), firstn_all in A2. rewrite (B7 Q2), firstn_all in B2.
    split; [rewrite A2, B2, Heq; reflexivity|rewrite Heq; reflexivity].
  Qed.

  (** Close returned nil: everything written is in the stream, then the marker. *)
  Theorem conc_close_durable wc script sched :
    let st := crun wc script sched in
    s_eof (x_api st) = true ->
    x_out st = map Mb (s_sub (x_api st)) ++ [bgzf_magicBlock]
    /\ concat (s_sub (x_api st)) = written script
    /\ gunzip_multi inflate crc32 (out_bytes st) = Some (written script)
    /\ has_eof (out_bytes st) = true.
  Proof.
    intros st He. pose proof (crun_inv wc script sched) as I. fold st in I.
    pose proof (api_inv _ _ _ _ _ _ I) as SI.
    destruct (conc_block_prefix wc script sched) as (k & K1 & K2 & K3 & _ & _ & _ & K7 & _). fold st in K1, K2, K3, K7.
    pose proof (closed_ok_quiescent wc script sched He) as Hq. fold st in Hq.
    rewrite (K7 Hq), firstn_all in K2, K3. rewrite He in K2.
    assert (Hsub : concat (s_sub (x_api st)) = written script).
    { pose proof (si_eof_closed _ _ SI He) as Hc.
      destruct (si_closed_pc _ _ SI Hc) as [Hpc Hact].
      assert (Hne : s_pc (x_api st) <> ACWg).
      { intros E. pose proof (si_close_eof _ _ SI) as X. rewrite E in X. specialize (X eq_refl). congruence. }
      pose proof (si_data _ _ SI) as Hd. pose proof (si_written _ _ SI) as Hw.
      unfold pend, pcb, closing in *. rewrite Hc in Hw. rewrite (Hact Hne) in Hd.
      destruct Hpc as [E|[E|[E|E]]]; try congruence; rewrite E in *; cbn [orb] in *; rewrite ?app_nil_r in *; congruence. }
    split; [assumption|]. split; [assumption|]. split; [rewrite K3, Hsub; reflexivity|].
    unfold out_bytes. fold st. rewrite K2, concat_app. cbn [concat]. rewrite app_nil_r. apply has_eof_app_magic.
  Qed.

  (** ---- any fault plan of the underlying writer --------------------------- *)
  Lemma prefix_firstn {A} (d l : list A) : prefix_of d l -> firstn (length d) l = d.
  Proof. intros [t ->]. rewrite firstn_app, Nat.sub_diag, firstn_all. cbn. apply app_nil_r. Qed.

  (** Whatever Write calls of the underlying writer fail (fault k = true: the
      k-th call is refused and delivers nothing), in every reachable state the
      chunks that were accepted are exactly the members of the first k
      submitted blocks (then the marker iff Close succeeded): whole blocks, in
      write order, decoding to a prefix of the data accepted so far.  Nothing
      is delivered after a failure. *)
  Theorem conc_block_prefix_faulty (fault : Z -> bool) wc script sched :
    let st := run_conc deflate crc32 pm guard ovf lvl h fault wc script sched in
    let s := x_api st in
    exists k,
      (k <= length (s_sub s))%nat
      /\ x_out st = map Mb (firstn k (s_sub s)) ++ (if s_eof s then [bgzf_magicBlock] else [])
      /\ gunzip_multi inflate crc32 (out_bytes st) = Some (concat (firstn k (s_sub s)))
      /\ prefix_of (concat (firstn k (s_sub s))) (s_data s)
      /\ (x_err st <> None -> s_eof s = false)
      /\ Forall small (firstn k (s_sub s))
      /\ (s_eof s = true -> s_closed s = true /\ x_err st = None).
  Proof.
    intros st s.
    destruct (run_conc_any deflate crc32 pm guard ovf lvl h deflate_bound gen_patch_at_12 Hl Hs fault wc script sched)
      as [I|F]; fold st in I || fold st in F.
    - pose proof (api_inv _ _ _ _ _ _ I) as SI. fold s in SI.
      destruct (ci_chain _ _ _ _ _ _ I) as (done & ps & C1 & C2 & C3 & C4). fold s in C1, C3.
      exists (length done).
      assert (Hfirst : firstn (length done) (s_sub s) = done) by (apply prefix_firstn; exists ps; assumption).
      rewrite Hfirst.
      assert (Hsm : Forall small done).
      { pose proof (si_sub _ _ SI) as X. rewrite C1 in X. apply Forall_app in X. tauto. }
      split; [rewrite C1, app_length; lia|]. split; [assumption|].
      split; [unfold out_bytes; fold st; rewrite C3; apply gunzip_multi_members; assumption|].
      split.
      { rewrite <- (si_data _ _ SI). rewrite C1. exists (concat ps ++ pend s). rewrite concat_app, <- app_assoc. reflexivity. }
      split; [intros E; pose proof (ci_err _ _ _ _ _ _ I); contradiction|].
      split; [assumption|]. intros E. split; [apply (si_eof_closed _ _ SI E)|apply (ci_err _ _ _ _ _ _ I)].
    - destruct F as (He & Heof & done & D1 & D2 & D3 & D4). fold s in Heof, D1, D4.
      exists (length done). rewrite (prefix_firstn _ _ D1).
      split; [destruct D1 as [t ->]; rewrite app_length; lia|].
      rewrite Heof. split; [rewrite app_nil_r; assumption|].
      split.
      { unfold out_bytes. fold st. rewrite D2. rewrite <- (app_nil_r (map _ done)).
        change (@nil (list Z)) with (if false then [bgzf_magicBlock] else []). apply gunzip_multi_members. assumption. }
      split; [assumption|]. split; [intros _; reflexivity|]. split; [assumption|]. intros E. congruence.
  Qed.

  (** ---- the marker is there iff the writer was closed without error ------- *)
  Hypothesis deflate_min : forall l d, 2 <= zlen (deflate l d).
  Hypothesis deflate_empty_tail : forall l, skipn (length (deflate l []) - 2) (deflate l []) <> [3; 0].

  Theorem conc_eof_iff (fault : Z -> bool) wc script sched :
    let st := run_conc deflate crc32 pm guard ovf lvl h fault wc script sched in
    (has_eof (out_bytes st) = true <-> s_eof (x_api st) = true)
    /\ (s_eof (x_api st) = true -> s_closed (x_api st) = true /\ x_err st = None).
  Proof.
    intros st.
    destruct (conc_block_prefix_faulty fault wc script sched) as (k & _ & K2 & _ & _ & _ & Ksm & Kcl).
    fold st in K2, Ksm, Kcl. split; [|exact Kcl].
    unfold out_bytes. rewrite K2. destruct (s_eof (x_api st)).
    - rewrite concat_app. cbn [concat]. rewrite app_nil_r. rewrite has_eof_app_magic. tauto.
    - rewrite app_nil_r.
      assert (X : has_eof (concat (map Mb (firstn k (s_sub (x_api st))))) = false)
        by exact (members_no_eof deflate crc32 deflate_min deflate_empty_tail lvl h _ Ksm).
      rewrite X. split; discriminate.
  Qed.

  Theorem seq_eof_iff script fuel :
    let s := run_writer fuel script in
    has_eof (sout s) = true <-> s_eof s = true.
  Proof.
    intros s. pose proof (run_writer_inv fuel script) as I. fold s in I.
    unfold sout, seq_out. rewrite (seq_chunks_M s _ I). destruct (s_eof s).
    - rewrite concat_app. cbn [concat]. rewrite app_nil_r. rewrite has_eof_app_magic. tauto.
    - rewrite app_nil_r.
      assert (X : has_eof (concat (map Mb (s_sub s))) = false)
        by exact (members_no_eof deflate crc32 deflate_min deflate_empty_tail lvl h _ (si_sub _ _ I)).
      rewrite X. split; discriminate.
  Qed.
End Thms.

(** ---- bam.NewWriter: Write(header); Flush(); Wait() ------------------------ *)
Definition wpc (pc : apc) : bool :=
  match pc with AIdle | AWLoop _ _ _ | AWSend _ _ | AWAdd _ _ | AWRecv _ _ => true | _ => false end.

Definition bamJ (s : sst) : Prop :=
  s_closed s = false /\
  match s_script s with
  | [OpWrite _; OpFlush; OpWait] => s_pc s = AIdle
  | [OpFlush; OpWait] => wpc (s_pc s) = true
  | [OpWait] => s_pc s = AFRecv \/ s_pc s = AFSend \/ s_pc s = AFAdd
                \/ (s_pc s = AIdle /\ s_flushmark s = zlen (s_data s))
  | [] => (s_pc s = AWaitQ /\ s_flushmark s = zlen (s_data s))
          \/ ((s_pc s = AIdle \/ s_pc s = ADone) /\ s_durable s = zlen (s_data s))
  | _ => False
  end.

Lemma bamJ_step s : bamJ s -> bamJ (step0 s).
Proof.
  unfold bamJ. intros [Hc HJ]. unfold step0, sstep.
  destruct (s_script s) as [|o1 [|o2 [|o3 [|o4 r]]]] eqn:Hscr;
    repeat match goal with o : wop |- _ => destruct o; try contradiction end.
  - destruct HJ as [[Hpc Hf]|[[Hpc|Hpc] Hd]]; rewrite Hpc; cbn; rewrite ?Hscr, ?Hc; cbn; rewrite ?Hpc, ?Hscr; cbn; intuition auto.
  - destruct HJ as [Hpc|[Hpc|[Hpc|[Hpc Hf]]]]; rewrite Hpc; cbn; rewrite ?Hscr, ?Hc; cbn; rewrite ?Hscr; cbn; intuition auto.
  - destruct (s_pc s) eqn:Hpc; try discriminate; cbn; rewrite ?Hscr, ?Hc; cbn; rewrite ?Hscr; cbn; auto.
    + destruct (isnil (s_act s)); cbn; rewrite ?Hscr, ?Hc; cbn; intuition auto.
    + destruct (isnil b || is_some err); cbn; rewrite ?Hscr, ?Hc; cbn; auto.
      match goal with |- context [if ?c then _ else _] => destruct c end; cbn; auto.
  - rewrite HJ. cbn. rewrite ?Hscr, ?Hc. cbn. rewrite ?Hscr, ?Hc. cbn. auto.
Qed.

Lemma bamJ_iter n : forall s, bamJ s -> bamJ (siter n s).
Proof. induction n; intros s H; [assumption|]. cbn [siter]. apply IHn. apply bamJ_step. assumption. Qed.

Lemma bam_final hb n :
  let s := siter n (sinit [OpWrite hb; OpFlush; OpWait]) in
  sdone s = true -> s_durable s = zlen (s_data s) /\ s_data s = hb.
Proof.
  intros s Hd.
  assert (J : bamJ s) by (apply bamJ_iter; split; reflexivity).
  pose proof (siter_inv (written [OpWrite hb; OpFlush; OpWait]) n _ (sinit_inv _)) as I. fold s in I.
  unfold sdone in Hd. destruct (s_pc s) eqn:Hpc; try discriminate.
  pose proof (si_done _ _ I Hpc) as Hscr.
  destruct J as [Hc HJ]. rewrite Hscr in HJ.
  destruct HJ as [[E _]|[_ Hdur]]; [congruence|].
  split; [assumption|].
  pose proof (si_written _ _ I) as Hw. unfold pcb, closing in Hw. rewrite Hpc, Hc, Hscr in Hw. cbn in Hw.
  rewrite !app_nil_r in Hw. assumption.
Qed.

Lemma prefix_of_full {A} (d l : list A) : prefix_of d l -> zlen l <= zlen d -> d = l.
Proof.
  intros [t ->] H. rewrite zlen_app' in H. pose proof (zlen_nonneg t).
  assert (t = []) by (apply zlen_0_nil; lia). subst. rewrite app_nil_r. reflexivity.
Qed.

(** ---- statements with the codec laws as one premise ------------------------ *)
Definition codec_laws (deflate : Z -> list Z -> list Z) (inflate : list Z -> option (list Z * list Z))
           (crc32 : list Z -> Z) : Prop :=
  (forall l d rest, inflate (deflate l d ++ rest) = Some (d, rest))
  /\ (forall l d, zlen (deflate l d) <= zlen d + zlen d / 2^12 + zlen d / 2^14 + zlen d / 2^25 + 13)
  /\ (forall rest, inflate (3 :: 0 :: rest) = Some ([], rest))
  /\ crc32 [] = 0.

(** Legal for compress/gzip and leaving room for a full block. *)
Definition hdr_ok (h : gzhdr) : Prop := hdr_legal h /\ hdr_small h.

Definition wr_out deflate crc32 lvl h (s : sst) : list Z :=
  seq_out deflate crc32 bgzf_wr_patch_mode bgzf_wr_patch_guard bgzf_wr_overflow_check lvl h s.
Definition wr_conc deflate crc32 lvl h wc script sched : cst :=
  run_conc deflate crc32 bgzf_wr_patch_mode bgzf_wr_patch_guard bgzf_wr_overflow_check lvl h no_fault wc script sched.

Section Final.
  Variables (deflate : Z -> list Z -> list Z) (inflate : list Z -> option (list Z * list Z)) (crc32 : list Z -> Z).
  Hypothesis laws : codec_laws deflate inflate crc32.
  Variables (lvl : Z) (h : gzhdr).
  Hypothesis ok : hdr_ok h.

  Let L1 := proj1 laws.
  Let L2 := proj1 (proj2 laws).
  Let L3 := proj1 (proj2 (proj2 laws)).
  Let L4 := proj2 (proj2 (proj2 laws)).
  Let H1 := proj1 ok.
  Let H2 := proj2 ok.

  Lemma bgzf_roundtrip_gen script fuel :
    let s := run_writer fuel (script ++ [OpClose]) in
    sdone s = true ->
    read_all inflate crc32 (wr_out deflate crc32 lvl h s) = Some (written (script ++ [OpClose]))
    /\ gunzip_multi inflate crc32 (wr_out deflate crc32 lvl h s) = Some (written (script ++ [OpClose]))
    /\ has_eof (wr_out deflate crc32 lvl h s) = true.
  Proof. exact (seq_roundtrip deflate inflate crc32 L1 L2 L3 L4 lvl h H1 H2 script fuel). Qed.

  Lemma members_wellformed_gen script fuel :
    let s := run_writer fuel script in
    exists ms,
      wr_out deflate crc32 lvl h s = concat ms ++ (if s_eof s then bgzf_magicBlock else [])
      /\ Forall2 (member_wf inflate crc32) ms (s_sub s)
      /\ gunzip_multi inflate crc32 (wr_out deflate crc32 lvl h s) = Some (concat (s_sub s))
      /\ prefix_of (concat (s_sub s)) (written script)
      /\ (s_eof s = true -> has_eof (wr_out deflate crc32 lvl h s) = true /\ s_closed s = true
                            /\ concat (s_sub s) = written script).
  Proof. exact (seq_wellformed deflate inflate crc32 L1 L2 L3 L4 lvl h H1 H2 script fuel). Qed.

  Lemma writer_conc_refines_seq_gen wc script sched fuel :
    let st := wr_conc deflate crc32 lvl h wc script sched in
    let sq := run_writer fuel script in
    cdone st = true -> sdone sq = true -> quiescent st ->
    x_api st = sq
    /\ x_out st = seq_chunks deflate crc32 bgzf_wr_patch_mode bgzf_wr_patch_guard bgzf_wr_overflow_check lvl h sq
    /\ out_bytes st = wr_out deflate crc32 lvl h sq.
  Proof. exact (conc_refines_seq deflate inflate crc32 L1 L2 L3 L4 lvl h H1 H2 wc script sched fuel). Qed.

  Lemma closed_quiescent_gen wc script sched :
    let st := wr_conc deflate crc32 lvl h wc script sched in
    s_eof (x_api st) = true -> quiescent st.
  Proof. exact (closed_ok_quiescent deflate crc32 L2 lvl h H1 H2 wc script sched). Qed.

  Lemma output_independent_of_wc_gen wc1 wc2 script sched1 sched2 :
    let st1 := wr_conc deflate crc32 lvl h wc1 script sched1 in
    let st2 := wr_conc deflate crc32 lvl h wc2 script sched2 in
    cdone st1 = true -> cdone st2 = true -> quiescent st1 -> quiescent st2 ->
    x_out st1 = x_out st2 /\ s_res (x_api st1) = s_res (x_api st2).
  Proof. exact (conc_out_independent deflate inflate crc32 L1 L2 L3 L4 lvl h H1 H2 wc1 wc2 script sched1 sched2). Qed.

  Lemma emitted_is_block_prefix_gen wc script sched :
    let st := wr_conc deflate crc32 lvl h wc script sched in
    let s := x_api st in
    exists k,
      (k <= length (s_sub s))%nat
      /\ x_out st = map (member_of deflate crc32 lvl h) (firstn k (s_sub s)) ++ (if s_eof s then [bgzf_magicBlock] else [])
      /\ gunzip_multi inflate crc32 (out_bytes st) = Some (concat (firstn k (s_sub s)))
      /\ prefix_of (concat (firstn k (s_sub s))) (s_data s)
      /\ prefix_of (s_data s) (written script)
      /\ s_durable s <= zlen (concat (firstn k (s_sub s)))
      /\ (quiescent st -> k = length (s_sub s))
      /\ x_err st = None /\ x_panic st = false.
  Proof. exact (conc_block_prefix deflate inflate crc32 L1 L2 L3 L4 lvl h H1 H2 wc script sched). Qed.

  Lemma emitted_is_block_prefix_faulty_gen (fault : Z -> bool) wc script sched :
    let st := run_conc deflate crc32 bgzf_wr_patch_mode bgzf_wr_patch_guard bgzf_wr_overflow_check lvl h fault wc script sched in
    let s := x_api st in
    exists k,
      (k <= length (s_sub s))%nat
      /\ x_out st = map (member_of deflate crc32 lvl h) (firstn k (s_sub s)) ++ (if s_eof s then [bgzf_magicBlock] else [])
      /\ gunzip_multi inflate crc32 (out_bytes st) = Some (concat (firstn k (s_sub s)))
      /\ prefix_of (concat (firstn k (s_sub s))) (s_data s)
      /\ (x_err st <> None -> s_eof s = false)
      /\ Forall small (firstn k (s_sub s))
      /\ (s_eof s = true -> s_closed s = true /\ x_err st = None).
  Proof. exact (conc_block_prefix_faulty deflate inflate crc32 L1 L2 L3 L4 lvl h H1 H2 fault wc script sched). Qed.

  Lemma flush_wait_durable_gen wc script sched :
    let st := wr_conc deflate crc32 lvl h wc script sched in
    exists d, gunzip_multi inflate crc32 (out_bytes st) = Some d
              /\ prefix_of d (s_data (x_api st))
              /\ s_durable (x_api st) <= zlen d.
  Proof.
    intros st. destruct (emitted_is_block_prefix_gen wc script sched) as (k & _ & _ & K3 & K4 & _ & K6 & _).
    eexists. split; [exact K3|]. split; assumption.
  Qed.

  Lemma close_durable_gen wc script sched :
    let st := wr_conc deflate crc32 lvl h wc script sched in
    s_eof (x_api st) = true ->
    x_out st = map (member_of deflate crc32 lvl h) (s_sub (x_api st)) ++ [bgzf_magicBlock]
    /\ concat (s_sub (x_api st)) = written script
    /\ gunzip_multi inflate crc32 (out_bytes st) = Some (written script)
    /\ has_eof (out_bytes st) = true.
  Proof. exact (conc_close_durable deflate inflate crc32 L1 L2 L3 L4 lvl h H1 H2 wc script sched). Qed.

  Lemma bam_header_durable_gen wc hb sched :
    let st := wr_conc deflate crc32 lvl h wc [OpWrite hb; OpFlush; OpWait] sched in
    cdone st = true -> gunzip_multi inflate crc32 (out_bytes st) = Some hb.
  Proof.
    intros st Hd.
    destruct (emitted_is_block_prefix_gen wc [OpWrite hb; OpFlush; OpWait] sched) as (k & _ & _ & K3 & K4 & _ & K6 & _).
    fold st in K3, K4, K6.
    pose proof (crun_inv deflate crc32 L2 lvl h H1 H2 wc [OpWrite hb; OpFlush; OpWait] sched) as I.
    destruct (ci_orbit _ _ _ _ _ _ I) as [m Hm0].
    assert (Hm : x_api st = siter m (sinit [OpWrite hb; OpFlush; OpWait])) by exact Hm0.
    assert (Hsd : sdone (siter m (sinit [OpWrite hb; OpFlush; OpWait])) = true) by (rewrite <- Hm; exact Hd).
    destruct (bam_final hb m Hsd) as [Hdur Hdat].
    assert (Hdur' : s_durable (x_api st) = zlen (s_data (x_api st))) by (rewrite Hm; exact Hdur).
    assert (Hdat' : s_data (x_api st) = hb) by (rewrite Hm; exact Hdat).
    rewrite Hdur' in K6. rewrite K3. f_equal. rewrite <- Hdat'. apply prefix_of_full; assumption.
  Qed.

  Lemma member_fits_gen p :
    zlen p <= bgzf_BlockSize -> hdr_ok default_hdr ->
    write_block deflate crc32 bgzf_wr_patch_mode bgzf_wr_patch_guard bgzf_wr_overflow_check lvl default_hdr [] p
    = Ok (member_of deflate crc32 lvl default_hdr p)
    /\ zlen (member_of deflate crc32 lvl default_hdr p) <= 65536.
  Proof.
    intros Hp [D1 D2]. split.
    - apply write_block_ok; auto. apply gen_patch_at_12.
    - destruct (member_of_fields deflate crc32 L2 lvl default_hdr p D2 Hp) as (_ & _ & F). exact F.
  Qed.
End Final.

(** Two more facts about the compressor, needed only for "marker => closed":
    every DEFLATE stream has at least two bytes, and the encoding of the empty
    payload does not end in 03 00 (the tail of the marker's stream).  Both are
    checked against compress/flate at every level on every run. *)
Definition codec_laws_eof (deflate : Z -> list Z -> list Z) : Prop :=
  (forall l d, 2 <= zlen (deflate l d))
  /\ (forall l, skipn (length (deflate l []) - 2) (deflate l []) <> [3; 0]).

Lemma eof_iff_closed_ok_gen deflate inflate crc32 :
  codec_laws deflate inflate crc32 -> codec_laws_eof deflate ->
  forall lvl h, hdr_ok h ->
  forall (fault : Z -> bool) wc script sched,
    let st := run_conc deflate crc32 bgzf_wr_patch_mode bgzf_wr_patch_guard bgzf_wr_overflow_check lvl h fault wc script sched in
    (has_eof (out_bytes st) = true <-> s_eof (x_api st) = true)
    /\ (s_eof (x_api st) = true -> s_closed (x_api st) = true /\ x_err st = None).
Proof.
  intros (L1 & L2 & L3 & L4) (E1 & E2) lvl h (H1 & H2) fault wc script sched.
  exact (conc_eof_iff deflate inflate crc32 L1 L2 L3 L4 lvl h H1 H2 E1 E2 fault wc script sched).
Qed.

Lemma seq_eof_iff_gen deflate inflate crc32 :
  codec_laws deflate inflate crc32 -> codec_laws_eof deflate ->
  forall lvl h, hdr_ok h ->
  forall script fuel,
    let s := run_writer fuel script in
    has_eof (wr_out deflate crc32 lvl h s) = true <-> s_eof s = true.
Proof.
  intros (L1 & L2 & L3 & L4) (E1 & E2) lvl h (H1 & H2) script fuel.
  eapply seq_eof_iff; eassumption.
Qed.

Lemma default_hdr_ok : hdr_ok default_hdr.
Proof. split; [reflexivity|]. unfold hdr_small, hdr_len. cbn. lia. Qed.

Lemma mtime_24342_ok : hdr_ok mtime_24342.
Proof. split; [reflexivity|]. unfold hdr_small, hdr_len. cbn. lia. Qed.

Lemma first_index_refuted_gen :
  exists h, hdr_ok h /\
    forall deflate crc32 lvl p,
      patch_pos PatchFirstIndex true (raw_member deflate crc32 lvl h p) = Some 4.
Proof. exists mtime_24342. split; [apply mtime_24342_ok|]. intros. apply first_index_hits_mtime. Qed.

(** ---- the 64 KiB boundary of writeBlock, for every header and block ------- *)
Ltac Zify.zify_post_hook ::= Z.div_mod_to_equations.

(** Whatever writeBlock emits fits: at most MaxBlockSize bytes, BC subfield at
    12, BSIZE = length - 1.  Holds for every codec, level, header and block;
    hinges on the size check `size >= MaxBlockSize` that gen/ finds in the
    source (bgzf_wr_overflow_check) and on the regenerated MaxBlockSize. *)
Lemma emitted_member_fits_gen deflate crc32 lvl h p m :
  write_block deflate crc32 bgzf_wr_patch_mode bgzf_wr_patch_guard bgzf_wr_overflow_check lvl h [] p = Ok m ->
  zlen m <= bgzf_MaxBlockSize /\ zlen m <= 65536
  /\ firstn 4 (skipn 12 m) = [66; 67; 2; 0]
  /\ getz m 16 + 256 * getz m 17 = zlen m - 1.
Proof.
  destruct (hdr_err h) eqn:He; [unfold write_block; rewrite He; discriminate|].
  rewrite (write_block_spec deflate crc32 _ _ _ lvl h p gen_patch_at_12 He). cbv zeta.
  unfold bgzf_wr_overflow_check. cbn [andb].
  set (size := zlen (raw_member deflate crc32 lvl h p) - 1).
  destruct (bgzf_MaxBlockSize <=? size) eqn:E; [discriminate|]. apply Z.leb_gt in E.
  intros H. injection H as <-.
  destruct (member_bs_fields deflate crc32 lvl h (size mod 256) ((size / 256) mod 256) p) as (F1 & F2 & F3).
  rewrite F2, F3. rewrite zlen_member_bs.
  assert (Hsz : size = hdr_len h + zlen (deflate lvl p) + 8 - 1) by (unfold size; rewrite zlen_raw_member; lia).
  assert (0 <= size).
  { rewrite Hsz. unfold hdr_len. pose proof (zlen_nonneg (h_extra h)). pose proof (zlen_nonneg (zstr (h_name h))).
    pose proof (zlen_nonneg (zstr (h_comment h))). pose proof (zlen_nonneg (deflate lvl p)). lia. }
  unfold bgzf_MaxBlockSize in *. repeat split; try assumption; lia.
Qed.

(** A member that would be longer than MaxBlockSize is refused with
    ErrBlockOverflow (header legal for compress/gzip, any size). *)
Lemma oversize_member_refused_gen deflate crc32 lvl h p :
  hdr_err h = false ->
  bgzf_MaxBlockSize < zlen (raw_member deflate crc32 lvl h p) ->
  write_block deflate crc32 bgzf_wr_patch_mode bgzf_wr_patch_guard bgzf_wr_overflow_check lvl h [] p = Err 5.
Proof.
  intros He Hbig. rewrite (write_block_spec deflate crc32 _ _ _ lvl h p gen_patch_at_12 He). cbv zeta.
  unfold bgzf_wr_overflow_check. cbn [andb].
  replace (bgzf_MaxBlockSize <=? zlen (raw_member deflate crc32 lvl h p) - 1) with true
    by (symmetry; apply Z.leb_le; lia).
  reflexivity.
Qed.
