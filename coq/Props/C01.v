(** C01 — BGZF write -> read round trip is lossless.
    Statements only; proofs in Proofs/Bgzf.v, Writer.v, WriterConc.v, WriterThms.v.
    [run_writer] is the sequential writer machine (Model/Writer.v: the program
    of Write/Flush/Wait/Close as coded), [wr_out] the bytes it hands to the
    underlying writer, [wr_conc] the concurrent pipeline (Model/WriterConc.v)
    run under a schedule, [read_all] a BGZF reader written from the
    specification (walks members by BSIZE), [codec_laws] the assumptions about
    DEFLATE / CRC-32 (Section hypotheses, validated at run time), [hdr_ok] a
    gzip header setting that compress/gzip accepts and that leaves room for a
    full block.  The BSIZE back-patch mode, BlockSize, MaxBlockSize,
    magicBlock, compressBound are regenerated from the Go source. *)
From Coq Require Import ZArith List Bool.
From Hts Require Import Base.Prim Base.WrList Generated Model.Bgzf Model.Writer Model.WriterConc
  Model.Flat Model.Reader Proofs.Bgzf Proofs.Writer Proofs.WriterConc Proofs.WriterThms Proofs.WrSkel Proofs.WriterTerm
  Proofs.ReaderFlat Proofs.ReaderStore Proofs.WriterReader Proofs.WriterReaderThms Model.WriterEnabled Proofs.WriterProgress.
Import ListNotations.
Open Scope Z_scope.

(** Every script of Write p | Flush | Wait | Close calls followed by Close,
    every level, every admissible header: once the writer machine has run to
    completion, reading its output back gives exactly the payloads written
    before the first Close, then end of data; a plain multi-member gzip
    decoder gives the same; the stream ends with the EOF marker. *)
Theorem bgzf_roundtrip :
  forall deflate inflate crc32, codec_laws deflate inflate crc32 ->
  forall lvl h, hdr_ok h ->
  forall script fuel,
    let s := run_writer fuel (script ++ [OpClose]) in
    sdone s = true ->
    read_all inflate crc32 (wr_out deflate crc32 lvl h s) = Some (written (script ++ [OpClose]))
    /\ gunzip_multi inflate crc32 (wr_out deflate crc32 lvl h s) = Some (written (script ++ [OpClose]))
    /\ has_eof (wr_out deflate crc32 lvl h s) = true.
Proof. exact bgzf_roundtrip_gen. Qed.
Print Assumptions bgzf_roundtrip.

(** Reader side: composition with the model of the real bgzf.Reader
    (Model/Reader.v, C02: reader.go + cache.go with blocks as store objects,
    proved to refine the flat reader).  For every script followed by Close:
    the bytes of the finished writer ARE the BGZF file [wr_file] - at every
    member's base the stream continues with a member of m_size = BSIZE+1 bytes
    that a BGZF reader decodes to m_data ([members_at]) -, the file is
    well-formed for the Reader (members of at most 65280 data bytes, so the
    65536-byte corner of C02 does not arise: [addressable]), and for EVERY mix
    of Read n (n >= 0) and ReadByte calls ([read_op]) the modelled Reader
    starts without error, every call returns, and ([reads_ok]) each call
    delivers exactly the next min(wanted, remaining) bytes of the written data
    and reports io.EOF iff it delivered fewer bytes than wanted or the data
    was already exhausted.  [ch] is the Reader model's choice list
    (irrelevant without a cache). *)
Theorem bgzf_roundtrip_reader :
  forall deflate inflate crc32, codec_laws deflate inflate crc32 ->
  forall lvl h, hdr_ok h ->
  forall script fuel,
    let s := run_writer fuel (script ++ [OpClose]) in
    sdone s = true ->
    let F := wr_file deflate crc32 lvl h s in
    wf_file F = true /\ F <> [] /\ addressable F = true
    /\ members_at (bgzf_member inflate crc32) (wr_out deflate crc32 lvl h s) F
    /\ flat_data F = written (script ++ [OpClose])
    /\ forall ch ops, Forall read_op ops ->
         snd (r_init F) = eNil /\
         exists l, r_run F ch (fst (r_init F)) ops = Ok l
                   /\ reads_ok (written (script ++ [OpClose])) 0 ops (rets l).
Proof. exact roundtrip_reader. Qed.
Print Assumptions bgzf_roundtrip_reader.

(** The sequential writer machine finishes every script (so the premise
    [sdone s = true] above can always be met). *)
Theorem writer_seq_terminates :
  forall script, exists fuel, sdone (run_writer fuel script) = true.
Proof. exact run_writer_terminates_ex. Qed.
Print Assumptions writer_seq_terminates.

(** Every writer concurrency wc, every schedule of the caller, the emitter
    and the compressor goroutines: when the caller has finished the script
    and the pipeline holds no block (always so after a successful Close, next
    theorem), the caller saw the same results and the underlying writer
    received exactly the chunks of the sequential writer. *)
Theorem writer_conc_refines_seq :
  forall deflate inflate crc32, codec_laws deflate inflate crc32 ->
  forall lvl h, hdr_ok h ->
  forall wc script sched fuel,
    let st := wr_conc deflate crc32 lvl h wc script sched in
    let sq := run_writer fuel script in
    cdone st = true -> sdone sq = true -> quiescent st ->
    x_api st = sq
    /\ x_out st = seq_chunks deflate crc32 bgzf_wr_patch_mode bgzf_wr_patch_guard bgzf_wr_overflow_check lvl h sq
    /\ out_bytes st = wr_out deflate crc32 lvl h sq.
Proof. exact writer_conc_refines_seq_gen. Qed.
Print Assumptions writer_conc_refines_seq.

Theorem closed_writer_is_quiescent :
  forall deflate inflate crc32, codec_laws deflate inflate crc32 ->
  forall lvl h, hdr_ok h ->
  forall wc script sched,
    let st := wr_conc deflate crc32 lvl h wc script sched in
    s_eof (x_api st) = true -> quiescent st.
Proof. exact closed_quiescent_gen. Qed.
Print Assumptions closed_writer_is_quiescent.

(** No deadlock: for every wc, script and schedule (fault-free underlying
    writer), in every reachable state in which the caller has not finished its
    script, the caller, the emitter or a compressor goroutine is enabled
    ([some_enabled]: the guards of the model's channel operations,
    Model/WriterEnabled.v; a thread that is not enabled does not move:
    [api_blocked_noop], [emit_blocked_noop]).  So no call of the script blocks
    for ever: the pipeline is never Stuck. *)
Theorem writer_conc_no_deadlock :
  forall deflate inflate crc32, codec_laws deflate inflate crc32 ->
  forall lvl h, hdr_ok h ->
  forall wc script sched,
    let st := wr_conc deflate crc32 lvl h wc script sched in
    cdone st = false -> some_enabled st.
Proof.
  exact (fun d i c laws lvl h ok wc script sched =>
           run_no_stuck d c bgzf_wr_patch_mode bgzf_wr_patch_guard bgzf_wr_overflow_check lvl h no_fault
                        (fun _ => eq_refl) (proj1 (proj2 laws)) gen_patch_at_12 (proj1 ok) (proj2 ok) wc script sched).
Qed.
Print Assumptions writer_conc_no_deadlock.

(** compressBound(BlockSize) <= MaxBlockSize on the regenerated constants, and
    under the size law no default-header member reaches 64 KiB: writeBlock
    succeeds on every block of at most BlockSize bytes. *)
Theorem member_fits :
  (exists v, bgzf_compressBound bgzf_BlockSize = Ok v /\ v <= bgzf_MaxBlockSize)
  /\ forall deflate inflate crc32, codec_laws deflate inflate crc32 ->
     forall lvl p, zlen p <= bgzf_BlockSize ->
       write_block deflate crc32 bgzf_wr_patch_mode bgzf_wr_patch_guard bgzf_wr_overflow_check lvl default_hdr [] p
       = Ok (member_of deflate crc32 lvl default_hdr p)
       /\ zlen (member_of deflate crc32 lvl default_hdr p) <= 65536.
Proof.
  exact (conj compress_bound_fits
           (fun d i c laws lvl p Hp => member_fits_gen d i c laws lvl p Hp default_hdr_ok)).
Qed.
Print Assumptions member_fits.

(** Non-vacuity: a concrete script finishes, sequentially and under a
    round-robin schedule with two extra compressors. *)
Example c01_run_finishes :
  sdone (run_writer 40 ([OpWrite [1; 2; 3]; OpFlush; OpWait; OpWrite [4]] ++ [OpClose])) = true
  /\ let dfl := fun (_ : Z) (d : list Z) => d ++ [0; 0] in
     let st := wr_conc dfl (fun _ => 0) 6 default_hdr 2 [OpWrite [1; 2; 3]; OpFlush; OpWait; OpWrite [4]; OpClose] (rr 30 3) in
     cdone st = true /\ s_eof (x_api st) = true /\ length (x_out st) = 3%nat.
Proof. vm_compute. auto. Qed.
