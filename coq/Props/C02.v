(** C02 — virtual offsets address the flat stream: Seek / Read / ReadByte /
    LastChunk of bgzf.Reader (rd = 1, no cache) obey the flat model.
    Statements only; proofs in Proofs/ReaderFlat.v and Proofs/ReaderStore.v.
    [r_run] is the model of bgzf/reader.go + bgzf/cache.go with blocks as store
    objects (Model/Reader.v), [flat_run] the specification (Model/Flat.v):
    a flat byte string with a cursor, a sticky end flag and the Blocked flag.
    A history is valid when every Seek goes to a block start plus an in-block
    offset up to the block's length and every Read has a non-negative size;
    [no_cache_op]: the history does not call SetCache (C03 covers those). *)
From Coq Require Import ZArith List Bool.
From Hts Require Import Base.Prim Model.Flat Model.Reader Model.ReaderAsync Proofs.ReaderFlat Proofs.ReaderStore
  Proofs.AsyncRefine.
Import ListNotations.
Open Scope Z_scope.

(** For every well-formed file (any number of members of 0..65536 data bytes,
    empty members anywhere, with or without EOF marker) and every valid
    history: NewReader succeeds, every call returns, the sequence of
    (bytes, error class) equals the flat reader's - so a read is short or
    empty only at the end of the data, or of a block in Blocked mode, and
    reports io.EOF there -, LastChunk().Begin translates to the cursor before
    the last successful read / seek, and, when every member's end is
    addressable (at most 65535 data bytes per member), LastChunk().End
    translates to the cursor after it.
    Partial: the End clause is not claimed for files with a 65536-byte member
    (see reader_refines_flat_refuted). *)
Theorem reader_refines_flat_partial :
  forall (F : file) (ch : list nat) (ops : list rop),
    wf_file F = true -> F <> [] -> Forall (valid_op F) ops -> forallb no_cache_op ops = true ->
    snd (r_init F) = eNil /\
    exists l, r_run F ch (fst (r_init F)) ops = Ok l /\
      rets l = map fst (flat_run F f_init ops) /\
      begins F l = map (fun y => fst (snd y)) (flat_run F f_init ops) /\
      (addressable F = true -> ends F l = map (fun y => snd (snd y)) (flat_run F f_init ops)).
Proof. exact r_refines_flat. Qed.
Print Assumptions reader_refines_flat_partial.

(** The same for the reader on block values (no store). *)
Theorem value_reader_refines_flat_partial :
  forall (F : file) (ops : list rop),
    wf_file F = true -> F <> [] -> Forall (valid_op F) ops ->
    snd (v_init F) = eNil /\
    exists l, v_run F (fst (v_init F)) ops = Ok l /\
      rets l = map fst (flat_run F f_init ops) /\
      begins F l = map (fun y => fst (snd y)) (flat_run F f_init ops) /\
      (addressable F = true -> ends F l = map (fun y => snd (snd y)) (flat_run F f_init ops)).
Proof. exact v_refines_flat. Qed.
Print Assumptions value_reader_refines_flat_partial.

(** The End clause fails for a member of 65536 bytes (legal in BGZF): after
    reading the whole member LastChunk().End translates to the start of the
    member (0), the flat cursor is 65536.  Recorded finding
    C02-end-of-65536-block-wraps; the witness is replayed on the code. *)
Theorem reader_refines_flat_refuted :
  exists F ops, wf_file F = true /\ F <> [] /\ Forall (valid_op F) ops /\ forallb no_cache_op ops = true /\
    run_ends F ops = Some [0] /\ map (fun y => snd (snd y)) (flat_run F f_init ops) = [65536].
Proof. exact end_65536_refuted. Qed.
Print Assumptions reader_refines_flat_refuted.

(** Every call of every valid history returns (the fuel of the loop that
    skips exhausted blocks and of the copy loop suffices: no Stuck, no Panic). *)
Theorem reader_calls_return :
  forall (F : file) (ch : list nat) (ops : list rop),
    wf_file F = true -> F <> [] -> Forall (valid_op F) ops -> forallb no_cache_op ops = true ->
    exists l, r_run F ch (fst (r_init F)) ops = Ok l /\ length l = length ops.
Proof. exact r_calls_return. Qed.
Print Assumptions reader_calls_return.

(** After any valid history, a Read that returned something (anything but
    "no bytes, io.EOF"), followed by Seek(LastChunk().Begin) and the same Read,
    returns the same bytes, the same error class and the same chunk
    positions.  Partial: stated for files whose members are addressable. *)
Theorem seek_begin_replays_partial :
  forall (F : file) (ch : list nat) (ops : list rop) (n : Z),
    wf_file F = true -> F <> [] -> addressable F = true ->
    Forall (valid_op F) ops -> forallb no_cache_op ops = true -> 0 <= n ->
    exists l o1 o2 o3,
      r_run F ch (fst (r_init F)) (ops ++ [ORead n; OReseek; ORead n]) = Ok (l ++ [o1; o2; o3]) /\
      (fst (obs_tr F o1) <> ([], eEOF) -> obs_tr F o3 = obs_tr F o1).
Proof. exact r_seek_begin_replays. Qed.
Print Assumptions seek_begin_replays_partial.

(** Non-vacuity: a three-member file with an empty member, and a history
    that crosses blocks, hits the end, seeks back and reads in Blocked mode. *)
Example c02_example :
  let F := [mkMember 0 30 [1; 2; 3]; mkMember 30 28 []; mkMember 58 31 [4; 5]] in
  let ops := [ORead 4; OByte; ORead 1; OSeek 0 1; OBlocked true; ORead 9; ORead 9] in
  wf_file F = true /\ Forall (valid_op F) ops /\
  match r_run F [] (fst (r_init F)) ops with
  | Ok l => map (obs_tr F) l = flat_run F f_init ops /\
            rets l = [([1; 2; 3; 4], 0); ([5], 0); ([], 1); ([], 0); ([], 0); ([2; 3], 1); ([4; 5], 1)]
  | _ => False
  end.
Proof.
  split; [reflexivity|]. split; [repeat constructor; vm_compute; try reflexivity; discriminate|].
  vm_compute. split; reflexivity.
Qed.

(** rd > 1, no cache: the reader with the read-ahead goroutine
    (Model/ReaderAsync.v: channels waiting / working / control, rd
    decompressors, the consumer's nextBlock loop and the redirect of Seek) under
    EVERY schedule - the schedule says how many read-ahead iterations run before
    each call and which branch a select with two ready channels takes; while a
    call blocks on a channel the read-ahead thread runs, so the consumer is
    always eventually scheduled.  For every well-formed file, rd >= 2, schedule
    and valid history without SetCache: NewReader succeeds, every call returns
    (no panic "unexpected block", no nil block, no deadlock) and the
    observations are those of the flat stream, exactly as for rd = 1.
    Proved through the invariant AInv (Proofs/AsyncRefine.v, [chinv] and
    [chan_ok]): the bases of the entries in working followed by what the
    read-ahead thread will still dispatch read "at most rd - 1 stale entries,
    then the NextBase chain from the block the consumer expects"; control full
    implies that the read-ahead thread polls it before its next dispatch; the rd
    decompressors are conserved.
    Partial: only as reader_refines_flat_partial is - the End clause is not
    claimed for files with a 65536-byte member.  Granularity of the model: one
    read-ahead iteration (take from waiting, poll / park on control, fetch, send
    to working) is atomic. *)
Theorem reader_async_refines_flat_partial :
  forall (F : file) (rd : nat) (ch sched : list nat) (ops : list rop),
    wf_file F = true -> F <> [] -> (2 <= rd)%nat -> Forall (valid_op F) ops -> forallb no_cache_op ops = true ->
    snd (a_init F rd sched) = eNil /\
    exists l, a_run F ch (fst (a_init F rd sched)) ops = Ok l /\
      rets l = map fst (flat_run F f_init ops) /\
      begins F l = map (fun y => fst (snd y)) (flat_run F f_init ops) /\
      (addressable F = true -> ends F l = map (fun y => snd (snd y)) (flat_run F f_init ops)).
Proof. exact async_refines_flat_proof. Qed.
Print Assumptions reader_async_refines_flat_partial.

(** rd > 1, no cache: under every schedule every call of every valid history
    returns - outcome 0 of (0 returned, 1 panic, 2 deadlock, 3 error). *)
Theorem reader_async_calls_return :
  forall (F : file) (rd : nat) (sched : list nat) (ops : list rop),
    wf_file F = true -> F <> [] -> (2 <= rd)%nat -> Forall (valid_op F) ops -> forallb no_cache_op ops = true ->
    a_outcome F rd sched ops = 0.
Proof. exact async_calls_return. Qed.
Print Assumptions reader_async_calls_return.
