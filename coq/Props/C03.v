(** C03 — block caches are transparent.
    Statements only; proofs in Proofs/CacheWitness.v (and Proofs/CacheSim.v).
    [r_run]: the rd = 1 reader with store objects and the functional models of
    bgzf/cache LRU / FIFO / Random (Model/Reader.v); [a_run]: the rd > 1
    reader, schedule-driven (Model/ReaderAsync.v). *)
From Coq Require Import ZArith List Bool.
From Hts Require Import Base.Prim Model.Flat Model.Reader Model.ReaderAsync Proofs.ReaderFlat Proofs.ReaderStore Proofs.CacheWitness.
Import ListNotations.
Open Scope Z_scope.

(** FIFO: the statement is false for the code as it is.  Ten members of two
    bytes, SetCache(FIFO(5)), read blocks 0,1,2, Seek(block 0), read blocks
    0..3, Seek(block 2), Read: the cached run returns block 3's payload, the
    uncached run block 2's.  (FIFO.Get leaves a used block indexed; the reader
    recycles it.)  Recorded finding C03-fifo-get-keeps-block; replayed on the code. *)
Theorem cache_transparent_sync_fifo_refuted :
  wf_file ten_blocks = true /\ Forall (valid_op ten_blocks) fifo_history /\
  last_ret ten_blocks [] fifo_history = Some ([6; 7], eNil) /\
  last_ret ten_blocks [] (strip_cache fifo_history) = Some ([4; 5], eNil).
Proof. exact fifo_witness. Qed.
Print Assumptions cache_transparent_sync_fifo_refuted.

(** rd > 1 with a cache: the statement is false.  rd = 2, LRU(2), a 15-byte
    member plus EOF marker; under the schedule that runs the read-ahead only
    when the consumer waits, the history ends in a deadlock (outcome 2), while
    the same history without SetCache returns (outcome 0) and so does the rd = 1
    reader with the cache.  Recorded finding C03-async-cache; replayed on the code. *)
Theorem cache_transparent_async_refuted :
  wf_file small_file = true /\ Forall (valid_op small_file) async_history /\
  a_outcome small_file 2 [0; 0; 0; 0; 0]%nat async_history = 2 /\
  a_outcome small_file 2 [0; 0; 0; 0; 0]%nat (strip_cache async_history) = 0 /\
  (exists l, run_rets small_file [] async_history = Some l).
Proof. exact async_witness. Qed.
Print Assumptions cache_transparent_async_refuted.
