(** C03 — block caches are transparent.
    Statements only; proofs in Proofs/CacheWitness.v (and Proofs/CacheSim.v).
    [r_run]: the rd = 1 reader with store objects and the functional models of
    bgzf/cache LRU / FIFO / Random (Model/Reader.v); [a_run]: the rd > 1
    reader, schedule-driven (Model/ReaderAsync.v). *)
From Coq Require Import ZArith List Bool.
From Hts Require Import Base.Prim Model.Flat Model.Reader Model.ReaderAsync Proofs.ReaderFlat Proofs.ReaderStore Proofs.CacheWitness Proofs.CacheSim Proofs.AsyncInv.
Import ListNotations.
Open Scope Z_scope.

(** rd = 1, LRU, FIFO and Random caches (a StatsRecorder around one behaves as
    its inner cache): for every well-formed file, every valid history with
    SetCache(kind, capacity) calls at arbitrary points - any capacity; a
    capacity below 1 yields no cache, as NewLRU/NewFIFO/NewRandom return nil -,
    and every choice list for Random's eviction victim: the run of the reader
    with store objects and the cache hooks (cacheSwap, cachePut, Peek chain,
    recycling of the current block) returns call by call exactly what the
    reader on block values returns, which ignores SetCache: the same bytes,
    error classes, LastChunk values and BlockLen values; and every call
    returns.  Invariant ([cache_ok], [csr] in Proofs/CacheSim.v): a cached block
    under key k holds the data of the member at k; block ids in the cache are
    distinct; for LRU and Random the current block is never in the cache; for
    FIFO it may be (Get keeps used blocks) but then Put answers (nil, false) and
    the reader allocates a new block instead of recycling it. *)
Theorem cache_transparent_sync :
  forall (F : file) (ch : list nat) (ops : list rop),
    wf_file F = true -> F <> [] -> Forall (valid_op F) ops ->
    r_run F ch (fst (r_init F)) ops = v_run F (fst (v_init F)) ops /\
    exists l, v_run F (fst (v_init F)) ops = Ok l /\ length l = length ops.
Proof. exact cache_transparent_sync_proof. Qed.
Print Assumptions cache_transparent_sync.

(** The cache models honour the contract the reader relies on (Get hands the
    block over and forgets it; Put retains or returns the block and evicts at
    most other entries; Peek knows exactly the keys held), for LRU, FIFO and Random
    in any state satisfying the invariant (FIFO: Get keeps a used block, Put of a
    block that is still indexed answers (nil, false)). *)
Theorem cache_models_honour_contract :
  forall F, get_contract F /\ put_contract F /\ peek_contract.
Proof. exact (fun F => conj (get_holds F) (conj (put_holds F) peek_holds)). Qed.
Print Assumptions cache_models_honour_contract.

(** rd > 1 with a cache: the statement is false.  rd = 2, LRU(2), a 15-byte
    member plus EOF marker; under the schedule that runs the read-ahead only
    when the consumer waits, the history ends in a deadlock (outcome 2), while
    the same history without SetCache returns (outcome 0) and so does the rd = 1
    reader with the cache.  Recorded finding C03-async-cache; replayed on the code. *)
Theorem cache_transparent_async_refuted :
  wf_file small_file = true /\ Forall (valid_op small_file) async_history /\
  a_outcome small_file 2 [0; 0; 0; 0; 0]%nat async_history = 2 /\
  a_outcome small_file 2 [0; 0; 0; 0; 0]%nat (strip_cache async_history) = 0 /\
  (exists l, run_rets small_file [] async_history = Some l).
Proof. exact async_witness. Qed.
Print Assumptions cache_transparent_async_refuted.

(** rd > 1, safety (holds for every file, cache, schedule and history, with
    or without a cache): the rd decompressors are conserved.  After any
    history that returned, every decompressor 0..rd-1 is in exactly one of
    waiting, working or the hands of the parked read-ahead thread, so neither
    channel (capacity rd) can overflow and no decompressor is used by two
    parties.  Partial: this is the first conjunct of the invariant AInv of
    DESIGN.md and it is all that survives with a cache; without a cache the
    full refinement of the flat model under every schedule is
    reader_async_refines_flat_partial in Props/C02.v, with a cache the
    refinement is false (above). *)
Theorem reader_async_safe_partial :
  forall (F : file) (ch : list nat) (rd : nat) (sched : list nat) (ops : list rop) (a' : astate),
    (1 <= rd)%nat -> a_exec F ch (fst (a_init F rd sched)) ops = Ok a' ->
    Permutation.Permutation (tokens a') (seq 0 rd) /\
    (length (a_waiting a') + length (a_working a') <= rd)%nat.
Proof. exact decompressors_conserved. Qed.
Print Assumptions reader_async_safe_partial.

(** Non-vacuity: histories with SetCache calls, evictions and re-visits, incl. the
    FIFO history that used to return block 3's payload. *)
Example c03_example :
  let F := ten_blocks in
  let ops := [OSetCache KLRU 2; ORead 3; OSeek 0 1; ORead 5; OSetCache KRandom 1; OSeek 60 0; ORead 100; OSeek 30 2; OByte;
              OSetCache KFIFO 2; OSeek 0 0; ORead 5; OSeek 0 0; ORead 7; OSeek 60 1; ORead 3] in
  Forall (valid_op F) ops /\
  r_run F [1; 0]%nat (fst (r_init F)) ops = v_run F (fst (v_init F)) ops /\
  last_ret F [] fifo_history = Some ([4; 5], eNil).
Proof.
  cbv zeta. split; [repeat constructor; vm_compute; try reflexivity; discriminate|].
  split; vm_compute; reflexivity.
Qed.
