(** C04 — index queries are complete: every added record that overlaps a
    query lies in a chunk returned by Chunks (BAI, tabix, CSI).
    Statements only; proofs in Proofs/Index.v, Proofs/TabixIdx.v, Proofs/CsiIdx.v.
    Models: Model/Index.v, Model/Tabix.v, Model/Csi.v (validated against the
    implementation on every run); specification vocabulary: Model/IndexSpec.v.

    Premises that other properties discharge appear as explicit hypotheses:
    [bai_bin_containment] / [csi_bin_containment] (C16), [ix_strategy_covers s] (C17). *)
From Coq Require Import ZArith List Bool Lia.
From Hts Require Import Base.Prim Generated Model.Index Model.Tabix Model.Csi Model.IndexSpec Model.TabixSpec
  Proofs.Index Proofs.TabixIdx Proofs.CsiIdx.
Open Scope Z_scope.

(** BAI: for every coordinate-sorted, in-range record list with a monotone
    chunk layout (unplaced records anywhere), adding all records to the empty
    index succeeds — no error, no panic — and for every query inside the
    indexable range: every added record overlapping the query is covered by a
    chunk of the answer; an error or an empty answer implies that no added
    record overlaps the query. *)
Theorem bai_complete :
  bai_bin_containment ->
  forall rs, ix_wf rs -> ix_bins_ok rs ->
  exists ix, ix_fold_add ix_empty rs = Ok ix /\
    forall rid beg end_, 0 <= beg < end_ -> end_ <= 2 ^ 29 ->
      (forall r, In r rs -> ix_overlaps r rid beg end_ ->
         exists cs, fst (ix_chunks ix rid beg end_) = Ok cs /\ ix_covers cs r) /\
      (fst (ix_chunks ix rid beg end_) = Ok [] \/ (exists e, fst (ix_chunks ix rid beg end_) = Err e) ->
         forall r, In r rs -> ~ ix_overlaps r rid beg end_).
Proof. exact bai_complete_gen. Qed.
Print Assumptions bai_complete.

(** The same in every state reachable from the built index by sorting
    (Chunks, WriteIndex), by earlier queries, and by MergeChunks with any
    strategy that keeps every chunk of a sorted list inside one output chunk
    (any number of times, in any order). *)
Theorem bai_complete_merged :
  bai_bin_containment ->
  forall rs ix, ix_wf rs -> ix_bins_ok rs -> reach rs ix ->
  forall rid beg end_ r, 0 <= beg < end_ -> end_ <= 2 ^ 29 ->
    In r rs -> ix_overlaps r rid beg end_ ->
    exists cs, fst (ix_chunks ix rid beg end_) = Ok cs /\ ix_covers cs r.
Proof. exact bai_complete_reach. Qed.
Print Assumptions bai_complete_merged.

(** tabix: names get dense ids in order of first appearance ([tb_assign]); if
    the record list seen that way is well formed, adding every (name, record)
    pair succeeds and every query by name covers each overlapping record.
    PARTIAL: stated for the index as built (the states after MergeChunks and
    after write/read are covered for the shared core by [bai_complete_merged],
    but the lifting through the name table is not proved). *)
Theorem tabix_complete_partial :
  bai_bin_containment ->
  forall hdr nrs, ix_wf (tb_assign [] nrs) ->
  exists t, tb_fold_add (tb_new hdr) nrs = Ok t /\
    forall beg end_, 0 <= beg < end_ -> end_ <= 2 ^ 29 ->
    forall nm r', In (nm, r') (combine (map fst nrs) (tb_assign [] nrs)) ->
      ix_overlaps r' (q_rid r') beg end_ ->
      exists cs, fst (tb_chunks t nm beg end_) = Ok cs /\ ix_covers cs r'.
Proof. exact tabix_complete_gen. Qed.
Print Assumptions tabix_complete_partial.

(** CSI, for EVERY (minShift, depth) (premise [csi_bin_containment ms dp] = C16's
    [csi_bin_in_bins] for that scheme), any auxiliary data and version: adding a
    well-formed list (coordinates up to the scheme's limit) succeeds; the chunk
    list Chunks hands to its merge step covers every overlapping record; an
    empty answer implies no overlap.
    PARTIAL: the states after MergeChunks and after write/read are not proved
    for CSI (validated by the correspondence run and the oracle only). *)
Theorem csi_complete_partial :
  forall ms dp, csi_bin_containment ms dp ->
  forall aux ver rs, ix_wf_from (cs_limit ms dp) (-1) 0 0 rs ->
  exists ix, cs_fold_add (mkCsi aux ver [] None ms dp false 0) rs = Ok ix /\
    forall rid beg end_, 0 <= beg < end_ -> end_ <= cs_limit ms dp + 2 ->
      (forall r, In r rs -> ix_overlaps r rid beg end_ ->
         ix_covers (fst (cs_chunks ix rid beg end_)) r) /\
      (fst (cs_chunks ix rid beg end_) = [] -> forall r, In r rs -> ~ ix_overlaps r rid beg end_).
Proof. exact csi_complete_gen. Qed.
Print Assumptions csi_complete_partial.

(** Non-vacuity for CSI (default geometry): the record that the unrepaired
    reg2bin filed under an unreachable bin. *)
Example csi_one :
  let rs := [mkRec 0 0 16389 0 100 200 true true] in
  ix_wf_from (cs_limit 14 5) (-1) 0 0 rs /\
  exists ix, cs_fold_add (cs_new 14 5 2 []) rs = Ok ix /\ fst (cs_chunks ix 0 10 20) = [(100, 200)].
Proof.
  split.
  - assert (E : cs_limit 14 5 = 536870910) by (vm_compute; reflexivity). rewrite E.
    simpl. repeat split; try lia; intros; lia.
  - eexists. split; [vm_compute; reflexivity|]. vm_compute. reflexivity.
Qed.

(** Non-vacuity: the sorted pair that made the unrepaired Add panic, and the
    query that missed a record, on the model. *)
Example bai_pair :
  let rs := [mkRec 0 0 16389 585 100 200 true true; mkRec 0 16390 16394 4682 200 300 true true] in
  ix_wf rs /\ ix_bins_ok rs /\
  exists ix, ix_fold_add ix_empty rs = Ok ix /\ fst (ix_chunks ix 0 16385 16387) = Ok [(100, 200); (200, 300)].
Proof.
  split; [|split].
  - unfold ix_wf, ix_bai_limit. change (2 ^ internal_indexWordBits - 2) with 536870910.
    simpl. repeat split; try lia; intros; lia.
  - repeat constructor.
  - eexists. split; [vm_compute; reflexivity|]. vm_compute. reflexivity.
Qed.
