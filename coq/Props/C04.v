(** C04 — index queries are complete: every added record that overlaps a
    query lies in a chunk returned by Chunks (BAI, tabix, CSI).
    Statements only; proofs in Proofs/Index.v, TabixIdx.v, TabixLift.v,
    CsiIdx.v, CsiLift.v, IndexPremises.v, CsiPremise.v, IndexFinal.v.
    Models: Model/Index.v, Model/Tabix.v, Model/Csi.v (validated against the
    implementation on every run); specification vocabulary: Model/IndexSpec.v,
    Model/TabixSpec.v.

    The bin-containment facts are C16's theorems (Proofs/Bins.v) transported
    to these models; [ix_strategy_covers s] (every chunk of a list sorted by
    begin lies inside one chunk of [s l]) is proved for the four provided
    strategies in [provided_strategies_cover]. *)
From Coq Require Import ZArith List Bool Lia.
From Hts Require Import Base.Prim Generated Model.Index Model.Tabix Model.Csi Model.IndexSpec Model.TabixSpec
  Model.IndexIO Proofs.Index Proofs.TabixIdx Proofs.CsiIdx Proofs.TabixLift Proofs.CsiLift
  Proofs.IndexSort Proofs.IndexPremises Proofs.CsiPremise Proofs.IndexIOFull Proofs.IndexFinal Proofs.TabixIO
  Proofs.CsiIO Proofs.IndexFinal2 Proofs.IndexHist Proofs.CsiGen.
Open Scope Z_scope.

(** "Adding records in sorted order never fails or panics."  The hypotheses
    are exactly [ix_wf]: coordinate sorted per reference id, every position in
    the indexable range (start <= 2^29 - 2; the exclusive end may be 2^29 - 1),
    monotone chunk layout; placed-unmapped records are ordinary records of
    length one, unplaced records (Pos = -1, End = 0) may appear anywhere.  No
    hypothesis about the bin number passed to Add. *)
Theorem bai_add_never_fails :
  forall rs, ix_wf rs -> exists ix, ix_fold_add ix_empty rs = Ok ix.
Proof. exact bai_add_total. Qed.
Print Assumptions bai_add_never_fails.

(** The same for CSI with any geometry, aux and version (limit 2^(minShift+3*depth) - 2). *)
Theorem csi_add_never_fails :
  forall ms dp aux ver rs, ix_wf_from (cs_limit ms dp) (-1) 0 0 rs ->
    exists ix, cs_fold_add (mkCsi aux ver [] None ms dp false 0) rs = Ok ix.
Proof. exact csi_add_total. Qed.
Print Assumptions csi_add_never_fails.

(** The hypotheses are satisfiable at the boundary: a mapped record ending on
    the last indexable base (2^29 - 2, exclusive end 2^29 - 1), a
    placed-unmapped record ON the last indexable position, an unplaced record
    in between and one at the end; Add accepts them all (the model computes
    the result; the unrepaired range test refused the first two). *)
Example bai_add_at_the_limit :
  let rs := [mkRec 0 536870000 536870911 4680 100 200 true true;
             mkRec (-1) (-1) 0 4680 200 250 false false;
             mkRec 0 536870910 536870911 37448 250 300 true false;
             mkRec (-1) (-1) 0 4680 300 400 false false] in
  ix_wf rs /\
  match ix_fold_add ix_empty rs with
  | Ok ix => ix_numrefs ix = 1 /\ iunm ix = Some 2 /\ zlen (rintv (nth 0 (irefs ix) ix_empty_ref)) = 32768
  | _ => False
  end.
Proof.
  split.
  - unfold ix_wf, ix_bai_limit. change (2 ^ internal_indexWordBits - 2) with 536870910.
    simpl. repeat split; try lia; intros; lia.
  - vm_compute. repeat split; reflexivity.
Qed.

(** BAI: for every coordinate-sorted, in-range record list with a monotone
    chunk layout (unplaced records anywhere), adding all records to the empty
    index succeeds — no error, no panic — and for every query inside the
    indexable range: every added record overlapping the query is covered by a
    chunk of the answer; an error or an empty answer implies that no added
    record overlaps the query. *)
Theorem bai_complete :
  forall rs, ix_wf rs -> ix_bins_ok rs ->
  exists ix, ix_fold_add ix_empty rs = Ok ix /\
    forall rid beg end_, 0 <= beg < end_ -> end_ <= 2 ^ 29 ->
      (forall r, In r rs -> ix_overlaps r rid beg end_ ->
         exists cs, fst (ix_chunks ix rid beg end_) = Ok cs /\ ix_covers cs r) /\
      (fst (ix_chunks ix rid beg end_) = Ok [] \/ (exists e, fst (ix_chunks ix rid beg end_) = Err e) ->
         forall r, In r rs -> ~ ix_overlaps r rid beg end_).
Proof. exact (bai_complete_gen bai_bin_containment_holds). Qed.
Print Assumptions bai_complete.

(** The same in every state reachable from the built index by sorting
    (Chunks, WriteIndex), by earlier queries, and by MergeChunks with any
    covering strategy, any number of times, in any order ([reach]). *)
Theorem bai_complete_merged :
  forall rs ix, ix_wf rs -> ix_bins_ok rs -> reach rs ix ->
  forall rid beg end_ r, 0 <= beg < end_ -> end_ <= 2 ^ 29 ->
    In r rs -> ix_overlaps r rid beg end_ ->
    exists cs, fst (ix_chunks ix rid beg end_) = Ok cs /\ ix_covers cs r.
Proof. exact (bai_complete_reach bai_bin_containment_holds). Qed.
Print Assumptions bai_complete_merged.

(** Identity, Adjacent, Squash and every Compressor are covering strategies
    (so [reach] includes MergeChunks with each of them, and the public Chunks,
    which applies Adjacent to the raw answer, keeps the coverage). *)
Theorem strategies_cover :
  ix_strategy_covers (fun l => l) /\ ix_strategy_covers ix_adjacent /\ ix_strategy_covers ix_squash /\
  forall near, ix_strategy_covers (ix_compressor near).
Proof. exact provided_strategies_cover. Qed.
Print Assumptions strategies_cover.

(** The public Chunks applies the index's MergeStrategy (nil = Adjacent) to the
    raw answer at query time.  For EVERY covering strategy — in particular the
    four provided ones, [strategies_cover] — and every reachable state, the
    public answer still contains ONE chunk covering each overlapping record
    (chunks of bins of different levels may be nested here, e.g. after
    MergeChunks(Squash) a high-level bin's chunk encloses a leaf bin's chunk). *)
Theorem bai_complete_public :
  forall s, ix_strategy_covers s ->
  forall rs ix, ix_wf rs -> ix_bins_ok rs -> reach rs ix ->
  forall rid beg end_ r, 0 <= beg < end_ -> end_ <= 2 ^ 29 ->
    In r rs -> ix_overlaps r rid beg end_ ->
    exists cs, fst (ix_chunks ix rid beg end_) = Ok cs /\ ix_covers (s cs) r.
Proof. exact bai_complete_public_gen. Qed.
Print Assumptions bai_complete_public.

(** Interleaved histories ([hist rs ix]: starting from the empty index, any
    sequence of successful Add, sort (= WriteIndex) and Chunks calls, [rs] being
    the records added so far in order).  In EVERY state of such a history:
    the next record of a well-formed list is accepted (no error, no panic),
    every query covers every overlapping record added so far, and so does the
    index after a covering MergeChunks.  The IsSorted flag is part of the
    state: Add clears it exactly where the code does (new bin, new tiles) and
    Chunks bisects the bin list as coded. *)
Theorem bai_complete_history :
  forall rs ix, hist rs ix ->
    (forall r, ix_wf (rs ++ [r]) -> exists ix', ix_add ix r = Ok ix') /\
    (ix_wf rs -> ix_bins_ok rs ->
     forall s, ix_strategy_covers s ->
     forall rid beg end_ r, 0 <= beg < end_ -> end_ <= 2 ^ 29 ->
       In r rs -> ix_overlaps r rid beg end_ ->
       (exists cs, fst (ix_chunks ix rid beg end_) = Ok cs /\ ix_covers cs r) /\
       (exists cs, fst (ix_chunks (ix_merge s ix) rid beg end_) = Ok cs /\ ix_covers cs r)).
Proof. exact (fun rs ix H => conj (fun r W => hist_add_total rs ix r H W) (hist_complete rs ix H)). Qed.
Print Assumptions bai_complete_history.

(** The query validation of Chunks (merged main): a negative begin or an end
    before the begin is ErrInvalid and leaves the index untouched; an end
    beyond 2^29 is cut back. *)
Theorem bai_query_validation :
  forall ix rid beg end_, 0 <= rid < zlen (irefs ix) ->
    ((beg < 0 \/ end_ < beg) -> ix_chunks ix rid beg end_ = (Err 2, ix)) /\
    (0 <= beg <= 2 ^ 29 -> 2 ^ 29 <= end_ -> ix_chunks ix rid beg end_ = ix_chunks ix rid beg (2 ^ 29)).
Proof. exact bai_query_validation_gen. Qed.
Print Assumptions bai_query_validation.

(** After WriteIndex and ReadIndex (byte level): the bytes written for the
    built index are read back as [bai_reread ix], which still covers every
    overlapping record.  [idx_ranges]: offsets and counters fit their fields. *)
Theorem bai_complete_after_write_read :
  forall rs ix, ix_wf rs -> ix_bins_ok rs -> ix_fold_add ix_empty rs = Ok ix -> idx_ranges ix ->
    bai_read (fst (bai_write ix)) = Ok (Some (bai_reread ix)) /\
    forall rid beg end_ r, 0 <= beg < end_ -> end_ <= 2 ^ 29 ->
      In r rs -> ix_overlaps r rid beg end_ ->
      exists cs, fst (ix_chunks (bai_reread ix) rid beg end_) = Ok cs /\ ix_covers cs r.
Proof. exact bai_complete_after_io. Qed.
Print Assumptions bai_complete_after_write_read.

(** tabix: names get dense ids in order of first appearance ([tb_assign]); if
    the record list seen that way is well formed, adding every (name, record)
    pair succeeds, and in the built index and every state of its core
    reachable by sort / queries / covering MergeChunks, every query by name
    covers each overlapping record. *)
Theorem tabix_complete :
  forall hdr nrs, ix_wf (tb_assign [] nrs) ->
  exists t, tb_fold_add (tb_new hdr) nrs = Ok t /\ reach (tb_assign [] nrs) (t_idx t) /\
    forall ix', reach (tb_assign [] nrs) ix' ->
    forall beg end_, 0 <= beg < end_ -> end_ <= 2 ^ 29 ->
    forall nm r', In (nm, r') (combine (map fst nrs) (tb_assign [] nrs)) ->
      ix_overlaps r' (q_rid r') beg end_ ->
      exists cs, fst (tb_chunks (tb_with t ix') nm beg end_) = Ok cs /\ ix_covers cs r'.
Proof. exact (tabix_complete_reach_gen bai_bin_containment_holds). Qed.
Print Assumptions tabix_complete.

(** tabix after WriteTo and ReadFrom (byte level; [tbx_fits]: header values,
    names without NUL bytes and pairwise different, one name per reference,
    numbers fit their fields): the bytes are read back as [tbx_reread t], which
    writes to the same bytes, answers every query by name like [t], and covers
    every overlapping record. *)
Theorem tabix_complete_after_write_read :
  forall hdr nrs, ix_wf (tb_assign [] nrs) ->
  exists t, tb_fold_add (tb_new hdr) nrs = Ok t /\
    (tbx_fits t ->
     tbx_read (fst (tbx_write t)) = Ok (Some (tbx_reread t)) /\
     fst (tbx_write (tbx_reread t)) = fst (tbx_write t) /\
     (forall nm beg end_, fst (tb_chunks (tbx_reread t) nm beg end_) = fst (tb_chunks t nm beg end_)) /\
     forall beg end_, 0 <= beg < end_ -> end_ <= 2 ^ 29 ->
     forall nm r', In (nm, r') (combine (map fst nrs) (tb_assign [] nrs)) ->
       ix_overlaps r' (q_rid r') beg end_ ->
       exists cs, fst (tb_chunks (tbx_reread t) nm beg end_) = Ok cs /\ ix_covers cs r').
Proof. exact tabix_complete_io_gen. Qed.
Print Assumptions tabix_complete_after_write_read.

(** CSI, for EVERY geometry whose bin numbers fit 32 bits (depth <= 10,
    minShift + 3*depth <= 62), any auxiliary data and version: adding a
    well-formed list (coordinates up to the scheme's limit) succeeds; the chunk
    list Chunks hands to its merge step covers every overlapping record; an
    empty answer implies no overlap. *)
Theorem csi_complete :
  forall ms dp, 0 <= ms -> 0 <= dp <= 10 -> ms + 3 * dp <= 62 ->
  forall aux ver rs, ix_wf_from (cs_limit ms dp) (-1) 0 0 rs ->
  exists ix, cs_fold_add (mkCsi aux ver [] None ms dp false 0) rs = Ok ix /\
    forall rid beg end_, 0 <= beg < end_ -> end_ <= cs_limit ms dp + 2 ->
      (forall r, In r rs -> ix_overlaps r rid beg end_ ->
         ix_covers (fst (cs_chunks ix rid beg end_)) r) /\
      (fst (cs_chunks ix rid beg end_) = [] -> forall r, In r rs -> ~ ix_overlaps r rid beg end_).
Proof.
  exact (fun ms dp H1 H2 H3 => csi_complete_gen ms dp (csi_bin_containment_holds ms dp H1 H2 H3) (csi_geo_ok ms dp H1 H2 H3)).
Qed.
Print Assumptions csi_complete.

(** CSI in every state reachable by sort, earlier queries and covering
    MergeChunks ([creach]). *)
Theorem csi_complete_merged :
  forall ms dp, 0 <= ms -> 0 <= dp <= 10 -> ms + 3 * dp <= 62 ->
  forall aux ver rs ix, ix_wf_from (cs_limit ms dp) (-1) 0 0 rs -> creach ms dp aux ver rs ix ->
  forall rid beg end_ r, 0 <= beg < end_ -> end_ <= cs_limit ms dp + 2 ->
    In r rs -> ix_overlaps r rid beg end_ ->
    ix_covers (fst (cs_chunks ix rid beg end_)) r.
Proof.
  exact (fun ms dp H1 H2 H3 => csi_complete_reach_gen ms dp (csi_bin_containment_holds ms dp H1 H2 H3) (csi_geo_ok ms dp H1 H2 H3)).
Qed.
Print Assumptions csi_complete_merged.

(** CSI after WriteTo and ReadFrom (byte level, versions 1 and 2, any aux
    bytes; [csi_ranges]: version 1 or 2, a geometry the reader accepts —
    depth <= 9 —, numbers fit their fields): the bytes are read back as
    [cs_reread ix] (the sorted index; version 1 does not store the per-bin
    record counts, they come back as 0), which covers every overlapping record. *)
Theorem csi_complete_after_write_read :
  forall ms dp, 0 <= ms -> 0 <= dp <= 10 -> ms + 3 * dp <= 62 ->
  forall aux ver rs ix, ix_wf_from (cs_limit ms dp) (-1) 0 0 rs ->
    cs_fold_add (mkCsi aux ver [] None ms dp false 0) rs = Ok ix -> csi_ranges ix ->
    csi_read (fst (csi_write ix)) = Ok (Some (cs_reread ix)) /\
    forall rid beg end_ r, 0 <= beg < end_ -> end_ <= cs_limit ms dp + 2 ->
      In r rs -> ix_overlaps r rid beg end_ ->
      ix_covers (fst (cs_chunks (cs_reread ix) rid beg end_)) r.
Proof. exact csi_complete_after_io. Qed.
Print Assumptions csi_complete_after_write_read.

(** [Index.sort] also sorts the linear-index tile offsets, which moves the
    zero (empty) tiles to the front and shifts the offsets to later tiles: the
    tiles no longer mean what the format says, but pruning only gets weaker.
    For every tile list: the length is kept; if the first n tiles are at most v
    they still are after sorting (this is what completeness needs); and when no
    tile is negative the result is literally "all zero tiles, then the non-zero
    ones in ascending order". *)
Theorem sort_moves_zero_tiles_to_front_harmlessly :
  forall l : list Z,
    length (ix_sort_intv l) = length l /\
    (forall v n, (n <= length l)%nat -> prefix_le v n l -> prefix_le v n (ix_sort_intv l)) /\
    (forallb (fun x => 0 <=? x) l = true ->
     ix_sort_intv l = filter (fun x => x =? 0) l ++ ix_isort (fun x => x) (filter (fun x => negb (x =? 0)) l)).
Proof. exact sort_tiles_facts. Qed.
Print Assumptions sort_moves_zero_tiles_to_front_harmlessly.

Example sort_tiles_example : ix_sort_intv [100; 0; 0; 300; 0; 400] = [0; 0; 0; 100; 300; 400].
Proof. reflexivity. Qed.

(** The bin under which the CSI index model files a record ([cs_reg2bin]) is
    the loop of csi.reg2bin as gen/ translates it from csi/csi.go on every
    run, for every interval, geometry and every fuel above the depth: a change
    to that loop in the source changes [csigen_reg2bin] and this theorem (and
    with it the completeness theorems about [cs_reg2bin]) has to be re-proved. *)
Theorem csi_index_bin_is_translated_loop :
  forall beg e ms depth k,
    0 <= depth < 2 ^ 32 -> - 2 ^ 63 < e <= 2 ^ 63 ->
    csigen_reg2bin (S (Z.to_nat depth) + k) beg e ms depth = Ok (cs_reg2bin beg e ms depth).
Proof. exact csigen_reg2bin_is_cs. Qed.
Print Assumptions csi_index_bin_is_translated_loop.

(** Non-vacuity for CSI (default geometry): the record that the unrepaired
    reg2bin filed under an unreachable bin. *)
Example csi_one :
  let rs := [mkRec 0 0 16389 0 100 200 true true] in
  ix_wf_from (cs_limit 14 5) (-1) 0 0 rs /\
  exists ix, cs_fold_add (cs_new 14 5 2 []) rs = Ok ix /\ fst (cs_chunks ix 0 10 20) = [(100, 200)].
Proof.
  split.
  - assert (E : cs_limit 14 5 = 536870910) by (vm_compute; reflexivity). rewrite E.
    simpl. repeat split; try lia; intros; lia.
  - eexists. split; [vm_compute; reflexivity|]. vm_compute. reflexivity.
Qed.

(** Non-vacuity: the sorted pair that made the unrepaired Add panic, and the
    query that missed a record, on the model. *)
Example bai_pair :
  let rs := [mkRec 0 0 16389 585 100 200 true true; mkRec 0 16390 16394 4682 200 300 true true] in
  ix_wf rs /\ ix_bins_ok rs /\
  exists ix, ix_fold_add ix_empty rs = Ok ix /\ fst (ix_chunks ix 0 16385 16387) = Ok [(100, 200); (200, 300)].
Proof.
  split; [|split].
  - unfold ix_wf, ix_bai_limit. change (2 ^ internal_indexWordBits - 2) with 536870910.
    simpl. repeat split; try lia; intros; lia.
  - repeat constructor.
  - eexists. split; [vm_compute; reflexivity|]. vm_compute. reflexivity.
Qed.
