(** C05 — BAM encoding round trip: Writer -> Reader reproduces header and
    every record field; the bytes are those of an encoder written from the
    SAM specification except for the bin field; Omit modes return the same
    records minus exactly the omitted parts.
    Statements only; proofs are in Proofs/Bam*.v.  [encode_record],
    [decode_record], [read_stream] ... are the model of bam.Writer.Write,
    bam.Reader.Read, newBuffer/Read loop (Model/BamCodec.v); they interpret
    tables and field skeletons regenerated from the Go source (Generated.v). *)
From Coq Require Import ZArith List Bool.
From Hts Require Import Base.Prim Generated Model.BamCodec Model.BamSpec
  Proofs.BamAux Proofs.BamRecord Proofs.BamStream Proofs.BamProps Proofs.BamSpecEq Proofs.BamSeq.
Import ListNotations.
Open Scope Z_scope.

(** Every valid record (name 1..254 bytes without NUL, references in the
    header or nil, int32 positions, <= 65535 CIGAR operations of any type,
    len Seq = (L+1)/2, qualities absent or of length L, aux fields well formed
    for A c C s S i I f Z H B, block size below 2^31): Write emits the block
    size and a block, and Read on that block returns [canon r] (absent
    qualities as L bytes 0xff), retaining nothing of the shared buffer,
    whichever buffer was used. *)
Theorem bam_record_roundtrip :
  forall nrefs r shared,
    valid_rec nrefs r = true ->
    exists body,
      encode_record r = Ok (le_put 4 (zlen body) ++ body) /\
      zlen body = block_size r /\
      decode_record bam_None nrefs shared body = Ok (canon r, false).
Proof. exact record_roundtrip. Qed.
Print Assumptions bam_record_roundtrip.

(** Header and records: the stream the writer produces is read back as the
    same header, the records in order (under any Omit mode) and a clean EOF;
    by induction on the record list. *)
Theorem bam_stream_roundtrip :
  forall h rs omit,
    valid_hdr h = true -> forallb (valid_rec (zlen (h_refs h))) rs = true ->
    exists bs,
      encode_stream h rs = Ok bs /\
      read_stream omit bs = Ok (h, (map (fun r => (omit_view omit (canon r), false)) rs, EndEOF)).
Proof. exact stream_roundtrip. Qed.
Print Assumptions bam_stream_roundtrip.

(** The binary header frame alone (text opaque), followed by anything. *)
Theorem bam_header_roundtrip :
  forall h rest, valid_hdr h = true -> decode_header (encode_header h ++ rest) = Ok (h, rest).
Proof. exact header_roundtrip. Qed.
Print Assumptions bam_header_roundtrip.

(** Omit modes: AuxTags returns canon r without the aux fields,
    AllVariableLengthData additionally without sequence and qualities
    (Seq.Length 0, nil slices); nothing else changes. *)
Theorem bam_omit :
  forall nrefs r shared,
    valid_rec nrefs r = true ->
    exists body,
      encode_record r = Ok (le_put 4 (zlen body) ++ body) /\
      decode_record bam_None nrefs shared body = Ok (canon r, false) /\
      decode_record bam_AuxTags nrefs shared body
        = Ok (mkRec (r_name r) (r_ref r) (r_pos r) (r_mapq r) (r_cigar r) (r_flags r) (r_mref r) (r_mpos r)
                    (r_tlen r) (r_lseq r) (r_seq r) (Some (qual_bytes r)) [], false) /\
      decode_record bam_AllVariableLengthData nrefs shared body
        = Ok (mkRec (r_name r) (r_ref r) (r_pos r) (r_mapq r) (r_cigar r) (r_flags r) (r_mref r) (r_mpos r)
                    (r_tlen r) 0 [] None [], false).
Proof. exact omit_modes. Qed.
Print Assumptions bam_omit.

(** The encoder's bytes are the specification's bytes for the record read as
    specification values ([abs]: operation length/type pairs, base codes,
    typed aux values), for some value of the bin field; so the two differ at
    most in bytes 14..15 (bytes 10..11 of the block). *)
Theorem bam_encode_is_spec :
  forall nrefs r,
    valid_rec nrefs r = true -> pad_ok r = true ->
    exists bin, 0 <= bin < 65536 /\ encode_record r = Ok (spec_encode (abs bin r)).
Proof. exact encode_is_spec. Qed.
Print Assumptions bam_encode_is_spec.

Theorem bam_spec_bin_only :
  forall s b b', 0 <= b < 65536 -> 0 <= b' < 65536 ->
    mask_bin (spec_encode (set_bin b s)) = mask_bin (spec_encode (set_bin b' s)).
Proof. exact spec_bin_only. Qed.
Print Assumptions bam_spec_bin_only.

(** The shared-vs-private buffer decision (block size <= 4096) does not
    influence the result on any input, and no record returned by Read retains
    a slice of storage the reader reuses for a later record: not of the inline
    buffer (the block is marked shared and bytes() copies), and not of a long
    record's block (newBuffer allocates it in the call: every long record has
    its own allocation).  These three facts are read off newBuffer and
    buffer.bytes by gen ([bam_newBuffer_private_fresh],
    [bam_newBuffer_inline_shared], [bam_buffer_bytes_copies]); the second
    component of the result is [storage_reused shared] for a record that
    keeps Seq/Qual/aux slices. *)
Theorem shared_buffer_irrelevant :
  (forall omit nrefs data, decode_record omit nrefs true data = decode_record omit nrefs false data) /\
  (forall omit nrefs sh data res, decode_record omit nrefs sh data = Ok res -> snd res = false).
Proof. split; [exact shared_irrelevant_all_inputs|exact no_alias]. Qed.
Print Assumptions shared_buffer_irrelevant.

(** Reader.Read on one block is total on byte strings: a record or an error,
    never a panic, never non-termination (holds since the repairs "bam Reader
    reports a record block shorter than its length fields" and "bam parseAux
    checks each optional field against the end of the record"; before them
    the model had a panic that depended on the spare capacity of the buffer
    copy and a non-terminating aux input). *)
Theorem bam_decode_total :
  forall omit nrefs shared data, all_bytes data = true ->
    (exists r, decode_record omit nrefs shared data = Ok r) \/ (exists e, decode_record omit nrefs shared data = Err e).
Proof. exact decode_total. Qed.
Print Assumptions bam_decode_total.

Theorem parse_aux_total :
  forall aux, all_bytes aux = true -> (exists r, parse_aux aux = Ok r) \/ (exists e, parse_aux aux = Err e).
Proof. exact BamAux.parse_aux_total. Qed.
Print Assumptions parse_aux_total.

(** The inputs that showed the two former defects are now rejected. *)
Example former_defect_inputs :
  decode_record 0 0 true cut_aux_record = Err 23 /\ decode_record 0 0 false cut_aux_record = Err 23
  /\ parse_aux stuck_aux = Err 25.
Proof. exact former_witnesses. Qed.

(** Nybble packing (sam.NewSeq / Seq.Expand over the generated tables). *)
Theorem seq_pack_roundtrip :
  forall s, all_bytes s = true ->
    expand (zlen s) (contract s) = Ok (map (fun b => getz sam_n16TableRev (getz sam_n16Table b)) s)
    /\ zlen (contract s) = (zlen s + 1) / 2
    /\ all_bytes (contract s) = true.
Proof. exact seq_roundtrip. Qed.
Print Assumptions seq_pack_roundtrip.

Theorem seq_codes_fixed :
  forall i, 0 <= i < 16 -> getz sam_n16Table (getz sam_n16TableRev i) = i.
Proof. exact n16_codes_fixed. Qed.
Print Assumptions seq_codes_fixed.

(** A sequence packed by sam.NewSeq has a zero pad nybble, so records built
    with it satisfy the [pad_ok] premise of [bam_encode_is_spec]. *)
Theorem seq_newseq_pad_ok :
  forall s, all_bytes s = true -> Z.odd (zlen s) = true -> last (contract s) 0 mod 16 = 0.
Proof. exact contract_pad. Qed.
Print Assumptions seq_newseq_pad_ok.

(** sam.NewAux (binary aux layout) for every typed value except Hex: what
    buildAux writes for the field is the specification's encoding of the
    value (integers in two's complement at the width of the type, strings
    NUL-terminated, arrays with subtype and count). *)
Theorem new_aux_is_spec_partial :
  forall t1 t2 t sub v l,
    t <> 72 ->
    (0 < spec_width t \/ t = 90 \/ (t = 66 /\ 0 < spec_width sub /\ zlen l < 2 ^ 32)) ->
    build_aux [new_aux t1 t2 t sub v l] = Ok (spec_aux (mkSaux t1 t2 (typed_of t sub v l))).
Proof. exact new_aux_spec_partial. Qed.
Print Assumptions new_aux_is_spec_partial.

(** Hex (known finding C05-newaux-hex-raw): NewAux(tag, Hex(v)) keeps the
    value bytes; the BAM form of an H field is the hex text of the value. *)
Theorem new_aux_is_spec_refuted :
  exists t1 t2 l,
    build_aux [new_aux t1 t2 72 0 0 l] <> Ok (spec_aux (mkSaux t1 t2 (typed_of 72 0 0 l))).
Proof. exact new_aux_hex_spec_refuted. Qed.
Print Assumptions new_aux_is_spec_refuted.

(** Non-vacuity: a concrete valid record with every kind of field, through
    the model. *)
Definition ex_rec : rec :=
  mkRec [114; 49] 0 100 60 [Z.shiftl 5 4; Z.lor (Z.shiftl 2 4) 1] 99 0 200 (-150) 5 [18; 72; 128]
        None [[78; 77; 67; 3]; [88; 90; 90; 104; 105]; [88; 66; 66; 115; 2; 0; 0; 0; 1; 0; 255; 255]].

Example ex_rec_valid : valid_rec 1 ex_rec = true /\ pad_ok ex_rec = true.
Proof. split; vm_compute; reflexivity. Qed.

Example ex_rec_roundtrip :
  exists e, encode_record ex_rec = Ok e /\ decode_record 0 1 true (skipn 4 e) = Ok (canon ex_rec, false)
            /\ mask_bin e = mask_bin (spec_encode (abs 0 ex_rec)).
Proof. eexists. split; [vm_compute; reflexivity|]. split; vm_compute; reflexivity. Qed.

Example ex_hdr_valid : valid_hdr (mkHdr [64; 72; 68; 10] [([99; 104; 114; 49], 1000)]) = true.
Proof. vm_compute. reflexivity. Qed.

Example ex_new_aux :
  build_aux [new_aux 88 73 105 0 (-5) []] = Ok [88; 73; 105; 251; 255; 255; 255]
  /\ build_aux [new_aux 88 66 66 115 0 [1; -1]] = Ok [88; 66; 66; 115; 2; 0; 0; 0; 1; 0; 255; 255]
  /\ build_aux [new_aux 88 72 72 0 0 [26]] = Ok [88; 72; 72; 26; 0]
  /\ spec_aux (mkSaux 88 72 (typed_of 72 0 0 [26])) = [88; 72; 72; 49; 65; 0].
Proof. repeat split; vm_compute; reflexivity. Qed.
