(** C06 — SAM text round trip; SAM and BAM views of a record agree; the SAM
    reader returns every line.  Statements only; proofs are in
    Proofs/SamBytes.v, SamFormat.v, SamParse.v, SamReader.v, SamBam.v.

    [format_record] / [parse_record] / [reader_run] (Model/SamText.v) model
    Record.MarshalSAM / Record.UnmarshalSAM / Reader.Read following the Go code;
    the nucleotide, CIGAR and aux-kind tables and the format strings they use
    are regenerated from the Go source on every run (coq/Generated.v).
    [spec_format] / [view] (Model/SamSpec.v) are written from SAMv1 1.4/1.5.
    [fmt_f32] / [parse_f32] stand for strconv's float32 formatting/parsing. *)
From Coq Require Import ZArith List Bool Lia.
From Hts Require Import Base.Prim Generated Model.SamText Model.SamSpec.
From Hts Require Import Proofs.SamBytes Proofs.SamFormat Proofs.SamParse Proofs.SamReader Proofs.SamBam Proofs.SamAux.
Import ListNotations.
Open Scope Z_scope.

(** The reader returns every line.  For every text made of lines (no LF
    inside a line, no CR at its end; each ended by LF or CRLF, the last one
    possibly unterminated if it is not empty) and every header: the sequence of
    results of calling Read until io.EOF has exactly one entry per line, in
    order, and the entry is what UnmarshalSAM makes of that line.  No line is
    dropped or merged with another, an unterminated last line is returned, and
    an empty line yields UnmarshalSAM's error ([parse_record _ _ [] = Err 0]),
    not a panic of the reader. *)
Theorem sam_reader_lines :
  forall (parse_f32 : list Z -> option Z) (h : header) (ls : list (list Z * eol)),
    lines_ok ls ->
    reader_run parse_f32 h (join_lines ls) = map (fun le => parse_record parse_f32 h (fst le)) ls.
Proof. exact reader_lines_gen. Qed.
Print Assumptions sam_reader_lines.

Theorem sam_reader_empty_line_is_error :
  forall parse_f32 h, parse_record parse_f32 h [] = Err 0.
Proof. exact parse_empty_line. Qed.
Print Assumptions sam_reader_empty_line_is_error.

Example sam_reader_lines_ex :
  lines_ok [([97], ECRLF); ([], ELF); ([98; 9; 99], ENONE)]
  /\ join_lines [([97], ECRLF); ([], ELF); ([98; 9; 99], ENONE)] = [97; 13; 10; 10; 98; 9; 99].
Proof.
  split; [|reflexivity]. cbn. unfold line_ok, free. cbn.
  repeat split; try discriminate; intuition discriminate.
Qed.

(** MarshalSAM writes the line of the specification.  For every header with
    pairwise distinct, TAB-free names other than "*" and "=", and every record
    expressible in SAM text ([valid 8]: references of that header, CIGAR
    operations MIDNSHP=X, canonical 4-bit sequence, quality absent or of the
    sequence's length, aux fields of all eleven types with values in range)
    whose Phred values are 0..93 or absent: the line written with decimal
    flags, and the line written with hexadecimal flags, are exactly the
    TAB-joined fields that SAMv1 1.4/1.5 prescribes for the record's view. *)
Theorem sam_format_is_spec :
  forall (fmt_f32 : Z -> list Z) (h : header) (r : samrec),
    valid 8 h r -> phred_ok (r_qual r) ->
    format_record fmt_f32 h sam_FlagDecimal r
      = Ok (spec_format fmt_f32 (print_Z (r_flags r)) (view h r)) /\
    format_record fmt_f32 h sam_FlagHex r
      = Ok (spec_format fmt_f32 ([48; 120] ++ print_hex (r_flags r)) (view h r)).
Proof. exact format_is_spec_gen. Qed.
Print Assumptions sam_format_is_spec.

(** Round trip, as far as it is proved: for every valid record whose
    variable-length parts are absent ([core_only]: no CIGAR, no sequence, no
    quality, no aux fields) — i.e. for all names, flags, references, mate
    references incl. "=" and "*", positions, mapping qualities and template
    lengths — and both parseable flag formats: MarshalSAM yields a line,
    UnmarshalSAM of it yields the record field by field ([core_of r]), and
    MarshalSAM of that record yields the same line.
    MISSING for the full statement [sam_roundtrip]: the inverse lemmas for
    ParseCigar/Cigar.String, contract/Expand, quality +-33 and ParseAux/samAux
    (these parts are covered on every run by the correspondence of model and
    implementation and by the independent oracle only). *)
Theorem sam_roundtrip_partial :
  forall (fmt_f32 : Z -> list Z) (parse_f32 : list Z -> option Z) (h : header) (r : samrec) (fl : Z),
    valid 8 h r -> core_only r -> (fl = sam_FlagDecimal \/ fl = sam_FlagHex) ->
    exists line,
      format_record fmt_f32 h fl r = Ok line /\
      parse_record parse_f32 h line = Ok (core_of r) /\
      format_record fmt_f32 h fl (core_of r) = Ok line.
Proof. exact roundtrip_core_gen. Qed.
Print Assumptions sam_roundtrip_partial.

(** Aux fields, scalar types: for every aux field of type A, c/C/s/S/i/I, f or
    Z that is expressible in SAM text, under the law of strconv
    [parse_f32 (fmt_f32 x) = Some x] on the float values that occur (premise;
    validated against strconv and IEEE 754 on every run, NaN excluded):
    ParseAux of the text samAux.String writes succeeds, keeps the tag and
    yields the same value (integers by value: the text does not carry the
    width).  MISSING: H and B (array) fields. *)
Theorem sam_aux_roundtrip_partial :
  forall (fmt_f32 : Z -> list Z) (parse_f32 : list Z -> option Z) (f32_ok : Z -> Prop),
    (forall x, f32_ok x -> parse_f32 (fmt_f32 x) = Some x) ->
    forall a,
      auxv_ok (a_val a) -> scalar (a_val a) -> floats_ok f32_ok (a_val a) ->
      exists txt a', format_aux fmt_f32 a = Some txt /\ parse_aux parse_f32 txt = Ok a' /\
                     a_t0 a' = a_t0 a /\ a_t1 a' = a_t1 a /\ view_val (a_val a') = view_val (a_val a).
Proof. exact aux_scalar_roundtrip. Qed.
Print Assumptions sam_aux_roundtrip_partial.

(** The number texts used by every field: what %d / "0x%x" write is read back
    by Atoi, ParseUint(base 10) and ParseUint(base 0). *)
Theorem sam_number_text_roundtrip :
  (forall z, - 2 ^ 63 <= z < 2 ^ 63 -> go_atoi (print_Z z) = Some z) /\
  (forall n bits, 0 <= n < 2 ^ bits -> go_parse_uint (print_Z n) 10 bits = Some n) /\
  (forall n bits, 0 <= n < 2 ^ bits -> go_parse_uint (print_Z n) 0 bits = Some n) /\
  (forall n bits, 0 <= n < 2 ^ bits -> go_parse_uint ([48; 120] ++ print_hex n) 0 bits = Some n).
Proof. exact (conj atoi_print (conj parse_uint10_print (conj parse_uint0_print parse_uint0_hex))). Qed.
Print Assumptions sam_number_text_roundtrip.

(** SAM and BAM views agree.  Formatting does not distinguish records that a
    BAM round trip identifies (all fields equal, an absent quality being the
    same as all-0xff) ... *)
Theorem sam_format_respects_bam_view :
  forall fmt_f32 h fl a b,
    qual_len_ok a -> qual_len_ok b -> bam_equiv a b ->
    format_record fmt_f32 h fl a = format_record fmt_f32 h fl b.
Proof. exact format_respects_bam_equiv. Qed.
Print Assumptions sam_format_respects_bam_view.

(** ... hence for any BAM codec with the round-trip law (premise; the codec
    itself is property C05), a record read back from BAM formats to the same
    SAM line as the record that was written, in every flag format. *)
Theorem bam_sam_agree :
  forall (bam_ok : samrec -> Prop) (bam_encode : samrec -> option (list Z)) (bam_decode : list Z -> option samrec),
    (forall r, bam_ok r ->
       exists bs r', bam_encode r = Some bs /\ bam_decode bs = Some r' /\ bam_equiv r r' /\ qual_len_ok r') ->
    forall fmt_f32 h fl r,
      bam_ok r -> qual_len_ok r ->
      exists bs r', bam_encode r = Some bs /\ bam_decode bs = Some r' /\
                    format_record fmt_f32 h fl r' = format_record fmt_f32 h fl r.
Proof. exact bam_sam_agree_gen. Qed.
Print Assumptions bam_sam_agree.

(** The tables the model reads from the Go source are those of the
    specification. *)
Theorem sam_tables_are_spec :
  sam_n16TableRev = spec_bases /\ map (fun s => hd 0 s) (firstn 9 sam_cigarOps) = spec_ops
  /\ firstn 9 sam_cigarLetters = spec_ops.
Proof. exact tables_are_spec. Qed.
Print Assumptions sam_tables_are_spec.

(** Non-vacuity: a concrete valid record, its line, and the way back. *)
Example sam_example_record :
  let h := [([99; 104; 114; 49], 1000)] in
  let r := mk_rec [114; 49] 99 (Some 0%nat) 9 60 [] (Some 0%nat) 19 30 0 [] None [] in
  format_record (fun _ => []) h 0 r
    = Ok [114; 49; 9; 57; 57; 9; 99; 104; 114; 49; 9; 49; 48; 9; 54; 48; 9; 42; 9; 61; 9; 50; 48; 9; 51; 48; 9; 42; 9; 42]
  /\ parse_record (fun _ => None) h
       [114; 49; 9; 57; 57; 9; 99; 104; 114; 49; 9; 49; 48; 9; 54; 48; 9; 42; 9; 61; 9; 50; 48; 9; 51; 48; 9; 42; 9; 42] = Ok r
  /\ format_record (fun _ => []) h 1 r
    = Ok [114; 49; 9; 48; 120; 54; 51; 9; 99; 104; 114; 49; 9; 49; 48; 9; 54; 48; 9; 42; 9; 61; 9; 50; 48; 9; 51; 48; 9; 42; 9; 42].
Proof. repeat split; vm_compute; reflexivity. Qed.

Example sam_example_valid :
  valid 8 [([99; 104; 114; 49], 1000)]
        (mk_rec [114; 49] 99 (Some 0%nat) 9 60 [] (Some 0%nat) 19 30 0 [] None []).
Proof.
  constructor; cbn; try lia; auto using seq_ok_nil.
  - split; [repeat constructor; cbn; tauto|]. repeat constructor; try discriminate.
    unfold free. cbn. intuition discriminate.
  - unfold free. cbn. intuition discriminate.
Qed.
