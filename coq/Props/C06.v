(** C06 — SAM text round trip; SAM and BAM views of a record agree; the SAM
    reader returns every line.  Statements only; proofs are in
    Proofs/SamBytes.v, SamFormat.v, SamParse.v, SamReader.v, SamBam.v.

    [format_record] / [parse_record] / [reader_run] (Model/SamText.v) model
    Record.MarshalSAM / Record.UnmarshalSAM / Reader.Read following the Go code;
    the nucleotide, CIGAR and aux-kind tables and the format strings they use
    are regenerated from the Go source on every run (coq/Generated.v).
    [spec_format] / [view] (Model/SamSpec.v) are written from SAMv1 1.4/1.5.
    [fmt_f32] / [parse_f32] stand for strconv's float32 formatting/parsing. *)
From Coq Require Import ZArith List Bool Lia.
From Hts Require Import Base.Prim Generated Model.SamText Model.SamSpec.
From Hts Require Import Proofs.SamBytes Proofs.SamFormat Proofs.SamParse Proofs.SamReader Proofs.SamBam
  Proofs.SamInverse Proofs.SamAux Proofs.SamRoundtrip.
Import ListNotations.
Open Scope Z_scope.

(** The reader returns every line.  For every text made of lines (no LF
    inside a line, no CR at its end; each ended by LF or CRLF, the last one
    possibly unterminated if it is not empty) and every header: the sequence of
    results of calling Read until io.EOF has exactly one entry per line, in
    order, and the entry is what UnmarshalSAM makes of that line.  No line is
    dropped or merged with another, an unterminated last line is returned, and
    an empty line yields UnmarshalSAM's error ([parse_record _ _ [] = Err 0]),
    not a panic of the reader. *)
Theorem sam_reader_lines :
  forall (parse_f32 : list Z -> option Z) (h : header) (ls : list (list Z * eol)),
    lines_ok ls ->
    reader_run parse_f32 h (join_lines ls) = map (fun le => parse_record parse_f32 h (fst le)) ls.
Proof. exact reader_lines_gen. Qed.
Print Assumptions sam_reader_lines.

Theorem sam_reader_empty_line_is_error :
  forall parse_f32 h, parse_record parse_f32 h [] = Err 0.
Proof. exact parse_empty_line. Qed.
Print Assumptions sam_reader_empty_line_is_error.

Example sam_reader_lines_ex :
  lines_ok [([97], ECRLF); ([], ELF); ([98; 9; 99], ENONE)]
  /\ join_lines [([97], ECRLF); ([], ELF); ([98; 9; 99], ENONE)] = [97; 13; 10; 10; 98; 9; 99].
Proof.
  split; [|reflexivity]. cbn. unfold line_ok, free. cbn.
  repeat split; try discriminate; intuition discriminate.
Qed.

(** MarshalSAM writes the line of the specification.  For every header with
    pairwise distinct, TAB-free names other than "*" and "=", and every record
    expressible in SAM text ([valid 8]: references of that header, CIGAR
    operations MIDNSHP=X, canonical 4-bit sequence, quality absent or of the
    sequence's length, aux fields of all eleven types with values in range)
    whose Phred values are 0..93 or absent: the line written with decimal
    flags, and the line written with hexadecimal flags, are exactly the
    TAB-joined fields that SAMv1 1.4/1.5 prescribes for the record's view. *)
Theorem sam_format_is_spec :
  forall (fmt_f32 : Z -> list Z) (h : header) (r : samrec),
    valid 8 h r -> phred_ok (r_qual r) ->
    format_record fmt_f32 h sam_FlagDecimal r
      = Ok (spec_format fmt_f32 (print_Z (r_flags r)) (view h r)) /\
    format_record fmt_f32 h sam_FlagHex r
      = Ok (spec_format fmt_f32 ([48; 120] ++ print_hex (r_flags r)) (view h r)).
Proof. exact format_is_spec_gen. Qed.
Print Assumptions sam_format_is_spec.

(** SAM text round trip.  For every header and every record expressible in
    SAM text ([valid 8], see above; Phred values 0..93 or absent), under the
    premises on strconv's float32 text for the float values [f32_ok] that
    occur in the record (parsing what was formatted gives the value back; the
    text contains neither TAB nor comma — validated on every run against
    strconv and IEEE 754, NaN excluded), and for both parseable flag formats
    (decimal, hexadecimal):
      * MarshalSAM gives a line;
      * UnmarshalSAM of that line against the same header succeeds and gives
        [rec_back r]: [r] itself except that an absent quality is in its
        canonical form (nil without a sequence, all 0xff with one) and aux
        integers have the smallest type that holds their value;
      * [rec_back r] has the same view at the level of the specification as
        [r] — every field equal, aux integers compared by value;
      * MarshalSAM of [rec_back r] gives the identical line. *)
Theorem sam_roundtrip :
  forall (fmt_f32 : Z -> list Z) (parse_f32 : list Z -> option Z) (f32_ok : Z -> Prop),
    (forall x, f32_ok x -> parse_f32 (fmt_f32 x) = Some x) ->
    (forall x, f32_ok x -> free 9 (fmt_f32 x) /\ free 44 (fmt_f32 x)) ->
    forall (h : header) (r : samrec) (fl : Z),
      valid 8 h r -> phred_ok (r_qual r) ->
      Forall (fun a => floats_ok_all f32_ok (a_val a)) (r_aux r) ->
      (fl = sam_FlagDecimal \/ fl = sam_FlagHex) ->
      exists line,
        format_record fmt_f32 h fl r = Ok line /\
        parse_record parse_f32 h line = Ok (rec_back r) /\
        view h (rec_back r) = view h r /\
        format_record fmt_f32 h fl (rec_back r) = Ok line.
Proof. exact roundtrip_gen. Qed.
Print Assumptions sam_roundtrip.

(** Aux fields of all eleven types: ParseAux reads back the text samAux.String
    writes — same tag, same value, integers in the smallest type ([aux_back]). *)
Theorem sam_aux_roundtrip :
  forall (fmt_f32 : Z -> list Z) (parse_f32 : list Z -> option Z) (f32_ok : Z -> Prop),
    (forall x, f32_ok x -> parse_f32 (fmt_f32 x) = Some x) ->
    (forall x, f32_ok x -> free 9 (fmt_f32 x) /\ free 44 (fmt_f32 x)) ->
    forall a,
      auxv_ok (a_val a) -> floats_ok_all f32_ok (a_val a) ->
      format_aux fmt_f32 a = Some (spec_opt fmt_f32 ([a_t0 a; a_t1 a], view_val (a_val a))) /\
      parse_aux parse_f32 (spec_opt fmt_f32 ([a_t0 a; a_t1 a], view_val (a_val a))) = Ok (aux_back a) /\
      view_val (a_val (aux_back a)) = view_val (a_val a).
Proof. exact aux_roundtrip_full. Qed.
Print Assumptions sam_aux_roundtrip.

(** The pieces, each for all inputs: ParseCigar after Cigar.String, contract
    after Expand. *)
Theorem sam_cigar_roundtrip :
  forall c, Forall (fun co => 0 <= co < 2 ^ 32 /\ co mod 16 <= 8) c ->
    cigar_string c = Some (spec_cigar (map (fun co => (co / 16, co mod 16)) c)) /\
    parse_cigar (spec_cigar (map (fun co => (co / 16, co mod 16)) c)) = Ok c.
Proof. exact (fun c H => conj (cigar_string_spec c H) (parse_cigar_back c H)). Qed.
Print Assumptions sam_cigar_roundtrip.

Theorem sam_seq_roundtrip :
  forall len ds, seq_ok len ds ->
    expand len ds = Ok (map (base_at ds) (seq 0 (Z.to_nat len))) /\
    contract (map (base_at ds) (seq 0 (Z.to_nat len))) = ds.
Proof. exact seq_roundtrip_full. Qed.
Print Assumptions sam_seq_roundtrip.

(** The number texts used by every field: what %d / "0x%x" write is read back
    by Atoi, ParseUint(base 10) and ParseUint(base 0). *)
Theorem sam_number_text_roundtrip :
  (forall z, - 2 ^ 63 <= z < 2 ^ 63 -> go_atoi (print_Z z) = Some z) /\
  (forall n bits, 0 <= n < 2 ^ bits -> go_parse_uint (print_Z n) 10 bits = Some n) /\
  (forall n bits, 0 <= n < 2 ^ bits -> go_parse_uint (print_Z n) 0 bits = Some n) /\
  (forall n bits, 0 <= n < 2 ^ bits -> go_parse_uint ([48; 120] ++ print_hex n) 0 bits = Some n).
Proof. exact (conj atoi_print (conj parse_uint10_print (conj parse_uint0_print parse_uint0_hex))). Qed.
Print Assumptions sam_number_text_roundtrip.

(** SAM and BAM views agree.  Formatting does not distinguish records that a
    BAM round trip identifies (all fields equal, an absent quality being the
    same as all-0xff) ... *)
Theorem sam_format_respects_bam_view :
  forall fmt_f32 h fl a b,
    qual_len_ok a -> qual_len_ok b -> bam_equiv a b ->
    format_record fmt_f32 h fl a = format_record fmt_f32 h fl b.
Proof. exact format_respects_bam_equiv. Qed.
Print Assumptions sam_format_respects_bam_view.

(** ... hence for any BAM codec with the round-trip law (premise; the codec
    itself is property C05), a record read back from BAM formats to the same
    SAM line as the record that was written, in every flag format. *)
Theorem bam_sam_agree :
  forall (bam_ok : samrec -> Prop) (bam_encode : samrec -> option (list Z)) (bam_decode : list Z -> option samrec),
    (forall r, bam_ok r ->
       exists bs r', bam_encode r = Some bs /\ bam_decode bs = Some r' /\ bam_equiv r r' /\ qual_len_ok r') ->
    forall fmt_f32 h fl r,
      bam_ok r -> qual_len_ok r ->
      exists bs r', bam_encode r = Some bs /\ bam_decode bs = Some r' /\
                    format_record fmt_f32 h fl r' = format_record fmt_f32 h fl r.
Proof. exact bam_sam_agree_gen. Qed.
Print Assumptions bam_sam_agree.

(** The tables the model reads from the Go source are those of the
    specification. *)
Theorem sam_tables_are_spec :
  sam_n16TableRev = spec_bases /\ map (fun s => hd 0 s) (firstn 9 sam_cigarOps) = spec_ops
  /\ firstn 9 sam_cigarLetters = spec_ops.
Proof. exact tables_are_spec. Qed.
Print Assumptions sam_tables_are_spec.

(** Non-vacuity: a concrete valid record, its line, and the way back. *)
Example sam_example_record :
  let h := [([99; 104; 114; 49], 1000)] in
  let r := mk_rec [114; 49] 99 (Some 0%nat) 9 60 [] (Some 0%nat) 19 30 0 [] None [] in
  format_record (fun _ => []) h 0 r
    = Ok [114; 49; 9; 57; 57; 9; 99; 104; 114; 49; 9; 49; 48; 9; 54; 48; 9; 42; 9; 61; 9; 50; 48; 9; 51; 48; 9; 42; 9; 42]
  /\ parse_record (fun _ => None) h
       [114; 49; 9; 57; 57; 9; 99; 104; 114; 49; 9; 49; 48; 9; 54; 48; 9; 42; 9; 61; 9; 50; 48; 9; 51; 48; 9; 42; 9; 42] = Ok r
  /\ format_record (fun _ => []) h 1 r
    = Ok [114; 49; 9; 48; 120; 54; 51; 9; 99; 104; 114; 49; 9; 49; 48; 9; 54; 48; 9; 42; 9; 61; 9; 50; 48; 9; 51; 48; 9; 42; 9; 42].
Proof. repeat split; vm_compute; reflexivity. Qed.

Example sam_example_valid :
  valid 8 [([99; 104; 114; 49], 1000)]
        (mk_rec [114; 49] 99 (Some 0%nat) 9 60 [] (Some 0%nat) 19 30 0 [] None []).
Proof.
  constructor; cbn; try lia; auto using seq_ok_nil.
  - split; [repeat constructor; cbn; tauto|]. repeat constructor; try discriminate.
    unfold free. cbn. intuition discriminate.
  - unfold free. cbn. intuition discriminate.
Qed.
