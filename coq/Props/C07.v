(** C07 — header serialisation round trips and identity invariants under
    edits.  Statements only; proofs in Proofs/Header*.v.  The model
    (Model/Header.v) follows sam/header.go, parse_header.go, reference.go,
    read_group.go, program.go of the checked tree and is run against the
    implementation on every check run (Model/HeaderRun.v, [c07_step] is the
    very function the histories below are made of). *)
From Coq Require Import ZArith List Bool.
From Hts Require Import Base.Prim Model.Header Model.HeaderRun Proofs.HeaderInv Proofs.HeaderWorld Proofs.HeaderHist Proofs.HeaderMerge Proofs.HeaderText Proofs.HeaderNum Proofs.HeaderFields Proofs.HeaderRT Proofs.HeaderBin Proofs.HeaderWF.
Import ListNotations.
Open Scope Z_scope.

(** HInv after EVERY history of the operations of the harness protocol
    (New*/Clone of items, NewHeader from references or text, @HD field and
    comment edits, Add/Remove/SetName for the three kinds of items,
    Header.Clone, MergeHeaders, UnmarshalText of further lines, binary
    decode), error results included, for any time and URI parsers: every
    operation returns (no panic, no blocking) and the run ends in a state
    where HInv holds for every header.  Every prefix of a history is a
    history, so HInv holds in every reachable state. *)
Theorem header_inv_preserved :
  forall (parse_time parse_uri : str -> option str) (ops : list c07op),
    exists w e, c07_exec parse_time parse_uri world0 env0 ops = Ok (w, e) /\ WInv w.
Proof. exact header_inv_every_history. Qed.
Print Assumptions header_inv_preserved.

(** One step from any state that satisfies HInv (not only reachable ones):
    the step returns, with or without an error value, and HInv holds again. *)
Theorem header_inv_step :
  forall (parse_time parse_uri : str -> option str) w e op, WInv w -> EnvOK w e ->
    exists w' e' c l, c07_step parse_time parse_uri w e op = Ok (w', e', c, l) /\ WInv w' /\ EnvOK w' e'.
Proof. exact c07_step_total. Qed.
Print Assumptions header_inv_step.

(** MergeHeaders of two or more headers of a world that satisfies HInv
    returns; HInv holds afterwards; and when it succeeds, the links it returns
    pair every reference of every source (in order) with a reference that the
    merged header owns and lists at its id, with the same name and length. *)
Theorem merge_links :
  forall w s0 srcs, WInv w -> (s0 < length (w_h w))%nat -> (forall s, In s srcs -> (s < length (w_h w))%nat) ->
  exists w' e links, merge_headers w s0 srcs = Ok (w', e, links) /\ WInv w' /\ Ext w w' /\
    (length (w_h w) < length (w_h w'))%nat /\
    (e = 0 -> Forall2 (links_good w w' (length (w_h w))) (s0 :: srcs) links).
Proof. exact merge_headers_spec. Qed.
Print Assumptions merge_links.

(** Text round trip.  For any date and URI parsers, any world satisfying HInv
    and any header [hd] of it whose values are printable ([WFH]: no TAB, LF or
    CR in values (comments may contain TABs), reference lengths and insert
    sizes in range, checksums of 16 bytes, dates and URIs canonical — i.e.
    [parse d = Some d], which is the law fmt (parse (fmt x)) = fmt x for the
    opaque libraries —, non-standard tags distinct and not standard ones, an
    @HD field only together with a version): NewHeader(MarshalText(hd), nil)
    succeeds, HInv holds, and the new header exposes the same values
    ([view]: version, SO, GO, other @HD tags, comments, and for references,
    read groups and programs the lists of names with all fields, in order);
    hence it marshals to the same text and the same binary. *)
Theorem header_text_roundtrip :
  forall (parse_time parse_uri : str -> option str) w h hd text,
    WInv w -> nth_error (w_h w) h = Some hd -> WFH parse_time parse_uri w hd ->
    marshal_text w hd = Ok text ->
    exists w' hd', new_header parse_time parse_uri w (Some text) [] = Ok (w', 0) /\ WInv w' /\
      nth_error (w_h w') (length (w_h w)) = Some hd' /\ view w' hd' = view w hd /\
      marshal_text w' hd' = Ok text /\ encode_binary w' hd' = encode_binary w hd.
Proof. exact text_roundtrip. Qed.
Print Assumptions header_text_roundtrip.

(** Binary round trip.  Under the same conditions, and when the sizes fit the
    int32 fields of the BAM header block, DecodeBinary into a fresh header of
    the bytes EncodeBinary wrote succeeds, HInv holds, the new header exposes
    the same values — including the non-standard @SQ tags, which the binary
    reference records do not carry and which the replacement path of
    AddReference now inherits — and it encodes to the same text and the same
    bytes. *)
Theorem header_binary_roundtrip :
  forall (parse_time parse_uri : str -> option str) w h hd text rs b,
    WInv w -> nth_error (w_h w) h = Some hd -> WFH parse_time parse_uri w hd ->
    marshal_text w hd = Ok text -> objs (w_r w) (t_items (h_R hd)) = Some rs -> fits_int32 text rs ->
    encode_binary w hd = Ok b ->
    exists w' hd', decode_binary parse_time parse_uri w b = Ok (w', 0) /\ WInv w' /\
      nth_error (w_h w') (length (w_h w)) = Some hd' /\ view w' hd' = view w hd /\
      marshal_text w' hd' = Ok text /\ encode_binary w' hd' = Ok b.
Proof. exact binary_roundtrip. Qed.
Print Assumptions header_binary_roundtrip.

(** WFH for every header built through the API.  The opaque parsers satisfy
    the laws: a canonical value is a fixed point of parsing and contains no
    TAB, LF or CR.  [clean_op]: the values given to an operation contain no TAB,
    LF or CR (comments: no LF/CR), checksums have 16 bytes, dates and URIs are
    canonical, a text given to NewHeader/UnmarshalText has CR only as the last
    byte of a line, and the version is not set to the empty string (an @HD
    field only together with a version).  Lengths and insert sizes are checked
    by the constructors themselves.  Binary decoding as a step of a history is
    excluded ([clean_op (ODecode _) = False]).  Then from the empty world the
    history runs to the end, HInv holds and every header satisfies WFH. *)
Theorem wfh_preserved :
  forall (parse_time parse_uri : str -> option str),
    (forall v d, parse_time v = Some d -> parse_time d = Some d /\ clean d) ->
    (forall v u, parse_uri v = Some u -> parse_uri u = Some u /\ clean u) ->
    forall ops, Forall (clean_op parse_time parse_uri) ops ->
    exists w e, c07_exec parse_time parse_uri world0 env0 ops = Ok (w, e) /\ WInv w /\
      forall h hd, nth_error (w_h w) h = Some hd -> WFH parse_time parse_uri w hd.
Proof. exact wfh_preserved_lemma. Qed.
Print Assumptions wfh_preserved.

(** Hence the round trips for every header of every world reached by a clean
    history, with no hypothesis on the header (the binary one keeps the
    condition that the sizes fit the int32 fields of the format). *)
Theorem header_text_roundtrip_api :
  forall (parse_time parse_uri : str -> option str),
    (forall v d, parse_time v = Some d -> parse_time d = Some d /\ clean d) ->
    (forall v u, parse_uri v = Some u -> parse_uri u = Some u /\ clean u) ->
    forall ops, Forall (clean_op parse_time parse_uri) ops ->
    exists w e, c07_exec parse_time parse_uri world0 env0 ops = Ok (w, e) /\
      forall h hd text, nth_error (w_h w) h = Some hd -> marshal_text w hd = Ok text ->
        exists w' hd', new_header parse_time parse_uri w (Some text) [] = Ok (w', 0) /\ WInv w' /\
          nth_error (w_h w') (length (w_h w)) = Some hd' /\ view w' hd' = view w hd /\
          marshal_text w' hd' = Ok text /\ encode_binary w' hd' = encode_binary w hd.
Proof. exact text_roundtrip_api. Qed.
Print Assumptions header_text_roundtrip_api.

Theorem header_binary_roundtrip_api :
  forall (parse_time parse_uri : str -> option str),
    (forall v d, parse_time v = Some d -> parse_time d = Some d /\ clean d) ->
    (forall v u, parse_uri v = Some u -> parse_uri u = Some u /\ clean u) ->
    forall ops, Forall (clean_op parse_time parse_uri) ops ->
    exists w e, c07_exec parse_time parse_uri world0 env0 ops = Ok (w, e) /\
      forall h hd text rs b, nth_error (w_h w) h = Some hd -> marshal_text w hd = Ok text ->
        objs (w_r w) (t_items (h_R hd)) = Some rs -> fits_int32 text rs -> encode_binary w hd = Ok b ->
        exists w' hd', decode_binary parse_time parse_uri w b = Ok (w', 0) /\ WInv w' /\
          nth_error (w_h w') (length (w_h w)) = Some hd' /\ view w' hd' = view w hd /\
          marshal_text w' hd' = Ok text /\ encode_binary w' hd' = Ok b.
Proof. exact binary_roundtrip_api. Qed.
Print Assumptions header_binary_roundtrip_api.

(** The codecs inside the text: decimal and hexadecimal. *)
Theorem header_number_codecs :
  (forall n, - 2 ^ 63 <= n <= 2 ^ 63 - 1 -> atoi (dec n) = Some n) /\
  (forall s, bytes s -> (length s <= 16)%nat -> hex_decode 0 (hex_of s) [] = Ok s).
Proof. exact number_codecs. Qed.
Print Assumptions header_number_codecs.

(** What WInv says: in every header, for references, read groups and
    programs alike, the i-th listed item is owned by the header and has id i,
    listed items have pairwise distinct names, the name table maps exactly
    the names of the listed items to their indices; and every item that has
    an owner is listed by that owner at its id. *)
Theorem hinv_meaning :
  forall w, WInv w ->
  (forall h hd, nth_error (w_h w) h = Some hd ->
     HInvK h (w_r w) (h_R hd) /\ HInvK h (w_g w) (h_G hd) /\ HInvK h (w_p w) (h_P hd)) /\
  (forall r o h, nth_error (w_r w) r = Some o -> o_owner o = Some h ->
     exists hd, nth_error (w_h w) h = Some hd /\ nth_error (t_items (h_R hd)) (Z.to_nat (o_id o)) = Some r) /\
  (forall r o h, nth_error (w_g w) r = Some o -> o_owner o = Some h ->
     exists hd, nth_error (w_h w) h = Some hd /\ nth_error (t_items (h_G hd)) (Z.to_nat (o_id o)) = Some r) /\
  (forall r o h, nth_error (w_p w) r = Some o -> o_owner o = Some h ->
     exists hd, nth_error (w_h w) h = Some hd /\ nth_error (t_items (h_P hd)) (Z.to_nat (o_id o)) = Some r).
Proof. exact WInv_meaning. Qed.
Print Assumptions hinv_meaning.

(** Non-vacuity: the history of the design-round defect (refs A,B,C; remove
    A; add a new C with a conflicting checksum) runs to the end, the new C
    replaces the old one at index 1 with id 1, the old one is released. *)
Example hinv_example :
  let none := fun _ : str => @None str in
  match c07_exec none none world0 env0
          [ONewRef [65] 10 [] [] [] []; ONewRef [66] 10 [] [] [] []; ONewRef [67] 10 [9;9;9;9;9;9;9;9;9;9;9;9;9;9;9;9] [] [] [];
           ONewHdr None []; OAddRef 0 0; OAddRef 0 1; OAddRef 0 2; ORmRef 0 0;
           ONewRef [67] 10 [1;2;3;4;5;6;7;8;9;10;11;12;13;14;15;16] [] [] []; OAddRef 0 3] with
  | Ok (w, e) => match nth_error (w_h w) 0 with
                 | Some hd => t_items (h_R hd) = [1%nat; 3%nat] /\ map (fun o => o_id o) (w_r w) = [-1; 0; -1; 1]
                 | None => False
                 end
  | _ => False
  end.
Proof. vm_compute. split; reflexivity. Qed.

(** Non-vacuity of merge_links: three headers whose common reference C carries
    conflicting checksums (the case in which the unrepaired code returned a
    link to a released reference): every link is owned and listed (first
    component 1), id 0, named C, length 10. *)
Example merge_example :
  let none := fun _ : str => @None str in
  let X := [1;1;1;1;1;1;1;1;1;1;1;1;1;1;1;1] in
  let Y := [2;2;2;2;2;2;2;2;2;2;2;2;2;2;2;2] in
  match c07_exec none none world0 env0
          [ONewRef [67] 10 X [] [] []; ONewRef [67] 10 Y [] [] []; ONewRef [67] 10 X [] [] [];
           ONewHdr None [0]; ONewHdr None [1]; ONewHdr None [2]] with
  | Ok (w, e) =>
    match c07_step none none w e (OMerge [0; 1; 2]) with
    | Ok (_, _, c, Some links) => c = 0 /\ links = [[(1, 0, [67], 10)]; [(1, 0, [67], 10)]; [(1, 0, [67], 10)]]
    | _ => False
    end
  | _ => False
  end.
Proof. vm_compute. split; reflexivity. Qed.

(** Non-vacuity of the round trips: a header with version, a reference carrying
    a checksum, AS and a non-standard tag, a read group and a comment with a
    TAB is read back from its own binary with the same text. *)
Example roundtrip_example :
  let id := fun s : str => Some s in
  let text := [64;72;68;9;86;78;58;49;46;53;9;83;79;58;117;110;107;110;111;119;110;10; 64;83;81;9;83;78;58;65;9;76;78;58;49;48;9;65;83;58;120;9;88;65;58;121;10;
               64;82;71;9;73;68;58;66;9;80;73;58;45;49;10; 64;67;79;9;97;9;98;10] in
  match new_header id id world0 (Some text) [] with
  | Ok (w, 0) =>
    match nth_error (w_h w) 0 with
    | Some hd => marshal_text w hd = Ok text /\
                 match encode_binary w hd with
                 | Ok b => match decode_binary id id w b with
                           | Ok (w', 0) => match nth_error (w_h w') 1 with
                                           | Some hd' => marshal_text w' hd' = Ok text /\ encode_binary w' hd' = Ok b
                                           | None => False end
                           | _ => False end
                 | _ => False end
    | None => False end
  | _ => False
  end.
Proof. vm_compute. repeat split; reflexivity. Qed.
