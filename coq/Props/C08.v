(** C08 — BGZF output is spec-conformant, gzip-compatible, deterministic and
    EOF-marked.  Statements only (see Props/C01.v for the vocabulary).
    [member_wf m p]: payload p has at most 65280 bytes, m at most 65536, bytes
    12..15 of m are B C 2 0, bytes 16/17 hold len m - 1, and an RFC 1952
    decoder reads m (followed by anything) as p. *)
From Coq Require Import ZArith List Bool.
From Hts Require Import Base.Prim Base.WrList Generated Model.Bgzf Model.Writer Model.WriterConc
  Model.HasEof Proofs.Bgzf Proofs.Writer Proofs.WriterConc Proofs.WriterThms Proofs.WrSkel Proofs.HasEof.
Import ListNotations.
Open Scope Z_scope.

(** Every script, every run length (also unfinished and unclosed runs), every
    level, every admissible header: the output is a concatenation of
    well-formed members, followed by the marker iff s_eof; a multi-member gzip
    walker expands it to the concatenation of the submitted blocks, which is a
    prefix of the data written, and all of it once the marker is there. *)
Theorem members_wellformed :
  forall deflate inflate crc32, codec_laws deflate inflate crc32 ->
  forall lvl h, hdr_ok h ->
  forall script fuel,
    let s := run_writer fuel script in
    exists ms,
      wr_out deflate crc32 lvl h s = concat ms ++ (if s_eof s then bgzf_magicBlock else [])
      /\ Forall2 (member_wf inflate crc32) ms (s_sub s)
      /\ gunzip_multi inflate crc32 (wr_out deflate crc32 lvl h s) = Some (concat (s_sub s))
      /\ prefix_of (concat (s_sub s)) (written script)
      /\ (s_eof s = true -> has_eof (wr_out deflate crc32 lvl h s) = true /\ s_closed s = true
                            /\ concat (s_sub s) = written script).
Proof. exact members_wellformed_gen. Qed.
Print Assumptions members_wellformed.

(** The stream ends with the 28-byte EOF marker iff the writer was closed
    without error (s_eof is set exactly where Close writes the marker and
    returns nil) - for every writer concurrency, schedule AND fault plan of
    the underlying writer, in every reachable state; [has_eof] is what HasEOF
    computes (haseof_iff_marker below).  "Marker => closed" needs two more
    facts about the compressor, [codec_laws_eof]: every DEFLATE stream has at
    least two bytes, and the encoding of the empty payload does not end in
    03 00 (otherwise an empty data member with the default header would BE
    the marker); both are checked against compress/flate at all levels on
    every run (harness mode "laws"). *)
Theorem eof_iff_closed_ok :
  forall deflate inflate crc32, codec_laws deflate inflate crc32 -> codec_laws_eof deflate ->
  forall lvl h, hdr_ok h ->
  forall (fault : Z -> bool) wc script sched,
    let st := run_conc deflate crc32 bgzf_wr_patch_mode bgzf_wr_patch_guard bgzf_wr_overflow_check lvl h fault wc script sched in
    (has_eof (out_bytes st) = true <-> s_eof (x_api st) = true)
    /\ (s_eof (x_api st) = true -> s_closed (x_api st) = true /\ x_err st = None).
Proof. exact eof_iff_closed_ok_gen. Qed.
Print Assumptions eof_iff_closed_ok.

(** The same for the sequential writer, at every point of every run. *)
Theorem eof_iff_closed_ok_seq :
  forall deflate inflate crc32, codec_laws deflate inflate crc32 -> codec_laws_eof deflate ->
  forall lvl h, hdr_ok h ->
  forall script fuel,
    let s := run_writer fuel script in
    has_eof (wr_out deflate crc32 lvl h s) = true <-> s_eof s = true.
Proof. exact seq_eof_iff_gen. Qed.
Print Assumptions eof_iff_closed_ok_seq.

(** Close returned nil: the stream is all members followed by the marker and
    decodes to everything written. *)
Theorem closed_stream_complete :
  forall deflate inflate crc32, codec_laws deflate inflate crc32 ->
  forall lvl h, hdr_ok h ->
  forall wc script sched,
    let st := wr_conc deflate crc32 lvl h wc script sched in
    s_eof (x_api st) = true ->
    x_out st = map (member_of deflate crc32 lvl h) (s_sub (x_api st)) ++ [bgzf_magicBlock]
    /\ concat (s_sub (x_api st)) = written script
    /\ gunzip_multi inflate crc32 (out_bytes st) = Some (written script)
    /\ has_eof (out_bytes st) = true.
Proof. exact close_durable_gen. Qed.
Print Assumptions closed_stream_complete.

(** The bytes do not depend on the writer concurrency nor on the schedule. *)
Theorem output_independent_of_wc :
  forall deflate inflate crc32, codec_laws deflate inflate crc32 ->
  forall lvl h, hdr_ok h ->
  forall wc1 wc2 script sched1 sched2,
    let st1 := wr_conc deflate crc32 lvl h wc1 script sched1 in
    let st2 := wr_conc deflate crc32 lvl h wc2 script sched2 in
    cdone st1 = true -> cdone st2 = true -> quiescent st1 -> quiescent st2 ->
    x_out st1 = x_out st2 /\ s_res (x_api st1) = s_res (x_api st2).
Proof. exact output_independent_of_wc_gen. Qed.
Print Assumptions output_independent_of_wc.

(** The 64 KiB boundary itself, for EVERY codec, level, gzip header (also
    headers larger than hdr_ok allows) and block: whatever writeBlock emits is
    at most MaxBlockSize = 65536 bytes long, has the BC subfield at 12 and
    BSIZE = length - 1 (so the 16-bit field never wraps).  The refusal test
    `size >= MaxBlockSize` is taken from the Go source on every run
    (bgzf_wr_overflow_check is false for any other comparison). *)
Theorem emitted_member_fits :
  forall deflate crc32 lvl h p m,
    write_block deflate crc32 bgzf_wr_patch_mode bgzf_wr_patch_guard bgzf_wr_overflow_check lvl h [] p = Ok m ->
    zlen m <= bgzf_MaxBlockSize /\ zlen m <= 65536
    /\ firstn 4 (skipn 12 m) = [66; 67; 2; 0]
    /\ getz m 16 + 256 * getz m 17 = zlen m - 1.
Proof. exact emitted_member_fits_gen. Qed.
Print Assumptions emitted_member_fits.

(** ... and a member that would be longer is refused (ErrBlockOverflow = 5). *)
Theorem oversize_member_refused :
  forall deflate crc32 lvl h p,
    hdr_err h = false ->
    bgzf_MaxBlockSize < zlen (raw_member deflate crc32 lvl h p) ->
    write_block deflate crc32 bgzf_wr_patch_mode bgzf_wr_patch_guard bgzf_wr_overflow_check lvl h [] p = Err 5.
Proof. exact oversize_member_refused_gen. Qed.
Print Assumptions oversize_member_refused.

(** HasEOF reports exactly whether the stream ends with the marker: for each
    of the three kinds of io.ReaderAt its type switch distinguishes (Size(),
    Stat(), Seek+Len), every content and EVERY cursor position, the result is
    [ends_with_marker] (an error when the stream is shorter than the marker);
    a reader with none of the methods gives ErrNoEnd (3).  [haseof_go]
    interprets the size expressions gen/ reads off bgzf.HasEOF. *)
Theorem haseof_iff_marker :
  forall r k,
    he_methods r = Some k ->
    0 <= he_pos r <= zlen (he_data r) ->
    bgzf_haseof_reads_at_size_minus_marker = true
    /\ haseof_go r = if zlen bgzf_magicBlock <=? zlen (he_data r)
                     then Ok (ends_with_marker (he_data r)) else Err 2.
Proof. exact haseof_iff_marker_gen. Qed.
Print Assumptions haseof_iff_marker.

Theorem haseof_without_extent :
  forall r, he_methods r = None -> haseof_go r = Err 3.
Proof. exact haseof_no_methods. Qed.
Print Assumptions haseof_without_extent.

(** The back-patch read off the current Go source hits the BC subfield
    whatever precedes it (this is what breaks when writeBlock searches for the
    first occurrence of B C 2 0 again). *)
Theorem backpatch_hits_bc_subfield :
  forall pre x0 x1 rest, zlen pre = 12 ->
    patch_pos bgzf_wr_patch_mode bgzf_wr_patch_guard (pre ++ [66; 67; 2; 0; x0; x1] ++ rest) = Some 12.
Proof. exact gen_patch_at_12. Qed.
Print Assumptions backpatch_hits_bc_subfield.

(** The original code (first occurrence of B C 2 0 from the start of the
    member) is refuted: with ModTime = 0x24342 s the search stops in MTIME and
    the size lands in XFL/OS while BSIZE stays 0 — for every compressor. *)
Theorem members_wellformed_first_index_refuted :
  exists h, hdr_ok h /\
    forall deflate crc32 lvl p,
      patch_pos PatchFirstIndex true (raw_member deflate crc32 lvl h p) = Some 4.
Proof. exact first_index_refuted_gen. Qed.
Print Assumptions members_wellformed_first_index_refuted.

Example c08_haseof_moved_cursor :
  haseof_go {| he_data := [9; 9; 9] ++ bgzf_magicBlock; he_pos := 17; he_methods := Some HLenSeeker |} = Ok true
  /\ ends_with_marker ([9; 9; 9] ++ bgzf_magicBlock) = true.
Proof. split; reflexivity. Qed.

Example c08_header_bytes :
  gz_header 9 {| h_mtime := 148290; h_os := 3; h_extra := [65; 66; 1; 0; 7]; h_name := [120]; h_comment := [] |}
  = [31; 139; 8; 12; 66; 67; 2; 0; 2; 3; 11; 0; 66; 67; 2; 0; 0; 0; 65; 66; 1; 0; 7; 120; 0].
Proof. reflexivity. Qed.
