From Hts Require Import Base.Prim.
Theorem placeholder_C08 : True. Proof. exact I. Qed.
Print Assumptions placeholder_C08.
