(** C09 — I/O faults never hang and are never swallowed by the BGZF reader or
    writer.  Statements only; proofs in Proofs/FaultWriter.v, Proofs/FaultReader.v.

    [writer_variant] is computed from the channel skeleton of bgzf/writer.go
    that gen/ regenerates from /repo on every run (coq/Generated.v,
    the bgzf_wskel_ definitions); [wcfg wc k] is the writer with max(wc+1,2) compressors whose
    k-th and later underlying writes fail (k < 0: none), running that variant.
    [run c sched s] runs an arbitrary schedule (a list of thread names). *)
From Coq Require Import ZArith List Bool.
From Hts Require Import Base.Prim Generated Model.FaultWriter Model.FaultReader Proofs.FaultWriter Proofs.FaultReader Proofs.FaultReaderFlat.
Import ListNotations.
Open Scope Z_scope.

(** Token conservation over the regenerated skeleton: the emitter has no
    break and handles every queued compressor (one receive on its flush
    channel, one call of writeOK per receive on queue); every path of writeOK
    (body followed by its defers) has exactly one qwg.Done and exactly one send
    on waiting, Done first; every path of writeBlock sends once on flush; in
    Write, Flush and Close every send on queue is matched by one qwg.Add, one
    go/call of writeBlock and one receive on waiting.  The variant of the
    model selected by this skeleton is the repaired one. *)
Theorem writer_skeleton_token_conservation :
  skeleton_conserves writer_skel = true /\
  writer_variant = fixed_variant /\
  (forall ps, fn_paths (sk_writeOK writer_skel) = Some ps -> forall p, In p ps ->
     count_ev (EDone qwgS) p = 1 /\ count_ev (ESend waitingS) p = 1 /\ before (EDone qwgS) (ESend waitingS) p = true) /\
  (exists ps, fn_paths (sk_writeOK writer_skel) = Some ps /\ ps <> []).
Proof. exact (conj writer_skeleton_conserves (conj writer_variant_fixed (conj writeOK_paths_conserve writeOK_has_paths))). Qed.
Print Assumptions writer_skeleton_token_conservation.

(** Every call returns: for every number of compressors, fault index, script
    of calls and schedule, in the state reached either the script has been
    completed or some thread can move (no reachable Stuck); and once Close has
    passed its wait for the emitter (in particular after it has returned), the
    emitter has terminated and no compressor goroutine is left. *)
Theorem writer_calls_return :
  forall wc k sc sched,
    let c := wcfg wc k in
    let s := run c sched (init c sc) in
    (api_done s = false -> exists t s', step c s t = Some s') /\
    (closed s = true -> pc s <> ACWg -> quiet s = true).
Proof. exact writer_calls_return_gen. Qed.
Print Assumptions writer_calls_return.

(** Faults are reported: in every reachable state (a) no underlying write has
    been issued after a failed one; (b) the step in which Close returns yields
    a non-nil class if any underlying write failed (including the EOF marker)
    or an error was latched; (c) the step in which Wait returns yields non-nil
    if any underlying write has failed; (d) once the error is latched, Write,
    Flush and Wait return it; (e) a failed write is latched, or the emitter
    is between the failed write and setErr (where qwg is still held). *)
Theorem writer_reports_fault :
  forall wc k sc sched,
    let c := wcfg wc k in
    let s := run c sched (init c sc) in
    wafter s = 0 /\
    (forall s', pc s = ACMagic -> step_api c s = Some s' ->
       exists cl, results s' = results s ++ [(cl, 0)] /\ (0 < wfailed s' \/ latched s = true -> cl <> 0)) /\
    (forall s', pc s = ATRet -> step_api c s = Some s' ->
       exists cl, results s' = results s ++ [(cl, 0)] /\ (0 < wfailed s -> cl <> 0)) /\
    (forall s' o rest, pc s = AIdle -> script s = o :: rest -> latched s = true ->
       match o with OWrite _ | OFlush | OWait => True | _ => False end ->
       step_api c s = Some s' -> exists cl n, results s' = results s ++ [(cl, n)] /\ cl <> 0) /\
    (0 < wfailed s -> latched s = true \/ exists c0 nx, em s = EFail1 c0 nx).
Proof. exact writer_reports_fault_gen. Qed.
Print Assumptions writer_reports_fault.

(** The emitter as it was before the repair (leaves its loop on the first
    failure; commit 5d4cb24 changed it): Write(3*BlockSize), Close with two
    compressors and the first underlying write failing reaches a state in
    which Close is blocked and no thread whatsoever can move. *)
Theorem writer_calls_return_refuted_before_repair :
  exists wc k sc sched,
    let c := {| ncomp := ncomp_of_wc wc; wk := k; vr := orig_variant |} in
    let s := run c sched (init c sc) in
    api_done s = false /\ forall t, step c s t = None.
Proof. exact writer_orig_stuck_gen. Qed.
Print Assumptions writer_calls_return_refuted_before_repair.

(** Synchronous reader (rd = 1, no cache) over a source that fails at byte
    offset X (persistently or [trans] times) and whose [seekk]-th Seek fails:
    after any sequence of Read/Seek/Close the block the reader serves bytes
    from is the member of the file that starts at the block's base — base,
    size and data belong together — and the count reader is in register with
    the source.  This is the invariant [reader_faults_sound] below is built on;
    "partial" only in that it is block-level.  The async reader and the caches
    are not modelled. *)
Theorem reader_faults_sound_partial :
  forall f x trans seekk ops,
    let '(s0, e0) := ropen rfixed f x trans seekk in
    let s := exec rfixed s0 ops in
    file s = f /\ croff s = r_pos (src s) /\
    (cvalid s = true -> member_at f (cbase s) = Some (chsize s, cdata s)).
Proof. exact reader_blocks_sound_gen. Qed.
Print Assumptions reader_faults_sound_partial.

(** Synchronous reader at flat byte positions, for every file, every fault plan
    (fault offset, persistent or transient, failing Seek index) and every
    history of Read / Seek / Close after a successful NewReader.  [flat_ok]
    tracks the position the caller is entitled to assume: 0 after NewReader,
    the sought position after a Seek that returned nil, advanced by the bytes
    of every Read that returned nil, unknown after an error until the next
    successful Seek.  Then: the bytes of every Read are exactly the file's data
    at that position ([is_seg]); a Read that reports io.EOF (class 3) has
    reached exactly the end of the data; while the position is unknown, Read
    returns no bytes and a non-nil error.  ([seeks_in_range]: Seek offsets lie
    inside the block sought, as the virtual offsets of an index do.) *)
Theorem reader_faults_sound :
  forall f x trans seekk ops,
    wf_file f -> seeks_in_range f ops ->
    let '(s0, e0) := ropen rfixed f x trans seekk in
    e0 = 0 -> flat_ok f (Some 0) ops (run_ops rfixed s0 ops).
Proof. exact reader_flat_gen. Qed.
Print Assumptions reader_faults_sound.

(** Retry after a failed Seek: in any reachable state, if a Seek fails (in the
    underlying seeker or while fetching) and a later Seek to the same member
    returns nil, the reader stands on exactly that member: base, data and
    offset are the requested ones.  (The count reader's offset, [croff], is in
    register with the true source position [r_pos] in every reachable state —
    second conjunct of the theorem above — because countReader.seek records
    the offset only after a successful underlying Seek.) *)
Theorem reader_seek_retry_sound :
  forall f x trans seekk ops m w w',
    let '(s0, _) := ropen rfixed f x trans seekk in
    let s := exec rfixed s0 ops in
    forall s1 e1 s2, do_seek rfixed s m w = (s1, e1) -> e1 <> 0 ->
      do_seek rfixed s1 m w' = (s2, 0) ->
      cvalid s2 = true /\ cbase s2 = base_of f m /\ coff s2 = w' /\
      member_at f (base_of f m) = Some (chsize s2, cdata s2).
Proof. exact seek_retry_gen. Qed.
Print Assumptions reader_seek_retry_sound.

(** countReader.seek recording the offset before the underlying Seek is known
    to have succeeded (variant rv_late = false): Seek(member 2) fails, the
    retry returns nil without seeking and Read serves member 1's bytes. *)
Theorem reader_seek_retry_refuted_for_early_offset :
  exists f ops,
    let v := {| rv_inval := true; rv_late := false |} in
    let '(s0, _) := ropen v f (-1) 0 0 in
    run_ops v s0 ops = [(1, []); (0, []); (0, [3; 4])] /\
    run_ops rfixed s0 ops = [(1, []); (0, []); (0, [5; 6])].
Proof. exact seek_retry_refuted_gen. Qed.
Print Assumptions reader_seek_retry_refuted_for_early_offset.

(** The reader before the repair (commit 9ba0cc7): after a failed fetch of
    member 1 the current block is based at member 1 but holds member 0's data,
    and Seek(member 1); Read returns those bytes with a nil error. *)
Theorem reader_faults_sound_refuted_before_repair :
  exists f x ops,
    let '(s0, _) := ropen {| rv_inval := false; rv_late := true |} f x 0 (-1) in
    let s := exec {| rv_inval := false; rv_late := true |} s0 ops in
    cvalid s = true /\ member_at f (cbase s) <> Some (chsize s, cdata s) /\
    exists m, run_ops {| rv_inval := false; rv_late := true |} s0 (ops ++ [RSeek m 0; RRead 2])
              = run_ops {| rv_inval := false; rv_late := true |} s0 ops ++ [(0, []); (0, [1; 2])]
              /\ base_of f (Z.to_nat m) = 74.
Proof. exact reader_stale_block_gen. Qed.
Print Assumptions reader_faults_sound_refuted_before_repair.

(** The code in /repo is the repaired one: the block is invalidated on a failed
    fetch and countReader.seek records its offset after the underlying Seek
    (both read off the source by gen/ on every run). *)
Theorem reader_source_variant : reader_variant = rfixed.
Proof. exact reader_invalidates. Qed.
Print Assumptions reader_source_variant.

(** Non-vacuity: a faulty run of the model that ends with every call returned,
    the failure reported by Write and by Close, and all threads terminated. *)
Example writer_run_example :
  let c := wcfg 1 0 in
  let '(s, _) := drive c PLazy 200 (init c [OWrite 195840; OClose]) in
  results s = [(1, 130560); (1, 0)] /\ api_done s = true /\ quiet s = true /\ wfailed s = 1.
Proof. vm_compute. repeat split; reflexivity. Qed.

Example reader_run_example :
  let '(s0, e0) := ropen rfixed [(74, [1; 2]); (85, [3; 4]); (28, [])] 80 0 (-1) in
  run_ops rfixed s0 [RRead 2; RRead 1; RSeek 1 0; RRead 2] = [(0, [1; 2]); (1, []); (1, []); (1, [])].
Proof. vm_compute. reflexivity. Qed.
