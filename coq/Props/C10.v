(** C10 — truncated or corrupted streams are never read as different valid
    data.  Statements only; proofs in Proofs/Corrupt.v.

    [read_member], [read_stream], [gz_body] are the byte-level model of
    bgzf.Reader on arbitrary bytes (Model/Corrupt.v); [inflate], [crc32] and
    [deflate] are Section variables: the theorems hold for every DEFLATE codec
    satisfying the stated law and every checksum function with 32-bit values.
    [mk_member d] is the member bgzf.Writer emits for the data block [d];
    [stream ds] the concatenation of the members of [ds] (the EOF marker is
    the member of the empty block). *)
From Coq Require Import ZArith List Bool.
From Hts Require Import Base.Prim Generated Model.Corrupt Proofs.Corrupt.
Import ListNotations.
Open Scope Z_scope.

(** Truncation: for every closed stream and every cut n (also beyond the end),
    reading the first n bytes with the repaired reader yields exactly the data
    of the j complete members before the cut, and if the reader reports a
    clean end then n is exactly the end of those j members (a member
    boundary).  Partial with respect to the property text: HasEOF = false at
    such a boundary additionally needs that the last complete member is not
    byte-identical to the EOF marker (true for every non-empty block; the
    enumeration on the implementation checks it), and the BAM record layer is
    judged by the oracle only. *)
Theorem truncation_prefix_partial :
  forall (inflate : list Z -> option (list Z * list Z)) (crc32 : list Z -> Z) (deflate : list Z -> list Z),
    (forall d r, inflate (deflate d ++ r) = Some (d, r)) ->
    forall ds (n fuel : nat), Forall (wf crc32 deflate) ds -> (length ds < fuel)%nat ->
    exists j, (j <= length ds)%nat /\
      fst (read_stream inflate crc32 true fuel (firstn n (stream crc32 deflate ds))) = concat (firstn j ds) /\
      (length (stream crc32 deflate (firstn j ds)) <= n)%nat /\
      (snd (read_stream inflate crc32 true fuel (firstn n (stream crc32 deflate ds))) = true ->
         (n <= length (stream crc32 deflate ds))%nat -> n = length (stream crc32 deflate (firstn j ds))).
Proof. exact truncation_gen. Qed.
Print Assumptions truncation_prefix_partial.

(** A member cut anywhere strictly inside (1 .. size-1 bytes) is an error,
    never a clean end, for the repaired reader. *)
Theorem truncated_member_fails :
  forall (inflate : list Z -> option (list Z * list Z)) (crc32 : list Z -> Z) (deflate : list Z -> list Z),
    (forall d r, inflate (deflate d ++ r) = Some (d, r)) ->
    forall d (n : nat), wf crc32 deflate d -> (0 < n)%nat -> Z.of_nat n < zlen (mk_member crc32 deflate d) ->
    read_member inflate crc32 true (firstn n (mk_member crc32 deflate d)) = RErr.
Proof. exact read_member_cut. Qed.
Print Assumptions truncated_member_fails.

(** The untouched stream reads back completely, and ends cleanly (both reader variants). *)
Theorem closed_stream_reads_back :
  forall (inflate : list Z -> option (list Z * list Z)) (crc32 : list Z -> Z) (deflate : list Z -> list Z),
    (forall d r, inflate (deflate d ++ r) = Some (d, r)) ->
    forall strict ds fuel, Forall (wf crc32 deflate) ds -> (length ds < fuel)%nat ->
    read_stream inflate crc32 strict fuel (stream crc32 deflate ds) = (concat ds, true).
Proof. exact read_stream_full. Qed.
Print Assumptions closed_stream_reads_back.

(** The reader before the repairs (commits e25c7d3, de84507): a stream cut
    right after the 18-byte header of its first member is a clean end. *)
Theorem truncation_prefix_refuted_before_repair :
  exists bs, read_member inflate0 crc32_impl false bs = REof /\ bs <> [] /\
             read_member inflate0 crc32_impl true bs = RErr.
Proof.
  exists [31; 139; 8; 4; 0; 0; 0; 0; 0; 255; 6; 0; 66; 67; 2; 0; 40; 0].
  vm_compute. repeat split; try reflexivity. discriminate.
Qed.
Print Assumptions truncation_prefix_refuted_before_repair.

(** Framing (CRC-32 / ISIZE): with the payload intact, any eight bytes other
    than the true trailer are rejected.  Partial with respect to "any framing
    byte": substitutions in the gzip header, XLEN, the BC subfield and BSIZE
    are decided by enumeration on the implementation (all 256 values), not by
    theorem. *)
Theorem corruption_framing_partial :
  forall (inflate : list Z -> option (list Z * list Z)) (crc32 : list Z -> Z) (deflate : list Z -> list Z),
    (forall d r, inflate (deflate d ++ r) = Some (d, r)) ->
    forall d f c0 c1 c2 c3 s0 s1 s2 s3, wf crc32 deflate d ->
    all_bytes [c0; c1; c2; c3; s0; s1; s2; s3] = true ->
    [c0; c1; c2; c3; s0; s1; s2; s3] <> trailer crc32 d ->
    gz_body inflate crc32 (S f) (deflate d ++ [c0; c1; c2; c3; s0; s1; s2; s3]) [] = None.
Proof. exact trailer_corruption. Qed.
Print Assumptions corruption_framing_partial.

(** Payload: whatever bytes stand in the place of the deflate stream, data is
    only accepted together with eight following bytes that are its CRC-32 and
    its length mod 2^32.  So a substitution inside the payload fails, or
    yields the original data, or yields data whose CRC-32 and length equal the
    stored ones — the last case cannot be excluded by proof. *)
Theorem corruption_payload_partial :
  forall (inflate : list Z -> option (list Z * list Z)) (crc32 : list Z -> Z),
    forall f bdy acc out,
    gz_body inflate crc32 (S f) bdy acc = Some out ->
    exists d1 c0 c1 c2 c3 s0 s1 s2 s3 rest2,
      inflate bdy = Some (d1, c0 :: c1 :: c2 :: c3 :: s0 :: s1 :: s2 :: s3 :: rest2) /\
      le32 [c0; c1; c2; c3] = crc32 d1 /\ le32 [s0; s1; s2; s3] = zlen d1 mod 4294967296.
Proof. exact gz_body_crc. Qed.
Print Assumptions corruption_payload_partial.

(** The code in /repo is the repaired one. *)
Theorem reader_source_strict : bgzf_reader_strict = true.
Proof. exact reader_strict. Qed.
Print Assumptions reader_source_strict.

(** Non-vacuity: the laws are satisfiable (stored deflate + CRC-32 in Coq) and a
    concrete two-member stream reads back; its cuts behave as stated. *)
Example stored_stream_example :
  let s := [31; 139; 8; 4; 0; 0; 0; 0; 0; 255; 6; 0; 66; 67; 2; 0; 37; 0; 0; 2; 0; 253; 255; 7; 9; 1; 0; 0; 255; 255; 156; 60; 68; 119; 2; 0; 0; 0;
            31; 139; 8; 4; 0; 0; 0; 0; 0; 255; 6; 0; 66; 67; 2; 0; 30; 0; 1; 0; 0; 255; 255; 0; 0; 0; 0; 0; 0; 0; 0;
            31; 139; 8; 4; 0; 0; 0; 0; 0; 255; 6; 0; 66; 67; 2; 0; 27; 0; 3; 0; 0; 0; 0; 0; 0; 0; 0; 0] in
  read_all inflate0 crc32_impl true s = ([7; 9], true) /\
  read_all inflate0 crc32_impl true (firstn 38 s) = ([7; 9], true) /\
  read_all inflate0 crc32_impl true (firstn 56 s) = ([7; 9], false) /\
  read_all inflate0 crc32_impl false (firstn 56 s) = ([7; 9], true) /\
  read_all inflate0 crc32_impl true (firstn 20 s) = ([], false) /\
  has_eof s = 1 /\ has_eof (firstn 38 s) = 0.
Proof. vm_compute. repeat split; reflexivity. Qed.
