(** C10 — truncated or corrupted streams are never read as different valid
    data.  Statements only; proofs in Proofs/Corrupt.v.

    [read_member], [read_stream], [gz_body] are the byte-level model of
    bgzf.Reader on arbitrary bytes (Model/Corrupt.v); [inflate], [crc32] and
    [deflate] are Section variables: the theorems hold for every DEFLATE codec
    satisfying the stated law and every checksum function with 32-bit values.
    [mk_member d] is the member bgzf.Writer emits for the data block [d];
    [stream ds] the concatenation of the members of [ds] (the EOF marker is
    the member of the empty block). *)
From Coq Require Import ZArith List Bool.
From Hts Require Import Base.Prim Generated Model.Corrupt Model.BamFrame Proofs.Corrupt Proofs.CorruptMore Proofs.CorruptFraming.
From Hts Require Model.HasEof.
Import ListNotations.
Open Scope Z_scope.

(** Truncation: for every closed stream and every cut n (also beyond the end),
    reading the first n bytes with the repaired reader yields exactly the data
    of the j complete members before the cut, and if the reader reports a
    clean end then n is exactly the end of those j members (a member
    boundary).  Partial with respect to the property text: HasEOF = false at
    such a boundary additionally needs that the last complete member is not
    byte-identical to the EOF marker (true for every non-empty block; the
    enumeration on the implementation checks it), and the BAM record layer is
    judged by the oracle only. *)
Theorem truncation_prefix_partial :
  forall (inflate : list Z -> option (list Z * list Z)) (crc32 : list Z -> Z) (deflate : list Z -> list Z),
    (forall d r, inflate (deflate d ++ r) = Some (d, r)) ->
    forall ds (n fuel : nat), Forall (wf crc32 deflate) ds -> (length ds < fuel)%nat ->
    exists j, (j <= length ds)%nat /\
      fst (read_stream inflate crc32 true fuel (firstn n (stream crc32 deflate ds))) = concat (firstn j ds) /\
      (length (stream crc32 deflate (firstn j ds)) <= n)%nat /\
      (snd (read_stream inflate crc32 true fuel (firstn n (stream crc32 deflate ds))) = true ->
         (n <= length (stream crc32 deflate ds))%nat -> n = length (stream crc32 deflate (firstn j ds))).
Proof. exact truncation_gen. Qed.
Print Assumptions truncation_prefix_partial.

(** A member cut anywhere strictly inside (1 .. size-1 bytes) is an error,
    never a clean end, for the repaired reader. *)
Theorem truncated_member_fails :
  forall (inflate : list Z -> option (list Z * list Z)) (crc32 : list Z -> Z) (deflate : list Z -> list Z),
    (forall d r, inflate (deflate d ++ r) = Some (d, r)) ->
    forall d (n : nat), wf crc32 deflate d -> (0 < n)%nat -> Z.of_nat n < zlen (mk_member crc32 deflate d) ->
    read_member inflate crc32 true (firstn n (mk_member crc32 deflate d)) = RErr.
Proof. exact read_member_cut. Qed.
Print Assumptions truncated_member_fails.

(** The untouched stream reads back completely, and ends cleanly (both reader variants). *)
Theorem closed_stream_reads_back :
  forall (inflate : list Z -> option (list Z * list Z)) (crc32 : list Z -> Z) (deflate : list Z -> list Z),
    (forall d r, inflate (deflate d ++ r) = Some (d, r)) ->
    forall strict ds fuel, Forall (wf crc32 deflate) ds -> (length ds < fuel)%nat ->
    read_stream inflate crc32 strict fuel (stream crc32 deflate ds) = (concat ds, true).
Proof. exact read_stream_full. Qed.
Print Assumptions closed_stream_reads_back.

(** The reader before the repairs (commits e25c7d3, de84507): a stream cut
    right after the 18-byte header of its first member is a clean end. *)
Theorem truncation_prefix_refuted_before_repair :
  exists bs, read_member inflate0 crc32_impl false bs = REof /\ bs <> [] /\
             read_member inflate0 crc32_impl true bs = RErr.
Proof.
  exists [31; 139; 8; 4; 0; 0; 0; 0; 0; 255; 6; 0; 66; 67; 2; 0; 40; 0].
  vm_compute. repeat split; try reflexivity. discriminate.
Qed.
Print Assumptions truncation_prefix_refuted_before_repair.

(** Framing (CRC-32 / ISIZE): with the payload intact, any eight bytes other
    than the true trailer are rejected.  Partial with respect to "any framing
    byte": substitutions in the gzip header, XLEN, the BC subfield and BSIZE
    are decided by enumeration on the implementation (all 256 values), not by
    theorem. *)
Theorem corruption_framing_partial :
  forall (inflate : list Z -> option (list Z * list Z)) (crc32 : list Z -> Z) (deflate : list Z -> list Z),
    (forall d r, inflate (deflate d ++ r) = Some (d, r)) ->
    forall d f c0 c1 c2 c3 s0 s1 s2 s3, wf crc32 deflate d ->
    all_bytes [c0; c1; c2; c3; s0; s1; s2; s3] = true ->
    [c0; c1; c2; c3; s0; s1; s2; s3] <> trailer crc32 d ->
    gz_body inflate crc32 (S f) (deflate d ++ [c0; c1; c2; c3; s0; s1; s2; s3]) [] = None.
Proof. exact trailer_corruption. Qed.
Print Assumptions corruption_framing_partial.

(** Payload: whatever bytes stand in the place of the deflate stream, data is
    only accepted together with eight following bytes that are its CRC-32 and
    its length mod 2^32.  So a substitution inside the payload fails, or
    yields the original data, or yields data whose CRC-32 and length equal the
    stored ones — the last case cannot be excluded by proof. *)
Theorem corruption_payload_partial :
  forall (inflate : list Z -> option (list Z * list Z)) (crc32 : list Z -> Z),
    forall f bdy acc out,
    gz_body inflate crc32 (S f) bdy acc = Some out ->
    exists d1 c0 c1 c2 c3 s0 s1 s2 s3 rest2,
      inflate bdy = Some (d1, c0 :: c1 :: c2 :: c3 :: s0 :: s1 :: s2 :: s3 :: rest2) /\
      le32 [c0; c1; c2; c3] = crc32 d1 /\ le32 [s0; s1; s2; s3] = zlen d1 mod 4294967296.
Proof. exact gz_body_crc. Qed.
Print Assumptions corruption_payload_partial.

(** Truncation, full statement.  [ds] are the data blocks of a closed stream
    (all non-empty; the final member is the member of the empty block, i.e. the
    EOF marker), [rs] the BAM records whose length-prefixed encodings make up the
    data ([concat ds = flat rs]; blocks and records may be cut against each other
    in any way).  For every PROPER prefix of the stream: the BGZF layer yields
    exactly the data of the j complete members before the cut; if it ends
    cleanly the cut is exactly the end of those j members AND the prefix does
    not end with the EOF marker (HasEOF is not true); the BAM layer on top
    yields exactly the first k records, and if both layers end cleanly the data
    delivered ends exactly at the end of the k-th record (a record boundary) —
    a cut inside a record, inside a length prefix or right behind one is an
    error (bam/reader.go after 8134fd9). *)
Theorem truncation_prefix :
  forall (inflate : list Z -> option (list Z * list Z)) (crc32 : list Z -> Z) (deflate : list Z -> list Z),
    (forall d r, inflate (deflate d ++ r) = Some (d, r)) ->
    forall ds rs (n fuel fuel2 : nat),
    Forall (wf crc32 deflate) ds -> Forall (fun d => d <> []) ds -> wf crc32 deflate [] ->
    (length ds + 1 < fuel)%nat -> Forall okrec rs -> concat ds = flat rs -> (length rs < fuel2)%nat ->
    (n < length (stream crc32 deflate (ds ++ [[]])))%nat ->
    let L := read_stream inflate crc32 true fuel (firstn n (stream crc32 deflate (ds ++ [[]]))) in
    let B := bam_recs true fuel2 (fst L) in
    exists j k, (j <= length ds)%nat /\
      fst L = concat (firstn j ds) /\ (length (stream crc32 deflate (firstn j ds)) <= n)%nat /\
      fst B = firstn k rs /\
      (snd L = true -> n = length (stream crc32 deflate (firstn j ds)) /\
                       has_eof (firstn n (stream crc32 deflate (ds ++ [[]]))) <> 1) /\
      (snd L && snd B = true -> length (fst L) = length (flat (firstn k rs))).
Proof. exact truncation_full. Qed.
Print Assumptions truncation_prefix.

(** The Go function bgzf.HasEOF (model of C08: Model/HasEof.v, size expressions
    read off the source) does not answer true on such a prefix, whatever kind
    of io.ReaderAt it is given and wherever its cursor stands. *)
Theorem truncation_haseof_go :
  forall bs k p, has_eof bs <> 1 -> 0 <= p <= zlen bs ->
    Model.HasEof.haseof_go {| Model.HasEof.he_data := bs; Model.HasEof.he_pos := p; Model.HasEof.he_methods := Some k |} <> Ok true.
Proof. exact haseof_go_not_true. Qed.
Print Assumptions truncation_haseof_go.

(** The record layer alone: every prefix of a record stream yields the records
    wholly before the cut, and a clean end only exactly at a record boundary. *)
Theorem bam_truncation :
  forall (inflate : list Z -> option (list Z * list Z)) (crc32 : list Z -> Z) (deflate : list Z -> list Z),
    (forall d r, inflate (deflate d ++ r) = Some (d, r)) ->   (* not used by the record layer; kept from the section *)
  forall rs (m fuel : nat), Forall okrec rs -> (length rs < fuel)%nat ->
    exists k, (k <= length rs)%nat /\
      fst (bam_recs true fuel (firstn m (flat rs))) = firstn k rs /\
      (length (flat (firstn k rs)) <= m)%nat /\
      (snd (bam_recs true fuel (firstn m (flat rs))) = true -> (m <= length (flat rs))%nat -> m = length (flat (firstn k rs))).
Proof. exact bam_truncation_gen. Qed.
Print Assumptions bam_truncation.

(** Framing, BSIZE: whatever the two size bytes of a member are replaced with,
    the stream from that member on is rejected at that member or read back
    EXACTLY.  The second case includes an announced size that spans this member
    and the following ones exactly: gzip's multistream mode joins the members
    inside the announced region, so the data is the original data.  Uses the
    second DEFLATE law: a proper prefix of a deflate stream does not decode. *)
Theorem corruption_framing_bsize :
  forall (inflate : list Z -> option (list Z * list Z)) (crc32 : list Z -> Z) (deflate : list Z -> list Z),
    (forall d r, inflate (deflate d ++ r) = Some (d, r)) ->
    (forall d (t : nat), (t < length (deflate d))%nat -> inflate (firstn t (deflate d)) = None) ->
    forall lo hi d ds fuel, wf crc32 deflate d -> Forall (wf crc32 deflate) ds -> (length ds < fuel)%nat ->
    let r := read_stream inflate crc32 true (S fuel) (header' lo hi ++ body crc32 deflate d ++ stream crc32 deflate ds) in
    r = ([], false) \/ r = (concat (d :: ds), true).
Proof. exact bsize_corruption_gen. Qed.
Print Assumptions corruption_framing_bsize.

(** Framing, ID1 ID2 CM: any other value is rejected. *)
Theorem corruption_framing_magic :
  forall (inflate : list Z -> option (list Z * list Z)) (crc32 : list Z -> Z) strict b0 b1 b2 tl,
    (b0 =? 31) && (b1 =? 139) && (b2 =? 8) = false ->
    read_member inflate crc32 strict (b0 :: b1 :: b2 :: tl) = RErr.
Proof. exact magic_corruption. Qed.
Print Assumptions corruption_framing_magic.

(** Framing, FLG: with FEXTRA kept and FHCRC/FNAME/FCOMMENT clear the other
    bits are not looked at: the member is read exactly as the original.
    Partial with respect to "every FLG value": FEXTRA cleared, or one of
    FHCRC/FNAME/FCOMMENT set, and substitutions in XLEN, SI1, SI2, SLEN are
    decided by enumeration of all 256 values on the implementation only
    (with FNAME/FCOMMENT or a larger XLEN the payload is entered at another
    offset, so only [corruption_payload_partial] applies). *)
Theorem corruption_framing_flg_partial :
  forall (inflate : list Z -> option (list Z * list Z)) (crc32 : list Z -> Z) strict v tl,
    Z.testbit v 2 = true -> Z.testbit v 1 = false -> Z.testbit v 3 = false -> Z.testbit v 4 = false ->
    read_member inflate crc32 strict (31 :: 139 :: 8 :: v :: tl) = read_member inflate crc32 strict (31 :: 139 :: 8 :: 4 :: tl).
Proof. exact flg_ignored_bits_member. Qed.
Print Assumptions corruption_framing_flg_partial.

(** Capacity: the reader's block buffer holds MaxBlockSize bytes and readToEOF
    checks for further data exactly when the buffer is full (the guard constant
    is read off bgzf/cache.go by gen/).  A member — or members joined by a
    corrupted BSIZE — that inflates to more is rejected; this is what
    [corruption_framing_bsize] relies on when the joined data is too large. *)
Theorem reader_capacity_guard :
  bgzf_readToEOF_guard = bgzf_MaxBlockSize /\
  forall (inflate : list Z -> option (list Z * list Z)) (crc32 : list Z -> Z) f bdy acc out,
    gz_body inflate crc32 f bdy acc = Some out -> zlen out <= bgzf_MaxBlockSize.
Proof. exact capacity_gen. Qed.
Print Assumptions reader_capacity_guard.

(** The code in /repo is the repaired one. *)
Theorem reader_source_strict : bgzf_reader_strict = true.
Proof. exact reader_strict. Qed.
Print Assumptions reader_source_strict.

(** Non-vacuity: the laws are satisfiable (stored deflate + CRC-32 in Coq) and a
    concrete two-member stream reads back; its cuts behave as stated. *)
Example stored_stream_example :
  let s := [31; 139; 8; 4; 0; 0; 0; 0; 0; 255; 6; 0; 66; 67; 2; 0; 37; 0; 0; 2; 0; 253; 255; 7; 9; 1; 0; 0; 255; 255; 156; 60; 68; 119; 2; 0; 0; 0;
            31; 139; 8; 4; 0; 0; 0; 0; 0; 255; 6; 0; 66; 67; 2; 0; 30; 0; 1; 0; 0; 255; 255; 0; 0; 0; 0; 0; 0; 0; 0;
            31; 139; 8; 4; 0; 0; 0; 0; 0; 255; 6; 0; 66; 67; 2; 0; 27; 0; 3; 0; 0; 0; 0; 0; 0; 0; 0; 0] in
  read_all inflate0 crc32_impl true s = ([7; 9], true) /\
  read_all inflate0 crc32_impl true (firstn 38 s) = ([7; 9], true) /\
  read_all inflate0 crc32_impl true (firstn 56 s) = ([7; 9], false) /\
  read_all inflate0 crc32_impl false (firstn 56 s) = ([7; 9], true) /\
  read_all inflate0 crc32_impl true (firstn 20 s) = ([], false) /\
  has_eof s = 1 /\ has_eof (firstn 38 s) = 0.
Proof. vm_compute. repeat split; reflexivity. Qed.
