(** C11 — decoders are total: any bytes give a value or an error, never a panic
    or a hang; values returned without error can be passed to the library's own
    accessors, formatters, writers and index builders without a panic.

    Statements only; the models are in Model/Dec*.v (panic-aware: every Go
    index / slice expression, make with a data-dependent length, nil
    dereference and explicit panic is a checked operation; loops carry fuel and
    running out of fuel is [Stuck]), the proofs in Proofs/Dec*.v.
    [safe o] means: o is neither [Panic _] nor [Stuck].
    [c11_Consumes], [c11_OpString], [c11_jumps], [c11_consume], [c11_powers],
    [itf8_Decode] are regenerated from the Go source on every run. *)
From Coq Require Import ZArith List Bool.
From Hts Require Import Base.Prim Base.DecBase Generated
  Model.DecText Model.DecBam Model.DecIndex Model.DecCram Model.DecBgzf Model.DecSam Model.Fai Model.DecQuery
  Proofs.DecText Proofs.DecBam Proofs.DecIndex Proofs.DecCram Proofs.DecBgzf Proofs.DecSam Proofs.DecQuery.
Open Scope Z_scope.

(* ------------------------------------------------ CIGAR tables and accessors *)

(** CigarOpType.Consumes and String (translated from the Go source) return for
    every operation type byte; in particular for the types 10..15 a BAM record
    can carry. *)
Theorem cigar_optype_lookups_total :
  forall ct, 0 <= ct -> safe (c11_Consumes ct) /\ safe (c11_OpString ct).
Proof. exact cigar_optype_lookups_total_gen. Qed.
Print Assumptions cigar_optype_lookups_total.

(** Record.End, Cigar.IsValid and Cigar.Lengths return for every list of 32 bit
    CIGAR words, every position and every flag. *)
Theorem cigar_accessors_total :
  forall unmapped pos c len,
    safe (record_end unmapped pos c) /\ safe (cigar_is_valid c len) /\ safe (lengths_loop 0 0 c).
Proof. exact cigar_accessors_total_gen. Qed.
Print Assumptions cigar_accessors_total.

(** ParseCigar (with atoi and NewCigarOp's explicit panic) returns a value or an
    error on every byte string and its loops terminate. *)
Theorem parse_cigar_total : forall b, safe (parse_cigar b).
Proof. exact parse_cigar_total_gen. Qed.
Print Assumptions parse_cigar_total.

Theorem parse_cigar_value_safe :
  forall b c unmapped pos len, parse_cigar b = Ok c ->
    safe (record_end unmapped pos c) /\ safe (cigar_is_valid c len) /\ safe (lengths_loop 0 0 c).
Proof. exact parse_cigar_value_safe_gen. Qed.
Print Assumptions parse_cigar_value_safe.

(* --------------------------------------------------------- SAM header text *)

(** Header.UnmarshalText with the five line parsers: for every text and every
    answer of the library / header-state dependent checks. *)
Theorem header_text_total : forall lib text, safe (unmarshal_header_text lib text).
Proof. exact unmarshal_header_text_total_gen. Qed.
Print Assumptions header_text_total.

(** sam.Reader.Read line trimming: ReadBytes returns at least the delimiter
    unless it reports EOF. An empty line is handed on and rejected by
    UnmarshalSAM's field count. *)
Theorem sam_read_line_total :
  forall b eof, (eof = false -> 1 <= zlen b) -> safe (sam_read_line b eof).
Proof. exact sam_read_line_total_gen. Qed.
Print Assumptions sam_read_line_total.

Theorem sam_empty_line_rejected : forall l, zlen l = 0 -> sam_field_count l = Err 1.
Proof. exact sam_empty_line_rejected_gen. Qed.
Print Assumptions sam_empty_line_rejected.

(** ParseAux: for every text and every answer of strconv. *)
Theorem parse_aux_total : forall lib text, safe (parse_aux lib text).
Proof. exact parse_aux_total_gen. Qed.
Print Assumptions parse_aux_total.

(** Every Aux that ParseAux returns is accepted by Tag, Type, Kind, Value and
    String, hence by MarshalSAM and by buildAux (bam.Writer.Write). *)
Theorem parse_aux_value_safe :
  forall lib text a, all_bytes text = true -> zlen text < 2 ^ 31 -> parse_aux lib text = Ok a -> aux_wf a.
Proof. exact parse_aux_value_safe_gen. Qed.
Print Assumptions parse_aux_value_safe.

(** Record.UnmarshalSAM as a whole: field split and count, flags / positions /
    mapping quality (strconv), reference look-ups, ParseCigar, NewSeq/contract,
    Cigar.IsValid, QUAL handling, the aux loop with ParseAux. *)
Theorem unmarshal_sam_total :
  forall lib b, all_bytes b = true -> zlen b < 2 ^ 31 -> safe (unmarshal_sam lib b).
Proof. exact unmarshal_sam_total_gen. Qed.
Print Assumptions unmarshal_sam_total.

(** ... and the record it returns is accepted by End/Bin/Len, IsValid, Lengths,
    Seq.Expand (String, MarshalSAM), every Aux accessor and buildAux. *)
Theorem unmarshal_sam_value_safe :
  forall lib b r, all_bytes b = true -> zlen b < 2 ^ 31 -> unmarshal_sam lib b = Ok r -> safe (srec_accessors r).
Proof. exact unmarshal_sam_value_safe_gen. Qed.
Print Assumptions unmarshal_sam_value_safe.

(* --------------------------------------------------------------------- BAM *)

(** parseAux: on every aux block (of less than 2 GiB) it returns, and every
    field it hands out is accepted by Tag, Type, Kind, Value and String. *)
Theorem bam_parse_aux_total :
  forall aux, all_bytes aux = true -> zlen aux < 2 ^ 31 ->
    safe (bam_parse_aux aux) /\ forall aa, bam_parse_aux aux = Ok aa -> Forall aux_wf aa.
Proof. exact bam_parse_aux_ok. Qed.
Print Assumptions bam_parse_aux_total.

(** Reader.Read after newBuffer: every record block, every Omit setting, every
    number of header references. *)
Theorem bam_record_total :
  forall data omit nrefs, all_bytes data = true -> zlen data < 2 ^ 31 -> safe (bam_record data omit nrefs).
Proof. exact bam_record_total_gen. Qed.
Print Assumptions bam_record_total.

(** A record that Read returns can be given to End / Bin / Len, IsValid,
    Lengths, Seq.Expand (String, MarshalSAM), every Aux accessor and buildAux
    (bam.Writer.Write). *)
Theorem bam_record_value_safe :
  forall data omit nrefs r, all_bytes data = true -> zlen data < 2 ^ 31 ->
    bam_record data omit nrefs = Ok r -> safe (record_accessors r).
Proof. exact bam_record_value_safe_gen. Qed.
Print Assumptions bam_record_value_safe.

(** The BAM reader top level: NewReader (magic, header text, reference records)
    and Read called until its first error, over every byte string the BGZF layer
    can deliver (a source that fails at offset k is observed as the string cut at
    k): no panic, termination, and every record returned on the way is safe. *)
Theorem bam_reader_total :
  forall lib refs_ok omit s, all_bytes s = true ->
    safe (bam_reader lib refs_ok omit s) /\
    forall rs, bam_reader lib refs_ok omit s = Ok rs -> Forall (fun r => safe (record_accessors r)) rs.
Proof. exact bam_reader_ok. Qed.
Print Assumptions bam_reader_total.

(** Header.DecodeBinary (lText, nRef, lName feeding make; name[n-1]). *)
Theorem binary_header_total : forall lib refs_ok s, safe (decode_binary_header lib refs_ok s).
Proof. exact decode_binary_header_total_gen. Qed.
Print Assumptions binary_header_total.

(* ----------------------------------------------------------------- indexes *)

Theorem bai_read_total : forall s, safe (bam_read_index s).
Proof. exact bam_read_index_total_gen. Qed.
Print Assumptions bai_read_total.

Theorem tabix_read_total : forall s, safe (tabix_read_from s).
Proof. exact tabix_read_from_total_gen. Qed.
Print Assumptions tabix_read_total.

Theorem csi_read_total : forall s, safe (csi_read_from s).
Proof. exact csi_read_from_total_gen. Qed.
Print Assumptions csi_read_total.

(** Value safety of the index readers on the query side: csi.Index.Chunks answers
    every interval (empty, reversed, negative, beyond the geometry) on every
    geometry csi.ReadFrom accepts, and internal.Index.Chunks (BAI, tabix) every
    interval for every length of the linear index: rejected / nil, or the tile
    index is inside Intervals and the uint32 bin enumeration terminates.
    (sort.Search, the merge strategies and the writers are exercised by the
    fuzz run only.) *)
Theorem csi_chunks_query_total :
  forall minShift depth beg end_, 0 <= minShift -> 0 <= depth <= 9 -> minShift + 3 * depth <= 63 ->
    safe (csi_chunks_query minShift depth beg end_).
Proof. exact csi_chunks_query_total_gen. Qed.
Print Assumptions csi_chunks_query_total.

Theorem bai_chunks_query_total : forall nintv beg end_, 0 <= nintv -> safe (bai_chunks_query nintv beg end_).
Proof. exact bai_chunks_query_total_gen. Qed.
Print Assumptions bai_chunks_query_total.

(** fai.ReadFrom's conversion of a five field record: the *csv.ParseError panic
    of mustAtoi is the only panic and it is recovered. *)
Theorem fai_record_total : forall conv fields, zlen fields = 5 -> safe (fai_record conv fields).
Proof. exact fai_record_total_gen. Qed.
Print Assumptions fai_record_total.

(** ... and a text line of any shape (the reader on main splits at tabs and checks the count itself). *)
Theorem fai_line_total : forall conv text, safe (fai_line conv text).
Proof. exact fai_line_total_gen. Qed.
Print Assumptions fai_line_total.

(** Record.Position on every in-range position of an accepted record. *)
Theorem fai_position_value_safe :
  forall conv fields r p, zlen fields = 5 -> fai_record conv fields = Ok r -> 0 <= p < f_len r -> safe (fai_position r p).
Proof. exact fai_position_value_safe_gen. Qed.
Print Assumptions fai_position_value_safe.

(** fai.NewIndex (model of the C19 development): an index or one of its
    errors (including bufio.Scanner's token limit, which that model now has) on
    every byte string. *)
Theorem fai_newindex_total : forall file, safe (newindex file).
Proof. exact fai_newindex_total_gen. Qed.
Print Assumptions fai_newindex_total.

(* -------------------------------------------------------------------- CRAM *)

(** errorReader.itf8slice (count from the input feeds make). *)
Theorem cram_itf8slice_total : forall r, all_bytes (e_s r) = true -> safe (er_itf8slice r).
Proof. exact er_itf8slice_total_gen. Qed.
Print Assumptions cram_itf8slice_total.

(** Block.readFrom, for both answers of the CRC comparison. *)
Theorem cram_block_read_total : forall crc_ok s, all_bytes s = true -> safe (block_read crc_ok s).
Proof. exact block_read_total_gen. Qed.
Print Assumptions cram_block_read_total.

(** Container.readFrom (ITF-8 and LTF-8 header fields, landmarks array, CRC). *)
Theorem cram_container_read_total : forall crc_ok s, all_bytes s = true -> safe (container_read crc_ok s).
Proof. exact container_read_total_gen. Qed.
Print Assumptions cram_container_read_total.

(** Slice.readFrom (block id array from an ITF-8 count). *)
Theorem cram_slice_read_total : forall data, all_bytes data = true -> safe (slice_read data).
Proof. exact slice_read_total_gen. Qed.
Print Assumptions cram_slice_read_total.

(** Block.Value for every block (file header, slice header, data blocks of every
    method), every answer of the decompressors and of the header library calls. *)
Theorem cram_block_value_safe :
  forall unz lib b,
    all_bytes (k_data b) = true -> (forall m d x, unz m d = Some x -> all_bytes x = true) ->
    safe (block_value unz lib b).
Proof. exact block_value_safe_gen. Qed.
Print Assumptions cram_block_value_safe.

(* -------------------------------------------------------------------- BGZF *)

(** expectedMemberSize (translated from bgzf/reader.go) returns for every Extra
    field, whatever position bytes.Index reports for the BC subfield prefix:
    h.Extra[i+4] and h.Extra[i+5] are covered by the guard in front of them. *)
Theorem bgzf_member_size_total :
  forall (bytes_index : list Z -> list Z -> Z) extra, safe (c11_expectedMemberSize bytes_index extra).
Proof. exact expectedMemberSize_safe. Qed.
Print Assumptions bgzf_member_size_total.

(** decompressor.readMember: the gzip member header walk (FEXTRA/XLEN, FNAME,
    FCOMMENT, FHCRC), expectedMemberSize, need = blockSize - skipped and
    r.data[:need] of the 64 KiB buffer, on every byte string. *)
Theorem bgzf_read_member_total : forall hcrc_ok s, all_bytes s = true -> safe (bgzf_read_member hcrc_ok s).
Proof. exact bgzf_read_member_total_gen. Qed.
Print Assumptions bgzf_read_member_total.

(** Reader.Seek after a failed fetch: for every history of Seek calls, every
    state of the current block (base, has data), every answer of the cache, of
    the fetch/inflate and of the in-block seek, block.seek is never applied to a
    block without data. The guard is the expression translated from the source. *)
Theorem bgzf_seek_after_failed_fetch_total : forall h st, safe (seek_history st h).
Proof. exact seek_history_safe. Qed.
Print Assumptions bgzf_seek_after_failed_fetch_total.

(* ------------------------------------------------------------- non-vacuity *)

(** A valid record block decodes to a value (hypotheses of the BAM theorems are
    satisfiable and the Ok branch is inhabited): refID 0, pos 100, name "r",
    one CIGAR op 2M, l_seq 2, aux NM:C:3. *)
Example bam_record_valid :
  let data := [0;0;0;0; 100;0;0;0; 2; 30; 0;0; 1;0; 0;0; 2;0;0;0; 255;255;255;255; 255;255;255;255; 0;0;0;0;
               114;0; 32;0;0;0; 18; 40;41; 78;77;67;3] in
  all_bytes data = true /\
  match bam_record data 0 1 with
  | Ok r => r_pos r = 100 /\ r_cigar r = [32] /\ r_lseq r = 2 /\ r_aux r = [[78;77;67;3]] /\ is_ok (record_accessors r) = true
  | _ => False
  end.
Proof. vm_compute. repeat split; reflexivity. Qed.

(** The states the checked operations guard against are reachable in the model
    when a guard is missing — the defects that were repaired in the library:
    an M5 value of 34 hex digits overruns the 16 byte digest buffer; a one byte
    Aux (early NUL in a Z field) breaks every accessor; txt[1] of "XY:B:c";
    names[len(names)-1] of an empty tabix name block; csi reg2bins on the
    unvalidated empty interval (0,0) never leaves its level 0 loop. *)
Example guards_are_needed :
  (exists v, is_panic (hex_decode 16 0 v (S (length v))) = true)
  /\ is_panic (aux_value [88]) = true
  /\ inb [99] 1 = false
  /\ inb (@nil Z) (zlen (@nil Z) - 1) = false
  /\ reg2bins 0 0 14 5 = Stuck.
Proof.
  split; [exact hex_decode_unguarded_panics|]. split; [exact (proj1 short_aux_panics)|].
  split; [exact parse_aux_B_short_would_panic|]. split; [exact tabix_empty_names_would_panic|exact reg2bins_empty_query_stuck].
Qed.
