(** C11 — decoders are total. Statements only; proofs in Proofs/Dec*.v. *)
From Coq Require Import ZArith List Bool.
From Hts Require Import Base.Prim Base.DecBase Generated Model.DecText Proofs.DecText.
Open Scope Z_scope.

Theorem header_text_total : forall lib text, safe (unmarshal_header_text lib text).
Proof. exact unmarshal_header_text_total_gen. Qed.
Print Assumptions header_text_total.
