(** C12 — the writer emits whole blocks in write order; Flush+Wait makes
    written data durable.  Statements only (vocabulary: Props/C01.v).
    [x_out st] has one element per successful Write call on the underlying
    writer; [s_sub] are the payloads of the blocks submitted so far in order,
    [s_data] all bytes accepted by Write so far; ghost marks of the model:
    [s_flushmark] = length of s_data when the last Flush returned nil,
    [s_durable]   = flush mark when the last Wait returned nil (all of s_data
                    when Close returned nil). *)
From Coq Require Import ZArith List Bool.
From Hts Require Import Base.Prim Base.WrList Generated Model.Bgzf Model.Writer Model.WriterConc
  Proofs.Bgzf Proofs.Writer Proofs.WriterConc Proofs.WriterThms Proofs.WrSkel.
Import ListNotations.
Open Scope Z_scope.

(** In every reachable state (every wc, every schedule prefix): the chunks
    delivered are exactly the members of the first k submitted blocks, one
    per underlying Write (then the marker once Close succeeded); they decode
    to a prefix of the data written so far, which is a prefix of the script's
    data; the durable mark is covered; no error, no WaitGroup panic. *)
Theorem emitted_is_block_prefix :
  forall deflate inflate crc32, codec_laws deflate inflate crc32 ->
  forall lvl h, hdr_ok h ->
  forall wc script sched,
    let st := wr_conc deflate crc32 lvl h wc script sched in
    let s := x_api st in
    exists k,
      (k <= length (s_sub s))%nat
      /\ x_out st = map (member_of deflate crc32 lvl h) (firstn k (s_sub s)) ++ (if s_eof s then [bgzf_magicBlock] else [])
      /\ gunzip_multi inflate crc32 (out_bytes st) = Some (concat (firstn k (s_sub s)))
      /\ prefix_of (concat (firstn k (s_sub s))) (s_data s)
      /\ prefix_of (s_data s) (written script)
      /\ s_durable s <= zlen (concat (firstn k (s_sub s)))
      /\ (quiescent st -> k = length (s_sub s))
      /\ x_err st = None /\ x_panic st = false.
Proof. exact emitted_is_block_prefix_gen. Qed.
Print Assumptions emitted_is_block_prefix.

(** The same for an underlying writer that FAILS: for every fault plan
    (fault k = true: the k-th Write call on the underlying writer is refused),
    every wc, script and schedule, in every reachable state the chunks the
    underlying writer accepted are the members of the first k submitted
    blocks — whole blocks in write order, decoding to a prefix of the data
    handed to Write so far; after a failure nothing more is delivered and no
    EOF marker is written. *)
Theorem emitted_is_block_prefix_faulty :
  forall deflate inflate crc32, codec_laws deflate inflate crc32 ->
  forall lvl h, hdr_ok h ->
  forall (fault : Z -> bool) wc script sched,
    let st := run_conc deflate crc32 bgzf_wr_patch_mode bgzf_wr_patch_guard bgzf_wr_overflow_check lvl h fault wc script sched in
    let s := x_api st in
    exists k,
      (k <= length (s_sub s))%nat
      /\ x_out st = map (member_of deflate crc32 lvl h) (firstn k (s_sub s)) ++ (if s_eof s then [bgzf_magicBlock] else [])
      /\ gunzip_multi inflate crc32 (out_bytes st) = Some (concat (firstn k (s_sub s)))
      /\ prefix_of (concat (firstn k (s_sub s))) (s_data s)
      /\ (x_err st <> None -> s_eof s = false)
      /\ Forall small (firstn k (s_sub s))
      /\ (s_eof s = true -> s_closed s = true /\ x_err st = None).
Proof. exact emitted_is_block_prefix_faulty_gen. Qed.
Print Assumptions emitted_is_block_prefix_faulty.

(** Once Flush and then Wait have returned nil, the stream decodes to a
    prefix of the data that contains everything written before the Flush. *)
Theorem flush_wait_durable :
  forall deflate inflate crc32, codec_laws deflate inflate crc32 ->
  forall lvl h, hdr_ok h ->
  forall wc script sched,
    let st := wr_conc deflate crc32 lvl h wc script sched in
    exists d, gunzip_multi inflate crc32 (out_bytes st) = Some d
              /\ prefix_of d (s_data (x_api st))
              /\ s_durable (x_api st) <= zlen d.
Proof. exact flush_wait_durable_gen. Qed.
Print Assumptions flush_wait_durable.

(** Close returned nil: everything written is in the stream, then the marker. *)
Theorem close_durable :
  forall deflate inflate crc32, codec_laws deflate inflate crc32 ->
  forall lvl h, hdr_ok h ->
  forall wc script sched,
    let st := wr_conc deflate crc32 lvl h wc script sched in
    s_eof (x_api st) = true ->
    x_out st = map (member_of deflate crc32 lvl h) (s_sub (x_api st)) ++ [bgzf_magicBlock]
    /\ concat (s_sub (x_api st)) = written script
    /\ gunzip_multi inflate crc32 (out_bytes st) = Some (written script)
    /\ has_eof (out_bytes st) = true.
Proof. exact close_durable_gen. Qed.
Print Assumptions close_durable.

(** bam.NewWriter = Write(header bytes); Flush(); Wait(): when it returns, the
    stream decodes to exactly the header, whatever its length. *)
Theorem bam_header_durable :
  forall deflate inflate crc32, codec_laws deflate inflate crc32 ->
  forall lvl h, hdr_ok h ->
  forall wc hb sched,
    let st := wr_conc deflate crc32 lvl h wc [OpWrite hb; OpFlush; OpWait] sched in
    cdone st = true -> gunzip_multi inflate crc32 (out_bytes st) = Some hb.
Proof. exact bam_header_durable_gen. Qed.
Print Assumptions bam_header_durable.

(** The script of that theorem is the one the source runs: after writeHeader,
    bam.NewWriterLevel calls Flush and then Wait on its BGZF writer, both
    unconditionally and nothing else (skeleton regenerated from bam/writer.go
    on every run; a Wait that has become conditional, or is gone, fails here). *)
Theorem bam_newwriter_runs_flush_wait : bam_NewWriterLevel_bg_calls = [1; 2].
Proof. reflexivity. Qed.
Print Assumptions bam_newwriter_runs_flush_wait.

Example c12_faulty_run :
  let dfl := fun (_ : Z) (d : list Z) => d ++ [0; 0] in
  let st := run_conc dfl (fun _ => 0) bgzf_wr_patch_mode bgzf_wr_patch_guard bgzf_wr_overflow_check 6 default_hdr
                     (fun k => k =? 1) 3 [OpWrite [1]; OpFlush; OpWrite [2]; OpFlush; OpWrite [3]; OpFlush; OpClose] (rr 40 4) in
  cdone st = true /\ length (x_out st) = 1%nat /\ x_err st = Some 9 /\ s_eof (x_api st) = false.
Proof. vm_compute. auto. Qed.

Example c12_run :
  let dfl := fun (_ : Z) (d : list Z) => d ++ [0; 0] in
  let st := wr_conc dfl (fun _ => 0) 6 default_hdr 1 [OpWrite [1; 2; 3]; OpFlush; OpWait] (rr 20 2) in
  cdone st = true /\ s_durable (x_api st) = 3 /\ length (x_out st) = 1%nat.
Proof. vm_compute. auto. Qed.
