(** C13 — record chunks are replayable: chunk-bounded reads return exactly the span.
    Statements only; proofs in Proofs/ChunkReaderProof.v and Proofs/ClientSim.v.
    [cr_new] / [cr_reads]: index.NewChunkReader and a sequence of
    ChunkReader.Read calls with the given buffer sizes (Model/ChunkReader.v),
    running on the reader model of C02 ([rM]: bgzf.Reader with store objects,
    rd = 1; [vM]: the same on block values). *)
From Coq Require Import ZArith List Bool Lia.
From Hts Require Import Base.Prim Model.Flat Model.Reader Model.ChunkReader
  Proofs.ReaderFlat Proofs.ChunkReaderProof Proofs.ClientSim Proofs.BamReplay Proofs.IterReplay Proofs.ChunkReaderTerm.
Import ListNotations.
Open Scope Z_scope.

(** For every well-formed file whose members are addressable, every chunk
    list that is ordered and non-overlapping in the flat stream with both ends
    of every chunk at valid offsets (block start + offset <= block length; the
    two representations of a block boundary, zero-length chunks and chunks
    ending at the start of an empty block are all allowed: [sorted_from]) and
    every sequence of buffer sizes: NewChunkReader succeeds, every Read
    returns at most its buffer, only the last Read may report an error and
    that error is io.EOF, the bytes returned so far are a prefix of the
    concatenated flat spans [tr Begin, tr End) of the chunks, and when io.EOF is
    reported nothing is left: the stream is exactly the spans.
    (Named _partial for history: termination is the separate theorem
    chunkreader_terminates below; together they are the full statement for
    addressable files.) *)
Theorem chunkreader_exact_partial :
  forall (F : file) (ch : list nat) (cs : list chunk) (bufs : list Z),
    wf_file F = true -> F <> [] -> addressable F = true ->
    sorted_from F 0 cs -> Forall (fun n => 0 <= n) bufs ->
    exists s1, cr_new (rM F ch) (fst (r_init F)) cs = Ok (s1, eNil) /\
    exists l, cr_reads (rM F ch) s1 cs bufs = Ok l /\ sizes_ok l bufs /\
      exists tail, spans F cs = concat (map fst l) ++ tail /\ reads_ok l tail.
Proof. exact chunkreader_exact_r. Qed.
Print Assumptions chunkreader_exact_partial.

(** Termination: every Read with a non-empty buffer returns bytes, or moves
    to a later block, or leaves a chunk behind ([progress]); so with buffers of
    size >= 1, after at most (chunks + 1) * (bytes owed + 1) * (members + 1)
    reads the ChunkReader has reported io.EOF, and by then it has delivered
    exactly the concatenated spans. *)
Theorem chunkreader_terminates :
  forall (F : file) (ch : list nat) (cs : list chunk) (bufs : list Z),
    wf_file F = true -> F <> [] -> addressable F = true ->
    sorted_from F 0 cs -> Forall (fun n => 1 <= n) bufs ->
    (Z.of_nat (length cs) + 1) * ((zlen (spans F cs) + 1) * (Z.of_nat (length F) + 1)) <= Z.of_nat (length bufs) ->
    exists s1 l, cr_new (rM F ch) (fst (r_init F)) cs = Ok (s1, eNil) /\
      cr_reads (rM F ch) s1 cs bufs = Ok l /\ snd (last l ([], 0)) = eEOF /\ concat (map fst l) = spans F cs.
Proof. exact chunkreader_terminates_r. Qed.
Print Assumptions chunkreader_terminates.

(** The same on the reader on block values. *)
Theorem chunkreader_exact_value_partial :
  forall (F : file) (cs : list chunk) (bufs : list Z),
    wf_file F = true -> F <> [] -> addressable F = true ->
    sorted_from F 0 cs -> Forall (fun n => 0 <= n) bufs ->
    exists s1, cr_new (vM F) (fst (v_init F)) cs = Ok (s1, eNil) /\
    exists l, cr_reads (vM F) s1 cs bufs = Ok l /\ sizes_ok l bufs /\
      exists tail, spans F cs = concat (map fst l) ++ tail /\ reads_ok l tail.
Proof. exact chunkreader_exact_v. Qed.
Print Assumptions chunkreader_exact_value_partial.

(** One Read: from any state the ChunkReader can be in (Blocked, positioned
    inside its first remaining chunk), a Read of n >= 0 bytes returns at most n
    bytes that are the next bytes still owed, and leaves such a state again, or
    reports io.EOF with nothing owed. *)
Theorem chunkreader_read_step :
  forall (F : file), wf_file F = true -> addressable F = true ->
  forall s pre m post c0 rest n, cinv F s pre m post c0 rest -> 0 <= n ->
  exists s' cs' bs e, cr_read (vM F) s (c0 :: rest) n = Ok (s', cs', bs, e) /\ zlen bs <= n /\
    ((e = eNil /\ exists R', rem F (qpos pre s) c0 rest = bs ++ R' /\ cr_post F s' cs' R') \/
     (e = eEOF /\ rem F (qpos pre s) c0 rest = bs)).
Proof. exact cr_read_spec. Qed.
Print Assumptions chunkreader_read_step.

(** bam.Reader (record-framing level, on the reader on block values, not
    Blocked).  Hypothesis about the codec, which is not modelled: from position
    p0 (just after the BAM header) to the end of the data the flat stream is a
    sequence of frames - a 4-byte little-endian length sz >= 1 followed by sz
    body bytes ([frames]); the list of frames is split as pre ++ mid ++ post
    with mid non-empty, i.e. records i..j are those of mid.
    Then: reading sequentially returns every body in order and then io.EOF;
    the chunk reported for each record has as Begin / End the canonical
    offsets of the record's two ends; and for ANY reader state reached later
    (any position, after any other replay), SetChunk(Begin of record i, End of
    record j) succeeds and reading then yields exactly the bodies of records
    i..j and then io.EOF.  Since the state is arbitrary this covers any list
    of such chunks in any order, which is what bam.Iterator runs through. *)
Theorem chunk_replay :
  forall (F : file), wf_file F = true -> addressable F = true ->
  forall (s0 : vstate) (p0 : Z) (pre mid post : list Z) (blc0 : chunk) (dflt : list Z * chunk),
    simv F s0 p0 -> frames F p0 (pre ++ mid ++ post) (total F) -> mid <> [] ->
    exists b1 recs, br_readall (vM F) (S (length (pre ++ mid ++ post))) (mkBR (vM F) s0 None blc0) = Ok (b1, recs, BEOF) /\
      map fst recs = bodies F p0 (pre ++ mid ++ post) /\
      exists rp rm rq, recs = rp ++ rm ++ rq /\ length rp = length pre /\ length rm = length mid /\
        forall (b : bstate (vM F)) (fb : fstate), sim F (br_s _ b) fb -> f_blocked fb = false ->
          exists b2, br_setchunk (vM F) b (fst (snd (hd dflt rm)), snd (snd (last rm dflt))) = Ok (b2, eNil) /\
          exists b3 l, br_readall (vM F) (S (length mid)) b2 = Ok (b3, l, BEOF) /\ map fst l = map fst rm.
Proof. exact chunk_replay_proof. Qed.
Print Assumptions chunk_replay.

(** bam.Iterator (NewIterator + Next until false), same level and hypothesis:
    for any non-empty list of chunks each running from the Begin of a record
    to the End of a later record ([rchunk_ok]: the chunk's ends are the canonical
    offsets of flat positions p and pe, with frames of sizes [rc_sizes] between
    them) - in ANY order, overlapping or repeated -, and any reader state that is
    not Blocked: the iteration yields the bodies of the first chunk's records,
    then those of the second, ..., and ends with io.EOF after exactly that many
    records. *)
Theorem iterator_replay :
  forall (F : file), wf_file F = true -> addressable F = true ->
  forall (b : bstate (vM F)) (L : list rchunk),
    simok F (br_s _ b) -> Forall (rchunk_ok F) L -> L <> [] ->
    exists b', it_run (vM F) (S (nrecs L)) b (map rc_c L) = Ok (b', all_bodies F L, eEOF).
Proof. exact iterator_replay_proof. Qed.
Print Assumptions iterator_replay.

(** The offset recorded as End after a read that returned bytes is canonical:
    it is determined by the flat position alone (the block holding the last
    byte read), whichever way the reader got there. *)
Theorem end_offset_canonical :
  forall (F : file) (o o' : voff) (p : Z), is_after F o p -> is_after F o' p -> o = o'.
Proof. exact after_unique. Qed.
Print Assumptions end_offset_canonical.

(** Non-vacuity: three members (one empty), four chunks: one inside a block,
    a zero-length chunk, one across the empty member ending in the block-end
    representation, one ending at the start of a block; buffers 2,0,3,... *)
Example c13_example :
  let F := [mkMember 0 30 [1; 2; 3]; mkMember 30 28 []; mkMember 58 31 [4; 5; 6]] in
  let cs := [((0, 0), (0, 1)); ((0, 1), (0, 1)); ((0, 2), (58, 1)); ((58, 2), (58, 3))] in
  sorted_from F 0 cs /\ spans F cs = [1; 3; 4; 6] /\
  match cr_new (rM F []) (fst (r_init F)) cs with
  | Ok (s1, _) => match cr_reads (rM F []) s1 cs [2; 0; 3; 3; 3; 3; 3; 3] with
                  | Ok l => concat (map fst l) = [1; 3; 4; 6] /\ snd (last l ([], 0)) = eEOF
                  | _ => False end
  | _ => False
  end.
Proof.
  cbv zeta. split.
  - simpl. unfold off_ok. repeat split; vm_compute; try reflexivity; discriminate.
  - split; [vm_compute; reflexivity|]. vm_compute. split; reflexivity.
Qed.

(** Non-vacuity of chunk_replay: three frames (bodies of 1, 2 and 1 bytes) cut into
    members inside a length field and at a record end; replay of records 1..2. *)
Example c13_bam_example :
  let F := [mkMember 0 30 [1; 0]; mkMember 30 30 [0; 0; 7; 2; 0; 0; 0; 8; 9]; mkMember 60 28 []; mkMember 88 31 [1; 0; 0; 0; 5]] in
  wf_file F = true /\ addressable F = true /\ frames F 0 ([1] ++ [2; 1] ++ []) (total F) /\
  match br_readall (vM F) 4 (mkBR (vM F) (fst (v_init F)) None ((0, 0), (0, 0))) with
  | Ok (b1, recs, BEOF) =>
      map fst recs = [[7]; [8; 9]; [5]] /\
      match br_setchunk (vM F) b1 (fst (snd (nth 1 recs ([], ((0,0),(0,0))))), snd (snd (nth 2 recs ([], ((0,0),(0,0)))))) with
      | Ok (b2, _) => match br_readall (vM F) 4 b2 with Ok (_, l, BEOF) => map fst l = [[8; 9]; [5]] | _ => False end
      | _ => False
      end
  | _ => False
  end.
Proof.
  cbv zeta. split; [reflexivity|]. split; [reflexivity|].
  split; [simpl frames; repeat split; try (vm_compute; reflexivity); try lia|].
  vm_compute. split; reflexivity.
Qed.
