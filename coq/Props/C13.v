(** C13 placeholder during construction (replaced below by the real statements). *)
From Hts Require Import Base.Prim Model.Flat Model.Reader Model.ChunkReader.
Open Scope Z_scope.
Theorem voffset_mono_in_block : forall f a b, a <= b -> voffset (f, a) <= voffset (f, b).
Proof. exact (fun f a b H => proj1 (Z.add_le_mono_l a b (f * 65536)) H). Qed.
Print Assumptions voffset_mono_in_block.
