(** C14 — block caches honour the Cache contract, sequentially and
    concurrently. Statements only; proofs are in Proofs/Cache.v,
    Proofs/CacheTop.v, Proofs/Atomic.v, Proofs/LockSkel.v.

    [lf_reach fifo n w cl] / [rnd_reach n w cl]: the state [w] (block store and
    cache) and the client's ownership record [cl] are reachable from an empty
    cache of capacity [n] by ANY history of operations the client protocol
    allows (Model/Cache.v: [reach], [allowedb], [cl_update]); for Random every
    operation carries arbitrary map-iteration orders. [lf_wstep fifo false] is
    the model of LRU ([fifo = false]) and FIFO ([fifo = true]) whose drop
    helper does not take the lock again; that this is what the source does is
    the first theorem, proved over the lock skeletons regenerated from
    bgzf/cache/cache.go. *)
From Coq Require Import ZArith List Bool.
From Hts Require Import Base.Prim Generated Model.Cache Model.LockSkel Model.Atomic
  Proofs.LockSkel Proofs.Cache Proofs.CacheTop Proofs.Atomic.
Import ListNotations.
Open Scope Z_scope.

(** No exported method of LRU, FIFO, Random or StatsRecorder acquires the
    mutex it already holds, on any path, including through calls of other
    methods of the same receiver; the drop helpers, called under the write
    lock, do not lock (so the model's Drop/Resize/Free are not [OStuck]). *)
Theorem no_self_deadlock :
  forallb sk_no_reacquire c14_api_locks = true
  /\ lru_relock = false /\ fifo_relock = false /\ random_relock = false.
Proof. exact (conj api_no_reacquire drop_helpers_do_not_relock). Qed.
Print Assumptions no_self_deadlock.

(** Every exported method is one critical section on every path: the mutex is
    taken once before the first access to the receiver's state, every access
    lies inside (writes under the write lock), and it is released on every
    return. This is the premise of [linearizable]. *)
Theorem one_critical_section : forallb sk_one_section c14_api_locks = true.
Proof. exact api_one_section. Qed.
Print Assumptions one_critical_section.

(** Every access to the shared state - the table, the list links and nodes
    (also through local aliases of type *node, e.g. n := c.table[k]; n.b, and
    inside the inlined helpers remove / insertAfter), cap, the statistics
    counters, the reference to the wrapped cache - on every path of every
    exported method lies between the lock and the unlock event: writes under
    the write lock, reads under the write or the read lock. This is the fact
    about the source that lets [linearizable] treat a method body as a
    sequence of micro-steps taken while the mutex is held. *)
Theorem accesses_inside_critical_section :
  forallb sk_accesses_inside c14_api_locks = true.
Proof. exact api_accesses_inside. Qed.
Print Assumptions accesses_inside_critical_section.

(** The model's classification of operations is the source's: Len, Cap and
    Peek of the three caches (nine methods) only read and do so under the
    read lock; every other cache method works under the write lock. *)
Theorem read_lock_methods_read_only :
  forallb sk_is_reader c14_reader_locks = true /\ forallb sk_is_writer c14_writer_locks = true
  /\ length c14_reader_locks = 9%nat
  /\ (length c14_reader_locks + length c14_writer_locks = length c14_cache_api_locks)%nat.
Proof. exact readers_and_writers. Qed.
Print Assumptions read_lock_methods_read_only.

(** The two mutexes guard disjoint state (cache methods: table, list, nodes,
    cap; StatsRecorder methods: its counters and the wrapped cache), and no
    function other than these methods reaches that state: the lock-free
    helpers are called only from methods, where the skeletons inline them, and
    no method starts a goroutine or builds a closure. *)
Theorem lock_domains_and_entry_points :
  forallb (sk_fields_in [FTable; FList; FNode; FCap]) c14_cache_api_locks = true
  /\ forallb (sk_fields_in [FStats; FInner]) c14_stats_api_locks = true
  /\ c14_unlocked_entry_points = 0.
Proof. exact (conj (proj1 lock_domains) (conj (proj2 lock_domains) no_unlocked_entry)). Qed.
Print Assumptions lock_domains_and_entry_points.

(** Never more than cap blocks, keys distinct - LRU and FIFO. *)
Theorem cache_cap_inv :
  forall fifo n s c cl, 1 <= n -> lf_reach fifo n (s, c) cl ->
    tlen (tab c) <= cap c /\ NoDup (map fst (tab c)) /\ 1 <= cap c.
Proof. exact lf_cap_inv_gen. Qed.
Print Assumptions cache_cap_inv.

(** The same for Random, whatever the map iteration orders. *)
Theorem cache_cap_inv_random :
  forall n s c cl, 1 <= n -> rnd_reach n (s, c) cl ->
    tlen (rtab c) <= rcap c /\ NoDup (map fst (rtab c)) /\ 1 <= rcap c.
Proof. exact rnd_cap_inv_gen. Qed.
Print Assumptions cache_cap_inv_random.

(** A full cache does not retain an unused block and is left unchanged. *)
Theorem put_refuses_unused_when_full :
  (forall fifo s c b, tlen (tab c) = cap c -> bused (s b) = false ->
     exists ev, lf_wstep fifo false (s, c) (Put b) = ((s, c), OPut ev false))
  /\ (forall s c b ch1 ch2, tlen (rtab c) = rcap c -> bused (s b) = false ->
     rnd_wstep (s, c) (Put b, ch1, ch2) = ((s, c), OPut (Some b) false)).
Proof. exact (conj lf_put_refuses_gen rnd_put_refuses_gen). Qed.
Print Assumptions put_refuses_unused_when_full.

(** On every reachable state the LRU/FIFO code takes exactly the step of the
    contract machine [spec_step] (blocks held in insertion order; evict the
    most recently inserted unused block if one is held, the oldest block
    otherwise; LRU's Get removes, FIFO's Get removes only unused blocks), with
    the same answer. *)
Theorem lru_fifo_refine_contract :
  forall fifo n s c cl o s' c' x,
    1 <= n -> lf_reach fifo n (s, c) cl -> allowedb cl o = true ->
    lf_wstep fifo false (s, c) o = ((s', c'), x) ->
    spec_wstep fifo (s, lf_abs c) o = ((s', lf_abs c'), x).
Proof. exact lf_refines_gen. Qed.
Print Assumptions lru_fifo_refine_contract.

(** Eviction policy of LRU: a Put that evicts does so only when full and for
    a used block; the victim [v] is held; if every held block is used it is
    the one inserted first, otherwise it is unused and every block inserted
    after it is used; afterwards exactly [v] is gone and [b] is newest. *)
Theorem lru_policy :
  forall n s c cl b v s' c',
    1 <= n -> lf_reach false n (s, c) cl -> allowedb cl (Put b) = true ->
    lf_wstep false false (s, c) (Put b) = ((s', c'), OPut (Some v) true) ->
    tlen (tab c) = cap c /\ bused (s b) = true /\ In v (blocks (tab c))
    /\ ((forall u, In u (blocks (tab c)) -> bused (s u) = true) -> hd_error (blocks (tab c)) = Some v)
    /\ ((exists u, In u (blocks (tab c)) /\ bused (s u) = false) ->
          bused (s v) = false /\
          exists l1 l2, blocks (tab c) = l1 ++ v :: l2 /\ forall u, In u l2 -> bused (s u) = true)
    /\ blocks (tab c') = remove Nat.eq_dec v (blocks (tab c)) ++ [b].
Proof.
  intros n s c cl b v s' c' Hn R AL ST.
  destruct (lf_policy_gen false n s c cl b v s' c' Hn R AL ST) as (V & F & U & B').
  destruct (svictim_spec s _ v V) as (I & A1 & A2). repeat split; auto; apply A2; auto.
Qed.
Print Assumptions lru_policy.

(** The same statement for FIFO (first in, first out among used blocks; its
    Get does not reorder). *)
Theorem fifo_policy :
  forall n s c cl b v s' c',
    1 <= n -> lf_reach true n (s, c) cl -> allowedb cl (Put b) = true ->
    lf_wstep true false (s, c) (Put b) = ((s', c'), OPut (Some v) true) ->
    tlen (tab c) = cap c /\ bused (s b) = true /\ In v (blocks (tab c))
    /\ ((forall u, In u (blocks (tab c)) -> bused (s u) = true) -> hd_error (blocks (tab c)) = Some v)
    /\ ((exists u, In u (blocks (tab c)) /\ bused (s u) = false) ->
          bused (s v) = false /\
          exists l1 l2, blocks (tab c) = l1 ++ v :: l2 /\ forall u, In u l2 -> bused (s u) = true)
    /\ blocks (tab c') = remove Nat.eq_dec v (blocks (tab c)) ++ [b].
Proof.
  intros n s c cl b v s' c' Hn R AL ST.
  destruct (lf_policy_gen true n s c cl b v s' c' Hn R AL ST) as (V & F & U & B').
  destruct (svictim_spec s _ v V) as (I & A1 & A2). repeat split; auto; apply A2; auto.
Qed.
Print Assumptions fifo_policy.

(** Random: whatever the iteration orders, an evicting Put happens only when
    full and for a used block, the victim is held, it is unused whenever an
    unused block is held, and afterwards exactly the victim is gone. *)
Theorem random_policy :
  forall n s c cl b ch1 ch2 v s' c',
    1 <= n -> rnd_reach n (s, c) cl -> allowedb cl (Put b) = true ->
    rnd_wstep (s, c) (Put b, ch1, ch2) = ((s', c'), OPut (Some v) true) ->
    In v (blocks (rtab c)) /\ tlen (rtab c) = rcap c /\ bused (s b) = true
    /\ ((exists u, In u (blocks (rtab c)) /\ bused (s u) = false) -> bused (s v) = false)
    /\ (forall y, In y (blocks (rtab c')) <-> (In y (blocks (rtab c)) /\ y <> v) \/ y = b).
Proof. exact rnd_policy_gen. Qed.
Print Assumptions random_policy.

(** Peek answers exactly when Get would return a block, with that block's
    NextBase; Len is the number of bases for which Peek answers; Cap is the
    capacity, and Resize sets it. *)
Theorem peek_len_cap_consistent :
  forall fifo n s c cl k, 1 <= n -> lf_reach fifo n (s, c) cl ->
    snd (lf_wstep fifo false (s, c) (Peek k)) =
      match snd (lf_wstep fifo false (s, c) (Get k)) with
      | OGet (Some b) => OPeek (Some (bnext s b))
      | _ => OPeek None
      end
    /\ snd (lf_wstep fifo false (s, c) Len) = ONum (zlen (map fst (tab c)))
    /\ NoDup (map fst (tab c))
    /\ (In k (map fst (tab c)) <-> snd (lf_wstep fifo false (s, c) (Peek k)) <> OPeek None)
    /\ snd (lf_wstep fifo false (s, c) Cap) = ONum (cap c)
    /\ (forall m, cap (snd (fst (lf_wstep fifo false (s, c) (Resize m)))) = m).
Proof. exact lf_peek_len_cap_gen. Qed.
Print Assumptions peek_len_cap_consistent.

(** Under the client protocol (LRU: a block returned by Get, reported evicted
    or not retained may be overwritten; FIFO: only one that Put hands back),
    for every history, Get k / Peek k never expose a block whose base is not k. *)
Theorem get_peek_base :
  forall fifo n s c cl k, 1 <= n -> lf_reach fifo n (s, c) cl ->
    (forall b, snd (lf_wstep fifo false (s, c) (Get k)) = OGet (Some b) -> bbase (s b) = k)
    /\ (forall nx, snd (lf_wstep fifo false (s, c) (Peek k)) = OPeek (Some nx) ->
          exists b, bbase (s b) = k /\ nx = k + bsize b).
Proof. exact lf_get_peek_base_gen. Qed.
Print Assumptions get_peek_base.

(** Random: the same, together with the Peek/Len/Cap consistency. *)
Theorem get_peek_base_random :
  forall n s c cl k ch1 ch2, 1 <= n -> rnd_reach n (s, c) cl ->
    (forall b, snd (rnd_wstep (s, c) (Get k, ch1, ch2)) = OGet (Some b) -> bbase (s b) = k)
    /\ (forall nx, snd (rnd_wstep (s, c) (Peek k, ch1, ch2)) = OPeek (Some nx) ->
          exists b, bbase (s b) = k /\ nx = k + bsize b)
    /\ snd (rnd_wstep (s, c) (Peek k, ch1, ch2)) =
         match snd (rnd_wstep (s, c) (Get k, ch1, ch2)) with
         | OGet (Some b) => OPeek (Some (bnext s b)) | _ => OPeek None end
    /\ snd (rnd_wstep (s, c) (Len, ch1, ch2)) = ONum (zlen (map fst (rtab c)))
    /\ (In k (map fst (rtab c)) <-> snd (rnd_wstep (s, c) (Peek k, ch1, ch2)) <> OPeek None)
    /\ snd (rnd_wstep (s, c) (Cap, ch1, ch2)) = ONum (rcap c).
Proof. exact rnd_get_peek_base_gen. Qed.
Print Assumptions get_peek_base_random.

(** FIFO under the documented bgzf.Cache protocol ("the returned Block must be
    removed from the Cache", so the client may overwrite what Get returned):
    a protocol-conforming history after which Peek 0 answers with a block
    whose base is 1 (NextBase 101 = 1 + bsize 0). FIFO.Get keeps used blocks
    indexed; the repository's tests fix that behaviour (known finding). *)
Theorem fifo_get_peek_base_strong_refuted :
  exists h, prun lf op id_op (lf_wstep true false) true (store0, lf_empty 2) client0 h
            = Some [OUnit; OPut None true; OGet (Some 0%nat); OUnit; OPeek (Some (1 + bsize 0%nat))].
Proof. exact (ex_intro _ fifo_strong_history fifo_strong_refuted_gen). Qed.
Print Assumptions fifo_get_peek_base_strong_refuted.

(** Resize (n >= 1), Drop and Free return (no [OStuck], no [OPanic]) from
    every reachable state and leave the stated capacity and number of blocks;
    Free(m) answers m <= cap and then m slots are free. *)
Theorem resize_drop_free_return :
  forall fifo n s c cl m, 1 <= n -> lf_reach fifo n (s, c) cl ->
    (1 <= m ->
       exists c', lf_wstep fifo false (s, c) (Resize m) = ((s, c'), OUnit)
         /\ cap c' = m /\ tlen (tab c') = Z.min (tlen (tab c)) m)
    /\ (exists c', lf_wstep fifo false (s, c) (Drop m) = ((s, c'), OUnit)
         /\ cap c' = cap c /\ tlen (tab c') = Z.max 0 (tlen (tab c) - Z.max 0 m))
    /\ (exists c', lf_wstep fifo false (s, c) (Free m) = ((s, c'), OBool (m <=? cap c))
         /\ cap c' = cap c /\ (m <= cap c -> m <= cap c' - tlen (tab c'))
         /\ tlen (tab c') <= tlen (tab c)).
Proof. exact lf_resize_drop_free_gen. Qed.
Print Assumptions resize_drop_free_return.

Theorem resize_drop_free_return_random :
  forall n s c cl m ch1 ch2, 1 <= n -> rnd_reach n (s, c) cl ->
    (1 <= m ->
       exists c', rnd_wstep (s, c) (Resize m, ch1, ch2) = ((s, c'), OUnit)
         /\ rcap c' = m /\ tlen (rtab c') = Z.min (tlen (rtab c)) m)
    /\ (exists c', rnd_wstep (s, c) (Drop m, ch1, ch2) = ((s, c'), OUnit)
         /\ rcap c' = rcap c /\ tlen (rtab c') = Z.max 0 (tlen (rtab c) - Z.max 0 m))
    /\ (exists c', rnd_wstep (s, c) (Free m, ch1, ch2) = ((s, c'), OBool (m <=? rcap c))
         /\ rcap c' = rcap c /\ (m <= rcap c -> m <= rcap c' - tlen (rtab c'))
         /\ tlen (rtab c') <= tlen (rtab c)).
Proof. exact rnd_resize_drop_free_gen. Qed.
Print Assumptions resize_drop_free_return_random.

(** Free(m, c), sequentially (no other call between its five calls Cap, Len,
    Drop, Cap, Len): from every reachable state it returns, answers m <= cap,
    leaves the capacity, evicts by the policy exactly the blocks needed (none
    when m slots are free), and then m slots are free if m <= cap, the cache
    is empty otherwise. *)
Theorem free_sequential :
  forall fifo n s c cl m, 1 <= n -> lf_reach fifo n (s, c) cl ->
    exists c', lf_wstep fifo false (s, c) (Free m) = ((s, c'), OBool (m <=? cap c))
      /\ cap c' = cap c
      /\ blocks (tab c') = sdrop s (Z.to_nat (m - (cap c - tlen (tab c)))) (blocks (tab c))
      /\ tlen (tab c') = Z.max 0 (Z.min (tlen (tab c)) (cap c - m))
      /\ (m <= cap c -> m <= cap c' - tlen (tab c'))
      /\ (cap c < m -> tlen (tab c') = 0).
Proof. exact lf_free_sequential_gen. Qed.
Print Assumptions free_sequential.

Theorem free_sequential_random :
  forall n s c cl m ch1 ch2, 1 <= n -> rnd_reach n (s, c) cl ->
    exists c', rnd_wstep (s, c) (Free m, ch1, ch2) = ((s, c'), OBool (m <=? rcap c))
      /\ rcap c' = rcap c
      /\ rtab c' = (if m <=? rcap c - tlen (rtab c) then rtab c
                    else rnd_drop s ch1 ch2 (m - (rcap c - tlen (rtab c))) (rtab c))
      /\ tlen (rtab c') = Z.max 0 (Z.min (tlen (rtab c)) (rcap c - m))
      /\ (m <= rcap c -> m <= rcap c' - tlen (rtab c'))
      /\ (rcap c < m -> tlen (rtab c') = 0).
Proof. exact rnd_free_sequential_gen. Qed.
Print Assumptions free_sequential_random.

(** Concurrently Free is not atomic (its five calls are linearizable one by
    one, another goroutine can run between them): an execution of the
    interleaving semantics - capacity 1, one block held, goroutine 0 runs the
    calls of Free(1), goroutine 1 puts a block after the Drop - in which the
    last Len reads 1, so Free answers [1 <=? 1 - 1] = false, which no
    sequential Free(1) on a cache of capacity 1 answers. *)
Theorem free_not_atomic :
  let c := exec _ _ _ _ (fun _ => tt) (atomic_body (lf_wstep false false)) op_is_read
             (init _ _ _ _ free_race_w0
                (fun t => match t with O => [Cap; Len; Drop 1; Cap; Len] | 1%nat => [Put 1%nat] | _ => [] end))
             free_race_sched in
  map (res_of _ _) (lin _ _ _ _ c) = [ONum 1; ONum 1; OUnit; OPut None true; ONum 1; ONum 1]
  /\ snd (lf_wstep false false free_race_w0 (Free 1)) = OBool true.
Proof. exact free_not_atomic_gen. Qed.
Print Assumptions free_not_atomic.

(** StatsRecorder around any cache: answers and states are those of the
    wrapped cache, the counters are the numbers of Get, missed Get, Put,
    retained Put and evicting Put calls made through it. *)
Theorem stats_recorder_counts :
  forall (W O : Type) (pi : O -> op) (step : W -> O -> W * out) os w st,
    let '((w', st'), xs) := st_run W O pi step (w, st) (map SInner os) in
    let '(w2, pairs) := in_run W O pi step w os in
    w' = w2 /\ xs = map snd pairs /\ st' = tally st pairs.
Proof. exact stats_recorder_gen. Qed.
Print Assumptions stats_recorder_counts.

(** Linearizability, generic: operations of shape lock; body; unlock on one
    RW mutex, any number of threads, ANY schedule, the body of an operation
    being an ARBITRARY micro-step program over the shared state and a local
    state ([bstep]; other threads move between its micro-steps), bodies under
    the read lock not storing. There is a state [sg] that the sequential
    execution of the finished operations - the same bodies run one after the
    other in the order [lin] of their last micro-steps - reaches with exactly
    the observed results; the shared state is [sg] whenever no writer is
    inside its body; [lin] is the sequence of ELin events of the history, in
    which every operation's ELin lies between its invocation and its
    response (so the order respects real time). *)
Theorem linearizable :
  forall (St Op Rs Lc : Type) (l0 : Op -> Lc) (bstep : Op -> St -> Lc -> St * (Lc + Rs))
         (is_read : Op -> bool),
    (forall o s l, is_read o = true -> fst (bstep o s l) = s) ->
    forall s0 p sched,
      let c := exec St Op Rs Lc l0 bstep is_read (init St Op Rs Lc s0 p) sched in
      (exists sg, seq_rel St Op Rs Lc l0 bstep s0 (lin _ _ _ _ c) sg
                  /\ (no_writer_mid _ _ _ _ is_read c -> sg = sh _ _ _ _ c))
      /\ lin_of _ _ (hist _ _ _ _ c) = lin _ _ _ _ c
      /\ bracketed _ _ (hist _ _ _ _ c).
Proof. exact linearizable_gen. Qed.
Print Assumptions linearizable.

(** LRU and FIFO: however the method bodies are cut into micro-steps, as
    long as a body run alone computes the model's step (what the
    correspondence check validates on every run) and the Len/Cap/Peek bodies
    do not store (the source fact [read_lock_methods_read_only]; the model
    agrees: [lf_wstep] leaves the state alone on these operations), every
    concurrent execution has the answers of the sequential model in
    linearization order. *)
Theorem linearizable_lru_fifo :
  forall fifo (Lc : Type) (l0 : op -> Lc) (bstep : op -> store * lf -> Lc -> (store * lf) * (Lc + out)),
    (forall o s l, op_is_read o = true -> fst (bstep o s l) = s) ->
    (forall o s s' r, runs _ _ _ _ l0 bstep o s s' r -> lf_wstep fifo false s o = (s', r)) ->
    (forall w o, op_is_read o = true -> fst (lf_wstep fifo false w o) = w)
    /\ forall w0 p sched,
      let c := exec _ _ _ _ l0 bstep op_is_read (init _ _ _ _ w0 p) sched in
      (exists sg, seq_run _ _ _ (lf_wstep fifo false) w0 (map (op_of _ _) (lin _ _ _ _ c)) = (sg, map (res_of _ _) (lin _ _ _ _ c))
                  /\ (no_writer_mid _ _ _ _ op_is_read c -> sg = sh _ _ _ _ c))
      /\ lin_of _ _ (hist _ _ _ _ c) = lin _ _ _ _ c
      /\ bracketed _ _ (hist _ _ _ _ c).
Proof.
  exact (fun fifo Lc l0 bstep RP IMP =>
    conj (lf_read_pure fifo)
         (fun w0 p sched => linearizable_step _ _ _ _ l0 bstep op_is_read RP w0 (lf_wstep fifo false) p sched IMP)).
Qed.
Print Assumptions linearizable_lru_fifo.

Theorem linearizable_random :
  forall (Lc : Type) (l0 : rop -> Lc) (bstep : rop -> store * rnd -> Lc -> (store * rnd) * (Lc + out)),
    (forall o s l, op_is_read (rop_op o) = true -> fst (bstep o s l) = s) ->
    (forall o s s' r, runs _ _ _ _ l0 bstep o s s' r -> rnd_wstep s o = (s', r)) ->
    (forall w o, op_is_read (rop_op o) = true -> fst (rnd_wstep w o) = w)
    /\ forall w0 p sched,
      let c := exec _ _ _ _ l0 bstep (fun o => op_is_read (rop_op o)) (init _ _ _ _ w0 p) sched in
      (exists sg, seq_run _ _ _ rnd_wstep w0 (map (op_of _ _) (lin _ _ _ _ c)) = (sg, map (res_of _ _) (lin _ _ _ _ c))
                  /\ (no_writer_mid _ _ _ _ (fun o => op_is_read (rop_op o)) c -> sg = sh _ _ _ _ c))
      /\ lin_of _ _ (hist _ _ _ _ c) = lin _ _ _ _ c
      /\ bracketed _ _ (hist _ _ _ _ c).
Proof.
  exact (fun Lc l0 bstep RP IMP =>
    conj rnd_read_pure
         (fun w0 p sched => linearizable_step _ _ _ _ l0 bstep (fun o => op_is_read (rop_op o)) RP w0 rnd_wstep p sched IMP)).
Qed.
Print Assumptions linearizable_random.

(** Non-vacuity: a reachable LRU state with an eviction, and a two-thread run. *)
Example lru_history :
  prun lf op id_op (lf_wstep false false) true (store0, lf_empty 1) client0
    [Rebase 0%nat 0 true; Put 0%nat; Rebase 1%nat 1 true; Put 1%nat; Get 0; Peek 1; Drop 1; Len]
  = Some [OUnit; OPut None true; OUnit; OPut (Some 0%nat) true; OGet None; OPeek (Some 111); OUnit; ONum 0].
Proof. vm_compute. reflexivity. Qed.

Example two_threads :
  let c := exec _ _ _ _ (fun _ => tt) (atomic_body (lf_wstep false false)) op_is_read
             (init _ _ _ _ (sset store0 0%nat (mkblk 0 true), lf_empty 1)
                   (fun t => match t with O => [Put 0%nat] | 1%nat => [Len; Get 0] | _ => [] end))
             [1; 0; 1; 0; 1; 1; 0; 1; 1; 1; 0; 0; 0; 1; 1; 1; 1]%nat in
  map (res_of _ _) (lin _ _ _ _ c) = [ONum 0; OPut None true; OGet (Some 0%nat)].
Proof. vm_compute. reflexivity. Qed.
