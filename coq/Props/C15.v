(** C15 — index serialisation round trip keeps answers and statistics.
    Statements only; proofs in Proofs/IndexStats.v and Proofs/IndexIO.v.
    Models: Model/Index.v (Add and its counters), Model/IndexIO.v (byte-level
    writers and readers of BAI, CSI v1/v2 and tabix, validated against the
    implementation on every run). *)
From Coq Require Import ZArith List Bool.
From Hts Require Import Base.Prim Generated Model.Index Model.Tabix Model.IndexSpec Model.IndexIO
  Model.Csi Model.TabixSpec Proofs.IndexStats Proofs.IndexIO Proofs.IndexIOFull Proofs.IndexFinal Proofs.TabixIO
  Proofs.CsiStats Proofs.CsiIO Proofs.IndexFinal2 Proofs.IndexHist.
Open Scope Z_scope.

(** Statistics are true: for EVERY record list that Add accepts (whatever its
    order), NumRefs is the number of references the placed records use, the
    unplaced count is the number of unplaced records (absent only when nothing
    was added), and ReferenceStats of each reference is: absent when the
    reference has no record, else the span from the chunk begin of its first
    record to the chunk end of its last one, with the numbers of its mapped and
    unmapped records. *)
Theorem stats_true :
  forall rs ix, ix_fold_add ix_empty rs = Ok ix ->
    ix_numrefs ix = ix_true_numrefs rs /\
    (rs <> [] -> iunm ix = Some (ix_true_unplaced rs)) /\
    (rs = [] -> iunm ix = None) /\
    forall rid, 0 <= rid -> ix_refstats ix rid = ix_true_stats rid rs.
Proof.
  exact (fun rs ix H =>
           match stats_counts_true rs ix H with
           | conj a (conj b c) => conj a (conj b (conj c (fun rid Hr => stats_reference_true rs ix rid H Hr)))
           end).
Qed.
Print Assumptions stats_true.

(** BAI, byte level, for EVERY index all of whose numbers fit their fields and
    that is in the order [Index.sort] establishes ([idx_fits (ix_sort ix)]):
    reading what WriteIndex wrote gives the sorted index with LastRecord =
    max int, and writing that gives the same bytes. *)
Theorem index_io_roundtrip :
  forall ix, idx_fits (ix_sort ix) ->
    bai_read (fst (bai_write ix)) = Ok (Some (mkIdx (irefs (ix_sort ix)) (iunm ix) true io_maxint)) /\
    fst (bai_write (mkIdx (irefs (ix_sort ix)) (iunm ix) true io_maxint)) = fst (bai_write ix).
Proof. exact (fun ix H => conj (bai_read_write ix H) (bai_write_read_write ix)). Qed.
Print Assumptions index_io_roundtrip.

(** For every BAI built by Add (any accepted record list) whose offsets and
    counters fit their fields ([idx_ranges]; the order is established by the
    writer itself): round trip as above, every query answers identically
    before and after, and NumRefs, the unplaced count and every
    ReferenceStats are unchanged. *)
Theorem chunks_preserved :
  forall rs ix, ix_fold_add ix_empty rs = Ok ix -> idx_ranges ix ->
    bai_read (fst (bai_write ix)) = Ok (Some (bai_reread ix)) /\
    fst (bai_write (bai_reread ix)) = fst (bai_write ix) /\
    (forall rid beg end_, fst (ix_chunks (bai_reread ix) rid beg end_) = fst (ix_chunks ix rid beg end_)) /\
    ix_numrefs (bai_reread ix) = ix_numrefs ix /\ iunm (bai_reread ix) = iunm ix /\
    (forall rid, ix_refstats (bai_reread ix) rid = ix_refstats ix rid).
Proof. exact bai_io_preserves. Qed.
Print Assumptions chunks_preserved.

(** Interleaved histories: in EVERY state reached from the empty index by
    successful Add, sort (WriteIndex) and Chunks calls in any order (records
    well formed, numbers fit their fields), WriteIndex followed by ReadIndex
    gives [bai_reread ix], writing that gives the same bytes, and every answer
    and statistic is unchanged. *)
Theorem index_io_roundtrip_history :
  forall rs ix, hist rs ix -> ix_wf rs -> idx_ranges ix ->
    bai_read (fst (bai_write ix)) = Ok (Some (bai_reread ix)) /\
    fst (bai_write (bai_reread ix)) = fst (bai_write ix) /\
    (forall rid beg end_, fst (ix_chunks (bai_reread ix) rid beg end_) = fst (ix_chunks ix rid beg end_)) /\
    ix_numrefs (bai_reread ix) = ix_numrefs ix /\ iunm (bai_reread ix) = iunm ix /\
    (forall rid, ix_refstats (bai_reread ix) rid = ix_refstats ix rid).
Proof. exact hist_io_roundtrip. Qed.
Print Assumptions index_io_roundtrip_history.

(** tabix, byte level, for EVERY tabix index that fits ([tbx_fits]: header
    values in range, names without NUL bytes and pairwise different, one name
    per reference, numbers fit their fields, core in sorted order after sort):
    ReadFrom of what WriteTo wrote gives the same header and names, the name map
    0..n-1 and the sorted core; writing that gives the same bytes. *)
Theorem tabix_io_roundtrip :
  forall t, tbx_fits t ->
    tbx_read (fst (tbx_write t)) = Ok (Some (tbx_reread t)) /\
    fst (tbx_write (tbx_reread t)) = fst (tbx_write t).
Proof. exact (fun t H => conj (tbx_read_write t H) (tbx_write_read_write t)). Qed.
Print Assumptions tabix_io_roundtrip.

(** CSI, byte level, versions 1 and 2, any auxiliary bytes, for EVERY index
    with [csi_fits (cs_sort ix)] (version 1 or 2, a geometry the reader
    accepts, numbers fit their fields, sorted order after sort): ReadFrom of
    what WriteTo wrote is [cs_reread ix] — the sorted index, except that the
    per-bin record counts, which version 1 does not store, come back as 0 —
    and writing that gives the same bytes. *)
Theorem csi_io_roundtrip :
  forall ix, csi_fits (cs_sort ix) ->
    csi_read (fst (csi_write ix)) = Ok (Some (cs_reread ix)) /\
    fst (csi_write (cs_reread ix)) = fst (csi_write ix).
Proof. exact (fun ix H => conj (csi_read_write ix H) (csi_write_read_write ix)). Qed.
Print Assumptions csi_io_roundtrip.

(** CSI built by Add (any geometry, aux, version; any accepted record list)
    with [csi_ranges]: round trip, identical answers, identical NumRefs,
    unplaced count and ReferenceStats before and after. *)
Theorem csi_chunks_preserved :
  forall ms dp aux ver rs ix,
    cs_fold_add (mkCsi aux ver [] None ms dp false 0) rs = Ok ix -> csi_ranges ix ->
    csi_read (fst (csi_write ix)) = Ok (Some (cs_reread ix)) /\
    fst (csi_write (cs_reread ix)) = fst (csi_write ix) /\
    (forall rid beg end_, fst (cs_chunks (cs_reread ix) rid beg end_) = fst (cs_chunks ix rid beg end_)) /\
    cs_numrefs (cs_reread ix) = cs_numrefs ix /\ c_unm (cs_reread ix) = c_unm ix /\
    (forall rid, cs_refstats (cs_reread ix) rid = cs_refstats ix rid).
Proof. exact csi_io_preserves. Qed.
Print Assumptions csi_chunks_preserved.

(** Statistics are true for CSI: for EVERY record list csi.Index.Add accepts
    (any geometry): NumRefs, unplaced count, per-reference span and counts. *)
Theorem csi_stats_true :
  forall ms dp aux ver rs ix,
    cs_fold_add (mkCsi aux ver [] None ms dp false 0) rs = Ok ix ->
    cs_numrefs ix = ix_true_numrefs rs /\
    (rs <> [] -> c_unm ix = Some (ix_true_unplaced rs)) /\
    (rs = [] -> c_unm ix = None) /\
    forall rid, 0 <= rid -> cs_refstats ix rid = ix_true_stats rid rs.
Proof. exact CsiStats.csi_stats_true. Qed.
Print Assumptions csi_stats_true.

(** Statistics are true for tabix (reference ids are the dense ids of the
    names, [tb_assign]) and are unchanged by WriteTo/ReadFrom. *)
Theorem tabix_stats_true :
  forall hdr nrs, ix_wf (tb_assign [] nrs) ->
  exists t, tb_fold_add (tb_new hdr) nrs = Ok t /\
    let rs := tb_assign [] nrs in
    (ix_numrefs (t_idx t) = ix_true_numrefs rs /\
     (nrs <> [] -> iunm (t_idx t) = Some (ix_true_unplaced rs)) /\
     (forall rid, 0 <= rid -> ix_refstats (t_idx t) rid = ix_true_stats rid rs)) /\
    (ix_numrefs (t_idx (tbx_reread t)) = ix_numrefs (t_idx t) /\
     iunm (t_idx (tbx_reread t)) = iunm (t_idx t) /\
     forall rid, ix_refstats (t_idx (tbx_reread t)) rid = ix_refstats (t_idx t) rid).
Proof. exact tabix_stats. Qed.
Print Assumptions tabix_stats_true.

(** The tabix index without references (formerly read back as "no index, no
    error"; repaired on main) round-trips: it is written with n_ref = 0 and an
    empty name block and read back as the empty index with the same header. *)
Theorem tabix_zero_refs_roundtrip :
  forall f z nc bc ec meta skip,
    0 <= f < 256 -> (z = 0 \/ z = 1) ->
    0 <= nc < 2 ^ 31 -> 0 <= bc < 2 ^ 31 -> 0 <= ec < 2 ^ 31 -> 0 <= meta < 2 ^ 31 -> 0 <= skip < 2 ^ 31 ->
    tbx_read (fst (tbx_write (tb_new [f; z; nc; bc; ec; meta; skip])))
    = Ok (Some (mkTbx [] [] [f; z; nc; bc; ec; meta; skip] (mkIdx [] None true io_maxint))).
Proof. exact tabix_empty_roundtrip. Qed.
Print Assumptions tabix_zero_refs_roundtrip.

(** Non-vacuity: a two-record BAI is written, read back as the sorted index
    (LastRecord = max int) and written again to the same bytes; an empty BAI
    reads back as an empty index. *)
Example bai_roundtrip_example :
  let rs := [mkRec 0 0 16389 585 100 200 true true; mkRec 0 16390 16394 4682 200 300 true false;
             mkRec (-1) (-1) 0 4680 300 400 false false] in
  exists ix, ix_fold_add ix_empty rs = Ok ix /\
    let '(w, ix1) := bai_write ix in
    bai_read w = Ok (Some (mkIdx (irefs ix1) (iunm ix1) true io_maxint)) /\
    fst (bai_write (mkIdx (irefs ix1) (iunm ix1) true io_maxint)) = w /\
    bai_read (fst (bai_write ix_empty)) = Ok (Some (mkIdx [] None true io_maxint)).
Proof. eexists. split; [vm_compute; reflexivity|]. vm_compute. repeat split; reflexivity. Qed.
