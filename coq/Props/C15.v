(** C15 — index serialisation round trip keeps answers and statistics.
    Statements only; proofs in Proofs/IndexStats.v and Proofs/IndexIO.v.
    Models: Model/Index.v (Add and its counters), Model/IndexIO.v (byte-level
    writers and readers of BAI, CSI v1/v2 and tabix, validated against the
    implementation on every run). *)
From Coq Require Import ZArith List Bool.
From Hts Require Import Base.Prim Generated Model.Index Model.Tabix Model.IndexSpec Model.IndexIO
  Proofs.IndexStats Proofs.IndexIO Proofs.IndexIOFull Proofs.IndexFinal Proofs.TabixIO.
Open Scope Z_scope.

(** Statistics are true: for EVERY record list that Add accepts (whatever its
    order), NumRefs is the number of references the placed records use, the
    unplaced count is the number of unplaced records (absent only when nothing
    was added), and ReferenceStats of each reference is: absent when the
    reference has no record, else the span from the chunk begin of its first
    record to the chunk end of its last one, with the numbers of its mapped and
    unmapped records. *)
Theorem stats_true :
  forall rs ix, ix_fold_add ix_empty rs = Ok ix ->
    ix_numrefs ix = ix_true_numrefs rs /\
    (rs <> [] -> iunm ix = Some (ix_true_unplaced rs)) /\
    (rs = [] -> iunm ix = None) /\
    forall rid, 0 <= rid -> ix_refstats ix rid = ix_true_stats rid rs.
Proof.
  exact (fun rs ix H =>
           match stats_counts_true rs ix H with
           | conj a (conj b c) => conj a (conj b (conj c (fun rid Hr => stats_reference_true rs ix rid H Hr)))
           end).
Qed.
Print Assumptions stats_true.

(** BAI, byte level, for EVERY index all of whose numbers fit their fields and
    that is in the order [Index.sort] establishes ([idx_fits (ix_sort ix)]):
    reading what WriteIndex wrote gives the sorted index with LastRecord =
    max int, and writing that gives the same bytes. *)
Theorem index_io_roundtrip :
  forall ix, idx_fits (ix_sort ix) ->
    bai_read (fst (bai_write ix)) = Ok (Some (mkIdx (irefs (ix_sort ix)) (iunm ix) true io_maxint)) /\
    fst (bai_write (mkIdx (irefs (ix_sort ix)) (iunm ix) true io_maxint)) = fst (bai_write ix).
Proof. exact (fun ix H => conj (bai_read_write ix H) (bai_write_read_write ix)). Qed.
Print Assumptions index_io_roundtrip.

(** For every BAI built by Add (any accepted record list) whose offsets and
    counters fit their fields ([idx_ranges]; the order is established by the
    writer itself): round trip as above, every query answers identically
    before and after, and NumRefs, the unplaced count and every
    ReferenceStats are unchanged. *)
Theorem chunks_preserved :
  forall rs ix, ix_fold_add ix_empty rs = Ok ix -> idx_ranges ix ->
    bai_read (fst (bai_write ix)) = Ok (Some (bai_reread ix)) /\
    fst (bai_write (bai_reread ix)) = fst (bai_write ix) /\
    (forall rid beg end_, fst (ix_chunks (bai_reread ix) rid beg end_) = fst (ix_chunks ix rid beg end_)) /\
    ix_numrefs (bai_reread ix) = ix_numrefs ix /\ iunm (bai_reread ix) = iunm ix /\
    (forall rid, ix_refstats (bai_reread ix) rid = ix_refstats ix rid).
Proof. exact bai_io_preserves. Qed.
Print Assumptions chunks_preserved.

(** tabix, byte level, for EVERY tabix index that fits ([tbx_fits]: header
    values in range, names without NUL bytes and pairwise different, one name
    per reference, numbers fit their fields, core in sorted order after sort):
    ReadFrom of what WriteTo wrote gives the same header and names, the name map
    0..n-1 and the sorted core; writing that gives the same bytes. *)
Theorem tabix_io_roundtrip :
  forall t, tbx_fits t ->
    tbx_read (fst (tbx_write t)) = Ok (Some (tbx_reread t)) /\
    fst (tbx_write (tbx_reread t)) = fst (tbx_write t).
Proof. exact (fun t H => conj (tbx_read_write t H) (tbx_write_read_write t)). Qed.
Print Assumptions tabix_io_roundtrip.

(** Answers are preserved: an index whose reference structure is that of the
    sorted index (this is what write followed by read produces, whatever
    LastRecord is) answers every query exactly like the original.
    PARTIAL: for BAI and tabix the premise [irefs ix2 = irefs (ix_sort ix)] is
    discharged by [index_io_roundtrip] / [tabix_io_roundtrip] (see
    [chunks_preserved] and C04's [tabix_complete_after_write_read]); for CSI
    [ix2 = read (write ix)] is validated by the correspondence run only. *)
Theorem chunks_preserved_partial :
  forall ix ix2 rid beg end_,
    irefs ix2 = irefs (ix_sort ix) -> isorted ix2 = true ->
    fst (ix_chunks ix2 rid beg end_) = fst (ix_chunks ix rid beg end_).
Proof. exact chunks_of_sorted_copy. Qed.
Print Assumptions chunks_preserved_partial.

(** Statistics are preserved under the same premise. *)
Theorem stats_preserved_partial :
  forall ix ix2,
    irefs ix2 = irefs (ix_sort ix) -> iunm ix2 = iunm ix ->
    ix_numrefs ix2 = ix_numrefs ix /\ iunm ix2 = iunm ix /\
    forall rid, ix_refstats ix2 rid = ix_refstats ix rid.
Proof. exact stats_of_sorted_copy. Qed.
Print Assumptions stats_preserved_partial.

(** Byte level building block shared by the three formats (PARTIAL with
    respect to CSI and tabix, whose full round trip is not proved): every chunk
    list that fits its fields is read back, sorted by begin offset, and the
    reader stops exactly at its end. *)
Theorem index_io_roundtrip_partial :
  forall cs rest, Forall chunk_fits cs -> zlen cs < 2 ^ 31 ->
    (n <- rd_i32 ;; rd_chunks n) (wr_chunks cs ++ rest) = Ok (ix_isort fst cs, rest).
Proof. exact chunks_roundtrip. Qed.
Print Assumptions index_io_roundtrip_partial.

(** The tabix index without references (formerly read back as "no index, no
    error"; repaired on main) round-trips: it is written with n_ref = 0 and an
    empty name block and read back as the empty index with the same header. *)
Theorem tabix_zero_refs_roundtrip :
  forall f z nc bc ec meta skip,
    0 <= f < 256 -> (z = 0 \/ z = 1) ->
    0 <= nc < 2 ^ 31 -> 0 <= bc < 2 ^ 31 -> 0 <= ec < 2 ^ 31 -> 0 <= meta < 2 ^ 31 -> 0 <= skip < 2 ^ 31 ->
    tbx_read (fst (tbx_write (tb_new [f; z; nc; bc; ec; meta; skip])))
    = Ok (Some (mkTbx [] [] [f; z; nc; bc; ec; meta; skip] (mkIdx [] None true io_maxint))).
Proof. exact tabix_empty_roundtrip. Qed.
Print Assumptions tabix_zero_refs_roundtrip.

(** Non-vacuity: a two-record BAI is written, read back as the sorted index
    (LastRecord = max int) and written again to the same bytes; an empty BAI
    reads back as an empty index. *)
Example bai_roundtrip_example :
  let rs := [mkRec 0 0 16389 585 100 200 true true; mkRec 0 16390 16394 4682 200 300 true false;
             mkRec (-1) (-1) 0 4680 300 400 false false] in
  exists ix, ix_fold_add ix_empty rs = Ok ix /\
    let '(w, ix1) := bai_write ix in
    bai_read w = Ok (Some (mkIdx (irefs ix1) (iunm ix1) true io_maxint)) /\
    fst (bai_write (mkIdx (irefs ix1) (iunm ix1) true io_maxint)) = w /\
    bai_read (fst (bai_write ix_empty)) = Ok (Some (mkIdx [] None true io_maxint)).
Proof. eexists. split; [vm_compute; reflexivity|]. vm_compute. repeat split; reflexivity. Qed.
