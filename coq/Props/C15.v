(** C15 — index serialisation round trip keeps answers and statistics.
    Statements only; proofs in Proofs/IndexStats.v and Proofs/IndexIO.v.
    Models: Model/Index.v (Add and its counters), Model/IndexIO.v (byte-level
    writers and readers of BAI, CSI v1/v2 and tabix, validated against the
    implementation on every run). *)
From Coq Require Import ZArith List Bool.
From Hts Require Import Base.Prim Generated Model.Index Model.Tabix Model.IndexSpec Model.IndexIO
  Proofs.IndexStats Proofs.IndexIO.
Open Scope Z_scope.

(** Statistics are true: for EVERY record list that Add accepts (whatever its
    order), NumRefs is the number of references the placed records use, the
    unplaced count is the number of unplaced records (absent only when nothing
    was added), and ReferenceStats of each reference is: absent when the
    reference has no record, else the span from the chunk begin of its first
    record to the chunk end of its last one, with the numbers of its mapped and
    unmapped records. *)
Theorem stats_true :
  forall rs ix, ix_fold_add ix_empty rs = Ok ix ->
    ix_numrefs ix = ix_true_numrefs rs /\
    (rs <> [] -> iunm ix = Some (ix_true_unplaced rs)) /\
    (rs = [] -> iunm ix = None) /\
    forall rid, 0 <= rid -> ix_refstats ix rid = ix_true_stats rid rs.
Proof.
  exact (fun rs ix H =>
           match stats_counts_true rs ix H with
           | conj a (conj b c) => conj a (conj b (conj c (fun rid Hr => stats_reference_true rs ix rid H Hr)))
           end).
Qed.
Print Assumptions stats_true.

(** Answers are preserved: an index whose reference structure is that of the
    sorted index (this is what write followed by read produces, whatever
    LastRecord is) answers every query exactly like the original.
    PARTIAL: the premise [irefs ix2 = irefs (ix_sort ix)] for
    [ix2 = read (write ix)] is proved at the level of fields, chunks and chunk
    lists ([index_io_roundtrip_partial]); the composition through bins,
    pseudo-bin, tiles and references is validated by the correspondence run
    only. *)
Theorem chunks_preserved_partial :
  forall ix ix2 rid beg end_,
    irefs ix2 = irefs (ix_sort ix) -> isorted ix2 = true ->
    fst (ix_chunks ix2 rid beg end_) = fst (ix_chunks ix rid beg end_).
Proof. exact chunks_of_sorted_copy. Qed.
Print Assumptions chunks_preserved_partial.

(** Statistics are preserved under the same premise. *)
Theorem stats_preserved_partial :
  forall ix ix2,
    irefs ix2 = irefs (ix_sort ix) -> iunm ix2 = iunm ix ->
    ix_numrefs ix2 = ix_numrefs ix /\ iunm ix2 = iunm ix /\
    forall rid, ix_refstats ix2 rid = ix_refstats ix rid.
Proof. exact stats_of_sorted_copy. Qed.
Print Assumptions stats_preserved_partial.

(** Byte level, PARTIAL (see above): every chunk list that fits its fields is
    read back, sorted by begin offset, and the reader stops exactly at its end
    (so what follows is parsed from the right position). *)
Theorem index_io_roundtrip_partial :
  forall cs rest, Forall chunk_fits cs -> zlen cs < 2 ^ 31 ->
    (n <- rd_i32 ;; rd_chunks n) (wr_chunks cs ++ rest) = Ok (ix_isort fst cs, rest).
Proof. exact chunks_roundtrip. Qed.
Print Assumptions index_io_roundtrip_partial.

(** The tabix index without references (formerly read back as "no index, no
    error"; repaired on main) round-trips: it is written with n_ref = 0 and an
    empty name block and read back as the empty index with the same header. *)
Theorem tabix_zero_refs_roundtrip :
  forall f z nc bc ec meta skip,
    0 <= f < 256 -> (z = 0 \/ z = 1) ->
    0 <= nc < 2 ^ 31 -> 0 <= bc < 2 ^ 31 -> 0 <= ec < 2 ^ 31 -> 0 <= meta < 2 ^ 31 -> 0 <= skip < 2 ^ 31 ->
    tbx_read (fst (tbx_write (tb_new [f; z; nc; bc; ec; meta; skip])))
    = Ok (Some (mkTbx [] [] [f; z; nc; bc; ec; meta; skip] (mkIdx [] None true io_maxint))).
Proof. exact tabix_empty_roundtrip. Qed.
Print Assumptions tabix_zero_refs_roundtrip.

(** Non-vacuity: a two-record BAI is written, read back as the sorted index
    (LastRecord = max int) and written again to the same bytes; an empty BAI
    reads back as an empty index. *)
Example bai_roundtrip_example :
  let rs := [mkRec 0 0 16389 585 100 200 true true; mkRec 0 16390 16394 4682 200 300 true false;
             mkRec (-1) (-1) 0 4680 300 400 false false] in
  exists ix, ix_fold_add ix_empty rs = Ok ix /\
    let '(w, ix1) := bai_write ix in
    bai_read w = Ok (Some (mkIdx (irefs ix1) (iunm ix1) true io_maxint)) /\
    fst (bai_write (mkIdx (irefs ix1) (iunm ix1) true io_maxint)) = w /\
    bai_read (fst (bai_write ix_empty)) = Ok (Some (mkIdx [] None true io_maxint)).
Proof. eexists. split; [vm_compute; reflexivity|]. vm_compute. repeat split; reflexivity. Qed.
