(** C16 — coordinate arithmetic: End, Len, Bin, CIGAR lengths and validity,
    bin numbers and bin lists (BAI fixed scheme, every CSI geometry).
    Statements only; proofs are in Proofs/Cigar.v, Proofs/CigarValid.v,
    Proofs/Bins.v.

    Model side: [sam_CigarOp_Type], [sam_CigarOp_Len], [sam_NewCigarOp],
    [sam_consume], [sam_Record_Bin], [internal_BinFor] and all level constants
    are regenerated from the Go source on every run (Generated.v); the loops
    [record_end], [cigar_lengths], [cigar_isvalid], [overlapping_bins_for],
    [csi_reg2bin], [csi_reg2bins] follow the Go code by hand (Model/Cigar.v,
    Model/Bins.v) and are run against the implementation. The loop of
    csi.reg2bin is in addition translated statement by statement by gen/
    ([csigen_reg2bin], a fuel recursion) and proved equal to the hand model for
    every input ([csi_reg2bin_translated]), so the CSI bin theorems are
    re-checked against the source text of that loop on every run.
    Specification side: Model/SamSpecArith.v (SAMv1 1.4, 4.2.1, 5.3; CSIv1).

    A CIGAR is a list of uint32 words; [spec_decode c = Some sc] decodes it
    into (operation, length) pairs: the nine standard operations, B, and the
    undefined codes 10..15 as an operation that consumes nothing. Every word
    decodes ([every_cigar_decodes]), so the theorems quantify over all CIGARs,
    which contains the property's quantifier (nine operations plus B).
    Go [int] is unbounded [Z]. *)
From Coq Require Import ZArith List Bool.
From Hts Require Import Base.Prim Base.BinArith Generated
  Model.SamSpecArith Model.Cigar Model.Bins
  Proofs.Bins Proofs.Cigar Proofs.CigarValid Proofs.CsiGen.
Import ListNotations.
Open Scope Z_scope.

(** NewCigarOp / Type / Len are the BAM packing: for every type code 0..15 and
    every legal length the word fits uint32 and Type and Len give back the
    arguments. *)
Theorem cigarop_roundtrip :
  forall t n, 0 <= t <= 15 -> 0 <= n <= 2 ^ 28 - 1 ->
    exists w, sam_NewCigarOp t n = Ok w /\ 0 <= w < 2 ^ 32 /\
              sam_CigarOp_Type w = Ok t /\ sam_CigarOp_Len w = Ok n.
Proof. exact newcigarop_roundtrip_gen. Qed.
Print Assumptions cigarop_roundtrip.

(** ... and every other int64 length panics. *)
Theorem cigarop_illegal_length_panics :
  forall t n, - 2 ^ 63 <= n < 2 ^ 63 -> (n < 0 \/ 2 ^ 28 - 1 < n) -> sam_NewCigarOp t n = Panic 2.
Proof. exact newcigarop_panics_gen. Qed.
Print Assumptions cigarop_illegal_length_panics.

(** Cigar.Lengths: reference length = sum over M D N = X, query length = sum
    over M I S = X, for every CIGAR over the ten operations (any lengths). *)
Theorem lengths_is_spec :
  forall c sc, spec_decode c = Some sc ->
    cigar_lengths c = Ok (spec_reflen sc, spec_querylen sc).
Proof. exact lengths_is_spec_gen. Qed.
Print Assumptions lengths_is_spec.

(** Record.End for every flag word, position and CIGAR: pos+1 for unmapped
    reads and reads without CIGAR, otherwise the rightmost reference position
    reached (B moves left). *)
Theorem end_is_spec :
  forall flags pos c sc, spec_decode c = Some sc ->
    record_end flags pos c = Ok (spec_end flags pos sc).
Proof. exact record_end_spec. Qed.
Print Assumptions end_is_spec.

(** ... which for a mapped read with a non-empty CIGAR over the nine standard
    operations is pos + sum of the lengths of M D N = X. *)
Theorem end_is_pos_plus_reflen :
  forall flags pos c sc, spec_decode c = Some sc ->
    spec_unmapped flags = false -> c <> [] ->
    has_back sc = false -> Forall (fun w => 0 <= w) c ->
    record_end flags pos c = Ok (pos + spec_reflen sc).
Proof. exact record_end_no_back. Qed.
Print Assumptions end_is_pos_plus_reflen.

(** Record.Len = End - Start. *)
Theorem len_is_spec :
  forall flags pos c sc, spec_decode c = Some sc ->
    record_len flags pos c = Ok (spec_len flags pos sc).
Proof. exact record_len_spec. Qed.
Print Assumptions len_is_spec.

(** Cigar.IsValid: the loop with its early returns and neighbour look-ups
    accepts exactly the CIGARs that satisfy the rules of SAMv1 1.4 (H only
    first/last; only H between an S and the nearer end; query lengths sum to the
    sequence length) and the B rule of the library documentation; it never
    panics on the ten operations. *)
Theorem isvalid_is_spec :
  forall c sc seqlen, spec_decode c = Some sc ->
    cigar_isvalid c seqlen = Ok (spec_valid sc seqlen).
Proof. exact isvalid_is_spec_gen. Qed.
Print Assumptions isvalid_is_spec.

(** Record.Bin is reg2bin(pos, end) of SAMv1 4.2.1/5.3 for every flag word,
    every CIGAR and every position from -1 (unplaced) up: no flag combination
    is special-cased; 4680 is what reg2bin(-1, 0) evaluates to. *)
Theorem bin_is_spec :
  forall flags pos c sc, spec_decode c = Some sc -> -1 <= pos < 2 ^ 31 ->
    record_bin flags pos c = Ok (spec_bin flags pos sc).
Proof. exact record_bin_spec. Qed.
Print Assumptions bin_is_spec.

(** The bin of a placed record fits the uint16 BIN field of BAM (and is below
    the pseudo-bin 37450). *)
Theorem bin_fits_uint16 :
  forall b e, 0 <= b < 2 ^ 29 -> 0 <= spec_reg2bin b e < 37449.
Proof. exact spec_reg2bin_range. Qed.
Print Assumptions bin_fits_uint16.

(** Operation codes 10..15 (not operations of SAMv1): since the library's
    Consumes clamps them to the empty lastCigar row they consume nothing, no
    type byte makes Consumes panic, and every uint32 word decodes ... *)
Theorem undefined_op_consumes_nothing :
  forall k, 10 <= k <= 15 -> consumes k = Ok (0, 0).
Proof. exact undefined_op_consumes_nothing_gen. Qed.
Print Assumptions undefined_op_consumes_nothing.

Theorem consumes_never_panics :
  forall k, 0 <= k -> exists q r, consumes k = Ok (q, r).
Proof. exact consumes_total. Qed.
Print Assumptions consumes_never_panics.

Theorem every_cigar_decodes :
  forall c, exists sc, spec_decode c = Some sc.
Proof. exact decode_total. Qed.
Print Assumptions every_cigar_decodes.

(** ... so the hypothesis [spec_decode c = Some sc] of the theorems above holds
    for EVERY list of words: End, Len, Lengths, IsValid (and Bin for pos >= -1)
    return the specified values, and never panic, for every record. *)
Theorem record_arith_total :
  forall flags pos c seqlen,
    exists sc, spec_decode c = Some sc /\
      record_end flags pos c = Ok (spec_end flags pos sc) /\
      record_len flags pos c = Ok (spec_len flags pos sc) /\
      cigar_lengths c = Ok (spec_reflen sc, spec_querylen sc) /\
      cigar_isvalid c seqlen = Ok (spec_valid sc seqlen) /\
      (-1 <= pos < 2 ^ 31 -> record_bin flags pos c = Ok (spec_bin flags pos sc)).
Proof. exact record_arith_total_gen. Qed.
Print Assumptions record_arith_total.

(** BinFor is the reg2bin of SAMv1 5.3 (also for the unplaced position -1). *)
Theorem binfor_is_spec :
  forall b e, -1 <= b < 2 ^ 31 -> internal_BinFor b e = Ok (spec_reg2bin b e).
Proof. exact binfor_is_spec_gen. Qed.
Print Assumptions binfor_is_spec.

(** OverlappingBinsFor is the reg2bins of SAMv1 5.3, same bins in the same order. *)
Theorem bai_bins_is_spec :
  forall b e, -1 <= b < 2 ^ 31 -> 0 <= e <= 2 ^ 31 ->
    overlapping_bins_for b e = Ok (spec_reg2bins b e).
Proof. exact obf_is_spec_gen. Qed.
Print Assumptions bai_bins_is_spec.

(** BAI: whenever two intervals within [0, 2^29] overlap, the bin of one is
    in the bin list of the other. *)
Theorem bai_bin_in_bins :
  forall b1 e1 b2 e2,
    0 <= b1 -> 0 <= b2 -> b1 < e1 <= 2 ^ 29 -> b2 < e2 <= 2 ^ 29 -> b1 < e2 -> b2 < e1 ->
    exists k l, internal_BinFor b1 e1 = Ok k /\ overlapping_bins_for b2 e2 = Ok l /\ In k l.
Proof. exact bai_bin_in_bins_gen. Qed.
Print Assumptions bai_bin_in_bins.

(** End to end for BAM indexing: the bin of a placed record is in the bin list
    of every query interval that overlaps its alignment. *)
Theorem record_bin_in_query_bins :
  forall flags pos c sc b2 e2,
    spec_decode c = Some sc -> 0 <= pos ->
    pos < spec_end flags pos sc <= 2 ^ 29 ->
    0 <= b2 -> b2 < e2 <= 2 ^ 29 ->
    pos < e2 -> b2 < spec_end flags pos sc ->
    exists k l, record_bin flags pos c = Ok k /\ overlapping_bins_for b2 e2 = Ok l /\ In k l.
Proof. exact record_bin_in_query_bins_gen. Qed.
Print Assumptions record_bin_in_query_bins.

(** CSI: reg2bin and reg2bins in uint32 arithmetic are the functions of the
    CSI specification for EVERY geometry with depth <= 10 and
    min_shift + 3*depth <= 62. *)
Theorem csi_reg2bin_is_spec :
  forall b e ms depth,
    0 <= ms -> 0 <= depth <= 10 -> ms + 3 * depth <= 62 ->
    0 <= b <= 2 ^ (ms + 3 * depth) -> 0 <= e <= 2 ^ (ms + 3 * depth) ->
    csi_reg2bin b e ms depth = Ok (spec_csi_reg2bin b e ms depth).
Proof. exact csi_reg2bin_is_spec_gen. Qed.
Print Assumptions csi_reg2bin_is_spec.

(** The translation of csi.reg2bin regenerated from csi/csi.go on every run is
    the hand model for every input and every fuel above the depth (so the
    theorems below speak about the loop as the source has it), it is the
    specification's function on every legal geometry, and with no fuel it
    reports Stuck rather than a value. *)
Theorem csi_reg2bin_translated :
  forall beg e ms depth k,
    0 <= depth < 2 ^ 32 ->
    csigen_reg2bin (S (Z.to_nat depth) + k) beg e ms depth = csi_reg2bin beg e ms depth.
Proof. exact csigen_reg2bin_is_model. Qed.
Print Assumptions csi_reg2bin_translated.

Theorem csi_reg2bin_translated_is_spec :
  forall b e ms depth,
    0 <= ms -> 0 <= depth <= 10 -> ms + 3 * depth <= 62 ->
    0 <= b <= 2 ^ (ms + 3 * depth) -> 0 <= e <= 2 ^ (ms + 3 * depth) ->
    csigen_reg2bin 11 b e ms depth = Ok (spec_csi_reg2bin b e ms depth)
    /\ csigen_reg2bin 0 b e ms depth = Stuck.
Proof. intros; split; [apply csigen_reg2bin_is_spec; assumption | apply csigen_reg2bin_no_fuel]. Qed.
Print Assumptions csi_reg2bin_translated_is_spec.

Theorem csi_reg2bins_is_spec :
  forall b e ms depth,
    0 <= ms -> 0 <= depth <= 10 -> ms + 3 * depth <= 62 ->
    0 <= b <= 2 ^ (ms + 3 * depth) -> 1 <= e <= 2 ^ (ms + 3 * depth) ->
    csi_reg2bins b e ms depth = Ok (spec_csi_reg2bins b e ms depth).
Proof. exact csi_reg2bins_is_spec_gen. Qed.
Print Assumptions csi_reg2bins_is_spec.

(** CSI: for every such geometry and every pair of overlapping intervals in
    [0, 2^(min_shift+3*depth)], the bin of one is in the bin list of the other. *)
Theorem csi_bin_in_bins :
  forall ms depth b1 e1 b2 e2,
    0 <= ms -> 0 <= depth <= 10 -> ms + 3 * depth <= 62 ->
    0 <= b1 -> 0 <= b2 -> b1 < e1 <= 2 ^ (ms + 3 * depth) -> b2 < e2 <= 2 ^ (ms + 3 * depth) ->
    b1 < e2 -> b2 < e1 ->
    exists k l, csi_reg2bin b1 e1 ms depth = Ok k /\ csi_reg2bins b2 e2 ms depth = Ok l /\ In k l.
Proof. exact csi_bin_in_bins_gen. Qed.
Print Assumptions csi_bin_in_bins.

(** The bin list is exactly the set of bins (level m, index i, number
    (8^m-1)/7 + i) whose interval [i*2^s, (i+1)*2^s) meets the query, for every
    min_shift >= 0 and depth >= 0 ... *)
Theorem csi_bins_exact :
  forall k b e ms depth, 0 <= ms -> 0 <= depth ->
    (In k (spec_csi_reg2bins b e ms depth) <->
     exists m i, (m <= Z.to_nat depth)%nat /\ k = geo8 m + i /\
       bin_lo ms depth (Z.of_nat m) i < e /\ b < bin_hi ms depth (Z.of_nat m) i).
Proof. exact csi_bins_exact_spec. Qed.
Print Assumptions csi_bins_exact.

(** ... and the bin of an interval is a bin whose interval contains it. *)
Theorem csi_bin_contains :
  forall b e ms depth, 0 <= ms -> 0 <= depth -> 0 <= b < e -> e <= 2 ^ (ms + 3 * depth) ->
    exists m i, (m <= Z.to_nat depth)%nat /\ spec_csi_reg2bin b e ms depth = geo8 m + i /\
      bin_lo ms depth (Z.of_nat m) i <= b /\ e <= bin_hi ms depth (Z.of_nat m) i.
Proof. exact csi_bin_contains_spec. Qed.
Print Assumptions csi_bin_contains.

(** ... it is the smallest such bin: no bin of a finer level contains the interval. *)
Theorem csi_bin_smallest :
  forall b e ms depth, 0 <= ms -> 0 <= depth -> 0 <= b < e -> e <= 2 ^ (ms + 3 * depth) ->
    exists m i, (m <= Z.to_nat depth)%nat /\ spec_csi_reg2bin b e ms depth = geo8 m + i /\
      bin_lo ms depth (Z.of_nat m) i <= b /\ e <= bin_hi ms depth (Z.of_nat m) i /\
      forall j i', (m < j <= Z.to_nat depth)%nat ->
        ~ (bin_lo ms depth (Z.of_nat j) i' <= b /\ e <= bin_hi ms depth (Z.of_nat j) i').
Proof. exact csi_bin_smallest_spec. Qed.
Print Assumptions csi_bin_smallest.

(** The Go bin lists themselves (uint32 arithmetic), for every geometry: no
    bin twice, and exactly the bins whose interval meets the query. *)
Theorem csi_model_bins_exact :
  forall b e ms depth,
    0 <= ms -> 0 <= depth <= 10 -> ms + 3 * depth <= 62 ->
    0 <= b <= 2 ^ (ms + 3 * depth) -> 1 <= e <= 2 ^ (ms + 3 * depth) ->
    exists l, csi_reg2bins b e ms depth = Ok l /\ NoDup l /\
      forall k, In k l <->
        exists m i, (m <= Z.to_nat depth)%nat /\ k = geo8 m + i /\
          bin_lo ms depth (Z.of_nat m) i < e /\ b < bin_hi ms depth (Z.of_nat m) i.
Proof. exact csi_model_bins_exact_gen. Qed.
Print Assumptions csi_model_bins_exact.

Theorem bai_model_bins_exact :
  forall b e, 0 <= b < 2 ^ 29 -> 1 <= e <= 2 ^ 29 ->
    exists l, overlapping_bins_for b e = Ok l /\ NoDup l /\
      forall k, In k l <->
        exists m i, (m <= 5)%nat /\ k = geo8 m + i /\
          bin_lo 14 5 (Z.of_nat m) i < e /\ b < bin_hi 14 5 (Z.of_nat m) i.
Proof. exact bai_model_bins_exact_gen. Qed.
Print Assumptions bai_model_bins_exact.

(** The default CSI geometry is the BAI scheme: same bins, same lists. *)
Theorem csi_default_is_bai :
  forall b e, 0 <= b < 2 ^ 29 -> 1 <= e <= 2 ^ 29 ->
    csi_reg2bin b e csi_DefaultShift csi_DefaultDepth = internal_BinFor b e /\
    csi_reg2bins b e csi_DefaultShift csi_DefaultDepth = overlapping_bins_for b e.
Proof. exact csi_default_is_bai_gen. Qed.
Print Assumptions csi_default_is_bai.

(** Generated level constants: offsets (8^l-1)/7, shifts 29-3l. *)
Theorem level_constants_geometric :
  [internal_level0; internal_level1; internal_level2; internal_level3; internal_level4; internal_level5]
  = map level_offset [0; 1; 2; 3; 4; 5]
  /\ [internal_level0Shift; internal_level1Shift; internal_level2Shift; internal_level3Shift;
      internal_level4Shift; internal_level5Shift]
     = map (level_shift 14 5) [0; 1; 2; 3; 4; 5]
  /\ internal_nextBinShift = 3 /\ csi_nextBinShift = 3
  /\ csi_DefaultShift = 14 /\ csi_DefaultDepth = 5 /\ internal_indexWordBits = 14 + 3 * 5.
Proof. exact bai_levels_geometric. Qed.
Print Assumptions level_constants_geometric.

(** Outside the property's quantifier (empty query ending at 0): the uint32
    loop bound of csi.reg2bins wraps to 2^32-1 and the loop does not end,
    whereas the specification's C code returns an empty range there. Recorded
    as a theorem about the model so that the limit of [csi_reg2bins_is_spec]
    (1 <= e) is not an artefact of the proof. *)
Theorem csi_reg2bins_empty_query_at_0_stuck :
  forall b ms depth,
    0 <= ms -> 0 <= depth <= 10 -> ms + 3 * depth <= 62 -> 0 <= b <= 2 ^ (ms + 3 * depth) ->
    csi_reg2bins b 0 ms depth = Stuck.
Proof. exact csi_reg2bins_end0_stuck. Qed.
Print Assumptions csi_reg2bins_empty_query_at_0_stuck.

(** Non-vacuity. *)
Example ex_record :
  (* 100000, 3S 10M 2I 5D 20M 4H: end 100035, bin 4687, valid for 35 bases *)
  let c := [52; 160; 33; 82; 320; 69] in
  spec_decode c = Some [(opS, 3); (opM, 10); (opI, 2); (opD, 5); (opM, 20); (opH, 4)]
  /\ record_end 0 100000 c = Ok 100035 /\ record_len 0 100000 c = Ok 35
  /\ record_bin 0 100000 c = Ok 4687 /\ cigar_lengths c = Ok (35, 35)
  /\ cigar_isvalid c 35 = Ok true /\ cigar_isvalid c 34 = Ok false
  /\ record_bin 12 100000 c = Ok 4687 /\ record_bin 12 (-1) [] = Ok 4680
  /\ record_end 0 10 [160; 57; 176] = Ok 28   (* 10M3B11M *)
  /\ cigar_isvalid [160; 52; 160] 23 = Ok false
  /\ record_end 0 10 [160; 173; 80] = Ok 25      (* 10M 10<code 13> 5M: the undefined code moves nothing *)
  /\ cigar_lengths [160; 173; 80] = Ok (15, 15).
Proof. vm_compute. repeat split; reflexivity. Qed.

Example ex_bins :
  internal_BinFor 0 16389 = Ok 585
  /\ csi_reg2bin 0 16389 14 5 = Ok 585
  /\ csi_reg2bins 16385 16387 14 5 = Ok [0; 1; 9; 73; 585; 4682]
  /\ overlapping_bins_for 16385 16387 = Ok [0; 1; 9; 73; 585; 4682]
  /\ csi_reg2bin 1000 9000 3 10 = Ok 37449
  /\ csigen_reg2bin 11 1000 9000 3 10 = Ok 37449 /\ csigen_reg2bin 6 0 16389 14 5 = Ok 585
  /\ csigen_reg2bin 5 0 (2 ^ 29) 14 5 = Stuck
  /\ existsb (Z.eqb 37449) (spec_csi_reg2bins 8999 9001 3 10) = true.
Proof. vm_compute. repeat split; reflexivity. Qed.
