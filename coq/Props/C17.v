(** C17 — chunk merge strategies never lose coverage.
    Statements only; proofs are in Proofs/Strategy.v (functional model),
    Proofs/StrategyLoop.v (the generated translation computes the model) and
    Proofs/StrategyMain.v.

    [run_strategy s l] runs the Gallina translation of index.Identity /
    Adjacent / Squash / CompressorStrategy(near) that /verif/gen regenerates
    from bgzf/index/strategy.go on every run (coq/Generated.v, section
    50_strategy) on the chunk list [l]; [Ok out] is a normal return, the other
    outcomes are a run-time panic and an exhausted loop budget.

    Vocabulary (Model/StrategySpec.v): [pos o] = File*2^16+Block;
    [covered l v]: some chunk c of l has pos Begin <= v < pos End;
    [sorted_begin]: ascending by pos Begin; [valid_chunks]: offsets of a BGZF
    file (0 <= File < 2^47, 0 <= Block < 2^16). *)
From Coq Require Import ZArith List Bool Lia Sorting.Sorted.
From Hts Require Import Base.Prim Base.Chunks Generated Model.Strategy Model.StrategySpec Model.StrategyRun
  Proofs.Strategy Proofs.StrategyLoop Proofs.StrategyRuns Proofs.StrategyMain.
Open Scope Z_scope.

(** Every strategy returns normally on every list whatsoever (no index out of
    range, no endless loop): any loop budget of at least the length suffices
    and the result does not depend on it. *)
Theorem strategy_total :
  forall s fuel l, (length l <= fuel)%nat ->
    exists out, run_strategy_fuel s fuel l = Ok out /\ run_strategy s l = Ok out.
Proof. exact strategy_total_gen. Qed.
Print Assumptions strategy_total.

(** The result of every strategy on a list sorted by begin is sorted by begin. *)
Theorem strategy_sorted :
  forall s l out, sorted_begin l -> run_strategy s l = Ok out -> sorted_begin out.
Proof. exact strategy_sorted_gen. Qed.
Print Assumptions strategy_sorted.

(** No strategy loses coverage: every position covered by the (sorted) input
    is covered by the result. *)
Theorem strategy_covers :
  forall s l out, valid_chunks l -> sorted_begin l -> run_strategy s l = Ok out ->
    forall v, covered l v -> covered out v.
Proof. exact strategy_covers_gen. Qed.
Print Assumptions strategy_covers.

(** Adjacent covers exactly the positions the input covers ... *)
Theorem adjacent_exact :
  forall l out, valid_chunks l -> sorted_begin l -> run_strategy Adjacent l = Ok out ->
    forall v, covered out v <-> covered l v.
Proof. exact adjacent_exact_main. Qed.
Print Assumptions adjacent_exact.

(** ... with chunks that are pairwise separated: each ends strictly before
    every later one begins. *)
Theorem adjacent_separated :
  forall l out, valid_chunks l -> sorted_begin l -> run_strategy Adjacent l = Ok out ->
    pairwise_separated out.
Proof. exact adjacent_separated_main. Qed.
Print Assumptions adjacent_separated.

(** Squash returns no chunk for no chunks and otherwise the single enclosing
    chunk: it begins where the first chunk begins, which is the least begin,
    and ends at the End of an input chunk that no End exceeds. *)
Theorem squash_enclosing :
  forall l out, valid_chunks l -> sorted_begin l -> run_strategy Squash l = Ok out ->
    (l = [] -> out = []) /\ (l <> [] -> exists e, out = [e] /\ encloses e l).
Proof. exact squash_enclosing_main. Qed.
Print Assumptions squash_enclosing.

(** A Compressor leaves no two neighbours within its threshold: for every
    threshold (any integer, in particular every int64, negative ones and
    MaxInt64 included) consecutive result chunks a, b have
    File(End a) + near < File(Begin b).  Sortedness is not needed. *)
Theorem compressor_gap :
  forall near l out, valid_chunks l -> run_strategy (Compressor near) l = Ok out ->
    neighbours_far near out.
Proof. exact compressor_gap_main. Qed.
Print Assumptions compressor_gap.

(** Applying a strategy to its own result changes nothing (all lists). *)
Theorem strategy_idempotent :
  forall s l out, run_strategy s l = Ok out -> run_strategy s out = Ok out.
Proof. exact strategy_idempotent_gen. Qed.
Print Assumptions strategy_idempotent.

(** Identity leaves the list unaltered. *)
Theorem identity_unaltered : forall l, run_strategy Identity l = Ok l.
Proof. exact identity_unaltered_main. Qed.
Print Assumptions identity_unaltered.

(** Results consist of BGZF offsets again (so the theorems above apply to
    repeated merging, e.g. MergeChunks called twice with different strategies). *)
Theorem strategy_valid :
  forall s l out, valid_chunks l -> run_strategy s l = Ok out -> valid_chunks out.
Proof. exact strategy_valid_gen. Qed.
Print Assumptions strategy_valid.

(** What exactly a strategy returns (all lists of BGZF chunks, sorted or not):
    the input is cut into consecutive runs and every run is replaced by its
    enclosing chunk (Begin of its first chunk, the largest End); a chunk
    continues the run before it exactly when the strategy's relation holds
    between the run's enclosing chunk so far and the chunk — never for
    Identity, always for Squash, "begins at or before the end" for Adjacent,
    "begins within near compressed bytes of the end" for a Compressor.  So a
    strategy neither merges more nor less than it documents, and every result
    offset is an input offset. *)
Theorem strategy_runs :
  forall s l out, valid_chunks l -> run_strategy s l = Ok out -> merged_runs (joins s) l out.
Proof. exact strategy_runs_gen. Qed.
Print Assumptions strategy_runs.

(** Non-vacuity: a sorted list of BGZF chunks with a nested, a touching, a
    zero-length and a distant chunk, and what each strategy returns for it. *)
Definition c17_example : list chunk :=
  [((0, 0), (7, 100)); ((0, 5), (0, 9)); ((7, 100), (7, 200)); ((7, 200), (7, 200)); ((50, 0), (60, 0))].

Example c17_example_hyps : valid_chunks c17_example /\ sorted_begin c17_example.
Proof.
  split; unfold c17_example.
  - repeat (apply Forall_cons;
            [unfold valid_chunk, valid_offset, c_Begin, c_End, o_File, o_Block; cbn [fst snd]; lia |]).
    apply Forall_nil.
  - repeat (apply Sorted_cons;
            [| first [apply HdRel_nil
                     | apply HdRel_cons; unfold begin_le, pos, c_Begin, o_File, o_Block; cbn [fst snd]; lia]]).
    apply Sorted_nil.
Qed.

Example c17_example_runs :
  run_strategy Adjacent c17_example = Ok [((0, 0), (7, 200)); ((50, 0), (60, 0))]
  /\ run_strategy Squash c17_example = Ok [((0, 0), (60, 0))]
  /\ run_strategy (Compressor 42) c17_example = Ok [((0, 0), (7, 200)); ((50, 0), (60, 0))]
  /\ run_strategy (Compressor 43) c17_example = Ok [((0, 0), (60, 0))]
  /\ run_strategy (Compressor (-1)) c17_example
     = Ok [((0, 0), (7, 100)); ((7, 100), (7, 200)); ((7, 200), (7, 200)); ((50, 0), (60, 0))]
  /\ run_strategy (Compressor 9223372036854775807) c17_example = Ok [((0, 0), (60, 0))]
  /\ covered c17_example 300 /\ ~ covered c17_example (7 * 65536 + 200).
Proof.
  do 6 (split; [vm_compute; reflexivity |]). split.
  - exists ((0, 0), (7, 100)). split; [left; reflexivity |].
    unfold covers, pos, c_Begin, c_End, o_File, o_Block; cbn [fst snd]; lia.
  - intros [c [Hin Hc]]. unfold covers, pos in Hc. cbn in Hin.
    repeat (destruct Hin as [<- | Hin];
            [unfold c_Begin, c_End, o_File, o_Block in Hc; cbn [fst snd] in Hc; lia |]).
    destruct Hin.
Qed.
