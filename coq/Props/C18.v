(** C18 — bam.Merger returns a loss-free, ordered merge re-linked to the merged
    header.  Statements only; proofs in Proofs/MergeRun.v, Merger.v,
    MergerTop.v, MergerHeap.v, MergerHeapOrd.v, MergerOrders.v, MergerFinal.v.

    Vocabulary (Model/Merger.v): an [input] is the list of records a
    bam.Reader delivers followed by io.EOF or by an error ([i_fail]);
    [run_merge pq links lessf ins] is NewMerger followed by Read until the end
    and returns the records read (each with the index of the input it was
    read from), the end code (0 io.EOF, 1 error, 2 panic, 3 other) and the
    final state; [lessf = None] is concatenation mode; [links] is the
    renumbering of references returned by sam.MergeHeaders; [goheap] is the
    transcription of container/heap, [listpq] a reference priority queue.
    [ins_ok links 0 ins]: every reference id occurring in a record of input i
    has an entry in links[i] (true of what MergeHeaders returns).
    [tagged links 0 ins]: all records of all inputs, re-linked, each tagged
    with the index of its input. *)
From Coq Require Import ZArith List Bool Permutation Sorted.
From Hts Require Import Base.Prim Model.Header Model.HeaderRun Proofs.HeaderWorld Proofs.HeaderMerge Proofs.HeaderHist.
From Hts Require Import Model.Merger Proofs.MergeRun Proofs.Merger Proofs.MergerTop
     Proofs.MergerHeap Proofs.MergerOrders Proofs.MergerHeapOrd Proofs.MergerFinal Proofs.MergerLinks.
Import ListNotations.
Open Scope Z_scope.

(** No Panic and no endless Read for any inputs, links and less function, in
    every mode; the merge ends with io.EOF exactly when every input ended
    cleanly and with the error otherwise, and that end is final: every further
    Read returns it again. *)
Theorem merge_errors_reported :
  forall links lessf ins,
    ins_ok links 0 ins ->
    exists outs e mf,
      run_merge goheap links lessf ins = Ok (outs, e, mf) /\
      e = (if all_clean ins then 0 else 1) /\
      mread goheap links lessf mf = Ok (if all_clean ins then GotEOF else GotErr, mf).
Proof. exact errors_gen. Qed.
Print Assumptions merge_errors_reported.

(** Nothing is invented and nothing is lost: the records returned are a
    sub-bag of the (re-linked) input records, and the whole bag when all inputs
    ended cleanly. *)
Theorem merge_permutation :
  forall links lessf ins,
    ins_ok links 0 ins ->
    exists outs e mf rest,
      run_merge goheap links lessf ins = Ok (outs, e, mf) /\
      Permutation (tagged links 0 ins) (outs ++ rest) /\
      (all_clean ins = true -> rest = []).
Proof. exact permutation_gen. Qed.
Print Assumptions merge_permutation.

(** The records that came from input j appear in the order of input j without
    gaps: they are a prefix of input j (all of it when all inputs ended
    cleanly). *)
Theorem merge_stable_per_input :
  forall links lessf ins,
    ins_ok links 0 ins ->
    exists outs e mf,
      run_merge goheap links lessf ins = Ok (outs, e, mf) /\
      forall j inp, nth_error ins j = Some inp ->
        exists k, proj (Z.of_nat j) outs = firstn k (map (relink links (Z.of_nat j)) (i_recs inp)) /\
                  (all_clean ins = true -> proj (Z.of_nat j) outs = map (relink links (Z.of_nat j)) (i_recs inp)).
Proof. exact stable_gen. Qed.
Print Assumptions merge_stable_per_input.

(** Re-linking, with sam.MergeHeaders as modelled and proved for C07
    (Model/Header.v, Props/C07.v merge_links).  [w] is a world of headers and
    reference objects satisfying the header invariant; [s0 :: srcs] are the
    source headers; MergeHeaders succeeds with merged header number
    [length (w_h w)] in world [w'] and link table [hl]; the records of input j
    refer to references of source header j (bam.Reader rejects anything else).
    Then NewMerger + Read with that link table returns, and every returned
    record is a record of the input it is attributed to with name, position and
    identity unchanged, whose reference and mate reference have become
    ([ref_belongs]) the id of a reference that the merged header owns and lists
    at that id and that has the name and length the source header gave it (a
    nil reference stays nil). *)
Theorem merge_relinked :
  forall w s0 srcs w' hl lessf ins,
    WInv w -> (s0 < length (w_h w))%nat -> (forall s, In s srcs -> (s < length (w_h w))%nat) ->
    Header.merge_headers w s0 srcs = Ok (w', 0, hl) ->
    inputs_fit w (s0 :: srcs) ins ->
    exists outs e mf,
      run_merge goheap (Some (links_of w' hl)) lessf ins = Ok (outs, e, mf) /\
      forall i r, In (i, r) outs ->
        exists j s hs inp r0,
          i = Z.of_nat j /\ nth_error (s0 :: srcs) j = Some s /\ nth_error (w_h w) s = Some hs /\
          nth_error ins j = Some inp /\ In r0 (i_recs inp) /\
          r_uid r = r_uid r0 /\ r_name r = r_name r0 /\ r_pos r = r_pos r0 /\ r_key r = r_key r0 /\
          ref_belongs w w' (length (w_h w)) hs (r_ref r0) (r_ref r) /\
          ref_belongs w w' (length (w_h w)) hs (r_mref r0) (r_mref r).
Proof. exact relinked_merged. Qed.
Print Assumptions merge_relinked.

(** One input: MergeHeaders returns the source header itself and nil links;
    the records are returned as read — they already refer to the merged
    header. *)
Theorem merge_relinked_single_input :
  forall lessf inp,
    exists outs e mf,
      run_merge goheap None lessf [inp] = Ok (outs, e, mf) /\
      forall i r, In (i, r) outs -> i = 0 /\ In r (i_recs inp).
Proof. exact relinked_single. Qed.
Print Assumptions merge_relinked_single_input.

(** The same fact for an arbitrary link table: every returned record is a
    record of the input it is attributed to, passed through reassignReference
    exactly once ... *)
Theorem merge_relinked_any_links :
  forall links lessf ins,
    ins_ok links 0 ins ->
    exists outs e mf,
      run_merge goheap links lessf ins = Ok (outs, e, mf) /\
      forall i r, In (i, r) outs ->
        exists j inp r0, i = Z.of_nat j /\ nth_error ins j = Some inp /\ In r0 (i_recs inp) /\
                         reassign links i r0 = Ok r.
Proof. exact relinked_gen. Qed.
Print Assumptions merge_relinked_any_links.

(** ... and reassignReference replaces the reference and the mate reference by
    the entry of the input's link table and leaves every other field alone. *)
Theorem reassign_reference_fields :
  forall links i r r',
    reassign links i r = Ok r' ->
    r_uid r' = r_uid r /\ r_name r' = r_name r /\ r_pos r' = r_pos r /\ r_key r' = r_key r /\
    match links with
    | None => r_ref r' = r_ref r /\ r_mref r' = r_mref r
    | Some ls =>
      (if r_ref r <? 0 then r_ref r' = r_ref r else link_of ls i (r_ref r) = Ok (r_ref r')) /\
      (if r_mref r <? 0 then r_mref r' = r_mref r else link_of ls i (r_mref r) = Ok (r_mref r'))
    end.
Proof. exact reassign_fields. Qed.
Print Assumptions reassign_reference_fields.

(** NewMerger as a whole ([new_merger_full]: checks, header merge,
    m.h.SortOrder = so, choice of less).  When it succeeds, all inputs declare
    the merged header's sort order, the mode is the one that order selects, a
    single input keeps its header (references, group order) and gets no link
    table, several inputs get GroupOrder unspecified and a link table. *)
Theorem newmerger_header :
  forall pq code ins h links lessf m,
    new_merger_full pq code ins = Ok (h, links, lessf, m) ->
    exists first rest,
      ins = first :: rest /\
      so_agree (i_so first) ins = true /\
      mh_so h = i_so first /\
      lessf = pick_less (i_so first) code /\
      new_merger pq links lessf ins = Ok m /\
      match rest with
      | [] => links = None /\ mh_refs h = i_refs first /\ mh_go h = i_go first
      | _ => mh_go h = 0 /\ exists ls, links = Some ls
      end.
Proof. exact new_merger_full_spec. Qed.
Print Assumptions newmerger_header.

(** The four declared orders: unsorted (1) = concatenation; queryname (2) and
    coordinate (3) = the two sam.Record methods; unknown (0, and any other
    value) = the caller's less, concatenation when that is nil. *)
Theorem merge_modes :
  forall so code,
    (so = 1 -> pick_less so code = None) /\
    (so = 2 -> pick_less so code = Some less_by_name) /\
    (so = 3 -> pick_less so code = Some less_by_coordinate) /\
    (so <> 1 -> so <> 2 -> so <> 3 -> pick_less so code = custom_less code).
Proof. exact pick_less_modes. Qed.
Print Assumptions merge_modes.

(** The whole statement for the merger NewMerger builds: loss-free, stable,
    errors reported ([merge_result]); concatenation when the declared order
    selects no less; sorted in the declared order ([declared_le]: name /
    merged-header coordinate / the custom order) when every input is. *)
Theorem merge_by_declared_order :
  forall code ins h links lessf m,
    new_merger_full goheap code ins = Ok (h, links, lessf, m) ->
    ins_ok links 0 ins ->
    exists outs e mf,
      drain goheap links lessf (S (total_recs ins)) m = (outs, e, mf) /\
      merge_result links ins outs e /\
      so_agree (mh_so h) ins = true /\
      lessf = pick_less (mh_so h) code /\
      (lessf = None -> exists rest, tagged links 0 ins = outs ++ rest) /\
      (lessf <> None -> ins_sorted links (declared_le (mh_so h) code) 0 ins ->
       StronglySorted (declared_le (mh_so h) code) (map snd outs)).
Proof. exact full_merge. Qed.
Print Assumptions merge_by_declared_order.

(** Unsorted (or unknown order without less) means concatenation: the output is
    the inputs one after the other, cut after the first failing input. *)
Theorem merge_cat_is_concatenation :
  forall links ins,
    ins_ok links 0 ins ->
    exists outs e mf rest,
      run_merge goheap links None ins = Ok (outs, e, mf) /\
      tagged links 0 ins = outs ++ rest /\ (all_clean ins = true -> rest = []).
Proof. exact cat_gen. Qed.
Print Assumptions merge_cat_is_concatenation.

(** Ordered output.  For every transitive relation [le] and every less function
    that is compatible with it (it answers true only if a <= b and false only
    if b <= a — LessByCoordinate answers true for two records without
    reference in both directions, so less need not be a strict order): if
    every input is sorted by [le] after re-linking, the output is sorted by
    [le] — also when the merge is cut short by an error.  [goheap] is the
    transcription of container/heap; that it keeps the heap order for such
    comparisons is proved (Proofs/MergerHeapOrd.v), not assumed. *)
Theorem merge_sorted :
  forall links (le : rec -> rec -> Prop) less ins,
    (forall a b c, le a b -> le b c -> le a c) -> less_compat le less ->
    ins_ok links 0 ins -> ins_sorted links le 0 ins ->
    exists outs e mf,
      run_merge goheap links (Some less) ins = Ok (outs, e, mf) /\
      StronglySorted le (map snd outs) /\ merge_result links ins outs e.
Proof. exact sorted_goheap. Qed.
Print Assumptions merge_sorted.

(** The same for any priority queue that meets the container/heap contract
    with respect to bySortOrderAndID.Less (bag laws, no failure when the
    comparison does not panic, an invariant under which Pop returns an element
    that is [le]-below all that remain): the merger's own logic does not
    depend on how the queue is implemented. *)
Theorem merge_sorted_any_queue :
  forall links (le : rec -> rec -> Prop) less pq wf ins,
    (forall a b c, le a b -> le b c -> le a c) ->
    pq_spec (rless less) (pq_init_of pq (rless less)) (pq_push_of pq (rless less))
            (pq_pop_of pq (rless less)) wf (fun x q' => Forall (leR le x) q') ->
    ins_ok links 0 ins -> ins_sorted links le 0 ins ->
    exists outs e mf,
      run_merge pq links (Some less) ins = Ok (outs, e, mf) /\
      StronglySorted le (map snd outs) /\ merge_result links ins outs e.
Proof. exact sorted_gen. Qed.
Print Assumptions merge_sorted_any_queue.

(** The declared orders: for the less function NewMerger selects — query name
    (Name, bytewise), coordinate (reference order of the merged header, then
    position, records without reference last) and the custom functions — the
    output is sorted in that order. *)
Theorem merge_sorted_declared_orders :
  forall links so code less ins,
    pick_less so code = Some less ->
    ins_ok links 0 ins ->
    ins_sorted links (if so =? 2 then le_name else if so =? 3 then le_coord else le_custom code) 0 ins ->
    exists outs e mf,
      run_merge goheap links (Some less) ins = Ok (outs, e, mf) /\
      StronglySorted (if so =? 2 then le_name else if so =? 3 then le_coord else le_custom code) (map snd outs) /\
      merge_result links ins outs e.
Proof. exact sorted_declared. Qed.
Print Assumptions merge_sorted_declared_orders.

(** The contract is met by a second, specification-level queue as well. *)
Theorem merge_sorted_reference_queue :
  forall links (le : rec -> rec -> Prop) less ins,
    (forall a b c, le a b -> le b c -> le a c) -> less_compat le less ->
    ins_ok links 0 ins -> ins_sorted links le 0 ins ->
    exists outs e mf,
      run_merge listpq links (Some less) ins = Ok (outs, e, mf) /\
      StronglySorted le (map snd outs) /\ merge_result links ins outs e.
Proof. exact sorted_listpq. Qed.
Print Assumptions merge_sorted_reference_queue.

(** sam.LessByCoordinate orders by the header's reference order, then position,
    records without reference last; sam.LessByName by name. *)
Theorem less_by_coordinate_is_header_order : less_compat le_coord less_by_coordinate.
Proof. exact less_by_coordinate_compat. Qed.
Print Assumptions less_by_coordinate_is_header_order.

Theorem less_by_name_is_name_order : less_compat le_name less_by_name.
Proof. exact less_by_name_compat. Qed.
Print Assumptions less_by_name_is_name_order.

(** Non-vacuity: two coordinate-sorted inputs whose headers list chrB before
    chrA (ids 0, 1) and a third, failing one; links as MergeHeaders returns. *)
Example merge_example :
  let r u ref pos mref := mkRec u [97] ref pos mref 0 in
  let ins := [mkInput [([66], 9); ([65], 9)] 3 [r 1 0 5 1; r 2 1 3 (-1)] false 0;
              mkInput [([65], 9); ([66], 9)] 3 [r 101 1 1 0; r 102 0 2 0; r 103 (-1) 0 (-1)] false 0] in
  let links := Some [[0; 1]; [1; 0]] in
  ins_ok links 0 ins /\ ins_sorted links le_coord 0 ins /\
  match run_merge goheap links (Some less_by_coordinate) ins with
  | Ok (outs, e, _) => map (fun o => (r_uid (snd o), r_ref (snd o), r_mref (snd o))) outs
                       = [(101, 0, 1); (1, 0, 1); (102, 1, 1); (2, 1, -1); (103, -1, -1)] /\ e = 0
  | _ => False
  end.
Proof.
  cbv zeta. split; [| split].
  - simpl. repeat split; repeat constructor; eexists; reflexivity.
  - simpl. repeat split; repeat constructor.
  - vm_compute. split; reflexivity.
Qed.

(** Non-vacuity of merge_relinked: the same two headers built in the header
    model of C07 (references B, A and A, B); MergeHeaders succeeds and the ids
    behind the links it returns are the table used above. *)
Example merge_relinked_example :
  let none := fun _ : str => @None str in
  match c07_exec none none world0 env0
          [ONewRef [66] 9 [] [] [] []; ONewRef [65] 9 [] [] [] []; ONewRef [65] 9 [] [] [] []; ONewRef [66] 9 [] [] [] [];
           ONewHdr None [0; 1]; ONewHdr None [2; 3]] with
  | Ok (w, _) =>
    match Header.merge_headers w 0%nat [1%nat] with
    | Ok (w', c, hl) => c = 0 /\ links_of w' hl = [[0; 1]; [1; 0]] /\ length (w_h w) = 2%nat
    | _ => False
    end
  | _ => False
  end.
Proof. vm_compute. repeat split; reflexivity. Qed.

Example merge_example_failing_input :
  let r u := mkRec u [97] (-1) 0 (-1) 0 in
  match run_merge goheap None (Some less_by_name) [mkInput [] 2 [r 1; r 2] true 0] with
  | Ok (outs, e, _) => map (fun o => r_uid (snd o)) outs = [1; 2] /\ e = 1
  | _ => False
  end.
Proof. vm_compute. split; reflexivity. Qed.
