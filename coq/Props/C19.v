(** C19 — FAI index and File return exactly the requested subsequence.
    Statements only; proofs are in Proofs/FaiIndex.v, FaiRead.v, FaiTsv.v.

    [newindex], [file_seq], [file_seqrange], [seq_script] (a script of
    Seq.Read / Reset calls), [writeto], [readfrom] are the executable model
    of fai/fai.go and fai/file.go (Model/Fai.v); Record.position,
    Record.endOfLineOffset and the blank-line arm of NewIndex are regenerated
    from the Go source on every run (Generated.v).  [fasta] / [wf] / [render]
    / [index_of] / [bases] / [ideal_script] describe well-formed FASTA files,
    their true faidx entries and an ideal reader, independently of the code. *)
From Coq Require Import ZArith List Bool.
From Hts Require Import Base.Prim Generated Model.Fai Proofs.FaiBase Proofs.FaiIndex Proofs.FaiRead Proofs.FaiTsv Proofs.FaiTsvIndex.
From Coq Require Import Permutation.
Open Scope Z_scope.

(** For every well-formed FASTA structure (any number of records, records
    WITHOUT sequence — a header directly followed by another header, by blank
    lines or by the end of the file — included, any line width, LF or CRLF per
    record, descriptions, blank lines before / between records, last line
    terminated or not) whose lines fit the bufio.Scanner of NewIndex
    ([lines_fit]: every line with its terminator has at most 65536 bytes, an
    unterminated last line at most 65535), NewIndex of the rendered bytes is
    exactly the list of true entries (name, length, offset of the first base,
    bases per line, bytes per line; a record without sequence has
    length 0, the offset just after its header line, and 0 / 0). *)
Theorem fai_index_correct :
  forall f, wf f = true -> lines_fit (render f) = true -> newindex (render f) = Ok (index_of f).
Proof. exact newindex_render. Qed.
Print Assumptions fai_index_correct.

(** The io.ReaderAt under File is quantified by its contract (Model/Fai.v,
    [read_at]): ReadAt(p, off) delivers min(len p, size-off) bytes; io.EOF is
    mandatory when that is fewer than len p, excluded when the bytes do not
    end at the end of the source, and FREE (nil or io.EOF) when all len p
    bytes were delivered and they end exactly at the end of the source.
    [ch : nat -> bool] is that free choice for the 1st, 2nd, ... ReadAt call
    of the history, [c] the number of calls made before.

    Every record r of a well-formed file, every range 0 <= s <= e <= length,
    EVERY script of Read calls (any buffer sizes, including empty buffers and
    Reset) and EVERY contract-conforming ReaderAt behaviour: SeqRange succeeds
    and the results satisfy the io.Reader contract over bases s..e
    ([conforms]: each Read returns exactly the next min(size, remaining)
    bases; io.EOF when fewer than size were left, nil when more were left,
    either when exactly size were left).  When the ReaderAt never reports
    io.EOF together with the last bytes (bytes.Reader, os.File) the results
    are exactly the ideal reader's. *)
Theorem fai_read_range :
  forall f rs1 r rs2 s e sizes ch c,
    wf f = true -> lines_fit (render f) = true -> f_recs f = rs1 ++ r :: rs2 -> 0 <= s <= e -> e <= zlen (bases r) ->
    exists idx q,
      newindex (render f) = Ok idx /\ file_seqrange idx (s_name r) s e = Ok q /\
      conforms (slice (bases r) s e) (slice (bases r) s e) sizes (seq_script (render f) ch c q sizes) = true /\
      ((forall n, ch n = false) ->
       seq_script (render f) ch c q sizes = ideal_script (slice (bases r) s e) (slice (bases r) s e) sizes).
Proof. exact read_range_gen. Qed.
Print Assumptions fai_read_range.

(** The same for File.Seq (the complete sequence). *)
Theorem fai_read_whole :
  forall f rs1 r rs2 sizes ch c,
    wf f = true -> lines_fit (render f) = true -> f_recs f = rs1 ++ r :: rs2 ->
    exists idx q,
      newindex (render f) = Ok idx /\ file_seq idx (s_name r) = Ok q /\
      conforms (bases r) (bases r) sizes (seq_script (render f) ch c q sizes) = true /\
      ((forall n, ch n = false) -> seq_script (render f) ch c q sizes = ideal_script (bases r) (bases r) sizes).
Proof. exact read_whole_gen. Qed.
Print Assumptions fai_read_whole.

(** Reading to the end with any non-empty buffers over any conforming
    ReaderAt: the bytes delivered up to and including the first call that
    reports io.EOF are exactly bases s..e, and io.EOF is reported. *)
Theorem fai_read_to_eof :
  forall f rs1 r rs2 s e sizes ch c,
    wf f = true -> lines_fit (render f) = true -> f_recs f = rs1 ++ r :: rs2 -> 0 <= s <= e -> e <= zlen (bases r) ->
    Forall (fun k => 1 <= k) sizes -> e - s < fold_right Z.add 0 sizes ->
    exists idx q,
      newindex (render f) = Ok idx /\ file_seqrange idx (s_name r) s e = Ok q /\
      drain (seq_script (render f) ch c q sizes) = Some (slice (bases r) s e).
Proof. exact read_to_eof. Qed.
Print Assumptions fai_read_to_eof.

(** A record without sequence (length zero, whatever its layout fields):
    every script of reads behaves as the ideal reader over the empty string;
    in particular no division by the zero line width, and no ReadAt at all. *)
Theorem fai_read_zero_length :
  forall file ch c e sizes, r_len e = 0 ->
    seq_script file ch c (mkSeq e 0 0 0) sizes = ideal_script [] [] sizes.
Proof. exact read_zero_length. Qed.
Print Assumptions fai_read_zero_length.

(** Beyond the Scanner's limit NewIndex answers with an error — the
    Scanner's "token too long", or an error exit of the scan loop on an
    earlier line — for EVERY input, never with an index (no wrong data). *)
Theorem fai_long_line_is_error :
  forall file, lines_fit file = false -> exists e, newindex file = Err e.
Proof. exact newindex_too_long. Qed.
Print Assumptions fai_long_line_is_error.

(** WriteTo then ReadFrom gives the index back — the same records, listed by
    ascending Start — for every index with unique names that contain no TAB
    and no LF (any other byte, double quotes included: ReadFrom splits lines
    at TABs without quoting rules), numbers in int64 and a geometry that
    passes the validation of ReadFrom ([geometry_ok]: nothing negative,
    BasesPerLine 0 only for Length 0, BytesPerLine >= BasesPerLine, offset of
    the last base below 2^63); all of that is [good_rec]. *)
Theorem fai_tsv_roundtrip :
  forall idx, NoDup (map r_name idx) -> Forall good_rec idx ->
    readfrom (writeto idx) = Ok (sort_by_start idx) /\ Permutation (sort_by_start idx) idx.
Proof. exact tsv_roundtrip. Qed.
Print Assumptions fai_tsv_roundtrip.

(** The index of EVERY well-formed file (quotes in names, records without
    sequence included) survives WriteTo / ReadFrom unchanged: its entries are
    sorted, uniquely named and pass the geometry validation of ReadFrom
    (twice the file size stays below 2^63, which keeps the validation's
    overflow test away). *)
Theorem fai_tsv_roundtrip_index :
  forall f, wf f = true -> 2 * zlen (render f) + 2 < 2 ^ 63 ->
    readfrom (writeto (index_of f)) = Ok (index_of f).
Proof. exact tsv_roundtrip_index. Qed.
Print Assumptions fai_tsv_roundtrip_index.

(** Every record of an index that ReadFrom accepts has passed the geometry
    validation, whatever the text was. *)
Theorem fai_readfrom_validates :
  forall tsv idx, readfrom tsv = Ok idx -> Forall (fun r => geometry_ok r = true) idx.
Proof. exact readfrom_validates. Qed.
Print Assumptions fai_readfrom_validates.

(** The offset has to advance over blank lines: the variant of NewIndex that
    skips them without counting (the code before the repair) gets a
    well-formed file wrong; the variant that counts gets it right. *)
Theorem fai_blank_offset_needed :
  wf blank_witness = true /\
  newindex_gen false (render blank_witness) <> Ok (index_of blank_witness) /\
  newindex_gen true (render blank_witness) = Ok (index_of blank_witness).
Proof. exact blank_offset_needed. Qed.
Print Assumptions fai_blank_offset_needed.

(** Non-vacuity: a CRLF file with a description, a blank line, a record
    without sequence, a name with a double quote and no final newline is
    well-formed and fits; its index, a read across a line end, the TSV round trip. *)
Example fai_example :
  let f := mkF [true] [mkS [97] [32; 100] [[65; 67; 71]; [84; 65; 67]] [71] true [true];
                       mkS [101] [] [] [] true [];
                       mkS [34; 98] [] [] [78; 78] true []] false in
  wf f = true /\ lines_fit (render f) = true
  /\ newindex (render f) = Ok [mkRec [97] 7 8 3 5; mkRec [101] 0 27 0 0; mkRec [34; 98] 2 32 2 2]
  /\ readfrom (writeto (index_of f)) = Ok (index_of f)
  /\ match file_seqrange (index_of f) [97] 2 7 with
     | Ok q => seq_script (render f) lazy_eof O q [2; 0; 10; 1] = [Ok ([71; 84], 0); Ok ([], 0); Ok ([65; 67; 71], 1); Ok ([], 1)]
     | _ => False
     end
  /\ match file_seq (index_of f) [34; 98] with
     | Ok q => seq_script (render f) lazy_eof O q [2; 1] = [Ok ([78; 78], 0); Ok ([], 1)]
               /\ seq_script (render f) eager_eof O q [2; 1] = [Ok ([78; 78], 1); Ok ([], 1)]
     | _ => False
     end.
Proof. vm_compute. repeat split; reflexivity. Qed.
