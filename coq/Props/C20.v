(** C20 — ITF-8 and LTF-8 integer codecs are exact inverses for every value.
    Statements only; the proofs are in Proofs/Itf8.v and Proofs/Ltf8.v.
    [itf8_Encode], [itf8_Decode], [itf8_Len] (and the ltf8 ones) are the
    Gallina translations of the Go functions, regenerated from /repo on every
    run (coq/Generated.v). *)
From Coq Require Import ZArith List Bool.
From Hts Require Import Base.Prim Generated Model.Itf8Spec Model.CramStream Proofs.Itf8 Proofs.Ltf8 Proofs.CramStream Proofs.CodecMore Proofs.CramScript Proofs.CramRoundtrip.
Open Scope Z_scope.

(** Every int32: Encode into any buffer with room for five bytes succeeds,
    writes exactly Len bytes and leaves the rest of the buffer alone; the
    bytes are the encoding the CRAM specification defines (only the low nibble
    of a fifth byte is significant); decoding them, followed by anything,
    returns the value, the same count, and success. *)
Theorem itf8_roundtrip :
  forall v b0 b1 b2 b3 b4 tl rest,
    - 2^31 <= v < 2^31 -> all_bytes rest = true ->
    exists n out,
      itf8_Encode ([b0; b1; b2; b3; b4] ++ tl) v = Ok (n, out) /\
      itf8_Len v = Ok n /\
      1 <= n <= 5 /\
      skipn (Z.to_nat n) out = skipn (Z.to_nat n) ([b0; b1; b2; b3; b4] ++ tl) /\
      itf8_canon (firstn (Z.to_nat n) out) = itf8_spec_encode v /\
      itf8_Decode (firstn (Z.to_nat n) out ++ rest) = Ok (v, n, true).
Proof. exact itf8_roundtrip_gen. Qed.
Print Assumptions itf8_roundtrip.

(** Decode is the specification's decoder on every byte string: it never
    panics, and computes the same value, count and success flag. *)
Theorem itf8_decode_is_spec :
  forall bs, all_bytes bs = true -> itf8_Decode bs = Ok (itf8_spec_decode bs).
Proof. exact itf8_Decode_spec. Qed.
Print Assumptions itf8_decode_is_spec.

(** Decode never reads beyond the length announced by the first byte and
    fails exactly when fewer bytes are available. *)
Theorem itf8_no_overread :
  forall bs, all_bytes bs = true ->
    exists v n ok,
      itf8_Decode bs = Ok (v, n, ok) /\
      (bs = [] -> n = 0 /\ ok = false) /\
      (bs <> [] -> n = itf8_spec_n (hd 0 bs) /\ ok = (n <=? zlen bs)) /\
      (ok = true -> itf8_Decode (firstn (Z.to_nat n) bs) = Ok (v, n, true)) /\
      (ok = false -> v = 0).
Proof. exact itf8_no_overread_gen. Qed.
Print Assumptions itf8_no_overread.

(** Every int64: the same statement for LTF-8 (nine length classes; the
    bytes are exactly the specified encoding, there is no insignificant part). *)
Theorem ltf8_roundtrip :
  forall v b0 b1 b2 b3 b4 b5 b6 b7 b8 tl rest,
    - 2^63 <= v < 2^63 -> all_bytes rest = true ->
    exists n out,
      ltf8_Encode ([b0; b1; b2; b3; b4; b5; b6; b7; b8] ++ tl) v = Ok (n, out) /\
      ltf8_Len v = Ok n /\
      1 <= n <= 9 /\
      skipn (Z.to_nat n) out = skipn (Z.to_nat n) ([b0; b1; b2; b3; b4; b5; b6; b7; b8] ++ tl) /\
      firstn (Z.to_nat n) out = ltf8_spec_encode v /\
      ltf8_Decode (firstn (Z.to_nat n) out ++ rest) = Ok (v, n, true).
Proof. exact ltf8_roundtrip_gen. Qed.
Print Assumptions ltf8_roundtrip.

(** LTF-8 Decode is the specification's decoder on every byte string (all nine
    first-byte classes, any length): never panics, same value, count, flag. *)
Theorem ltf8_decode_is_spec :
  forall bs, all_bytes bs = true -> ltf8_Decode bs = Ok (ltf8_spec_decode bs).
Proof. exact ltf8_Decode_spec. Qed.
Print Assumptions ltf8_decode_is_spec.

Theorem ltf8_no_overread :
  forall bs, all_bytes bs = true ->
    exists v n ok,
      ltf8_Decode bs = Ok (v, n, ok) /\
      (bs = [] -> n = 0 /\ ok = false) /\
      (bs <> [] -> n = ltf8_spec_n (hd 0 bs) /\ ok = (n <=? zlen bs)) /\
      (ok = true -> ltf8_Decode (firstn (Z.to_nat n) bs) = Ok (v, n, true)) /\
      (ok = false -> v = 0).
Proof. exact ltf8_no_overread_gen. Qed.
Print Assumptions ltf8_no_overread.

(** Encode into a destination of ANY length, for every int32 / int64: it
    panics (index out of range, at the first statement of the arm, so nothing
    has been written) exactly when the destination is shorter than Len;
    otherwise it returns Len, has written the encoding over the first Len
    bytes and has left every other byte alone.  [itf8_wire v] is the
    specified encoding except that a fifth byte carries all eight low bits of
    the value (its canonical form is the specified encoding: itf8_roundtrip). *)
Theorem itf8_encode_any_buffer :
  forall v buf, - 2^31 <= v < 2^31 ->
    itf8_Encode buf v =
      if zlen buf <? itf8_spec_len (v mod 2^32) then Panic 1
      else Ok (itf8_spec_len (v mod 2^32), itf8_wire v ++ skipn (Z.to_nat (itf8_spec_len (v mod 2^32))) buf).
Proof. exact itf8_Encode_any. Qed.
Print Assumptions itf8_encode_any_buffer.

Theorem ltf8_encode_any_buffer :
  forall v buf, - 2^63 <= v < 2^63 ->
    ltf8_Encode buf v =
      if zlen buf <? ltf8_spec_len (v mod 2^64) then Panic 1
      else Ok (ltf8_spec_len (v mod 2^64), ltf8_spec_encode v ++ skipn (Z.to_nat (ltf8_spec_len (v mod 2^64))) buf).
Proof. exact ltf8_Encode_any. Qed.
Print Assumptions ltf8_encode_any_buffer.

(** The round trip through a destination of any sufficient length (the
    statement of itf8_roundtrip / ltf8_roundtrip without the explicit 5 / 9
    byte prefix): Encode returns Len, keeps the length of the destination,
    changes only the first Len bytes, these are the specified encoding, and
    followed by anything they decode to the value. *)
Theorem itf8_roundtrip_any_buffer :
  forall v buf rest,
    - 2^31 <= v < 2^31 -> all_bytes rest = true -> itf8_spec_len (v mod 2^32) <= zlen buf ->
    exists out,
      itf8_Encode buf v = Ok (itf8_spec_len (v mod 2^32), out) /\
      zlen out = zlen buf /\
      skipn (Z.to_nat (itf8_spec_len (v mod 2^32))) out = skipn (Z.to_nat (itf8_spec_len (v mod 2^32))) buf /\
      itf8_canon (firstn (Z.to_nat (itf8_spec_len (v mod 2^32))) out) = itf8_spec_encode v /\
      itf8_Decode (firstn (Z.to_nat (itf8_spec_len (v mod 2^32))) out ++ rest) = Ok (v, itf8_spec_len (v mod 2^32), true).
Proof. exact itf8_roundtrip_any. Qed.
Print Assumptions itf8_roundtrip_any_buffer.

Theorem ltf8_roundtrip_any_buffer :
  forall v buf rest,
    - 2^63 <= v < 2^63 -> all_bytes rest = true -> ltf8_spec_len (v mod 2^64) <= zlen buf ->
    exists out,
      ltf8_Encode buf v = Ok (ltf8_spec_len (v mod 2^64), out) /\
      zlen out = zlen buf /\
      skipn (Z.to_nat (ltf8_spec_len (v mod 2^64))) out = skipn (Z.to_nat (ltf8_spec_len (v mod 2^64))) buf /\
      firstn (Z.to_nat (ltf8_spec_len (v mod 2^64))) out = ltf8_spec_encode v /\
      ltf8_Decode (firstn (Z.to_nat (ltf8_spec_len (v mod 2^64))) out ++ rest) = Ok (v, ltf8_spec_len (v mod 2^64), true).
Proof. exact ltf8_roundtrip_any. Qed.
Print Assumptions ltf8_roundtrip_any_buffer.

(** Every spelling of a value that the specification allows for its length
    class (any high nibble in a fifth byte), followed by anything, decodes to
    the value. *)
Theorem itf8_decode_accepts_any_fifth_nibble :
  forall v enc rest,
    - 2^31 <= v < 2^31 -> all_bytes enc = true -> all_bytes rest = true ->
    zlen enc = itf8_spec_len (v mod 2^32) -> itf8_canon enc = itf8_spec_encode v ->
    itf8_Decode (enc ++ rest) = Ok (v, itf8_spec_len (v mod 2^32), true).
Proof. exact itf8_Decode_accepts. Qed.
Print Assumptions itf8_decode_accepts_any_fifth_nibble.

(** Different values never share an encoding. *)
Theorem codec_encodings_injective :
  (forall v w, - 2^31 <= v < 2^31 -> - 2^31 <= w < 2^31 -> itf8_spec_encode v = itf8_spec_encode w -> v = w) /\
  (forall v w, - 2^63 <= v < 2^63 -> - 2^63 <= w < 2^63 -> ltf8_spec_encode v = ltf8_spec_encode w -> v = w).
Proof. exact (conj itf8_encode_injective ltf8_encode_injective). Qed.
Print Assumptions codec_encodings_injective.

(** The stream readers of cram.go over a source that holds the bytes [s] and
    then reports the error [tail] (io.EOF = 1 or any other non-nil error), on
    a reader that has not failed: errorReader.itf8 takes exactly
    min(announced, available) bytes from the source, where the first byte
    announces the length (one byte is needed to learn it); it reports no
    error exactly when the announced bytes are there, and then returns what
    Decode returns on the input; otherwise it returns 0 with the source's
    error (ErrUnexpectedEOF when the source said EOF in mid-item). *)
Theorem stream_reads_exactly_n :
  forall s tail, all_bytes s = true -> tail <> 0 ->
    exists v r',
      er_itf8 (mkER s tail 0) = Ok (v, r') /\
      let n := announced itf8_spec_n s in
      er_rest r' = skipn (Z.to_nat (Z.min n (zlen s))) s /\
      er_tail r' = tail /\
      (er_err r' = 0 <-> n <= zlen s) /\
      (n <= zlen s -> itf8_Decode s = Ok (v, n, true)) /\
      (zlen s < n -> v = 0 /\ (er_err r' = tail \/ (tail = E_EOF /\ er_err r' = E_UEOF))).
Proof. exact stream_itf8_exact. Qed.
Print Assumptions stream_reads_exactly_n.

Theorem stream_ltf8_reads_exactly_n :
  forall s tail, all_bytes s = true -> tail <> 0 ->
    exists v r',
      er_ltf8 (mkER s tail 0) = Ok (v, r') /\
      let n := announced ltf8_spec_n s in
      er_rest r' = skipn (Z.to_nat (Z.min n (zlen s))) s /\
      er_tail r' = tail /\
      (er_err r' = 0 <-> n <= zlen s) /\
      (n <= zlen s -> ltf8_Decode s = Ok (v, n, true)) /\
      (zlen s < n -> v = 0 /\ (er_err r' = tail \/ (tail = E_EOF /\ er_err r' = E_UEOF))).
Proof. exact stream_ltf8_exact. Qed.
Print Assumptions stream_ltf8_reads_exactly_n.

(** Once the reader has failed, a call reads nothing and keeps the error. *)
Theorem stream_error_is_sticky :
  forall r, er_err r <> 0 -> er_itf8 r = Ok (0, r) /\ er_ltf8 r = Ok (0, r).
Proof. exact (fun r H => conj (er_itf8_sticky r H) (er_ltf8_sticky r H)). Qed.
Print Assumptions stream_error_is_sticky.

(** itf8slice never blocks; it panics only when the count it read is
    negative (make([]int32, n); that input is C11's business); otherwise
    either it consumed exactly the count and that many complete items and
    returns their values, or it failed having consumed all of an input that
    ends before or inside an item that was still owed. *)
Theorem stream_slice_reads_exactly_items :
  forall s tail, all_bytes s = true -> tail <> 0 ->
    match er_itf8slice (mkER s tail 0) with
    | Ok (vals, r') =>
      er_tail r' = tail /\
      ((er_err r' = 0 /\ exists pre, s = pre ++ er_rest r' /\ itf8_items pre (zlen vals :: vals))
       \/ (er_err r' <> 0 /\ er_rest r' = [] /\
           exists pre part c, s = pre ++ part /\ itf8_short part /\
             (itf8_items pre (c :: vals) /\ zlen vals < c \/ pre = [] /\ vals = [])))
    | Panic _ => exists pre rest c, s = pre ++ rest /\ itf8_items pre [c] /\ c < 0
    | _ => False
    end.
Proof. exact stream_itf8slice_exact. Qed.
Print Assumptions stream_slice_reads_exactly_items.

(** Any script of calls (0 = itf8, 1 = ltf8, other = itf8slice) on one reader
    over any input: no call blocks or returns a model error; a panic needs an
    itf8slice call (negative count); the trace of (values, error, bytes
    consumed so far) has one entry per call, the counter never decreases and
    never passes the length of the input, and after the first failure neither
    the error nor the counter changes any more. *)
Theorem stream_script_invariant :
  forall ops s tail, all_bytes s = true -> tail <> 0 ->
    match er_run ops (mkER s tail 0) (zlen s) with
    | Ok steps => length steps = length ops /\ script_ok (zlen s) 0 0 steps
    | Panic _ => exists op, In op ops /\ op <> 0 /\ op <> 1
    | _ => False
    end.
Proof. exact er_run_never_blocks. Qed.
Print Assumptions stream_script_invariant.

(** Write, then read from a stream: the bytes Encode writes for any int32
    ([itf8_wire v], see itf8_encode_any_buffer) or int64, followed by anything,
    are read back by the stream readers as the value, and the reader stops
    exactly behind them. *)
Theorem stream_roundtrip :
  (forall v rest tail, - 2^31 <= v < 2^31 -> all_bytes rest = true -> tail <> 0 ->
     er_itf8 (mkER (itf8_wire v ++ rest) tail 0) = Ok (v, mkER rest tail 0)) /\
  (forall v rest tail, - 2^63 <= v < 2^63 -> all_bytes rest = true -> tail <> 0 ->
     er_ltf8 (mkER (ltf8_spec_encode v ++ rest) tail 0) = Ok (v, mkER rest tail 0)).
Proof. exact (conj stream_itf8_roundtrip stream_ltf8_roundtrip). Qed.
Print Assumptions stream_roundtrip.

(** An array of any int32 values written as count followed by the elements is
    read back by itf8slice as exactly those elements (any length below 2^31,
    by induction on the list), leaving what follows untouched. *)
Theorem stream_slice_roundtrip :
  forall vs rest tail,
    Forall (fun v => - 2^31 <= v < 2^31) vs -> zlen vs < 2^31 -> all_bytes rest = true -> tail <> 0 ->
    er_itf8slice (mkER (itf8_array vs ++ rest) tail 0) = Ok (vs, mkER rest tail 0).
Proof. exact stream_itf8slice_roundtrip. Qed.
Print Assumptions stream_slice_roundtrip.

(** Non-vacuity: a concrete five-byte case. *)
Example itf8_minus5 :
  itf8_Encode [0; 0; 0; 0; 0] (-5) = Ok (5, [255; 255; 255; 255; 251])
  /\ itf8_Decode [255; 255; 255; 255; 251] = Ok (-5, 5, true).
Proof. split; vm_compute; reflexivity. Qed.

(** Non-vacuity: the nine-byte LTF-8 case whose second byte reaches the sign bit. *)
Example ltf8_minus5 :
  ltf8_Encode [0; 0; 0; 0; 0; 0; 0; 0; 0] (-5) = Ok (9, [255; 255; 255; 255; 255; 255; 255; 255; 251])
  /\ ltf8_Decode [255; 255; 255; 255; 255; 255; 255; 255; 251; 7] = Ok (-5, 9, true).
Proof. split; vm_compute; reflexivity. Qed.

(** Non-vacuity: a stream holding the two-byte item 0x80 0x05, then a cut three-byte item. *)
Example stream_two_items :
  er_itf8 (mkER [128; 5; 192; 1] 1 0) = Ok (5, mkER [192; 1] 1 0)
  /\ er_itf8 (mkER [192; 1] 1 0) = Ok (0, mkER [] 1 2)
  /\ er_itf8slice (mkER [2; 7; 129; 0; 9] 1 0) = Ok ([7; 256], mkER [9] 1 0).
Proof. repeat split; vm_compute; reflexivity. Qed.
