(** C20 — ITF-8 and LTF-8 integer codecs are exact inverses for every value.
    Statements only; the proofs are in Proofs/Itf8.v and Proofs/Ltf8.v.
    [itf8_Encode], [itf8_Decode], [itf8_Len] (and the ltf8 ones) are the
    Gallina translations of the Go functions, regenerated from /repo on every
    run (coq/Generated.v). *)
From Coq Require Import ZArith List Bool.
From Hts Require Import Base.Prim Generated Model.Itf8Spec Proofs.Itf8.
Open Scope Z_scope.

(** Every int32: Encode into any buffer with room for five bytes succeeds,
    writes exactly Len bytes and leaves the rest of the buffer alone; the
    bytes are the encoding the CRAM specification defines (only the low nibble
    of a fifth byte is significant); decoding them, followed by anything,
    returns the value, the same count, and success. *)
Theorem itf8_roundtrip :
  forall v b0 b1 b2 b3 b4 tl rest,
    - 2^31 <= v < 2^31 -> all_bytes rest = true ->
    exists n out,
      itf8_Encode ([b0; b1; b2; b3; b4] ++ tl) v = Ok (n, out) /\
      itf8_Len v = Ok n /\
      1 <= n <= 5 /\
      skipn (Z.to_nat n) out = skipn (Z.to_nat n) ([b0; b1; b2; b3; b4] ++ tl) /\
      itf8_canon (firstn (Z.to_nat n) out) = itf8_spec_encode v /\
      itf8_Decode (firstn (Z.to_nat n) out ++ rest) = Ok (v, n, true).
Proof. exact itf8_roundtrip_gen. Qed.
Print Assumptions itf8_roundtrip.

(** Decode is the specification's decoder on every byte string: it never
    panics, and computes the same value, count and success flag. *)
Theorem itf8_decode_is_spec :
  forall bs, all_bytes bs = true -> itf8_Decode bs = Ok (itf8_spec_decode bs).
Proof. exact itf8_Decode_spec. Qed.
Print Assumptions itf8_decode_is_spec.

(** Decode never reads beyond the length announced by the first byte and
    fails exactly when fewer bytes are available. *)
Theorem itf8_no_overread :
  forall bs, all_bytes bs = true ->
    exists v n ok,
      itf8_Decode bs = Ok (v, n, ok) /\
      (bs = [] -> n = 0 /\ ok = false) /\
      (bs <> [] -> n = itf8_spec_n (hd 0 bs) /\ ok = (n <=? zlen bs)) /\
      (ok = true -> itf8_Decode (firstn (Z.to_nat n) bs) = Ok (v, n, true)) /\
      (ok = false -> v = 0).
Proof. exact itf8_no_overread_gen. Qed.
Print Assumptions itf8_no_overread.

(** Non-vacuity: a concrete five-byte case. *)
Example itf8_minus5 :
  itf8_Encode [0; 0; 0; 0; 0] (-5) = Ok (5, [255; 255; 255; 255; 251])
  /\ itf8_Decode [255; 255; 255; 255; 251] = Ok (-5, 5, true).
Proof. split; vm_compute; reflexivity. Qed.
