package main

import (
	"bytes"
	"sort"
)

// emitters are registered by emit_*.go files (one per subsystem) and run in
// name order, so Generated.v is deterministic.
var emitters = map[string]func(w *bytes.Buffer){}

func emitAll(w *bytes.Buffer) {
	var names []string
	for n := range emitters {
		names = append(names, n)
	}
	sort.Strings(names)
	for _, n := range names {
		w.WriteString("\n(* ==== " + n + " ==== *)\n")
		emitters[n](w)
	}
}
