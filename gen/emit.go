package main

import (
	"bytes"
	"regexp"
	"sort"
	"strings"
)

// emitters are registered by emit_*.go files (one per subsystem) and run in
// name order, so Generated.v is deterministic.
var emitters = map[string]func(w *bytes.Buffer){}

func emitAll(w *bytes.Buffer) {
	var names []string
	for n := range emitters {
		names = append(names, n)
	}
	sort.Strings(names)
	var all bytes.Buffer
	for _, n := range names {
		all.WriteString("\n(* ==== " + n + " ==== *)\n")
		emitters[n](&all)
	}
	// Several subsystems read the same table off the source (consume, n16Table ...):
	// a one-line definition emitted twice with identical text is kept once;
	// the same name with different text is a translator bug.
	seen := map[string]string{}
	for _, line := range strings.SplitAfter(all.String(), "\n") {
		if m := oneLineDef.FindStringSubmatch(line); m != nil {
			if old, ok := seen[m[1]]; ok {
				if old != line {
					fatalf("definition %s emitted twice with different bodies", m[1])
				}
				continue
			}
			seen[m[1]] = line
		}
		w.WriteString(line)
	}
}

var oneLineDef = regexp.MustCompile(`^Definition ([A-Za-z0-9_']+) .*\.\s*$`)
