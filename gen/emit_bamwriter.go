package main

// C12: the calls that bam.NewWriterLevel makes on its BGZF writer after the
// header has been handed to it, read off bam/writer.go. The theorem
// bam_header_durable is about the script [Write header; Flush; Wait]; this
// skeleton says whether the source still runs exactly that script
// unconditionally: every statement of NewWriterLevel after the call of
// writeHeader is walked, a call bw.bg.M() at the top level is recorded as its
// code, the same call under an if/for/switch as code+10 (conditional).
//
//	bam_NewWriterLevel_bg_calls : list Z    1 Flush, 2 Wait, 3 Close, 4 Write, 5 Next, 9 other

import (
	"bytes"
	"fmt"
	"go/ast"
	"strings"
)

func init() {
	emitters["27_bam_newwriter"] = func(w *bytes.Buffer) {
		p := load("bam")
		fd := p.funcDecl("", "NewWriterLevel")
		code := map[string]int{"Flush": 1, "Wait": 2, "Close": 3, "Write": 4, "Next": 5}
		var out []string
		seenHeader := false
		var walk func(n ast.Node, cond bool)
		walk = func(n ast.Node, cond bool) {
			ast.Inspect(n, func(x ast.Node) bool {
				switch x := x.(type) {
				case *ast.IfStmt:
					if x.Init != nil {
						walk(x.Init, cond)
					}
					walk(x.Cond, cond)
					walk(x.Body, true)
					if x.Else != nil {
						walk(x.Else, true)
					}
					return false
				case *ast.ForStmt, *ast.RangeStmt, *ast.SwitchStmt, *ast.SelectStmt, *ast.FuncLit, *ast.GoStmt, *ast.DeferStmt:
					if seenHeader {
						fatalf("bam.NewWriterLevel: statement %T after the header is written is outside the understood shape", x)
					}
					return true
				case *ast.CallExpr:
					sel, ok := x.Fun.(*ast.SelectorExpr)
					if !ok {
						return true
					}
					if sel.Sel.Name == "writeHeader" {
						seenHeader = true
						return true
					}
					// bw.bg.M(...) or bg.M(...)
					recv := ""
					switch r := sel.X.(type) {
					case *ast.SelectorExpr:
						recv = r.Sel.Name
					case *ast.Ident:
						recv = r.Name
					}
					if recv != "bg" || !seenHeader {
						return true
					}
					c, ok := code[sel.Sel.Name]
					if !ok {
						c = 9
					}
					if cond {
						c += 10
					}
					out = append(out, fmt.Sprint(c))
				}
				return true
			})
		}
		walk(fd.Body, false)
		if !seenHeader {
			fatalf("bam.NewWriterLevel: no call of writeHeader")
		}
		fmt.Fprintf(w, "\n(* %s: calls on the BGZF writer after writeHeader (1 Flush, 2 Wait, 3 Close, 4 Write, 5 Next, 9 other; +10 when conditional) *)\n", p.fset.Position(fd.Pos()))
		fmt.Fprintf(w, "Definition bam_NewWriterLevel_bg_calls : list Z := [%s].\n", strings.Join(out, "; "))
	}
}
