package main

// C05: facts about the BAM record codec read off the Go source:
//   - sam.n16Table, sam.n16TableRev (nybble packing), bam.jumps (aux value
//     sizes), the Reference column of sam.consume (needed for the bin field);
//   - binary.Size of bam.bamRecordFixed minus the length field
//     (bamFixedRemainder) and the size of bam.Reader.buf;
//   - the layout skeleton of bam.Writer.Write: the ordered list of
//     bin.writeXxx calls (width, field) and of the variable length parts;
//   - the layout skeleton of bam.Reader.Read: the ordered list of
//     b.readXxx / b.discard calls of the fixed part (width, signedness,
//     destination).
// The model in coq/Model/BamCodec.v interprets these tables, so a changed
// order, width or table entry changes the terms the proofs are about.

import (
	"bytes"
	"fmt"
	"go/ast"
	"go/constant"
	"go/printer"
	"go/token"
	"go/types"
	"math/big"
	"strings"
)

func (p *pkgInfo) varDecl(name string) ast.Expr {
	for _, f := range p.files {
		for _, d := range f.Decls {
			gd, ok := d.(*ast.GenDecl)
			if !ok || gd.Tok != token.VAR {
				continue
			}
			for _, s := range gd.Specs {
				vs := s.(*ast.ValueSpec)
				for i, n := range vs.Names {
					if n.Name == name && i < len(vs.Values) {
						return vs.Values[i]
					}
				}
			}
		}
	}
	fatalf("%s: variable %s not found", p.dir, name)
	return nil
}

func (p *pkgInfo) constInt(e ast.Expr) *big.Int {
	tv, ok := p.info.Types[e]
	if !ok || tv.Value == nil {
		fatalf("%s: %s: not a constant expression", p.dir, p.fset.Position(e.Pos()))
	}
	v := constant.ToInt(tv.Value)
	if v.Kind() != constant.Int {
		fatalf("%s: %s: not an integer constant", p.dir, p.fset.Position(e.Pos()))
	}
	b, _ := new(big.Int).SetString(v.ExactString(), 10)
	return b
}

// intTable evaluates an array or slice composite literal of integer constants
// (positional or keyed). size < 0: length is the highest index + 1.
// field != "": the elements are struct literals and the named field is taken.
func (p *pkgInfo) intTable(name string, size int, field string) []*big.Int {
	cl, ok := p.varDecl(name).(*ast.CompositeLit)
	if !ok {
		fatalf("%s: %s is not a composite literal", p.dir, name)
	}
	vals := map[int]*big.Int{}
	next, hi := 0, -1
	for _, el := range cl.Elts {
		v := el
		if kv, ok := el.(*ast.KeyValueExpr); ok {
			next = int(p.constInt(kv.Key).Int64())
			v = kv.Value
		}
		var x *big.Int
		if field != "" {
			sl, ok := v.(*ast.CompositeLit)
			if !ok {
				fatalf("%s: %s: element is not a struct literal", p.dir, name)
			}
			x = big.NewInt(0)
			for _, fe := range sl.Elts {
				kv, ok := fe.(*ast.KeyValueExpr)
				if !ok {
					fatalf("%s: %s: positional struct literal", p.dir, name)
				}
				if id, ok := kv.Key.(*ast.Ident); ok && id.Name == field {
					x = p.constInt(kv.Value)
				}
			}
		} else {
			x = p.constInt(v)
		}
		vals[next] = x
		if next > hi {
			hi = next
		}
		next++
	}
	if size < 0 {
		size = hi + 1
	}
	if hi >= size {
		fatalf("%s: %s: index %d beyond size %d", p.dir, name, hi, size)
	}
	out := make([]*big.Int, size)
	for i := range out {
		if v, ok := vals[i]; ok {
			out[i] = v
		} else {
			out[i] = big.NewInt(0)
		}
	}
	return out
}

func emitTable(w *bytes.Buffer, name string, t []*big.Int) {
	var parts []string
	for _, v := range t {
		parts = append(parts, zlit(v))
	}
	fmt.Fprintf(w, "Definition %s : list Z := [%s].\n", name, strings.Join(parts, "; "))
}

func (p *pkgInfo) src(n ast.Node) string {
	var b bytes.Buffer
	printer.Fprint(&b, p.fset, n)
	return b.String()
}

func basicSize(ty types.Type) int {
	b, ok := ty.Underlying().(*types.Basic)
	if !ok {
		return -1
	}
	switch b.Kind() {
	case types.Int8, types.Uint8:
		return 1
	case types.Int16, types.Uint16:
		return 2
	case types.Int32, types.Uint32:
		return 4
	case types.Int64, types.Uint64:
		return 8
	}
	return -1
}

// structDecl returns the struct type declaration with the given name.
func (p *pkgInfo) structDecl(name string) *ast.StructType {
	for _, f := range p.files {
		for _, d := range f.Decls {
			gd, ok := d.(*ast.GenDecl)
			if !ok || gd.Tok != token.TYPE {
				continue
			}
			for _, s := range gd.Specs {
				ts := s.(*ast.TypeSpec)
				if st, ok := ts.Type.(*ast.StructType); ok && ts.Name.Name == name {
					return st
				}
			}
		}
	}
	fatalf("%s: struct %s not found", p.dir, name)
	return nil
}

// Field expressions of Writer.Write, in the vocabulary of Model/BamCodec.v.
var c05WriteFields = map[string]int{
	"int32(recLen)":         0,
	"int32(r.Ref.ID())":     1,
	"int32(r.Pos)":          2,
	"byte(len(r.Name) + 1)": 3,
	"r.MapQ":                4,
	"uint16(r.Bin())":       5,
	"uint16(len(r.Cigar))":  6,
	"uint16(r.Flags)":       7,
	"int32(r.Seq.Length)":   8,
	"int32(r.MateRef.ID())": 9,
	"int32(r.MatePos)":      10,
	"int32(r.TempLen)":      11,
}

var c05WriteWidth = map[string]int{"writeInt32": 4, "writeUint32": 4, "writeUint16": 2, "writeUint8": 1}

// Variable length parts of Writer.Write, in order of appearance.
var c05WriteVar = map[string]int{
	"bw.buf.WriteString(r.Name)":                20,
	"bw.buf.WriteByte(0)":                       21,
	"writeCigarOps(&bin, r.Cigar)":              22,
	"bw.buf.Write(doublets(r.Seq.Seq).Bytes())": 23,
	"bw.buf.Write(tags)":                        25,
}

// Destinations of the fixed-part reads of Reader.Read.
var c05ReadDst = map[string]int{
	"refID": 1, "rec.Pos": 2, "nLen": 3, "rec.MapQ": 4, "nCigar": 6, "rec.Flags": 7,
	"lSeq": 8, "nextRefID": 9, "rec.MatePos": 10, "rec.TempLen": 11,
}

func init() {
	emitters["50_bamcodec"] = func(w *bytes.Buffer) {
		sam := load("sam")
		bam := load("bam")
		emitTable(w, "sam_n16Table", sam.intTable("n16Table", 256, ""))
		emitTable(w, "sam_n16TableRev", sam.intTable("n16TableRev", 16, ""))
		emitTable(w, "sam_consumeRef", sam.intTable("consume", -1, "Reference"))
		emitTable(w, "sam_consumeQuery", sam.intTable("consume", -1, "Query"))
		emitTable(w, "bam_jumps", bam.intTable("jumps", 256, ""))
		emitTable(w, "sam_bamMagic", sam.intTable("bamMagic", 4, ""))

		// binary.Size(bamRecordFixed{}) - binary.Size(blockSize)
		st := bam.structDecl("bamRecordFixed")
		total, first := 0, -1
		var lay []string
		for _, f := range st.Fields.List {
			ty := bam.info.Types[f.Type].Type
			sz := -1
			if ty != nil {
				sz = basicSize(ty)
			}
			if sz < 0 {
				// type from another package that the soft importer could not resolve
				if se, ok := f.Type.(*ast.SelectorExpr); ok {
					if x, ok := se.X.(*ast.Ident); ok && x.Name == "sam" {
						if o := sam.pkg.Scope().Lookup(se.Sel.Name); o != nil {
							sz = basicSize(o.Type())
						}
					}
				}
			}
			if sz < 0 {
				fatalf("bam: bamRecordFixed: field of unsupported type %s", bam.src(f.Type))
			}
			for _, n := range f.Names {
				if first < 0 {
					first = sz
				}
				total += sz
				lay = append(lay, fmt.Sprintf("(* %s *) %d", n.Name, sz))
			}
		}
		fmt.Fprintf(w, "Definition bam_lenFieldSize : Z := %d.\n", first)
		fmt.Fprintf(w, "Definition bam_bamFixedRemainder : Z := %d.\n", total-first)
		fmt.Fprintf(w, "Definition bam_bamRecordFixed_sizes : list Z := [%s].\n", strings.Join(lay, "; "))
		// check that the source still computes the two variables this way
		if s := bam.src(bam.varDecl("bamFixedRemainder")); s != "binary.Size(bamRecordFixed{}) - lenFieldSize" {
			fatalf("bam: bamFixedRemainder is now %q", s)
		}
		if s := bam.src(bam.varDecl("lenFieldSize")); s != "binary.Size(bamRecordFixed{}.blockSize)" {
			fatalf("bam: lenFieldSize is now %q", s)
		}

		// size of Reader.buf
		rs := bam.structDecl("Reader")
		found := false
		for _, f := range rs.Fields.List {
			for _, n := range f.Names {
				if n.Name == "buf" {
					at, ok := f.Type.(*ast.ArrayType)
					if !ok || at.Len == nil {
						fatalf("bam: Reader.buf is not an array")
					}
					fmt.Fprintf(w, "Definition bam_readerBufSize : Z := %s.\n", zlit(bam.constInt(at.Len)))
					found = true
				}
			}
		}
		if !found {
			fatalf("bam: Reader.buf not found")
		}

		// Writer.Write skeleton
		wr := bam.funcDecl("Writer", "Write")
		var fixed, variable []string
		seenQual := false
		for _, s := range wr.Body.List {
			switch s := s.(type) {
			case *ast.ExprStmt:
				call, ok := s.X.(*ast.CallExpr)
				if !ok {
					continue
				}
				txt := bam.src(call)
				if sel, ok := call.Fun.(*ast.SelectorExpr); ok {
					if x, ok := sel.X.(*ast.Ident); ok && x.Name == "bin" {
						wd, ok := c05WriteWidth[sel.Sel.Name]
						if !ok || len(call.Args) != 1 {
							fatalf("bam: Writer.Write: unknown binaryWriter call %s", txt)
						}
						arg := bam.src(call.Args[0])
						id, ok := c05WriteFields[arg]
						if !ok {
							fatalf("bam: Writer.Write: unknown field expression %q", arg)
						}
						if len(variable) != 0 {
							fatalf("bam: Writer.Write: fixed field %q after variable length data", arg)
						}
						fixed = append(fixed, fmt.Sprintf("(%d, %d) (* %s *)", wd, id, arg))
						continue
					}
				}
				if id, ok := c05WriteVar[txt]; ok {
					variable = append(variable, fmt.Sprintf("%d (* %s *)", id, txt))
					continue
				}
				if txt == "bw.buf.Reset()" {
					continue
				}
				fatalf("bam: Writer.Write: unknown statement %s", txt)
			case *ast.IfStmt:
				c := bam.src(s.Cond)
				switch c {
				case "r.Qual != nil":
					// if r.Qual != nil { bw.buf.Write(r.Qual) } else { for i := 0; i < r.Seq.Length; i++ { bw.buf.WriteByte(0xff) } }
					body := bam.src(s.Body)
					els := ""
					if s.Else != nil {
						els = bam.src(s.Else)
					}
					if !strings.Contains(body, "bw.buf.Write(r.Qual)") || !strings.Contains(els, "i < r.Seq.Length") || !strings.Contains(els, "bw.buf.WriteByte(0xff)") {
						fatalf("bam: Writer.Write: quality branch changed: %s else %s", body, els)
					}
					variable = append(variable, "24 (* r.Qual or Seq.Length times 0xff *)")
					seenQual = true
				case "len(r.Name) == 0 || len(r.Name) > 254", "r.Qual != nil && len(r.Qual) != r.Seq.Length":
				default:
					fatalf("bam: Writer.Write: unknown condition %q", c)
				}
			}
		}
		if !seenQual {
			fatalf("bam: Writer.Write: quality branch not found")
		}
		fmt.Fprintf(w, "(* bam.Writer.Write: (width, field) of the fixed part in source order; fields: 0 recLen 1 Ref.ID 2 Pos 3 len(Name)+1 4 MapQ 5 Bin 6 len(Cigar) 7 Flags 8 Seq.Length 9 MateRef.ID 10 MatePos 11 TempLen *)\n")
		fmt.Fprintf(w, "Definition bam_Write_fixed : list (Z * Z) := [\n  %s].\n", strings.Join(fixed, ";\n  "))
		fmt.Fprintf(w, "(* variable length parts: 20 Name 21 NUL 22 Cigar 23 Seq 24 Qual 25 aux *)\n")
		fmt.Fprintf(w, "Definition bam_Write_var : list Z := [\n  %s].\n", strings.Join(variable, ";\n  "))
		// recLen expression
		var recLen string
		ast.Inspect(wr.Body, func(n ast.Node) bool {
			if as, ok := n.(*ast.AssignStmt); ok && len(as.Lhs) == 1 && bam.src(as.Lhs[0]) == "recLen" {
				recLen = strings.Join(strings.Fields(bam.src(as.Rhs[0])), " ")
			}
			return true
		})
		want := "bamFixedRemainder + len(r.Name) + 1 + len(r.Cigar)<<2 + len(r.Seq.Seq) + r.Seq.Length + len(tags)"
		// comments inside the expression are dropped by the printer only when not attached; normalise
		recLen = stripComments(recLen)
		if recLen != want {
			fatalf("bam: Writer.Write: recLen is now %q", recLen)
		}
		fmt.Fprintf(w, "(* recLen = %s *)\nDefinition bam_recLen_shape : Z := 1.\n", want)

		// Reader.Read fixed-part skeleton: statements before the first if
		rd := bam.funcDecl("Reader", "Read")
		var reads []string
		started := false
	loop:
		for _, s := range rd.Body.List {
			var call *ast.CallExpr
			dst := ""
			switch s := s.(type) {
			case *ast.AssignStmt:
				if len(s.Lhs) != 1 || len(s.Rhs) != 1 {
					if started {
						break loop
					}
					continue
				}
				dst = bam.src(s.Lhs[0])
				e := s.Rhs[0]
				// strip conversions: int(b.readInt32()), sam.Flags(b.readUint16())
				for {
					c, ok := e.(*ast.CallExpr)
					if !ok {
						break
					}
					if sel, ok := c.Fun.(*ast.SelectorExpr); ok {
						if x, ok := sel.X.(*ast.Ident); ok && x.Name == "b" {
							call = c
							break
						}
					}
					if len(c.Args) != 1 {
						break
					}
					e = c.Args[0]
				}
			case *ast.ExprStmt:
				if c, ok := s.X.(*ast.CallExpr); ok {
					if sel, ok := c.Fun.(*ast.SelectorExpr); ok {
						if x, ok := sel.X.(*ast.Ident); ok && x.Name == "b" {
							call = c
						}
					}
				}
			case *ast.IfStmt, *ast.DeclStmt:
				if started {
					if _, ok := s.(*ast.IfStmt); ok {
						break loop
					}
				}
				continue
			}
			if call == nil {
				if started {
					fatalf("bam: Reader.Read: unexpected statement in fixed part: %s", bam.src(s))
				}
				continue
			}
			started = true
			m := call.Fun.(*ast.SelectorExpr).Sel.Name
			switch m {
			case "readInt32":
				reads = append(reads, fmt.Sprintf("(4, 1, %d) (* %s *)", c05dst(dst), dst))
			case "readUint16":
				reads = append(reads, fmt.Sprintf("(2, 0, %d) (* %s *)", c05dst(dst), dst))
			case "readUint8":
				reads = append(reads, fmt.Sprintf("(1, 0, %d) (* %s *)", c05dst(dst), dst))
			case "discard":
				reads = append(reads, fmt.Sprintf("(%s, 2, 5) (* discard *)", zlit(bam.constInt(call.Args[0]))))
			default:
				fatalf("bam: Reader.Read: unknown buffer call %s in fixed part", m)
			}
		}
		// Length expressions of the variable part of Reader.Read, translated with the
		// fixed-width arithmetic of their Go types (nLen uint8, nCigar uint16, lSeq int):
		// the arguments of b.unsafeBytes (name, CIGAR block) and b.bytes (sequence).
		var c05Unsafe, c05Bytes []ast.Expr
		ast.Inspect(rd.Body, func(n ast.Node) bool {
			c, ok := n.(*ast.CallExpr)
			if !ok || len(c.Args) != 1 {
				return true
			}
			if sel, ok := c.Fun.(*ast.SelectorExpr); ok {
				if x, ok := sel.X.(*ast.Ident); ok && x.Name == "b" {
					switch sel.Sel.Name {
					case "unsafeBytes":
						c05Unsafe = append(c05Unsafe, c.Args[0])
					case "bytes":
						c05Bytes = append(c05Bytes, c.Args[0])
					}
				}
			}
			return true
		})
		if len(c05Unsafe) != 2 || len(c05Bytes) != 3 {
			fatalf("bam: Reader.Read: expected 2 b.unsafeBytes and 3 b.bytes calls, found %d and %d", len(c05Unsafe), len(c05Bytes))
		}
		if a, b := bam.src(c05Bytes[1]), bam.src(c05Bytes[2]); a != "lSeq" || b != "b.len()" {
			fatalf("bam: Reader.Read: quality/aux lengths are now %q and %q", a, b)
		}
		c05tr := &tr{p: bam, prefix: "bam", fn: rd}
		for _, d := range []struct {
			name, v string
			e       ast.Expr
		}{{"nameLen", "nLen", c05Unsafe[0]}, {"cigarLen", "nCigar", c05Unsafe[1]}, {"seqLen", "lSeq", c05Bytes[0]}} {
			var idx []string
			body := c05tr.expr(d.e, &idx)
			if len(idx) != 0 {
				fatalf("bam: Reader.Read: index expression in the %s length", d.name)
			}
			ast.Inspect(d.e, func(n ast.Node) bool {
				if id, ok := n.(*ast.Ident); ok {
					if o := bam.info.Uses[id]; o != nil {
						if _, isVar := o.(*types.Var); isVar && id.Name != d.v {
							fatalf("bam: Reader.Read: the %s length now depends on %s", d.name, id.Name)
						}
					}
				}
				return true
			})
			fmt.Fprintf(w, "(* bam.Reader.Read: %s *)\nDefinition bam_Read_%s (v_%s : Z) : Z := %s.\n", bam.src(d.e), d.name, d.v, body)
		}
		// Storage of a record block (newBuffer) and what buffer.bytes hands out:
		//   private_fresh: the block of a record above cap(br.buf) is a new allocation of this call;
		//   inline_shared: a block in br.buf is marked shared;
		//   bytes_copies:  bytes() copies the slice when the buffer is shared.
		// Anything else than the known shapes yields false (storage that may be reused by a later call).
		norm := func(n ast.Node) string { return strings.Join(strings.Fields(bam.src(n)), " ") }
		nb := bam.funcDecl("", "newBuffer")
		privateFresh, inlineShared, seenIf := false, false, false
		privSrc := ""
		ast.Inspect(nb.Body, func(n ast.Node) bool {
			is, ok := n.(*ast.IfStmt)
			if !ok || norm(is.Cond) != "size > cap(br.buf)" {
				return true
			}
			seenIf = true
			privSrc = norm(is.Body)
			if len(is.Body.List) == 1 && norm(is.Body.List[0]) == "b.off, b.data = 0, make([]byte, size)" {
				privateFresh = true
			}
			if eb, ok := is.Else.(*ast.BlockStmt); ok {
				data, sh := false, false
				for _, st := range eb.List {
					switch norm(st) {
					case "b.off, b.data = 0, br.buf[:size]":
						data = true
					case "b.shared = true":
						sh = true
					}
				}
				inlineShared = data && sh
			}
			return false
		})
		if !seenIf {
			fatalf("bam: newBuffer: the size > cap(br.buf) decision was not found")
		}
		bb := bam.funcDecl("buffer", "bytes")
		bytesCopies := len(bb.Body.List) == 3 &&
			norm(bb.Body.List[0]) == "data := b.unsafeBytes(n)" &&
			norm(bb.Body.List[1]) == "if !b.shared { return data }" &&
			norm(bb.Body.List[2]) == "return append(data[:0:0], data...)"
		fmt.Fprintf(w, "(* bam.newBuffer, size > cap(br.buf): %s *)\nDefinition bam_newBuffer_private_fresh : bool := %v.\n", privSrc, privateFresh)
		fmt.Fprintf(w, "Definition bam_newBuffer_inline_shared : bool := %v.\n", inlineShared)
		fmt.Fprintf(w, "(* bam.buffer.bytes: %s *)\nDefinition bam_buffer_bytes_copies : bool := %v.\n", norm(bb.Body), bytesCopies)
		fmt.Fprintf(w, "(* bam.Reader.Read: (width, kind, destination) of the fixed part in source order; kind 0 unsigned, 1 int32, 2 discard; destinations as the writer's fields *)\n")
		fmt.Fprintf(w, "Definition bam_Read_fixed : list (Z * Z * Z) := [\n  %s].\n", strings.Join(reads, ";\n  "))
	}
}

func c05dst(d string) int {
	id, ok := c05ReadDst[d]
	if !ok {
		fatalf("bam: Reader.Read: unknown destination %q in fixed part", d)
	}
	return id
}

func stripComments(s string) string {
	for {
		i := strings.Index(s, "//")
		if i < 0 {
			break
		}
		// comment runs to the next '+' that starts a new term in the normalised text
		j := strings.Index(s[i:], " + ")
		if j < 0 {
			s = strings.TrimSpace(s[:i])
			break
		}
		s = strings.TrimSpace(s[:i]) + s[i+j:]
	}
	return strings.Join(strings.Fields(s), " ")
}
