package main

// Channel skeleton of bgzf/writer.go for C09 (and C12): per function the
// ordered channel sends/receives, WaitGroup Add/Done/Wait, go statements,
// calls of writeBlock/writeOK, error-latch accesses, the underlying write,
// defers, early returns, breaks and the branching structure around them.
//
// Emitted as a bracketed token list of (code, name-id) pairs so that
// Generated.v needs nothing beyond Base.Prim; Model/FaultWriter.v parses it.
//
//	1 send ch   2 recv ch   3 close ch   4 Add wg   5 Done wg   6 Wait wg
//	7 go f      8 call f    9 setErr     10 Error() 11 write to the underlying io.Writer
//	12 return   13 break    20 defer{    21 if{     22 }else{   23 for{   24 range ch{   29 }
//
// name ids: queue 1, waiting 2, flush 3, qwg 4, wg 5, writeBlock 6, writeOK 7.
//
// The extraction aborts loudly when writer.go uses a construct it does not
// understand around these events.

import (
	"bytes"
	"fmt"
	"go/ast"
	"go/token"
	"strings"
)

var c09names = map[string]int{"queue": 1, "waiting": 2, "flush": 3, "qwg": 4, "wg": 5, "writeBlock": 6, "writeOK": 7}

type c09sk struct {
	p    *pkgInfo
	fn   string
	toks []string
}

func (s *c09sk) fail(n ast.Node, format string, a ...interface{}) {
	fatalf("%s: writer skeleton (%s): %s", s.p.fset.Position(n.Pos()), s.fn, fmt.Sprintf(format, a...))
}

func (s *c09sk) tok(code int, name string, n ast.Node) {
	id := 0
	if name != "" {
		var ok bool
		id, ok = c09names[name]
		if !ok {
			s.fail(n, "unknown channel/wait group/function %q", name)
		}
	}
	s.toks = append(s.toks, fmt.Sprintf("(%d, %d)", code, id))
}

func lastSel(e ast.Expr) string {
	switch e := e.(type) {
	case *ast.SelectorExpr:
		return e.Sel.Name
	case *ast.Ident:
		return e.Name
	case *ast.ParenExpr:
		return lastSel(e.X)
	}
	return ""
}

// isUnderlying reports whether e denotes the Writer's underlying io.Writer (the field w).
func isUnderlying(e ast.Expr) bool {
	se, ok := e.(*ast.SelectorExpr)
	return ok && se.Sel.Name == "w"
}

// expr emits the events of an expression in evaluation order.
func (s *c09sk) expr(e ast.Expr) {
	switch e := e.(type) {
	case nil:
	case *ast.Ident, *ast.BasicLit:
	case *ast.ParenExpr:
		s.expr(e.X)
	case *ast.SelectorExpr:
		s.expr(e.X)
	case *ast.StarExpr:
		s.expr(e.X)
	case *ast.IndexExpr:
		s.expr(e.X)
		s.expr(e.Index)
	case *ast.SliceExpr:
		s.expr(e.X)
		s.expr(e.Low)
		s.expr(e.High)
		s.expr(e.Max)
	case *ast.BinaryExpr:
		// && and || evaluate the right operand conditionally; none of the
		// events we track may hide there
		s.expr(e.X)
		if e.Op == token.LAND || e.Op == token.LOR {
			before := len(s.toks)
			s.expr(e.Y)
			if len(s.toks) != before {
				s.fail(e, "event inside a short-circuit operand")
			}
			return
		}
		s.expr(e.Y)
	case *ast.UnaryExpr:
		s.expr(e.X)
		if e.Op == token.ARROW {
			s.tok(2, lastSel(e.X), e)
		}
	case *ast.CompositeLit:
		for _, x := range e.Elts {
			s.expr(x)
		}
	case *ast.KeyValueExpr:
		s.expr(e.Value)
	case *ast.TypeAssertExpr:
		s.expr(e.X)
	case *ast.FuncLit:
		// not executed here
	case *ast.CallExpr:
		s.call(e)
	default:
		s.fail(e, "expression %T", e)
	}
}

func (s *c09sk) call(e *ast.CallExpr) {
	if se, ok := e.Fun.(*ast.SelectorExpr); ok {
		s.expr(se.X)
	}
	for _, a := range e.Args {
		s.expr(a)
	}
	switch f := e.Fun.(type) {
	case *ast.Ident:
		switch f.Name {
		case "close":
			s.tok(3, lastSel(e.Args[0]), e)
		case "writeOK":
			s.tok(8, "writeOK", e)
		}
	case *ast.SelectorExpr:
		recv := lastSel(f.X)
		switch f.Sel.Name {
		case "Add", "Done", "Wait":
			if recv == "qwg" || recv == "wg" {
				s.tok(map[string]int{"Add": 4, "Done": 5, "Wait": 6}[f.Sel.Name], recv, e)
			}
		case "setErr":
			s.tok(9, "", e)
		case "Error":
			if recv == "bg" {
				s.tok(10, "", e)
			}
		case "writeBlock":
			s.tok(8, "writeBlock", e)
		case "Copy":
			if recv == "io" && len(e.Args) > 0 && isUnderlying(e.Args[0]) {
				s.tok(11, "", e)
			}
		case "Write":
			if isUnderlying(f.X) {
				s.tok(11, "", e)
			}
		}
	}
}

func (s *c09sk) block(list []ast.Stmt) {
	for _, st := range list {
		s.stmt(st)
	}
}

func (s *c09sk) stmt(st ast.Stmt) {
	switch st := st.(type) {
	case nil:
	case *ast.ExprStmt:
		s.expr(st.X)
	case *ast.SendStmt:
		s.expr(st.Value)
		s.tok(1, lastSel(st.Chan), st)
	case *ast.AssignStmt:
		for _, r := range st.Rhs {
			s.expr(r)
		}
		for _, l := range st.Lhs {
			s.expr(l)
		}
	case *ast.IncDecStmt:
		s.expr(st.X)
	case *ast.DeclStmt:
	case *ast.GoStmt:
		if _, ok := st.Call.Fun.(*ast.FuncLit); ok {
			// the emitter goroutine; extracted on its own
			return
		}
		for _, a := range st.Call.Args {
			s.expr(a)
		}
		s.tok(7, lastSel(st.Call.Fun), st)
	case *ast.DeferStmt:
		s.tok(20, "", st)
		if fl, ok := st.Call.Fun.(*ast.FuncLit); ok {
			s.block(fl.Body.List)
		} else {
			s.call(st.Call)
		}
		s.tok(29, "", st)
	case *ast.ReturnStmt:
		for _, r := range st.Results {
			s.expr(r)
		}
		s.tok(12, "", st)
	case *ast.BranchStmt:
		if st.Tok != token.BREAK || st.Label != nil {
			s.fail(st, "branch statement %s", st.Tok)
		}
		s.tok(13, "", st)
	case *ast.BlockStmt:
		s.block(st.List)
	case *ast.IfStmt:
		s.stmt(st.Init)
		s.expr(st.Cond)
		s.tok(21, "", st)
		s.block(st.Body.List)
		if st.Else != nil {
			s.tok(22, "", st)
			s.stmt(st.Else)
		}
		s.tok(29, "", st)
	case *ast.ForStmt:
		s.stmt(st.Init)
		s.tok(23, "", st)
		s.expr(st.Cond)
		s.block(st.Body.List)
		s.stmt(st.Post)
		s.tok(29, "", st)
	case *ast.RangeStmt:
		name := lastSel(st.X)
		if _, ok := c09names[name]; !ok {
			// ranging over something that is not one of the channels
			s.tok(23, "", st)
		} else {
			s.tok(24, name, st)
		}
		s.block(st.Body.List)
		s.tok(29, "", st)
	default:
		before := len(s.toks)
		ast.Inspect(st, func(n ast.Node) bool {
			switch n := n.(type) {
			case *ast.CallExpr:
				s.call(n)
			case *ast.UnaryExpr:
				if n.Op == token.ARROW {
					s.tok(2, lastSel(n.X), n)
				}
			case *ast.SendStmt:
				s.tok(1, lastSel(n.Chan), n)
			}
			return true
		})
		if len(s.toks) != before {
			s.fail(st, "event inside unsupported statement %T", st)
		}
	}
}

func (p *pkgInfo) c09emit(w *bytes.Buffer, coqName, recv, name string, lit bool) {
	fd := p.funcDecl(recv, name)
	s := &c09sk{p: p, fn: name}
	body := fd.Body.List
	if lit {
		// the body of the single `go func() {...}()` statement of the function
		var found *ast.FuncLit
		ast.Inspect(fd.Body, func(n ast.Node) bool {
			if g, ok := n.(*ast.GoStmt); ok {
				if fl, ok := g.Call.Fun.(*ast.FuncLit); ok {
					if found != nil {
						s.fail(g, "more than one goroutine literal")
					}
					found = fl
				}
			}
			return true
		})
		if found == nil {
			s.fail(fd, "no goroutine literal")
		}
		body = found.Body.List
	}
	s.block(body)
	fmt.Fprintf(w, "(* %s: %s *)\nDefinition %s : list (Z * Z) :=\n  [%s].\n", p.fset.Position(fd.Pos()), name, coqName, strings.Join(s.toks, "; "))
}

// c09readerInvalidates reports whether decompressor.nextBlockAt drops the data
// of its block (a call of setOwner in the error branch) when readMember fails.
func (p *pkgInfo) c09readerInvalidates() bool {
	fd := p.funcDecl("decompressor", "nextBlockAt")
	found, res := false, false
	for i, st := range fd.Body.List {
		as, ok := st.(*ast.AssignStmt)
		if !ok || len(as.Rhs) != 1 {
			continue
		}
		ce, ok := as.Rhs[0].(*ast.CallExpr)
		if !ok || lastSel(ce.Fun) != "readMember" {
			continue
		}
		found = true
		if i+1 < len(fd.Body.List) {
			if is, ok := fd.Body.List[i+1].(*ast.IfStmt); ok {
				ast.Inspect(is.Body, func(n ast.Node) bool {
					if c, ok := n.(*ast.CallExpr); ok && lastSel(c.Fun) == "setOwner" {
						res = true
					}
					return true
				})
			}
		}
	}
	if !found {
		fatalf("%s: nextBlockAt no longer assigns the result of readMember", p.fset.Position(fd.Pos()))
	}
	return res
}

// c09offAfterSeek reports whether countReader.seek records the new offset
// (r.off = off) only after the underlying Seek call and its error return.
func (p *pkgInfo) c09offAfterSeek() bool {
	fd := p.funcDecl("countReader", "seek")
	assign, call, ret := token.NoPos, token.NoPos, token.NoPos
	ast.Inspect(fd.Body, func(n ast.Node) bool {
		switch n := n.(type) {
		case *ast.AssignStmt:
			if len(n.Lhs) == 1 && lastSel(n.Lhs[0]) == "off" {
				if _, ok := n.Lhs[0].(*ast.SelectorExpr); ok && assign == token.NoPos {
					assign = n.Pos()
				}
			}
		case *ast.CallExpr:
			if lastSel(n.Fun) == "Seek" && call == token.NoPos {
				call = n.Pos()
			}
		case *ast.ReturnStmt:
			if ret == token.NoPos && call != token.NoPos {
				ret = n.Pos()
			}
		}
		return true
	})
	if assign == token.NoPos || call == token.NoPos || ret == token.NoPos {
		fatalf("%s: countReader.seek no longer has the shape Seek / error return / r.off = off", p.fset.Position(fd.Pos()))
	}
	return assign > call && assign > ret
}

// c10readToEOFGuard returns the constant N of the case `n == N && err == nil`
// in readToEOF (bgzf/cache.go): the fill level at which the extra one-byte
// read decides between "exactly full" and io.ErrShortBuffer.
func (p *pkgInfo) c10readToEOFGuard() string {
	fd := p.funcDecl("", "readToEOF")
	val := ""
	ast.Inspect(fd.Body, func(n ast.Node) bool {
		cc, ok := n.(*ast.CaseClause)
		if !ok {
			return true
		}
		for _, e := range cc.List {
			be, ok := e.(*ast.BinaryExpr)
			if !ok || be.Op != token.LAND {
				continue
			}
			cmp, ok := be.X.(*ast.BinaryExpr)
			if !ok || cmp.Op != token.EQL || lastSel(cmp.X) != "n" {
				continue
			}
			if tv, ok := p.info.Types[cmp.Y]; ok && tv.Value != nil {
				if z, ok := constZ(tv.Value); ok {
					val = z
				}
			}
		}
		return true
	})
	if val == "" {
		fatalf("%s: readToEOF no longer has a case `n == <const> && err == nil`", p.fset.Position(fd.Pos()))
	}
	return val
}

// c10readerStrict reports whether readMember treats an exhausted or empty
// member as an error: no `return io.EOF` in readMember, and io.ErrUnexpectedEOF
// is produced for a short member.
func (p *pkgInfo) c10readerStrict() bool {
	fd := p.funcDecl("decompressor", "readMember")
	returnsEOF, unexpected := false, false
	ast.Inspect(fd.Body, func(n ast.Node) bool {
		switch n := n.(type) {
		case *ast.ReturnStmt:
			for _, r := range n.Results {
				if se, ok := r.(*ast.SelectorExpr); ok && lastSel(se.X) == "io" && se.Sel.Name == "EOF" {
					returnsEOF = true
				}
			}
		case *ast.SelectorExpr:
			if lastSel(n.X) == "io" && n.Sel.Name == "ErrUnexpectedEOF" {
				unexpected = true
			}
		}
		return true
	})
	return !returnsEOF && unexpected
}

func init() {
	emitters["31_bgzf_writer_skeleton"] = func(w *bytes.Buffer) {
		bg := load("bgzf")
		fmt.Fprintf(w, "(* countReader.seek sets its offset only after a successful underlying Seek *)\nDefinition bgzf_countreader_off_after_seek : bool := %v.\n", bg.c09offAfterSeek())
		fmt.Fprintf(w, "(* readToEOF: fill level at which the extra read checks for more data (must be the block buffer size) *)\nDefinition bgzf_readToEOF_guard : Z := %s.\n", bg.c10readToEOFGuard())
		fmt.Fprintf(w, "(* decompressor.readMember never reports a clean io.EOF for a member that has started *)\nDefinition bgzf_reader_strict : bool := %v.\n", bg.c10readerStrict())
		fmt.Fprintf(w, "(* decompressor.nextBlockAt invalidates its block when readMember fails *)\nDefinition bgzf_reader_invalidates : bool := %v.\n", bg.c09readerInvalidates())
		bg.c09emit(w, "bgzf_wskel_emitter", "", "NewWriterLevel", true)
		bg.c09emit(w, "bgzf_wskel_writeOK", "", "writeOK", false)
		bg.c09emit(w, "bgzf_wskel_writeBlock", "compressor", "writeBlock", false)
		bg.c09emit(w, "bgzf_wskel_Write", "Writer", "Write", false)
		bg.c09emit(w, "bgzf_wskel_Flush", "Writer", "Flush", false)
		bg.c09emit(w, "bgzf_wskel_Wait", "Writer", "Wait", false)
		bg.c09emit(w, "bgzf_wskel_Close", "Writer", "Close", false)
	}
}
