package main

// C11: tables and table-lookup functions of the decoders, read off the Go
// source. The panic-aware models in coq/Model/Dec*.v use these definitions, so
// a table that gets shorter, a jump width that changes or a clamp that is
// removed from a lookup function changes the statements the proofs have to
// close.

import (
	"bytes"
	"fmt"
	"go/ast"
	"go/constant"
	"go/token"
	"strings"
)

// varLit returns the composite literal a package level variable is initialised with.
func (p *pkgInfo) c11VarLit(name string) *ast.CompositeLit {
	for _, f := range p.files {
		for _, d := range f.Decls {
			gd, ok := d.(*ast.GenDecl)
			if !ok || gd.Tok != token.VAR {
				continue
			}
			for _, sp := range gd.Specs {
				vs := sp.(*ast.ValueSpec)
				for i, n := range vs.Names {
					if n.Name == name && len(vs.Values) > i {
						if cl, ok := vs.Values[i].(*ast.CompositeLit); ok {
							return cl
						}
					}
				}
			}
		}
	}
	fatalf("%s: table %s not found", p.dir, name)
	return nil
}

func (p *pkgInfo) c11ConstInt(e ast.Expr) (int64, bool) {
	tv, ok := p.info.Types[e]
	if !ok || tv.Value == nil {
		return 0, false
	}
	v, exact := constant.Int64Val(constant.ToInt(tv.Value))
	return v, exact
}

// tableElems lays out a (possibly keyed) array/slice literal: position -> element expression.
func (p *pkgInfo) tableElems(cl *ast.CompositeLit, fixedLen int) []ast.Expr {
	var out []ast.Expr
	next := 0
	for _, el := range cl.Elts {
		var val ast.Expr = el
		if kv, ok := el.(*ast.KeyValueExpr); ok {
			k, ok := p.c11ConstInt(kv.Key)
			if !ok {
				fatalf("%s: table key is not a constant", p.dir)
			}
			next = int(k)
			val = kv.Value
		}
		for len(out) <= next {
			out = append(out, nil)
		}
		out[next] = val
		next++
	}
	for len(out) < fixedLen {
		out = append(out, nil)
	}
	return out
}

// emitIntTable emits an integer table as `list Z` (missing entries are 0).
func (p *pkgInfo) c11EmitIntTable(w *bytes.Buffer, coqName, goName string, fixedLen int) {
	els := p.tableElems(p.c11VarLit(goName), fixedLen)
	var parts []string
	for _, e := range els {
		if e == nil {
			parts = append(parts, "0")
			continue
		}
		v, ok := p.c11ConstInt(e)
		if !ok {
			fatalf("%s: %s: element is not an integer constant", p.dir, goName)
		}
		if v < 0 {
			parts = append(parts, fmt.Sprintf("(%d)", v))
		} else {
			parts = append(parts, fmt.Sprint(v))
		}
	}
	fmt.Fprintf(w, "Definition %s : list Z := [%s].\n", coqName, strings.Join(parts, "; "))
}

// emitStructTable emits a table of structs with integer fields as a list of tuples.
func (p *pkgInfo) c11EmitStructTable(w *bytes.Buffer, coqName, goName string, fields []string) {
	els := p.tableElems(p.c11VarLit(goName), 0)
	var rows []string
	for _, e := range els {
		vals := make([]string, len(fields))
		for i := range vals {
			vals[i] = "0"
		}
		if cl, ok := e.(*ast.CompositeLit); ok {
			for i, el := range cl.Elts {
				var val ast.Expr = el
				idx := i
				if kv, ok := el.(*ast.KeyValueExpr); ok {
					idx = -1
					for k, f := range fields {
						if id, ok := kv.Key.(*ast.Ident); ok && id.Name == f {
							idx = k
						}
					}
					val = kv.Value
				}
				v, ok := p.c11ConstInt(val)
				if idx < 0 || !ok {
					fatalf("%s: %s: unsupported struct element", p.dir, goName)
				}
				if v < 0 {
					vals[idx] = fmt.Sprintf("(%d)", v)
				} else {
					vals[idx] = fmt.Sprint(v)
				}
			}
		} else if e != nil {
			fatalf("%s: %s: element is not a struct literal", p.dir, goName)
		}
		rows = append(rows, "("+strings.Join(vals, ", ")+")")
	}
	ty := strings.TrimSuffix(strings.Repeat("Z * ", len(fields)), " * ")
	fmt.Fprintf(w, "Definition %s : list (%s) := [%s].\n", coqName, ty, strings.Join(rows, "; "))
}

// emitStringTable emits a []string literal as a list of byte lists.
func (p *pkgInfo) emitStringTable(w *bytes.Buffer, coqName, goName string) {
	els := p.tableElems(p.c11VarLit(goName), 0)
	var rows []string
	for _, e := range els {
		s := ""
		if e != nil {
			tv := p.info.Types[e]
			if tv.Value == nil || tv.Value.Kind() != constant.String {
				fatalf("%s: %s: element is not a string constant", p.dir, goName)
			}
			s = constant.StringVal(tv.Value)
		}
		rows = append(rows, bytesList(s))
	}
	fmt.Fprintf(w, "Definition %s : list (list Z) := [%s].\n", coqName, strings.Join(rows, "; "))
}

// emitLookup translates a method of the shape
//
//	func (x T) M() R { [if cond { x = c }] return table[x] }
//
// into a bounds-checked Gallina lookup over the generated table.
func (p *pkgInfo) emitLookup(w *bytes.Buffer, coqName, recv, name, goTable, coqTable, elemTy, dflt string) {
	fd := p.funcDecl(recv, name)
	t := &tr{p: p, fn: fd}
	if fd.Recv == nil || len(fd.Recv.List) != 1 || len(fd.Recv.List[0].Names) != 1 {
		t.fail(fd, "receiver shape")
	}
	x := fd.Recv.List[0].Names[0].Name
	body := ""
	closeP := ""
	for i, s := range fd.Body.List {
		switch s := s.(type) {
		case *ast.IfStmt:
			if s.Init != nil || s.Else != nil || len(s.Body.List) != 1 {
				t.fail(s, "clamp shape")
			}
			as, ok := s.Body.List[0].(*ast.AssignStmt)
			if !ok || as.Tok != token.ASSIGN || len(as.Lhs) != 1 {
				t.fail(s, "clamp assignment")
			}
			if id, ok := as.Lhs[0].(*ast.Ident); !ok || id.Name != x {
				t.fail(s, "clamp target")
			}
			var idx []string
			c := t.expr(s.Cond, &idx)
			v := t.expr(as.Rhs[0], &idx)
			if len(idx) != 0 {
				t.fail(s, "index expression in clamp")
			}
			body += "let v_" + x + " := if " + c + " then " + v + " else v_" + x + " in\n"
		case *ast.ReturnStmt:
			if i != len(fd.Body.List)-1 || len(s.Results) != 1 {
				t.fail(s, "return shape")
			}
			ie, ok := s.Results[0].(*ast.IndexExpr)
			if !ok {
				t.fail(s, "return is not a table lookup")
			}
			tab, ok1 := ie.X.(*ast.Ident)
			ix, ok2 := ie.Index.(*ast.Ident)
			if !ok1 || !ok2 || tab.Name != goTable || ix.Name != x {
				t.fail(s, "lookup shape")
			}
			body += "chk (inb " + coqTable + " v_" + x + ") (Ok (nth (Z.to_nat v_" + x + ") " + coqTable + " " + dflt + "))"
		default:
			t.fail(s, "statement %T", s)
		}
	}
	fmt.Fprintf(w, "\n(* %s: func %s *)\n", p.fset.Position(fd.Pos()), name)
	fmt.Fprintf(w, "Definition %s (v_%s : Z) : outcome (%s) :=\n%s%s.\n", coqName, x, elemTy, body, closeP)
}

func init() {
	emitters["50_c11"] = func(w *bytes.Buffer) {
		sam := load("sam")
		sam.c11EmitStructTable(w, "c11_consume", "consume", []string{"Query", "Reference"})
		sam.emitStringTable(w, "c11_cigarOps", "cigarOps")
		sam.c11EmitIntTable(w, "c11_powers", "powers", 0)
		sam.c11EmitIntTable(w, "c11_auxKind", "auxKind", 256)
		sam.c11EmitIntTable(w, "c11_n16TableRev", "n16TableRev", 16)
		sam.emitLookup(w, "c11_Consumes", "CigarOpType", "Consumes", "consume", "c11_consume", "Z * Z", "(0, 0)")
		sam.emitLookup(w, "c11_OpString", "CigarOpType", "String", "cigarOps", "c11_cigarOps", "list Z", "[]")
		bam := load("bam")
		bam.c11EmitIntTable(w, "c11_jumps", "jumps", 256)
	}
}
