package main

// C11: bgzf.expectedMemberSize translated to Gallina. The function takes a
// gzip.Header and only uses its Extra field: the selector h.Extra is replaced
// by a byte slice parameter, bytes.Index becomes a function parameter of the
// generated definition (so that no property of it is assumed), and the
// package variable bgzfExtraPrefix is emitted from its initialiser
// []byte(bgzfExtra[:4]).

import (
	"bytes"
	"fmt"
	"go/ast"
	"go/constant"
	"go/printer"
	"go/token"
	"strings"
)

// c11ReplaceSel replaces every selector expression x.sel below n by the identifier sel.
func c11ReplaceSel(n ast.Node, x, sel string) {
	fix := func(e ast.Expr) ast.Expr {
		if s, ok := e.(*ast.SelectorExpr); ok {
			if id, ok := s.X.(*ast.Ident); ok && id.Name == x && s.Sel.Name == sel {
				return &ast.Ident{Name: sel, NamePos: s.Pos()}
			}
		}
		return e
	}
	ast.Inspect(n, func(m ast.Node) bool {
		switch m := m.(type) {
		case *ast.CallExpr:
			for i := range m.Args {
				m.Args[i] = fix(m.Args[i])
			}
		case *ast.IndexExpr:
			m.X = fix(m.X)
			m.Index = fix(m.Index)
		case *ast.BinaryExpr:
			m.X, m.Y = fix(m.X), fix(m.Y)
		case *ast.ParenExpr:
			m.X = fix(m.X)
		case *ast.AssignStmt:
			for i := range m.Rhs {
				m.Rhs[i] = fix(m.Rhs[i])
			}
		case *ast.ReturnStmt:
			for i := range m.Results {
				m.Results[i] = fix(m.Results[i])
			}
		case *ast.IfStmt:
			m.Cond = fix(m.Cond)
		}
		return true
	})
}

// c11EmitPrefixVar emits `var name = []byte(constString[:k])` as a byte list.
func (p *pkgInfo) c11EmitPrefixVar(w *bytes.Buffer, coqName, goName string) {
	for _, f := range p.files {
		for _, d := range f.Decls {
			gd, ok := d.(*ast.GenDecl)
			if !ok || gd.Tok != token.VAR {
				continue
			}
			for _, sp := range gd.Specs {
				vs := sp.(*ast.ValueSpec)
				for i, n := range vs.Names {
					if n.Name != goName || len(vs.Values) <= i {
						continue
					}
					call, ok := vs.Values[i].(*ast.CallExpr)
					if !ok || len(call.Args) != 1 {
						fatalf("%s: %s: initialiser is not a conversion", p.dir, goName)
					}
					se, ok := call.Args[0].(*ast.SliceExpr)
					if !ok || se.Low != nil || se.High == nil {
						fatalf("%s: %s: initialiser is not s[:k]", p.dir, goName)
					}
					tv, ok := p.info.Types[se.X]
					hi, ok2 := p.c11ConstInt(se.High)
					if !ok || !ok2 || tv.Value == nil || tv.Value.Kind() != constant.String {
						fatalf("%s: %s: initialiser is not a constant string slice", p.dir, goName)
					}
					str := constant.StringVal(tv.Value)
					if hi < 0 || int(hi) > len(str) {
						fatalf("%s: %s: slice bound", p.dir, goName)
					}
					fmt.Fprintf(w, "Definition %s : list Z := %s.\n", coqName, bytesList(str[:hi]))
					return
				}
			}
		}
	}
	fatalf("%s: variable %s not found", p.dir, goName)
}

func init() {
	emitters["51_c11_bgzf"] = func(w *bytes.Buffer) {
		bg := load("bgzf")
		bg.c11EmitPrefixVar(w, "c11_bgzfExtraPrefix", "bgzfExtraPrefix")
		fd := bg.funcDecl("", "expectedMemberSize")
		if len(fd.Type.Params.List) != 1 || len(fd.Type.Params.List[0].Names) != 1 {
			fatalf("bgzf: expectedMemberSize: parameter shape")
		}
		h := fd.Type.Params.List[0].Names[0].Name
		c11ReplaceSel(fd.Body, h, "Extra")
		t := &tr{p: bg, prefix: "c11", fn: fd, calls: map[string]string{"bytes.Index": "bytes_index"}}
		body := t.stmts(fd.Body.List, nil)
		if strings.Contains(body, "v_"+h) {
			fatalf("bgzf: expectedMemberSize uses more of the header than Extra")
		}
		body = strings.ReplaceAll(body, "v_bgzfExtraPrefix", "c11_bgzfExtraPrefix")
		fmt.Fprintf(w, "\n(* %s: func expectedMemberSize; h.Extra is the parameter, bytes.Index is abstract *)\n", bg.fset.Position(fd.Pos()))
		fmt.Fprintf(w, "Definition c11_expectedMemberSize (bytes_index : list Z -> list Z -> Z) (v_Extra : list Z) : outcome (Z) :=\n%s.\n", body)
	}
}

// c11Guard translates the boolean guard of Reader.Seek that decides whether the
// requested block has to be fetched. Leaves are recognised by their source
// text; anything else aborts the translation.
func (p *pkgInfo) c11Guard(e ast.Expr, leaves map[string]string) string {
	switch e := e.(type) {
	case *ast.ParenExpr:
		return p.c11Guard(e.X, leaves)
	case *ast.UnaryExpr:
		if e.Op == token.NOT {
			return "(negb " + p.c11Guard(e.X, leaves) + ")"
		}
	case *ast.BinaryExpr:
		x, y := p.c11Guard(e.X, leaves), p.c11Guard(e.Y, leaves)
		switch e.Op {
		case token.LOR:
			return "(" + x + " || " + y + ")"
		case token.LAND:
			return "(" + x + " && " + y + ")"
		case token.NEQ:
			return "(negb (" + x + " =? " + y + "))"
		case token.EQL:
			return "(" + x + " =? " + y + ")"
		}
	}
	var b bytes.Buffer
	if err := printer.Fprint(&b, p.fset, e); err == nil {
		if v, ok := leaves[b.String()]; ok {
			return v
		}
	}
	fatalf("%s: Seek guard: unsupported expression %s", p.dir, b.String())
	return ""
}

func init() {
	emitters["52_c11_bgzf_seek"] = func(w *bytes.Buffer) {
		bg := load("bgzf")
		fd := bg.funcDecl("Reader", "Seek")
		leaves := map[string]string{"off.File": "v_offFile", "bg.current.Base()": "v_base", "bg.current.hasData()": "v_hasData"}
		for _, st := range fd.Body.List {
			is, ok := st.(*ast.IfStmt)
			if !ok {
				continue
			}
			var b bytes.Buffer
			printer.Fprint(&b, bg.fset, is.Cond)
			if !strings.Contains(b.String(), "bg.current.Base()") {
				continue
			}
			fmt.Fprintf(w, "\n(* %s: Reader.Seek: `if %s { fetch the block }` *)\n", bg.fset.Position(is.Pos()), b.String())
			fmt.Fprintf(w, "Definition c11_seek_guard (v_offFile v_base : Z) (v_hasData : bool) : bool :=\n%s.\n", bg.c11Guard(is.Cond, leaves))
			return
		}
		fatalf("bgzf: Reader.Seek: fetch guard not found")
	}
}
