package main

// Lock skeletons of bgzf/cache/cache.go (C14).
//
// For every method of LRU, FIFO, Random and StatsRecorder the emitter walks
// the body in evaluation order and records, as a Coq term of type
// [list lev]:
//   - calls of mu.Lock / mu.Unlock / mu.RLock / mu.RUnlock on the receiver
//     (deferred ones as LDefer..),
//   - reads and writes of the receiver's other fields (c.table, c.cap,
//     c.root, s.stats, s.Cache), where a write is an assignment, ++/--,
//     delete(...) or passing the field to a package-level helper
//     (remove, insertAfter),
//   - calls of other methods of the same receiver, with the callee's skeleton
//     inlined (LCall), calls through a field into another object (LOuter),
//   - return statements, and the nesting of if / for bodies.
// The type [lev] itself is emitted here so that Generated.v stays
// self-contained. Anything outside this shape aborts the generator.

import (
	"bytes"
	"fmt"
	"go/ast"
	"go/token"
	"strings"
)

func init() {
	emitters["50_c14_locks"] = emitC14Locks
}

type c14sk struct {
	p     *pkgInfo
	recv  string // receiver identifier in the current method
	rtype string
	depth int
}

func (p *pkgInfo) methodsOf(rtype string) []*ast.FuncDecl {
	var out []*ast.FuncDecl
	for _, f := range p.files {
		for _, d := range f.Decls {
			fd, ok := d.(*ast.FuncDecl)
			if !ok || fd.Recv == nil || len(fd.Recv.List) != 1 || fd.Body == nil {
				continue
			}
			t := fd.Recv.List[0].Type
			if st, ok := t.(*ast.StarExpr); ok {
				t = st.X
			}
			if id, ok := t.(*ast.Ident); ok && id.Name == rtype {
				out = append(out, fd)
			}
		}
	}
	return out
}

func (p *pkgInfo) methodOf(rtype, name string) *ast.FuncDecl {
	for _, fd := range p.methodsOf(rtype) {
		if fd.Name.Name == name {
			return fd
		}
	}
	return nil
}

func c14list(xs []string) string { return "[" + strings.Join(xs, "; ") + "]" }

func (s *c14sk) fail(n ast.Node, format string, a ...interface{}) {
	fatalf("lock skeleton: %s: %s", s.p.fset.Position(n.Pos()), fmt.Sprintf(format, a...))
}

// isRecv reports whether e is the receiver identifier.
func (s *c14sk) isRecv(e ast.Expr) bool {
	id, ok := e.(*ast.Ident)
	return ok && id.Name == s.recv
}

// rootField returns the receiver field at the root of e (c.table[k] -> table,
// s.stats.Gets -> stats, &c.root -> root), or "".
func (s *c14sk) rootField(e ast.Expr) string {
	for {
		switch x := e.(type) {
		case *ast.ParenExpr:
			e = x.X
		case *ast.IndexExpr:
			e = x.X
		case *ast.StarExpr:
			e = x.X
		case *ast.UnaryExpr:
			e = x.X
		case *ast.SelectorExpr:
			if s.isRecv(x.X) {
				return x.Sel.Name
			}
			e = x.X
		default:
			return ""
		}
	}
}

// expr returns the events of evaluating e.
func (s *c14sk) expr(e ast.Expr) []string {
	var ev []string
	switch x := e.(type) {
	case nil:
	case *ast.Ident, *ast.BasicLit:
	case *ast.ParenExpr:
		ev = s.expr(x.X)
	case *ast.SelectorExpr:
		if s.isRecv(x.X) {
			if x.Sel.Name == "mu" {
				s.fail(e, "mutex used other than by Lock/Unlock/RLock/RUnlock")
			}
			ev = append(ev, "LRead")
		} else {
			ev = s.expr(x.X)
		}
	case *ast.IndexExpr:
		ev = append(s.expr(x.X), s.expr(x.Index)...)
	case *ast.StarExpr:
		ev = s.expr(x.X)
	case *ast.UnaryExpr:
		ev = s.expr(x.X)
	case *ast.BinaryExpr:
		ev = append(s.expr(x.X), s.expr(x.Y)...)
	case *ast.CompositeLit:
		for _, el := range x.Elts {
			if kv, ok := el.(*ast.KeyValueExpr); ok {
				ev = append(ev, s.expr(kv.Value)...)
			} else {
				ev = append(ev, s.expr(el)...)
			}
		}
	case *ast.CallExpr:
		ev = s.call(x, false)
	default:
		s.fail(e, "expression %T", e)
	}
	return ev
}

func (s *c14sk) call(c *ast.CallExpr, deferred bool) []string {
	var ev []string
	switch f := c.Fun.(type) {
	case *ast.SelectorExpr:
		// c.mu.Lock()
		if in, ok := f.X.(*ast.SelectorExpr); ok && s.isRecv(in.X) && in.Sel.Name == "mu" {
			m := map[string]string{"Lock": "LWLock", "Unlock": "LWUnlock", "RLock": "LRLock", "RUnlock": "LRUnlock"}[f.Sel.Name]
			if m == "" {
				s.fail(c, "mutex method %s", f.Sel.Name)
			}
			if deferred {
				if m != "LWUnlock" && m != "LRUnlock" {
					s.fail(c, "deferred %s", f.Sel.Name)
				}
				m = strings.Replace(m, "L", "LDefer", 1)
			}
			return []string{m}
		}
		if deferred {
			s.fail(c, "deferred call other than an unlock")
		}
		for _, a := range c.Args {
			ev = append(ev, s.expr(a)...)
		}
		// c.Len(), c.drop(n): another method of the same receiver, inlined
		if s.isRecv(f.X) {
			fd := s.p.methodOf(s.rtype, f.Sel.Name)
			if fd == nil {
				s.fail(c, "call of %s.%s: no such method", s.rtype, f.Sel.Name)
			}
			if s.depth > 4 {
				s.fail(c, "recursion")
			}
			sub := &c14sk{p: s.p, rtype: s.rtype, depth: s.depth + 1}
			return append(ev, "LCall "+c14list(sub.method(fd)))
		}
		// s.Cache.Get(base): through a field into another object
		if fld := s.rootField(f.X); fld != "" {
			return append(ev, "LRead", "LOuter")
		}
		// method of a local value (n.b.Base(), b.Used()): block methods, no cache state
		return append(ev, s.expr(f.X)...)
	case *ast.Ident:
		if deferred {
			s.fail(c, "deferred call other than an unlock")
		}
		switch f.Name {
		case "len", "cap", "int", "int64", "make":
			for _, a := range c.Args {
				ev = append(ev, s.expr(a)...)
			}
			return ev
		}
		// delete(c.table, k), remove(n, c.table), insertAfter(&c.root, n):
		// helpers that mutate what they are given
		for _, a := range c.Args {
			if s.rootField(a) != "" {
				ev = append(ev, "LWrite")
			} else {
				ev = append(ev, s.expr(a)...)
			}
		}
		return ev
	}
	s.fail(c, "call %T", c.Fun)
	return nil
}

func (s *c14sk) stmts(l []ast.Stmt) []string {
	var ev []string
	for _, st := range l {
		ev = append(ev, s.stmt(st)...)
	}
	return ev
}

func (s *c14sk) stmt(st ast.Stmt) []string {
	var ev []string
	switch x := st.(type) {
	case nil:
	case *ast.ExprStmt:
		ev = s.expr(x.X)
	case *ast.DeferStmt:
		ev = s.call(x.Call, true)
	case *ast.AssignStmt:
		for _, r := range x.Rhs {
			ev = append(ev, s.expr(r)...)
		}
		for _, l := range x.Lhs {
			if s.rootField(l) != "" {
				if ix, ok := l.(*ast.IndexExpr); ok {
					ev = append(ev, s.expr(ix.Index)...)
				}
				ev = append(ev, "LWrite")
			} else if ix, ok := l.(*ast.IndexExpr); ok {
				ev = append(ev, s.expr(ix.X)...)
				ev = append(ev, s.expr(ix.Index)...)
			}
		}
	case *ast.IncDecStmt:
		if s.rootField(x.X) != "" {
			ev = append(ev, "LRead", "LWrite")
		}
	case *ast.DeclStmt:
		gd, ok := x.Decl.(*ast.GenDecl)
		if !ok || gd.Tok != token.VAR {
			s.fail(st, "declaration")
		}
		for _, sp := range gd.Specs {
			for _, v := range sp.(*ast.ValueSpec).Values {
				ev = append(ev, s.expr(v)...)
			}
		}
	case *ast.ReturnStmt:
		for _, r := range x.Results {
			ev = append(ev, s.expr(r)...)
		}
		ev = append(ev, "LRet")
	case *ast.BlockStmt:
		ev = s.stmts(x.List)
	case *ast.IfStmt:
		ev = append(ev, s.stmt(x.Init)...)
		ev = append(ev, s.expr(x.Cond)...)
		var els []string
		if x.Else != nil {
			els = s.stmt(x.Else)
		}
		ev = append(ev, "LIf "+c14list(s.stmts(x.Body.List))+" "+c14list(els))
	case *ast.ForStmt:
		ev = append(ev, s.stmt(x.Init)...)
		cond := append(s.expr(x.Cond), s.stmt(x.Post)...)
		ev = append(ev, "LLoop "+c14list(cond)+" "+c14list(s.stmts(x.Body.List)))
	case *ast.RangeStmt:
		ev = append(ev, s.expr(x.X)...)
		ev = append(ev, "LLoop [] "+c14list(s.stmts(x.Body.List)))
	case *ast.LabeledStmt:
		ev = s.stmt(x.Stmt)
	case *ast.BranchStmt, *ast.EmptyStmt:
		// goto / break / continue inside lock-neutral loops
	default:
		s.fail(st, "statement %T", st)
	}
	return ev
}

func (s *c14sk) method(fd *ast.FuncDecl) []string {
	s.recv = ""
	if n := fd.Recv.List[0].Names; len(n) == 1 {
		s.recv = n[0].Name
	}
	return s.stmts(fd.Body.List)
}

func emitC14Locks(w *bytes.Buffer) {
	p := load("bgzf/cache")
	w.WriteString(`(* Lock skeletons of bgzf/cache/cache.go. One event per lock operation on the
   receiver's mutex, per read/write of the receiver's other fields, per call
   of another method of the same receiver (inlined) and per return. *)
Inductive lev :=
| LWLock | LWUnlock | LRLock | LRUnlock | LDeferWUnlock | LDeferRUnlock
| LRead | LWrite | LRet | LOuter
| LCall (body : list lev)
| LIf (thn els : list lev)
| LLoop (cond body : list lev).
`)
	var api []string
	for _, rt := range []string{"LRU", "FIFO", "Random", "StatsRecorder"} {
		ms := p.methodsOf(rt)
		if len(ms) == 0 {
			fatalf("lock skeleton: type %s has no methods", rt)
		}
		for _, fd := range ms {
			s := &c14sk{p: p, rtype: rt}
			name := fmt.Sprintf("c14_%s_%s_locks", rt, fd.Name.Name)
			fmt.Fprintf(w, "\n(* %s: func (%s) %s *)\nDefinition %s : list lev :=\n  %s.\n",
				p.fset.Position(fd.Pos()), rt, fd.Name.Name, name, c14list(s.method(fd)))
			if fd.Name.IsExported() {
				api = append(api, name)
			}
		}
	}
	for _, need := range []string{"c14_LRU_drop_locks", "c14_FIFO_drop_locks", "c14_Random_drop_locks"} {
		if !strings.Contains(w.String(), "Definition "+need+" ") {
			fatalf("lock skeleton: helper %s not found", need)
		}
	}
	fmt.Fprintf(w, "\n(* the exported methods: the API whose calls must be atomic *)\nDefinition c14_api_locks : list (list lev) :=\n  %s.\n", c14list(api))
}
