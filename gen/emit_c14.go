package main

// Lock skeletons of bgzf/cache/cache.go (C14).
//
// For every method of LRU, FIFO, Random and StatsRecorder the emitter walks
// the body in evaluation order and records, as a Coq term of type
// [list lev]:
//   - calls of mu.Lock / mu.Unlock / mu.RLock / mu.RUnlock on the receiver
//     (deferred ones as LDefer..),
//   - reads and writes of the shared state, each tagged with the field it
//     touches: FTable (c.table and map-typed aliases of it), FList (c.root),
//     FNode (anything reached through a local or parameter of type *node -
//     n := c.table[k]; n.b, n.prev.next - i.e. aliases of list/map nodes are
//     resolved by their static type), FCap, FStats, FInner (s.Cache).
//     A write is an assignment, ++/--, delete(...); the package-level helpers
//     remove and insertAfter are inlined (LCall) and walked with the same
//     rules, so their link updates appear as FNode/FTable writes. A local
//     that is derived from shared state and has a reference type the emitter
//     does not know (not *node, not a map) aborts the generator,
//   - calls of other methods of the same receiver, with the callee's skeleton
//     inlined (LCall), calls through a field into another object (LOuter),
//   - return statements, and the nesting of if / for bodies.
// The type [lev] itself is emitted here so that Generated.v stays
// self-contained. Anything outside this shape aborts the generator.

import (
	"bytes"
	"fmt"
	"go/ast"
	"go/token"
	"strings"
)

func init() {
	emitters["50_c14_locks"] = emitC14Locks
}

type c14sk struct {
	p     *pkgInfo
	recv  string // receiver identifier in the current method ("" inside a helper)
	rtype string
	depth int
	// parameters of the current method: a Block passed in by the caller is the
	// caller's; a Block held in a local variable came out of the cache's table
	params map[string]bool
}

// identKind classifies a local identifier by its static type: "node" for
// *node / node (an alias of a list or map node), "table" for a map (an alias
// of the table), "" for values that are not cache state (integers, booleans,
// bgzf.Block values), "?" for reference types the emitter does not know.
func (s *c14sk) identKind(id *ast.Ident) string {
	if id.Name == "_" || id.Name == "nil" || id.Name == "true" || id.Name == "false" {
		return ""
	}
	obj := s.p.info.Uses[id]
	if obj == nil {
		obj = s.p.info.Defs[id]
	}
	if obj == nil || obj.Type() == nil {
		return ""
	}
	t := obj.Type().String()
	t = strings.ReplaceAll(t, "github.com/biogo/hts/bgzf/cache.", "")
	switch {
	case t == "*node" || t == "node":
		return "node"
	case strings.HasPrefix(t, "map["):
		return "table"
	case strings.HasPrefix(t, "*LRU") || strings.HasPrefix(t, "*FIFO") || strings.HasPrefix(t, "*Random") || strings.HasPrefix(t, "*StatsRecorder"):
		return "recv"
	case strings.HasPrefix(t, "*") || strings.HasPrefix(t, "[]") || strings.HasPrefix(t, "chan ") || strings.HasPrefix(t, "func("):
		return "?"
	}
	return ""
}

var c14FieldOf = map[string]string{"table": "FTable", "root": "FList", "cap": "FCap", "stats": "FStats", "Cache": "FInner"}

// shared returns the shared field that the path expression e reaches
// (c.table[k] -> FTable, s.stats.Gets -> FStats, &c.root -> FList,
// n.prev.next with n of type *node -> FNode), or "".
func (s *c14sk) shared(e ast.Expr) string {
	for {
		switch x := e.(type) {
		case *ast.ParenExpr:
			e = x.X
		case *ast.IndexExpr:
			e = x.X
		case *ast.StarExpr:
			e = x.X
		case *ast.UnaryExpr:
			e = x.X
		case *ast.SelectorExpr:
			if s.isRecv(x.X) {
				if x.Sel.Name == "mu" {
					return ""
				}
				f := c14FieldOf[x.Sel.Name]
				if f == "" {
					s.fail(e, "receiver field %s is not classified", x.Sel.Name)
				}
				return f
			}
			e = x.X
		case *ast.Ident:
			switch s.identKind(x) {
			case "node":
				return "FNode"
			case "table":
				return "FTable"
			case "?":
				s.fail(e, "local %s has a reference type the skeleton does not track", x.Name)
			}
			return ""
		default:
			return ""
		}
	}
}

// indices returns the events of the index sub-expressions of a path.
func (s *c14sk) indices(e ast.Expr) []string {
	var ev []string
	for {
		switch x := e.(type) {
		case *ast.ParenExpr:
			e = x.X
		case *ast.IndexExpr:
			ev = append(ev, s.expr(x.Index)...)
			e = x.X
		case *ast.StarExpr:
			e = x.X
		case *ast.UnaryExpr:
			e = x.X
		case *ast.SelectorExpr:
			e = x.X
		default:
			return ev
		}
	}
}

func (p *pkgInfo) methodsOf(rtype string) []*ast.FuncDecl {
	var out []*ast.FuncDecl
	for _, f := range p.files {
		for _, d := range f.Decls {
			fd, ok := d.(*ast.FuncDecl)
			if !ok || fd.Recv == nil || len(fd.Recv.List) != 1 || fd.Body == nil {
				continue
			}
			t := fd.Recv.List[0].Type
			if st, ok := t.(*ast.StarExpr); ok {
				t = st.X
			}
			if id, ok := t.(*ast.Ident); ok && id.Name == rtype {
				out = append(out, fd)
			}
		}
	}
	return out
}

func (p *pkgInfo) methodOf(rtype, name string) *ast.FuncDecl {
	for _, fd := range p.methodsOf(rtype) {
		if fd.Name.Name == name {
			return fd
		}
	}
	return nil
}

func c14list(xs []string) string { return "[" + strings.Join(xs, "; ") + "]" }

func (s *c14sk) fail(n ast.Node, format string, a ...interface{}) {
	fatalf("lock skeleton: %s: %s", s.p.fset.Position(n.Pos()), fmt.Sprintf(format, a...))
}

// isRecv reports whether e is the receiver identifier.
func (s *c14sk) isRecv(e ast.Expr) bool {
	id, ok := e.(*ast.Ident)
	return ok && id.Name == s.recv
}

// expr returns the events of evaluating e.
func (s *c14sk) expr(e ast.Expr) []string {
	var ev []string
	switch x := e.(type) {
	case nil:
	case *ast.BasicLit:
	case *ast.Ident:
		// a bare alias (n, passed or compared) is not an access to what it points to
		if s.identKind(x) == "?" {
			s.fail(e, "local %s has a reference type the skeleton does not track", x.Name)
		}
	case *ast.ParenExpr:
		ev = s.expr(x.X)
	case *ast.SelectorExpr, *ast.IndexExpr, *ast.StarExpr, *ast.UnaryExpr:
		if sel, ok := e.(*ast.SelectorExpr); ok && s.isRecv(sel.X) && sel.Sel.Name == "mu" {
			s.fail(e, "mutex used other than by Lock/Unlock/RLock/RUnlock")
		}
		// one read per path expression (c.root.prev.b, n.b, c.table[k]),
		// plus whatever its index expressions evaluate
		if f := s.shared(e); f != "" {
			ev = append(s.indices(e), "LRead "+f)
		} else {
			switch y := e.(type) {
			case *ast.SelectorExpr:
				ev = s.expr(y.X)
			case *ast.IndexExpr:
				ev = append(s.expr(y.X), s.expr(y.Index)...)
			case *ast.StarExpr:
				ev = s.expr(y.X)
			case *ast.UnaryExpr:
				ev = s.expr(y.X)
			}
		}
	case *ast.BinaryExpr:
		ev = append(s.expr(x.X), s.expr(x.Y)...)
	case *ast.CompositeLit:
		for _, el := range x.Elts {
			if kv, ok := el.(*ast.KeyValueExpr); ok {
				ev = append(ev, s.expr(kv.Value)...)
			} else {
				ev = append(ev, s.expr(el)...)
			}
		}
	case *ast.CallExpr:
		ev = s.call(x, false)
	default:
		s.fail(e, "expression %T", e)
	}
	return ev
}

func (s *c14sk) call(c *ast.CallExpr, deferred bool) []string {
	var ev []string
	switch f := c.Fun.(type) {
	case *ast.SelectorExpr:
		// c.mu.Lock()
		if in, ok := f.X.(*ast.SelectorExpr); ok && s.isRecv(in.X) && in.Sel.Name == "mu" {
			m := map[string]string{"Lock": "LWLock", "Unlock": "LWUnlock", "RLock": "LRLock", "RUnlock": "LRUnlock"}[f.Sel.Name]
			if m == "" {
				s.fail(c, "mutex method %s", f.Sel.Name)
			}
			if deferred {
				if m != "LWUnlock" && m != "LRUnlock" {
					s.fail(c, "deferred %s", f.Sel.Name)
				}
				m = strings.Replace(m, "L", "LDefer", 1)
			}
			return []string{m}
		}
		if deferred {
			s.fail(c, "deferred call other than an unlock")
		}
		for _, a := range c.Args {
			ev = append(ev, s.expr(a)...)
		}
		// c.Len(), c.drop(n): another method of the same receiver, inlined
		if s.isRecv(f.X) {
			fd := s.p.methodOf(s.rtype, f.Sel.Name)
			if fd == nil {
				s.fail(c, "call of %s.%s: no such method", s.rtype, f.Sel.Name)
			}
			if s.depth > 4 {
				s.fail(c, "recursion")
			}
			sub := &c14sk{p: s.p, rtype: s.rtype, depth: s.depth + 1}
			return append(ev, "LCall "+c14list(sub.method(fd)))
		}
		// s.Cache.Get(base): through a field into another object
		if fld := s.shared(f.X); fld == "FInner" {
			return append(ev, "LRead FInner", "LOuter")
		}
		// method of a value (n.b.Base(), b.Used(), c.root.prev.b...): a Block
		// method; reaching the value may read cache state
		if id, ok := f.X.(*ast.Ident); ok && s.params != nil && !s.params[id.Name] {
			// (the bgzf import is resolved softly, so the static type may be
			// unknown here: the Block interface is recognised by its methods)
			if m := f.Sel.Name; m == "NextBase" || m == "Base" || m == "Used" {
				// a Block taken out of the table into a local variable (Random
				// keeps Blocks directly in its map): its state is cache state
				// as long as the cache indexes it, like a node's
				return append(ev, "LRead FNode")
			}
		}
		return append(ev, s.expr(f.X)...)
	case *ast.Ident:
		if deferred {
			s.fail(c, "deferred call other than an unlock")
		}
		switch f.Name {
		case "len", "cap", "int", "int64", "make":
			for _, a := range c.Args {
				ev = append(ev, s.expr(a)...)
			}
			return ev
		}
		if f.Name == "delete" {
			if len(c.Args) != 2 || s.shared(c.Args[0]) == "" {
				s.fail(c, "delete of something that is not shared state")
			}
			ev = append(ev, s.indices(c.Args[0])...)
			ev = append(ev, s.expr(c.Args[1])...)
			return append(ev, "LWrite "+s.shared(c.Args[0]))
		}
		// remove(n, c.table), insertAfter(&c.root, n): package-level helpers,
		// inlined; inside, parameters of type *node / map are classified by type
		for _, a := range c.Args {
			ev = append(ev, s.expr(a)...)
		}
		var fd *ast.FuncDecl
		for _, file := range s.p.files {
			for _, d := range file.Decls {
				if g, ok := d.(*ast.FuncDecl); ok && g.Recv == nil && g.Name.Name == f.Name && g.Body != nil {
					fd = g
				}
			}
		}
		if fd == nil {
			s.fail(c, "call of unknown function %s", f.Name)
		}
		if s.depth > 4 {
			s.fail(c, "recursion")
		}
		sub := &c14sk{p: s.p, rtype: s.rtype, depth: s.depth + 1}
		return append(ev, "LCall "+c14list(sub.stmts(fd.Body.List)))
	}
	s.fail(c, "call %T", c.Fun)
	return nil
}

func (s *c14sk) stmts(l []ast.Stmt) []string {
	var ev []string
	for _, st := range l {
		ev = append(ev, s.stmt(st)...)
	}
	return ev
}

func (s *c14sk) stmt(st ast.Stmt) []string {
	var ev []string
	switch x := st.(type) {
	case nil:
	case *ast.ExprStmt:
		ev = s.expr(x.X)
	case *ast.DeferStmt:
		ev = s.call(x.Call, true)
	case *ast.AssignStmt:
		for _, r := range x.Rhs {
			ev = append(ev, s.expr(r)...)
		}
		for _, l := range x.Lhs {
			if f := s.shared(l); f != "" {
				if _, bare := l.(*ast.Ident); bare {
					continue // (re)binding an alias, not a write through it
				}
				ev = append(ev, s.indices(l)...)
				ev = append(ev, "LWrite "+f)
			} else if id, ok := l.(*ast.Ident); ok {
				if s.identKind(id) == "?" {
					s.fail(l, "local %s has a reference type the skeleton does not track", id.Name)
				}
			} else if ix, ok := l.(*ast.IndexExpr); ok {
				ev = append(ev, s.expr(ix.X)...)
				ev = append(ev, s.expr(ix.Index)...)
			}
		}
	case *ast.IncDecStmt:
		if f := s.shared(x.X); f != "" {
			ev = append(ev, "LRead "+f, "LWrite "+f)
		}
	case *ast.DeclStmt:
		gd, ok := x.Decl.(*ast.GenDecl)
		if !ok || gd.Tok != token.VAR {
			s.fail(st, "declaration")
		}
		for _, sp := range gd.Specs {
			for _, v := range sp.(*ast.ValueSpec).Values {
				ev = append(ev, s.expr(v)...)
			}
		}
	case *ast.ReturnStmt:
		for _, r := range x.Results {
			ev = append(ev, s.expr(r)...)
		}
		ev = append(ev, "LRet")
	case *ast.BlockStmt:
		ev = s.stmts(x.List)
	case *ast.IfStmt:
		ev = append(ev, s.stmt(x.Init)...)
		ev = append(ev, s.expr(x.Cond)...)
		var els []string
		if x.Else != nil {
			els = s.stmt(x.Else)
		}
		ev = append(ev, "LIf "+c14list(s.stmts(x.Body.List))+" "+c14list(els))
	case *ast.ForStmt:
		ev = append(ev, s.stmt(x.Init)...)
		cond := append(s.expr(x.Cond), s.stmt(x.Post)...)
		ev = append(ev, "LLoop "+c14list(cond)+" "+c14list(s.stmts(x.Body.List)))
	case *ast.RangeStmt:
		for _, kv := range []ast.Expr{x.Key, x.Value} {
			if id, ok := kv.(*ast.Ident); ok && s.identKind(id) == "?" {
				s.fail(kv, "range variable %s has a reference type the skeleton does not track", id.Name)
			}
		}
		ev = append(ev, s.expr(x.X)...)
		ev = append(ev, "LLoop [] "+c14list(s.stmts(x.Body.List)))
	case *ast.LabeledStmt:
		ev = s.stmt(x.Stmt)
	case *ast.BranchStmt, *ast.EmptyStmt:
		// goto / break / continue inside lock-neutral loops
	default:
		s.fail(st, "statement %T", st)
	}
	return ev
}

func (s *c14sk) method(fd *ast.FuncDecl) []string {
	s.recv = ""
	if n := fd.Recv.List[0].Names; len(n) == 1 {
		s.recv = n[0].Name
	}
	s.params = map[string]bool{}
	for _, f := range fd.Type.Params.List {
		for _, n := range f.Names {
			s.params[n.Name] = true
		}
	}
	return s.stmts(fd.Body.List)
}

func emitC14Locks(w *bytes.Buffer) {
	p := load("bgzf/cache")
	w.WriteString(`(* Lock skeletons of bgzf/cache/cache.go. One event per lock operation on the
   receiver's mutex, per read/write of the receiver's other fields, per call
   of another method of the same receiver (inlined) and per return. *)
Inductive fld := FTable | FList | FNode | FCap | FStats | FInner.
Inductive lev :=
| LWLock | LWUnlock | LRLock | LRUnlock | LDeferWUnlock | LDeferRUnlock
| LRead (f : fld) | LWrite (f : fld) | LRet | LOuter
| LCall (body : list lev)
| LIf (thn els : list lev)
| LLoop (cond body : list lev).
`)
	var api, cacheAPI, statsAPI, readers, writers []string
	for _, rt := range []string{"LRU", "FIFO", "Random", "StatsRecorder"} {
		ms := p.methodsOf(rt)
		if len(ms) == 0 {
			fatalf("lock skeleton: type %s has no methods", rt)
		}
		for _, fd := range ms {
			s := &c14sk{p: p, rtype: rt}
			name := fmt.Sprintf("c14_%s_%s_locks", rt, fd.Name.Name)
			fmt.Fprintf(w, "\n(* %s: func (%s) %s *)\nDefinition %s : list lev :=\n  %s.\n",
				p.fset.Position(fd.Pos()), rt, fd.Name.Name, name, c14list(s.method(fd)))
			if fd.Name.IsExported() {
				api = append(api, name)
				if rt == "StatsRecorder" {
					statsAPI = append(statsAPI, name)
				} else {
					cacheAPI = append(cacheAPI, name)
					// the model's classification (Model/Cache.v, Proofs/CacheTop.v op_is_read):
					// Len, Cap, Peek take the read lock; everything else writes
					switch fd.Name.Name {
					case "Len", "Cap", "Peek":
						readers = append(readers, name)
					default:
						writers = append(writers, name)
					}
				}
			}
		}
	}
	for _, need := range []string{"c14_LRU_drop_locks", "c14_FIFO_drop_locks", "c14_Random_drop_locks"} {
		if !strings.Contains(w.String(), "Definition "+need+" ") {
			fatalf("lock skeleton: helper %s not found", need)
		}
	}
	fmt.Fprintf(w, "\n(* the exported methods: the API whose calls must be atomic *)\nDefinition c14_api_locks : list (list lev) :=\n  %s.\n", c14list(api))
	fmt.Fprintf(w, "\n(* exported methods of LRU, FIFO, Random / of StatsRecorder *)\nDefinition c14_cache_api_locks : list (list lev) :=\n  %s.\nDefinition c14_stats_api_locks : list (list lev) :=\n  %s.\n", c14list(cacheAPI), c14list(statsAPI))
	fmt.Fprintf(w, "\n(* Len, Cap, Peek of the three caches (the model's read operations) / the other cache methods *)\nDefinition c14_reader_locks : list (list lev) :=\n  %s.\nDefinition c14_writer_locks : list (list lev) :=\n  %s.\n", c14list(readers), c14list(writers))

	// Functions without receiver: constructors build objects nobody else has
	// yet; any other function that touches shared state (remove, insertAfter)
	// must be called only from methods of the four types or from such helpers,
	// where the skeletons above inline it under the caller's lock.
	types4 := map[string]bool{"LRU": true, "FIFO": true, "Random": true, "StatsRecorder": true}
	helpers := map[string]bool{}
	var helperNames []string
	for _, file := range p.files {
		for _, d := range file.Decls {
			fd, ok := d.(*ast.FuncDecl)
			if !ok || fd.Recv != nil || fd.Body == nil || strings.HasPrefix(fd.Name.Name, "New") {
				continue
			}
			s := &c14sk{p: p}
			evs := c14list(s.stmts(fd.Body.List))
			if strings.Contains(evs, "LRead") || strings.Contains(evs, "LWrite") {
				helpers[fd.Name.Name] = true
				helperNames = append(helperNames, fd.Name.Name)
			}
		}
	}
	bad := 0
	for _, file := range p.files {
		for _, d := range file.Decls {
			fd, ok := d.(*ast.FuncDecl)
			if !ok || fd.Body == nil {
				continue
			}
			inside := helpers[fd.Name.Name] && fd.Recv == nil
			if fd.Recv != nil && len(fd.Recv.List) == 1 {
				t := fd.Recv.List[0].Type
				if st, ok := t.(*ast.StarExpr); ok {
					t = st.X
				}
				if id, ok := t.(*ast.Ident); ok && types4[id.Name] {
					inside = true
				}
			}
			ast.Inspect(fd.Body, func(n ast.Node) bool {
				if c, ok := n.(*ast.CallExpr); ok {
					if id, ok := c.Fun.(*ast.Ident); ok && helpers[id.Name] && !inside {
						bad++
					}
				}
				if _, ok := n.(*ast.FuncLit); ok && inside {
					bad++ // a closure could escape the critical section
				}
				if _, ok := n.(*ast.GoStmt); ok && inside {
					bad++
				}
				return true
			})
		}
	}
	fmt.Fprintf(w, "\n(* lock-free helpers that touch shared state: %s; calls of them from outside the methods\n   of the four types (or closures / go statements inside those methods) *)\nDefinition c14_helper_count : Z := %d.\nDefinition c14_unlocked_entry_points : Z := %d.\n",
		strings.Join(helperNames, ", "), len(helperNames), bad)
}
