package main

// C16: things read off sam/cigar.go and sam/record.go.
//
//   sam_consume         the `consume` table as list (Query, Reference)
//   sam_CigarOpType_Consumes  func (ct CigarOpType) Consumes(): optional clamp `if ct > K { ct = K }`
//                       followed by the bounds-checked index expression consume[ct]
//   sam_CigarOp_Type    func (co CigarOp) Type()    (receiver becomes a parameter)
//   sam_CigarOp_Len     func (co CigarOp) Len()
//   sam_NewCigarOp      func NewCigarOp(t, n) with its panic guard
//   sam_Record_Bin      func (r *Record) Bin(): the flag test and the constant are
//                       read from the source; r.Flags, r.Pos and the value of
//                       r.End() become parameters

import (
	"bytes"
	"fmt"
	"go/ast"
	"go/constant"
	"go/token"
	"strings"
)

func init() {
	emitters["25_c16_sam"] = func(w *bytes.Buffer) {
		sm := load("sam")
		c16Consume(w, sm)
		c16Consumes(w, sm)
		c16Method(w, sm, "CigarOp", "Type", "sam_CigarOp_Type")
		c16Method(w, sm, "CigarOp", "Len", "sam_CigarOp_Len")
		c16NewCigarOp(w, sm)
		c16RecordBin(w, sm)
	}
}

func c16ConstInt(p *pkgInfo, e ast.Expr) (int64, bool) {
	tv, ok := p.info.Types[e]
	if !ok || tv.Value == nil || tv.Value.Kind() != constant.Int {
		return 0, false
	}
	return constant.Int64Val(tv.Value)
}

// c16Consume emits the table `var consume = []Consume{key: {Query: q, Reference: r}, ...}`.
func c16Consume(w *bytes.Buffer, p *pkgInfo) {
	var lit *ast.CompositeLit
	for _, f := range p.files {
		for _, d := range f.Decls {
			gd, ok := d.(*ast.GenDecl)
			if !ok || gd.Tok != token.VAR {
				continue
			}
			for _, sp := range gd.Specs {
				vs := sp.(*ast.ValueSpec)
				for i, n := range vs.Names {
					if n.Name == "consume" && len(vs.Values) > i {
						lit, _ = vs.Values[i].(*ast.CompositeLit)
					}
				}
			}
		}
	}
	if lit == nil {
		fatalf("sam: table `consume` not found as a composite literal")
	}
	type ent struct{ q, r int64 }
	tab := map[int64]ent{}
	max := int64(-1)
	next := int64(0)
	for _, el := range lit.Elts {
		idx := next
		val := el
		if kv, ok := el.(*ast.KeyValueExpr); ok {
			k, ok := c16ConstInt(p, kv.Key)
			if !ok {
				fatalf("sam: consume: non-constant key")
			}
			idx = k
			val = kv.Value
		}
		cl, ok := val.(*ast.CompositeLit)
		if !ok {
			fatalf("sam: consume: element %d is not a composite literal", idx)
		}
		var e ent
		for j, f := range cl.Elts {
			kv, ok := f.(*ast.KeyValueExpr)
			var name string
			var ve ast.Expr
			if ok {
				name = kv.Key.(*ast.Ident).Name
				ve = kv.Value
			} else {
				name = []string{"Query", "Reference"}[j]
				ve = f
			}
			v, ok := c16ConstInt(p, ve)
			if !ok {
				fatalf("sam: consume: non-constant field")
			}
			switch name {
			case "Query":
				e.q = v
			case "Reference":
				e.r = v
			default:
				fatalf("sam: consume: unknown field %s", name)
			}
		}
		if _, dup := tab[idx]; dup {
			fatalf("sam: consume: duplicate index %d", idx)
		}
		tab[idx] = e
		if idx > max {
			max = idx
		}
		next = idx + 1
	}
	var parts []string
	zi := func(v int64) string {
		if v < 0 {
			return fmt.Sprintf("(%d)", v)
		}
		return fmt.Sprint(v)
	}
	for i := int64(0); i <= max; i++ {
		e := tab[i]
		parts = append(parts, "("+zi(e.q)+", "+zi(e.r)+")")
	}
	fmt.Fprintf(w, "\n(* %s: var consume, as (Query, Reference) *)\n", p.fset.Position(lit.Pos()))
	fmt.Fprintf(w, "Definition sam_consume : list (Z * Z) := [%s].\n", strings.Join(parts, "; "))
}

// c16Consumes: `[if <cond on ct> { ct = <expr> }] return consume[ct]`.
func c16Consumes(w *bytes.Buffer, p *pkgInfo) {
	fd := p.funcDecl("CigarOpType", "Consumes")
	if fd.Recv == nil || len(fd.Recv.List) != 1 || len(fd.Recv.List[0].Names) != 1 {
		fatalf("sam: CigarOpType.Consumes: unexpected receiver")
	}
	rn := fd.Recv.List[0].Names[0].Name
	t := &tr{p: p, prefix: "sam", fn: fd}
	b := fd.Body.List
	isIndex := func(s ast.Stmt) bool {
		rs, ok := s.(*ast.ReturnStmt)
		if !ok || len(rs.Results) != 1 {
			return false
		}
		ix, ok := rs.Results[0].(*ast.IndexExpr)
		if !ok {
			return false
		}
		x, ok1 := ix.X.(*ast.Ident)
		i, ok2 := ix.Index.(*ast.Ident)
		return ok1 && ok2 && x.Name == "consume" && i.Name == rn
	}
	clamp := ""
	switch {
	case len(b) == 1 && isIndex(b[0]):
	case len(b) == 2 && isIndex(b[1]):
		ifs, ok := b[0].(*ast.IfStmt)
		if !ok || ifs.Init != nil || ifs.Else != nil || len(ifs.Body.List) != 1 {
			fatalf("sam: CigarOpType.Consumes: guard shape changed")
		}
		as, ok := ifs.Body.List[0].(*ast.AssignStmt)
		if !ok || as.Tok != token.ASSIGN || len(as.Lhs) != 1 || len(as.Rhs) != 1 {
			fatalf("sam: CigarOpType.Consumes: guard body is not an assignment")
		}
		if id, ok := as.Lhs[0].(*ast.Ident); !ok || id.Name != rn {
			fatalf("sam: CigarOpType.Consumes: guard assigns to something else than the receiver")
		}
		var idx []string
		cond := t.expr(ifs.Cond, &idx)
		val := t.expr(as.Rhs[0], &idx)
		if len(idx) != 0 {
			fatalf("sam: CigarOpType.Consumes: index expression in guard")
		}
		clamp = fmt.Sprintf("let v_%s := if %s then %s else v_%s in\n", rn, cond, val, rn)
	default:
		fatalf("sam: CigarOpType.Consumes: body no longer `[if c { ct = k }] return consume[ct]`")
	}
	fmt.Fprintf(w, "\n(* %s: func (%s CigarOpType) Consumes, as (Query, Reference) *)\n", p.fset.Position(fd.Pos()), rn)
	fmt.Fprintf(w, "Definition sam_CigarOpType_Consumes (v_%s : Z) : outcome (Z * Z) :=\n%sif (0 <=? v_%s) && (v_%s <? zlen sam_consume) then Ok (nth (Z.to_nat v_%s) sam_consume (0, 0)) else Panic 1.\n", rn, clamp, rn, rn, rn)
}

// c16Method translates a value-receiver method whose body is straight-line
// integer code by turning the receiver into the first parameter.
func c16Method(w *bytes.Buffer, p *pkgInfo, recv, name, coqName string) {
	fd := p.funcDecl(recv, name)
	if fd.Recv == nil || len(fd.Recv.List) != 1 || len(fd.Recv.List[0].Names) != 1 {
		fatalf("sam: %s.%s: unexpected receiver", recv, name)
	}
	t := &tr{p: p, prefix: "sam", fn: fd}
	rn := fd.Recv.List[0].Names[0].Name
	if fd.Type.Params != nil && len(fd.Type.Params.List) != 0 {
		fatalf("sam: %s.%s: parameters not expected", recv, name)
	}
	body := t.stmts(fd.Body.List, nil)
	fmt.Fprintf(w, "\n(* %s: func (%s %s) %s *)\n", p.fset.Position(fd.Pos()), rn, recv, name)
	fmt.Fprintf(w, "Definition %s (v_%s : Z) : outcome (Z) :=\n%s.\n", coqName, rn, body)
}

func c16IsPanic(s ast.Stmt) bool {
	es, ok := s.(*ast.ExprStmt)
	if !ok {
		return false
	}
	ce, ok := es.X.(*ast.CallExpr)
	if !ok {
		return false
	}
	id, ok := ce.Fun.(*ast.Ident)
	return ok && id.Name == "panic"
}

// c16NewCigarOp: `if <cond> { panic(..) }; return <expr>`.
func c16NewCigarOp(w *bytes.Buffer, p *pkgInfo) {
	fd := p.funcDecl("", "NewCigarOp")
	t := &tr{p: p, prefix: "sam", fn: fd}
	b := fd.Body.List
	if len(b) != 2 {
		fatalf("sam: NewCigarOp: body no longer `if guard { panic }; return`")
	}
	ifs, ok := b[0].(*ast.IfStmt)
	if !ok || ifs.Init != nil || ifs.Else != nil || len(ifs.Body.List) != 1 || !c16IsPanic(ifs.Body.List[0]) {
		fatalf("sam: NewCigarOp: guard shape changed")
	}
	var params []string
	for _, f := range fd.Type.Params.List {
		for _, n := range f.Names {
			params = append(params, "(v_"+n.Name+" : Z)")
		}
	}
	var idx []string
	cond := t.expr(ifs.Cond, &idx)
	if len(idx) != 0 {
		fatalf("sam: NewCigarOp: index expression in guard")
	}
	rest := t.stmts(b[1:], nil)
	fmt.Fprintf(w, "\n(* %s: func NewCigarOp *)\n", p.fset.Position(fd.Pos()))
	fmt.Fprintf(w, "Definition sam_NewCigarOp %s : outcome (Z) :=\nif %s then (Panic 2) else (\n%s).\n", strings.Join(params, " "), cond, rest)
}

// c16Sel rewrites r.X selectors of the receiver into fresh identifiers X (in place).
func c16Sel(recv string, e ast.Expr) ast.Expr {
	switch e := e.(type) {
	case *ast.SelectorExpr:
		if id, ok := e.X.(*ast.Ident); ok && id.Name == recv {
			return &ast.Ident{Name: e.Sel.Name, NamePos: e.Pos()}
		}
	case *ast.BinaryExpr:
		e.X = c16Sel(recv, e.X)
		e.Y = c16Sel(recv, e.Y)
	case *ast.ParenExpr:
		e.X = c16Sel(recv, e.X)
	}
	return e
}

// c16RecordBin: `if <flag test> { return K }; return int(internal.BinFor(r.Pos, r.End()))`.
func c16RecordBin(w *bytes.Buffer, p *pkgInfo) {
	fd := p.funcDecl("Record", "Bin")
	t := &tr{p: p, prefix: "sam", fn: fd}
	rn := fd.Recv.List[0].Names[0].Name
	b := fd.Body.List
	isBinForCall := func(s ast.Stmt) bool {
		rs, ok := s.(*ast.ReturnStmt)
		if !ok || len(rs.Results) != 1 {
			return false
		}
		conv, ok := rs.Results[0].(*ast.CallExpr)
		if !ok || len(conv.Args) != 1 {
			return false
		}
		if id, ok := conv.Fun.(*ast.Ident); !ok || id.Name != "int" {
			return false
		}
		call, ok := conv.Args[0].(*ast.CallExpr)
		if !ok || len(call.Args) != 2 {
			return false
		}
		sel, ok := call.Fun.(*ast.SelectorExpr)
		if !ok || sel.Sel.Name != "BinFor" {
			return false
		}
		if x, ok := sel.X.(*ast.Ident); !ok || x.Name != "internal" {
			return false
		}
		a0, ok := call.Args[0].(*ast.SelectorExpr)
		if !ok || a0.Sel.Name != "Pos" {
			return false
		}
		if x, ok := a0.X.(*ast.Ident); !ok || x.Name != rn {
			return false
		}
		a1, ok := call.Args[1].(*ast.CallExpr)
		if !ok || len(a1.Args) != 0 {
			return false
		}
		s1, ok := a1.Fun.(*ast.SelectorExpr)
		if !ok || s1.Sel.Name != "End" {
			return false
		}
		if x, ok := s1.X.(*ast.Ident); !ok || x.Name != rn {
			return false
		}
		return true
	}
	tail := "obind v_End (fun v_e => internal_BinFor v_Pos v_e)"
	fmt.Fprintf(w, "\n(* %s: func (%s *Record) Bin; v_End is the outcome of %s.End() *)\n", p.fset.Position(fd.Pos()), rn, rn)
	switch {
	case len(b) == 1 && isBinForCall(b[0]):
		fmt.Fprintf(w, "Definition sam_Record_Bin (v_Flags : Z) (v_Pos : Z) (v_End : outcome Z) : outcome (Z) :=\n%s.\n", tail)
	case len(b) == 2 && isBinForCall(b[1]):
		ifs, ok := b[0].(*ast.IfStmt)
		if !ok || ifs.Init != nil || ifs.Else != nil || len(ifs.Body.List) != 1 {
			fatalf("sam: Record.Bin: guard shape changed")
		}
		rs, ok := ifs.Body.List[0].(*ast.ReturnStmt)
		if !ok || len(rs.Results) != 1 {
			fatalf("sam: Record.Bin: guard body is not a return")
		}
		k, ok := c16ConstInt(p, rs.Results[0])
		if !ok {
			fatalf("sam: Record.Bin: guard does not return a constant")
		}
		var idx []string
		cond := t.expr(c16Sel(rn, ifs.Cond), &idx)
		if len(idx) != 0 {
			fatalf("sam: Record.Bin: index expression in guard")
		}
		fmt.Fprintf(w, "Definition sam_Record_Bin (v_Flags : Z) (v_Pos : Z) (v_End : outcome Z) : outcome (Z) :=\nif %s then (Ok (%d)) else (\n%s).\n", cond, k, tail)
	default:
		fatalf("sam: Record.Bin: body no longer `[if flags { return K }] return int(internal.BinFor(r.Pos, r.End()))`")
	}
}
