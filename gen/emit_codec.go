package main

import "bytes"

func init() {
	emitters["10_itf8"] = func(w *bytes.Buffer) {
		itf := load("cram/encoding/itf8")
		itf.emitFunc(w, "itf8", "", "Len", nil, nil)
		itf.emitFunc(w, "itf8", "", "Decode", nil, nil)
		itf.emitFunc(w, "itf8", "", "Encode", []string{"b"}, nil)
	}
	emitters["11_ltf8"] = func(w *bytes.Buffer) {
		ltf := load("cram/encoding/ltf8")
		ltf.emitFunc(w, "ltf8", "", "Len", nil, nil)
		ltf.emitFunc(w, "ltf8", "", "Decode", nil, nil)
		ltf.emitFunc(w, "ltf8", "", "Encode", []string{"b"}, nil)
	}
	emitters["20_internal"] = func(w *bytes.Buffer) {
		in := load("internal")
		in.emitConsts(w, "internal")
		in.emitFunc(w, "internal", "", "IsValidIndexPos", nil, nil)
		in.emitFunc(w, "internal", "", "BinFor", nil, nil)
	}
	emitters["30_bgzf"] = func(w *bytes.Buffer) {
		bg := load("bgzf")
		bg.emitConsts(w, "bgzf")
		bg.emitFunc(w, "bgzf", "", "compressBound", nil, nil)
	}
	// Integer and string constants of the remaining packages (prefix = package name).
	emitters["40_consts"] = func(w *bytes.Buffer) {
		for _, d := range [][2]string{{"sam", "sam"}, {"bam", "bam"}, {"csi", "csi"}, {"tabix", "tabix"},
			{"fai", "fai"}, {"bgzf/index", "bgzfindex"}, {"bgzf/cache", "bgzfcache"}, {"cram", "cram"}} {
			load(d[0]).emitConsts(w, d[1])
		}
	}
}
