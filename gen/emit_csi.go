package main

// C16/C04: csi.reg2bin translated statement by statement (a three-clause for
// loop over uint32/int64 scalars with an early return), see forStmt in main.go.

import "bytes"

func init() {
	emitters["26_csi_reg2bin"] = func(w *bytes.Buffer) {
		cs := load("csi")
		cs.emitFunc(w, "csigen", "", "reg2bin", nil, nil)
	}
}
