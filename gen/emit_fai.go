package main

// C19 (fai): facts read off fai/fai.go.
//
//   - Record.position and Record.endOfLineOffset are loop-free integer
//     methods; they are translated to Gallina with the integer fields of the
//     receiver as leading parameters (struct order) and an explicit panic
//     outcome for a zero divisor (Go: "integer divide by zero").
//     Go int and int64 are both unbounded Z here (DESIGN.md section 3).
//   - fai_NewIndex_blank_advances: whether the arm of NewIndex that skips a
//     blank line adds the line's byte length to the running offset before
//     `continue` (the same statement that ends the loop body).
//
// The emitter aborts when the source no longer has the shape it understands.

import (
	"bytes"
	"fmt"
	"go/ast"
	"go/parser"
	"go/printer"
	"go/token"
	"go/types"
	"os"
	"path/filepath"
	"sort"
	"strings"
)

func init() {
	emitters["50_fai"] = func(w *bytes.Buffer) {
		p := faiLoad()
		faiEmitRecordMethod(w, p, "position")
		faiEmitRecordMethod(w, p, "endOfLineOffset")
		faiEmitBlankArm(w, p)
	}
}

// faiEmptyImporter gives every import an empty package: the functions read
// here use only the package's own integer fields, so nothing of the imports
// is needed (and type-checking the standard library from source is slow).
type faiEmptyImporter struct{}

func (faiEmptyImporter) Import(path string) (*types.Package, error) {
	p := types.NewPackage(path, filepath.Base(path))
	p.MarkComplete()
	return p, nil
}

func faiLoad() *pkgInfo {
	fset := token.NewFileSet()
	pkgs, err := parser.ParseDir(fset, filepath.Join(repo, "fai"), func(fi os.FileInfo) bool {
		n := fi.Name()
		return !strings.HasSuffix(n, "_test.go") && !strings.HasPrefix(n, "verif_")
	}, 0)
	if err != nil || pkgs["fai"] == nil {
		fatalf("parse fai: %v", err)
	}
	var names []string
	for n := range pkgs["fai"].Files {
		names = append(names, n)
	}
	sort.Strings(names)
	var files []*ast.File
	for _, n := range names {
		files = append(files, pkgs["fai"].Files[n])
	}
	info := &types.Info{Types: map[ast.Expr]types.TypeAndValue{}, Defs: map[*ast.Ident]types.Object{}, Uses: map[*ast.Ident]types.Object{}}
	conf := types.Config{Importer: faiEmptyImporter{}, Error: func(error) {}}
	pkg, _ := conf.Check("github.com/biogo/hts/fai", fset, files, info)
	return &pkgInfo{dir: "fai", name: "fai", fset: fset, files: files, info: info, pkg: pkg}
}

type faiTr struct {
	p    *pkgInfo
	fd   *ast.FuncDecl
	recv string
}

func (t *faiTr) fail(n ast.Node, format string, a ...interface{}) {
	fatalf("%s: unsupported Go in fai %s: %s", t.p.fset.Position(n.Pos()), t.fd.Name.Name, fmt.Sprintf(format, a...))
}

func (t *faiTr) expr(e ast.Expr, guards *[]string) string {
	if tv, ok := t.p.info.Types[e]; ok && tv.Value != nil {
		if s, ok := constZ(tv.Value); ok {
			return s
		}
	}
	switch e := e.(type) {
	case *ast.ParenExpr:
		return t.expr(e.X, guards)
	case *ast.Ident:
		return "v_" + e.Name
	case *ast.SelectorExpr:
		if x, ok := e.X.(*ast.Ident); ok && x.Name == t.recv {
			return "r_" + e.Sel.Name
		}
		t.fail(e, "selector")
	case *ast.CallExpr:
		if tv, ok := t.p.info.Types[e.Fun]; ok && tv.IsType() && len(e.Args) == 1 {
			b, ok := tv.Type.Underlying().(*types.Basic)
			if !ok || (b.Kind() != types.Int && b.Kind() != types.Int64) {
				t.fail(e, "conversion to %v", tv.Type)
			}
			return t.expr(e.Args[0], guards) // int <-> int64: both unbounded Z
		}
		t.fail(e, "call")
	case *ast.BinaryExpr:
		x := t.expr(e.X, guards)
		y := t.expr(e.Y, guards)
		switch e.Op {
		case token.ADD:
			return "(" + x + " + " + y + ")"
		case token.SUB:
			return "(" + x + " - " + y + ")"
		case token.MUL:
			return "(" + x + " * " + y + ")"
		case token.QUO:
			*guards = append(*guards, "(negb ("+y+" =? 0))")
			return "(Z.quot " + x + " " + y + ")"
		case token.REM:
			*guards = append(*guards, "(negb ("+y+" =? 0))")
			return "(Z.rem " + x + " " + y + ")"
		case token.EQL:
			return "(" + x + " =? " + y + ")"
		case token.NEQ:
			return "(negb (" + x + " =? " + y + "))"
		case token.LSS:
			return "(" + x + " <? " + y + ")"
		case token.LEQ:
			return "(" + x + " <=? " + y + ")"
		case token.GTR:
			return "(" + y + " <? " + x + ")"
		case token.GEQ:
			return "(" + y + " <=? " + x + ")"
		}
		t.fail(e, "binary %s", e.Op)
	}
	t.fail(e, "expression %T", e)
	return ""
}

func faiGuard(guards []string, k string) string {
	for i := len(guards) - 1; i >= 0; i-- {
		k = "chk " + guards[i] + " (" + k + ")"
	}
	return k
}

func (t *faiTr) stmts(list []ast.Stmt) string {
	if len(list) == 0 {
		t.fail(t.fd, "falls off the end")
	}
	switch s := list[0].(type) {
	case *ast.ReturnStmt:
		if len(s.Results) != 1 {
			t.fail(s, "return arity")
		}
		var g []string
		v := t.expr(s.Results[0], &g)
		return faiGuard(g, "Ok "+v)
	case *ast.IfStmt:
		if s.Init != nil || s.Else != nil {
			t.fail(s, "if with init/else")
		}
		var g []string
		c := t.expr(s.Cond, &g)
		return faiGuard(g, "if "+c+" then ("+t.stmts(s.Body.List)+") else ("+t.stmts(list[1:])+")")
	}
	t.fail(list[0], "statement %T", list[0])
	return ""
}

func faiEmitRecordMethod(w *bytes.Buffer, p *pkgInfo, name string) {
	fd := p.funcDecl("Record", name)
	if fd.Recv == nil || len(fd.Recv.List[0].Names) != 1 {
		fatalf("fai: %s has no named receiver", name)
	}
	t := &faiTr{p: p, fd: fd, recv: fd.Recv.List[0].Names[0].Name}
	// integer fields of Record in declaration order
	var fields []string
	obj := p.pkg.Scope().Lookup("Record")
	if obj == nil {
		fatalf("fai: type Record not found")
	}
	st, ok := obj.Type().Underlying().(*types.Struct)
	if !ok {
		fatalf("fai: Record is not a struct")
	}
	for i := 0; i < st.NumFields(); i++ {
		if b, ok := st.Field(i).Type().Underlying().(*types.Basic); ok && b.Info()&types.IsInteger != 0 {
			fields = append(fields, "r_"+st.Field(i).Name())
		}
	}
	var params []string
	for _, f := range fd.Type.Params.List {
		for _, n := range f.Names {
			params = append(params, "v_"+n.Name)
		}
	}
	fmt.Fprintf(w, "\n(* %s: func (Record) %s; receiver fields: %s *)\n", p.fset.Position(fd.Pos()), name, strings.Join(fields, " "))
	fmt.Fprintf(w, "Definition fai_Record_%s (%s : Z) (%s : Z) : outcome Z :=\n  %s.\n",
		name, strings.Join(fields, " "), strings.Join(params, " "), t.stmts(fd.Body.List))
}

func faiSrc(p *pkgInfo, n ast.Node) string {
	var b bytes.Buffer
	printer.Fprint(&b, p.fset, n)
	return b.String()
}

func faiEmitBlankArm(w *bytes.Buffer, p *pkgInfo) {
	fd := p.funcDecl("", "NewIndex")
	var loop *ast.ForStmt
	for _, s := range fd.Body.List {
		if f, ok := s.(*ast.ForStmt); ok {
			loop = f
		}
	}
	if loop == nil || len(loop.Body.List) < 3 {
		fatalf("fai: NewIndex has no scan loop")
	}
	// last statement of the loop body: offset += <line length>
	last, ok := loop.Body.List[len(loop.Body.List)-1].(*ast.AssignStmt)
	if !ok || last.Tok != token.ADD_ASSIGN || len(last.Lhs) != 1 || faiSrc(p, last.Lhs[0]) != "offset" {
		fatalf("fai: NewIndex loop does not end with offset += ...")
	}
	adv := faiSrc(p, last)
	var arm *ast.IfStmt
	for _, s := range loop.Body.List {
		if i, ok := s.(*ast.IfStmt); ok && faiSrc(p, i.Cond) == "len(b) == 0" {
			arm = i
			break
		}
	}
	if arm == nil || arm.Else != nil || len(arm.Body.List) == 0 {
		fatalf("fai: NewIndex has no blank-line arm `if len(b) == 0 { ... continue }`")
	}
	body := arm.Body.List
	if br, ok := body[len(body)-1].(*ast.BranchStmt); !ok || br.Tok != token.CONTINUE {
		fatalf("fai: blank-line arm of NewIndex does not end with continue")
	}
	advances := false
	for _, s := range body[:len(body)-1] {
		if faiSrc(p, s) == adv && !advances {
			advances = true
			continue
		}
		fatalf("%s: fai: unexpected statement in the blank-line arm of NewIndex: %s", p.fset.Position(s.Pos()), faiSrc(p, s))
	}
	fmt.Fprintf(w, "\n(* %s: blank-line arm of NewIndex; `%s` before continue: %v *)\n", p.fset.Position(arm.Pos()), adv, advances)
	fmt.Fprintf(w, "Definition fai_NewIndex_blank_advances : bool := %v.\n", advances)
}
