package main

// emit_haseof.go reads off bgzf.HasEOF (bgzf/bgzf.go) how the stream size is
// computed for each kind of io.ReaderAt the function distinguishes in its
// type switch, as a sum of atoms, and whether the marker is read at
// size - len(magicBlock).  Model/HasEof.v interprets the table; Props/C08.v
// proves haseof_iff_marker over it.  Unknown shapes abort loudly.

import (
	"bytes"
	"fmt"
	"go/ast"
	"go/token"
	"strings"
)

func init() {
	emitters["32_bgzf_haseof"] = func(w *bytes.Buffer) {
		p := load("bgzf")
		fd := p.funcDecl("", "HasEOF")
		w.WriteString("\nInductive he_kind : Type := HSizer | HStater | HLenSeeker.\n")
		w.WriteString("Inductive he_atom : Type := ASize | AStatSize | ASeekCur | ALen.\n")
		var ts *ast.TypeSwitchStmt
		ast.Inspect(fd.Body, func(n ast.Node) bool {
			if t, ok := n.(*ast.TypeSwitchStmt); ok && ts == nil {
				ts = t
			}
			return true
		})
		if ts == nil {
			fatalf("HasEOF: no type switch")
		}
		// local interface types: name -> method set
		ifaces := map[string][]string{}
		ast.Inspect(fd.Body, func(n ast.Node) bool {
			spec, ok := n.(*ast.TypeSpec)
			if !ok {
				return true
			}
			it, ok := spec.Type.(*ast.InterfaceType)
			if !ok {
				return true
			}
			var ms []string
			for _, m := range it.Methods.List {
				if len(m.Names) == 1 {
					ms = append(ms, m.Names[0].Name)
				} else if sel, ok := m.Type.(*ast.SelectorExpr); ok {
					ms = append(ms, "embed:"+sel.Sel.Name)
				}
			}
			ifaces[spec.Name.Name] = ms
			return true
		})
		kindOf := func(name string) string {
			ms := strings.Join(ifaces[name], ",")
			switch ms {
			case "Size":
				return "HSizer"
			case "Stat":
				return "HStater"
			case "embed:Seeker,Len":
				return "HLenSeeker"
			}
			fatalf("HasEOF: case type %s with unknown method set [%s]", name, ms)
			return ""
		}
		var rows []string
		hasDefault := false
		for _, st := range ts.Body.List {
			cc := st.(*ast.CaseClause)
			if cc.List == nil {
				hasDefault = true
				// default must return ErrNoEnd
				ok := false
				for _, s := range cc.Body {
					if r, isr := s.(*ast.ReturnStmt); isr && len(r.Results) == 2 {
						if id, isid := r.Results[1].(*ast.Ident); isid && id.Name == "ErrNoEnd" {
							ok = true
						}
					}
				}
				if !ok {
					fatalf("HasEOF: default case does not return ErrNoEnd")
				}
				continue
			}
			if len(cc.List) != 1 {
				fatalf("HasEOF: case with several types")
			}
			id, ok := cc.List[0].(*ast.Ident)
			if !ok {
				fatalf("HasEOF: case type is not an identifier")
			}
			kind := kindOf(id.Name)
			var atoms []string
			statVar := ""
			atomOf := func(e ast.Expr) string {
				for {
					if c, ok := e.(*ast.CallExpr); ok && len(c.Args) == 1 {
						if f, ok := c.Fun.(*ast.Ident); ok && (f.Name == "int64" || f.Name == "int") {
							e = c.Args[0]
							continue
						}
					}
					break
				}
				c, ok := e.(*ast.CallExpr)
				if !ok {
					fatalf("%s: HasEOF: size term is not a call", p.fset.Position(e.Pos()))
				}
				sel, ok := c.Fun.(*ast.SelectorExpr)
				if !ok {
					fatalf("%s: HasEOF: size term is not a method call", p.fset.Position(e.Pos()))
				}
				recv, _ := sel.X.(*ast.Ident)
				switch {
				case sel.Sel.Name == "Size" && recv != nil && recv.Name == statVar && statVar != "":
					return "AStatSize"
				case sel.Sel.Name == "Size" && len(c.Args) == 0:
					return "ASize"
				case sel.Sel.Name == "Len" && len(c.Args) == 0:
					return "ALen"
				case sel.Sel.Name == "Seek" && len(c.Args) == 2:
					a0, ok0 := p.info.Types[c.Args[0]]
					a1, ok1 := p.info.Types[c.Args[1]]
					if ok0 && ok1 && a0.Value != nil && a1.Value != nil && a0.Value.ExactString() == "0" && a1.Value.ExactString() == "1" {
						return "ASeekCur"
					}
				}
				fatalf("%s: HasEOF: unknown size term", p.fset.Position(e.Pos()))
				return ""
			}
			for _, s := range cc.Body {
				as, ok := s.(*ast.AssignStmt)
				if !ok {
					continue // var err error, if err != nil { return ... }
				}
				lhs0, _ := as.Lhs[0].(*ast.Ident)
				if lhs0 == nil {
					fatalf("%s: HasEOF: assignment to a non-identifier", p.fset.Position(as.Pos()))
				}
				if lhs0.Name != "size" {
					// fi, err := r.Stat()
					if c, ok := as.Rhs[0].(*ast.CallExpr); ok {
						if sel, ok := c.Fun.(*ast.SelectorExpr); ok && sel.Sel.Name == "Stat" {
							statVar = lhs0.Name
							continue
						}
					}
					fatalf("%s: HasEOF: unexpected assignment in a size case", p.fset.Position(as.Pos()))
				}
				if len(as.Rhs) != 1 {
					fatalf("%s: HasEOF: size assigned from several expressions", p.fset.Position(as.Pos()))
				}
				switch as.Tok {
				case token.ASSIGN, token.DEFINE:
					atoms = []string{atomOf(as.Rhs[0])}
				case token.ADD_ASSIGN:
					atoms = append(atoms, atomOf(as.Rhs[0]))
				default:
					fatalf("%s: HasEOF: size updated with %s", p.fset.Position(as.Pos()), as.Tok)
				}
			}
			if len(atoms) == 0 {
				fatalf("HasEOF: case %s does not set size", id.Name)
			}
			rows = append(rows, fmt.Sprintf("(%s, [%s])", kind, strings.Join(atoms, "; ")))
		}
		if !hasDefault {
			fatalf("HasEOF: type switch has no default case")
		}
		// the marker is read at size - int64(len(magicBlock)) into a buffer of len(magicBlock) bytes
		offOK := false
		ast.Inspect(fd.Body, func(n ast.Node) bool {
			c, ok := n.(*ast.CallExpr)
			if !ok {
				return true
			}
			sel, ok := c.Fun.(*ast.SelectorExpr)
			if !ok || sel.Sel.Name != "ReadAt" || len(c.Args) != 2 {
				return true
			}
			var buf bytes.Buffer
			for _, ch := range exprString(c.Args[1]) {
				if ch != ' ' {
					buf.WriteRune(ch)
				}
			}
			if buf.String() == "size-int64(len(magicBlock))" {
				offOK = true
			}
			return true
		})
		fmt.Fprintf(w, "(* %s: func HasEOF *)\n", p.fset.Position(fd.Pos()))
		fmt.Fprintf(w, "Definition bgzf_haseof_size : list (he_kind * list he_atom) := [%s].\n", strings.Join(rows, "; "))
		fmt.Fprintf(w, "Definition bgzf_haseof_reads_at_size_minus_marker : bool := %v.\n", offOK)
	}
}

func exprString(e ast.Expr) string {
	switch e := e.(type) {
	case *ast.Ident:
		return e.Name
	case *ast.BinaryExpr:
		return exprString(e.X) + e.Op.String() + exprString(e.Y)
	case *ast.CallExpr:
		var as []string
		for _, a := range e.Args {
			as = append(as, exprString(a))
		}
		return exprString(e.Fun) + "(" + strings.Join(as, ",") + ")"
	case *ast.SelectorExpr:
		return exprString(e.X) + "." + e.Sel.Name
	case *ast.ParenExpr:
		return "(" + exprString(e.X) + ")"
	case *ast.BasicLit:
		return e.Value
	}
	return "?"
}
