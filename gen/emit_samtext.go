package main

// Tables and literals of package sam that the C06 model (coq/Model/SamText.v)
// is built on: nucleotide tables, CIGAR operation letters / consumption table /
// parse lookup, aux kind table, the MarshalSAM format string and the flag
// letters. Read off the Go source, so that a change to any of them changes
// Generated.v and is seen by the proofs and the correspondence.

import (
	"bytes"
	"fmt"
	"go/ast"
	"go/constant"
	"go/token"
	"go/types"
	"strings"
)

func (p *pkgInfo) c06VarLit(name string) *ast.CompositeLit {
	for _, f := range p.files {
		for _, d := range f.Decls {
			gd, ok := d.(*ast.GenDecl)
			if !ok || gd.Tok != token.VAR {
				continue
			}
			for _, s := range gd.Specs {
				vs := s.(*ast.ValueSpec)
				for i, n := range vs.Names {
					if n.Name == name && i < len(vs.Values) {
						if cl, ok := vs.Values[i].(*ast.CompositeLit); ok {
							return cl
						}
					}
				}
			}
		}
	}
	fatalf("%s: table %s not found", p.dir, name)
	return nil
}

func (p *pkgInfo) constOf(e ast.Expr) constant.Value {
	if tv, ok := p.info.Types[e]; ok && tv.Value != nil {
		return tv.Value
	}
	if id, ok := e.(*ast.Ident); ok {
		if c, ok := p.info.Uses[id].(*types.Const); ok {
			return c.Val()
		}
	}
	pos := p.fset.Position(e.Pos())
	fatalf("%s: expression is not a constant", pos)
	return nil
}

func (p *pkgInfo) c06ConstInt(e ast.Expr) int {
	v := p.constOf(e)
	n, ok := constant.Int64Val(constant.ToInt(v))
	if !ok {
		fatalf("%s: not an integer constant", p.fset.Position(e.Pos()))
	}
	return int(n)
}

// litElems lists (index, value expression) of an array/slice literal, filled
// to size entries (nil = zero value) when size > 0.
func (p *pkgInfo) litElems(cl *ast.CompositeLit, size int) []ast.Expr {
	var out []ast.Expr
	idx := 0
	for _, e := range cl.Elts {
		v := e
		if kv, ok := e.(*ast.KeyValueExpr); ok {
			idx = p.c06ConstInt(kv.Key)
			v = kv.Value
		}
		for len(out) <= idx {
			out = append(out, nil)
		}
		out[idx] = v
		idx++
	}
	for len(out) < size {
		out = append(out, nil)
	}
	return out
}

func (p *pkgInfo) arrayLen(cl *ast.CompositeLit) int {
	if tv, ok := p.info.Types[cl]; ok && tv.Type != nil {
		if a, ok := tv.Type.Underlying().(*types.Array); ok {
			return int(a.Len())
		}
	}
	if at, ok := cl.Type.(*ast.ArrayType); ok && at.Len != nil {
		return p.c06ConstInt(at.Len)
	}
	return 0
}

// emitIntTable: Definition <prefix>_<name> : list Z.
func (p *pkgInfo) c06EmitIntTable(w *bytes.Buffer, prefix, name string) {
	cl := p.c06VarLit(name)
	var parts []string
	for _, e := range p.litElems(cl, p.arrayLen(cl)) {
		if e == nil {
			parts = append(parts, "0")
			continue
		}
		parts = append(parts, fmt.Sprint(p.c06ConstInt(e)))
	}
	fmt.Fprintf(w, "Definition %s_%s : list Z := [%s].\n", prefix, name, strings.Join(parts, "; "))
}

// emitStrTable: list of byte strings.
func (p *pkgInfo) emitStrTable(w *bytes.Buffer, prefix, name string) {
	cl := p.c06VarLit(name)
	var parts []string
	for _, e := range p.litElems(cl, p.arrayLen(cl)) {
		if e == nil {
			parts = append(parts, "[]")
			continue
		}
		parts = append(parts, bytesList(constant.StringVal(p.constOf(e))))
	}
	fmt.Fprintf(w, "Definition %s_%s : list (list Z) := [%s].\n", prefix, name, strings.Join(parts, "; "))
}

// emitStructTable: list of tuples of the named integer fields.
func (p *pkgInfo) c06EmitStructTable(w *bytes.Buffer, prefix, name string, fields []string) {
	cl := p.c06VarLit(name)
	var parts []string
	for _, e := range p.litElems(cl, p.arrayLen(cl)) {
		vals := make([]string, len(fields))
		for i := range vals {
			vals[i] = "0"
		}
		if e != nil {
			sl, ok := e.(*ast.CompositeLit)
			if !ok {
				fatalf("%s: element of %s is not a struct literal", p.dir, name)
			}
			for _, fe := range sl.Elts {
				kv, ok := fe.(*ast.KeyValueExpr)
				if !ok {
					fatalf("%s: unkeyed struct literal in %s", p.dir, name)
				}
				k := kv.Key.(*ast.Ident).Name
				found := false
				for i, f := range fields {
					if f == k {
						n := p.c06ConstInt(kv.Value)
						vals[i] = fmt.Sprint(n)
						if n < 0 {
							vals[i] = fmt.Sprintf("(%d)", n)
						}
						found = true
					}
				}
				if !found {
					fatalf("%s: unexpected field %s in %s", p.dir, k, name)
				}
			}
		}
		parts = append(parts, "("+strings.Join(vals, ", ")+")")
	}
	fmt.Fprintf(w, "Definition %s_%s : list (Z * Z) := [%s].\n", prefix, name, strings.Join(parts, "; "))
}

// stringLits collects string literals (constant values) that appear inside a
// function body, in source order.
func (p *pkgInfo) stringLits(fd *ast.FuncDecl) []string {
	var out []string
	ast.Inspect(fd.Body, func(n ast.Node) bool {
		if bl, ok := n.(*ast.BasicLit); ok && bl.Kind == token.STRING {
			out = append(out, constant.StringVal(p.constOf(bl)))
		}
		return true
	})
	return out
}

// byteSliceLits collects []byte{...} literals of constants inside a function.
func (p *pkgInfo) byteSliceLits(fd *ast.FuncDecl) [][]int {
	var out [][]int
	ast.Inspect(fd.Body, func(n ast.Node) bool {
		cl, ok := n.(*ast.CompositeLit)
		if !ok {
			return true
		}
		at, ok := cl.Type.(*ast.ArrayType)
		if !ok {
			return true
		}
		if id, ok := at.Elt.(*ast.Ident); !ok || id.Name != "byte" {
			return true
		}
		var v []int
		for _, e := range cl.Elts {
			if _, ok := e.(*ast.KeyValueExpr); ok {
				return true
			}
			v = append(v, p.c06ConstInt(e))
		}
		out = append(out, v)
		return true
	})
	return out
}

func intsList(v []int) string {
	var parts []string
	for _, x := range v {
		parts = append(parts, fmt.Sprint(x))
	}
	return "[" + strings.Join(parts, "; ") + "]"
}

func init() {
	emitters["41_samtext"] = func(w *bytes.Buffer) {
		s := load("sam")
		s.c06EmitIntTable(w, "sam", "n16TableRev")
		s.c06EmitIntTable(w, "sam", "n16Table")
		s.emitStrTable(w, "sam", "cigarOps")
		s.c06EmitStructTable(w, "sam", "consume", []string{"Query", "Reference"})
		s.c06EmitIntTable(w, "sam", "auxKind")
		s.c06EmitIntTable(w, "sam", "powers")
		// init() in cigar.go: the letters whose position is the operation code.
		var initLetters []int
		for _, f := range s.files {
			for _, d := range f.Decls {
				fd, ok := d.(*ast.FuncDecl)
				if !ok || fd.Name.Name != "init" || fd.Recv != nil {
					continue
				}
				for _, l := range s.byteSliceLits(fd) {
					if len(l) >= 9 {
						initLetters = l
					}
				}
			}
		}
		if initLetters == nil {
			fatalf("sam: CIGAR letter list in init() not found")
		}
		fmt.Fprintf(w, "Definition sam_cigarLetters : list Z := %s.\n", intsList(initLetters))
		// MarshalSAM: the format strings of the line and of one aux field.
		ms := s.stringLits(s.funcDecl("Record", "MarshalSAM"))
		var fm []string
		for _, x := range ms {
			if strings.Contains(x, "%") {
				fm = append(fm, x)
			}
		}
		if len(fm) != 2 {
			fatalf("sam: MarshalSAM no longer has exactly two format strings (%q)", fm)
		}
		fmt.Fprintf(w, "Definition sam_MarshalSAM_format : list Z := %s.\n", bytesList(fm[0]))
		fmt.Fprintf(w, "Definition sam_MarshalSAM_auxformat : list Z := %s.\n", bytesList(fm[1]))
		// formatFlags: the hexadecimal format and the flag letters.
		ff := s.stringLits(s.funcDecl("", "formatFlags"))
		var hexf, letters string
		for _, x := range ff {
			if strings.Contains(x, "%") {
				hexf = x
			} else if len(x) == 12 {
				letters = x
			}
		}
		fmt.Fprintf(w, "Definition sam_formatFlags_hexformat : list Z := %s.\n", bytesList(hexf))
		fmt.Fprintf(w, "Definition sam_formatFlags_letters : list Z := %s.\n", bytesList(letters))
		// samAux.String: format strings in source order.
		var afs []string
		for _, x := range s.stringLits(s.funcDecl("samAux", "String")) {
			afs = append(afs, bytesList(x))
		}
		fmt.Fprintf(w, "Definition sam_samAux_formats : list (list Z) := [%s].\n", strings.Join(afs, "; "))
		// CigarOp.String
		var cfs []string
		for _, x := range s.stringLits(s.funcDecl("CigarOp", "String")) {
			cfs = append(cfs, bytesList(x))
		}
		fmt.Fprintf(w, "Definition sam_CigarOp_formats : list (list Z) := [%s].\n", strings.Join(cfs, "; "))
	}
}
