package main

// Translation of bgzf/index/strategy.go (C17): vOffset, adjacent, squash and
// the closure returned by CompressorStrategy, statement by statement, into
// Gallina over the vocabulary of coq/Base/Chunks.v.
//
// Beyond the straight-line subset of main.go this file understands exactly
// what those functions use and aborts (exit 2) on anything else:
//
//   - values of type bgzf.Offset / bgzf.Chunk / []bgzf.Chunk and field reads
//     x.Begin, x.End, o.File, o.Block;
//   - x := chunks[i] (a copy of the element) and p := &chunks[i] (a pointer
//     into the slice: reads of p.F read chunks[i] as it is at that moment,
//     p.F = e stores into chunks[i]); a pointer must not be used after the
//     slice variable has been reassigned;
//   - chunks = append(chunks[:a], chunks[b:]...) as the deletion of
//     chunks[a:b] (guarded by a <= b, so the result fits in place);
//   - for c := k; cond; c++ { ... } as a recursive function on a fuel argument
//     that returns Stuck when the fuel runs out, the state being the variables
//     assigned in the body;
//   - for _, c := range s { ... } as a left fold over the elements of s;
//   - return nil / return chunks / return []bgzf.Chunk{{Begin: l, End: r}}.
//
// int64 arithmetic wraps explicitly (i64), the loop index (Go int) is an
// unbounded Z, index and slice expressions are bounds-checked (chk).

import (
	"bytes"
	"fmt"
	"go/ast"
	"go/importer"
	"go/parser"
	"go/token"
	"go/types"
	"os"
	"path/filepath"
	"sort"
	"strings"
)

func init() {
	emitters["50_strategy"] = emitStrategy
}

type pkgImporter struct {
	known map[string]*types.Package
	soft  types.Importer
}

func (p pkgImporter) Import(path string) (*types.Package, error) {
	if q, ok := p.known[path]; ok {
		return q, nil
	}
	return p.soft.Import(path)
}

// loadWith is load() with some imports resolved to already checked packages.
func loadWith(dir string, known map[string]*types.Package) *pkgInfo {
	fset := token.NewFileSet()
	full := filepath.Join(repo, dir)
	pkgs, err := parser.ParseDir(fset, full, func(fi os.FileInfo) bool {
		n := fi.Name()
		return !strings.HasSuffix(n, "_test.go") && !strings.HasPrefix(n, "verif_")
	}, parser.ParseComments)
	if err != nil {
		fatalf("parse %s: %v", dir, err)
	}
	var p *ast.Package
	for name, q := range pkgs {
		if name == "main" || strings.HasSuffix(name, "_test") {
			continue
		}
		p = q
	}
	if p == nil {
		fatalf("no package in %s", dir)
	}
	var names []string
	for n := range p.Files {
		names = append(names, n)
	}
	sort.Strings(names)
	var files []*ast.File
	for _, n := range names {
		files = append(files, p.Files[n])
	}
	info := &types.Info{
		Types: map[ast.Expr]types.TypeAndValue{},
		Defs:  map[*ast.Ident]types.Object{},
		Uses:  map[*ast.Ident]types.Object{},
	}
	conf := types.Config{
		Importer: pkgImporter{known, softImporter{importer.ForCompiler(fset, "source", nil)}},
		Error:    func(error) {},
	}
	pkg, _ := conf.Check("github.com/biogo/hts/"+dir, fset, files, info)
	return &pkgInfo{dir: dir, name: p.Name, fset: fset, files: files, info: info, pkg: pkg}
}

// ---------------------------------------------------------------- translator

type alias struct{ base, idx string } // p := &base[idx]

type st struct {
	p      *pkgInfo
	fn     string
	w      *bytes.Buffer
	prefix string
	params string // extra parameters of helper definitions (closure variables), with leading space
	pargs  string
	nloop  int
}

func (t *st) fail(n ast.Node, format string, a ...interface{}) {
	pos := t.p.fset.Position(n.Pos())
	fatalf("%s: unsupported Go in %s: %s", pos, t.fn, fmt.Sprintf(format, a...))
}

func (t *st) typeOf(e ast.Expr) types.Type {
	tv, ok := t.p.info.Types[e]
	if !ok || tv.Type == nil {
		t.fail(e, "no type for expression")
	}
	if b, ok := tv.Type.(*types.Basic); ok && b.Kind() == types.Invalid {
		t.fail(e, "expression has no valid type (import not resolved?)")
	}
	return tv.Type
}

func namedName(ty types.Type) string {
	if p, ok := ty.(*types.Pointer); ok {
		ty = p.Elem()
	}
	if n, ok := ty.(*types.Named); ok {
		return n.Obj().Name()
	}
	return ""
}

// coqTy maps the Go types that occur in strategy.go.
func (t *st) coqTy(n ast.Node, ty types.Type) string {
	switch namedName(ty) {
	case "Chunk":
		return "chunk"
	case "Offset":
		return "offset"
	}
	switch u := ty.Underlying().(type) {
	case *types.Basic:
		if u.Info()&types.IsInteger != 0 {
			return "Z"
		}
		if u.Info()&types.IsBoolean != 0 {
			return "bool"
		}
	case *types.Slice:
		if namedName(u.Elem()) == "Chunk" {
			return "list chunk"
		}
	}
	t.fail(n, "type %v", ty)
	return ""
}

func wrap64(ty types.Type, s string) string {
	switch wrapOf(ty) {
	case "":
		return s
	case "s64":
		return "(i64 " + s + ")"
	}
	return "(" + wrapOf(ty) + " " + s + ")"
}

var fieldFn = map[string]string{"File": "o_File", "Block": "o_Block", "Begin": "c_Begin", "End": "c_End"}
var fieldSet = map[string]string{"Begin": "set_Begin", "End": "set_End"}

type env struct {
	alias map[string]alias
}

func (e env) fork() env {
	m := map[string]alias{}
	for k, v := range e.alias {
		m[k] = v
	}
	return env{m}
}

func (t *st) expr(e ast.Expr, en env, idx *[]string) string {
	if tv, ok := t.p.info.Types[e]; ok && tv.Value != nil {
		if s, ok := constZ(tv.Value); ok {
			return s
		}
	}
	switch e := e.(type) {
	case *ast.ParenExpr:
		return t.expr(e.X, en, idx)
	case *ast.Ident:
		if a, ok := en.alias[e.Name]; ok {
			return "(getc " + a.base + " " + a.idx + ")"
		}
		if _, isptr := t.typeOf(e).(*types.Pointer); isptr {
			t.fail(e, "pointer %s used after its slice was reassigned (or unknown pointer)", e.Name)
		}
		return "v_" + e.Name
	case *ast.SelectorExpr:
		f, ok := fieldFn[e.Sel.Name]
		if !ok {
			t.fail(e, "selector .%s", e.Sel.Name)
		}
		switch namedName(t.typeOf(e.X)) {
		case "Chunk", "Offset":
		default:
			t.fail(e, "field of %v", t.typeOf(e.X))
		}
		return "(" + f + " " + t.expr(e.X, en, idx) + ")"
	case *ast.IndexExpr:
		x := t.expr(e.X, en, idx)
		i := t.expr(e.Index, en, idx)
		*idx = append(*idx, "(inb "+x+" "+i+")")
		return "(getc " + x + " " + i + ")"
	case *ast.BinaryExpr:
		x := t.expr(e.X, en, idx)
		y := t.expr(e.Y, en, idx)
		ty := t.typeOf(e)
		switch e.Op {
		case token.ADD:
			return wrap64(ty, "("+x+" + "+y+")")
		case token.SUB:
			return wrap64(ty, "("+x+" - "+y+")")
		case token.SHL:
			return wrap64(ty, "(Z.shiftl "+x+" "+y+")")
		case token.OR:
			return "(Z.lor " + x + " " + y + ")"
		case token.LSS:
			return "(" + x + " <? " + y + ")"
		case token.LEQ:
			return "(" + x + " <=? " + y + ")"
		case token.GTR:
			return "(" + y + " <? " + x + ")"
		case token.GEQ:
			return "(" + y + " <=? " + x + ")"
		case token.EQL:
			return "(" + x + " =? " + y + ")"
		case token.NEQ:
			return "(negb (" + x + " =? " + y + "))"
		case token.LAND:
			return "(" + x + " && " + y + ")"
		case token.LOR:
			return "(" + x + " || " + y + ")"
		}
		t.fail(e, "binary %s", e.Op)
	case *ast.CallExpr:
		if tv, ok := t.p.info.Types[e.Fun]; ok && tv.IsType() {
			if len(e.Args) != 1 {
				t.fail(e, "conversion arity")
			}
			return wrap64(tv.Type, t.expr(e.Args[0], en, idx))
		}
		if id, ok := e.Fun.(*ast.Ident); ok {
			switch id.Name {
			case "len":
				return "(zlen " + t.expr(e.Args[0], en, idx) + ")"
			case "vOffset":
				return "(" + t.prefix + "_vOffset " + t.expr(e.Args[0], en, idx) + ")"
			}
		}
		t.fail(e, "call")
	}
	t.fail(e, "expression %T", e)
	return ""
}

// sliceOf recognises s[lo:] / s[:hi] / s[lo:hi] of an identifier.
func (t *st) sliceOf(e ast.Expr, en env, idx *[]string) (base, val string) {
	se, ok := e.(*ast.SliceExpr)
	if !ok || se.Slice3 {
		t.fail(e, "slice expression expected")
	}
	id, ok := se.X.(*ast.Ident)
	if !ok {
		t.fail(e, "slice of a non-variable")
	}
	base = "v_" + id.Name
	val = base
	if se.High != nil {
		h := t.expr(se.High, en, idx)
		*idx = append(*idx, "(slb "+base+" "+h+")")
		val = "(slice_to " + val + " " + h + ")"
	}
	if se.Low != nil {
		l := t.expr(se.Low, en, idx)
		if se.High != nil {
			t.fail(e, "two-sided slice")
		}
		*idx = append(*idx, "(slb "+base+" "+l+")")
		val = "(slice_from " + val + " " + l + ")"
	}
	return base, val
}

// assigned collects the outer variables a statement list assigns to.
func (t *st) assigned(list []ast.Stmt, local map[string]bool, ptr map[string]string, out map[string]bool) {
	for _, s := range list {
		switch s := s.(type) {
		case *ast.AssignStmt:
			for i, l := range s.Lhs {
				switch l := l.(type) {
				case *ast.Ident:
					if s.Tok == token.DEFINE {
						local[l.Name] = true
						if u, ok := s.Rhs[i].(*ast.UnaryExpr); ok && u.Op == token.AND {
							if ix, ok := u.X.(*ast.IndexExpr); ok {
								if b, ok := ix.X.(*ast.Ident); ok {
									ptr[l.Name] = b.Name
								}
							}
						}
					} else if !local[l.Name] {
						out[l.Name] = true
					}
				case *ast.SelectorExpr:
					if x, ok := l.X.(*ast.Ident); ok {
						if b, ok := ptr[x.Name]; ok && !local[b] {
							out[b] = true
						}
					}
				}
			}
		case *ast.IncDecStmt:
			if id, ok := s.X.(*ast.Ident); ok && !local[id.Name] {
				out[id.Name] = true
			}
		case *ast.IfStmt:
			t.assigned(s.Body.List, local, ptr, out)
			if b, ok := s.Else.(*ast.BlockStmt); ok {
				t.assigned(b.List, local, ptr, out)
			}
		case *ast.BlockStmt:
			t.assigned(s.List, local, ptr, out)
		}
	}
}

// stmts translates a statement list; fin is what to emit when control falls
// off the end (the loop state for loop bodies).
func (t *st) stmts(list []ast.Stmt, rest []ast.Stmt, en env, fin string, vtypes map[string]string) string {
	if len(list) == 0 {
		if len(rest) == 0 {
			if fin == "" {
				fatalf("%s: control reaches the end of the function", t.fn)
			}
			return fin
		}
		return t.stmts(rest, nil, en, fin, vtypes)
	}
	s, tail := list[0], list[1:]
	cont := func() string { return t.stmts(tail, rest, en, fin, vtypes) }
	switch s := s.(type) {
	case *ast.ReturnStmt:
		if len(s.Results) != 1 {
			t.fail(s, "return arity")
		}
		var idx []string
		r := s.Results[0]
		if id, ok := r.(*ast.Ident); ok && id.Name == "nil" {
			return "Ok []"
		}
		if cl, ok := r.(*ast.CompositeLit); ok {
			// []bgzf.Chunk{{Begin: x, End: y}, ...}
			var els []string
			for _, el := range cl.Elts {
				c, ok := el.(*ast.CompositeLit)
				if !ok || len(c.Elts) != 2 {
					t.fail(el, "chunk literal")
				}
				var b, e string
				for _, kv := range c.Elts {
					k, ok := kv.(*ast.KeyValueExpr)
					if !ok {
						t.fail(kv, "keyed chunk literal expected")
					}
					switch k.Key.(*ast.Ident).Name {
					case "Begin":
						b = t.expr(k.Value, en, &idx)
					case "End":
						e = t.expr(k.Value, en, &idx)
					}
				}
				if b == "" || e == "" {
					t.fail(el, "chunk literal fields")
				}
				els = append(els, "mk_chunk "+b+" "+e)
			}
			return guard(idx, "Ok ["+strings.Join(els, "; ")+"]")
		}
		return guard(idx, "Ok "+t.expr(r, en, &idx))
	case *ast.AssignStmt:
		if len(s.Lhs) != 1 || len(s.Rhs) != 1 {
			t.fail(s, "multi-assignment")
		}
		var idx []string
		switch lhs := s.Lhs[0].(type) {
		case *ast.Ident:
			name := "v_" + lhs.Name
			// p := &chunks[i]
			if u, ok := s.Rhs[0].(*ast.UnaryExpr); ok && u.Op == token.AND {
				ix, ok := u.X.(*ast.IndexExpr)
				if !ok || s.Tok != token.DEFINE {
					t.fail(s, "address-of")
				}
				b, ok := ix.X.(*ast.Ident)
				if !ok {
					t.fail(s, "address-of base")
				}
				i := t.expr(ix.Index, en, &idx)
				idx = append(idx, "(inb v_"+b.Name+" "+i+")")
				en.alias[lhs.Name] = alias{"v_" + b.Name, "p_" + lhs.Name}
				return guard(idx, "let p_"+lhs.Name+" := "+i+" in\n"+cont())
			}
			// chunks = append(chunks[:a], chunks[b:]...)
			if c, ok := s.Rhs[0].(*ast.CallExpr); ok {
				if f, ok := c.Fun.(*ast.Ident); ok && f.Name == "append" {
					if s.Tok != token.ASSIGN || len(c.Args) != 2 || !c.Ellipsis.IsValid() {
						t.fail(s, "append form")
					}
					a0, ok0 := c.Args[0].(*ast.SliceExpr)
					a1, ok1 := c.Args[1].(*ast.SliceExpr)
					if !ok0 || !ok1 || a0.Low != nil || a0.High == nil || a1.High != nil || a1.Low == nil {
						t.fail(s, "append(s[:a], s[b:]...) expected")
					}
					b0, v0 := t.sliceOf(a0, en, &idx)
					b1, v1 := t.sliceOf(a1, en, &idx)
					if b0 != name || b1 != name {
						t.fail(s, "append must delete from the assigned slice")
					}
					var dummy []string
					idx = append(idx, "("+t.expr(a0.High, en, &dummy)+" <=? "+t.expr(a1.Low, en, &dummy)+")")
					for k, a := range en.alias {
						if a.base == name {
							delete(en.alias, k)
						}
					}
					return guard(idx, "let "+name+" := ("+v0+" ++ "+v1+") in\n"+cont())
				}
			}
			if s.Tok != token.ASSIGN && s.Tok != token.DEFINE {
				t.fail(s, "assignment operator %s", s.Tok)
			}
			rhs := t.expr(s.Rhs[0], en, &idx)
			if s.Tok == token.DEFINE {
				vtypes[lhs.Name] = t.coqTy(s, t.typeOf(s.Rhs[0]))
			}
			if _, sl := t.typeOf(s.Rhs[0]).Underlying().(*types.Slice); sl && s.Tok == token.ASSIGN {
				for k, a := range en.alias {
					if a.base == name {
						delete(en.alias, k)
					}
				}
			}
			return guard(idx, "let "+name+" := "+rhs+" in\n"+cont())
		case *ast.SelectorExpr:
			// p.F = e through a pointer into a slice
			x, ok := lhs.X.(*ast.Ident)
			if !ok || s.Tok != token.ASSIGN {
				t.fail(s, "field store")
			}
			a, ok := en.alias[x.Name]
			if !ok {
				t.fail(s, "field store through %s, which is not a live pointer into a slice", x.Name)
			}
			set, ok := fieldSet[lhs.Sel.Name]
			if !ok {
				t.fail(s, "store to field %s", lhs.Sel.Name)
			}
			rhs := t.expr(s.Rhs[0], en, &idx)
			return guard(idx, "let "+a.base+" := setc "+a.base+" "+a.idx+" ("+set+" (getc "+a.base+" "+a.idx+") "+rhs+") in\n"+cont())
		}
		t.fail(s, "assignment target")
	case *ast.IncDecStmt:
		id, ok := s.X.(*ast.Ident)
		if !ok {
			t.fail(s, "inc/dec target")
		}
		op := "+"
		if s.Tok == token.DEC {
			op = "-"
		}
		name := "v_" + id.Name
		return "let " + name + " := " + wrap64(t.typeOf(s.X), "("+name+" "+op+" 1)") + " in\n" + cont()
	case *ast.IfStmt:
		if s.Init != nil || s.Else != nil {
			t.fail(s, "if with init or else")
		}
		var idx []string
		c := t.expr(s.Cond, en, &idx)
		after := append(append([]ast.Stmt{}, tail...), rest...)
		thn := t.stmts(s.Body.List, after, en.fork(), fin, vtypes)
		els := t.stmts(after, nil, en.fork(), fin, vtypes)
		return guard(idx, "if "+c+" then (\n"+thn+") else (\n"+els+")")
	case *ast.ForStmt:
		return t.forLoop(s, tail, rest, en, fin, vtypes)
	case *ast.RangeStmt:
		return t.rangeLoop(s, tail, rest, en, fin, vtypes)
	}
	t.fail(s, "statement %T", s)
	return ""
}

func stateOf(vars []string, vtypes map[string]string) (binders, tuple, tys string) {
	var bs, vs, ts []string
	for _, v := range vars {
		bs = append(bs, "(v_"+v+" : "+vtypes[v]+")")
		vs = append(vs, "v_"+v)
		ts = append(ts, vtypes[v])
	}
	tuple = strings.Join(vs, ", ")
	if len(vs) > 1 {
		tuple = "(" + tuple + ")"
	}
	return strings.Join(bs, " "), tuple, strings.Join(ts, " * ")
}

func destruct(vars []string, from string) string {
	if len(vars) == 1 {
		return "let v_" + vars[0] + " := " + from + " in\n"
	}
	var vs []string
	for _, v := range vars {
		vs = append(vs, "v_"+v)
	}
	return "let '(" + strings.Join(vs, ", ") + ") := " + from + " in\n"
}

// forLoop: for i := k; cond; i++ { body }
func (t *st) forLoop(s *ast.ForStmt, tail, rest []ast.Stmt, en env, fin string, vtypes map[string]string) string {
	init, ok := s.Init.(*ast.AssignStmt)
	if !ok || init.Tok != token.DEFINE || len(init.Lhs) != 1 {
		t.fail(s, "loop init")
	}
	iv := init.Lhs[0].(*ast.Ident).Name
	post, ok := s.Post.(*ast.IncDecStmt)
	if !ok || post.Tok != token.INC || post.X.(*ast.Ident).Name != iv {
		t.fail(s, "loop post statement")
	}
	for _, b := range s.Body.List {
		ast.Inspect(b, func(n ast.Node) bool {
			switch n.(type) {
			case *ast.BranchStmt, *ast.ReturnStmt:
				t.fail(n, "break/continue/return in loop body")
			}
			return true
		})
	}
	var idx []string
	vtypes[iv] = t.coqTy(init, t.typeOf(init.Rhs[0]))
	out := map[string]bool{iv: true}
	t.assigned(s.Body.List, map[string]bool{}, map[string]string{}, out)
	var vars []string
	for v := range out {
		if v != iv {
			vars = append(vars, v)
		}
	}
	sort.Strings(vars)
	vars = append(vars, iv)
	binders, tuple, tys := stateOf(vars, vtypes)
	t.nloop++
	name := fmt.Sprintf("%s_%s_loop%d", t.prefix, t.fn, t.nloop)
	// body
	body := t.stmts(s.Body.List, nil, env{map[string]alias{}}, "Ok "+tuple, vtypes)
	fmt.Fprintf(t.w, "\n(* %s: body of the loop *)\n", t.p.fset.Position(s.Pos()))
	fmt.Fprintf(t.w, "Definition %s_body%s %s : outcome (%s) :=\n%s.\n", name, t.params, binders, tys, body)
	var cidx []string
	cond := t.expr(s.Cond, env{map[string]alias{}}, &cidx)
	fmt.Fprintf(t.w, "\n(* %s: the loop; Stuck when the fuel runs out *)\n", t.p.fset.Position(s.Pos()))
	fmt.Fprintf(t.w, "Fixpoint %s%s (fuel : nat) %s {struct fuel} : outcome (%s) :=\nmatch fuel with\n| O => Stuck\n| S fuel =>\n%s\nend.\n",
		name, t.params, binders, tys,
		guard(cidx, "if "+cond+" then (\nobind ("+name+"_body"+t.pargs+" "+strings.ReplaceAll(strings.Trim(tuple, "()"), ",", "")+") (fun st =>\n"+
			destruct(vars, "st")+
			"let v_"+iv+" := "+wrap64(t.typeOf(post.X), "(v_"+iv+" + 1)")+" in\n"+
			name+t.pargs+" fuel "+strings.ReplaceAll(strings.Trim(tuple, "()"), ",", "")+")) else (\nOk "+tuple+")"))
	initv := t.expr(init.Rhs[0], en, &idx)
	k := t.stmts(tail, rest, en, fin, vtypes)
	return guard(idx, "let v_"+iv+" := "+initv+" in\nobind ("+name+t.pargs+" fuel "+strings.ReplaceAll(strings.Trim(tuple, "()"), ",", "")+") (fun st =>\n"+destruct(vars, "st")+k+")")
}

// rangeLoop: for _, x := range s { body }
func (t *st) rangeLoop(s *ast.RangeStmt, tail, rest []ast.Stmt, en env, fin string, vtypes map[string]string) string {
	if s.Tok != token.DEFINE || s.Value == nil {
		t.fail(s, "range form")
	}
	if k, ok := s.Key.(*ast.Ident); !ok || k.Name != "_" {
		t.fail(s, "range key must be _")
	}
	xv := s.Value.(*ast.Ident).Name
	for _, b := range s.Body.List {
		ast.Inspect(b, func(n ast.Node) bool {
			switch n.(type) {
			case *ast.BranchStmt, *ast.ReturnStmt:
				t.fail(n, "break/continue/return in loop body")
			}
			return true
		})
	}
	var idx []string
	var seq string
	if _, ok := s.X.(*ast.SliceExpr); ok {
		_, seq = t.sliceOf(s.X, en, &idx)
	} else {
		seq = t.expr(s.X, en, &idx)
	}
	sl, ok := t.typeOf(s.X).Underlying().(*types.Slice)
	if !ok {
		t.fail(s, "range over a non-slice")
	}
	vtypes[xv] = t.coqTy(s, sl.Elem())
	out := map[string]bool{}
	t.assigned(s.Body.List, map[string]bool{xv: true}, map[string]string{}, out)
	var vars []string
	for v := range out {
		vars = append(vars, v)
	}
	sort.Strings(vars)
	if len(vars) == 0 {
		t.fail(s, "range loop without effect")
	}
	_, tuple, _ := stateOf(vars, vtypes)
	body := t.stmts(s.Body.List, nil, env{map[string]alias{}}, "Ok "+tuple, vtypes)
	k := t.stmts(tail, rest, en, fin, vtypes)
	return guard(idx, "obind (fold_left (fun acc v_"+xv+" => obind acc (fun st =>\n"+destruct(vars, "st")+body+")) "+seq+" (Ok "+tuple+")) (fun st =>\n"+destruct(vars, "st")+k+")")
}

// emitStrategyFunc translates a function literal or declaration whose single
// parameter is the chunk slice; extra are the closure variables.
func (t *st) emitFunc(pos token.Pos, name string, ftype *ast.FuncType, body *ast.BlockStmt, extra [][2]string) {
	t.fn = name
	t.nloop = 0
	t.params, t.pargs = "", ""
	vtypes := map[string]string{}
	for _, e := range extra {
		t.params += " (v_" + e[0] + " : " + e[1] + ")"
		t.pargs += " v_" + e[0]
		vtypes[e[0]] = e[1]
	}
	var params []string
	for _, f := range ftype.Params.List {
		ty := t.coqTy(f, t.p.info.Types[f.Type].Type)
		for _, n := range f.Names {
			params = append(params, "(v_"+n.Name+" : "+ty+")")
			vtypes[n.Name] = ty
		}
	}
	if ftype.Results == nil || len(ftype.Results.List) != 1 {
		t.fail(ftype, "result arity")
	}
	rty := t.coqTy(ftype.Results.List[0], t.p.info.Types[ftype.Results.List[0].Type].Type)
	usesFuel := false
	ast.Inspect(body, func(n ast.Node) bool {
		if _, ok := n.(*ast.ForStmt); ok {
			usesFuel = true
		}
		return true
	})
	var defs bytes.Buffer
	saved := t.w
	t.w = &defs
	txt := t.stmts(body.List, nil, env{map[string]alias{}}, "", vtypes)
	t.w = saved
	t.w.Write(defs.Bytes())
	fuel := ""
	if usesFuel {
		fuel = " (fuel : nat)"
	}
	fmt.Fprintf(t.w, "\n(* %s: func %s *)\n", t.p.fset.Position(pos), name)
	fmt.Fprintf(t.w, "Definition %s_%s%s%s %s : outcome (%s) :=\n%s.\n", t.prefix, name, t.params, fuel, strings.Join(params, " "), rty, txt)
}

func emitStrategy(w *bytes.Buffer) {
	bg := load("bgzf")
	p := loadWith("bgzf/index", map[string]*types.Package{"github.com/biogo/hts/bgzf": bg.pkg})
	t := &st{p: p, w: w, prefix: "bgzfindex"}
	w.WriteString("From Hts Require Import Base.Chunks.\n")

	// vOffset: a single return of an expression over the fields of its argument.
	vo := p.funcDecl("", "vOffset")
	t.fn = "vOffset"
	if len(vo.Body.List) != 1 {
		t.fail(vo, "vOffset is expected to be a single return")
	}
	ret, ok := vo.Body.List[0].(*ast.ReturnStmt)
	if !ok || len(ret.Results) != 1 {
		t.fail(vo, "vOffset is expected to be a single return")
	}
	var idx []string
	arg := vo.Type.Params.List[0].Names[0].Name
	fmt.Fprintf(w, "\n(* %s: func vOffset *)\n", p.fset.Position(vo.Pos()))
	fmt.Fprintf(w, "Definition bgzfindex_vOffset (v_%s : offset) : Z :=\n%s.\n", arg, t.expr(ret.Results[0], env{map[string]alias{}}, &idx))
	if len(idx) != 0 {
		t.fail(vo, "vOffset indexes")
	}

	for _, name := range []string{"adjacent", "squash"} {
		fd := p.funcDecl("", name)
		t.emitFunc(fd.Pos(), name, fd.Type, fd.Body, nil)
	}

	// CompressorStrategy(near) returns a function literal; near is its only free variable.
	cs := p.funcDecl("", "CompressorStrategy")
	t.fn = "CompressorStrategy"
	if len(cs.Body.List) != 1 || len(cs.Type.Params.List) != 1 || len(cs.Type.Params.List[0].Names) != 1 {
		t.fail(cs, "CompressorStrategy is expected to return a function literal of its one parameter")
	}
	r, ok := cs.Body.List[0].(*ast.ReturnStmt)
	if !ok || len(r.Results) != 1 {
		t.fail(cs, "CompressorStrategy is expected to return a function literal")
	}
	fl, ok := r.Results[0].(*ast.FuncLit)
	if !ok {
		t.fail(cs, "CompressorStrategy is expected to return a function literal")
	}
	pn := cs.Type.Params.List[0].Names[0].Name
	pty := t.coqTy(cs, p.info.Types[cs.Type.Params.List[0].Type].Type)
	t.emitFunc(cs.Pos(), "CompressorStrategy", fl.Type, fl.Body, [][2]string{{pn, pty}})

	// identity must return its argument.
	id := p.funcDecl("", "identity")
	t.emitFunc(id.Pos(), "identity", id.Type, id.Body, nil)

	// The exported strategies must be bound to these functions.
	want := map[string]string{"Identity": "identity", "Adjacent": "adjacent", "Squash": "squash"}
	for _, f := range p.files {
		for _, d := range f.Decls {
			gd, ok := d.(*ast.GenDecl)
			if !ok || gd.Tok != token.VAR {
				continue
			}
			for _, sp := range gd.Specs {
				vs := sp.(*ast.ValueSpec)
				for i, n := range vs.Names {
					if fn, ok := want[n.Name]; ok {
						if len(vs.Values) <= i {
							fatalf("bgzf/index: %s has no initialiser", n.Name)
						}
						v, ok := vs.Values[i].(*ast.Ident)
						if !ok || v.Name != fn {
							fatalf("bgzf/index: %s is no longer bound to %s", n.Name, fn)
						}
						delete(want, n.Name)
					}
				}
			}
		}
	}
	if len(want) != 0 {
		fatalf("bgzf/index: exported strategies not found: %v", want)
	}
}
